/-
  Driver.lean — `fvdriver <subcommand>`: line protocol (stdin → stdout) over the
  executable model definitions.  Core-only: imports Model/* and Core/* only.
-/
import FerretVerif.Model.Num
import FerretVerif.Drv.Limbs
import FerretVerif.Drv.Literal
import FerretVerif.Drv.Layout
import FerretVerif.Drv.Toml
import FerretVerif.Drv.DepGraph
import FerretVerif.Drv.RtMap
import FerretVerif.Drv.Core
import FerretVerif.Drv.Cfg
import FerretVerif.Drv.Mut
import FerretVerif.Drv.Lexer
import FerretVerif.Drv.Diag
import FerretVerif.Drv.Visibility
import FerretVerif.Drv.Borrow
import FerretVerif.Drv.QbeSel
import FerretVerif.Drv.WasmSel
import FerretVerif.Drv.WasmAlloc

open FerretVerif

def eachLine (f : String → String) : IO Unit := do
  let stdin ← IO.getStdin
  let stdout ← IO.getStdout
  let rec loop : Nat → IO Unit
    | 0 => pure ()
    | n + 1 => do
      let line ← stdin.getLine
      if line.isEmpty then return ()
      let l := (line.dropRightWhile (fun c => c == '\n' || c == '\r'))
      stdout.putStrLn (f l)
      loop n
  loop 1000000000
  stdout.flush

open FerretVerif.Drv

def eachLineState {σ : Type} (init : σ) (f : σ → String → σ × String) : IO Unit := do
  let stdin ← IO.getStdin
  let stdout ← IO.getStdout
  let rec loop : Nat → σ → IO Unit
    | 0, _ => pure ()
    | n + 1, st => do
      let line ← stdin.getLine
      if line.isEmpty then return ()
      let l := (line.dropRightWhile (fun c => c == '\n' || c == '\r'))
      let (st', out) := f st l
      stdout.putStrLn out
      loop n st'
  loop 1000000000 init
  stdout.flush

def cmdLossless (l : String) : String :=
  match fields l with
  | [s, t] =>
    match Num.NumTy.ofName? s, Num.NumTy.ofName? t with
    | some s, some t =>
      let d := Num.losslessDec s t
      s!"{d} {(Num.lossWitness s t).getD "-"}"
    | _, _ => "bad-op"
  | _ => "bad-op"

def main (args : List String) : IO UInt32 := do
  match args with
  | ["lossless"] => eachLine cmdLossless; return 0
  | ["limbs"] => eachLine cmdLimbs; return 0
  | ["literal"] => eachLine cmdLiteral; return 0
  | ["layout"] => eachLine cmdLayout; return 0
  | ["mut"] => eachLine cmdMut; return 0
  | ["cfg"] => eachLine cmdCfg; return 0
  | ["cfg-covers"] => eachLine cmdCfgCovers; return 0
  | ["core"] => eachLine (cmdCore 20000); return 0
  | ["rt"] => eachLineState ({} : RtState) stepRt; return 0
  | ["depgraph"] => eachLine cmdDepGraph; return 0
  | ["lex"] => eachLine cmdLex; return 0
  | ["diag-bag"] => eachLine cmdDiagBag; return 0
  | ["diag-sort"] => eachLine cmdDiagSort; return 0
  | ["is-exported"] => eachLine cmdIsExported; return 0
  | ["borrow"] => eachLine cmdBorrow; return 0
  | ["retlife"] => eachLine cmdRetLife; return 0
  | ["qbe-row"] => eachLine cmdQbeRow; return 0
  | ["wasm-row"] => eachLine cmdWasmRow; return 0
  | ["walloc"] => eachLine cmdWalloc; return 0
  | ["sched"] => eachLine cmdSched; return 0
  | ["toml-fmt"] => eachLine cmdTomlFmt; return 0
  | ["toml-parseval"] => eachLine cmdTomlParseVal; return 0
  | ["toml-strip"] => eachLine cmdTomlStrip; return 0
  | ["toml-file"] => eachLine cmdTomlFile; return 0
  | ["toml-rt"] => eachLine cmdTomlRt; return 0
  | _ => IO.eprintln s!"fvdriver: unknown subcommand {args}"; return 2
