/-
  Core/Syntax.lean — abstract syntax of Core Ferret, the fragment of the language the whole-compiler
  checks (C01, C02, C04, C05, C08, C09, C18) generate programs in.  Every arithmetic node carries its
  operand type, so the reference interpreter needs no type inference.  Core-only.
-/
namespace FerretVerif.Core

inductive Ty
  | int (bits : Nat) (signed : Bool)
  | bool
  | str
  | void
  | struct (name : String)
  | enum (name : String)
  | arr (n : Nat) (elem : Ty)       -- [n]T
  | dyn (elem : Ty)                 -- []T
  | opt (t : Ty)                    -- T?
  | res (err ok : Ty)               -- E ! T
  | ref (isMut : Bool) (t : Ty)       -- &T / &'T
  | fn (params : List Ty) (ret : Ty)
  deriving Repr, Inhabited, BEq

inductive BinOp
  | add | sub | mul | div | rem | band | bor | bxor
  | eq | ne | lt | le | gt | ge
  | land | lor
  deriving Repr, DecidableEq, Inhabited

mutual
inductive Expr
  | lit (ty : Ty) (v : Int)                     -- integer literal of a known type
  | blit (b : Bool)
  | slit (s : String)
  | var (x : String)
  | bin (op : BinOp) (ty : Ty) (a b : Expr)     -- ty = type of the operands
  | neg (ty : Ty) (a : Expr)
  | not (a : Expr)
  | cast (src dst : Ty) (a : Expr)              -- `a as dst`
  | call (f : String) (args : List Expr)
  | callv (f : Expr) (args : List Expr)         -- call of a function value (closure)
  | mcall (recv : Expr) (recvTy : String) (m : String) (args : List Expr)
  | fld (e : Expr) (f : String)
  | idx (e : Expr) (i : Expr)
  | structLit (name : String) (fields : List (String × Expr))
  | arrLit (elems : List Expr)
  | enumLit (ty variant : String)
  | lam (params : List (String × Ty)) (ret : Ty) (body : List Stmt)
  | catchDefault (e : Expr) (d : Expr)          -- `e catch d`
  | orElse (e : Expr) (d : Expr)                -- `e ?? d`
  | some (e : Expr)                             -- implicit T -> T? (no syntax)
  | none
  | addr (isMut : Bool) (e : Expr)                -- `&e` / `&'e`
  | len (e : Expr)
  | errOf (e : Expr)                            -- `e!` : error value of a result-returning function (in `return e!`)

inductive Stmt
  | letS (x : String) (ty : Ty) (e : Expr)
  | letInfer (x : String) (e : Expr)            -- `let x := e;`
  | constS (x : String) (ty : Ty) (e : Expr)
  | assign (place : Expr) (e : Expr)
  | opAssign (op : BinOp) (ty : Ty) (place : Expr) (e : Expr)
  | incDec (inc : Bool) (ty : Ty) (place : Expr)
  | ifS (c : Expr) (thn els : List Stmt)
  | whileS (c : Expr) (body : List Stmt)
  | forRange (i : String) (ty : Ty) (lo hi : Expr) (incl : Bool) (body : List Stmt)
  | forArr (i v : String) (arr : Expr) (body : List Stmt)
  | matchS (scrut : Expr) (cases : List (Expr × List Stmt)) (dflt : Option (List Stmt))
  | ret (e : Option Expr)
  | retErr (e : Expr)                           -- `return e!;`
  | brk
  | cont
  | print (e : Expr)
  | exprS (e : Expr)
  | append (place : Expr) (e : Expr)            -- `append(&'place, e);`
  | block (body : List Stmt)
  | catchS (e : Expr) (errVar : String) (handler : List Stmt)   -- `e catch err { handler };`
end

inductive RecvKind | val | ref | mutref
  deriving Repr, DecidableEq, Inhabited

inductive Decl
  | structD (name : String) (fields : List (String × Ty))
  | enumD (name : String) (variants : List String)
  | fnD (name : String) (params : List (String × Ty)) (ret : Ty) (body : List Stmt)
  | methodD (recvTy : String) (kind : RecvKind) (recvName : String) (name : String)
      (params : List (String × Ty)) (ret : Ty) (body : List Stmt)
  | constD (name : String) (ty : Ty) (e : Expr)

structure Program where
  decls : List Decl

end FerretVerif.Core
