/-
  Core/SExp.lean — S-expression reader and decoder into Core Ferret ASTs (the wire format between the
  Python generators and `fvdriver core`).  Core-only.
-/
import FerretVerif.Core.Syntax

namespace FerretVerif.Core

inductive SExp
  | atom (s : String)
  | list (xs : List SExp)
  deriving Inhabited

/-- tokens: "(" ")" and atoms (no whitespace inside atoms; strings are hex-encoded by the producer) -/
def tokenizeS (s : String) : List String :=
  let rec go : List Char → List Char → List String → List String
    | [], cur, acc => (if cur.isEmpty then acc else String.ofList cur.reverse :: acc).reverse
    | c :: cs, cur, acc =>
      let flush := if cur.isEmpty then acc else String.ofList cur.reverse :: acc
      if c == '(' then go cs [] ("(" :: flush)
      else if c == ')' then go cs [] (")" :: flush)
      else if c == ' ' || c == '\n' || c == '\t' || c == '\r' then go cs [] flush
      else go cs (c :: cur) acc
  go s.toList [] []

/-- parse one expression; fuel = token count -/
def parseS : Nat → List String → Option (SExp × List String)
  | 0, _ => none
  | _, [] => none
  | fuel + 1, t :: rest =>
    if t == "(" then
      let rec items : Nat → List String → List SExp → Option (SExp × List String)
        | 0, _, _ => none
        | _, [], _ => none
        | f + 1, t' :: r, acc =>
          if t' == ")" then some (.list acc.reverse, r)
          else match parseS fuel (t' :: r) with
            | some (x, r') => items f r' (x :: acc)
            | none => none
      items fuel rest []
    else if t == ")" then none
    else some (.atom t, rest)

def readS (s : String) : Option SExp :=
  let toks := tokenizeS s
  match parseS (toks.length + 1) toks with
  | some (x, []) => some x
  | _ => none

def unhexStr (h : String) : Option String :=
  if h == "-" then some "" else
  let rec go : List Char → Option (List UInt8)
    | [] => some []
    | [_] => none
    | a :: b :: r =>
      let hv (c : Char) : Option Nat :=
        if '0' ≤ c ∧ c ≤ '9' then some (c.toNat - 48) else if 'a' ≤ c ∧ c ≤ 'f' then some (c.toNat - 87) else none
      match hv a, hv b, go r with
      | some x, some y, some rest => some (UInt8.ofNat (x * 16 + y) :: rest)
      | _, _, _ => none
  match go h.toList with
  | some bs => String.fromUTF8? (ByteArray.mk bs.toArray)
  | none => none

/-! ### decoding -/

def intTy? (s : String) : Option Ty :=
  match s with
  | "i8" => some (.int 8 true) | "i16" => some (.int 16 true) | "i32" => some (.int 32 true) | "i64" => some (.int 64 true)
  | "i128" => some (.int 128 true) | "i256" => some (.int 256 true)
  | "u8" => some (.int 8 false) | "u16" => some (.int 16 false) | "u32" => some (.int 32 false) | "u64" => some (.int 64 false)
  | "u128" => some (.int 128 false) | "u256" => some (.int 256 false)
  | _ => none

partial def decTy : SExp → Option Ty
  | .atom "bool" => some .bool
  | .atom "str" => some .str
  | .atom "void" => some .void
  | .atom s => intTy? s
  | .list [.atom "S", .atom n] => some (.struct n)
  | .list [.atom "E", .atom n] => some (.enum n)
  | .list [.atom "A", .atom n, t] => do some (.arr (← n.toNat?) (← decTy t))
  | .list [.atom "D", t] => do some (.dyn (← decTy t))
  | .list [.atom "O", t] => do some (.opt (← decTy t))
  | .list [.atom "R", e, t] => do some (.res (← decTy e) (← decTy t))
  | .list [.atom "Ref", t] => do some (.ref false (← decTy t))
  | .list [.atom "Mut", t] => do some (.ref true (← decTy t))
  | .list [.atom "Fn", .list ps, r] => do some (.fn (← ps.mapM decTy) (← decTy r))
  | _ => none

def decOp : String → Option BinOp
  | "add" => some .add | "sub" => some .sub | "mul" => some .mul | "div" => some .div | "rem" => some .rem
  | "band" => some .band | "bor" => some .bor | "bxor" => some .bxor
  | "eq" => some .eq | "ne" => some .ne | "lt" => some .lt | "le" => some .le | "gt" => some .gt | "ge" => some .ge
  | "land" => some .land | "lor" => some .lor
  | _ => none

def decParams (ps : List SExp) : Option (List (String × Ty)) :=
  ps.mapM fun
    | .list [.atom x, t] => do some (x, ← decTy t)
    | _ => none

mutual
partial def decExpr : SExp → Option Expr
  | .list [.atom "i", t, .atom n] => do some (.lit (← decTy t) (← n.toInt?))
  | .list [.atom "b", .atom v] => some (.blit (v == "true"))
  | .list [.atom "s", .atom h] => do some (.slit (← unhexStr h))
  | .list [.atom "v", .atom x] => some (.var x)
  | .list [.atom "bin", .atom op, t, a, b] => do some (.bin (← decOp op) (← decTy t) (← decExpr a) (← decExpr b))
  | .list [.atom "neg", t, a] => do some (.neg (← decTy t) (← decExpr a))
  | .list [.atom "not", a] => do some (.not (← decExpr a))
  | .list [.atom "cast", t1, t2, a] => do some (.cast (← decTy t1) (← decTy t2) (← decExpr a))
  | .list (.atom "call" :: .atom f :: args) => do some (.call f (← args.mapM decExpr))
  | .list (.atom "callv" :: f :: args) => do some (.callv (← decExpr f) (← args.mapM decExpr))
  | .list (.atom "mcall" :: r :: .atom ty :: .atom m :: args) => do some (.mcall (← decExpr r) ty m (← args.mapM decExpr))
  | .list [.atom "fld", e, .atom f] => do some (.fld (← decExpr e) f)
  | .list [.atom "idx", e, i] => do some (.idx (← decExpr e) (← decExpr i))
  | .list (.atom "slit" :: .atom n :: fs) => do
    let fs ← fs.mapM fun
      | .list [.atom f, e] => do some (f, ← decExpr e)
      | _ => none
    some (.structLit n fs)
  | .list (.atom "alit" :: es) => do some (.arrLit (← es.mapM decExpr))
  | .list [.atom "elit", .atom t, .atom v] => some (.enumLit t v)
  | .list (.atom "lam" :: .list ps :: r :: body) => do some (.lam (← decParams ps) (← decTy r) (← body.mapM decStmt))
  | .list [.atom "catch", e, d] => do some (.catchDefault (← decExpr e) (← decExpr d))
  | .list [.atom "orelse", e, d] => do some (.orElse (← decExpr e) (← decExpr d))
  | .list [.atom "some", e] => do some (.some (← decExpr e))
  | .list [.atom "none"] => some .none
  | .list [.atom "ref", e] => do some (.addr false (← decExpr e))
  | .list [.atom "mutref", e] => do some (.addr true (← decExpr e))
  | .list [.atom "len", e] => do some (.len (← decExpr e))
  | .list [.atom "errof", e] => do some (.errOf (← decExpr e))
  | _ => none

partial def decStmt : SExp → Option Stmt
  | .list [.atom "let", .atom x, t, e] => do some (.letS x (← decTy t) (← decExpr e))
  | .list [.atom "letinfer", .atom x, e] => do some (.letInfer x (← decExpr e))
  | .list [.atom "const", .atom x, t, e] => do some (.constS x (← decTy t) (← decExpr e))
  | .list [.atom "set", p, e] => do some (.assign (← decExpr p) (← decExpr e))
  | .list [.atom "opset", .atom op, t, p, e] => do some (.opAssign (← decOp op) (← decTy t) (← decExpr p) (← decExpr e))
  | .list [.atom "inc", t, p] => do some (.incDec true (← decTy t) (← decExpr p))
  | .list [.atom "dec", t, p] => do some (.incDec false (← decTy t) (← decExpr p))
  | .list [.atom "if", c, .list a, .list b] => do some (.ifS (← decExpr c) (← a.mapM decStmt) (← b.mapM decStmt))
  | .list (.atom "while" :: c :: body) => do some (.whileS (← decExpr c) (← body.mapM decStmt))
  | .list (.atom "for" :: .atom i :: t :: lo :: hi :: .atom incl :: body) => do
    some (.forRange i (← decTy t) (← decExpr lo) (← decExpr hi) (incl == "incl") (← body.mapM decStmt))
  | .list (.atom "forarr" :: .atom i :: .atom v :: e :: body) => do some (.forArr i v (← decExpr e) (← body.mapM decStmt))
  | .list (.atom "match" :: e :: cases) => do
    let scrut ← decExpr e
    let cs ← cases.filterMapM fun
      | .list (.atom "case" :: p :: body) => do some (some (← decExpr p, ← body.mapM decStmt))
      | .list (.atom "default" :: _) => some none
      | _ => none
    let d := cases.findSome? fun
      | .list (.atom "default" :: body) => body.mapM decStmt
      | _ => none
    some (.matchS scrut cs d)
  | .list [.atom "ret", e] => do some (.ret (some (← decExpr e)))
  | .list [.atom "ret"] => some (.ret none)
  | .list [.atom "reterr", e] => do some (.retErr (← decExpr e))
  | .list [.atom "break"] => some .brk
  | .list [.atom "continue"] => some .cont
  | .list [.atom "print", e] => do some (.print (← decExpr e))
  | .list [.atom "expr", e] => do some (.exprS (← decExpr e))
  | .list [.atom "append", p, e] => do some (.append (← decExpr p) (← decExpr e))
  | .list (.atom "block" :: body) => do some (.block (← body.mapM decStmt))
  | .list (.atom "catchs" :: e :: .atom x :: body) => do some (.catchS (← decExpr e) x (← body.mapM decStmt))
  | _ => none
end

def decDecl : SExp → Option Decl
  | .list (.atom "struct" :: .atom n :: fs) => do some (.structD n (← decParams fs))
  | .list (.atom "enum" :: .atom n :: vs) => do
    some (.enumD n (← vs.mapM fun | .atom v => some v | _ => none))
  | .list (.atom "fn" :: .atom n :: .list ps :: r :: body) => do some (.fnD n (← decParams ps) (← decTy r) (← body.mapM decStmt))
  | .list (.atom "method" :: .atom rt :: .atom k :: .atom rn :: .atom n :: .list ps :: r :: body) => do
    let kind ← match k with | "val" => some RecvKind.val | "ref" => some RecvKind.ref | "mut" => some RecvKind.mutref | _ => none
    some (.methodD rt kind rn n (← decParams ps) (← decTy r) (← body.mapM decStmt))
  | .list [.atom "const", .atom n, t, e] => do some (.constD n (← decTy t) (← decExpr e))
  | _ => none

def decProgram : SExp → Option Program
  | .list (.atom "prog" :: ds) => do some ⟨← ds.mapM decDecl⟩
  | _ => none

end FerretVerif.Core
