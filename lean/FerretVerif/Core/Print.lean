/-
  Core/Print.lean — Core Ferret AST → `.fer` source text.  This is the only path from an AST to the text
  handed to the real compiler, and the same AST is what `Core/Eval.lean` interprets.  Core-only.
-/
import FerretVerif.Core.Syntax

namespace FerretVerif.Core

partial def Ty.show : Ty → String
  | .int b s => (if s then "i" else "u") ++ toString b
  | .bool => "bool"
  | .str => "str"
  | .void => "void"
  | .struct n => n
  | .enum n => n
  | .arr n t => s!"[{n}]{t.show}"
  | .dyn t => s!"[]{t.show}"
  | .opt t => s!"{t.show}?"
  | .res e t => s!"{e.show} ! {t.show}"
  | .ref false t => s!"&{t.show}"
  | .ref true t => s!"&'{t.show}"
  | .fn ps r => "fn(" ++ ", ".intercalate (ps.map Ty.show) ++ ")" ++ (match r with | .void => "" | r => " -> " ++ r.show)

def BinOp.show : BinOp → String
  | .add => "+" | .sub => "-" | .mul => "*" | .div => "/" | .rem => "%"
  | .band => "&" | .bor => "|" | .bxor => "^"
  | .eq => "==" | .ne => "!=" | .lt => "<" | .le => "<=" | .gt => ">" | .ge => ">="
  | .land => "&&" | .lor => "||"

def escStr (s : String) : String :=
  String.ofList (s.toList.flatMap fun c =>
    if c == '"' then ['\\', '"'] else if c == '\\' then ['\\', '\\'] else if c == '\n' then ['\\', 'n'] else [c])

def indent (n : Nat) : String := String.ofList (List.replicate (4 * n) ' ')

def paramsShow (ps : List (String × Ty)) : String := ", ".intercalate (ps.map fun (x, t) => s!"{x}: {t.show}")

mutual
partial def Expr.show : Expr → String
  | .lit _ v => if v < 0 then s!"({v})" else toString v
  | .blit b => if b then "true" else "false"
  | .slit s => "\"" ++ escStr s ++ "\""
  | .var x => x
  | .bin op _ a b => s!"({a.show} {op.show} {b.show})"
  | .neg _ a => s!"(-{a.show})"
  | .not a => s!"(!{a.show})"
  | .cast _ d a => s!"({a.show} as {d.show})"
  | .call f args => f ++ "(" ++ ", ".intercalate (args.map Expr.show) ++ ")"
  | .callv f args => f.show ++ "(" ++ ", ".intercalate (args.map Expr.show) ++ ")"
  | .mcall r _ m args => r.show ++ "." ++ m ++ "(" ++ ", ".intercalate (args.map Expr.show) ++ ")"
  | .fld e f => s!"{e.show}.{f}"
  | .idx e i => s!"{e.show}[{i.show}]"
  | .structLit n fs => "({ " ++ ", ".intercalate (fs.map fun (f, e) => s!".{f} = {e.show}") ++ " } as " ++ n ++ ")"
  | .arrLit es => "[" ++ ", ".intercalate (es.map Expr.show) ++ "]"
  | .enumLit t v => s!"{t}::{v}"
  | .lam ps r body =>
    "fn(" ++ paramsShow ps ++ ")" ++ (match r with | .void => "" | r => " -> " ++ r.show) ++ " {\n"
      ++ stmtsShow 2 body ++ indent 1 ++ "}"
  | .catchDefault e d => s!"{e.show} catch {d.show}"
  | .orElse e d => s!"({e.show} ?? {d.show})"
  | .some e => e.show
  | .none => "none"
  | .addr false e => s!"&{e.show}"
  | .addr true e => s!"&'{e.show}"
  | .len e => s!"len({e.show})"
  | .errOf e => s!"{e.show}!"

partial def stmtsShow (lvl : Nat) (ss : List Stmt) : String := String.join (ss.map (Stmt.show lvl))

partial def Stmt.show (lvl : Nat) : Stmt → String
  | .letS x t e => s!"{indent lvl}let {x}: {t.show} = {e.show};\n"
  | .letInfer x e => s!"{indent lvl}let {x} := {e.show};\n"
  | .constS x t e => s!"{indent lvl}const {x}: {t.show} = {e.show};\n"
  | .assign p e => s!"{indent lvl}{p.show} = {e.show};\n"
  | .opAssign op _ p e => s!"{indent lvl}{p.show} {op.show}= {e.show};\n"
  | .incDec inc _ p => s!"{indent lvl}{p.show}{if inc then "++" else "--"};\n"
  | .ifS c t e =>
    s!"{indent lvl}if {c.show} " ++ "{\n" ++ stmtsShow (lvl + 1) t ++ indent lvl ++ "}"
      ++ (if e.isEmpty then "\n" else " else {\n" ++ stmtsShow (lvl + 1) e ++ indent lvl ++ "}\n")
  | .whileS c b => s!"{indent lvl}while {c.show} " ++ "{\n" ++ stmtsShow (lvl + 1) b ++ indent lvl ++ "}\n"
  | .forRange i _ lo hi incl b =>
    s!"{indent lvl}for {i} in {lo.show}{if incl then "..=" else ".."}{hi.show} " ++ "{\n" ++ stmtsShow (lvl + 1) b ++ indent lvl ++ "}\n"
  | .forArr i v a b => s!"{indent lvl}for {i}, {v} in {a.show} " ++ "{\n" ++ stmtsShow (lvl + 1) b ++ indent lvl ++ "}\n"
  | .matchS s cases d =>
    s!"{indent lvl}match {s.show} " ++ "{\n"
      ++ String.join (cases.map fun (p, b) => s!"{indent (lvl + 1)}{p.show} => " ++ "{\n" ++ stmtsShow (lvl + 2) b ++ indent (lvl + 1) ++ "}\n")
      ++ (match d with
          | some b => s!"{indent (lvl + 1)}_ => " ++ "{\n" ++ stmtsShow (lvl + 2) b ++ indent (lvl + 1) ++ "}\n"
          | none => "")
      ++ indent lvl ++ "}\n"
  | .ret (some e) => s!"{indent lvl}return {e.show};\n"
  | .ret none => s!"{indent lvl}return;\n"
  | .retErr e => s!"{indent lvl}return {e.show}!;\n"
  | .brk => s!"{indent lvl}break;\n"
  | .cont => s!"{indent lvl}continue;\n"
  | .print e => s!"{indent lvl}io::Println({e.show});\n"
  | .exprS e => s!"{indent lvl}{e.show};\n"
  | .append p e => s!"{indent lvl}append(&'{p.show}, {e.show});\n"
  | .block b => indent lvl ++ "{\n" ++ stmtsShow (lvl + 1) b ++ indent lvl ++ "}\n"
  | .catchS e x h => s!"{indent lvl}{e.show} catch {x} " ++ "{\n" ++ stmtsShow (lvl + 1) h ++ indent lvl ++ "};\n"
end

def Decl.show : Decl → String
  | .structD n fs => s!"type {n} struct " ++ "{ " ++ ", ".intercalate (fs.map fun (f, t) => s!".{f}: {t.show}") ++ " };\n"
  | .enumD n vs => s!"type {n} enum " ++ "{ " ++ ", ".intercalate vs ++ " };\n"
  | .fnD n ps r body =>
    s!"fn {n}({paramsShow ps})" ++ (match r with | .void => "" | r => " -> " ++ r.show) ++ " {\n" ++ stmtsShow 1 body ++ "}\n"
  | .methodD rt k rn n ps r body =>
    let recv := match k with | .val => rt | .ref => "&" ++ rt | .mutref => "&'" ++ rt
    s!"fn ({rn}: {recv}) {n}({paramsShow ps})" ++ (match r with | .void => "" | r => " -> " ++ r.show) ++ " {\n" ++ stmtsShow 1 body ++ "}\n"
  | .constD n t e => s!"const {n}: {t.show} = {e.show};\n"

def Program.show (p : Program) : String :=
  "import \"std/io\";\n\n" ++ "\n".intercalate (p.decls.map Decl.show)

end FerretVerif.Core
