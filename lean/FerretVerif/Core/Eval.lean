/-
  Core/Eval.lean — reference (definitional) interpreter of Core Ferret: the source semantics the whole-compiler
  checks compare executables against.  Fixed-width two's-complement integers wrapping at their declared width,
  truncating division/remainder, left-to-right evaluation, by-value structs and fixed arrays, handle semantics
  for dynamic arrays, references as paths to places (write-through), closures capturing variables by reference.
  `run p fuel` is total: fuel bounds recursion depth (calls, loop iterations, expression nesting).  Core-only.
-/
import FerretVerif.Core.Syntax

namespace FerretVerif.Core

inductive Base | cell (n : Nat) | dynB (h : Nat)
  deriving Repr, DecidableEq, Inhabited
inductive Seg | fld (f : String) | idx (i : Nat)
  deriving Repr, DecidableEq, Inhabited
structure Loc where
  base : Base
  path : List Seg
  deriving Repr, DecidableEq, Inhabited

inductive Val
  | int (v : Int)
  | bool (b : Bool)
  | str (s : String)
  | struct (name : String) (fields : List (String × Val))
  | enum (ty : String) (variant : String)
  | arr (elems : List Val)
  | dyn (h : Nat)
  | opt (v : Option Val)
  | res (ok : Bool) (v : Val)
  | ref (l : Loc)
  | clo (id : Nat)
  | unit
  deriving Inhabited

abbrev Env := List (String × Nat)

structure Closure where
  params : List (String × Ty)
  ret : Ty
  body : List Stmt
  env : Env

structure St where
  cells : Array Val := #[]
  dyns : Array (List Val) := #[]
  clos : Array Closure := #[]
  out : Array String := #[]

inductive Abort
  | panic (msg : String)
  | fuel
  | stuck (msg : String)      -- the program is outside what the interpreter models (generator bug)
  deriving Repr

inductive Flow
  | next
  | ret (v : Val)
  | brk
  | cont

abbrev M := ExceptT Abort (StateM St)

def stuck {α : Type} (msg : String) : M α := throw (.stuck msg)
def panic {α : Type} (msg : String) : M α := throw (.panic msg)

/-! ### integers -/

/-- reduce to the value range of a `bits`-wide integer type (two's complement for signed) -/
def wrapInt (bits : Nat) (signed : Bool) (v : Int) : Int :=
  let m : Int := (2 ^ bits : Nat)
  let r := v % m                       -- 0 ≤ r < m   (Int.emod)
  if signed && r ≥ (2 ^ (bits - 1) : Nat) then r - m else r

def wrapTy (t : Ty) (v : Int) : Int :=
  match t with
  | .int b s => wrapInt b s v
  | _ => v

/-- truncating division and remainder (sign of the dividend) -/
def tdiv (a b : Int) : Int := Int.tdiv a b
def trem (a b : Int) : Int := Int.tmod a b

def bitwise (f : Bool → Bool → Bool) (bits : Nat) (a b : Int) : Int :=
  -- on the unsigned bit patterns
  let m : Int := (2 ^ bits : Nat)
  let ua := (a % m).toNat
  let ub := (b % m).toNat
  let r := (List.range bits).foldl (fun acc i => if f (ua.testBit i) (ub.testBit i) then acc + 2 ^ i else acc) 0
  (r : Int)

def evalIntBin (op : BinOp) (bits : Nat) (signed : Bool) (a b : Int) : M Val :=
  let w := wrapInt bits signed
  match op with
  | .add => pure (.int (w (a + b)))
  | .sub => pure (.int (w (a - b)))
  | .mul => pure (.int (w (a * b)))
  | .div => if b == 0 then panic "division by zero" else pure (.int (w (tdiv a b)))
  | .rem => if b == 0 then panic "division by zero" else pure (.int (w (trem a b)))
  | .band => pure (.int (w (bitwise (· && ·) bits a b)))
  | .bor => pure (.int (w (bitwise (· || ·) bits a b)))
  | .bxor => pure (.int (w (bitwise (fun x y => x != y) bits a b)))
  | .eq => pure (.bool (a == b))
  | .ne => pure (.bool (a != b))
  | .lt => pure (.bool (a < b))
  | .le => pure (.bool (a ≤ b))
  | .gt => pure (.bool (a > b))
  | .ge => pure (.bool (a ≥ b))
  | .land | .lor => stuck "logical op on integers"

/-! ### store -/

def newCell (v : Val) : M Nat :=
  modifyGet fun s => (s.cells.size, { s with cells := s.cells.push v })

def newDyn (es : List Val) : M Nat :=
  modifyGet fun s => (s.dyns.size, { s with dyns := s.dyns.push es })

def emit (line : String) : M Unit := modify fun s => { s with out := s.out.push line }

def normIndex (i : Int) (len : Nat) : M Nat :=
  let j := if i < 0 then i + len else i
  if j < 0 ∨ j ≥ len then panic "index out of bounds" else pure j.toNat

def getPath : Val → List Seg → M Val
  | v, [] => pure v
  | .struct _ fs, .fld f :: rest =>
    match fs.find? (·.1 == f) with
    | some (_, v) => getPath v rest
    | none => stuck s!"no field {f}"
  | .arr es, .idx i :: rest =>
    match es[i]? with
    | some v => getPath v rest
    | none => panic "index out of bounds"
  | .opt (some v), segs => getPath v segs
  | _, _ => stuck "bad path"

def setPath : Val → List Seg → Val → M Val
  | _, [], nv => pure nv
  | .struct n fs, .fld f :: rest, nv => do
    match fs.find? (·.1 == f) with
    | some (_, v) =>
      let v' ← setPath v rest nv
      pure (.struct n (fs.map fun (g, x) => if g == f then (g, v') else (g, x)))
    | none => stuck s!"no field {f}"
  | .arr es, .idx i :: rest, nv => do
    match es[i]? with
    | some v =>
      let v' ← setPath v rest nv
      pure (.arr (es.set i v'))
    | none => panic "index out of bounds"
  | _, _, _ => stuck "bad path (set)"

def readLoc (l : Loc) : M Val := do
  let s ← get
  match l.base with
  | .cell n =>
    match s.cells[n]? with
    | some v => getPath v l.path
    | none => stuck "dangling cell"
  | .dynB h =>
    match s.dyns[h]? with
    | some es => getPath (.arr es) l.path
    | none => stuck "dangling dyn"

def writeLoc (l : Loc) (nv : Val) : M Unit := do
  let s ← get
  match l.base with
  | .cell n =>
    match s.cells[n]? with
    | some v =>
      let v' ← setPath v l.path nv
      modify fun s => { s with cells := s.cells.set! n v' }
    | none => stuck "dangling cell"
  | .dynB h =>
    match s.dyns[h]? with
    | some es =>
      match ← setPath (.arr es) l.path nv with
      | .arr es' => modify fun s => { s with dyns := s.dyns.set! h es' }
      | _ => stuck "dyn write"
    | none => stuck "dangling dyn"

/-- follow references until a non-reference value -/
def derefVal : Nat → Val → M Val
  | 0, v => pure v
  | n + 1, .ref l => do derefVal n (← readLoc l)
  | _, v => pure v

/-! ### program context -/

structure Ctx where
  fns : List (String × (List (String × Ty) × Ty × List Stmt))
  methods : List ((String × String) × (RecvKind × String × List (String × Ty) × Ty × List Stmt))
  structs : List (String × List (String × Ty))
  consts : List (String × (Ty × Expr))

def mkCtx (p : Program) : Ctx :=
  p.decls.foldl (fun c d => match d with
    | .fnD n ps r b => { c with fns := c.fns ++ [(n, (ps, r, b))] }
    | .methodD rt k rn n ps r b => { c with methods := c.methods ++ [((rt, n), (k, rn, ps, r, b))] }
    | .structD n fs => { c with structs := c.structs ++ [(n, fs)] }
    | .constD n t e => { c with consts := c.consts ++ [(n, (t, e))] }
    | .enumD _ _ => c) ⟨[], [], [], []⟩

/-- shape a value for a declared type: array literal → dynamic array, value → optional / ok-result, integer wrap -/
partial def coerce (t : Ty) (v : Val) : M Val :=
  match t, v with
  | .dyn et, .arr es => do
    let es' ← es.mapM (coerce et)
    pure (.dyn (← newDyn es'))
  | .arr _ et, .arr es => do pure (.arr (← es.mapM (coerce et)))
  | .opt _, .opt x => pure (.opt x)
  | .opt it, x => do pure (.opt (some (← coerce it x)))
  | .res _ _, .res ok x => pure (.res ok x)
  | .res _ ot, x => do pure (.res true (← coerce ot x))
  | .int b s, .int x => pure (.int (wrapInt b s x))
  | _, x => pure x

def showVal : Val → M String
  | .int v => pure (toString v)
  | .bool b => pure (if b then "true" else "false")
  | .str s => pure s
  | .enum _ v => pure v
  | _ => stuck "print of a composite"

def valEq : Val → Val → Bool
  | .int a, .int b => a == b
  | .bool a, .bool b => a == b
  | .str a, .str b => a == b
  | .enum t a, .enum u b => t == u && a == b
  | _, _ => false

def bindParams (ps : List (String × Ty)) (args : List Val) : M Env := do
  if ps.length != args.length then stuck "arity" else
  let mut env : Env := []
  for ((x, t), a) in ps.zip args do
    let c ← newCell (← coerce t a)
    env := (x, c) :: env
  pure env

mutual
/-- expressions, left to right -/
def evalE (ctx : Ctx) : Nat → Env → Expr → M Val
  | 0, _, _ => throw .fuel
  | fuel + 1, env, e =>
    match e with
    | .lit t v => pure (.int (wrapTy t v))
    | .blit b => pure (.bool b)
    | .slit s => pure (.str s)
    | .var x =>
      match env.find? (·.1 == x) with
      | some (_, c) => readLoc ⟨.cell c, []⟩
      | none =>
        match ctx.consts.find? (·.1 == x) with
        | some (_, (t, ce)) => do coerce t (← evalE ctx fuel [] ce)
        | none => stuck s!"unbound {x}"
    | .bin op t a b => do
      let va ← derefVal 8 (← evalE ctx fuel env a)
      let vb ← derefVal 8 (← evalE ctx fuel env b)
      match op, va, vb with
      | .land, .bool x, .bool y => pure (.bool (x && y))
      | .lor, .bool x, .bool y => pure (.bool (x || y))
      | .eq, x, y => match t with
        | .int bits s => match x, y with
          | .int p, .int q => evalIntBin .eq bits s p q
          | _, _ => stuck "eq operands"
        | _ => pure (.bool (valEq x y))
      | .ne, x, y => match t with
        | .int bits s => match x, y with
          | .int p, .int q => evalIntBin .ne bits s p q
          | _, _ => stuck "ne operands"
        | _ => pure (.bool (!valEq x y))
      | op, .int x, .int y => match t with
        | .int bits s => evalIntBin op bits s x y
        | _ => stuck "int op at non-int type"
      | _, _, _ => stuck "bin operands"
    | .neg t a => do
      match ← derefVal 8 (← evalE ctx fuel env a) with
      | .int x => pure (.int (wrapTy t (-x)))
      | _ => stuck "neg"
    | .not a => do
      match ← derefVal 8 (← evalE ctx fuel env a) with
      | .bool b => pure (.bool (!b))
      | _ => stuck "not"
    | .cast _ d a => do
      match ← derefVal 8 (← evalE ctx fuel env a), d with
      | .int x, .int b s => pure (.int (wrapInt b s x))
      | .bool x, .int _ _ => pure (.int (if x then 1 else 0))
      | v, _ => pure v
    | .call f args => do
      match env.find? (·.1 == f) with
      | some (_, c) => do
        let fv ← readLoc ⟨.cell c, []⟩
        let vs ← evalArgs ctx fuel env args
        callClosure ctx fuel fv vs
      | none =>
        match ctx.fns.find? (·.1 == f) with
        | some (_, (ps, r, body)) => do
          let vs ← evalArgs ctx fuel env args
          let fenv ← bindParams ps vs
          runBody ctx fuel fenv r body
        | none => stuck s!"unknown function {f}"
    | .callv f args => do
      let fv ← evalE ctx fuel env f
      let vs ← evalArgs ctx fuel env args
      callClosure ctx fuel fv vs
    | .mcall recv ty m args => do
      match ctx.methods.find? (·.1 == (ty, m)) with
      | none => stuck s!"unknown method {ty}.{m}"
      | some (_, (kind, rn, ps, r, body)) => do
        let rv ← match kind with
          | .val => do derefVal 8 (← evalE ctx fuel env recv)
          | _ => do
            -- by reference: an existing reference is passed along, otherwise the place is borrowed
            match ← evalE ctx fuel env recv with
            | .ref l => pure (.ref l)
            | _ => do pure (.ref (← evalPlace ctx fuel env recv))
        let vs ← evalArgs ctx fuel env args
        let fenv ← bindParams ps vs
        let rc ← newCell rv
        runBody ctx fuel ((rn, rc) :: fenv) r body
    | .fld e f => do
      match ← derefVal 8 (← evalE ctx fuel env e) with
      | .struct _ fs =>
        match fs.find? (·.1 == f) with
        | some (_, v) => pure v
        | none => stuck s!"no field {f}"
      | _ => stuck "field of non-struct"
    | .idx e i => do
      let av ← derefVal 8 (← evalE ctx fuel env e)
      match ← derefVal 8 (← evalE ctx fuel env i) with
      | .int iv =>
        match av with
        | .arr es => do
          let j ← normIndex iv es.length
          match es[j]? with | some v => pure v | none => panic "index out of bounds"
        | .dyn h => do
          let s ← get
          match s.dyns[h]? with
          | some es => do
            let j ← normIndex iv es.length
            match es[j]? with | some v => pure v | none => panic "index out of bounds"
          | none => stuck "dangling dyn"
        | _ => stuck "index of non-array"
      | _ => stuck "index not int"
    | .structLit n fs => do
      let decl := (ctx.structs.find? (·.1 == n)).map (·.2)
      let vs ← evalFields ctx fuel env (decl.getD []) fs
      pure (.struct n vs)
    | .arrLit es => do pure (.arr (← evalArgs ctx fuel env es))
    | .enumLit t v => pure (.enum t v)
    | .lam ps r body => do
      let id ← modifyGet fun s => (s.clos.size, { s with clos := s.clos.push ⟨ps, r, body, env⟩ })
      pure (.clo id)
    | .catchDefault e d => do
      match ← evalE ctx fuel env e with
      | .res true v => pure v
      | .res false _ => evalE ctx fuel env d
      | _ => stuck "catch on non-result"
    | .orElse e d => do
      match ← derefVal 8 (← evalE ctx fuel env e) with
      | .opt (some v) => pure v
      | .opt none => evalE ctx fuel env d
      | _ => stuck "?? on non-optional"
    | .some e => do pure (.opt (some (← evalE ctx fuel env e)))
    | .none => pure (.opt none)
    | .addr _ e => do
      match e with
      | .var x =>
        -- borrowing a variable that already holds a reference passes the reference along
        match env.find? (·.1 == x) with
        | some (_, c) => do
          match ← readLoc ⟨.cell c, []⟩ with
          | .ref l => pure (.ref l)
          | _ => pure (.ref ⟨.cell c, []⟩)
        | none => stuck s!"unbound {x}"
      | _ => do pure (.ref (← evalPlace ctx fuel env e))
    | .len e => do
      match ← derefVal 8 (← evalE ctx fuel env e) with
      | .arr es => pure (.int es.length)
      | .dyn h => do
        let s ← get
        pure (.int ((s.dyns[h]?).getD []).length)
      | .str s => pure (.int s.utf8ByteSize)
      | _ => stuck "len"
    | .errOf e => do pure (.res false (← evalE ctx fuel env e))

def evalArgs (ctx : Ctx) : Nat → Env → List Expr → M (List Val)
  | 0, _, _ => throw .fuel
  | _, _, [] => pure []
  | fuel + 1, env, a :: as => do
    let v ← evalE ctx fuel env a
    let vs ← evalArgs ctx fuel env as
    pure (v :: vs)

def evalFields (ctx : Ctx) : Nat → Env → List (String × Ty) → List (String × Expr) → M (List (String × Val))
  | 0, _, _, _ => throw .fuel
  | _, _, _, [] => pure []
  | fuel + 1, env, decl, (f, e) :: rest => do
    let v ← evalE ctx fuel env e
    let v ← match decl.find? (·.1 == f) with
      | some (_, t) => coerce t v
      | none => pure v
    let vs ← evalFields ctx fuel env decl rest
    pure ((f, v) :: vs)

/-- the place an lvalue expression denotes (through references) -/
def evalPlace (ctx : Ctx) : Nat → Env → Expr → M Loc
  | 0, _, _ => throw .fuel
  | fuel + 1, env, e =>
    match e with
    | .var x =>
      match env.find? (·.1 == x) with
      | some (_, c) => pure ⟨.cell c, []⟩
      | none => stuck s!"unbound place {x}"
    | .fld b f => do
      let l ← evalPlace ctx fuel env b
      let l ← throughRef l
      pure ⟨l.base, l.path ++ [.fld f]⟩
    | .idx b i => do
      let l ← evalPlace ctx fuel env b
      let l ← throughRef l
      match ← derefVal 8 (← evalE ctx fuel env i) with
      | .int iv => do
        match ← readLoc l with
        | .arr es => do
          let j ← normIndex iv es.length
          pure ⟨l.base, l.path ++ [.idx j]⟩
        | .dyn h => do
          let s ← get
          let j ← normIndex iv ((s.dyns[h]?).getD []).length
          pure ⟨.dynB h, [.idx j]⟩
        | _ => stuck "index place of non-array"
      | _ => stuck "index not int"
    | _ => stuck "not a place"
where
  throughRef (l : Loc) : M Loc := do
    match ← readLoc l with
    | .ref l' => pure l'
    | _ => pure l

def callClosure (ctx : Ctx) : Nat → Val → List Val → M Val
  | 0, _, _ => throw .fuel
  | fuel + 1, fv, vs => do
    match fv with
    | .clo id => do
      let s ← get
      match s.clos[id]? with
      | some c => do
        let penv ← bindParams c.params vs
        runBody ctx fuel (penv ++ c.env) c.ret c.body
      | none => stuck "dangling closure"
    | _ => stuck "call of non-function"

/-- run a function body; a result-typed function wraps plain returned values as ok -/
def runBody (ctx : Ctx) : Nat → Env → Ty → List Stmt → M Val
  | 0, _, _, _ => throw .fuel
  | fuel + 1, env, ret, body => do
    match ← execBlock ctx fuel env ret body with
    | (.ret v, _) => coerce ret v
    | _ => match ret with
      | .void => pure .unit
      | _ => stuck "fell off the end of a non-void function"

def execBlock (ctx : Ctx) : Nat → Env → Ty → List Stmt → M (Flow × Env)
  | 0, _, _, _ => throw .fuel
  | _, env, _, [] => pure (.next, env)
  | fuel + 1, env, ret, s :: ss => do
    match ← execS ctx fuel env ret s with
    | (.next, env') => execBlock ctx fuel env' ret ss
    | (fl, env') => pure (fl, env')

def loopWhile (ctx : Ctx) : Nat → Env → Ty → Expr → List Stmt → M Flow
  | 0, _, _, _, _ => throw .fuel
  | fuel + 1, env, ret, c, body => do
    match ← derefVal 8 (← evalE ctx fuel env c) with
    | .bool true =>
      match ← execBlock ctx fuel env ret body with
      | (.brk, _) => pure .next
      | (.ret v, _) => pure (.ret v)
      | _ => loopWhile ctx fuel env ret c body
    | .bool false => pure .next
    | _ => stuck "while condition"

def loopRange (ctx : Ctx) : Nat → Env → Ty → Nat → Ty → Int → Int → List Stmt → M Flow
  | 0, _, _, _, _, _, _, _ => throw .fuel
  | fuel + 1, env, ret, cell, ity, cur, stop, body =>
    if cur ≥ stop then pure .next else do
      writeLoc ⟨.cell cell, []⟩ (.int (wrapTy ity cur))
      match ← execBlock ctx fuel env ret body with
      | (.brk, _) => pure .next
      | (.ret v, _) => pure (.ret v)
      | _ => loopRange ctx fuel env ret cell ity (cur + 1) stop body

def loopArr (ctx : Ctx) : Nat → Env → Ty → Nat → Nat → Nat → List Val → List Stmt → M Flow
  | 0, _, _, _, _, _, _, _ => throw .fuel
  | _, _, _, _, _, _, [], _ => pure .next
  | fuel + 1, env, ret, ic, vc, k, v :: vs, body => do
    writeLoc ⟨.cell ic, []⟩ (.int k)
    writeLoc ⟨.cell vc, []⟩ v
    match ← execBlock ctx fuel env ret body with
    | (.brk, _) => pure .next
    | (.ret r, _) => pure (.ret r)
    | _ => loopArr ctx fuel env ret ic vc (k + 1) vs body

def pickCase (ctx : Ctx) : Nat → Env → Val → List (Expr × List Stmt) → Option (List Stmt) → M (Option (List Stmt))
  | 0, _, _, _, _ => throw .fuel
  | _, _, _, [], dflt => pure dflt
  | fuel + 1, env, sv, (p, b) :: rest, dflt => do
    let pv ← evalE ctx fuel env p
    if valEq sv pv then pure (some b) else pickCase ctx fuel env sv rest dflt

def execS (ctx : Ctx) : Nat → Env → Ty → Stmt → M (Flow × Env)
  | 0, _, _, _ => throw .fuel
  | fuel + 1, env, ret, s =>
    match s with
    | .letS x t e | .constS x t e => do
      let v ← evalE ctx fuel env e
      let v ← match t, v with
        | .ref _ _, v => pure v
        | t, v => do coerce t (← derefVal 8 v)
      let c ← newCell v
      pure (.next, (x, c) :: env)
    | .letInfer x e => do
      let v ← evalE ctx fuel env e
      let v ← match e, v with
        | .arrLit _, .arr es => do pure (.dyn (← newDyn es))
        | _, v => pure v
      let c ← newCell v
      pure (.next, (x, c) :: env)
    | .assign p e => do
      let l ← evalPlace ctx fuel env p
      let v ← evalE ctx fuel env e
      -- an array literal assigned to a place that holds a dynamic array is a (fresh) dynamic array
      let v ← match e, v, (← readLoc l) with
        | .arrLit _, .arr es, .dyn _ => do pure (.dyn (← newDyn es))
        | _, v, _ => pure v
      assignTo l v
      pure (.next, env)
    | .opAssign op t p e => do
      let l ← evalPlace ctx fuel env p
      let cur ← derefVal 8 (← readLoc l)
      let v ← derefVal 8 (← evalE ctx fuel env e)
      match t, cur, v with
      | .int b s, .int x, .int y => do
        assignTo l (← evalIntBin op b s x y)
        pure (.next, env)
      | _, _, _ => stuck "compound assignment operands"
    | .incDec inc t p => do
      let l ← evalPlace ctx fuel env p
      match ← derefVal 8 (← readLoc l) with
      | .int x => do
        assignTo l (.int (wrapTy t (if inc then x + 1 else x - 1)))
        pure (.next, env)
      | _ => stuck "++/-- operand"
    | .ifS c thn els => do
      match ← derefVal 8 (← evalE ctx fuel env c) with
      | .bool b => do
        let (fl, _) ← execBlock ctx fuel env ret (if b then thn else els)
        pure (fl, env)
      | _ => stuck "if condition"
    | .whileS c body => do pure (← loopWhile ctx fuel env ret c body, env)
    | .forRange i t lo hi incl body => do
      match ← derefVal 8 (← evalE ctx fuel env lo), ← derefVal 8 (← evalE ctx fuel env hi) with
      | .int a, .int b => do
        let c ← newCell (.int a)
        let fl ← loopRange ctx fuel ((i, c) :: env) ret c t a (if incl then b + 1 else b) body
        pure (fl, env)
      | _, _ => stuck "range bounds"
    | .forArr i v a body => do
      let av ← derefVal 8 (← evalE ctx fuel env a)
      let es ← match av with
        | .arr es => pure es
        | .dyn h => do let s ← get; pure ((s.dyns[h]?).getD [])
        | _ => stuck "for over non-array"
      let ic ← newCell (.int 0)
      let vc ← newCell .unit
      let fl ← loopArr ctx fuel ((i, ic) :: (v, vc) :: env) ret ic vc 0 es body
      pure (fl, env)
    | .matchS scrut cases dflt => do
      let sv ← derefVal 8 (← evalE ctx fuel env scrut)
      match ← pickCase ctx fuel env sv cases dflt with
      | some b => do
        let (fl, _) ← execBlock ctx fuel env ret b
        pure (fl, env)
      | none => pure (.next, env)
    | .ret none => pure (.ret .unit, env)
    | .ret (some e) => do
      let v ← evalE ctx fuel env e
      let v ← match ret with
        | .ref _ _ => pure v
        | _ => derefVal 8 v
      pure (.ret v, env)
    | .retErr e => do pure (.ret (.res false (← evalE ctx fuel env e)), env)
    | .brk => pure (.brk, env)
    | .cont => pure (.cont, env)
    | .print e => do
      emit (← showVal (← derefVal 8 (← evalE ctx fuel env e)))
      pure (.next, env)
    | .exprS e => do
      let _ ← evalE ctx fuel env e
      pure (.next, env)
    | .append p e => do
      let l ← evalPlace ctx fuel env p
      let v ← evalE ctx fuel env e
      match ← derefVal 8 (← readLoc l) with
      | .dyn h => do
        modify fun s => { s with dyns := s.dyns.set! h (((s.dyns[h]?).getD []) ++ [v]) }
        pure (.next, env)
      | _ => stuck "append to non-dynamic array"
    | .block b => do
      let (fl, _) ← execBlock ctx fuel env ret b
      pure (fl, env)
    | .catchS e x h => do
      match ← evalE ctx fuel env e with
      | .res true _ => pure (.next, env)
      | .res false ev => do
        let c ← newCell ev
        let (fl, _) ← execBlock ctx fuel ((x, c) :: env) ret h
        pure (fl, env)
      | _ => stuck "catch on non-result"
where
  /-- assignment writes through a reference held in the place (unless a reference is being stored) -/
  assignTo (l : Loc) (v : Val) : M Unit := do
    match ← readLoc l, v with
    | .ref _, .ref _ => writeLoc l v
    | .ref l', v => do writeLoc l' (← derefVal 8 v)
    | cur, v => do
      let v ← derefVal 8 v
      -- keep the declared shape of the place: an optional stays an optional, a dynamic array a handle
      match cur, v with
      | .opt _, .opt _ => writeLoc l v
      | .opt _, v => writeLoc l (.opt (some v))
      | _, v => writeLoc l v
end

structure Outcome where
  lines : List String
  term : String          -- "exit" | "panic:<msg>" | "fuel" | "stuck:<msg>"
  deriving Repr

/-- run `main` -/
def run (p : Program) (fuel : Nat) : Outcome :=
  let ctx := mkCtx p
  match ctx.fns.find? (·.1 == "main") with
  | none => ⟨[], "stuck:no main"⟩
  | some (_, (_, r, body)) =>
    -- the state (hence the lines printed so far) survives an abort: ExceptT over StateM
    let (res, s) := ((runBody ctx fuel [] r body).run).run {}
    match res with
    | .ok _ => ⟨s.out.toList, "exit"⟩
    | .error (.panic m) => ⟨s.out.toList, "panic:" ++ m⟩
    | .error .fuel => ⟨s.out.toList, "fuel"⟩
    | .error (.stuck m) => ⟨s.out.toList, "stuck:" ++ m⟩

end FerretVerif.Core
