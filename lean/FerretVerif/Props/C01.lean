/-
  Props/C01.lean — C01: what is kernel-checked about "the source program's defined semantics".

  `Core/Eval.lean` is the reference interpreter the native executables are compared with (checks/c01.py).
  The theorems pin down that its operators ARE the semantics the property states: fixed-width two's-complement
  integers wrapping at their declared width, truncating division and remainder, left-to-right evaluation,
  by-value composites and write-through references.  The lowering chain of the compiler itself is not modelled.
-/
import FerretVerif.Proofs.CoreSem
import FerretVerif.Proofs.QbeSem
import FerretVerif.Gen.QbeSel

namespace FerretVerif.C01
open FerretVerif.Core

/-- wrapping lands in the declared range (unsigned / signed two's complement) … -/
theorem wrap_unsigned_range (bits : Nat) (v : Int) :
    0 ≤ wrapInt bits false v ∧ wrapInt bits false v < ((2 ^ bits : Nat) : Int) := wrapInt_unsigned_range bits v
theorem wrap_signed_range {bits : Nat} (h : 1 ≤ bits) (v : Int) :
    -((2 ^ (bits - 1) : Nat) : Int) ≤ wrapInt bits true v ∧ wrapInt bits true v < ((2 ^ (bits - 1) : Nat) : Int) :=
  wrapInt_signed_range h v
/-- … changes the value only by a multiple of 2^bits, and is the UNIQUE such value in range -/
theorem wrap_congruent (bits : Nat) (s : Bool) (v : Int) : (wrapInt bits s v - v) % ((2 ^ bits : Nat) : Int) = 0 :=
  wrapInt_congr bits s v
theorem wrap_unique {bits : Nat} (h : 1 ≤ bits) (s : Bool) (v r : Int)
    (hr : InRange bits s r) (hc : (r - v) % ((2 ^ bits : Nat) : Int) = 0) : r = wrapInt bits s v := wrapInt_unique h s v r hr hc

/-- + - * are the mathematical operation reduced to the declared width -/
theorem arith_wraps (bits : Nat) (s : Bool) (a b : Int) :
    evalIntBin .add bits s a b = pure (.int (wrapInt bits s (a + b))) ∧
    evalIntBin .sub bits s a b = pure (.int (wrapInt bits s (a - b))) ∧
    evalIntBin .mul bits s a b = pure (.int (wrapInt bits s (a * b))) := ⟨rfl, rfl, rfl⟩

/-- division truncates toward zero, the remainder takes the sign of the dividend and |rem| < |divisor| -/
theorem div_truncates (bits : Nat) (s : Bool) (a b : Int) (hb : b ≠ 0) :
    evalIntBin .div bits s a b = pure (.int (wrapInt bits s (Int.tdiv a b))) ∧
    evalIntBin .rem bits s a b = pure (.int (wrapInt bits s (Int.tmod a b))) ∧
    Int.tdiv a b * b + Int.tmod a b = a ∧ (Int.tmod a b).natAbs < b.natAbs :=
  ⟨Core.div_truncates bits s a b hb, rem_truncates bits s a b hb, tdiv_trem_spec a b, trem_abs_lt a b hb⟩
theorem rem_sign_of_dividend (a b : Int) : (0 ≤ a → 0 ≤ Int.tmod a b) ∧ (a ≤ 0 → Int.tmod a b ≤ 0) := Core.rem_sign_of_dividend a b
/-- INT_MIN / -1 wraps to INT_MIN (the compiled code traps instead: known finding, probe min-div-minus-one) -/
theorem min_div_minus_one : wrapInt 32 true (Int.tdiv (-2147483648) (-1)) = -2147483648 := Core.min_div_minus_one

/-- comparisons are the order of the (already wrapped) values: signedness lives in the value -/
theorem cmp_is_order (bits : Nat) (s : Bool) (a b : Int) :
    evalIntBin .lt bits s a b = pure (.bool (decide (a < b))) ∧
    evalIntBin .le bits s a b = pure (.bool (decide (a ≤ b))) := ⟨(Core.cmp_is_order bits s a b).1, (Core.cmp_is_order bits s a b).2.1⟩

/-- LEFT-TO-RIGHT: a binary expression evaluates its left operand first, then the right one in the state the
    left one left behind; if the left one aborts, the right one is never evaluated -/
theorem eval_left_to_right (ctx : Ctx) (fuel : Nat) (env : Env) (op : BinOp) (t : Ty) (a b : Expr) :
    evalE ctx (fuel + 1) env (.bin op t a b) = (do
      let va ← derefVal 8 (← evalE ctx fuel env a)
      let vb ← derefVal 8 (← evalE ctx fuel env b)
      combineBin op t va vb) := evalE_bin ctx fuel env op t a b
theorem eval_left_abort_skips_right (ctx : Ctx) (fuel : Nat) (env : Env) (op : BinOp) (t : Ty) (a b : Expr)
    (s s' : St) (x : Abort) (h : (evalE ctx fuel env a).run s = (.error x, s')) :
    (evalE ctx (fuel + 1) env (.bin op t a b)).run s = (.error x, s') := evalE_bin_abort_left ctx fuel env op t a b s s' x h
/-- arguments are evaluated in list order -/
theorem args_left_to_right (ctx : Ctx) (fuel : Nat) (env : Env) (a : Expr) (as : List Expr) :
    evalArgs ctx (fuel + 1) env (a :: as) = (do
      let v ← evalE ctx fuel env a
      let vs ← evalArgs ctx fuel env as
      pure (v :: vs)) := evalArgs_cons ctx fuel env a as

/-- BY-VALUE composites: after a successful write at a path, reading that path gives the written value and any
    path that diverges from it (another field / another index, at any depth) is unchanged -/
theorem composite_write_then_read {v : Val} {p : List Seg} {nv v' : Val} {s s' : St}
    (h : (setPath v p nv).run s = (.ok v', s')) (t : St) : (getPath v' p).run t = (.ok nv, t) := getPath_setPath_same h t
theorem composite_write_frames_others {v : Val} (pre : List Seg) {s1 s2 : Seg} {p q : List Seg} {nv v' : Val}
    {s s' : St} (h : (setPath v (pre ++ s1 :: p) nv).run s = (.ok v', s')) (hne : s1 ≠ s2) (t : St) :
    (getPath v' (pre ++ s2 :: q)).run t = (getPath v (pre ++ s2 :: q)).run t := getPath_setPath_disjoint pre h hne t
/-- variables are independent cells … -/
theorem write_other_cell_unchanged {n m : Nat} {p q : List Seg} {nv : Val} {s s' : St}
    (h : (writeLoc ⟨.cell n, p⟩ nv).run s = (.ok (), s')) (hne : m ≠ n) :
    (readLoc ⟨.cell m, q⟩).run s' = (((readLoc ⟨.cell m, q⟩).run s).1, s') := readLoc_writeLoc_other_cell h hne
/-- … and a reference (a location) WRITES THROUGH: what was written at the referent is what the reference reads -/
theorem ref_write_through {l : Loc} {nv : Val} {s s' : St} (k : Nat)
    (h : (writeLoc l nv).run s = (.ok (), s')) (hnv : ∀ l', nv ≠ .ref l') :
    (derefVal (k + 1) (.ref l)).run s' = (.ok nv, s') := derefVal_ref_after_write k h hnv

-- concrete instances
example : wrapInt 32 true (2147483647 + 1) = -2147483648 ∧ wrapInt 8 false (200 + 100) = 44 ∧ wrapInt 8 true 300 = 44 := by decide

/-! ### instruction selection: the regenerated table `Gen.qbeSel`

`lib/qbesel.py` compiles, with the compiler of the current tree, one function per (operator, integer type) and per
(source type, target type) cast, and writes the IL the emitter produced for it into `Gen/QbeSel.lean`.  The theorems below are
re-checked against that table on every run: every row has a shape for which `Proofs/QbeSem.lean` proves, for ALL operand values
of the type, that the sequence computes — in the QBE semantics of `Model/QbeSem.lean`, on canonical (sign- or zero-extended)
temporaries — the canonical temporary of the source-level result (wrapping at the declared width, truncating division,
value order for comparisons, wrap-to-target for casts). -/
section Selection
open FerretVerif.QbeSem

theorem sel_table_known_shapes : ∀ r ∈ Gen.qbeSel, rowOk r = true := by decide +kernel

theorem sel_table_well_formed : ∀ r ∈ Gen.qbeSel, r.src ∈ legalTys ∧ r.dst ∈ legalTys ∧ (r.kind ≠ .cast → r.dst = r.src) := by decide +kernel

def hasRow (k : Kind) (op : String) (s d : QbeSem.Ty) : Bool := Gen.qbeSel.any fun r => r.kind == k && r.op == op && r.src == s && r.dst == d

theorem sel_table_complete :
    (∀ t ∈ legalTys, ∀ op ∈ ["add", "sub", "mul", "div", "rem"], hasRow .bin op t t = true) ∧
    (∀ t ∈ legalTys, ∀ op ∈ cmpOps, hasRow .cmp op t t = true) ∧
    (∀ t ∈ signedTys, hasRow .neg "neg" t t = true) ∧
    (∀ s ∈ legalTys, ∀ d ∈ legalTys, s ≠ d → hasRow .cast "cast" s d = true) := by decide +kernel

theorem sel_table_correct (r : Row) (hr : r ∈ Gen.qbeSel) (args : List Int) (hin : ∀ a ∈ args, r.src.inRange a) (v : Nat)
    (hv : rowSpec r args = some v) : exec (args.map (canon r.src)) [] r.seq = some v :=
  have wf := sel_table_well_formed r hr
  row_correct r (sel_table_known_shapes r hr) wf.1 wf.2.1 wf.2.2 args hin v hv

/-- the same statement read at the level of values, for the binary operators: on in-range operands the selected sequence
    yields the canonical temporary of `specBin` (which IS the reference semantics' operator, see `spec_is_reference`) -/
theorem sel_binary_correct (r : Row) (hr : r ∈ Gen.qbeSel) (hk : r.kind = .bin) (a b w : Int)
    (ha : r.src.inRange a) (hb : r.src.inRange b) (hw : specBin r.op r.src a b = some w)
    (hno : ¬ ((r.op = "div" ∨ r.op = "rem") ∧ r.src.signed = true ∧ overflows r.src a b)) :
    exec [canon r.src a, canon r.src b] [] r.seq = some (canon r.src w) := by
  have := sel_table_correct r hr [a, b] (by intro x hx; simp at hx; rcases hx with rfl | rfl <;> assumption) (canon r.src w)
    (by simp only [rowSpec, hk, if_neg hno, hw, Option.map_some])
  simpa using this

/-- the specification used for the table is the reference interpreter's operator: `specBin` wraps the same mathematical
    result with the same wrap as `evalIntBin` (compare `arith_wraps`, `div_truncates` above) -/
theorem spec_wrap_is_reference (bits : Nat) (s : Bool) (v : Int) : (⟨bits, s⟩ : QbeSem.Ty).wrap v = wrapInt bits s v := rfl
theorem spec_is_reference (bits : Nat) (s : Bool) (a b : Int) (hb : b ≠ 0) :
    specBin "add" ⟨bits, s⟩ a b = some (wrapInt bits s (a + b)) ∧
    specBin "sub" ⟨bits, s⟩ a b = some (wrapInt bits s (a - b)) ∧
    specBin "mul" ⟨bits, s⟩ a b = some (wrapInt bits s (a * b)) ∧
    specBin "div" ⟨bits, s⟩ a b = some (wrapInt bits s (Int.tdiv a b)) ∧
    specBin "rem" ⟨bits, s⟩ a b = some (wrapInt bits s (Int.tmod a b)) := by
  refine ⟨rfl, rfl, rfl, ?_, ?_⟩ <;> simp [specBin, hb] <;> rfl

/-- non-vacuity and sharpness: i8 127 + 1 must come out as the canonical temporary of -128; the bare 32-bit `add`
    without the re-normalising `shl`/`sar` pair leaves 128 in the temporary -/
example : rowSpec ⟨.bin, "add", ⟨8, true⟩, ⟨8, true⟩, []⟩ [127, 1] = some (canon ⟨8, true⟩ (-128)) := by decide
theorem unnormalised_add_is_wrong :
    exec [canon ⟨8, true⟩ 127, canon ⟨8, true⟩ 1] [] [⟨.w, "add", .param 0, .param 1⟩] ≠ some (canon ⟨8, true⟩ (-128)) := by decide
/-- the excluded point: the machine's signed division has no result for MIN / -1 at the operation's width -/
theorem min_div_minus_one_traps :
    exec [canon ⟨32, true⟩ (-2147483648), canon ⟨32, true⟩ (-1)] [] [⟨.w, "div", .param 0, .param 1⟩] = none := by decide

/-! #### values that go through memory (struct fields, array elements, copies)

`Gen.qbeMem`: for each integer type, the store instruction the current compiler emits for a parameter stored into a struct field and
the load instruction whose result it returns for reading that field back. -/

theorem mem_table_known_shapes : ∀ r ∈ Gen.qbeMem, memRowOk r = true := by decide +kernel

theorem mem_table_complete : ∀ t ∈ legalTys, Gen.qbeMem.any (fun r => r.ty == t) = true := by decide +kernel

/-- for every row of the regenerated table and every in-range value: store, then load, gives back the canonical temporary -/
theorem mem_table_correct (r : MemRow) (hr : r ∈ Gen.qbeMem) (hl : r.ty ∈ legalTys) (v : Int) (hv : r.ty.inRange v) :
    (memStore r.store (canon r.ty v)).bind (memLoad r.cls r.load) = some (canon r.ty v) := by
  have hok := mem_table_known_shapes r hr
  simp only [memRowOk, Bool.and_eq_true, beq_iff_eq] at hok
  obtain ⟨h1, h2⟩ := hok
  have := mem_roundtrip r.ty hl v hv
  rw [← h1] at this
  rw [h2]; exact this

end Selection

end FerretVerif.C01
