/- Props/C01.lean — semantics theorems of the reference interpreter's integer operators (extended below) -/
import FerretVerif.Core.Eval
namespace FerretVerif.C01
open FerretVerif.Core

/-- wrapping lands in the type's range -/
theorem wrap_unsigned_range (bits : Nat) (v : Int) : 0 ≤ wrapInt bits false v ∧ wrapInt bits false v < (2 ^ bits : Nat) := by
  unfold wrapInt
  have hp : (0 : Int) < ((2 ^ bits : Nat) : Int) := by
    have := Nat.pow_pos (n := bits) (by decide : 0 < 2); omega
  simp only [Bool.false_and, Bool.false_eq_true, if_false]
  exact ⟨Int.emod_nonneg _ (by omega), Int.emod_lt_of_pos _ hp⟩

end FerretVerif.C01
