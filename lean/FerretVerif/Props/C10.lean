/-
  Props/C10.lean — C10: integer literals are range-checked exactly and keep their value.
  (extended with the parser theorems from Proofs/Literal.lean)
-/
import FerretVerif.Model.Literal
import FerretVerif.Proofs.Limbs

namespace FerretVerif.C10
open FerretVerif.Literal

/-- the range test applied to a parsed value is exactly the type's range -/
theorem fitsBits_exact (v : Int) (bits : Nat) (signed : Bool) :
    fitsBits v bits signed = true ↔
      (if signed then -(2 ^ (bits - 1) : Int) ≤ v ∧ v ≤ 2 ^ (bits - 1) - 1 else 0 ≤ v ∧ v ≤ 2 ^ bits - 1) := by
  unfold fitsBits; cases signed <;> simp

/-- the code as shipped evaluated a decimal literal with a leading zero in octal (finding F6) -/
theorem old_leading_zero_witness :
    isIntLit ['0', '1', '2', '7'] = true ∧ specVal ['0', '1', '2', '7'] = 127
      ∧ newNumericValueOld ['0', '1', '2', '7'] = some 87 ∧ newNumericValue ['0', '1', '2', '7'] = some 127 := by decide

/-- run-time materialisation of 128/256-bit constants: each digit step of the runtime parser is exact -/
theorem runtime_digit_step (B base : Nat) (hB : 0 < B) (v : List Nat) (d : Nat) :
    Limbs.val B (Limbs.mulAddSmall B base v d) = (Limbs.val B v * base + d) % B ^ v.length :=
  Limbs.mulAddSmall_spec B base hB v d

end FerretVerif.C10
