/-
  Props/C10.lean — C10: integer literals are range-checked exactly and keep their value.

  Spec (Model/Literal.lean): `isIntLit` = the integer alternatives of the lexer's NumberPattern,
  `specVal` = the literal's mathematical value (±Σ dᵢ·baseⁱ, see `value_is_positional_sum`).
  Impl-model: the transcription of internal/utils/numeric (after the fix of F6/F20), tied to the Go
  code by checks/c10.py (gohook numparse / fitshex / bigparse) on every run.
-/
import FerretVerif.Proofs.Literal
import FerretVerif.Proofs.Limbs

namespace FerretVerif.C10
open FerretVerif.Literal

/-- every well-formed integer literal — any base, any length, `_` separators, optional `-` —
    is parsed to exactly its mathematical value (this is the value constant emission uses) -/
theorem literal_value_preserved (s : List Char) (h : isIntLit s = true) :
    newNumericValue s = some (specVal s) := newNumericValue_spec s h

/-- the range check accepts a literal for a `bits`-wide integer type exactly when its value is in range -/
theorem fits_exact (s : List Char) (bits : Nat) (signed : Bool) (h : isIntLit s = true) :
    fitsInType s bits signed = true ↔
      (if signed then -(2 ^ (bits - 1) : Int) ≤ specVal s ∧ specVal s ≤ 2 ^ (bits - 1) - 1
       else 0 ≤ specVal s ∧ specVal s ≤ 2 ^ bits - 1) := Literal.fits_exact s bits signed h

/-- `specVal`'s magnitude really is the positional sum Σ dᵢ·base^(k-1-i) over the digits -/
theorem value_is_positional_sum (base : Nat) (ds : List Char) :
    digitsVal base ds = ((List.range (clean ds).length).map
      (fun i => digitVal ((clean ds).getD i '0') * base ^ ((clean ds).length - 1 - i))).sum :=
  digitsVal_eq_sum base ds

/-- the range test applied to a parsed value is exactly the type's range -/
theorem fitsBits_exact (v : Int) (bits : Nat) (signed : Bool) :
    fitsBits v bits signed = true ↔
      (if signed then -(2 ^ (bits - 1) : Int) ≤ v ∧ v ≤ 2 ^ (bits - 1) - 1 else 0 ≤ v ∧ v ≤ 2 ^ bits - 1) := by
  unfold fitsBits; cases signed <;> simp

/-- the code as shipped evaluated a decimal literal with a leading zero in octal (finding F6) … -/
theorem old_leading_zero_witness :
    newNumericValueOld ['0','1','2','7'] = some 87 ∧ specVal ['0','1','2','7'] = 127 ∧ isIntLit ['0','1','2','7'] = true :=
  Literal.old_leading_zero_witness

theorem old_separator_witness :
    newNumericValueOld ['0','_','1','_','0'] = some 8 ∧ specVal ['0','_','1','_','0'] = 10
      ∧ isIntLit ['0','_','1','_','0'] = true := Literal.old_separator_witness

/-- … and rejected in-range negative prefixed literals beyond 64 bits (finding F20) -/
theorem old_negative_hex_witness :
    newNumericValueOld "-0xFFFFFFFFFFFFFFFFFF".toList = none ∧ isIntLit "-0xFFFFFFFFFFFFFFFFFF".toList = true
      ∧ newNumericValue "-0xFFFFFFFFFFFFFFFFFF".toList = some (-4722366482869645213695)
      ∧ specVal "-0xFFFFFFFFFFFFFFFFFF".toList = -4722366482869645213695 := Literal.old_negative_hex_witness

/-- run-time materialisation of 128/256-bit constants: each digit step of the runtime parser
    (ferret_mul_add_small) is exact modulo B^n, for both limb widths -/
theorem runtime_digit_step (B base : Nat) (hB : 0 < B) (v : List Nat) (d : Nat) :
    Limbs.val B (Limbs.mulAddSmall B base v d) = (Limbs.val B v * base + d) % B ^ v.length :=
  Limbs.mulAddSmall_spec B base hB v d

-- non-vacuity: a non-trivial literal satisfies the hypothesis
example : isIntLit "-0x7f_FF".toList = true ∧ specVal "-0x7f_FF".toList = -32767 := by decide

end FerretVerif.C10
