/-
  Props/C03.lean — C03: statically ill-typed programs are rejected.

  The type checker's traversal (checkNode / checkExpr, ~6 kLoC) is NOT modelled; what the kernel checks is the part of
  the property that is a finite decision table or pure bookkeeping:
    * over the compatibility table regenerated from the current checkTypeCompatibility (all 17 x 17 numeric pairs):
      an implicit conversion S -> T exists only when every value of S is a value of T — so implicit narrowing and
      float -> int conversion are impossible — and two different numeric types are never `identical`, so arithmetic
      between different numeric types has no common type without a cast;
    * an error recorded by any front phase yields exit status 1 and no output artefact (pipeline gate).
  That every ill-typed construct IS reported in every syntactic position is observed by checks/c03.py.
-/
import FerretVerif.Props.C11
import FerretVerif.Props.C13

namespace FerretVerif.C03
open FerretVerif.Num FerretVerif.Diag

/-- no implicit conversion loses a value: if some value of `src` is not a value of `tgt`, the pair is not implicit -/
theorem lossy_never_implicit :
    ∀ r ∈ Gen.losslessTable, (∃ v, Rep r.src v ∧ ¬ Rep r.tgt v) → r.compat ≠ .implicit ∧ r.compat ≠ .identical := by
  intro r hr ⟨v, hv, hnv⟩
  constructor
  · intro hc; exact hnv (C11.implicit_is_lossless r hr (Or.inl hc) v hv)
  · intro hc; exact hnv (C11.implicit_is_lossless r hr (Or.inr hc) v hv)

/-- float -> integer is never implicit -/
theorem float_to_int_needs_cast :
    ∀ r ∈ Gen.losslessTable, r.src.isFloat = true → r.tgt.isFloat = false → r.compat = .explicit := by decide +kernel

/-- narrowing between integer types (fewer bits) is never implicit -/
theorem narrowing_needs_cast :
    ∀ r ∈ Gen.losslessTable, r.src.isFloat = false → r.tgt.isFloat = false → r.tgt.bits < r.src.bits → r.compat = .explicit := by decide +kernel

/-- different numeric types are never the same type: mixed arithmetic has no common operand type without a cast -/
theorem distinct_types_not_identical :
    ∀ r ∈ Gen.losslessTable, r.src ≠ r.tgt → r.compat ≠ .identical := by decide +kernel

/-- errors gate code generation: an error recorded by the front phases (type checker included) means exit status 1
    and no artefact, whatever the later phases would have reported -/
theorem type_error_fails_compilation (front mir codegen : List D) (skip : Bool) (h : ∃ d ∈ front, d.sev = .error) :
    (runPipeline front mir codegen skip).bag.exitStatus = 1 ∧ (runPipeline front mir codegen skip).artifact = false := by
  have h1 := C13.front_error_fails front mir codegen skip h
  refine ⟨h1, ?_⟩
  apply C13.errors_gate_codegen
  unfold Bag.exitStatus Bag.success at h1
  cases hh : (runPipeline front mir codegen skip).bag.hasErrors with
  | true => rfl
  | false => simp [hh] at h1

end FerretVerif.C03
