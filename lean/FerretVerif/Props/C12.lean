/-
  Props/C12.lean — C12: visibility by capitalisation.

  Kernel-checked over Model/Visibility.lean (tied to utils.IsExported by correspondence on arbitrary byte strings; the two
  decision functions are transcriptions of resolveStaticAccess / checkSelectorExpr and are tied through the whole
  compiler by the enumerated projects of checks/c12.py):
    * for identifiers (the lexer's identifier language) `isExported` is exactly "the first character is an uppercase
      letter"; `_x` and `x` are private;
    * a private symbol is never reachable from another module, an exported one always, and inside its own module
      every symbol is reachable;
    * a private field is reachable only when the base of the selector is an identifier bound to a receiver: through
      ANY longer access path (nested selectors, indexing, parentheses, call results — to any depth) it is rejected,
      while exported fields are reachable through every path.
  That the checks are actually reached in every syntactic position is observed, not proved.
-/
import FerretVerif.Model.Visibility
import FerretVerif.Model.Lexer

namespace FerretVerif.C12
open FerretVerif.Visibility

/-- on identifiers, exported ⟺ the first character is an uppercase ASCII letter (identifiers are ASCII) -/
theorem exported_iff_uppercase_initial (name : List Nat) (h : Lexer.scanIdent name = some name.length) :
    isExported name = true ↔ ∃ c rest, name = c :: rest ∧ 65 ≤ c ∧ c ≤ 90 := by
  cases name with
  | nil => simp [Lexer.scanIdent] at h
  | cons c rest =>
    simp only [isExported, Bool.and_eq_true, decide_eq_true_eq]
    constructor
    · intro hc; exact ⟨c, rest, rfl, hc.1, hc.2⟩
    · rintro ⟨c', rest', e, h1, h2⟩
      cases e; exact ⟨h1, h2⟩

/-- an identifier starting with a lowercase letter or `_` is private -/
theorem lowercase_or_underscore_private (c : Nat) (rest : List Nat) (h : (97 ≤ c ∧ c ≤ 122) ∨ c = 95) :
    isExported (c :: rest) = false := by
  simp only [isExported, Bool.and_eq_false_iff, decide_eq_false_iff_not]
  omega

theorem private_symbol_hidden_from_other_modules (name : List Nat) (h : isExported name = false) :
    staticAccessAllowed name false = false := by simp [staticAccessAllowed, h]

theorem exported_symbol_visible_everywhere (name : List Nat) (same : Bool) (h : isExported name = true) :
    staticAccessAllowed name same = true := by simp [staticAccessAllowed, h]

theorem own_module_sees_everything (name : List Nat) : staticAccessAllowed name true = true := by simp [staticAccessAllowed]

/-- a private field is reachable through a base only if that base is a receiver identifier -/
theorem private_field_only_through_receiver (field : List Nat) (h : isExported field = false) (b : Base) :
    fieldAccessAllowed field b = true ↔ b = .ident true := by
  cases b with
  | ident r => cases r <;> simp [fieldAccessAllowed, h]
  | selector _ => simp [fieldAccessAllowed, h]
  | index _ => simp [fieldAccessAllowed, h]
  | paren _ => simp [fieldAccessAllowed, h]
  | call => simp [fieldAccessAllowed, h]

theorem exported_field_through_every_path (field : List Nat) (h : isExported field = true) (b : Base) :
    fieldAccessAllowed field b = true := by
  cases b <;> simp [fieldAccessAllowed, h]

example : isExported [66, 97] = true ∧ isExported [98, 97] = false ∧ isExported [95, 66] = false ∧ isExported [] = false := by decide

end FerretVerif.C12
