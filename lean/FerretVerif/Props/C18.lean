/-
  Props/C18.lean — C18: composite values keep every component intact (layout soundness).

  About Model/Layout.lean (transcription of internal/mir/layout.go + the offset formulas of its consumers),
  for EVERY pointer size that is a power of two (4 and 8 are the real ones) and EVERY type expression
  (any nesting of structs, fixed arrays, optionals, results over primitives of 0/1/2/4/8/16/32 bytes).
  The model is tied to the Go code on every run by checks/c18.py (gohook layout).
-/
import FerretVerif.Proofs.Layout
import FerretVerif.Proofs.WasmAlloc

namespace FerretVerif.C18
open FerretVerif.Layout

/-- every alignment is a power of two -/
theorem align_pow2 {ps : Nat} (hps : IsPow2 ps) (t : Ty) (h : WfTy t) : IsPow2 (alignOf ps t) :=
  Layout.align_pow2 hps t h

/-- a type's size is a multiple of its alignment: array strides keep every element aligned -/
theorem size_mult_align {ps : Nat} (hps : IsPow2 ps) (t : Ty) (h : WfTy t) : alignOf ps t ∣ sizeOf ps t :=
  Layout.size_mult_align hps t h

/-- every struct field sits at a multiple of its own alignment -/
theorem fields_aligned {ps : Nat} (hps : IsPow2 ps) (fs : List Ty) (hwf : WfTys fs) (i : Nat) (hi : i < fs.length) :
    alignOf ps fs[i] ∣ (fieldOffsets ps fs 0)[i]'(by rw [fieldOffsets_length]; exact hi) :=
  Layout.fields_aligned hps fs hwf i hi

/-- a field's alignment divides the struct's, so a struct placed at an aligned address keeps it aligned -/
theorem field_addr_aligned {ps : Nat} (hps : IsPow2 ps) {fs : List Ty} (hwf : WfTys fs)
    {f : Ty} (hf : f ∈ fs) {base o : Nat} (hb : alignOf ps (.struct fs) ∣ base)
    (ho : alignOf ps f ∣ o) : alignOf ps f ∣ base + o := Layout.field_addr_aligned hps hwf hf hb ho

/-- distinct fields never overlap (any pointer size, any field types) -/
theorem fields_disjoint (ps : Nat) (fs : List Ty) (i j : Nat) (hij : i < j) (hj : j < fs.length) :
    (fieldOffsets ps fs 0)[i]'(by rw [fieldOffsets_length]; omega) + sizeOf ps (fs[i]'(by omega))
      ≤ (fieldOffsets ps fs 0)[j]'(by rw [fieldOffsets_length]; exact hj) :=
  Layout.fields_disjoint ps fs i j hij hj

/-- every field lies inside the struct -/
theorem fields_in_bounds (ps : Nat) (fs : List Ty) (i : Nat) (hi : i < fs.length) :
    (fieldOffsets ps fs 0)[i]'(by rw [fieldOffsets_length]; exact hi) + sizeOf ps fs[i] ≤ sizeOf ps (.struct fs) :=
  Layout.fields_in_bounds ps fs i hi

/-- the is-some flag of `T?` lies after the payload and inside the object -/
theorem optional_flag_after_payload (ps : Nat) (inner : Ty) :
    sizeOf ps inner ≤ optFlagOff ps inner ∧ optFlagOff ps inner < sizeOf ps (.opt inner) :=
  Layout.optional_flag_after_payload ps inner

/-- the ok/err tag of `E ! T` (as computed by the CONSUMER, resultTagOffset) lies after both payloads
    and inside the object whose size the PRODUCER (SizeOf) computes -/
theorem result_tag_after_union (ps : Nat) (ok err : Ty) :
    sizeOf ps ok ≤ resTagOff ps ok err ∧ sizeOf ps err ≤ resTagOff ps ok err ∧
      resTagOff ps ok err < sizeOf ps (.res ok err) := Layout.result_tag_after_union ps ok err

/-- consumer and producer agree on the result layout -/
theorem consumers_agree (ps : Nat) (ok err : Ty) :
    sizeOf ps (.res ok err) = alignTo (resTagOff ps ok err + 1) (max (alignOf ps ok) (alignOf ps err)) :=
  Layout.sizeOf_res_eq ps ok err

/-- array elements are pairwise disjoint and inside the array … -/
theorem array_elems_disjoint (ps : Nat) (e : Ty) {i j n : Nat} (hij : i < j) (hjn : j < n) :
    i * sizeOf ps e + sizeOf ps e ≤ j * sizeOf ps e ∧ j * sizeOf ps e + sizeOf ps e ≤ sizeOf ps (.arr e n) :=
  Layout.array_elems_disjoint ps e hij hjn

/-- … and each is aligned -/
theorem array_elem_aligned {ps : Nat} (hps : IsPow2 ps) {e : Ty} (hwf : WfTy e) (i : Nat) :
    alignOf ps e ∣ i * sizeOf ps e := Layout.array_elem_aligned hps hwf i

/-- offsets the C runtime (io.c) hard-codes for `str ! i32`, `str ! f64`, `str ! str` at pointer size 8 -/
theorem io_c_hardcoded_offsets_ok :
    (sizeOf 8 (.res .ptr (.prim 4)) = 16 ∧ resTagOff 8 .ptr (.prim 4) = 8) ∧
    (sizeOf 8 (.res .ptr (.prim 8)) = 16 ∧ resTagOff 8 .ptr (.prim 8) = 8) ∧
    (sizeOf 8 (.res .ptr .ptr) = 16 ∧ resTagOff 8 .ptr .ptr = 8) := Layout.io_c_hardcoded_offsets_ok

-- non-vacuity: a nested composite satisfies the hypotheses, at both pointer sizes
example : WfTy exTy ∧ IsPow2 8 ∧ IsPow2 4 := ⟨by decide, ⟨3, rfl⟩, ⟨2, rfl⟩⟩
example : fieldOffsets 8 exFields 0 = [0, 8, 16, 48] ∧ fieldOffsets 4 exFields 0 = [0, 4, 12, 36] := by decide

/-! ### the heap of the wasm runtime (runtime.js `ferret_alloc`), where composites behind references, dynamic arrays and
    strings live on the wasm target: tied to the shipped runtime.js by checks/c18.py (lane `wasm-alloc`) -/

open FerretVerif.WasmAlloc in
/-- For EVERY data-segment end, initial memory that contains it and EVERY sequence of allocation sizes: each block handed out
    lies inside the memory as it is after the run (so writing any of its bytes cannot trap), starts 8-aligned, and two
    different blocks never overlap: storing into one composite cannot change another. -/
theorem wasm_heap_blocks_intact (dataEnd pages : Nat) (hfit : align8 dataEnd ≤ pages * page) (sizes : List Nat) :
    let r := run (bind dataEnd pages) sizes
    r.2.length = sizes.length ∧
    (∀ b ∈ r.2, align8 dataEnd ≤ b.1 ∧ b.1 + b.2 ≤ r.1.mem ∧ b.1 % 8 = 0) ∧
    (r.2.Pairwise fun b c => b.1 + b.2 ≤ c.1) := by
  obtain ⟨⟨i1, _⟩, _, _, i4, i5⟩ := run_spec (bind dataEnd pages) sizes (bind_inv dataEnd pages hfit)
  refine ⟨run_length _ _, ?_, i5⟩
  intro b hb
  obtain ⟨j1, j2, j3⟩ := i4 b hb
  exact ⟨j1, by omega, j3⟩

open FerretVerif.WasmAlloc in
/-- … and at the moment a block is handed out it already lies inside the memory (the memory is grown before the address
    is returned, and never shrinks afterwards) -/
theorem wasm_alloc_in_memory (s : St) (n : Nat) (h : Inv s) :
    (alloc s n).2 + n ≤ (alloc s n).1.mem ∧ Inv (alloc s n).1 ∧ s.mem ≤ (alloc s n).1.mem :=
  ⟨(alloc_spec s n h).2.1, (alloc_spec s n h).1, (alloc_spec s n h).2.2.1⟩

open FerretVerif.WasmAlloc in
/-- why growing matters (the allocator as shipped before the repair F68 never grew the memory): with the growth removed,
    a second page-sized block already ends outside a one-page memory -/
theorem wasm_alloc_without_growth_witness :
    let noGrow (s : St) (n : Nat) : St × Nat := (⟨align8 (s.heap + n), s.mem⟩, s.heap)
    let s1 := (noGrow (bind 1024 1) 40000).1
    ¬ ((noGrow s1 40000).2 + 40000 ≤ (noGrow s1 40000).1.mem) := by decide +kernel

-- non-vacuity: a bound runtime satisfies the hypothesis, and a run that must grow the memory
open FerretVerif.WasmAlloc in
example : align8 1024 ≤ 1 * page ∧ (run (bind 1024 1) [40000, 40000, 3]).2 = [(1024, 40000), (41024, 40000), (81024, 3)]
    ∧ (run (bind 1024 1) [40000, 40000, 3]).1 = ⟨81032, 131072⟩ := by decide +kernel

end FerretVerif.C18
