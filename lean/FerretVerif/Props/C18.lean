/-
  Props/C18.lean — C18: composite values keep every component intact (layout soundness).

  About Model/Layout.lean (transcription of internal/mir/layout.go + the offset formulas of its consumers),
  for EVERY pointer size that is a power of two (4 and 8 are the real ones) and EVERY type expression
  (any nesting of structs, fixed arrays, optionals, results over primitives of 0/1/2/4/8/16/32 bytes).
  The model is tied to the Go code on every run by checks/c18.py (gohook layout).
-/
import FerretVerif.Proofs.Layout

namespace FerretVerif.C18
open FerretVerif.Layout

/-- every alignment is a power of two -/
theorem align_pow2 {ps : Nat} (hps : IsPow2 ps) (t : Ty) (h : WfTy t) : IsPow2 (alignOf ps t) :=
  Layout.align_pow2 hps t h

/-- a type's size is a multiple of its alignment: array strides keep every element aligned -/
theorem size_mult_align {ps : Nat} (hps : IsPow2 ps) (t : Ty) (h : WfTy t) : alignOf ps t ∣ sizeOf ps t :=
  Layout.size_mult_align hps t h

/-- every struct field sits at a multiple of its own alignment -/
theorem fields_aligned {ps : Nat} (hps : IsPow2 ps) (fs : List Ty) (hwf : WfTys fs) (i : Nat) (hi : i < fs.length) :
    alignOf ps fs[i] ∣ (fieldOffsets ps fs 0)[i]'(by rw [fieldOffsets_length]; exact hi) :=
  Layout.fields_aligned hps fs hwf i hi

/-- a field's alignment divides the struct's, so a struct placed at an aligned address keeps it aligned -/
theorem field_addr_aligned {ps : Nat} (hps : IsPow2 ps) {fs : List Ty} (hwf : WfTys fs)
    {f : Ty} (hf : f ∈ fs) {base o : Nat} (hb : alignOf ps (.struct fs) ∣ base)
    (ho : alignOf ps f ∣ o) : alignOf ps f ∣ base + o := Layout.field_addr_aligned hps hwf hf hb ho

/-- distinct fields never overlap (any pointer size, any field types) -/
theorem fields_disjoint (ps : Nat) (fs : List Ty) (i j : Nat) (hij : i < j) (hj : j < fs.length) :
    (fieldOffsets ps fs 0)[i]'(by rw [fieldOffsets_length]; omega) + sizeOf ps (fs[i]'(by omega))
      ≤ (fieldOffsets ps fs 0)[j]'(by rw [fieldOffsets_length]; exact hj) :=
  Layout.fields_disjoint ps fs i j hij hj

/-- every field lies inside the struct -/
theorem fields_in_bounds (ps : Nat) (fs : List Ty) (i : Nat) (hi : i < fs.length) :
    (fieldOffsets ps fs 0)[i]'(by rw [fieldOffsets_length]; exact hi) + sizeOf ps fs[i] ≤ sizeOf ps (.struct fs) :=
  Layout.fields_in_bounds ps fs i hi

/-- the is-some flag of `T?` lies after the payload and inside the object -/
theorem optional_flag_after_payload (ps : Nat) (inner : Ty) :
    sizeOf ps inner ≤ optFlagOff ps inner ∧ optFlagOff ps inner < sizeOf ps (.opt inner) :=
  Layout.optional_flag_after_payload ps inner

/-- the ok/err tag of `E ! T` (as computed by the CONSUMER, resultTagOffset) lies after both payloads
    and inside the object whose size the PRODUCER (SizeOf) computes -/
theorem result_tag_after_union (ps : Nat) (ok err : Ty) :
    sizeOf ps ok ≤ resTagOff ps ok err ∧ sizeOf ps err ≤ resTagOff ps ok err ∧
      resTagOff ps ok err < sizeOf ps (.res ok err) := Layout.result_tag_after_union ps ok err

/-- consumer and producer agree on the result layout -/
theorem consumers_agree (ps : Nat) (ok err : Ty) :
    sizeOf ps (.res ok err) = alignTo (resTagOff ps ok err + 1) (max (alignOf ps ok) (alignOf ps err)) :=
  Layout.sizeOf_res_eq ps ok err

/-- array elements are pairwise disjoint and inside the array … -/
theorem array_elems_disjoint (ps : Nat) (e : Ty) {i j n : Nat} (hij : i < j) (hjn : j < n) :
    i * sizeOf ps e + sizeOf ps e ≤ j * sizeOf ps e ∧ j * sizeOf ps e + sizeOf ps e ≤ sizeOf ps (.arr e n) :=
  Layout.array_elems_disjoint ps e hij hjn

/-- … and each is aligned -/
theorem array_elem_aligned {ps : Nat} (hps : IsPow2 ps) {e : Ty} (hwf : WfTy e) (i : Nat) :
    alignOf ps e ∣ i * sizeOf ps e := Layout.array_elem_aligned hps hwf i

/-- offsets the C runtime (io.c) hard-codes for `str ! i32`, `str ! f64`, `str ! str` at pointer size 8 -/
theorem io_c_hardcoded_offsets_ok :
    (sizeOf 8 (.res .ptr (.prim 4)) = 16 ∧ resTagOff 8 .ptr (.prim 4) = 8) ∧
    (sizeOf 8 (.res .ptr (.prim 8)) = 16 ∧ resTagOff 8 .ptr (.prim 8) = 8) ∧
    (sizeOf 8 (.res .ptr .ptr) = 16 ∧ resTagOff 8 .ptr .ptr = 8) := Layout.io_c_hardcoded_offsets_ok

-- non-vacuity: a nested composite satisfies the hypotheses, at both pointer sizes
example : WfTy exTy ∧ IsPow2 8 ∧ IsPow2 4 := ⟨by decide, ⟨3, rfl⟩, ⟨2, rfl⟩⟩
example : fieldOffsets 8 exFields 0 = [0, 8, 16, 48] ∧ fieldOffsets 4 exFields 0 = [0, 4, 12, 36] := by decide

end FerretVerif.C18
