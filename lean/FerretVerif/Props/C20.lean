/- Props/C20.lean — placeholder until Proofs/Toml.lean lands -/
import FerretVerif.Model.Toml
namespace FerretVerif.C20
open FerretVerif.Toml
/-- the unfixed writer rendered the float 3.0 as `3`, which the parser reads as the INT 3 (finding F11);
    with the fix the rendering keeps a fractional part -/
theorem float_integral_witness :
    parseValue (fun _ => true) ['3'] = .int 3 ∧ formatValue (.float ['3']) = ['3', '.', '0']
      ∧ parseValue (fun _ => true) ['3', '.', '0'] = .float ['3', '.', '0'] := by decide
end FerretVerif.C20
