/-
  Props/C20.lean — C20: TOML configuration survives a write/parse round trip.

  About Model/Toml.lean (text-level transcription of toml/writer.go and toml/parser.go after the fix of F11),
  tied to the Go package on every run by checks/c20.py.  The two facts assumed about strconv are explicit:
  `floatRaw raw` (shape of FormatFloat(v,'f',-1,64): -?d+(.d+)?) in `writable`, and
  `hpf : ∀ t, floatRaw t → pf t` (ParseFloat accepts every text of that shape); that ParseFloat returns the
  float FormatFloat printed is strconv's round-trip guarantee and lies outside the model (floats stay text).
-/
import FerretVerif.Proofs.Toml

namespace FerretVerif.C20
open FerretVerif.Toml

/-- every writable value — strings without `"`, `\`, CR/LF not spelled like a boolean (leading/trailing blanks,
    `#`, `=`, `[` all allowed), booleans, 64-bit integers, finite floats — is read back as written -/
theorem roundtrip_value (pf : List Char → Bool) (hpf : ∀ t, floatRaw t = true → pf t = true)
    (v : WVal) (hv : writable v = true) : parseValue pf (formatValue v) = expectRead v :=
  parseValue_formatValue pf hpf v hv

/-- a written `key = value` line is parsed back to that key and value -/
theorem roundtrip_line (pf : List Char → Bool) (hpf : ∀ t, floatRaw t = true → pf t = true)
    {k : List Char} {v : WVal} (hk : bareKey k = true) (hv : writable v = true) :
    parseLine pf (trimSpace (k ++ " = ".toList ++ formatValue v)) = .kv k (expectRead v) :=
  parseLine_formatLine pf hpf hk hv

/-- surrounding blanks never change the parsed value -/
theorem blanks_inert (pf : List Char → Bool) (hpf : ∀ t, floatRaw t = true → pf t = true)
    {ws1 k ws2 ws3 ws4 : List Char} {v : WVal} (hk : bareKey k = true) (hv : writable v = true)
    (h1 : blanks ws1 = true) (h2 : blanks ws2 = true) (h3 : blanks ws3 = true) (h4 : blanks ws4 = true) :
    parseLine pf (trimSpace (ws1 ++ k ++ ws2 ++ ['='] ++ ws3 ++ formatValue v ++ ws4)) = .kv k (expectRead v) :=
  parseLine_blanks_inert pf hpf hk hv h1 h2 h3 h4

/-- a trailing comment — ANY text after `#` — never changes the parsed value -/
theorem comments_inert (pf : List Char → Bool) (hpf : ∀ t, floatRaw t = true → pf t = true)
    {ws1 k ws2 ws3 ws4 : List Char} {v : WVal} (c : List Char) (hk : bareKey k = true) (hv : writable v = true)
    (h1 : blanks ws1 = true) (h2 : blanks ws2 = true) (h3 : blanks ws3 = true) (h4 : blanks ws4 = true) :
    parseLine pf (trimSpace (ws1 ++ k ++ ws2 ++ ['='] ++ ws3 ++ formatValue v ++ (ws4 ++ ['#'] ++ c)))
      = .kv k (expectRead v) := parseLine_comment_inert pf hpf c hk hv h1 h2 h3 h4

/-- blank lines and comment lines are skipped -/
theorem blank_line_skipped (pf : List Char → Bool) {l : List Char} (h : allSp l) : parseLine pf (trimSpace l) = .skip :=
  parseLine_skip_blank pf h
theorem comment_line_skipped (pf : List Char → Bool) {ws : List Char} (c : List Char) (h : allSp ws) :
    parseLine pf (trimSpace (ws ++ '#' :: c)) = .skip := parseLine_skip_comment pf c h

/-- FILE-LEVEL ROUND TRIP: for any table over the writer's sections with bare keys and writable values (entries
    in ANY order — Go iterates its maps arbitrarily), the written file parses, every written key is read back
    in its section with its value … -/
theorem roundtrip_file_parses (pf : List Char → Bool) (hpf : ∀ t, floatRaw t = true → pf t = true)
    (data : List WSection) (hwf : wfData data = true) : parseFile pf (writeFile data) ≠ none :=
  parseFile_writeFile_ne_none pf hpf data hwf

theorem roundtrip_file_lookup (pf : List Char → Bool) (hpf : ∀ t, floatRaw t = true → pf t = true)
    (data : List WSection) (hwf : wfData data = true) {n k : List Char} {es : List (List Char × WVal)} {v : WVal}
    (hn : (n, es) ∈ data) (hk : (k, v) ∈ es) :
    (parseFile pf (writeFile data)).bind (fun d => lookup d n k) = some (expectRead v) :=
  parseFile_writeFile_lookup pf hpf data hwf hn hk

/-- … and nothing else is read -/
theorem roundtrip_file_nothing_else (pf : List Char → Bool) (hpf : ∀ t, floatRaw t = true → pf t = true)
    (data : List WSection) (hwf : wfData data = true) {n k : List Char} {pv : PVal}
    (h : (parseFile pf (writeFile data)).bind (fun d => lookup d n k) = some pv) :
    ∃ es v, (n, es) ∈ data ∧ (k, v) ∈ es ∧ pv = expectRead v := parseFile_writeFile_only pf hpf data hwf h

/-- integers survive Itoa/Atoi over the whole 64-bit range -/
theorem roundtrip_int {i : Int} (h : inInt64 i = true) : atoi (itoa i) = some i := atoi_itoa h

/-- the float rendering always keeps a fractional part (so it is never re-read as an integer) -/
theorem float_keeps_fraction {raw : List Char} (h : floatRaw raw = true) :
    floatRaw (formatFloat raw) = true ∧ '.' ∈ formatFloat raw := formatFloat_shape h

/-- the unfixed writer rendered the float 3.0 as `3`, which the parser reads as the INT 3 (finding F11) -/
theorem float_integral_witness :
    parseValue (fun _ => true) ['3'] = .int 3 ∧ formatValue (.float ['3']) = ['3', '.', '0']
      ∧ parseValue (fun _ => true) ['3', '.', '0'] = .float ['3', '.', '0'] := by decide

/-- the parser is a total function of the file content (absence of crashes in the Go code is correspondence) -/
theorem parse_total (pf : List Char → Bool) (s : List Char) : ∃ r, parseFile pf s = r := ⟨_, rfl⟩

-- non-vacuity
example : okStr " a # b = [c] ".toList = true ∧ floatRaw "-12.5".toList = true ∧ bareKey "max-depth_2".toList = true := by decide

end FerretVerif.C20
