/-
  Props/C13.lean — C13: the compiler is total and reports failure faithfully.

  Kernel-checked here: the lexer loop (Model/Lexer.lean, tied to tokenizer.go by the regenerated pattern table
  `Gen.lexOps` and by byte-level correspondence) makes progress on every input and terminates within
  `|input|` iterations, its token list ends with exactly one end-of-file token placed at the end of the input;
  the diagnostic bag's counters are exact for every sequence of Add calls (hence for every interleaving of the
  goroutines, Add being atomic under the mutex); exit status 0 ⟺ no error diagnostic was recorded/printed;
  a recorded error prevents the output artefact.  Crashes (nil dereferences) and hangs of the ~20 kLoC of later
  Go phases have no model counterpart: they are observed by the whole-compiler monitor of checks/c13.py.
-/
import FerretVerif.Proofs.Lexer
import FerretVerif.Proofs.Diag
import FerretVerif.Gen.LexTables

namespace FerretVerif.C13
open FerretVerif.Lexer FerretVerif.Diag

/-- the tables of the CURRENT tokenizer (regenerated on every run) -/
def T : Tables := ⟨Gen.lexOps, Gen.lexKeywords⟩

/-- every operator pattern's handler consumes exactly the non-empty text its regex matched -/
theorem tables_ok : TablesOk T := by decide +kernel

/-- Progress: each iteration of Tokenize consumes between 1 and |rest| bytes, for every input. -/
theorem tokenize_progress (s : List Byte) (hs : s ≠ []) : 1 ≤ (step T s).n ∧ (step T s).n ≤ s.length :=
  step_bounds T tables_ok s hs

/-- Totality: `|s|` iterations always suffice (more fuel changes nothing): Tokenize terminates on every input. -/
theorem tokenize_total (s : List Byte) (extra : Nat) :
    lexLoop T (s.length + extra) Pos.start s = lex T s :=
  lexLoop_fuel T tables_ok (s.length + extra) Pos.start s (by omega)

/-- The token list is `front ++ [EOF]` with no EOF inside `front`. -/
theorem tokens_end_with_eof (s : List Byte) :
    ∃ front e, (lex T s).toks = front ++ [e] ∧ e.kind = .eof ∧ ∀ t ∈ front, t.kind ≠ .eof :=
  lexLoop_shape T s.length Pos.start s

/-- The EOF token sits at byte offset |s|: the loop consumed the whole input, nothing more. -/
theorem eof_at_end (s : List Byte) : ∀ e ∈ (lex T s).toks, e.kind = .eof → e.start.idx = s.length := by
  intro e he hk
  have := lexLoop_eof_idx T tables_ok s.length Pos.start s (Nat.le_refl _) e he hk
  simpa [Pos.start] using this

/-- At most one lexer diagnostic per input byte. -/
theorem lexer_errors_bounded (s : List Byte) : (lex T s).errs ≤ s.length :=
  lexLoop_errs_le T tables_ok s.length Pos.start s

/-- For ANY sequence of Add calls the error counter equals the number of error diagnostics recorded. -/
theorem error_count_exact (adds : List D) :
    (addAll Bag.empty adds).errorCount = (adds.filter isErr).length := by
  have h := (addAll_inv Bag.empty adds inv_empty).1
  rw [h, addAll_diags]; simp [Bag.empty]

/-- Exit status 0 exactly when no error diagnostic is in the bag (= printed by EmitAll). -/
theorem exit_zero_iff_no_error_diag (adds : List D) :
    (addAll Bag.empty adds).exitStatus = 0 ↔ (addAll Bag.empty adds).printedErrors = [] := by
  have hi := addAll_inv Bag.empty adds inv_empty
  unfold Bag.exitStatus Bag.success
  have := hasErrors_iff _ hi
  unfold Bag.printedErrors
  by_cases h : (addAll Bag.empty adds).hasErrors = true
  · simp only [h, Bool.not_true]
    obtain ⟨d, hd, he⟩ := this.mp h
    constructor
    · intro hh; simp at hh
    · intro hh
      have : d ∈ (addAll Bag.empty adds).diags.filter (fun d => d.sev = .error) := by simp [hd, he]
      rw [hh] at this; cases this
  · have hf : (addAll Bag.empty adds).hasErrors = false := by simpa using h
    simp only [hf, Bool.not_false, if_true, true_iff]
    rw [List.filter_eq_nil_iff]
    intro d hd hde
    exact h (this.mpr ⟨d, hd, by simpa using hde⟩)

/-- A failing compilation printed at least one error diagnostic. -/
theorem failure_has_error_diag (adds : List D) :
    (addAll Bag.empty adds).exitStatus ≠ 0 → ∃ d ∈ adds, d.sev = .error := by
  intro h
  have hi := addAll_inv Bag.empty adds inv_empty
  unfold Bag.exitStatus Bag.success at h
  by_cases hh : (addAll Bag.empty adds).hasErrors = true
  · obtain ⟨d, hd, he⟩ := (hasErrors_iff _ hi).mp hh
    rw [addAll_diags] at hd
    exact ⟨d, by simpa [Bag.empty] using hd, he⟩
  · simp [hh] at h

/-- Errors gate code generation: whatever the phases report, a run that ends with an error in the bag has written
    no artefact, and a run that wrote one ends with exit status 0. -/
theorem errors_gate_codegen (front mir codegen : List D) (skip : Bool) :
    (runPipeline front mir codegen skip).bag.hasErrors = true → (runPipeline front mir codegen skip).artifact = false := by
  unfold runPipeline
  simp only
  split
  · intro; rfl
  · split
    · intro; rfl
    · split
      · intro; rfl
      · intro h; simp [h]

theorem artifact_implies_exit_zero (front mir codegen : List D) (skip : Bool) :
    (runPipeline front mir codegen skip).artifact = true → (runPipeline front mir codegen skip).bag.exitStatus = 0 := by
  intro ha
  unfold Bag.exitStatus Bag.success
  cases h : (runPipeline front mir codegen skip).bag.hasErrors with
  | false => simp
  | true => rw [errors_gate_codegen _ _ _ _ h] at ha; cases ha

/-- An error recorded by the front phases is never lost: the run fails. -/
theorem front_error_fails (front mir codegen : List D) (skip : Bool) (h : ∃ d ∈ front, d.sev = .error) :
    (runPipeline front mir codegen skip).bag.exitStatus = 1 := by
  have hi := addAll_inv Bag.empty front inv_empty
  have hb : (addAll Bag.empty front).hasErrors = true := by
    rw [hasErrors_iff _ hi, addAll_diags]
    obtain ⟨d, hd, he⟩ := h
    exact ⟨d, by simp [Bag.empty, hd], he⟩
  unfold runPipeline
  simp [hb, Bag.exitStatus, Bag.success]

-- non-vacuity / sanity (tests, not the claims)
-- `a-1 // t`: identifier, the number `-1` (the sign belongs to the literal), a comment, EOF
example : ((lex T [97, 45, 49, 32, 47, 47, 32, 116]).toks.map (·.kind)) = [.ident, .number, .comment, .eof] := by decide +kernel
example : (lex T [35, 36]).errs = 2 := by decide +kernel        -- `#$`: two unrecognised bytes, two diagnostics
example : (runPipeline [] [] [] false).artifact = true := by decide
example : (runPipeline [⟨.warning, false, false, 0, 0, 0, 0⟩] [] [⟨.error, false, false, 0, 0, 0, 1⟩] false).artifact = false := by decide

end FerretVerif.C13
