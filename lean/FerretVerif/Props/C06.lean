/-
  Props/C06.lean — C06: immutable bindings cannot be modified.

  About Model/Mut.lean (transcription of the mutability checks after the fixes F4/F25), tied to the type checker
  on every run by checks/c06.py (exhaustive product roots × paths × forms × contexts compiled with `ferret -t`).
-/
import FerretVerif.Model.Mut

namespace FerretVerif.C06
open FerretVerif.Mut

theorem root_ofPath (r : Root) (p : List Seg) : (Chain.ofPath r p).root = r := by
  induction p with
  | nil => rfl
  | cons s p ih => cases s <;> simpa [Chain.ofPath, Chain.root] using ih

theorem immRef_ofPath (r : Root) (p : List Seg) : (Chain.ofPath r p).immRefInChain = r.immRef := by
  induction p with
  | nil => rfl
  | cons s p ih => cases s <;> simpa [Chain.ofPath, Chain.immRefInChain] using ih

theorem borrowable_ofPath (r : Root) (p : List Seg) : (Chain.ofPath r p).borrowable = !r.constOrReadonly := by
  induction p with
  | nil => rfl
  | cons s p ih => cases s <;> simpa [Chain.ofPath, Chain.borrowable] using ih

/-- the mutability check of a place depends only on the ROOT binding, whatever the access path
    (fields, indices, parentheses, to any depth) -/
theorem check_depends_on_root_only (r : Root) (p : List Seg) :
    checkMutabilityBlocks (Chain.ofPath r p) = r.immutable := by
  simp [checkMutabilityBlocks, root_ofPath, immRef_ofPath, Root.immutable]

/-- C06: every form of mutation on a place rooted in an immutable binding — a const, the index variable of a
    two-variable for loop, a catch error variable, an immutable reference (parameter, receiver or local) — is
    rejected, for EVERY access path and EVERY mutation form -/
theorem immutable_never_mutated (r : Root) (h : r.immutable = true) (path : List Seg) (f : Form) :
    implRejects r path f = true := by
  cases f <;> simp [implRejects, check_depends_on_root_only, h]

/-- no mis-rejection: on a mutable root the only thing refused is taking `&'` of a variable that already is a
    reference ("reference of a reference") -/
theorem mutable_not_rejected (r : Root) (h : r.immutable = false) (path : List Seg) (f : Form)
    (hr : implRejects r path f = true) : (f = .mutBorrow ∨ f = .passMut) ∧ path = [] ∧ r.isRef = true := by
  have hc : r.constOrReadonly = false := by
    cases r <;> simp_all [Root.immutable, Root.constOrReadonly, Root.immRef]
  cases f <;> simp_all [implRejects, check_depends_on_root_only, borrowable_ofPath]

/-- the check as originally shipped looked at the root only when the target was a bare identifier:
    a field of a const was assignable (finding F4) -/
def checkMutabilityOld (c : Chain) : Bool :=
  (match c with | .ident r => r.constOrReadonly | _ => false) || c.immRefInChain

theorem old_const_field_witness :
    checkMutabilityOld (Chain.ofPath .constV [.fld]) = false ∧ Root.immutable .constV = true
      ∧ checkMutabilityBlocks (Chain.ofPath .constV [.fld]) = true := by decide

-- non-vacuity: immutable and mutable roots exist, with a deep path
example : Root.immutable .recvRef = true ∧ implRejects .recvRef [.fld, .idx, .paren, .fld] .incDec = true := by decide
example : Root.immutable .letV = false ∧ implRejects .letV [.fld, .idx] .mutBorrow = false := by decide

end FerretVerif.C06
