/-
  Props/C06.lean — C06: immutable bindings cannot be modified.

  About Model/Mut.lean (transcription of the mutability checks after the fixes F4/F25 and the repair of references
  held in fields and elements), tied to the type checker on every run by checks/c06.py (exhaustive product
  roots × paths × forms × contexts compiled with `ferret -t`).
-/
import FerretVerif.Model.Mut

namespace FerretVerif.C06
open FerretVerif.Mut

theorem root_ofPath (r : Root) (p : List Seg) : (Chain.ofPath r p).root = r := by
  induction p with
  | nil => rfl
  | cons s p ih => cases s <;> simpa [Chain.ofPath, Chain.root] using ih

theorem borrowable_ofPath (r : Root) (p : List Seg) : (Chain.ofPath r p).borrowable = !r.constOrReadonly := by
  induction p with
  | nil => rfl
  | cons s p ih => cases s <;> simpa [Chain.ofPath, Chain.borrowable] using ih

/-- the walk of `findImmutableRefInChain` plus the callers' own check of the target's type finds an immutable reference
    exactly when the chain goes through one — at the root, at the place itself, or at any step in between -/
theorem immRef_exact (c : Chain) : (c.immRefInChain || c.ty == .imm) = c.throughImm := by
  induction c with
  | ident r => simp [Chain.immRefInChain, Chain.ty, Chain.throughImm, Root.ty]; cases r <;> simp [Root.immRef, Root.isRef]
  | sel t x ih => simp only [Chain.immRefInChain, Chain.ty, Chain.throughImm, ih]; cases t <;> cases x.throughImm <;> rfl
  | index t x ih => simp only [Chain.immRefInChain, Chain.ty, Chain.throughImm, ih]; cases t <;> cases x.throughImm <;> rfl
  | paren x ih => simpa [Chain.immRefInChain, Chain.ty, Chain.throughImm] using ih

/-- the references the walk itself reports are among those the chain goes through -/
theorem immRef_sound (c : Chain) : c.immRefInChain = true → c.throughImm = true := by
  intro h; rw [← immRef_exact]; simp [h]

/-- C06: every form of mutation on a place reached through an immutable binding — rooted in a const, the index variable of a
    two-variable for loop or a catch error variable, or going through an immutable reference held by a parameter, a receiver,
    a local, a struct field or an array element, at the root, in the middle or at the end of the access path — is rejected,
    for EVERY access path and EVERY mutation form -/
theorem immutable_never_mutated (r : Root) (path : List Seg) (h : mustReject r path = true) (f : Form) :
    implRejects r path f = true := by
  unfold mustReject at h
  have key : r.constOrReadonly = true ∨ ((Chain.ofPath r path).immRefInChain || (Chain.ofPath r path).ty == .imm) = true := by
    rw [immRef_exact]; simpa using h
  rcases key with hc | hi
  · cases f <;> simp [implRejects, checkMutabilityBlocks, root_ofPath, hc]
  · have hi' : (Chain.ofPath r path).immRefInChain = true ∨ ((Chain.ofPath r path).ty == .imm) = true := by simpa using hi
    rcases hi' with h1 | h2
    · cases f <;> simp [implRejects, checkMutabilityBlocks, h1]
    · have h3 : (Chain.ofPath r path).ty = .imm := by simpa using h2
      cases f <;> simp [implRejects, h3]

/-- the special case the property names first: the check depends only on the root when the path goes through values only -/
theorem immutable_root_never_mutated (r : Root) (h : r.immutable = true) (path : List Seg) (f : Form) :
    implRejects r path f = true := by
  apply immutable_never_mutated
  unfold mustReject
  have : r.constOrReadonly = true ∨ r.immRef = true := by simpa [Root.immutable] using h
  rcases this with h1 | h2
  · simp [h1]
  · have : (Chain.ofPath r path).throughImm = true := by
      induction path with
      | nil => simpa [Chain.ofPath, Chain.throughImm] using h2
      | cons s p ih => cases s <;> simp [Chain.ofPath, Chain.throughImm, ih]
    simp [this]

/-- no mis-rejection: a place that is not reached through an immutable binding is refused only for taking `&'` of something
    that already is a reference ("reference of a reference") -/
theorem mutable_not_rejected (r : Root) (path : List Seg) (h : mustReject r path = false) (f : Form)
    (hr : implRejects r path f = true) : (f = .mutBorrow ∨ f = .passMut) ∧ (Chain.ofPath r path).ty = .mut := by
  unfold mustReject at h
  have hc : r.constOrReadonly = false := by
    cases hh : r.constOrReadonly <;> simp [hh] at h ⊢
  have ht : (Chain.ofPath r path).throughImm = false := by
    cases hh : (Chain.ofPath r path).throughImm <;> simp [hh] at h ⊢
  rw [← immRef_exact] at ht
  have h1 : (Chain.ofPath r path).immRefInChain = false := by
    cases hh : (Chain.ofPath r path).immRefInChain <;> simp [hh] at ht ⊢
  have h2 : ((Chain.ofPath r path).ty == .imm) = false := by
    cases hh : ((Chain.ofPath r path).ty == .imm) <;> simp [hh, h1] at ht ⊢
  have h2' : (Chain.ofPath r path).ty ≠ .imm := by simpa using h2
  cases f <;> simp [implRejects, checkMutabilityBlocks, root_ofPath, hc, h1, h2, borrowable_ofPath] at hr
  all_goals (refine ⟨by simp, ?_⟩; cases hty : (Chain.ofPath r path).ty <;> simp_all)

/-- the check as originally shipped looked at the root only when the target was a bare identifier:
    a field of a const was assignable (finding F4) -/
def checkMutabilityOld (c : Chain) : Bool :=
  (match c with | .ident r => r.constOrReadonly | _ => false) || c.immRefInChain

theorem old_const_field_witness :
    checkMutabilityOld (Chain.ofPath .constV [.fld]) = false ∧ Root.immutable .constV = true
      ∧ checkMutabilityBlocks (Chain.ofPath .constV [.fld]) = true := by decide

/-- the walk as shipped before the repair of references held in fields / elements looked at the root identifier only:
    `rs[0].X = 9` with `rs: [2]&P` was accepted -/
def immRefRootOnly : Chain → Bool
  | .ident r => r.immRef
  | .sel _ x | .index _ x | .paren x => immRefRootOnly x

theorem old_ref_in_element_witness :
    immRefRootOnly (Chain.ofPath .letV [.fld, .idx .imm]) = false ∧ mustReject .letV [.fld, .idx .imm] = true
      ∧ implRejects .letV [.fld, .idx .imm] .assign = true := by decide

-- non-vacuity: immutable and mutable places exist, with deep paths
example : mustReject .recvRef [.fld, .idx, .paren, .fld] = true ∧ implRejects .recvRef [.fld, .idx, .paren, .fld] .incDec = true := by decide
example : mustReject .letV [.fld, .idx] = false ∧ implRejects .letV [.fld, .idx] .mutBorrow = false := by decide
example : mustReject .letV [.fld .imm] = true ∧ implRejects .letV [.fld .imm] .callMutMethod = true := by decide
example : mustReject .letV [.fld, .fld .mut] = false ∧ implRejects .letV [.fld, .fld .mut] .assign = false := by decide

end FerretVerif.C06
