/-
  Props/C17.lean — C17: runtime maps and dynamic arrays behave as abstract maps and lists.

  About Model/RtMap.lean (transcription of runtime/core/map.c and array.c), for ANY key type and ANY hash
  function (so for the i32 / i64 / string / byte-blob instantiations alike, and regardless of collisions).
  Tied to the C code on every run by checks/c17.py (exact output equality incl. iteration order, under
  ASan/UBSan/LSan).  Memory safety: the model carries the SPATIAL obligations (indices in bounds); lifetimes
  (use-after-free, leaks) have no counterpart in a pure model and are sanitizer-observed only.
-/
import FerretVerif.Proofs.RtMap

namespace FerretVerif.C17
open FerretVerif.RtMap
variable {K V : Type} [DecidableEq K]

/-- REFINEMENT: for every history of set/get/has/size/iterate from a new map, the hash table's outputs agree
    with the abstract association list's (iteration: same entries, each exactly once, order free) -/
theorem map_refines (hash : K → Nat) (ops : List (Op K V)) :
    Rel hash (runImpl hash (new : Map K V) ops).1 (runSpec ([] : Spec K V) ops).1 ∧
      OutsAgree (runImpl hash (new : Map K V) ops).2 (runSpec ([] : Spec K V) ops).2 := history_refines hash ops

/-- the representation invariant (bucket discipline, no duplicate keys, size = #entries) holds initially and
    is preserved by every operation, including the rehash on resize and from_pairs -/
theorem inv_new (hash : K → Nat) : Inv hash (new : Map K V) := RtMap.inv_new hash
theorem inv_set {hash : K → Nat} {m : Map K V} (h : Inv hash m) (k : K) (v : V) : Inv hash (set hash m k v) := RtMap.inv_set h k v
theorem inv_resize {hash : K → Nat} {m : Map K V} {n : Nat} (h : Inv hash m) (hn : 0 < n) : Inv hash (resize hash m n) :=
  RtMap.inv_resize h hn
theorem inv_fromPairs (hash : K → Nat) (ps : List (K × V)) : Inv hash (fromPairs hash ps) := RtMap.inv_fromPairs hash ps

/-- a key returns the value most recently stored under it … -/
theorem get_set_same {hash : K → Nat} {m : Map K V} (h : Inv hash m) (k : K) (v : V) :
    get hash (set hash m k v) k = some v := RtMap.get_set_same h k v
/-- … other keys are untouched, a new map is empty, a resize changes nothing observable -/
theorem get_set_other {hash : K → Nat} {m : Map K V} (h : Inv hash m) {k k' : K} (hne : k' ≠ k) (v : V) :
    get hash (set hash m k v) k' = get hash m k' := RtMap.get_set_other h hne v
theorem get_new (hash : K → Nat) (k : K) : get hash (new : Map K V) k = none := RtMap.get_new hash k
theorem resize_preserves_get {hash : K → Nat} {m : Map K V} {n : Nat} (h : Inv hash m) (hn : 0 < n) (k : K) :
    get hash (resize hash m n) k = get hash m k := RtMap.resize_preserves_get h hn k

/-- size is the number of distinct keys -/
theorem size_is_distinct_keys {hash : K → Nat} {m : Map K V} (h : Inv hash m) (k : K) (v : V) :
    (set hash m k v).size = if (get hash m k).isSome then m.size else m.size + 1 := RtMap.size_set h k v

/-- iteration visits each entry exactly once -/
theorem iter_visits_each_once {hash : K → Nat} {m : Map K V} (h : Inv hash m) :
    ((iterate m).map (·.1)).Nodup ∧ (iterate m).length = m.size ∧ ∀ k v, (k, v) ∈ iterate m ↔ get hash m k = some v :=
  ⟨iterate_nodup_keys h, iterate_length h, mem_iterate_iff h⟩

/-- from_pairs: the last pair with a given key wins -/
theorem fromPairs_last_wins (hash : K → Nat) (ps : List (K × V)) (k : K) :
    get hash (fromPairs hash ps) k = (ps.reverse.find? (fun p => decide (p.1 = k))).map (·.2) := RtMap.fromPairs_spec hash ps k

/-- spatial safety: the bucket index used by get/set is inside the bucket array -/
theorem bucket_index_in_bounds {hash : K → Nat} {m : Map K V} (h : Inv hash m) (k : K) :
    hash k % m.buckets.length < m.buckets.length ∧ hash k % (presize hash m).buckets.length < (presize hash m).buckets.length :=
  ⟨get_index_in_bounds h k, set_index_in_bounds h k⟩

/-- dynamic array: any history of appends/sets yields exactly the abstract list, and the write position of an
    append is always inside the (possibly re-grown) allocation -/
theorem array_refines (ops : List (ArrOp V)) (c : Nat) :
    (ops.foldl Arr.step (Arr.new c)).data = ops.foldl listStep [] ∧ ArrInv (ops.foldl Arr.step (Arr.new c)) :=
  arr_refines_list_new ops c
theorem append_len (a : Arr V) (x : V) : (a.append x).len = a.len + 1 ∧ (a.append x).get (a.len : Int) = some x :=
  ⟨arr_len_append a x, arr_get_append a x⟩
theorem array_oor_refused (a : Arr V) (x : V) (i : Int) (h : i < 0 ∨ i ≥ a.len) :
    a.get i = none ∧ (a.set i x).2 = false ∧ (a.set i x).1 = a := arr_oor_refused a x i h
theorem append_write_in_bounds (a : Arr V) (x : V) (h : ArrInv a) : a.data.length < (a.append x).capacity :=
  arr_append_write_in_bounds a x h

end FerretVerif.C17
