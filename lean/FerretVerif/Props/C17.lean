/- Props/C17.lean — placeholder until Proofs/RtMap.lean lands -/
import FerretVerif.Model.RtMap
namespace FerretVerif.C17
open FerretVerif.RtMap
theorem threshold_16 : threshold 16 = 12 ∧ threshold 32 = 24 := by decide
end FerretVerif.C17
