/-
  Props/C15.lean — C15: import graphs — every cycle is rejected, every DAG builds, under all schedules.

  About Model/DepGraph.lean (transcription of AddDependency / hasCyclePath / ComputeTopologicalOrder in
  internal/context_v2/context.go and of the processModule/parseModule scheduling skeleton of
  internal/pipeline/parse.go as a transition system whose atomic steps are the mutex-protected AddDependency
  call and the sync.Map LoadOrStore).  Tied to the Go code on every run by checks/c15.py.
-/
import FerretVerif.Proofs.DepGraph
import FerretVerif.Proofs.DepTopo
import FerretVerif.Proofs.DepSched

namespace FerretVerif.C15
open FerretVerif.DepGraph

/-- the DFS with a shared visited set decides reachability (fuel `nodes + 2` always suffices) -/
theorem dfs_correct (g : Graph) (a b : Nat) : hasPath g a b = true ↔ Reach g a b := DepGraph.dfs_correct g a b

/-- an edge is rejected exactly when it would close a cycle; a self-import is always rejected -/
theorem rejected_iff_closes_cycle (g : Graph) (a b : Nat) : addDep g a b = none ↔ Reach g b a := addDep_none_iff g a b
theorem self_import_rejected (g : Graph) (a : Nat) : addDep g a a = none := addDep_self g a

/-- accepted edges keep the graph acyclic -/
theorem acyclic_invariant {g g' : Graph} {a b : Nat} (hac : Acyclic g) (h : addDep g a b = some g') : Acyclic g' :=
  DepGraph.acyclic_invariant hac h

/-- WHATEVER the order (and repetition) in which the import edges arrive: a cyclic edge set gets at least one
    rejection … -/
theorem cycle_always_reported (E : List (Nat × Nat)) (hc : ∃ a b, (a, b) ∈ E ∧ ReachE E b a) :
    (addAll [] E).2.contains false = true := DepGraph.cycle_always_reported E hc
/-- … an acyclic one gets none … -/
theorem dag_never_reported (E : List (Nat × Nat)) (hE : EAcyclic E) : (addAll [] E).2.all id = true :=
  DepGraph.dag_never_reported E hE
/-- … and the verdict depends only on the edge SET -/
theorem verdict_order_independent (E E' : List (Nat × Nat)) (h : ∀ e, e ∈ E ↔ e ∈ E') :
    (addAll [] E).2.contains false = (addAll [] E').2.contains false := DepGraph.verdict_order_independent E E' h

/-- scheduler, any interleaving `is`: every module is scheduled at most once, only reachable modules are … -/
theorem parsed_exactly_once (p : Project) (entry : Nat) (is : List Nat) :
    let s := runSched p (initSched p entry) is
    s.parsed.Nodup ∧ (∀ x, x ∈ s.seen ↔ x ∈ s.parsed) ∧ (∀ x, x ∈ s.parsed → Reach p entry x) := parsed_nodup p entry is
/-- … a live task can always step (no deadlock) and every schedule that keeps stepping live tasks ends with no
    task left (the WaitGroup reaches zero) … -/
theorem no_deadlock (p : Project) (s : Sched) (i : Nat) (hi : i < s.tasks.length) : ∃ s', step p s i = some s' :=
  step_enabled p s i hi
theorem every_schedule_terminates (p : Project) (entry : Nat) (is : List Nat)
    (h : schedMeasure p (initSched p entry) ≤ liveSteps p (initSched p entry) is) :
    (runSched p (initSched p entry) is).tasks = [] := run_complete_of_liveSteps p entry is h
/-- … the shared graph is acyclic in every reachable state … -/
theorem graph_acyclic_in_every_state (p : Project) (entry : Nat) (is : List Nat) :
    Acyclic (runSched p (initSched p entry) is).graph ∧ NoDupKeys (runSched p (initSched p entry) is).graph :=
  graph_acyclic_invariant p entry is
/-- … and a completed run reports a circular import IFF the modules reachable from the entry contain a cycle,
    whatever the interleaving; all completed runs parse the same set of modules -/
theorem verdict_schedule_independent (p : Project) (entry : Nat) (is : List Nat)
    (hdone : (runSched p (initSched p entry) is).tasks = []) :
    (runSched p (initSched p entry) is).errors ≠ [] ↔ ∃ a b, Reach p entry a ∧ Edge p a b ∧ Reach p b a :=
  DepGraph.verdict_schedule_independent p entry is hdone
theorem all_schedules_agree (p : Project) (entry : Nat) (is is' : List Nat)
    (hdone : (runSched p (initSched p entry) is).tasks = []) (hdone' : (runSched p (initSched p entry) is').tasks = []) :
    ((runSched p (initSched p entry) is).errors = [] ↔ (runSched p (initSched p entry) is').errors = []) ∧
    ∀ x, x ∈ (runSched p (initSched p entry) is).parsed ↔ x ∈ (runSched p (initSched p entry) is').parsed :=
  verdict_same_for_all_schedules p entry is is' hdone hdone'

/-- Kahn's algorithm on an acyclic graph: every module appears exactly once and every dependency precedes its
    importer … -/
theorem topo_sound (g : Graph) (mods : List Nat) (hac : Acyclic g) (hmods : mods.Nodup) (hnodes : ∀ x, x ∈ nodes g → x ∈ mods) :
    (topo g mods).Nodup ∧ (topo g mods).Perm mods ∧
      ∀ a b, Edge g a b → (topo g mods).idxOf b < (topo g mods).idxOf a ∧
        ∃ l1 l2 l3, topo g mods = l1 ++ b :: l2 ++ a :: l3 := DepGraph.topo_sound g mods hac hmods hnodes
/-- … and the order does not depend on Go's map iteration order -/
theorem topo_iteration_invariant {g g' : Graph} {mods mods' : List Nat} (hg : g.Perm g') (hnd : NoDupKeys g)
    (hm : mods.Perm mods') : topo g' mods' = topo g mods := topo_perm_invariant hg hnd hm

end FerretVerif.C15
