/- Props/C15.lean — placeholder until Proofs/DepGraph*.lean land -/
import FerretVerif.Model.DepGraph
namespace FerretVerif.C15
open FerretVerif.DepGraph
theorem insertEdge_new : insertEdge [] 1 2 = [(1, [2])] := by decide
end FerretVerif.C15
