/- Props/C02.lean — what is provable about back-end agreement on the model side: both back ends lay composite
   values out with the same algorithm at their respective pointer sizes, the shared source semantics wraps
   at the declared width independently of the target, and — over the two REGENERATED instruction-selection tables
   (`Gen.qbeSel`: the IL the native back end emits, `Gen.wasmSel`: the stack code the wasm back end emits, one row per
   integer operator x type and per integer cast) — the two back ends compute the same value for every operand. -/
import FerretVerif.Props.C18
import FerretVerif.Core.Eval
import FerretVerif.Props.C01
import FerretVerif.Proofs.WasmSem
import FerretVerif.Gen.WasmSel
namespace FerretVerif.C02
open FerretVerif.Layout

/-- layout soundness holds at pointer size 4 (wasm) and 8 (native) alike -/
theorem layout_sound_both_targets (t : Ty) (h : WfTy t) :
    (alignOf 4 t ∣ sizeOf 4 t) ∧ (alignOf 8 t ∣ sizeOf 8 t) :=
  ⟨C18.size_mult_align ⟨2, rfl⟩ t h, C18.size_mult_align ⟨3, rfl⟩ t h⟩

/-- the reference value of an integer operation is target independent and lies in the declared range -/
theorem wrap_in_range_unsigned (bits : Nat) (v : Int) : 0 ≤ Core.wrapInt bits false v ∧ Core.wrapInt bits false v < (2 ^ bits : Nat) := by
  unfold Core.wrapInt
  have hp : (0 : Int) < ((2 ^ bits : Nat) : Int) := by
    have := Nat.pow_pos (n := bits) (by decide : 0 < 2); omega
  simp only [Bool.false_and, Bool.false_eq_true, if_false]
  exact ⟨Int.emod_nonneg _ (by omega), Int.emod_lt_of_pos _ hp⟩
/-! ### instruction selection: the two regenerated tables agree

`lib/wasmsel.py` decodes the module the current compiler emits for the probe program of `lib/qbesel.py` and writes each
function's straight-line block into `Gen/WasmSel.lean`.  `Model/WasmSem.lean` gives that stack code a meaning on i32/i64 bit
patterns and turns it symbolically into three-address code (`toSsa`, proved sound in `Proofs/WasmSem.lean`); a row is of a proved
shape when that three-address code is the sequence `QbeSem.expectedSeq` names — the same sequences the native rows are checked
against — so both back ends are proved against ONE specification, `QbeSem.rowSpec`. -/
section Selection
open FerretVerif.QbeSem FerretVerif.WasmSem

theorem wasm_sel_table_known_shapes : ∀ r ∈ Gen.wasmSel, wrowOk r = true := by decide +kernel

theorem wasm_sel_table_well_formed :
    ∀ r ∈ Gen.wasmSel, r.src ∈ legalTys ∧ r.dst ∈ legalTys ∧ (r.kind ≠ .cast → r.dst = r.src) ∧
      r.nparams = (if r.kind = .bin ∨ r.kind = .cmp then 2 else 1) := by decide +kernel

def hasWRow (k : Kind) (op : String) (s d : QbeSem.Ty) : Bool := Gen.wasmSel.any fun r => r.kind == k && r.op == op && r.src == s && r.dst == d

theorem wasm_sel_table_complete :
    (∀ t ∈ legalTys, ∀ op ∈ ["add", "sub", "mul", "div", "rem"], hasWRow .bin op t t = true) ∧
    (∀ t ∈ legalTys, ∀ op ∈ cmpOps, hasWRow .cmp op t t = true) ∧
    (∀ t ∈ signedTys, hasWRow .neg "neg" t t = true) ∧
    (∀ s ∈ legalTys, ∀ d ∈ legalTys, s ≠ d → hasWRow .cast "cast" s d = true) := by decide +kernel

/-- every row of the wasm table computes its specification, for all in-range operands -/
theorem wasm_sel_table_correct (r : WRow) (hr : r ∈ Gen.wasmSel) (args : List Int) (hlen : args.length = r.nparams)
    (hin : ∀ a ∈ args, r.src.inRange a) (v : Nat) (hv : r.spec args = some v) :
    wrun r.code (args.map (canon r.src)) r.nlocals = some v :=
  have wf := wasm_sel_table_well_formed r hr
  wrow_correct r (wasm_sel_table_known_shapes r hr) wf.1 wf.2.1 wf.2.2.1 args hlen hin v hv

/-- AGREEMENT: for the same operator (or cast) on the same types, the IL the native back end emits and the stack code the wasm
    back end emits yield the same temporary — the canonical one of the source-level result — on every operand tuple for which
    the source-level operation has a value -/
theorem backends_agree_on_selection (q : Row) (hq : q ∈ Gen.qbeSel) (w : WRow) (hw : w ∈ Gen.wasmSel)
    (hk : w.kind = q.kind) (ho : w.op = q.op) (hs : w.src = q.src) (hd : w.dst = q.dst)
    (args : List Int) (hlen : args.length = w.nparams) (hin : ∀ a ∈ args, q.src.inRange a) (v : Nat) (hv : rowSpec q args = some v) :
    exec (args.map (canon q.src)) [] q.seq = some v ∧ wrun w.code (args.map (canon q.src)) w.nlocals = some v := by
  refine ⟨C01.sel_table_correct q hq args hin v hv, ?_⟩
  have hspec : w.spec args = rowSpec q args := by
    obtain ⟨k, o, s, d, sq⟩ := q
    simp only at hk ho hs hd
    simp only [WRow.spec, hk, ho, hs, hd]; rfl
  have := wasm_sel_table_correct w hw args hlen (by rw [hs]; exact hin) v (by rw [hspec]; exact hv)
  rw [hs] at this; exact this

/-- non-vacuity: the u8 multiplication rows exist in both tables and 255 * 255 has the value 1 -/
example : hasWRow .bin "mul" ⟨8, false⟩ ⟨8, false⟩ = true ∧ C01.hasRow .bin "mul" ⟨8, false⟩ ⟨8, false⟩ = true ∧
    rowSpec ⟨.bin, "mul", ⟨8, false⟩, ⟨8, false⟩, []⟩ [255, 255] = some 1 := by decide

end Selection

end FerretVerif.C02
