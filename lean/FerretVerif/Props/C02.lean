/- Props/C02.lean — what is provable about back-end agreement on the model side: both back ends lay composite
   values out with the same algorithm at their respective pointer sizes, and the shared source semantics wraps
   at the declared width independently of the target. -/
import FerretVerif.Props.C18
import FerretVerif.Core.Eval
namespace FerretVerif.C02
open FerretVerif.Layout

/-- layout soundness holds at pointer size 4 (wasm) and 8 (native) alike -/
theorem layout_sound_both_targets (t : Ty) (h : WfTy t) :
    (alignOf 4 t ∣ sizeOf 4 t) ∧ (alignOf 8 t ∣ sizeOf 8 t) :=
  ⟨C18.size_mult_align ⟨2, rfl⟩ t h, C18.size_mult_align ⟨3, rfl⟩ t h⟩

/-- the reference value of an integer operation is target independent and lies in the declared range -/
theorem wrap_in_range_unsigned (bits : Nat) (v : Int) : 0 ≤ Core.wrapInt bits false v ∧ Core.wrapInt bits false v < (2 ^ bits : Nat) := by
  unfold Core.wrapInt
  have hp : (0 : Int) < ((2 ^ bits : Nat) : Int) := by
    have := Nat.pow_pos (n := bits) (by decide : 0 < 2); omega
  simp only [Bool.false_and, Bool.false_eq_true, if_false]
  exact ⟨Int.emod_nonneg _ (by omega), Int.emod_lt_of_pos _ hp⟩
end FerretVerif.C02
