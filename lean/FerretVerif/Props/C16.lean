/-
  Props/C16.lean — C16: 128/256-bit integer arithmetic is exact modulo 2^N.

  Statements are about Model/Limbs.lean (the transcription of runtime/core/bigint.c), for EVERY
  base B (so for 2^64 and 2^32 limbs alike) and every limb count n (so for 128 and 256 bits alike).
  The model is tied to the C code by the differential check in checks/c16.py.
-/
import FerretVerif.Proofs.Limbs
import FerretVerif.Proofs.LimbsDiv
import FerretVerif.Proofs.LimbsShift
import FerretVerif.Proofs.LimbsText

namespace FerretVerif.C16
open FerretVerif.Limbs

/-- addition: exact sum modulo B^n -/
theorem add_exact (B : Nat) (hB : 0 < B) (a b : List Nat) (h : a.length = b.length) :
    val B (add B a b) = (val B a + val B b) % B ^ a.length := add_val B hB a b h

/-- subtraction: exact difference modulo B^n -/
theorem sub_exact (B : Nat) (hB : 1 < B) (a b : List Nat) (h : a.length = b.length) (ha : Wf B a) (hb : Wf B b) :
    val B (sub B a b) = (val B a + B ^ a.length - val B b) % B ^ a.length := sub_val B hB a b h ha hb

/-- the subtraction loop as originally shipped loses a borrow: refuted at the scaled-down base 4
    with three limbs ( 0 - (1 + 3·4) over 4^3 ); the same pattern with B = 2^64 is
    `0 - {1, 2^64-1, 0, 0}` on ferret_u256_sub (finding F10, fixed in /repo). -/
theorem sub_old_borrow_witness :
    val 4 (subbOld 4 [0, 0, 0] [1, 3, 0] 0) ≠ (val 4 [0, 0, 0] + 4 ^ 3 - val 4 [1, 3, 0]) % 4 ^ 3 := by decide

/-- two's-complement negation -/
theorem neg_exact (B : Nat) (hB : 1 < B) (v : List Nat) (hv : Wf B v) :
    val B (neg B v) = (B ^ v.length - val B v) % B ^ v.length := neg_val B hB v hv

/-- multiplication: exact product modulo B^n -/
theorem mul_exact (B : Nat) (hB : 0 < B) (a b : List Nat) (h : a.length = b.length) :
    val B (mul B a b) = (val B a * val B b) % B ^ a.length := mul_val B hB a b h

/-- unsigned comparison decides the order of the values -/
theorem cmp_unsigned_exact (B : Nat) (a b : List Nat) (h : a.length = b.length) (ha : Wf B a) (hb : Wf B b) :
    cmpU a b = compare (val B a) (val B b) := cmpU_spec B a b h ha hb

/-- text → limbs, one digit step: v := v·base + digit (mod B^n) -/
theorem parse_step_exact (B base : Nat) (hB : 0 < B) (v : List Nat) (d : Nat) :
    val B (mulAddSmall B base v d) = (val B v * base + d) % B ^ v.length := mulAddSmall_spec B base hB v d

/-- limbs → text, one digit step: division by a small divisor is exact -/
theorem decimal_step_exact (B d : Nat) (hd : 0 < d) (v : List Nat) :
    val B (divSmall B d v).1 * d + (divSmall B d v).2 = val B v ∧ (divSmall B d v).2 < d := divSmall_spec B d hd v


/-- unsigned long division (bit-serial): exact quotient and remainder -/
theorem divmod_unsigned_exact (w : Nat) (hw : 0 < w) (numer denom : List Nat) (hl : numer.length = denom.length)
    (hn : Wf (2 ^ w) numer) (hd : Wf (2 ^ w) denom) (hd0 : val (2 ^ w) denom ≠ 0) :
    let r := divModU w numer denom
    r.1 = true ∧ val (2 ^ w) r.2.1 = val (2 ^ w) numer / val (2 ^ w) denom
      ∧ val (2 ^ w) r.2.2 = val (2 ^ w) numer % val (2 ^ w) denom := divModU_spec w hw numer denom hl hn hd hd0

/-- signed comparison decides the order of the two's-complement values -/
theorem cmp_signed_exact (B : Nat) (a b : List Nat) (hl : a.length = b.length) (ha : Wf B a) (hb : Wf B b) :
    cmpS B a b = compare (toInt B a) (toInt B b) := cmpS_spec B a b hl ha hb

/-- signed multiplication: the two's-complement product modulo 2^(n·w) -/
theorem mul_signed_exact (w : Nat) (hw : 0 < w) (a b : List Nat) (hl : a.length = b.length)
    (ha : Wf (2 ^ w) a) (hb : Wf (2 ^ w) b) :
    val (2 ^ w) (mulS (2 ^ w) a b)
      = ((toInt (2 ^ w) a * toInt (2 ^ w) b) % (((2 ^ w) ^ a.length : Nat) : Int)).toNat := mulS_val w hw a b hl ha hb

/-- signed division truncates toward zero (MIN / -1 wraps), modulo 2^(n·w) -/
theorem div_signed_truncates (w : Nat) (hw : 0 < w) (a b : List Nat) (hl : a.length = b.length)
    (ha : Wf (2 ^ w) a) (hb : Wf (2 ^ w) b) (hb0 : toInt (2 ^ w) b ≠ 0) :
    val (2 ^ w) (divS w a b)
      = ((Int.tdiv (toInt (2 ^ w) a) (toInt (2 ^ w) b)) % (((2 ^ w) ^ a.length : Nat) : Int)).toNat :=
  divS_val w hw a b hl ha hb hb0

/-- signed remainder has the sign of the dividend; it is always exact -/
theorem mod_signed_exact (w : Nat) (hw : 0 < w) (a b : List Nat) (hl : a.length = b.length)
    (ha : Wf (2 ^ w) a) (hb : Wf (2 ^ w) b) (hb0 : toInt (2 ^ w) b ≠ 0) :
    toInt (2 ^ w) (modS w a b) = Int.tmod (toInt (2 ^ w) a) (toInt (2 ^ w) b) := modS_toInt w hw a b hl ha hb hb0

/-- exponentiation by squaring: base^e modulo 2^(n·w), for every exponent value -/
theorem pow_unsigned_exact (w : Nat) (hw : 0 < w) (base e : List Nat) (hbw : Wf (2 ^ w) base) (hew : Wf (2 ^ w) e) :
    val (2 ^ w) (powU w base e) = (val (2 ^ w) base ^ val (2 ^ w) e) % (2 ^ w) ^ base.length := powU_val w hw base e hbw hew

theorem pow_signed_exact (w : Nat) (hw : 0 < w) (base e : List Nat) (hbw : Wf (2 ^ w) base) (hew : Wf (2 ^ w) e) :
    val (2 ^ w) (powS w base e) =
      if isNeg (2 ^ w) e then 0 else (val (2 ^ w) base ^ val (2 ^ w) e) % (2 ^ w) ^ base.length := powS_val w hw base e hbw hew

/-- shifts, for every shift count (≤ 0, inside, ≥ width) -/
theorem shl_exact (w : Nat) (hw : 0 < w) (a : List Nat) (ha : Wf (2 ^ w) a) (s : Int) :
    val (2 ^ w) (shl w a s) =
      if s ≤ 0 then val (2 ^ w) a else (val (2 ^ w) a * 2 ^ s.toNat) % (2 ^ w) ^ a.length := shl_val w hw a ha s

theorem shr_exact (w : Nat) (hw : 0 < w) (a : List Nat) (ha : Wf (2 ^ w) a) (s : Int) :
    val (2 ^ w) (shr w a s) = if s ≤ 0 then val (2 ^ w) a else val (2 ^ w) a / 2 ^ s.toNat := shr_val w hw a ha s

/-- arithmetic right shift is floor division of the signed value (0 ≤ s; a negative count on a negative
    operand is undefined behaviour in the C code and outside the property) -/
theorem sar_exact (w : Nat) (hw : 0 < w) (a : List Nat) (ha : Wf (2 ^ w) a) (s : Int) (hs : 0 ≤ s) :
    toInt (2 ^ w) (sar w a s) = toInt (2 ^ w) a / 2 ^ s.toNat := sar_val w hw a ha s hs

/-- decimal text round trip, unsigned and signed: parsing the printed text gives the limbs back -/
theorem decimal_roundtrip_unsigned (B n : Nat) (hB : 0 < B) (v : List Nat) (hv : Wf B v) (hn : v.length = n)
    (h80 : val B v < 10 ^ 80) : fromString B n false (toDecimal B v).toList = v := fromString_toDecimal B n hB v hv hn h80

theorem decimal_roundtrip_signed (B n : Nat) (hB : 1 < B) (v : List Nat) (hv : Wf B v) (hn : v.length = n)
    (hw : B ^ n ≤ 10 ^ 80) : fromString B n true (toStringS B true v).toList = v := fromString_toStringS_signed B n hB v hv hn hw

/-- the printed digits are the decimal digits of the value -/
theorem decimal_digits_value (B : Nat) (hB : 0 < B) (fuel : Nat) (work : List Nat) (h : val B work < 10 ^ fuel) :
    (toDecimalDigits B fuel work []).foldl (fun a d => 10 * a + d) 0 = val B work := toDecimalDigits_value B hB fuel work h

-- the 80-digit bound of the C buffer is met by 256-bit values
example : (2 ^ 64) ^ 4 ≤ 10 ^ 80 := by decide

-- non-vacuity: concrete 3-limb operands at base 2^64 satisfy the hypotheses (and exercise carry/borrow chains)
example : Wf (2 ^ 64) [0, 0, 0] ∧ Wf (2 ^ 64) [1, 2 ^ 64 - 1, 0] ∧ [0, 0, 0].length = [1, 2 ^ 64 - 1, 0].length := by
  refine ⟨?_, ?_, rfl⟩ <;> intro x hx <;> simp at hx <;> omega
example : val (2 ^ 64) (sub (2 ^ 64) [0, 0, 0] [1, 2 ^ 64 - 1, 0]) = 2 ^ 192 - (1 + (2 ^ 64 - 1) * 2 ^ 64) := by decide +kernel

end FerretVerif.C16
