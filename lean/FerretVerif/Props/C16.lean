/-
  Props/C16.lean — C16: 128/256-bit integer arithmetic is exact modulo 2^N.

  Statements are about Model/Limbs.lean (the transcription of runtime/core/bigint.c), for EVERY
  base B (so for 2^64 and 2^32 limbs alike) and every limb count n (so for 128 and 256 bits alike).
  The model is tied to the C code by the differential check in checks/c16.py.
-/
import FerretVerif.Proofs.Limbs

namespace FerretVerif.C16
open FerretVerif.Limbs

/-- addition: exact sum modulo B^n -/
theorem add_exact (B : Nat) (hB : 0 < B) (a b : List Nat) (h : a.length = b.length) :
    val B (add B a b) = (val B a + val B b) % B ^ a.length := add_val B hB a b h

/-- subtraction: exact difference modulo B^n -/
theorem sub_exact (B : Nat) (hB : 1 < B) (a b : List Nat) (h : a.length = b.length) (ha : Wf B a) (hb : Wf B b) :
    val B (sub B a b) = (val B a + B ^ a.length - val B b) % B ^ a.length := sub_val B hB a b h ha hb

/-- the subtraction loop as originally shipped loses a borrow: refuted at the scaled-down base 4
    with three limbs ( 0 - (1 + 3·4) over 4^3 ); the same pattern with B = 2^64 is
    `0 - {1, 2^64-1, 0, 0}` on ferret_u256_sub (finding F10, fixed in /repo). -/
theorem sub_old_borrow_witness :
    val 4 (subbOld 4 [0, 0, 0] [1, 3, 0] 0) ≠ (val 4 [0, 0, 0] + 4 ^ 3 - val 4 [1, 3, 0]) % 4 ^ 3 := by decide

/-- two's-complement negation -/
theorem neg_exact (B : Nat) (hB : 1 < B) (v : List Nat) (hv : Wf B v) :
    val B (neg B v) = (B ^ v.length - val B v) % B ^ v.length := neg_val B hB v hv

/-- multiplication: exact product modulo B^n -/
theorem mul_exact (B : Nat) (hB : 0 < B) (a b : List Nat) (h : a.length = b.length) :
    val B (mul B a b) = (val B a * val B b) % B ^ a.length := mul_val B hB a b h

/-- unsigned comparison decides the order of the values -/
theorem cmp_unsigned_exact (B : Nat) (a b : List Nat) (h : a.length = b.length) (ha : Wf B a) (hb : Wf B b) :
    cmpU a b = compare (val B a) (val B b) := cmpU_spec B a b h ha hb

/-- text → limbs, one digit step: v := v·base + digit (mod B^n) -/
theorem parse_step_exact (B base : Nat) (hB : 0 < B) (v : List Nat) (d : Nat) :
    val B (mulAddSmall B base v d) = (val B v * base + d) % B ^ v.length := mulAddSmall_spec B base hB v d

/-- limbs → text, one digit step: division by a small divisor is exact -/
theorem decimal_step_exact (B d : Nat) (hd : 0 < d) (v : List Nat) :
    val B (divSmall B d v).1 * d + (divSmall B d v).2 = val B v ∧ (divSmall B d v).2 < d := divSmall_spec B d hd v

-- non-vacuity: concrete 3-limb operands at base 2^64 satisfy the hypotheses (and exercise carry/borrow chains)
example : Wf (2 ^ 64) [0, 0, 0] ∧ Wf (2 ^ 64) [1, 2 ^ 64 - 1, 0] ∧ [0, 0, 0].length = [1, 2 ^ 64 - 1, 0].length := by
  refine ⟨?_, ?_, rfl⟩ <;> intro x hx <;> simp at hx <;> omega
example : val (2 ^ 64) (sub (2 ^ 64) [0, 0, 0] [1, 2 ^ 64 - 1, 0]) = 2 ^ 192 - (1 + (2 ^ 64 - 1) * 2 ^ 64) := by decide +kernel

end FerretVerif.C16
