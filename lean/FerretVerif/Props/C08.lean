/-
  Props/C08.lean — C08 (and the run-time half of C04): bounds checks.
  About Model/Bounds.lean; the compiled behaviour is tied to the reference interpreter by checks/c08.py, c04.py.
-/
import FerretVerif.Model.Bounds

namespace FerretVerif.C08
open FerretVerif.Bounds

theorem wrapS32_id (i : Int) (h1 : -(2147483648 : Int) ≤ i) (h2 : i < 2147483648) : wrapS 32 i = i := by
  unfold wrapS
  simp only [show ((2 ^ 32 : Nat) : Int) = 4294967296 by decide, show ((2 ^ (32 - 1) : Nat) : Int) = 2147483648 by decide]
  split <;> omega

/-- for every index representable in i32 and every length below 2^31, the emitted check sequence accepts
    exactly the indices valid for the CURRENT length (negative ones counting from the end) and selects
    exactly the specified element; everything else panics -/
theorem dyn_index_checked_i32 (i : Int) (len : Nat) (hl : (len : Int) < 2147483648)
    (h1 : -(2147483648 : Int) ≤ i) (h2 : i < 2147483648) : checked32 (wrapS 32 i) len = normIndex i len := by
  unfold checked32 normIndex
  rw [wrapS32_id i h1 h2]
  by_cases hneg : i < 0
  · have hw : wrapS 32 ((len : Int) + i) = (len : Int) + i := wrapS32_id _ (by omega) (by omega)
    simp only [hneg, if_true, hw]
    by_cases hin : -(len : Int) ≤ i
    · have : ¬ ((len : Int) + i < 0 ∨ (len : Int) + i ≥ len) := by omega
      have hn : ¬ (0 ≤ i ∧ i < len) := by omega
      simp [this, hn, hin, hneg, Int.add_comm] <;> omega
    · have : ((len : Int) + i < 0 ∨ (len : Int) + i ≥ len) := by omega
      have hn : ¬ (0 ≤ i ∧ i < len) := by omega
      simp [this, hn, hin]
  · simp only [hneg, if_false]
    by_cases hin : i < len
    · have : ¬ (i < 0 ∨ i ≥ len) := by omega
      have hp : (0 ≤ i ∧ i < len) := by omega
      simp [this, hp]
    · have : (i < 0 ∨ i ≥ len) := by omega
      have hp : ¬ (0 ≤ i ∧ i < len) := by omega
      have hq : ¬ (-(len : Int) ≤ i ∧ i < 0) := by omega
      simp [this, hp, hq] <;> omega

/-- FULL statement, over EVERY integer index value (any source type up to 64 bits): the compiled check is the
    specified normalisation — in particular a value outside the i32 range always panics -/
theorem dyn_index_checked (i : Int) (len : Nat) (hl : (len : Int) < 2147483648) : implIndex i len = normIndex i len := by
  unfold implIndex
  by_cases hw : i > 2147483647 ∨ i < -2147483648
  · simp only [hw, if_true]
    unfold normIndex
    have h1 : ¬ (0 ≤ i ∧ i < len) := by omega
    have h2 : ¬ (-(len : Int) ≤ i ∧ i < 0) := by omega
    simp [h1, h2]
  · simp only [hw, if_false]
    exact dyn_index_checked_i32 i len hl (by omega) (by omega)

/-- an index is never mis-rejected and never mis-accepted by the compile-time check of constant indices -/
theorem static_bounds_exact (i : Int) (n : Nat) : staticIndex i n = normIndex i n := by
  unfold staticIndex normIndex
  by_cases hneg : i < 0
  · by_cases hin : -(n : Int) ≤ i
    · have : ¬ ((n : Int) + i < 0 ∨ (n : Int) + i ≥ n) := by omega
      have hn : ¬ (0 ≤ i ∧ i < n) := by omega
      simp [hneg, this, hn, hin, Int.add_comm] <;> omega
    · have : ((n : Int) + i < 0 ∨ (n : Int) + i ≥ n) := by omega
      have hn : ¬ (0 ≤ i ∧ i < n) := by omega
      simp [hneg, this, hn, hin]
  · by_cases hin : i < n
    · have : ¬ (i < 0 ∨ i ≥ n) := by omega
      have hp : (0 ≤ i ∧ i < n) := by omega
      simp [hneg, this, hp]
    · have : (i < 0 ∨ i ≥ n) := by omega
      have hp : ¬ (0 ≤ i ∧ i < n) := by omega
      have hq : ¬ (-(n : Int) ≤ i ∧ i < 0) := by omega
      simp [hneg, this, hp, hq] <;> omega

/-- the behaviour before the repair (F13, fixed in /repo): truncation made 2^32 select element 0 -/
theorem old_wide_index_witness : implIndexTruncating 4294967296 3 = some 0 ∧ normIndex 4294967296 3 = none ∧ implIndex 4294967296 3 = none := by decide

/-- the valid results are in bounds: the element touched lies inside the sequence -/
theorem index_in_bounds (i : Int) (len : Nat) (j : Nat) (h : normIndex i len = some j) : j < len := by
  unfold normIndex at h
  split at h
  · cases h; omega
  · split at h
    · cases h; omega
    · cases h

-- non-vacuity
example : implIndex (-1) 3 = some 2 ∧ implIndex 3 3 = none ∧ implIndex (-4) 3 = none ∧ implIndex 0 3 = some 0 := by decide

end FerretVerif.C08
