/-
  Props/C07.lean — C07: references obey aliasing-xor-mutation and never outlive their referent.

  Model/Borrow.lean states the discipline on straight-line event sequences (borrow into a reference variable, use of
  a reference, read / write of a place, temporary borrow for a call): a loan lives until the last use of its
  reference.  Kernel-checked:
    * path overlap is reflexive and symmetric, a path overlaps all its extensions, different fields under a common
      field prefix are disjoint, everything below an index overlaps;
    * in every run the checker accepts, the set of live loans satisfies aliasing-XOR-mutation after every event
      (no two live loans on overlapping places unless both are shared), every accepted write touches no loaned
      place, every accepted read no mutably loaned place, borrows likewise;
    * a loan is kept exactly while its reference is still used (never dropped early, never kept after the last use).
  The model is compared with the real borrow checker on generated event sequences rendered as Ferret programs
  (checks/c07.py), which also run accepted programs to observe write-through.  Loops, closures, references obtained
  from calls and the return-lifetime rule are covered by fixed programs only.
-/
import FerretVerif.Proofs.Borrow

namespace FerretVerif.C07
open FerretVerif.Borrow

theorem overlap_reflexive (a : List Seg) : overlap a a = true := overlap_refl a
theorem overlap_symmetric (a b : List Seg) : overlap a b = overlap b a := overlap_symm a b
theorem borrow_covers_subplaces (a b : List Seg) : overlap a (a ++ b) = true := overlap_prefix a b
theorem disjoint_fields (pre : List Seg) (hpre : ∀ s ∈ pre, s ≠ .idx) (f g : Nat) (h : f ≠ g) (a b : List Seg) :
    overlap (pre ++ .fld f :: a) (pre ++ .fld g :: b) = false := distinct_fields_disjoint pre hpre f g h a b
theorem indices_alias (pre a b : List Seg) : overlap (pre ++ .idx :: a) (pre ++ .idx :: b) = true := index_overlaps pre a b

/-- aliasing XOR mutation holds after every event of every accepted run -/
theorem accepted_runs_keep_axm (es : List Event) (h : accepts es = true) : ∀ k, AXM (liveAfter [] es k) := by
  apply accepted_run_axm 0 [] es trivial
  unfold accepts at h
  cases hc : check 0 [] es with
  | none => rfl
  | some i => simp [hc] at h

/-- what an accepted event may touch, given the loans live at that moment -/
theorem accepted_event_sound (i : Nat) (live : List Loan) (e : Event) (rest : List Event) (hacc : check i live (e :: rest) = none) :
    match e with
    | .write p => ∀ l ∈ live, l.place.overlaps p = false
    | .read p => ∀ l ∈ live, l.place.overlaps p = true → l.isMut = false
    | .borrow _ p m | .temp p m => ∀ l ∈ live, l.place.overlaps p = true → m = false ∧ l.isMut = false
    | .use _ => True := accepted_event_respects_loans i live e rest hacc

theorem loan_lives_while_used (live : List Loan) (rest : List Event) (l : Loan) (hl : l ∈ live) (hu : usedLater l.ref rest = true) :
    l ∈ expire live rest := expire_keeps_used live rest l hl hu
theorem loan_ends_after_last_use (live : List Loan) (rest : List Event) (l : Loan) (hu : usedLater l.ref rest = false) :
    l ∉ expire live rest := expire_drops_unused live rest l hu

/-! ### a function cannot return a reference to one of its locals -/

theorem bindingBase_refused (v : RVar) (hr : v.isRefVar = true) (hc : v.inCallee = true) :
    ∃ b, v.bindingBase = some b ∧ b.refused = true := by
  induction v with
  | localVal => simp [RVar.isRefVar] at hr
  | paramVal => simp [RVar.isRefVar] at hr
  | paramRef => simp [RVar.inCallee] at hc
  | refTo w ih =>
    cases w with
    | localVal => exact ⟨.localVal, rfl, rfl⟩
    | paramVal => exact ⟨.paramVal, rfl, rfl⟩
    | paramRef => simp [RVar.inCallee] at hc
    | refTo u =>
      have := ih (by simp [RVar.isRefVar]) (by simpa [RVar.inCallee] using hc)
      simpa [RVar.bindingBase] using this

theorem bindingBase_dangling (v : RVar) (b : RVar) (hb : v.bindingBase = some b) (hr : b.refused = true) : v.inCallee = true := by
  induction v with
  | localVal => simp [RVar.bindingBase] at hb
  | paramVal => simp [RVar.bindingBase] at hb
  | paramRef => simp [RVar.bindingBase] at hb
  | refTo w ih =>
    cases w with
    | localVal => rfl
    | paramVal => rfl
    | paramRef => simp [RVar.bindingBase] at hb
    | refTo u => simpa [RVar.inCallee] using ih (by simpa [RVar.bindingBase] using hb)

/-- EXACTNESS, for reference chains of any length: a return is rejected exactly when the returned reference points into the
    callee's frame — a local value, a by-value parameter or receiver, directly or through any number of local reference
    variables bound to one another; a reference that points outside (through a reference parameter) may be returned, also
    re-borrowed through local reference variables -/
theorem return_rejected_iff_dangling (f : RetForm)
    (hwf : match f with | .ident v => v.isRefVar = true | .borrow _ => True) : retRejects f = f.dangling := by
  have key : ∀ v : RVar, v.isRefVar = true →
      (match v.bindingBase with | some b => b.refused | none => false) = v.inCallee := by
    intro v hr
    cases hc : v.inCallee with
    | true =>
      obtain ⟨b, hb, hrb⟩ := bindingBase_refused v hr hc
      simp [hb, hrb]
    | false =>
      cases hb : v.bindingBase with
      | none => rfl
      | some b =>
        cases hrb : b.refused with
        | false => simp [hrb]
        | true => rw [bindingBase_dangling v b hb hrb] at hc; cases hc
  cases f with
  | borrow v =>
    cases hr : v.isRefVar with
    | true => simp only [retRejects, hr, if_true, RetForm.dangling]; exact key v hr
    | false =>
      cases v with
      | localVal => rfl
      | paramVal => rfl
      | paramRef => simp [RVar.isRefVar] at hr
      | refTo w => simp [RVar.isRefVar] at hr
  | ident v => simp only [retRejects, RetForm.dangling]; exact key v hwf

theorem dangling_return_rejected (f : RetForm)
    (hwf : match f with | .ident v => v.isRefVar = true | .borrow _ => True) (h : f.dangling = true) : retRejects f = true := by
  rw [return_rejected_iff_dangling f hwf]; exact h

/-- the check as delivered had two defects, both repaired: by-value parameters were not refused
    (`fn f(p: P) -> &i32 { return &p.Y; }` was accepted and returned a pointer into the dead frame), and a re-borrow through a
    local reference variable was refused even when that variable points outside
    (`fn f(p: &'P) -> &'i32 { let q: &'P = p; return &'q.Y; }`) -/
theorem old_value_param_witness :
    retRejectsOld (.borrow .paramVal) = false ∧ (RetForm.borrow .paramVal).dangling = true ∧ retRejects (.borrow .paramVal) = true := by decide
theorem old_reborrow_overstrict_witness :
    retRejectsOld (.borrow (.refTo .paramRef)) = true ∧ (RetForm.borrow (.refTo .paramRef)).dangling = false
      ∧ retRejects (.borrow (.refTo .paramRef)) = false := by decide

example : retRejects (.ident (.refTo (.refTo (.refTo .localVal)))) = true ∧ retRejects (.ident (.refTo (.refTo .paramRef))) = false := by decide

-- examples: `let m = &'x.A; x.A = 1; use m` is rejected at the write, with the use removed it is accepted; disjoint fields are fine
example : check 0 [] [.borrow 0 ⟨1, [.fld 0]⟩ true, .write ⟨1, [.fld 0]⟩, .use 0] = some 1 := by decide
example : accepts [.borrow 0 ⟨1, [.fld 0]⟩ true, .write ⟨1, [.fld 0]⟩] = true := by decide
example : accepts [.borrow 0 ⟨1, [.fld 0]⟩ true, .write ⟨1, [.fld 1]⟩, .use 0] = true := by decide
example : accepts [.borrow 0 ⟨1, []⟩ false, .borrow 1 ⟨1, [.fld 0]⟩ false, .read ⟨1, []⟩, .use 0, .use 1] = true := by decide

end FerretVerif.C07
