/-
  Props/C07.lean — C07: references obey aliasing-xor-mutation and never outlive their referent.

  Model/Borrow.lean states the discipline on straight-line event sequences (borrow into a reference variable, use of
  a reference, read / write of a place, temporary borrow for a call): a loan lives until the last use of its
  reference.  Kernel-checked:
    * path overlap is reflexive and symmetric, a path overlaps all its extensions, different fields under a common
      field prefix are disjoint, everything below an index overlaps;
    * in every run the checker accepts, the set of live loans satisfies aliasing-XOR-mutation after every event
      (no two live loans on overlapping places unless both are shared), every accepted write touches no loaned
      place, every accepted read no mutably loaned place, borrows likewise;
    * a loan is kept exactly while its reference is still used (never dropped early, never kept after the last use).
  The model is compared with the real borrow checker on generated event sequences rendered as Ferret programs
  (checks/c07.py), which also run accepted programs to observe write-through.  Loops, closures, references obtained
  from calls and the return-lifetime rule are covered by fixed programs only.
-/
import FerretVerif.Proofs.Borrow

namespace FerretVerif.C07
open FerretVerif.Borrow

theorem overlap_reflexive (a : List Seg) : overlap a a = true := overlap_refl a
theorem overlap_symmetric (a b : List Seg) : overlap a b = overlap b a := overlap_symm a b
theorem borrow_covers_subplaces (a b : List Seg) : overlap a (a ++ b) = true := overlap_prefix a b
theorem disjoint_fields (pre : List Seg) (hpre : ∀ s ∈ pre, s ≠ .idx) (f g : Nat) (h : f ≠ g) (a b : List Seg) :
    overlap (pre ++ .fld f :: a) (pre ++ .fld g :: b) = false := distinct_fields_disjoint pre hpre f g h a b
theorem indices_alias (pre a b : List Seg) : overlap (pre ++ .idx :: a) (pre ++ .idx :: b) = true := index_overlaps pre a b

/-- aliasing XOR mutation holds after every event of every accepted run -/
theorem accepted_runs_keep_axm (es : List Event) (h : accepts es = true) : ∀ k, AXM (liveAfter [] es k) := by
  apply accepted_run_axm 0 [] es trivial
  unfold accepts at h
  cases hc : check 0 [] es with
  | none => rfl
  | some i => simp [hc] at h

/-- what an accepted event may touch, given the loans live at that moment -/
theorem accepted_event_sound (i : Nat) (live : List Loan) (e : Event) (rest : List Event) (hacc : check i live (e :: rest) = none) :
    match e with
    | .write p => ∀ l ∈ live, l.place.overlaps p = false
    | .read p => ∀ l ∈ live, l.place.overlaps p = true → l.isMut = false
    | .borrow _ p m | .temp p m => ∀ l ∈ live, l.place.overlaps p = true → m = false ∧ l.isMut = false
    | .use _ => True := accepted_event_respects_loans i live e rest hacc

theorem loan_lives_while_used (live : List Loan) (rest : List Event) (l : Loan) (hl : l ∈ live) (hu : usedLater l.ref rest = true) :
    l ∈ expire live rest := expire_keeps_used live rest l hl hu
theorem loan_ends_after_last_use (live : List Loan) (rest : List Event) (l : Loan) (hu : usedLater l.ref rest = false) :
    l ∉ expire live rest := expire_drops_unused live rest l hu

-- examples: `let m = &'x.A; x.A = 1; use m` is rejected at the write, with the use removed it is accepted; disjoint fields are fine
example : check 0 [] [.borrow 0 ⟨1, [.fld 0]⟩ true, .write ⟨1, [.fld 0]⟩, .use 0] = some 1 := by decide
example : accepts [.borrow 0 ⟨1, [.fld 0]⟩ true, .write ⟨1, [.fld 0]⟩] = true := by decide
example : accepts [.borrow 0 ⟨1, [.fld 0]⟩ true, .write ⟨1, [.fld 1]⟩, .use 0] = true := by decide
example : accepts [.borrow 0 ⟨1, []⟩ false, .borrow 1 ⟨1, [.fld 0]⟩ false, .read ⟨1, []⟩, .use 0, .use 1] = true := by decide

end FerretVerif.C07
