/-
  Props/C05.lean — C05: a non-void function always returns a value from a return statement.

  About Model/Cfg.lean: `implAllPathsReturn` is the compositional transcription of the CFG builder +
  AllPathsReturn of internal/hir/analysis/cfg.go (after the fixes of F3: open matches, function literals);
  `canFallOff` is the path semantics with nondeterministic conditions.  Tied to the compiler by checks/c05.py.
-/
import FerretVerif.Proofs.Cfg

namespace FerretVerif.C05
open FerretVerif.Cfg

/-- the analysis is EXACT for every body (any nesting of if/else, match ± default, while/for with
    break/continue, early returns, blocks): it accepts iff no path reaches the end of the body -/
theorem returns_exact (b : List Stmt) : implAllPathsReturn b = !canFallOff b := Cfg.returns_exact b

/-- soundness: an accepted body never falls off its end (so every call that returns, returns through a `return`) -/
theorem returns_sound (b : List Stmt) (hwf : wfL false b = true) (h : implAllPathsReturn b = true) : canFallOff b = false :=
  Cfg.returns_sound b hwf h

/-- no mis-rejection: a body all of whose paths return is accepted -/
theorem returns_complete (b : List Stmt) (hwf : wfL false b = true) (h : canFallOff b = false) : implAllPathsReturn b = true :=
  Cfg.returns_complete b hwf h

/-- a match with no default (and not covering an enum) can always fall through and is rejected when it ends
    the body, whatever its arms do; with a default or full enum coverage and returning arms it is accepted -/
theorem match_open_falls (cases : List (List Stmt)) :
    canFallOff [.matchS cases false false] = true ∧ implAllPathsReturn [.matchS cases false false] = false :=
  Cfg.match_open_falls' cases

/-- every kind of body — functions, methods, function literals — is analysed -/
theorem all_bodies_analysed : ∀ h : Host, analysed h = true := Cfg.all_hosts_analysed

/-- the builder's fall-through block is graph-reachable exactly when the incoming block is and some path falls through -/
theorem build_reach (l : List Stmt) (r k : Bool) :
    (buildL l (some r) k).1 = some true ↔ (r = true ∧ (outL l).falls = true) := Cfg.build_reach l r k

/-- the `coversEnum` flag of a match is computed exactly: it is set iff EVERY variant of the (non-empty) enum is named by an arm —
    of an enum of any size, with the arms in any order and any multiplicity — so whichever variant the scrutinee holds at run time,
    a covered match has an arm for it, and a match that is not covered has a concrete variant for which no arm exists -/
theorem covers_enum_exact (variants arms : List String) :
    matchCoversEnum variants arms = true ↔ variants ≠ [] ∧ ∀ v ∈ variants, v ∈ arms := by
  unfold matchCoversEnum
  cases variants <;> simp

theorem uncovered_has_witness (variants arms : List String) (hne : variants ≠ [])
    (h : matchCoversEnum variants arms = false) : ∃ v ∈ variants, v ∉ arms := by
  unfold matchCoversEnum at h
  cases variants with
  | nil => exact absurd rfl hne
  | cons a as =>
    simp only [List.isEmpty_cons, Bool.not_false, Bool.true_and] at h
    have : ¬ (∀ v ∈ a :: as, v ∈ arms) := by
      intro hall
      have : (a :: as).all (fun v => arms.contains v) = true := by
        simp only [List.all_eq_true, List.contains_iff_mem]; exact hall
      rw [this] at h; cases h
    exact Classical.byContradiction fun hn => this fun v hv => Classical.byContradiction fun hv' => hn ⟨v, hv, hv'⟩

/-- coverage does not depend on how many variants there are: the 65th variant counts like the first -/
theorem covers_needs_every_position (pre post : List String) (v : String) (arms : List String) (h : v ∉ arms) :
    matchCoversEnum (pre ++ v :: post) arms = false := by
  cases hc : matchCoversEnum (pre ++ v :: post) arms with
  | false => rfl
  | true => exact absurd (((covers_enum_exact _ _).mp hc).2 v (by simp)) h

-- non-vacuity / regression witnesses
example : wfL false [.whileS true [.ifS [.brk] none], .ret] = true ∧ implAllPathsReturn [.whileS true [.ifS [.brk] none], .ret] = true := by decide
example : implAllPathsReturn [.matchS [[.ret], [.ret]] false false] = false ∧ implAllPathsReturn [.matchS [[.ret], [.ret]] true false] = true := by decide

end FerretVerif.C05
