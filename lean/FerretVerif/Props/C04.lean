/-
  Props/C04.lean — C04: fixed-size array accesses are in bounds and hit the indexed element.
  The arithmetic core is shared with C08 (Model/Bounds.lean): constant indices are checked at compile time by
  `staticIndex`, run-time indices by `implIndex`; both equal the specified normalisation, whose results are
  in bounds.  Which index VALUE reaches these checks is decided by the compiler's constant propagation, which is
  NOT modelled: it is tied by checks/c04.py (F2, flow-insensitive propagation of `let` indices, was fixed in /repo).
-/
import FerretVerif.Props.C08

namespace FerretVerif.C04
open FerretVerif.Bounds

/-- a constant index is accepted exactly when it lies in [-N, N) and then denotes the specified element -/
theorem static_bounds_exact (i : Int) (n : Nat) : staticIndex i n = normIndex i n := C08.static_bounds_exact i n

/-- an accepted constant index denotes an element INSIDE the array -/
theorem static_index_in_bounds (i : Int) (n j : Nat) (h : staticIndex i n = some j) : j < n :=
  C08.index_in_bounds i n j (by rw [← C08.static_bounds_exact]; exact h)

/-- the element selected is `i` for non-negative and `N + i` for negative indices -/
theorem norm_index_value (i : Int) (n j : Nat) (h : normIndex i n = some j) : (j : Int) = if i < 0 then (n : Int) + i else i := by
  unfold normIndex at h
  split at h
  · cases h; split <;> omega
  · split at h
    · cases h; split <;> omega
    · cases h

/-- the run-time check (element writes through computed indices) agrees with the specification -/
theorem fixed_write_in_bounds (i : Int) (n : Nat) (hl : (n : Int) < 2147483648)
    (j : Nat) (h : implIndex i n = some j) : j < n :=
  C08.index_in_bounds i n j (by rw [← C08.dyn_index_checked i n hl]; exact h)

example : staticIndex (-1) 3 = some 2 ∧ staticIndex 3 3 = none ∧ staticIndex (-4) 3 = none := by decide

end FerretVerif.C04
