/-
  Props/C19.lean — C19: layout of the source text does not change meaning; diagnostics follow the text.

  Kernel-checked here (over Model/Lexer.lean, tied to tokenizer.go / positions.go by the regenerated tables and by
  byte-level correspondence, see checks/c13.py and checks/c19.py):
    * leading trivia — any sequence of white space, block comments and newline-terminated line comments — in
      front of ANY text leaves the significant tokens (kinds and values) of that text unchanged;
    * line numbers are 1 + the number of line feeds consumed, whatever the chunking; columns restart at 1 after a
      line feed and grow by one per byte on tab-free text; the position reached is independent of how the text is
      cut into chunks as long as no chunk ends with a tab (the `prevWasTab` rule, pinned by the repo's own test).
    * `tokens_invariant`: invariance of the significant tokens under insertion of separator trivia at EVERY token gap
      of a text (per-scanner maximal-munch stability, Proofs/LexStable.lean).
  The parser as a whole is not modelled (it receives comment tokens too; checks/c19.py covers it on the real compiler).
-/
import FerretVerif.Proofs.LexStable
import FerretVerif.Gen.LexTables

namespace FerretVerif.C19
open FerretVerif.Lexer

def T : Tables := ⟨Gen.lexOps, Gen.lexKeywords⟩

theorem tables_ok : TablesOk T := by decide +kernel

/-- Leading white space and comments are inert for every following text. -/
theorem leading_trivia_inert {t : List Byte} (ht : Trivia t) (s : List Byte) : sigs T (t ++ s) = sigs T s :=
  leading_trivia_skipped T tables_ok ht s

/-- A text made only of trivia has no significant token. -/
theorem trivia_only_no_tokens {t : List Byte} (ht : Trivia t) : sigs T t = [] := by
  have := leading_trivia_inert ht []
  rw [List.append_nil] at this
  rw [this, sigs_nil]

/-- Lines follow the text: after consuming `s` the line number has grown by the number of line feeds in `s`. -/
theorem lines_follow_text (p : Pos) (s : List Byte) : (advance p s).line = p.line + countNl s := advance_line p s

/-- Columns follow the text (tab-free): `b` bytes after a line feed put the position in column `1 + |b|`. -/
theorem columns_follow_text (p : Pos) (a b : List Byte) (hb : ∀ c ∈ b, c ≠ 10 ∧ c ≠ 9) :
    (advance p (a ++ 10 :: b)).col = 1 + b.length := advance_col_after_newline p a b hb

/-- Byte offsets follow the text. -/
theorem offsets_follow_text (p : Pos) (s : List Byte) : (advance p s).idx = p.idx + s.length := advance_idx p s

/-- The position does not depend on the chunking unless a chunk ends with a tab. -/
theorem chunking_irrelevant (p : Pos) (a b : List Byte) (h : lastTab false a = false) :
    advance p (a ++ b) = advance (advance p a) b := advance_append_of_not_tab p a b h

/-- … and the hypothesis is needed: the byte after a tab is not counted when both are consumed in one chunk, but
    is counted when the chunk ends at the tab (positions.go `prevWasTab`; asserted by TestPositionAdvance). -/
theorem tab_swallow_witness :
    (advance Pos.start [9, 32]).col = 5 ∧ (advance (advance Pos.start [9]) [32]).col = 6 := by decide

/-! ### the full statement (open) -/

instance : Decidable (opsNoSpace T) := by unfold opsNoSpace noSpace; infer_instance

theorem ops_have_no_space : opsNoSpace T := by decide +kernel

/-- C19 at the token level, full strength: take any text none of whose chunks starts with an unclosed string / byte-literal /
    block-comment opener (`cleanRun`), and put ANY separator trivia — nothing, or white space followed by any mix of white
    space, block comments and newline-terminated line comments — in front of ANY of its significant chunks (`weave` re-emits
    the text chunk by chunk, `tv off` chooses what goes in front of the chunk at byte offset `off`).  The significant tokens
    (kinds and values) the parser receives are unchanged.  Proved in Proofs/LexStable.lean from per-scanner maximal-munch
    stability lemmas (`step_kept`: what a step consumes and produces does not change when white-space-led material is
    inserted behind the bytes it consumes). -/
theorem tokens_invariant (s : List Byte) (tv : Nat → List Byte) (hclean : cleanRun T s.length s = true)
    (htv : ∀ i, SepTrivia (tv i)) : sigs T (weave T tv s.length 0 s) = sigs T s :=
  weave_sigs T tables_ok ops_have_no_space tv htv s.length 0 s (Nat.le_refl _) hclean

/-- why the hypothesis is there: behind an unclosed opener inserted trivia is not inert — `"a` lexes as an error and the
    identifier `a`, while `"a /*"*/` contains a string -/
theorem unclosed_opener_witness :
    cleanRun T 2 [34, 97] = false ∧ sigs T [34, 97] ≠ sigs T ([34, 97] ++ [32, 47, 42, 34, 42, 47]) := by decide +kernel

-- the hypotheses are inhabited: `a-1` is clean, and ` /*c*/ ` is separator trivia
example : cleanRun T 3 [97, 45, 49] = true := by decide +kernel
example : sigs T (weave T (fun _ => [32, 47, 42, 99, 42, 47, 32]) 3 0 [97, 45, 49]) = sigs T [97, 45, 49] := by decide +kernel
example : SepTrivia [32, 47, 42, 99, 42, 47, 32] :=
  .inr ⟨32, _, rfl, by decide, .ws _ _ (by decide) (.block [99] [32] (by decide) (.ws _ _ (by decide) .nil))⟩
-- trivia examples
example : Trivia [32, 9, 10] := .ws _ _ (by decide) (.ws _ _ (by decide) (.ws _ _ (by decide) .nil))
example : Trivia ([47, 42] ++ ([120] ++ [42, 47]) ++ []) := .block [120] [] (by decide) .nil
example : sigs T [32, 47, 47, 120, 10, 97] = [(.ident, [97])] := by decide +kernel

end FerretVerif.C19
