/-
  Props/C19.lean — C19: layout of the source text does not change meaning; diagnostics follow the text.

  Kernel-checked here (over Model/Lexer.lean, tied to tokenizer.go / positions.go by the regenerated tables and by
  byte-level correspondence, see checks/c13.py and checks/c19.py):
    * leading trivia — any sequence of white space, block comments and newline-terminated line comments — in
      front of ANY text leaves the significant tokens (kinds and values) of that text unchanged;
    * line numbers are 1 + the number of line feeds consumed, whatever the chunking; columns restart at 1 after a
      line feed and grow by one per byte on tab-free text; the position reached is independent of how the text is
      cut into chunks as long as no chunk ends with a tab (the `prevWasTab` rule, pinned by the repo's own test).
  NOT proved (stated below as `tokens_invariant_statement`, open): invariance under insertion at EVERY token gap
  of a text.  That statement needs per-scanner maximal-munch stability lemmas; it is covered by the whole-compiler
  correspondence of checks/c19.py only.  The parser as a whole is not modelled.
-/
import FerretVerif.Proofs.LexTrivia
import FerretVerif.Gen.LexTables

namespace FerretVerif.C19
open FerretVerif.Lexer

def T : Tables := ⟨Gen.lexOps, Gen.lexKeywords⟩

theorem tables_ok : TablesOk T := by decide +kernel

/-- Leading white space and comments are inert for every following text. -/
theorem leading_trivia_inert {t : List Byte} (ht : Trivia t) (s : List Byte) : sigs T (t ++ s) = sigs T s :=
  leading_trivia_skipped T tables_ok ht s

/-- A text made only of trivia has no significant token. -/
theorem trivia_only_no_tokens {t : List Byte} (ht : Trivia t) : sigs T t = [] := by
  have := leading_trivia_inert ht []
  rw [List.append_nil] at this
  rw [this, sigs_nil]

/-- Lines follow the text: after consuming `s` the line number has grown by the number of line feeds in `s`. -/
theorem lines_follow_text (p : Pos) (s : List Byte) : (advance p s).line = p.line + countNl s := advance_line p s

/-- Columns follow the text (tab-free): `b` bytes after a line feed put the position in column `1 + |b|`. -/
theorem columns_follow_text (p : Pos) (a b : List Byte) (hb : ∀ c ∈ b, c ≠ 10 ∧ c ≠ 9) :
    (advance p (a ++ 10 :: b)).col = 1 + b.length := advance_col_after_newline p a b hb

/-- Byte offsets follow the text. -/
theorem offsets_follow_text (p : Pos) (s : List Byte) : (advance p s).idx = p.idx + s.length := advance_idx p s

/-- The position does not depend on the chunking unless a chunk ends with a tab. -/
theorem chunking_irrelevant (p : Pos) (a b : List Byte) (h : lastTab false a = false) :
    advance p (a ++ b) = advance (advance p a) b := advance_append_of_not_tab p a b h

/-- … and the hypothesis is needed: the byte after a tab is not counted when both are consumed in one chunk, but
    is counted when the chunk ends at the tab (positions.go `prevWasTab`; asserted by TestPositionAdvance). -/
theorem tab_swallow_witness :
    (advance Pos.start [9, 32]).col = 5 ∧ (advance (advance Pos.start [9]) [32]).col = 6 := by decide

/-! ### the full statement (open) -/

/-- trivia that may be put in front of a token: empty, or starting with a white-space byte -/
def SepTrivia (t : List Byte) : Prop := t = [] ∨ ∃ w r, t = w :: r ∧ isSpace w = true ∧ Trivia t

/-- re-runs the lexer on `s` and re-emits its chunks, putting `tv off` in front of every chunk that yields a
    significant token or a lexer error (`off` = byte offset of the chunk in `s`) -/
def weave (T : Tables) (tv : Nat → List Byte) : Nat → Nat → List Byte → List Byte
  | 0, _, s => s
  | _, _, [] => []
  | fuel + 1, off, s@(_ :: _) =>
    let st := step T s
    let isSig : Bool := match st.tok with
      | some (k, _) => k != .comment
      | none => st.err
    (if isSig then tv off else []) ++ s.take st.n ++ weave T tv fuel (off + st.n) (s.drop st.n)

/-- no unterminated string / byte-literal / block-comment opener: such an opener could be closed by an inserted comment -/
def cleanRun (T : Tables) : Nat → List Byte → Bool
  | 0, _ => true
  | _, [] => true
  | fuel + 1, s@(c :: r) =>
    let st := step T s
    let dirty := (st.err && (c = 34 || c = 39)) || (st.tok == some (.op, [47]) && r.head? == some 42)
    !dirty && cleanRun T fuel (s.drop st.n)

/-- C19 at the token level, full strength: inserting separator trivia at any token gaps of a clean text leaves the
    significant tokens unchanged.  OPEN — not proved here; exercised by checks/c19.py on the real compiler. -/
def tokens_invariant_statement : Prop :=
  ∀ (s : List Byte) (tv : Nat → List Byte), cleanRun T s.length s = true → (∀ i, SepTrivia (tv i)) →
    sigs T (weave T tv s.length 0 s) = sigs T s

-- the statement is not vacuous and holds on a sample (a test, labelled as a test): `a-1` with ` /*c*/ ` before each token
example : cleanRun T 3 [97, 45, 49] = true := by decide +kernel
example : sigs T (weave T (fun _ => [32, 47, 42, 99, 42, 47, 32]) 3 0 [97, 45, 49]) = sigs T [97, 45, 49] := by decide +kernel
-- trivia examples
example : Trivia [32, 9, 10] := .ws _ _ (by decide) (.ws _ _ (by decide) (.ws _ _ (by decide) .nil))
example : Trivia ([47, 42] ++ ([120] ++ [42, 47]) ++ []) := .block [120] [] (by decide) .nil
example : sigs T [32, 47, 47, 120, 10, 97] = [(.ident, [97])] := by decide +kernel

end FerretVerif.C19
