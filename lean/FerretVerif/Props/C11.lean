/-
  Props/C11.lean — C11: implicit numeric conversions never lose information.

  `Gen.losslessTable` is REGENERATED on every run by executing the real
  `checkTypeCompatibility` / `isLosslessNumericConversion` on all 17 × 17 ordered
  pairs of numeric types (harness/gohook `lossless-table`); the theorems below are
  re-checked by the kernel against that regenerated table.
-/
import FerretVerif.Proofs.Num
import FerretVerif.Gen.LosslessTable

namespace FerretVerif.C11
open FerretVerif.Num

/-- the table really covers the whole finite domain: every ordered pair once -/
theorem table_covers_all_pairs :
    Gen.losslessTable.map (fun r => (r.src, r.tgt))
      = NumTy.all.flatMap (fun s => NumTy.all.map (fun t => (s, t))) := by decide +kernel

/-- the model's width / signedness / float-ness of each type is what the code says -/
theorem prim_table_matches :
    Gen.primTable = NumTy.all.map (fun t => (t, t.bits, t.isSigned, t.isFloat, t.bits / 8)) := by
  decide +kernel

/-- decidable form over the regenerated table -/
theorem implicit_rows_lossless :
    ∀ r ∈ Gen.losslessTable, r.compat = .implicit → losslessDec r.src r.tgt = true := by
  decide +kernel

/-- C11, first half: wherever the compiler classifies S → T as implicit (or identical),
    EVERY value of S is exactly a value of T. -/
theorem implicit_is_lossless :
    ∀ r ∈ Gen.losslessTable, (r.compat = .implicit ∨ r.compat = .identical) →
      ∀ v, Rep r.src v → Rep r.tgt v := by
  intro r hr hc
  rcases hc with hc | hc
  · exact (losslessDec_iff r.src r.tgt).1 (implicit_rows_lossless r hr hc)
  · have hid : ∀ r ∈ Gen.losslessTable, r.compat = .identical → r.src = r.tgt := by decide +kernel
    have := hid r hr hc
    intro v hv; rw [← this]; exact hv

/-- C11, second half: every other conversion between distinct numeric types needs the cast
    (is classified explicit, never silently accepted and never impossible). -/
theorem others_need_cast :
    ∀ r ∈ Gen.losslessTable, r.src ≠ r.tgt → r.compat ≠ .implicit → r.compat = .explicit := by
  decide +kernel

/-- the classification agrees with the raw table function on distinct types -/
theorem implicit_iff_table_entry :
    ∀ r ∈ Gen.losslessTable, r.src ≠ r.tgt → (r.compat = .implicit ↔ r.lossless = true) := by
  decide +kernel

-- non-vacuity: the table has implicit rows, and they are about non-trivial value sets
example : ∃ r ∈ Gen.losslessTable, r.compat = .implicit ∧ r.src = .i32 ∧ r.tgt = .f64 := by decide +kernel
example : Rep .i32 ((2 ^ 31 - 1 : Int) * ((2 ^ E : Nat) : Int)) := by
  unfold Rep; exact ⟨2 ^ 31 - 1, by decide, by decide, rfl⟩
-- the decision procedure rejects exactly the suspicious pairs (sanity; tests, not the claim)
example : losslessDec .i64 .f64 = false ∧ losslessDec .i32 .f64 = true ∧ losslessDec .u64 .f128 = true
    ∧ losslessDec .i128 .f128 = false ∧ losslessDec .f64 .f32 = false ∧ losslessDec .f32 .i256 = false
    ∧ losslessDec .byte .u8 = true := by decide +kernel

end FerretVerif.C11
