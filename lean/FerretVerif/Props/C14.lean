/-
  Props/C14.lean — C14: compilation is deterministic under every schedule.

  Kernel-checked here, over Model/Diag.lean (sortDiagnostics, tied to bag.go by the `diag-sort` correspondence) and
  Model/LitCounter.lean:
    * sortDiagnostics is a stable sort by (file, line) on located diagnostics: its output is sorted, keeps the arrival
      order inside each key, and is therefore IDENTICAL for any two arrival orders (interleavings of the goroutines)
      that agree on the relative order of same-key diagnostics — in particular whenever the concurrently running
      goroutines report into different files;
    * the hypothesis is needed (same-key witness) and diagnostics WITHOUT a label break the order altogether
      (the comparator is not transitive then; witness);
    * literal names: the ids a module receives are schedule-independent when it is the only drawer, and do depend on
      the schedule as soon as two modules draw from one counter (witness) — a known finding of the current tree.
  Byte equality of the generated code is observed (checks/c14.py), not proved.
-/
import FerretVerif.Proofs.DiagSort
import FerretVerif.Model.LitCounter

namespace FerretVerif.C14
open FerretVerif.Diag FerretVerif.LitCounter

/-- Output is ordered by (file, line). -/
theorem sorted_by_file_line (l : List D) (hl : ∀ d ∈ l, located d = true) : Sorted (sortDiags l) := sorted_sortDiags l hl

/-- Diagnostics of one (file, line) keep their arrival order (phase order). -/
theorem stable_within_key (k : Nat × Nat) (l : List D) (hl : ∀ d ∈ l, located d = true) : fk k (sortDiags l) = fk k l :=
  fk_sortDiags k l hl

/-- Arrival-order invariance. -/
theorem sort_arrival_invariant (l₁ l₂ : List D) (h1 : ∀ d ∈ l₁, located d = true) (h2 : ∀ d ∈ l₂, located d = true)
    (h : ∀ k, fk k l₁ = fk k l₂) : sortDiags l₁ = sortDiags l₂ := Diag.sort_arrival_invariant l₁ l₂ h1 h2 h

/-- Corollary for two goroutines reporting into different files: whichever delivers first, the emitted list is the same. -/
theorem two_goroutines_different_files (a b : List D) (ha : ∀ d ∈ a, located d = true) (hb : ∀ d ∈ b, located d = true)
    (hdis : ∀ x ∈ a, ∀ y ∈ b, x.fileKey ≠ y.fileKey) : sortDiags (a ++ b) = sortDiags (b ++ a) := by
  apply sort_arrival_invariant
  · intro d hd; rcases List.mem_append.mp hd with h | h; exact ha d h; exact hb d h
  · intro d hd; rcases List.mem_append.mp hd with h | h; exact hb d h; exact ha d h
  · intro k
    simp only [fk, List.filter_append]
    -- at most one of the two filters is non-empty
    by_cases he : a.filter (fun d => key d == k) = []
    · rw [he]; simp
    · have hb' : b.filter (fun d => key d == k) = [] := by
        rw [List.filter_eq_nil_iff]
        intro y hy hky
        obtain ⟨x, hx⟩ := List.exists_mem_of_ne_nil _ he
        simp only [List.mem_filter, beq_iff_eq] at hx
        simp only [beq_iff_eq] at hky
        have : key x = key y := hx.2.trans hky.symm
        unfold key at this
        exact hdis x hx.1 y hy (Prod.mk.inj this).1
      rw [hb']; simp

/-- The hypothesis of `sort_arrival_invariant` is needed: two diagnostics on the same line of the same file are
    emitted in arrival order. -/
theorem same_key_witness :
    let d1 : D := ⟨.error, true, false, 5, 3, 1, 1⟩
    let d2 : D := ⟨.error, true, false, 5, 3, 9, 2⟩
    sortDiags [d1, d2] ≠ sortDiags [d2, d1] := by decide

/-- A diagnostic without label is incomparable with everything: the comparator is no strict weak order and the
    result depends on the arrival order even for different keys. -/
theorem unlabeled_breaks_order_witness :
    let a : D := ⟨.error, true, false, 2, 1, 1, 1⟩      -- file 2
    let n : D := ⟨.error, false, false, 0, 0, 0, 2⟩     -- no label
    let c : D := ⟨.error, true, false, 1, 1, 1, 3⟩      -- file 1
    (sortDiags [a, n, c]).map (·.id) = [1, 2, 3] ∧ (sortDiags [a, c, n]).map (·.id) = [3, 1, 2] := by decide

/-- A module that is the only one drawing from a counter gets the same ids under every schedule. -/
theorem single_drawer_ids (m n : Nat) : idsOf m (List.replicate n m) = (List.range n).map (· + 1) := by
  unfold idsOf
  suffices h : ∀ c, ((assign c (List.replicate n m)).filter (·.1 == m)).map (·.2) = (List.range n).map (· + c + 1) by
    have := h 0; simpa using this
  induction n with
  | zero => intro c; simp [assign]
  | succ k ih =>
    intro c
    simp only [List.replicate_succ, assign, List.filter_cons, beq_self_eq_true, if_true, List.map_cons]
    rw [ih (c + 1), List.range_succ_eq_map]
    simp only [List.map_cons, List.map_map]
    congr 1
    · omega
    · apply List.map_congr_left; intro a _; simp; omega

/-- Two modules drawing from one counter: which ids a module gets depends on the schedule (the behaviour of function-literal
    names before the repair of F39, still the behaviour of the struct / interface / enum literal counters). -/
theorem two_drawers_witness : idsOf 0 [0, 1] = [1] ∧ idsOf 0 [1, 0] = [2] := by decide

theorem assignPerFile_ids (m : Nat) : ∀ (s : Sched) (seen : List (Nat × Nat)),
    ((assignPerFile seen s).filter (·.1 == m)).map (·.2) =
      (List.range (s.filter (· == m)).length).map (· + (seen.filter (·.1 == m)).length + 1)
  | [], seen => by simp [assignPerFile]
  | x :: rest, seen => by
    simp only [assignPerFile]
    by_cases hx : x = m
    · subst hx
      have ih := assignPerFile_ids x rest ((x, (seen.filter (·.1 == x)).length + 1) :: seen)
      simp only [List.filter_cons, beq_self_eq_true, if_true, List.map_cons, List.length_cons] at ih ⊢
      rw [ih, List.range_succ_eq_map]
      simp only [List.map_cons, List.map_map, Nat.zero_add]
      congr 1
      apply List.map_congr_left; intro a _; simp; omega
    · have hx' : (x == m) = false := by simpa using hx
      have ih := assignPerFile_ids m rest ((x, (seen.filter (·.1 == x)).length + 1) :: seen)
      simp only [List.filter_cons, hx', Bool.false_eq_true, if_false] at ih ⊢
      exact ih

/-- With one counter per source file, the ids a module's function literals receive are 1, 2, 3, … in its own program order,
    under EVERY schedule of the concurrently running parsers. -/
theorem func_lit_ids_schedule_independent (m : Nat) (s : Sched) :
    idsOfPerFile m s = (List.range (s.filter (· == m)).length).map (· + 1) := by
  have := assignPerFile_ids m s []
  simpa [idsOfPerFile] using this

example : idsOfPerFile 0 [0, 1, 0] = [1, 2] ∧ idsOfPerFile 0 [1, 0, 0] = [1, 2] := by decide

end FerretVerif.C14
