/-
  Props/C09.lean — C09: behaviour does not depend on what the compiler can evaluate early.

  What is kernel-checked is about the REFERENCE semantics (Core/Eval.lean), i.e. that the rewrites of the property
  really are meaning-preserving there: `if true { body }` runs exactly `body`, `if false { … }` runs nothing, a
  `const` declaration executes like the `let` it replaces, and evaluating integer arithmetic on literals early
  (unbounded, as a constant folder does) agrees with the run-time result exactly when the unbounded result is in the
  type's range — otherwise the run-time result is the wrapped one, so a compiler must wrap (or reject) and never keep
  the unbounded value.  The compiler's own folding/propagation code (typechecker big.Int folding, HIR consteval,
  MIR constant use) is NOT modelled; the 8/16-bit register arithmetic of the QBE emitter IS (regenerated selection table, below): checks/c09.py executes pairs (program, rewritten
  program) on both back ends and compares acceptance and output with each other and with this semantics.
-/
import FerretVerif.Proofs.Rewrite
import FerretVerif.Props.C01

namespace FerretVerif.C09
open FerretVerif.Core

/-- wrapping statements in `if true { }` : the statement runs exactly the wrapped block -/
theorem if_true_runs_block (ctx : Ctx) (fuel : Nat) (env : Env) (ret : Ty) (body els : List Stmt) :
    execS ctx (fuel + 2) env ret (.ifS (.blit true) body els) = (do
      let (fl, _) ← execBlock ctx (fuel + 1) env ret body
      pure (fl, env)) := execS_if_true ctx fuel env ret body els

theorem if_false_runs_nothing (ctx : Ctx) (fuel : Nat) (env : Env) (ret : Ty) (body : List Stmt) :
    execS ctx (fuel + 2) env ret (.ifS (.blit false) body []) = pure (.next, env) := execS_if_false ctx fuel env ret body

/-- declaring a never-reassigned `let` as `const` -/
theorem const_runs_like_let (ctx : Ctx) (fuel : Nat) (env : Env) (ret : Ty) (x : String) (t : Ty) (e : Expr) :
    execS ctx fuel env ret (.constS x t e) = execS ctx fuel env ret (.letS x t e) := execS_const_eq_let ctx fuel env ret x t e

/-- early evaluation of literal arithmetic: the run-time value is the wrapped sum … -/
theorem literal_add_wraps (ctx : Ctx) (fuel : Nat) (env : Env) (bits : Nat) (s : Bool) (a b : Int) :
    evalE ctx (fuel + 2) env (.bin .add (.int bits s) (.lit (.int bits s) a) (.lit (.int bits s) b))
      = pure (.int (wrapInt bits s (wrapTy (.int bits s) a + wrapTy (.int bits s) b))) := fold_add ctx fuel env bits s a b

/-- … and an unbounded (big-integer) fold `v` may be used in its place iff `v` is in the type's range. -/
theorem fold_sound_iff_in_range {bits : Nat} (h : 1 ≤ bits) (s : Bool) (v : Int) :
    wrapInt bits s v = v ↔ InRange bits s v := fold_agrees_iff_in_range h s v

-- the canonical trap: i8 127 + 1 folded without wrapping is 128, at run time it is -128
example : wrapInt 8 true (127 + 1) = -128 ∧ ¬ InRange 8 true 128 := by
  refine ⟨by decide, ?_⟩
  unfold InRange; decide

/-! ### 8/16-bit register arithmetic: a result computed at run time is the folded one

A constant folder computes `wrap (a op b)`; the emitted code computes on 32-bit temporaries.  For every row of the regenerated
selection table (the IL the current compiler emits) the temporary after the sequence is the CANONICAL temporary of that folded
value — the same bits a load of the folded constant from memory produces — so no later use (compare, widen, divide, print) can
tell an early-evaluated operand from a late one. -/
open FerretVerif.QbeSem in
theorem runtime_arith_is_folded (r : QbeSem.Row) (hr : r ∈ Gen.qbeSel) (hk : r.kind = .bin) (a b : Int)
    (ha : r.src.inRange a) (hb : r.src.inRange b) (w : Int) (hw : specBin r.op r.src a b = some w)
    (hno : ¬ ((r.op = "div" ∨ r.op = "rem") ∧ r.src.signed = true ∧ overflows r.src a b)) :
    exec [canon r.src a, canon r.src b] [] r.seq = some (canon r.src w) :=
  C01.sel_binary_correct r hr hk a b w ha hb hw hno

open FerretVerif.QbeSem in
/-- and a cast executed at run time is the cast folded: wrap to the target type, in canonical form -/
theorem runtime_cast_is_folded (r : QbeSem.Row) (hr : r ∈ Gen.qbeSel) (hk : r.kind = .cast) (a : Int) (ha : r.src.inRange a) :
    exec [canon r.src a] [] r.seq = some (canon r.dst (r.dst.wrap a)) := by
  have := C01.sel_table_correct r hr [a] (by intro x hx; simp at hx; subst hx; exact ha) (canon r.dst (r.dst.wrap a))
    (by simp only [rowSpec, hk])
  simpa using this

open FerretVerif.QbeSem in
/-- … and a value that travelled through memory (a field, an element, a by-value copy) comes back as the same canonical temporary:
    8/16-bit values are truncated by the store and re-extended by the load exactly as the register arithmetic re-normalises them -/
theorem memory_roundtrip_is_identity (r : QbeSem.MemRow) (hr : r ∈ Gen.qbeMem) (hl : r.ty ∈ legalTys) (v : Int) (hv : r.ty.inRange v) :
    (memStore r.store (canon r.ty v)).bind (memLoad r.cls r.load) = some (canon r.ty v) :=
  C01.mem_table_correct r hr hl v hv

end FerretVerif.C09
