/-
  Proofs/WasmSem.lean — the symbolic stack evaluation `toSsa` is sound: running the stack code on values is running the
  three-address code it produces (`toSsa_sound`); hence a wasm row whose three-address form is a sequence of
  `QbeSem.expectedSeq` computes the row's specification (`wrow_correct`).
-/
import FerretVerif.Model.WasmSem
import FerretVerif.Proofs.QbeSem

namespace FerretVerif.WasmSem
open FerretVerif.QbeSem

/-- the symbolic operands `ss` denote the values `cs` under the temporaries `tmps` -/
def evs (params tmps : List Nat) : List Arg → List Nat → Prop
  | [], [] => True
  | a :: as, v :: vs => argVal params tmps a = some v ∧ evs params tmps as vs
  | _, _ => False

theorem argVal_mono (params tmps : List Nat) (r : Nat) (a : Arg) (v : Nat) (h : argVal params tmps a = some v) :
    argVal params (tmps ++ [r]) a = some v := by
  cases a with
  | param i => simpa [argVal] using h
  | lit n => simpa [argVal] using h
  | tmp i =>
    simp only [argVal] at h ⊢
    have hi : i < tmps.length := by
      rcases Nat.lt_or_ge i tmps.length with h' | h'
      · exact h'
      · rw [List.getElem?_eq_none_iff.mpr h'] at h; cases h
    rw [List.getElem?_append_left hi]; exact h

theorem evs_mono (params tmps : List Nat) (r : Nat) : ∀ (ss : List Arg) (cs : List Nat), evs params tmps ss cs → evs params (tmps ++ [r]) ss cs
  | [], [], _ => trivial
  | a :: as, v :: vs, h => ⟨argVal_mono params tmps r a v h.1, evs_mono params tmps r as vs h.2⟩
  | [], _ :: _, h => h.elim
  | _ :: _, [], h => h.elim

theorem evs_length (params tmps : List Nat) : ∀ (ss : List Arg) (cs : List Nat), evs params tmps ss cs → ss.length = cs.length
  | [], [], _ => rfl
  | a :: as, v :: vs, h => by simp [evs_length params tmps as vs h.2]
  | [], _ :: _, h => h.elim
  | _ :: _, [], h => h.elim

theorem evs_get (params tmps : List Nat) : ∀ (ss : List Arg) (cs : List Nat) (i : Nat) (a : Arg), evs params tmps ss cs → ss[i]? = some a →
    ∃ v, cs[i]? = some v ∧ argVal params tmps a = some v
  | [], _, _, _, _, h => by simp at h
  | _ :: _, [], _, _, h, _ => h.elim
  | b :: as, v :: vs, 0, a, h, hi => by
    simp at hi; subst hi; exact ⟨v, rfl, h.1⟩
  | b :: as, v :: vs, i + 1, a, h, hi => by
    simp at hi; simpa using evs_get params tmps as vs i a h.2 hi

theorem evs_set (params tmps : List Nat) : ∀ (ss : List Arg) (cs : List Nat) (i : Nat) (a : Arg) (v : Nat), evs params tmps ss cs →
    argVal params tmps a = some v → evs params tmps (ss.set i a) (cs.set i v)
  | [], [], _, _, _, _, _ => by simp [evs]
  | [], _ :: _, _, _, _, h, _ => h.elim
  | _ :: _, [], _, _, _, h, _ => h.elim
  | b :: as, w :: vs, 0, a, v, h, ha => by simp only [List.set_cons_zero]; exact ⟨ha, h.2⟩
  | b :: as, w :: vs, i + 1, a, v, h, ha => by
    simp only [List.set_cons_succ]; exact ⟨h.1, evs_set params tmps as vs i a v h.2 ha⟩

/-- the result of running three-address code and reading the returned operand -/
def execR (params tmps : List Nat) (seq : List Ins) (res : Arg) : Option Nat :=
  (execT params tmps seq).bind fun t => argVal params t res

theorem toSsa_sound (params : List Nat) : ∀ (code : List WIns) (sst sls : List Arg) (n : Nat) (seq : List Ins) (res : Arg)
    (cst cls tmps : List Nat), tmps.length = n → evs params tmps sst cst → evs params tmps sls cls →
    toSsa code sst sls n = some (seq, res) → wexec code cst cls = execR params tmps seq res := by
  intro code
  induction code with
  | nil => intro sst sls n seq res cst cls tmps _ _ _ h; simp [toSsa] at h
  | cons ins rest ih =>
    intro sst sls n seq res cst cls tmps hn hst hls h
    cases ins with
    | ret =>
      simp only [toSsa] at h
      cases sst with
      | nil => simp at h
      | cons a sst' =>
        cases cst with
        | nil => exact hst.elim
        | cons v cst' =>
          simp at h; obtain ⟨rfl, rfl⟩ := h
          simp [wexec, execR, execT, hst.1]
    | get i =>
      simp only [toSsa] at h
      cases hg : sls[i]? with
      | none => simp [hg] at h
      | some a =>
        simp [hg] at h
        obtain ⟨v, hv, hav⟩ := evs_get params tmps sls cls i a hls hg
        simp only [wexec, hv, Option.bind_eq_bind, Option.bind_some]
        exact ih (a :: sst) sls n seq res (v :: cst) cls tmps hn ⟨hav, hst⟩ hls h
    | set i =>
      simp only [toSsa] at h
      cases sst with
      | nil => simp at h
      | cons a sst' =>
        cases cst with
        | nil => exact hst.elim
        | cons v cst' =>
          simp only at h
          have hl := evs_length params tmps sls cls hls
          by_cases hi : i < sls.length
          · simp only [hi, if_true] at h
            have hi' : i < cls.length := hl ▸ hi
            simp only [wexec, hi', if_true]
            exact ih sst' (sls.set i a) n seq res cst' (cls.set i v) tmps hn hst.2 (evs_set params tmps sls cls i a v hls hst.1) h
          · simp [hi] at h
    | const c v =>
      simp only [toSsa] at h
      simp only [wexec]
      exact ih (.lit (pat c v) :: sst) sls n seq res (pat c v :: cst) cls tmps hn ⟨rfl, hst⟩ hls h
    | op name =>
      simp only [toSsa] at h
      simp only [wexec]
      split at h
      · -- binary
        rename_i c q b a sst' hw
        cases cst with
        | nil => exact hst.elim
        | cons y cst1 =>
          cases cst1 with
          | nil => exact hst.2.elim
          | cons x cst' =>
            cases hrec : toSsa rest (.tmp n :: sst') sls (n + 1) with
            | none => simp [hrec] at h
            | some pr =>
              obtain ⟨seq', r⟩ := pr
              simp [hrec] at h
              obtain ⟨rfl, rfl⟩ := h
              simp only [hw, execR, execT, hst.2.1, hst.1, Option.bind_eq_bind, Option.bind_some]
              cases he : evalOp c q x y with
              | none => simp
              | some r0 =>
                simp only [Option.bind_some]
                have := ih (.tmp n :: sst') sls (n + 1) seq' r (r0 :: cst') cls (tmps ++ [r0]) (by simp [hn])
                  ⟨by simp [argVal, ← hn], evs_mono params tmps r0 sst' cst' hst.2.2⟩ (evs_mono params tmps r0 sls cls hls) hrec
                simpa [execR] using this
      · -- unary
        rename_i c q a sst' hw
        cases cst with
        | nil => exact hst.elim
        | cons x cst' =>
          cases hrec : toSsa rest (.tmp n :: sst') sls (n + 1) with
          | none => simp [hrec] at h
          | some pr =>
            obtain ⟨seq', r⟩ := pr
            simp [hrec] at h
            obtain ⟨rfl, rfl⟩ := h
            have hl0 : argVal params tmps (.lit 0) = some 0 := rfl
            simp only [hw, execR, execT, hst.1, hl0, Option.bind_eq_bind, Option.bind_some]
            cases he : evalOp c q x 0 with
            | none => simp
            | some r0 =>
              simp only [Option.bind_some]
              have := ih (.tmp n :: sst') sls (n + 1) seq' r (r0 :: cst') cls (tmps ++ [r0]) (by simp [hn])
                ⟨by simp [argVal, ← hn], evs_mono params tmps r0 sst' cst' hst.2⟩ (evs_mono params tmps r0 sls cls hls) hrec
              simpa [execR] using this
      · cases h

theorem execT_length (params : List Nat) : ∀ (seq : List Ins) (tmps t : List Nat), execT params tmps seq = some t → t.length = tmps.length + seq.length := by
  intro seq
  induction seq with
  | nil => intro tmps t h; simp [execT] at h; subst h; simp
  | cons i rest ih =>
    intro tmps t h
    simp only [execT, Option.bind_eq_bind] at h
    cases hx : argVal params tmps i.a with
    | none => simp [hx] at h
    | some x =>
      cases hy : argVal params tmps i.b with
      | none => simp [hx, hy] at h
      | some y =>
        cases hr : evalOp i.cls i.op x y with
        | none => simp [hx, hy, hr] at h
        | some r =>
          simp [hx, hy, hr] at h
          have := ih _ _ h
          simp at this; simp; omega

theorem exec_eq_execT (params : List Nat) : ∀ (seq : List Ins) (tmps : List Nat), exec params tmps seq = (execT params tmps seq).bind List.getLast? := by
  intro seq
  induction seq with
  | nil => intro tmps; simp [exec, execT]
  | cons i rest ih =>
    intro tmps
    simp only [exec, execT, Option.bind_eq_bind]
    cases hx : argVal params tmps i.a with
    | none => simp
    | some x =>
      cases hy : argVal params tmps i.b with
      | none => simp
      | some y =>
        cases hr : evalOp i.cls i.op x y with
        | none => simp [hr]
        | some r => simp [hr, ih]

theorem evs_append (params tmps : List Nat) : ∀ (s1 : List Arg) (c1 : List Nat) (s2 : List Arg) (c2 : List Nat),
    evs params tmps s1 c1 → evs params tmps s2 c2 → evs params tmps (s1 ++ s2) (c1 ++ c2)
  | [], [], _, _, _, h2 => by simpa using h2
  | a :: as, v :: vs, s2, c2, h1, h2 => ⟨h1.1, evs_append params tmps as vs s2 c2 h1.2 h2⟩
  | [], _ :: _, _, _, h, _ => h.elim
  | _ :: _, [], _, _, h, _ => h.elim

theorem evs_zeros (params tmps : List Nat) : ∀ k, evs params tmps (List.replicate k (.lit 0)) (List.replicate k 0)
  | 0 => trivial
  | k + 1 => ⟨rfl, evs_zeros params tmps k⟩



theorem evs_entry1 (p : Nat) (nl : Nat) : evs [p] [] (entryLocals 1 nl) ([p] ++ List.replicate (nl - 1) 0) := by
  have : entryLocals 1 nl = [.param 0] ++ List.replicate (nl - 1) (.lit 0) := by simp [entryLocals, List.range, List.range.loop]
  rw [this]
  exact evs_append _ _ _ _ _ _ ⟨rfl, trivial⟩ (evs_zeros _ _ _)

theorem evs_entry2 (p q : Nat) (nl : Nat) : evs [p, q] [] (entryLocals 2 nl) ([p, q] ++ List.replicate (nl - 2) 0) := by
  have : entryLocals 2 nl = [.param 0, .param 1] ++ List.replicate (nl - 2) (.lit 0) := by simp [entryLocals, List.range, List.range.loop]
  rw [this]
  exact evs_append _ _ _ _ _ _ ⟨rfl, rfl, trivial⟩ (evs_zeros _ _ _)

/-- running the body on the parameters is running its three-address form -/
theorem wrun_eq_exec (r : WRow) (seq : List Ins) (hssa : r.ssa = some seq) (params : List Nat)
    (hp : params.length = r.nparams) (h12 : r.nparams = 1 ∨ r.nparams = 2)
    (hcanon : ∀ p, params[0]? = some p → p < 2 ^ r.src.cls.bits) :
    wrun r.code params r.nlocals = exec params [] seq := by
  have hev : evs params [] (entryLocals r.nparams r.nlocals) (params ++ List.replicate (r.nlocals - params.length) 0) := by
    rcases h12 with h | h
    · rw [h] at hp ⊢
      match params, hp with
      | [p], _ => exact evs_entry1 p r.nlocals
    · rw [h] at hp ⊢
      match params, hp with
      | [p, q], _ => exact evs_entry2 p q r.nlocals
  unfold WRow.ssa at hssa
  split at hssa
  · -- parameter returned untouched
    rename_i hts
    split at hssa
    · rename_i hcls
      cases hssa
      have := toSsa_sound params r.code [] _ 0 [] (.param 0) [] _ [] rfl trivial hev hts
      simp only [wrun, this, execR, execT, Option.bind_some, argVal]
      simp only [exec, argVal, evalOp, Option.bind_eq_bind, Option.bind_some]
      cases h0 : params[0]? with
      | none => simp
      | some p =>
        have hlt := hcanon p h0
        simp
        rw [← hcls]
        simp only [pat]
        have : ((p : Int) % ((2 ^ r.src.cls.bits : Nat) : Int)) = p := by
          apply Int.emod_eq_of_lt (by omega); exact_mod_cast hlt
        rw [this]; simp
    · cases hssa
  · rename_i sq k hts
    split at hssa
    · rename_i hk
      cases hssa
      have := toSsa_sound params r.code [] _ 0 seq (.tmp k) [] _ [] rfl trivial hev hts
      simp only [wrun, this, execR, exec_eq_execT]
      cases ht : execT params [] seq with
      | none => simp
      | some t =>
        have hl := execT_length params seq [] t ht
        simp only [Option.bind_some, argVal]
        simp at hl
        rw [List.getLast?_eq_getElem?]
        congr 1; omega
    · cases hssa
  · cases hssa


theorem canon_lt (t : Ty) (v : Int) : canon t v < 2 ^ t.cls.bits := pat_lt t.cls v

/-- a wasm row of a proved shape computes its specification on canonical operands -/
theorem wrow_correct (r : WRow) (hok : wrowOk r = true) (hs : r.src ∈ legalTys) (hd : r.dst ∈ legalTys)
    (hsame : r.kind ≠ .cast → r.dst = r.src) (args : List Int) (hlen : args.length = r.nparams)
    (hin : ∀ a ∈ args, r.src.inRange a) (v : Nat) (hv : r.spec args = some v) :
    wrun r.code (args.map (canon r.src)) r.nlocals = some v := by
  unfold wrowOk at hok
  cases htr : r.toRow with
  | none => simp [htr] at hok
  | some q =>
    simp only [htr, Bool.and_eq_true, beq_iff_eq, decide_eq_true_eq] at hok
    obtain ⟨⟨hq, hnp⟩, _⟩ := hok
    unfold WRow.toRow at htr
    cases hssa : r.ssa with
    | none => simp [hssa] at htr
    | some seq =>
      simp [hssa] at htr
      subst htr
      have h12 : r.nparams = 1 ∨ r.nparams = 2 := by rw [hnp]; split <;> simp
      rw [wrun_eq_exec r seq hssa (args.map (canon r.src)) (by simp [hlen]) h12]
      · exact row_correct ⟨r.kind, r.op, r.src, r.dst, seq⟩ hq hs hd hsame args hin v hv
      · intro p hp
        cases args with
        | nil => simp at hp
        | cons a _ => simp at hp; subst hp; exact canon_lt r.src a


end FerretVerif.WasmSem
