/-
  Proofs/LimbsBase.lean — shared helper lemmas for the limb proofs (division, shifts, text):
  bitwise-or as addition, zero test, limb extraction, signed interpretation.
-/
import FerretVerif.Proofs.Limbs

namespace FerretVerif.Limbs

/-! ### `|||` as addition -/

/-- or-ing a value below `2^k` onto a multiple of `2^k` is addition -/
theorem lor_eq_add {x b k : Nat} (hx : x % 2 ^ k = 0) (hb : b < 2 ^ k) : x ||| b = x + b := by
  have h : x = 2 ^ k * (x / 2 ^ k) := by
    have := Nat.div_add_mod x (2 ^ k)
    omega
  rw [h, Nat.two_pow_add_eq_or_of_lt hb]

theorem lor_eq_add' {x b k : Nat} (hx : x % 2 ^ k = 0) (hb : b < 2 ^ k) : b ||| x = x + b := by
  rw [Nat.or_comm, lor_eq_add hx hb]

/-- or-ing a bit onto an even number -/
theorem lor_even {x c : Nat} (hx : x % 2 = 0) (hc : c ≤ 1) : x ||| c = x + c :=
  lor_eq_add (k := 1) (by simpa using hx) (by simp; omega)

/-! ### lengths / well-formedness of constants -/

theorem zero_length (n : Nat) : (zero n).length = n := by simp [zero]

theorem zero_wf (B n : Nat) (hB : 0 < B) : Wf B (zero n) := by
  intro x hx
  simp [zero] at hx
  omega

theorem wf_replicate (B n x : Nat) (hx : x < B) : Wf B (List.replicate n x) := by
  intro y hy
  rw [List.mem_replicate] at hy
  omega

/-! ### zero test -/

theorem isZero_iff (B : Nat) (hB : 0 < B) (l : List Nat) : isZero l = true ↔ val B l = 0 := by
  induction l with
  | nil => simp [isZero, val]
  | cons x xs ih =>
    have ih' : xs.all (· == 0) = true ↔ val B xs = 0 := ih
    simp only [isZero, List.all_cons, val_cons, Bool.and_eq_true, beq_iff_eq]
    rw [ih', Nat.add_eq_zero_iff, Nat.mul_eq_zero]
    constructor
    · rintro ⟨h1, h2⟩; exact ⟨h1, Or.inr h2⟩
    · rintro ⟨h1, h2 | h2⟩
      · omega
      · exact ⟨h1, h2⟩

theorem isZero_eq_false_iff (B : Nat) (hB : 0 < B) (l : List Nat) : isZero l = false ↔ val B l ≠ 0 := by
  have := isZero_iff B hB l
  cases h : isZero l <;> simp_all

/-! ### limb extraction and update -/

theorem limb_nil (i : Nat) : limb [] i = 0 := by simp [limb]
theorem limb_cons_zero (x : Nat) (xs : List Nat) : limb (x :: xs) 0 = x := by simp [limb]
theorem limb_cons_succ (x : Nat) (xs : List Nat) (i : Nat) : limb (x :: xs) (i + 1) = limb xs i := by
  simp [limb]

theorem limb_lt (B : Nat) (hB : 0 < B) (l : List Nat) (h : Wf B l) (i : Nat) : limb l i < B := by
  induction l generalizing i with
  | nil => rw [limb_nil]; exact hB
  | cons x xs ih =>
    cases i with
    | zero => rw [limb_cons_zero]; exact h.head
    | succ i => rw [limb_cons_succ]; exact ih h.tail i

theorem limb_of_length_le (l : List Nat) (i : Nat) (h : l.length ≤ i) : limb l i = 0 := by
  induction l generalizing i with
  | nil => exact limb_nil i
  | cons x xs ih =>
    cases i with
    | zero => simp at h
    | succ i => rw [limb_cons_succ]; exact ih i (by simpa using h)

/-- limb `i` is digit `i` of the value -/
theorem limb_eq (B : Nat) (hB : 0 < B) (l : List Nat) (h : Wf B l) (i : Nat) :
    limb l i = (val B l / B ^ i) % B := by
  induction l generalizing i with
  | nil => simp [limb_nil, val]
  | cons x xs ih =>
    have hx := h.head
    cases i with
    | zero =>
      rw [limb_cons_zero, val_cons, Nat.pow_zero, Nat.div_one, Nat.add_mul_mod_self_left,
        Nat.mod_eq_of_lt hx]
    | succ i =>
      rw [limb_cons_succ, ih h.tail i, val_cons, Nat.pow_succ, Nat.mul_comm (B ^ i) B,
        ← Nat.div_div_eq_div_mul, Nat.add_mul_div_left _ _ hB, Nat.div_eq_of_lt hx, Nat.zero_add]

/-- replacing limb `i` -/
theorem val_set (B : Nat) (l : List Nat) (i y : Nat) (hi : i < l.length) :
    val B (l.set i y) + B ^ i * limb l i = val B l + B ^ i * y := by
  induction l generalizing i with
  | nil => simp at hi
  | cons x xs ih =>
    cases i with
    | zero => simp only [List.set_cons_zero, val_cons, limb_cons_zero, Nat.pow_zero, Nat.one_mul]; omega
    | succ i =>
      have := ih i (by simpa using hi)
      simp only [List.set_cons_succ, val_cons, limb_cons_succ, Nat.pow_succ]
      have e1 : B ^ i * B * limb xs i = B * (B ^ i * limb xs i) := by
        rw [Nat.mul_comm (B ^ i) B, Nat.mul_assoc]
      have e2 : B ^ i * B * y = B * (B ^ i * y) := by
        rw [Nat.mul_comm (B ^ i) B, Nat.mul_assoc]
      have e3 : B * (val B (xs.set i y) + B ^ i * limb xs i) = B * (val B xs + B ^ i * y) := by rw [this]
      rw [Nat.mul_add, Nat.mul_add] at e3
      rw [e1, e2]
      omega

theorem wf_set (B : Nat) (l : List Nat) (i y : Nat) (h : Wf B l) (hy : y < B) : Wf B (l.set i y) := by
  induction l generalizing i with
  | nil => simpa using h
  | cons x xs ih =>
    cases i with
    | zero => exact Wf.cons hy h.tail
    | succ i => exact Wf.cons h.head (ih i h.tail)

/-- a list is determined by its limbs: if limb `i` is digit `i` of `V` for all `i < n`, the value is `V mod B^n` -/
theorem val_of_limbs (B : Nat) (hB : 0 < B) (l : List Nat) (V : Nat)
    (h : ∀ i, i < l.length → limb l i = (V / B ^ i) % B) : val B l = V % B ^ l.length := by
  induction l generalizing V with
  | nil => simp [val, Nat.mod_one]
  | cons x xs ih =>
    have h0 := h 0 (by simp)
    rw [limb_cons_zero, Nat.pow_zero, Nat.div_one] at h0
    have ih' := ih (V / B) (fun i hi => by
      have := h (i + 1) (by simpa using hi)
      rw [limb_cons_succ, Nat.pow_succ, Nat.mul_comm (B ^ i) B, ← Nat.div_div_eq_div_mul] at this
      exact this)
    rw [val_cons, ih', h0, List.length_cons, Nat.pow_succ, Nat.mul_comm (B ^ xs.length) B]
    have hV : V = V % B + B * (V / B) := (Nat.mod_add_div V B).symm
    conv => rhs; rw [hV]
    rw [mod_mul_split (Nat.mod_lt _ hB)]

theorem wf_of_limbs (B : Nat) (l : List Nat) (h : ∀ i, i < l.length → limb l i < B) : Wf B l := by
  induction l with
  | nil => intro x hx; simp at hx
  | cons x xs ih =>
    refine Wf.cons ?_ (ih fun i hi => ?_)
    · simpa [limb_cons_zero] using h 0 (by simp)
    · simpa [limb_cons_succ] using h (i + 1) (by simpa using hi)

theorem limb_map_range (n : Nat) (f : Nat → Nat) (i : Nat) (hi : i < n) :
    limb ((List.range n).map f) i = f i := by
  simp [limb, List.getD, hi]

/-! ### signed interpretation -/

/-- two's complement value of a limb list -/
def toInt (B : Nat) (l : List Nat) : Int :=
  if isNeg B l then (val B l : Int) - ((B ^ l.length : Nat) : Int) else (val B l : Int)

/-- the sign test reads the top bit of the value (B even) -/
theorem isNeg_iff (H : Nat) (hH : 0 < H) (l : List Nat) (h : Wf (2 * H) l) :
    isNeg (2 * H) l = true ↔ (2 * H) ^ l.length ≤ 2 * val (2 * H) l := by
  unfold isNeg
  rw [decide_eq_true_iff]
  induction l with
  | nil => simp [val]; omega
  | cons x xs ih =>
    have hx := h.head
    cases xs with
    | nil =>
      simp [val]
    | cons y ys =>
      have ih' := ih h.tail
      have hlt := val_lt _ _ h.tail
      have e : (x :: y :: ys).getLastD 0 = (y :: ys).getLastD 0 := by simp [List.getLastD]
      rw [e, ih']
      have hM : (2 * H) ^ (y :: ys).length = 2 * (H * (2 * H) ^ ys.length) := by
        rw [List.length_cons, Nat.pow_succ, Nat.mul_comm, Nat.mul_assoc]
      have hM2 : (2 * H) ^ (x :: y :: ys).length = (2 * H) ^ (y :: ys).length * (2 * H) := by
        rw [List.length_cons, Nat.pow_succ]
      have hv2 : val (2 * H) (x :: y :: ys) = x + 2 * H * val (2 * H) (y :: ys) := rfl
      rw [hM2, hv2, hM]
      rw [hM] at hlt
      generalize val (2 * H) (y :: ys) = v at *
      generalize H * (2 * H) ^ ys.length = K at *
      have e1 : 2 * K * (2 * H) = 2 * H * (2 * K) := Nat.mul_comm _ _
      rw [e1]
      constructor
      · intro hle
        have : 2 * H * (2 * K) ≤ 2 * H * (2 * v) := Nat.mul_le_mul_left _ hle
        rw [Nat.mul_add]
        have e2 : 2 * (2 * H * v) = 2 * H * (2 * v) := by
          rw [Nat.mul_left_comm]
        omega
      · intro hle
        apply Classical.byContradiction
        intro hn
        have h1 : 2 * v + 2 ≤ 2 * K := by omega
        have : 2 * H * (2 * v + 2) ≤ 2 * H * (2 * K) := Nat.mul_le_mul_left _ h1
        rw [Nat.mul_add] at this hle
        have e2 : 2 * (2 * H * v) = 2 * H * (2 * v) := by
          rw [Nat.mul_left_comm]
        have e3 : 2 * H * 2 = 4 * H := by omega
        omega

theorem isNeg_iff_pow (w : Nat) (hw : 0 < w) (l : List Nat) (h : Wf (2 ^ w) l) :
    isNeg (2 ^ w) l = true ↔ (2 ^ w) ^ l.length ≤ 2 * val (2 ^ w) l := by
  have e : 2 ^ w = 2 * 2 ^ (w - 1) := by
    rw [Nat.mul_comm, ← Nat.pow_succ]; congr 1; omega
  rw [e] at h ⊢
  exact isNeg_iff _ (Nat.two_pow_pos _) l h

theorem toInt_of_neg (B : Nat) (l : List Nat) (h : isNeg B l = true) :
    toInt B l = (val B l : Int) - ((B ^ l.length : Nat) : Int) := by simp [toInt, h]

theorem toInt_of_nonneg (B : Nat) (l : List Nat) (h : isNeg B l = false) :
    toInt B l = (val B l : Int) := by simp [toInt, h]

/-- the unsigned value is the signed value modulo `B^n` -/
theorem toInt_emod (B : Nat) (l : List Nat) (h : Wf B l) :
    toInt B l % ((B ^ l.length : Nat) : Int) = (val B l : Int) := by
  have hlt := val_lt B l h
  unfold toInt
  split
  · rw [Int.sub_emod, Int.emod_self, Int.sub_zero, Int.emod_emod_of_dvd _ (Int.dvd_refl _)]
    exact Int.emod_eq_of_lt (by omega) (by omega)
  · exact Int.emod_eq_of_lt (by omega) (by omega)

end FerretVerif.Limbs
