/-
  Proofs/LimbsDiv.lean — bit-serial long division (ferret_div_mod_u_limbs), signed wrappers, exponentiation.
-/
import FerretVerif.Proofs.LimbsBase

namespace FerretVerif.Limbs

/-! ### one-bit left shift with carry chain -/

theorem two_pow_split (w : Nat) (hw : 0 < w) : ∃ H, 0 < H ∧ 2 ^ w = 2 * H ∧ 2 ^ (w - 1) = H := by
  refine ⟨2 ^ (w - 1), Nat.two_pow_pos _, ?_, rfl⟩
  rw [Nat.mul_comm, ← Nat.pow_succ]; congr 1; omega

theorem shl1c_length (w : Nat) (r : List Nat) (c : Nat) : (shl1c w r c).length = r.length := by
  induction r generalizing c with
  | nil => simp [shl1c]
  | cons x xs ih => simp [shl1c, ih]

/-- one limb of the shift: new limb and carry-out -/
theorem shl1_limb (H x c : Nat) (hH : 0 < H) (hx : x < 2 * H) (hc : c ≤ 1) :
    (x * 2) % (2 * H) ||| c = 2 * (x % H) + c ∧ 2 * (x % H) + c < 2 * H ∧ x / H ≤ 1
      ∧ 2 * x = 2 * (x % H) + 2 * H * (x / H) := by
  have h1 : (x * 2) % (2 * H) = 2 * (x % H) := by rw [Nat.mul_comm x 2, Nat.mul_mod_mul_left]
  have h2 : x % H < H := Nat.mod_lt _ hH
  have h3 : x / H < 2 := Nat.div_lt_of_lt_mul (by omega)
  have h4 := Nat.div_add_mod x H
  refine ⟨?_, by omega, by omega, ?_⟩
  · rw [h1, lor_even (by omega) hc]
  · rw [Nat.mul_assoc]; omega

theorem shl1c_wf (w : Nat) (hw : 0 < w) (r : List Nat) (c : Nat) (hc : c ≤ 1) (hr : Wf (2 ^ w) r) :
    Wf (2 ^ w) (shl1c w r c) := by
  obtain ⟨H, hH, hB, hH'⟩ := two_pow_split w hw
  induction r generalizing c with
  | nil => simp [shl1c, Wf]
  | cons x xs ih =>
    have hx : x < 2 * H := hB ▸ hr.head
    obtain ⟨e1, e2, e3, _⟩ := shl1_limb H x c hH hx hc
    simp only [shl1c]
    refine Wf.cons ?_ (ih _ (by rw [hH']; exact e3) hr.tail)
    rw [hB, e1]; exact e2

theorem shl1c_val (w : Nat) (hw : 0 < w) (r : List Nat) (c : Nat) (hc : c ≤ 1) (hr : Wf (2 ^ w) r) :
    val (2 ^ w) (shl1c w r c) = (2 * val (2 ^ w) r + c) % (2 ^ w) ^ r.length := by
  obtain ⟨H, hH, hB, hH'⟩ := two_pow_split w hw
  induction r generalizing c with
  | nil => simp [shl1c, val, Nat.mod_one]
  | cons x xs ih =>
    have hx : x < 2 * H := hB ▸ hr.head
    obtain ⟨e1, e2, e3, e4⟩ := shl1_limb H x c hH hx hc
    simp only [shl1c, val_cons, List.length_cons]
    rw [ih _ (by rw [hH']; exact e3) hr.tail, hH', Nat.pow_succ, Nat.mul_comm ((2 ^ w) ^ xs.length)]
    rw [hB] at *
    rw [e1]
    generalize (2 * H) ^ xs.length = M
    have key : 2 * (x + 2 * H * val (2 * H) xs) + c
        = (2 * (x % H) + c) + 2 * H * (2 * val (2 * H) xs + x / H) := by
      rw [Nat.mul_add, Nat.mul_add (2 * H), Nat.mul_left_comm 2 (2 * H)]
      omega
    rw [key, mod_mul_split e2]

/-! ### bit access -/

/-- `(X % 2^w) / 2^j % 2 = X / 2^j % 2` for `j < w` -/
theorem bit_of_mod (X w j : Nat) (hj : j < w) : (X % 2 ^ w) / 2 ^ j % 2 = X / 2 ^ j % 2 := by
  have e : 2 ^ w = 2 ^ j * 2 ^ (w - j) := by rw [← Nat.pow_add]; congr 1; omega
  rw [e, Nat.mod_mul_right_div_self]
  apply Nat.mod_mod_of_dvd
  have : 2 ^ (w - j) = 2 * 2 ^ (w - j - 1) := by
    rw [Nat.mul_comm, ← Nat.pow_succ]; congr 1; omega
  exact ⟨_, this⟩

theorem pow_bit_split (w bit : Nat) : 2 ^ bit = (2 ^ w) ^ (bit / w) * 2 ^ (bit % w) := by
  rw [← Nat.pow_mul, ← Nat.pow_add, Nat.div_add_mod]

/-- ferret_get_bit_limbs reads bit `bit` of the value -/
theorem getBit_eq (w : Nat) (hw : 0 < w) (v : List Nat) (hv : Wf (2 ^ w) v) (bit : Nat) :
    getBit w v bit = (val (2 ^ w) v / 2 ^ bit) % 2 := by
  unfold getBit
  rw [limb_eq (2 ^ w) (Nat.two_pow_pos w) v hv, bit_of_mod _ _ _ (Nat.mod_lt _ hw),
    Nat.div_div_eq_div_mul, ← pow_bit_split]

theorem getBit_le_one (w : Nat) (v : List Nat) (bit : Nat) : getBit w v bit ≤ 1 := by
  unfold getBit; omega

/-- setting a clear bit of a limb adds the power of two and stays below the base -/
theorem setBit_limb (x w j : Nat) (hj : j < w) (hx : x < 2 ^ w) (hclear : x / 2 ^ j % 2 = 0) :
    x ||| 2 ^ j = x + 2 ^ j ∧ x + 2 ^ j < 2 ^ w := by
  have hlt : x ||| 2 ^ j < 2 ^ w := Nat.or_lt_two_pow hx (Nat.pow_lt_pow_right (by omega) hj)
  have hms : x % 2 ^ (j + 1) = x % 2 ^ j := by
    rw [Nat.mod_pow_succ, hclear, Nat.mul_zero, Nat.add_zero]
  have hdm := Nat.div_add_mod x (2 ^ (j + 1))
  rw [hms] at hdm
  have hr : x % 2 ^ j < 2 ^ j := Nat.mod_lt _ (Nat.two_pow_pos j)
  have hp : 2 ^ (j + 1) = 2 * 2 ^ j := by rw [Nat.pow_succ, Nat.mul_comm]
  have e : x ||| 2 ^ j = x + 2 ^ j := by
    have aux : ∀ q r, r < 2 ^ j → (2 ^ (j + 1) * q + r) ||| 2 ^ j = 2 ^ (j + 1) * q + r + 2 ^ j := by
      intro q r hr
      have hr1 : r < 2 ^ (j + 1) := by omega
      have hr2 : 2 ^ j + r < 2 ^ (j + 1) := by omega
      calc (2 ^ (j + 1) * q + r) ||| 2 ^ j
          = (2 ^ (j + 1) * q ||| r) ||| 2 ^ j := by rw [Nat.two_pow_add_eq_or_of_lt hr1]
        _ = 2 ^ (j + 1) * q ||| (r ||| 2 ^ j) := Nat.or_assoc ..
        _ = 2 ^ (j + 1) * q ||| (2 ^ j + r) := by rw [lor_eq_add' (k := j) (Nat.mod_self _) hr]
        _ = 2 ^ (j + 1) * q + (2 ^ j + r) := (Nat.two_pow_add_eq_or_of_lt hr2 _).symm
        _ = 2 ^ (j + 1) * q + r + 2 ^ j := by omega
    have := aux (x / 2 ^ (j + 1)) _ hr
    rw [hdm] at this
    exact this
  exact ⟨e, e ▸ hlt⟩

theorem setBit_length (w : Nat) (v : List Nat) (bit : Nat) : (setBit w v bit).length = v.length := by
  simp [setBit]

/-- ferret_set_bit_limbs on a clear bit adds `2^bit` to the value -/
theorem setBit_spec (w : Nat) (hw : 0 < w) (v : List Nat) (hv : Wf (2 ^ w) v) (bit : Nat)
    (hbit : bit < v.length * w) (hclear : (val (2 ^ w) v / 2 ^ bit) % 2 = 0) :
    val (2 ^ w) (setBit w v bit) = val (2 ^ w) v + 2 ^ bit ∧ Wf (2 ^ w) (setBit w v bit) := by
  have hg := getBit_eq w hw v hv bit
  rw [hclear] at hg
  unfold getBit at hg
  have hi : bit / w < v.length := Nat.div_lt_of_lt_mul (by rw [Nat.mul_comm]; exact hbit)
  obtain ⟨e1, e2⟩ := setBit_limb (limb v (bit / w)) w (bit % w) (Nat.mod_lt _ hw)
    (limb_lt _ (Nat.two_pow_pos w) v hv _) hg
  unfold setBit
  refine ⟨?_, wf_set _ _ _ _ hv (e1 ▸ e2)⟩
  have := val_set (2 ^ w) v (bit / w) (limb v (bit / w) ||| 2 ^ (bit % w)) hi
  rw [e1, Nat.mul_add, ← pow_bit_split] at this
  rw [e1]
  omega

/-! ### one step of the restoring division -/

/-- the "shift then or-in the numerator bit" of the C loop is a shift with carry-in -/
theorem shl1c_set_low (w : Nat) (r : List Nat) (b : Nat) (hb : b ≤ 1) :
    (if b = 1 then (shl1c w r 0).set 0 (limb (shl1c w r 0) 0 ||| 1) else shl1c w r 0) = shl1c w r b := by
  rcases Nat.eq_zero_or_pos b with h0 | h1
  · subst h0; simp
  · have : b = 1 := by omega
    subst this
    cases r with
    | nil => simp [shl1c]
    | cons x xs => simp [shl1c, limb_cons_zero]

theorem divStep_eq (w : Nat) (numer denom q r : List Nat) (k : Nat) :
    divStep w numer denom (q, r) k =
      if cmpU (shl1c w r (getBit w numer k)) denom != .lt
      then (setBit w q k, sub (2 ^ w) (shl1c w r (getBit w numer k)) denom)
      else (q, shl1c w r (getBit w numer k)) := by
  simp only [divStep]
  rw [shl1c_set_low w r _ (getBit_le_one w numer k)]

/-- arithmetic of one restoring-division step -/
theorem div_step_nat (D P b : Nat) (hD : 0 < D) (hb : b ≤ 1) :
    (D ≤ 2 * (P % D) + b → (2 * P + b) / D = 2 * (P / D) + 1 ∧ (2 * P + b) % D = 2 * (P % D) + b - D) ∧
    (2 * (P % D) + b < D → (2 * P + b) / D = 2 * (P / D) ∧ (2 * P + b) % D = 2 * (P % D) + b) := by
  have h1 := Nat.div_add_mod P D
  have h2 : P % D < D := Nat.mod_lt _ hD
  constructor
  · intro h
    rw [Nat.div_mod_unique hD]
    refine ⟨?_, by omega⟩
    rw [Nat.mul_add, Nat.mul_one, Nat.mul_left_comm]
    omega
  · intro h
    rw [Nat.div_mod_unique hD]
    refine ⟨?_, h⟩
    rw [Nat.mul_left_comm]
    omega

/-- loop invariant of ferret_div_mod_u_limbs after the bits `≥ k` have been processed -/
def DivInv (w n N D k : Nat) (qr : List Nat × List Nat) : Prop :=
  qr.1.length = n ∧ qr.2.length = n ∧ Wf (2 ^ w) qr.1 ∧ Wf (2 ^ w) qr.2 ∧
  val (2 ^ w) qr.1 = (N / 2 ^ k / D) * 2 ^ k ∧ val (2 ^ w) qr.2 = (N / 2 ^ k) % D

theorem sub_length_wf (B : Nat) (hB : 1 < B) (a b : List Nat) (h : a.length = b.length) (ha : Wf B a) (hb : Wf B b) :
    (sub B a b).length = a.length ∧ Wf B (sub B a b) := by
  obtain ⟨_, _, _, hlen, hwf⟩ := subb_spec B hB a b 0 (by omega) h ha hb
  exact ⟨hlen, hwf⟩

theorem divStep_inv (w : Nat) (hw : 0 < w) (numer denom : List Nat) (hl : numer.length = denom.length)
    (hn : Wf (2 ^ w) numer) (hd : Wf (2 ^ w) denom) (hd0 : val (2 ^ w) denom ≠ 0)
    (k : Nat) (hk : k < numer.length * w) (qr : List Nat × List Nat)
    (hinv : DivInv w numer.length (val (2 ^ w) numer) (val (2 ^ w) denom) (k + 1) qr) :
    DivInv w numer.length (val (2 ^ w) numer) (val (2 ^ w) denom) k (divStep w numer denom qr k) := by
  obtain ⟨q, r⟩ := qr
  obtain ⟨hql, hrl, hqw, hrw, hqv, hrv⟩ := hinv
  simp only at hql hrl hqw hrw hqv hrv
  have hB1 : 1 < 2 ^ w := Nat.one_lt_two_pow (by omega)
  have hNlt := val_lt _ _ hn
  rw [divStep_eq]
  have hbit := getBit_eq w hw numer hn k
  have hb1 := getBit_le_one w numer k
  generalize getBit w numer k = b at *
  generalize hN : val (2 ^ w) numer = N at *
  generalize hD : val (2 ^ w) denom = D at *
  have hDpos : 0 < D := by omega
  -- P' = N / 2^k = 2 * P + b
  have hP : N / 2 ^ k = 2 * (N / 2 ^ (k + 1)) + b := by
    rw [Nat.pow_succ, ← Nat.div_div_eq_div_mul]; omega
  generalize hPd : N / 2 ^ (k + 1) = P at *
  have hPle : 2 * P + b ≤ N := by rw [← hP]; exact Nat.div_le_self _ _
  have hmod : P % D ≤ P := Nat.mod_le _ _
  -- the shifted remainder
  have hr2l : (shl1c w r b).length = numer.length := by rw [shl1c_length, hrl]
  have hr2w := shl1c_wf w hw r b hb1 hrw
  have hr2v : val (2 ^ w) (shl1c w r b) = 2 * (P % D) + b := by
    rw [shl1c_val w hw r b hb1 hrw, hrv, hrl]
    exact Nat.mod_eq_of_lt (by omega)
  have hcmp := cmpU_spec (2 ^ w) (shl1c w r b) denom (by rw [hr2l, hl]) hr2w hd
  rw [hD, hr2v] at hcmp
  obtain ⟨hge, hlt⟩ := div_step_nat D P b hDpos hb1
  unfold DivInv
  rw [hP]
  rcases Nat.lt_or_ge (2 * (P % D) + b) D with hc | hc
  · have : (cmpU (shl1c w r b) denom != .lt) = false := by
      rw [hcmp, Nat.compare_eq_lt.2 hc]; rfl
    rw [this]
    obtain ⟨e1, e2⟩ := hlt hc
    refine ⟨hql, hr2l, hqw, hr2w, ?_, ?_⟩
    · show val (2 ^ w) q = _
      rw [hqv, e1, Nat.pow_succ, Nat.mul_comm (2 ^ k) 2, ← Nat.mul_assoc, Nat.mul_comm 2 (P / D)]
    · show val (2 ^ w) (shl1c w r b) = _
      rw [hr2v, e2]
  · have : (cmpU (shl1c w r b) denom != .lt) = true := by
      rw [hcmp]
      have hne := Nat.compare_ne_lt.2 hc
      cases h : compare (2 * (P % D) + b) D
      · exact absurd h hne
      · rfl
      · rfl
    rw [this]
    obtain ⟨e1, e2⟩ := hge hc
    have hclear : (val (2 ^ w) q / 2 ^ k) % 2 = 0 := by
      rw [hqv, Nat.pow_succ, ← Nat.mul_assoc, Nat.mul_right_comm, Nat.mul_div_cancel _ (Nat.two_pow_pos k)]
      omega
    obtain ⟨hsv, hsw⟩ := setBit_spec w hw q hqw k (by rw [hql]; exact hk) hclear
    obtain ⟨hsl, hsubw⟩ := sub_length_wf (2 ^ w) hB1 (shl1c w r b) denom (by rw [hr2l, hl]) hr2w hd
    have hsubv := sub_val (2 ^ w) hB1 (shl1c w r b) denom (by rw [hr2l, hl]) hr2w hd
    refine ⟨by simp only [if_true, setBit_length, hql], by simp only [if_true]; rw [hsl, hr2l], hsw, hsubw, ?_, ?_⟩
    · show val (2 ^ w) (setBit w q k) = _
      rw [hsv, hqv, e1, Nat.pow_succ, Nat.add_mul, Nat.one_mul, Nat.mul_comm (2 ^ k) 2, ← Nat.mul_assoc,
        Nat.mul_comm 2 (P / D)]
    · show val (2 ^ w) (sub (2 ^ w) (shl1c w r b) denom) = _
      rw [hsubv, hr2v, hD, e2, hr2l]
      have hlt' : 2 * (P % D) + b < (2 ^ w) ^ numer.length := by omega
      generalize (2 ^ w) ^ numer.length = M at *
      have : 2 * (P % D) + b + M - D = (2 * (P % D) + b - D) + M := by omega
      rw [this, Nat.add_mod_right, Nat.mod_eq_of_lt (by omega)]

/-! ### the bit loop -/

theorem foldl_range_reverse_inv {α : Type} (f : α → Nat → α) (Inv : Nat → α → Prop) (m : Nat)
    (step : ∀ k a, k < m → Inv (k + 1) a → Inv k (f a k)) (init : α) (h : Inv m init) :
    Inv 0 ((List.range m).reverse.foldl f init) := by
  induction m generalizing init with
  | zero => simpa using h
  | succ m ih =>
    rw [List.range_succ, List.reverse_append, List.reverse_singleton, List.singleton_append, List.foldl_cons]
    exact ih (fun k a hk => step k a (by omega)) _ (step m init (by omega) h)

theorem divModU_nonzero (w : Nat) (numer denom : List Nat) (h : isZero denom = false) :
    divModU w numer denom =
      (true, ((List.range (numer.length * w)).reverse.foldl (divStep w numer denom) (zero numer.length, zero numer.length)).1,
        ((List.range (numer.length * w)).reverse.foldl (divStep w numer denom) (zero numer.length, zero numer.length)).2) := by
  simp only [divModU, h]
  rfl

theorem divModU_inv (w : Nat) (hw : 0 < w) (numer denom : List Nat) (hl : numer.length = denom.length)
    (hn : Wf (2 ^ w) numer) (hd : Wf (2 ^ w) denom) (hd0 : val (2 ^ w) denom ≠ 0) :
    DivInv w numer.length (val (2 ^ w) numer) (val (2 ^ w) denom) 0
      ((List.range (numer.length * w)).reverse.foldl (divStep w numer denom) (zero numer.length, zero numer.length)) := by
  apply foldl_range_reverse_inv (divStep w numer denom)
    (DivInv w numer.length (val (2 ^ w) numer) (val (2 ^ w) denom)) (numer.length * w)
  · intro k a hk hinv
    exact divStep_inv w hw numer denom hl hn hd hd0 k hk a hinv
  · have hlt := val_lt _ _ hn
    rw [← Nat.pow_mul, Nat.mul_comm w] at hlt
    have h0 : val (2 ^ w) numer / 2 ^ (numer.length * w) = 0 := Nat.div_eq_of_lt hlt
    refine ⟨zero_length _, zero_length _, zero_wf _ _ (Nat.two_pow_pos w), zero_wf _ _ (Nat.two_pow_pos w), ?_, ?_⟩
    · show val (2 ^ w) (zero numer.length) = _
      rw [val_zero, h0, Nat.zero_div, Nat.zero_mul]
    · show val (2 ^ w) (zero numer.length) = _
      rw [val_zero, h0, Nat.zero_mod]

/-- ferret_div_mod_u_limbs computes quotient and remainder -/
theorem divModU_spec (w : Nat) (hw : 0 < w) (numer denom : List Nat) (hl : numer.length = denom.length)
    (hn : Wf (2 ^ w) numer) (hd : Wf (2 ^ w) denom) (hd0 : val (2 ^ w) denom ≠ 0) :
    let r := divModU w numer denom
    r.1 = true ∧ val (2 ^ w) r.2.1 = val (2 ^ w) numer / val (2 ^ w) denom
      ∧ val (2 ^ w) r.2.2 = val (2 ^ w) numer % val (2 ^ w) denom := by
  intro r
  have hz : isZero denom = false := (isZero_eq_false_iff (2 ^ w) (Nat.two_pow_pos w) denom).2 hd0
  have hr : r = _ := divModU_nonzero w numer denom hz
  obtain ⟨_, _, _, _, hq, hrem⟩ := divModU_inv w hw numer denom hl hn hd hd0
  rw [hr]
  refine ⟨rfl, ?_, ?_⟩
  · simpa using hq
  · simpa using hrem

/-- length and well-formedness of the results of ferret_div_mod_u_limbs -/
theorem divModU_wf (w : Nat) (hw : 0 < w) (numer denom : List Nat) (hl : numer.length = denom.length)
    (hn : Wf (2 ^ w) numer) (hd : Wf (2 ^ w) denom) :
    let r := divModU w numer denom
    r.2.1.length = numer.length ∧ r.2.2.length = numer.length ∧ Wf (2 ^ w) r.2.1 ∧ Wf (2 ^ w) r.2.2 := by
  intro r
  cases hz : isZero denom with
  | true =>
    have hr : r = (false, zero numer.length, zero numer.length) := by
      show divModU w numer denom = _
      simp only [divModU, hz, if_true]
    rw [hr]
    exact ⟨zero_length _, zero_length _, zero_wf _ _ (Nat.two_pow_pos w), zero_wf _ _ (Nat.two_pow_pos w)⟩
  | false =>
    have hd0 := (isZero_eq_false_iff (2 ^ w) (Nat.two_pow_pos w) denom).1 hz
    have hr : r = _ := divModU_nonzero w numer denom hz
    obtain ⟨h1, h2, h3, h4, _, _⟩ := divModU_inv w hw numer denom hl hn hd hd0
    rw [hr]
    exact ⟨h1, h2, h3, h4⟩

/-- zero divisor: ok = false and both outputs zero -/
theorem divModU_zero (w : Nat) (numer denom : List Nat) (hd0 : val (2 ^ w) denom = 0) :
    divModU w numer denom = (false, zero numer.length, zero numer.length) := by
  have hz : isZero denom = true := (isZero_iff (2 ^ w) (Nat.two_pow_pos w) denom).2 hd0
  simp only [divModU, hz, if_true]

theorem divUw_val (w : Nat) (hw : 0 < w) (a b : List Nat) (hl : a.length = b.length)
    (ha : Wf (2 ^ w) a) (hb : Wf (2 ^ w) b) (hb0 : val (2 ^ w) b ≠ 0) :
    val (2 ^ w) (divUw w a b) = val (2 ^ w) a / val (2 ^ w) b :=
  (divModU_spec w hw a b hl ha hb hb0).2.1

theorem modUw_val (w : Nat) (hw : 0 < w) (a b : List Nat) (hl : a.length = b.length)
    (ha : Wf (2 ^ w) a) (hb : Wf (2 ^ w) b) (hb0 : val (2 ^ w) b ≠ 0) :
    val (2 ^ w) (modUw w a b) = val (2 ^ w) a % val (2 ^ w) b :=
  (divModU_spec w hw a b hl ha hb hb0).2.2

/-- division by zero yields zero (both quotient and remainder) -/
theorem divUw_zero (w : Nat) (a b : List Nat) (hb0 : val (2 ^ w) b = 0) : divUw w a b = zero a.length := by
  unfold divUw; rw [divModU_zero w a b hb0]

theorem modUw_zero (w : Nat) (a b : List Nat) (hb0 : val (2 ^ w) b = 0) : modUw w a b = zero a.length := by
  unfold modUw; rw [divModU_zero w a b hb0]
