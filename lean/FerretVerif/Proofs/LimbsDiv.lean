/-
  Proofs/LimbsDiv.lean — bit-serial long division (ferret_div_mod_u_limbs), signed wrappers, exponentiation.
-/
import FerretVerif.Proofs.LimbsBase

namespace FerretVerif.Limbs

/-! ### one-bit left shift with carry chain -/

theorem two_pow_split (w : Nat) (hw : 0 < w) : ∃ H, 0 < H ∧ 2 ^ w = 2 * H ∧ 2 ^ (w - 1) = H := by
  refine ⟨2 ^ (w - 1), Nat.two_pow_pos _, ?_, rfl⟩
  rw [Nat.mul_comm, ← Nat.pow_succ]; congr 1; omega

theorem shl1c_length (w : Nat) (r : List Nat) (c : Nat) : (shl1c w r c).length = r.length := by
  induction r generalizing c with
  | nil => simp [shl1c]
  | cons x xs ih => simp [shl1c, ih]

/-- one limb of the shift: new limb and carry-out -/
theorem shl1_limb (H x c : Nat) (hH : 0 < H) (hx : x < 2 * H) (hc : c ≤ 1) :
    (x * 2) % (2 * H) ||| c = 2 * (x % H) + c ∧ 2 * (x % H) + c < 2 * H ∧ x / H ≤ 1
      ∧ 2 * x = 2 * (x % H) + 2 * H * (x / H) := by
  have h1 : (x * 2) % (2 * H) = 2 * (x % H) := by rw [Nat.mul_comm x 2, Nat.mul_mod_mul_left]
  have h2 : x % H < H := Nat.mod_lt _ hH
  have h3 : x / H < 2 := Nat.div_lt_of_lt_mul (by omega)
  have h4 := Nat.div_add_mod x H
  refine ⟨?_, by omega, by omega, ?_⟩
  · rw [h1, lor_even (by omega) hc]
  · rw [Nat.mul_assoc]; omega

theorem shl1c_wf (w : Nat) (hw : 0 < w) (r : List Nat) (c : Nat) (hc : c ≤ 1) (hr : Wf (2 ^ w) r) :
    Wf (2 ^ w) (shl1c w r c) := by
  obtain ⟨H, hH, hB, hH'⟩ := two_pow_split w hw
  induction r generalizing c with
  | nil => simp [shl1c, Wf]
  | cons x xs ih =>
    have hx : x < 2 * H := hB ▸ hr.head
    obtain ⟨e1, e2, e3, _⟩ := shl1_limb H x c hH hx hc
    simp only [shl1c]
    refine Wf.cons ?_ (ih _ (by rw [hH']; exact e3) hr.tail)
    rw [hB, e1]; exact e2

theorem shl1c_val (w : Nat) (hw : 0 < w) (r : List Nat) (c : Nat) (hc : c ≤ 1) (hr : Wf (2 ^ w) r) :
    val (2 ^ w) (shl1c w r c) = (2 * val (2 ^ w) r + c) % (2 ^ w) ^ r.length := by
  obtain ⟨H, hH, hB, hH'⟩ := two_pow_split w hw
  induction r generalizing c with
  | nil => simp [shl1c, val, Nat.mod_one]
  | cons x xs ih =>
    have hx : x < 2 * H := hB ▸ hr.head
    obtain ⟨e1, e2, e3, e4⟩ := shl1_limb H x c hH hx hc
    simp only [shl1c, val_cons, List.length_cons]
    rw [ih _ (by rw [hH']; exact e3) hr.tail, hH', Nat.pow_succ, Nat.mul_comm ((2 ^ w) ^ xs.length)]
    rw [hB] at *
    rw [e1]
    generalize (2 * H) ^ xs.length = M
    have key : 2 * (x + 2 * H * val (2 * H) xs) + c
        = (2 * (x % H) + c) + 2 * H * (2 * val (2 * H) xs + x / H) := by
      rw [Nat.mul_add, Nat.mul_add (2 * H), Nat.mul_left_comm 2 (2 * H)]
      omega
    rw [key, mod_mul_split e2]

/-! ### bit access -/

/-- `(X % 2^w) / 2^j % 2 = X / 2^j % 2` for `j < w` -/
theorem bit_of_mod (X w j : Nat) (hj : j < w) : (X % 2 ^ w) / 2 ^ j % 2 = X / 2 ^ j % 2 := by
  have e : 2 ^ w = 2 ^ j * 2 ^ (w - j) := by rw [← Nat.pow_add]; congr 1; omega
  rw [e, Nat.mod_mul_right_div_self]
  apply Nat.mod_mod_of_dvd
  have : 2 ^ (w - j) = 2 * 2 ^ (w - j - 1) := by
    rw [Nat.mul_comm, ← Nat.pow_succ]; congr 1; omega
  exact ⟨_, this⟩

theorem pow_bit_split (w bit : Nat) : 2 ^ bit = (2 ^ w) ^ (bit / w) * 2 ^ (bit % w) := by
  rw [← Nat.pow_mul, ← Nat.pow_add, Nat.div_add_mod]

/-- ferret_get_bit_limbs reads bit `bit` of the value -/
theorem getBit_eq (w : Nat) (hw : 0 < w) (v : List Nat) (hv : Wf (2 ^ w) v) (bit : Nat) :
    getBit w v bit = (val (2 ^ w) v / 2 ^ bit) % 2 := by
  unfold getBit
  rw [limb_eq (2 ^ w) (Nat.two_pow_pos w) v hv, bit_of_mod _ _ _ (Nat.mod_lt _ hw),
    Nat.div_div_eq_div_mul, ← pow_bit_split]

theorem getBit_le_one (w : Nat) (v : List Nat) (bit : Nat) : getBit w v bit ≤ 1 := by
  unfold getBit; omega

/-- setting a clear bit of a limb adds the power of two and stays below the base -/
theorem setBit_limb (x w j : Nat) (hj : j < w) (hx : x < 2 ^ w) (hclear : x / 2 ^ j % 2 = 0) :
    x ||| 2 ^ j = x + 2 ^ j ∧ x + 2 ^ j < 2 ^ w := by
  have hlt : x ||| 2 ^ j < 2 ^ w := Nat.or_lt_two_pow hx (Nat.pow_lt_pow_right (by omega) hj)
  have hms : x % 2 ^ (j + 1) = x % 2 ^ j := by
    rw [Nat.mod_pow_succ, hclear, Nat.mul_zero, Nat.add_zero]
  have hdm := Nat.div_add_mod x (2 ^ (j + 1))
  rw [hms] at hdm
  have hr : x % 2 ^ j < 2 ^ j := Nat.mod_lt _ (Nat.two_pow_pos j)
  have hp : 2 ^ (j + 1) = 2 * 2 ^ j := by rw [Nat.pow_succ, Nat.mul_comm]
  have e : x ||| 2 ^ j = x + 2 ^ j := by
    have aux : ∀ q r, r < 2 ^ j → (2 ^ (j + 1) * q + r) ||| 2 ^ j = 2 ^ (j + 1) * q + r + 2 ^ j := by
      intro q r hr
      have hr1 : r < 2 ^ (j + 1) := by omega
      have hr2 : 2 ^ j + r < 2 ^ (j + 1) := by omega
      calc (2 ^ (j + 1) * q + r) ||| 2 ^ j
          = (2 ^ (j + 1) * q ||| r) ||| 2 ^ j := by rw [Nat.two_pow_add_eq_or_of_lt hr1]
        _ = 2 ^ (j + 1) * q ||| (r ||| 2 ^ j) := Nat.or_assoc ..
        _ = 2 ^ (j + 1) * q ||| (2 ^ j + r) := by rw [lor_eq_add' (k := j) (Nat.mod_self _) hr]
        _ = 2 ^ (j + 1) * q + (2 ^ j + r) := (Nat.two_pow_add_eq_or_of_lt hr2 _).symm
        _ = 2 ^ (j + 1) * q + r + 2 ^ j := by omega
    have := aux (x / 2 ^ (j + 1)) _ hr
    rw [hdm] at this
    exact this
  exact ⟨e, e ▸ hlt⟩

theorem setBit_length (w : Nat) (v : List Nat) (bit : Nat) : (setBit w v bit).length = v.length := by
  simp [setBit]

/-- ferret_set_bit_limbs on a clear bit adds `2^bit` to the value -/
theorem setBit_spec (w : Nat) (hw : 0 < w) (v : List Nat) (hv : Wf (2 ^ w) v) (bit : Nat)
    (hbit : bit < v.length * w) (hclear : (val (2 ^ w) v / 2 ^ bit) % 2 = 0) :
    val (2 ^ w) (setBit w v bit) = val (2 ^ w) v + 2 ^ bit ∧ Wf (2 ^ w) (setBit w v bit) := by
  have hg := getBit_eq w hw v hv bit
  rw [hclear] at hg
  unfold getBit at hg
  have hi : bit / w < v.length := Nat.div_lt_of_lt_mul (by rw [Nat.mul_comm]; exact hbit)
  obtain ⟨e1, e2⟩ := setBit_limb (limb v (bit / w)) w (bit % w) (Nat.mod_lt _ hw)
    (limb_lt _ (Nat.two_pow_pos w) v hv _) hg
  unfold setBit
  refine ⟨?_, wf_set _ _ _ _ hv (e1 ▸ e2)⟩
  have := val_set (2 ^ w) v (bit / w) (limb v (bit / w) ||| 2 ^ (bit % w)) hi
  rw [e1, Nat.mul_add, ← pow_bit_split] at this
  rw [e1]
  omega

/-! ### one step of the restoring division -/

/-- the "shift then or-in the numerator bit" of the C loop is a shift with carry-in -/
theorem shl1c_set_low (w : Nat) (r : List Nat) (b : Nat) (hb : b ≤ 1) :
    (if b = 1 then (shl1c w r 0).set 0 (limb (shl1c w r 0) 0 ||| 1) else shl1c w r 0) = shl1c w r b := by
  rcases Nat.eq_zero_or_pos b with h0 | h1
  · subst h0; simp
  · have : b = 1 := by omega
    subst this
    cases r with
    | nil => simp [shl1c]
    | cons x xs => simp [shl1c, limb_cons_zero]

theorem divStep_eq (w : Nat) (numer denom q r : List Nat) (k : Nat) :
    divStep w numer denom (q, r) k =
      if cmpU (shl1c w r (getBit w numer k)) denom != .lt
      then (setBit w q k, sub (2 ^ w) (shl1c w r (getBit w numer k)) denom)
      else (q, shl1c w r (getBit w numer k)) := by
  simp only [divStep]
  rw [shl1c_set_low w r _ (getBit_le_one w numer k)]

/-- arithmetic of one restoring-division step -/
theorem div_step_nat (D P b : Nat) (hD : 0 < D) (hb : b ≤ 1) :
    (D ≤ 2 * (P % D) + b → (2 * P + b) / D = 2 * (P / D) + 1 ∧ (2 * P + b) % D = 2 * (P % D) + b - D) ∧
    (2 * (P % D) + b < D → (2 * P + b) / D = 2 * (P / D) ∧ (2 * P + b) % D = 2 * (P % D) + b) := by
  have h1 := Nat.div_add_mod P D
  have h2 : P % D < D := Nat.mod_lt _ hD
  constructor
  · intro h
    rw [Nat.div_mod_unique hD]
    refine ⟨?_, by omega⟩
    rw [Nat.mul_add, Nat.mul_one, Nat.mul_left_comm]
    omega
  · intro h
    rw [Nat.div_mod_unique hD]
    refine ⟨?_, h⟩
    rw [Nat.mul_left_comm]
    omega

/-- loop invariant of ferret_div_mod_u_limbs after the bits `≥ k` have been processed -/
def DivInv (w n N D k : Nat) (qr : List Nat × List Nat) : Prop :=
  qr.1.length = n ∧ qr.2.length = n ∧ Wf (2 ^ w) qr.1 ∧ Wf (2 ^ w) qr.2 ∧
  val (2 ^ w) qr.1 = (N / 2 ^ k / D) * 2 ^ k ∧ val (2 ^ w) qr.2 = (N / 2 ^ k) % D

theorem sub_length_wf (B : Nat) (hB : 1 < B) (a b : List Nat) (h : a.length = b.length) (ha : Wf B a) (hb : Wf B b) :
    (sub B a b).length = a.length ∧ Wf B (sub B a b) := by
  obtain ⟨_, _, _, hlen, hwf⟩ := subb_spec B hB a b 0 (by omega) h ha hb
  exact ⟨hlen, hwf⟩

theorem divStep_inv (w : Nat) (hw : 0 < w) (numer denom : List Nat) (hl : numer.length = denom.length)
    (hn : Wf (2 ^ w) numer) (hd : Wf (2 ^ w) denom) (hd0 : val (2 ^ w) denom ≠ 0)
    (k : Nat) (hk : k < numer.length * w) (qr : List Nat × List Nat)
    (hinv : DivInv w numer.length (val (2 ^ w) numer) (val (2 ^ w) denom) (k + 1) qr) :
    DivInv w numer.length (val (2 ^ w) numer) (val (2 ^ w) denom) k (divStep w numer denom qr k) := by
  obtain ⟨q, r⟩ := qr
  obtain ⟨hql, hrl, hqw, hrw, hqv, hrv⟩ := hinv
  simp only at hql hrl hqw hrw hqv hrv
  have hB1 : 1 < 2 ^ w := Nat.one_lt_two_pow (by omega)
  have hNlt := val_lt _ _ hn
  rw [divStep_eq]
  have hbit := getBit_eq w hw numer hn k
  have hb1 := getBit_le_one w numer k
  generalize getBit w numer k = b at *
  generalize hN : val (2 ^ w) numer = N at *
  generalize hD : val (2 ^ w) denom = D at *
  have hDpos : 0 < D := by omega
  -- P' = N / 2^k = 2 * P + b
  have hP : N / 2 ^ k = 2 * (N / 2 ^ (k + 1)) + b := by
    rw [Nat.pow_succ, ← Nat.div_div_eq_div_mul]; omega
  generalize hPd : N / 2 ^ (k + 1) = P at *
  have hPle : 2 * P + b ≤ N := by rw [← hP]; exact Nat.div_le_self _ _
  have hmod : P % D ≤ P := Nat.mod_le _ _
  -- the shifted remainder
  have hr2l : (shl1c w r b).length = numer.length := by rw [shl1c_length, hrl]
  have hr2w := shl1c_wf w hw r b hb1 hrw
  have hr2v : val (2 ^ w) (shl1c w r b) = 2 * (P % D) + b := by
    rw [shl1c_val w hw r b hb1 hrw, hrv, hrl]
    exact Nat.mod_eq_of_lt (by omega)
  have hcmp := cmpU_spec (2 ^ w) (shl1c w r b) denom (by rw [hr2l, hl]) hr2w hd
  rw [hD, hr2v] at hcmp
  obtain ⟨hge, hlt⟩ := div_step_nat D P b hDpos hb1
  unfold DivInv
  rw [hP]
  rcases Nat.lt_or_ge (2 * (P % D) + b) D with hc | hc
  · have : (cmpU (shl1c w r b) denom != .lt) = false := by
      rw [hcmp, Nat.compare_eq_lt.2 hc]; rfl
    rw [this]
    obtain ⟨e1, e2⟩ := hlt hc
    refine ⟨hql, hr2l, hqw, hr2w, ?_, ?_⟩
    · show val (2 ^ w) q = _
      rw [hqv, e1, Nat.pow_succ, Nat.mul_comm (2 ^ k) 2, ← Nat.mul_assoc, Nat.mul_comm 2 (P / D)]
    · show val (2 ^ w) (shl1c w r b) = _
      rw [hr2v, e2]
  · have : (cmpU (shl1c w r b) denom != .lt) = true := by
      rw [hcmp]
      have hne := Nat.compare_ne_lt.2 hc
      cases h : compare (2 * (P % D) + b) D
      · exact absurd h hne
      · rfl
      · rfl
    rw [this]
    obtain ⟨e1, e2⟩ := hge hc
    have hclear : (val (2 ^ w) q / 2 ^ k) % 2 = 0 := by
      rw [hqv, Nat.pow_succ, ← Nat.mul_assoc, Nat.mul_right_comm, Nat.mul_div_cancel _ (Nat.two_pow_pos k)]
      omega
    obtain ⟨hsv, hsw⟩ := setBit_spec w hw q hqw k (by rw [hql]; exact hk) hclear
    obtain ⟨hsl, hsubw⟩ := sub_length_wf (2 ^ w) hB1 (shl1c w r b) denom (by rw [hr2l, hl]) hr2w hd
    have hsubv := sub_val (2 ^ w) hB1 (shl1c w r b) denom (by rw [hr2l, hl]) hr2w hd
    refine ⟨by simp only [if_true, setBit_length, hql], by simp only [if_true]; rw [hsl, hr2l], hsw, hsubw, ?_, ?_⟩
    · show val (2 ^ w) (setBit w q k) = _
      rw [hsv, hqv, e1, Nat.pow_succ, Nat.add_mul, Nat.one_mul, Nat.mul_comm (2 ^ k) 2, ← Nat.mul_assoc,
        Nat.mul_comm 2 (P / D)]
    · show val (2 ^ w) (sub (2 ^ w) (shl1c w r b) denom) = _
      rw [hsubv, hr2v, hD, e2, hr2l]
      have hlt' : 2 * (P % D) + b < (2 ^ w) ^ numer.length := by omega
      generalize (2 ^ w) ^ numer.length = M at *
      have : 2 * (P % D) + b + M - D = (2 * (P % D) + b - D) + M := by omega
      rw [this, Nat.add_mod_right, Nat.mod_eq_of_lt (by omega)]

/-! ### the bit loop -/

theorem foldl_range_reverse_inv {α : Type} (f : α → Nat → α) (Inv : Nat → α → Prop) (m : Nat)
    (step : ∀ k a, k < m → Inv (k + 1) a → Inv k (f a k)) (init : α) (h : Inv m init) :
    Inv 0 ((List.range m).reverse.foldl f init) := by
  induction m generalizing init with
  | zero => simpa using h
  | succ m ih =>
    rw [List.range_succ, List.reverse_append, List.reverse_singleton, List.singleton_append, List.foldl_cons]
    exact ih (fun k a hk => step k a (by omega)) _ (step m init (by omega) h)

theorem divModU_nonzero (w : Nat) (numer denom : List Nat) (h : isZero denom = false) :
    divModU w numer denom =
      (true, ((List.range (numer.length * w)).reverse.foldl (divStep w numer denom) (zero numer.length, zero numer.length)).1,
        ((List.range (numer.length * w)).reverse.foldl (divStep w numer denom) (zero numer.length, zero numer.length)).2) := by
  simp only [divModU, h]
  rfl

theorem divModU_inv (w : Nat) (hw : 0 < w) (numer denom : List Nat) (hl : numer.length = denom.length)
    (hn : Wf (2 ^ w) numer) (hd : Wf (2 ^ w) denom) (hd0 : val (2 ^ w) denom ≠ 0) :
    DivInv w numer.length (val (2 ^ w) numer) (val (2 ^ w) denom) 0
      ((List.range (numer.length * w)).reverse.foldl (divStep w numer denom) (zero numer.length, zero numer.length)) := by
  apply foldl_range_reverse_inv (divStep w numer denom)
    (DivInv w numer.length (val (2 ^ w) numer) (val (2 ^ w) denom)) (numer.length * w)
  · intro k a hk hinv
    exact divStep_inv w hw numer denom hl hn hd hd0 k hk a hinv
  · have hlt := val_lt _ _ hn
    rw [← Nat.pow_mul, Nat.mul_comm w] at hlt
    have h0 : val (2 ^ w) numer / 2 ^ (numer.length * w) = 0 := Nat.div_eq_of_lt hlt
    refine ⟨zero_length _, zero_length _, zero_wf _ _ (Nat.two_pow_pos w), zero_wf _ _ (Nat.two_pow_pos w), ?_, ?_⟩
    · show val (2 ^ w) (zero numer.length) = _
      rw [val_zero, h0, Nat.zero_div, Nat.zero_mul]
    · show val (2 ^ w) (zero numer.length) = _
      rw [val_zero, h0, Nat.zero_mod]

/-- ferret_div_mod_u_limbs computes quotient and remainder -/
theorem divModU_spec (w : Nat) (hw : 0 < w) (numer denom : List Nat) (hl : numer.length = denom.length)
    (hn : Wf (2 ^ w) numer) (hd : Wf (2 ^ w) denom) (hd0 : val (2 ^ w) denom ≠ 0) :
    let r := divModU w numer denom
    r.1 = true ∧ val (2 ^ w) r.2.1 = val (2 ^ w) numer / val (2 ^ w) denom
      ∧ val (2 ^ w) r.2.2 = val (2 ^ w) numer % val (2 ^ w) denom := by
  intro r
  have hz : isZero denom = false := (isZero_eq_false_iff (2 ^ w) (Nat.two_pow_pos w) denom).2 hd0
  have hr : r = _ := divModU_nonzero w numer denom hz
  obtain ⟨_, _, _, _, hq, hrem⟩ := divModU_inv w hw numer denom hl hn hd hd0
  rw [hr]
  refine ⟨rfl, ?_, ?_⟩
  · simpa using hq
  · simpa using hrem

/-- length and well-formedness of the results of ferret_div_mod_u_limbs -/
theorem divModU_wf (w : Nat) (hw : 0 < w) (numer denom : List Nat) (hl : numer.length = denom.length)
    (hn : Wf (2 ^ w) numer) (hd : Wf (2 ^ w) denom) :
    let r := divModU w numer denom
    r.2.1.length = numer.length ∧ r.2.2.length = numer.length ∧ Wf (2 ^ w) r.2.1 ∧ Wf (2 ^ w) r.2.2 := by
  intro r
  cases hz : isZero denom with
  | true =>
    have hr : r = (false, zero numer.length, zero numer.length) := by
      show divModU w numer denom = _
      simp only [divModU, hz, if_true]
    rw [hr]
    exact ⟨zero_length _, zero_length _, zero_wf _ _ (Nat.two_pow_pos w), zero_wf _ _ (Nat.two_pow_pos w)⟩
  | false =>
    have hd0 := (isZero_eq_false_iff (2 ^ w) (Nat.two_pow_pos w) denom).1 hz
    have hr : r = _ := divModU_nonzero w numer denom hz
    obtain ⟨h1, h2, h3, h4, _, _⟩ := divModU_inv w hw numer denom hl hn hd hd0
    rw [hr]
    exact ⟨h1, h2, h3, h4⟩

/-- zero divisor: ok = false and both outputs zero -/
theorem divModU_zero (w : Nat) (numer denom : List Nat) (hd0 : val (2 ^ w) denom = 0) :
    divModU w numer denom = (false, zero numer.length, zero numer.length) := by
  have hz : isZero denom = true := (isZero_iff (2 ^ w) (Nat.two_pow_pos w) denom).2 hd0
  simp only [divModU, hz, if_true]

theorem divUw_val (w : Nat) (hw : 0 < w) (a b : List Nat) (hl : a.length = b.length)
    (ha : Wf (2 ^ w) a) (hb : Wf (2 ^ w) b) (hb0 : val (2 ^ w) b ≠ 0) :
    val (2 ^ w) (divUw w a b) = val (2 ^ w) a / val (2 ^ w) b :=
  (divModU_spec w hw a b hl ha hb hb0).2.1

theorem modUw_val (w : Nat) (hw : 0 < w) (a b : List Nat) (hl : a.length = b.length)
    (ha : Wf (2 ^ w) a) (hb : Wf (2 ^ w) b) (hb0 : val (2 ^ w) b ≠ 0) :
    val (2 ^ w) (modUw w a b) = val (2 ^ w) a % val (2 ^ w) b :=
  (divModU_spec w hw a b hl ha hb hb0).2.2

/-- division by zero yields zero (both quotient and remainder) -/
theorem divUw_zero (w : Nat) (a b : List Nat) (hb0 : val (2 ^ w) b = 0) : divUw w a b = zero a.length := by
  unfold divUw; rw [divModU_zero w a b hb0]

theorem modUw_zero (w : Nat) (a b : List Nat) (hb0 : val (2 ^ w) b = 0) : modUw w a b = zero a.length := by
  unfold modUw; rw [divModU_zero w a b hb0]

/-! ### signed interpretation: negation, magnitude, comparison -/

theorem neg_length_wf (B : Nat) (hB : 1 < B) (v : List Nat) (hv : Wf B v) :
    (neg B v).length = v.length ∧ Wf B (neg B v) := by
  obtain ⟨_, _, _, hlen, hwf⟩ := negc_spec B hB v 1 (by omega) hv
  exact ⟨hlen, hwf⟩

/-- negation, as a congruence on integers -/
theorem neg_val_int (B : Nat) (hB : 1 < B) (v : List Nat) (hv : Wf B v) :
    (val B (neg B v) : Int) = (-(val B v : Int)) % ((B ^ v.length : Nat) : Int) := by
  have hlt := val_lt B v hv
  rw [neg_val B hB v hv, Int.natCast_emod, Int.natCast_sub (by omega)]
  generalize B ^ v.length = M at *
  have : ((M : Nat) : Int) - (val B v : Int) = -(val B v : Int) + (M : Int) * 1 := by omega
  rw [this, Int.add_mul_emod_self_left]

theorem toInt_lt_zero (B : Nat) (l : List Nat) (h : Wf B l) (hneg : isNeg B l = true) :
    toInt B l < 0 := by
  have hlt := val_lt _ l h
  rw [toInt_of_neg _ _ hneg]
  omega

theorem toInt_nonneg (B : Nat) (l : List Nat) (hneg : isNeg B l = false) :
    0 ≤ toInt B l := by
  rw [toInt_of_nonneg _ _ hneg]
  omega

/-- bounds of the two's complement value: `-M/2 ≤ toInt < M/2` -/
theorem toInt_bounds (w : Nat) (hw : 0 < w) (l : List Nat) (h : Wf (2 ^ w) l) :
    -(((2 ^ w) ^ l.length : Nat) : Int) ≤ 2 * toInt (2 ^ w) l ∧ 2 * toInt (2 ^ w) l < (((2 ^ w) ^ l.length : Nat) : Int) := by
  have hlt := val_lt _ l h
  cases hneg : isNeg (2 ^ w) l with
  | true =>
    have := (isNeg_iff_pow w hw l h).1 hneg
    rw [toInt_of_neg _ _ hneg]
    omega
  | false =>
    have : ¬ ((2 ^ w) ^ l.length ≤ 2 * val (2 ^ w) l) := by
      intro hc
      have := (isNeg_iff_pow w hw l h).2 hc
      rw [hneg] at this
      exact Bool.noConfusion this
    rw [toInt_of_nonneg _ _ hneg]
    omega

/-- ferret_abs_limbs: the magnitude is `|toInt v|` (which for the minimum value is `M/2`, still representable unsigned) -/
theorem abs_spec (w : Nat) (hw : 0 < w) (v : List Nat) (hv : Wf (2 ^ w) v) :
    (abs (2 ^ w) v).1.length = v.length ∧ Wf (2 ^ w) (abs (2 ^ w) v).1 ∧ (abs (2 ^ w) v).2 = isNeg (2 ^ w) v ∧
    (val (2 ^ w) (abs (2 ^ w) v).1 : Int) = if isNeg (2 ^ w) v then - toInt (2 ^ w) v else toInt (2 ^ w) v := by
  have hB1 : 1 < 2 ^ w := Nat.one_lt_two_pow (by omega)
  have hlt := val_lt _ v hv
  cases hneg : isNeg (2 ^ w) v with
  | true =>
    obtain ⟨hl, hwf⟩ := neg_length_wf (2 ^ w) hB1 v hv
    have hge := (isNeg_iff_pow w hw v hv).1 hneg
    have hnv := neg_val (2 ^ w) hB1 v hv
    rw [Nat.mod_eq_of_lt (by omega)] at hnv
    simp only [abs, hneg, if_true]
    refine ⟨hl, hwf, trivial, ?_⟩
    rw [toInt_of_neg _ _ hneg, hnv]
    omega
  | false =>
    simp only [abs, hneg]
    refine ⟨rfl, hv, rfl, ?_⟩
    rw [toInt_of_nonneg _ _ hneg]
    rfl

/-- ferret_cmp_s_limbs decides the order of the two's complement values -/
theorem cmpS_spec (B : Nat) (a b : List Nat) (hl : a.length = b.length)
    (ha : Wf (B) a) (hb : Wf (B) b) :
    cmpS (B) a b = compare (toInt (B) a) (toInt (B) b) := by
  have hu := cmpU_spec (B) a b hl ha hb
  unfold cmpS
  cases hna : isNeg (B) a <;> cases hnb : isNeg (B) b
  · -- both non-negative
    simp only [bne_self_eq_false, Bool.false_eq_true, if_false]
    rw [hu, toInt_of_nonneg _ _ hna, toInt_of_nonneg _ _ hnb]
    rcases Nat.lt_trichotomy (val (B) a) (val (B) b) with h | h | h
    · rw [Nat.compare_eq_lt.2 h, Int.compare_eq_lt.2 (by omega)]
    · rw [Nat.compare_eq_eq.2 h, Int.compare_eq_eq.2 (by omega)]
    · rw [Nat.compare_eq_gt.2 h, Int.compare_eq_gt.2 (by omega)]
  · have h1 := toInt_nonneg B a hna
    have h2 := toInt_lt_zero B b hb hnb
    have : (false != true) = true := rfl
    simp only [this, if_true, Bool.false_eq_true, if_false]
    exact (Int.compare_eq_gt.2 (by omega)).symm
  · have h1 := toInt_lt_zero B a ha hna
    have h2 := toInt_nonneg B b hnb
    have : (true != false) = true := rfl
    simp only [this, if_true]
    exact (Int.compare_eq_lt.2 (by omega)).symm
  · simp only [bne_self_eq_false, Bool.false_eq_true, if_false]
    rw [hu, toInt_of_neg _ _ hna, toInt_of_neg _ _ hnb, hl]
    rcases Nat.lt_trichotomy (val (B) a) (val (B) b) with h | h | h
    · rw [Nat.compare_eq_lt.2 h, Int.compare_eq_lt.2 (by omega)]
    · rw [Nat.compare_eq_eq.2 h, Int.compare_eq_eq.2 (by omega)]
    · rw [Nat.compare_eq_gt.2 h, Int.compare_eq_gt.2 (by omega)]

/-! ### signed multiply / divide / modulo wrappers -/

theorem neg_emod_emod (X M : Int) : (-(X % M)) % M = (-X) % M := by
  have := Int.sub_emod 0 X M
  rw [Int.zero_emod, Int.zero_sub, Int.zero_sub] at this
  exact this.symm

theorem nat_eq_toNat_of_cast_eq {v : Nat} {X : Int} (h : (v : Int) = X) : v = X.toNat := by
  rw [← h, Int.toNat_natCast]

theorem mulS_eq (B : Nat) (a b : List Nat) :
    mulS B a b = if (abs B a).2 != (abs B b).2 then neg B (mul B (abs B a).1 (abs B b).1)
      else mul B (abs B a).1 (abs B b).1 := rfl

theorem mulLoop_wf (B : Nat) (hB : 0 < B) (as b out : List Nat) (h : as.length = out.length)
    (hb : out.length ≤ b.length) : Wf B (mulLoop B as b out) := by
  induction as generalizing out with
  | nil =>
    cases out with
    | nil => simp [mulLoop, Wf]
    | cons o os => simp at h
  | cons x xs ih =>
    cases out with
    | nil => simp at h
    | cons o os =>
      have hl := mulRow_length B x b (o :: os) 0 hb
      have hw := mulRow_wf B x hB b (o :: os) 0
      unfold mulLoop
      match hr : mulRow B x b (o :: os) 0 with
      | [] => rw [hr] at hl; simp at hl
      | r :: rs =>
        rw [hr] at hl hw
        have hrs : rs.length = os.length := by simpa using hl
        have h2 : xs.length = rs.length := by simp at h; omega
        have h3 : rs.length ≤ b.length := by simp at hb; omega
        exact Wf.cons hw.head (ih rs h2 h3)

theorem mul_wf (B : Nat) (hB : 0 < B) (a b : List Nat) (h : a.length = b.length) : Wf B (mul B a b) := by
  unfold mul
  exact mulLoop_wf B hB a b (zero a.length) (by rw [zero_length]) (by rw [zero_length]; omega)

/-- ferret_iN_mul: two's complement product -/
theorem mulS_val_int (w : Nat) (hw : 0 < w) (a b : List Nat) (hl : a.length = b.length)
    (ha : Wf (2 ^ w) a) (hb : Wf (2 ^ w) b) :
    (val (2 ^ w) (mulS (2 ^ w) a b) : Int)
      = (toInt (2 ^ w) a * toInt (2 ^ w) b) % (((2 ^ w) ^ a.length : Nat) : Int) := by
  have hB1 : 1 < 2 ^ w := Nat.one_lt_two_pow (by omega)
  have hB0 : 0 < 2 ^ w := by omega
  obtain ⟨hal, haw, han, hav⟩ := abs_spec w hw a ha
  obtain ⟨hbl, hbw, hbn, hbv⟩ := abs_spec w hw b hb
  have hml := mul_length (2 ^ w) _ _ (show (abs (2 ^ w) a).1.length = (abs (2 ^ w) b).1.length by omega)
  have hmw := mul_wf (2 ^ w) hB0 _ _ (show (abs (2 ^ w) a).1.length = (abs (2 ^ w) b).1.length by omega)
  have hmv := mul_val (2 ^ w) hB0 _ _ (show (abs (2 ^ w) a).1.length = (abs (2 ^ w) b).1.length by omega)
  have hmvi : (val (2 ^ w) (mul (2 ^ w) (abs (2 ^ w) a).1 (abs (2 ^ w) b).1) : Int)
      = ((val (2 ^ w) (abs (2 ^ w) a).1 : Int) * (val (2 ^ w) (abs (2 ^ w) b).1 : Int))
          % (((2 ^ w) ^ a.length : Nat) : Int) := by
    rw [hmv, Int.natCast_emod, Int.natCast_mul, hal]
  have hnv := neg_val_int (2 ^ w) hB1 _ hmw
  rw [hml, hal] at hnv
  rw [mulS_eq, han, hbn]
  rw [hav, hbv] at hmvi
  cases hna : isNeg (2 ^ w) a <;> cases hnb : isNeg (2 ^ w) b <;>
    simp only [hna, hnb, if_true, if_false, Bool.false_eq_true] at hmvi
  · simpa using hmvi
  · have : (false != true) = true := rfl
    simp only [this, if_true]
    rw [hnv, hmvi, neg_emod_emod, Int.mul_neg, Int.neg_neg]
  · have : (true != false) = true := rfl
    simp only [this, if_true]
    rw [hnv, hmvi, neg_emod_emod, Int.neg_mul, Int.neg_neg]
  · rw [Int.neg_mul_neg] at hmvi
    simpa using hmvi

theorem mulS_val (w : Nat) (hw : 0 < w) (a b : List Nat) (hl : a.length = b.length)
    (ha : Wf (2 ^ w) a) (hb : Wf (2 ^ w) b) :
    val (2 ^ w) (mulS (2 ^ w) a b)
      = ((toInt (2 ^ w) a * toInt (2 ^ w) b) % (((2 ^ w) ^ a.length : Nat) : Int)).toNat :=
  nat_eq_toNat_of_cast_eq (mulS_val_int w hw a b hl ha hb)

theorem divS_eq (w : Nat) (a b : List Nat) :
    divS w a b = if (abs (2 ^ w) a).2 != (abs (2 ^ w) b).2
      then neg (2 ^ w) (divModU w (abs (2 ^ w) a).1 (abs (2 ^ w) b).1).2.1
      else (divModU w (abs (2 ^ w) a).1 (abs (2 ^ w) b).1).2.1 := rfl

theorem modS_eq (w : Nat) (a b : List Nat) :
    modS w a b = if (abs (2 ^ w) a).2
      then neg (2 ^ w) (divModU w (abs (2 ^ w) a).1 (abs (2 ^ w) b).1).2.2
      else (divModU w (abs (2 ^ w) a).1 (abs (2 ^ w) b).1).2.2 := rfl

/-- common facts about the unsigned division of the magnitudes inside divS / modS -/
theorem divModU_abs (w : Nat) (hw : 0 < w) (a b : List Nat) (hl : a.length = b.length)
    (ha : Wf (2 ^ w) a) (hb : Wf (2 ^ w) b) (hb0 : toInt (2 ^ w) b ≠ 0) :
    let r := divModU w (abs (2 ^ w) a).1 (abs (2 ^ w) b).1
    r.2.1.length = a.length ∧ r.2.2.length = a.length ∧ Wf (2 ^ w) r.2.1 ∧ Wf (2 ^ w) r.2.2 ∧
    (val (2 ^ w) r.2.1 : Int) = Int.tdiv (val (2 ^ w) (abs (2 ^ w) a).1 : Int) (val (2 ^ w) (abs (2 ^ w) b).1 : Int) ∧
    (val (2 ^ w) r.2.2 : Int) = Int.tmod (val (2 ^ w) (abs (2 ^ w) a).1 : Int) (val (2 ^ w) (abs (2 ^ w) b).1 : Int) := by
  intro r
  obtain ⟨hal, haw, _, _⟩ := abs_spec w hw a ha
  obtain ⟨hbl, hbw, _, hbv⟩ := abs_spec w hw b hb
  have hlen : (abs (2 ^ w) a).1.length = (abs (2 ^ w) b).1.length := by omega
  have hbm0 : val (2 ^ w) (abs (2 ^ w) b).1 ≠ 0 := by
    intro h0
    rw [h0] at hbv
    split at hbv <;> omega
  obtain ⟨h1, h2, h3, h4⟩ := divModU_wf w hw _ _ hlen haw hbw
  obtain ⟨_, hq, hr⟩ := divModU_spec w hw _ _ hlen haw hbw hbm0
  refine ⟨by rw [← hal]; exact h1, by rw [← hal]; exact h2, h3, h4, ?_, ?_⟩
  · show (val (2 ^ w) (divModU w (abs (2 ^ w) a).1 (abs (2 ^ w) b).1).2.1 : Int) = _
    rw [hq, Int.ofNat_tdiv]
  · show (val (2 ^ w) (divModU w (abs (2 ^ w) a).1 (abs (2 ^ w) b).1).2.2 : Int) = _
    rw [hr, Int.ofNat_tmod]

/-- ferret_iN_div: truncating division, reduced modulo 2^(n*w) (MIN / -1 wraps to MIN) -/
theorem divS_val_int (w : Nat) (hw : 0 < w) (a b : List Nat) (hl : a.length = b.length)
    (ha : Wf (2 ^ w) a) (hb : Wf (2 ^ w) b) (hb0 : toInt (2 ^ w) b ≠ 0) :
    (val (2 ^ w) (divS w a b) : Int)
      = (Int.tdiv (toInt (2 ^ w) a) (toInt (2 ^ w) b)) % (((2 ^ w) ^ a.length : Nat) : Int) := by
  have hB1 : 1 < 2 ^ w := Nat.one_lt_two_pow (by omega)
  obtain ⟨_, _, han, hav⟩ := abs_spec w hw a ha
  obtain ⟨_, _, hbn, hbv⟩ := abs_spec w hw b hb
  obtain ⟨hql, _, hqw, _, hqv, _⟩ := divModU_abs w hw a b hl ha hb hb0
  have hqlt := val_lt _ _ hqw
  rw [hql] at hqlt
  have hnv := neg_val_int (2 ^ w) hB1 _ hqw
  rw [hql] at hnv
  rw [divS_eq, han, hbn]
  rw [hav, hbv] at hqv
  generalize (divModU w (abs (2 ^ w) a).1 (abs (2 ^ w) b).1).2.1 = q at *
  cases hna : isNeg (2 ^ w) a <;> cases hnb : isNeg (2 ^ w) b <;>
    simp only [hna, hnb, if_true, if_false, Bool.false_eq_true] at hqv
  · simp only [bne_self_eq_false, Bool.false_eq_true, if_false]
    rw [← hqv]
    exact (Int.emod_eq_of_lt (by omega) (by omega)).symm
  · have : (false != true) = true := rfl
    simp only [this, if_true]
    rw [hnv, hqv, Int.tdiv_neg, Int.neg_neg]
  · have : (true != false) = true := rfl
    simp only [this, if_true]
    rw [hnv, hqv, Int.neg_tdiv, Int.neg_neg]
  · simp only [bne_self_eq_false, Bool.false_eq_true, if_false]
    rw [Int.neg_tdiv, Int.tdiv_neg, Int.neg_neg] at hqv
    rw [← hqv]
    exact (Int.emod_eq_of_lt (by omega) (by omega)).symm

theorem divS_val (w : Nat) (hw : 0 < w) (a b : List Nat) (hl : a.length = b.length)
    (ha : Wf (2 ^ w) a) (hb : Wf (2 ^ w) b) (hb0 : toInt (2 ^ w) b ≠ 0) :
    val (2 ^ w) (divS w a b)
      = ((Int.tdiv (toInt (2 ^ w) a) (toInt (2 ^ w) b)) % (((2 ^ w) ^ a.length : Nat) : Int)).toNat :=
  nat_eq_toNat_of_cast_eq (divS_val_int w hw a b hl ha hb hb0)

/-- ferret_iN_mod: truncating remainder (sign of the dividend), reduced modulo 2^(n*w) -/
theorem modS_val_int (w : Nat) (hw : 0 < w) (a b : List Nat) (hl : a.length = b.length)
    (ha : Wf (2 ^ w) a) (hb : Wf (2 ^ w) b) (hb0 : toInt (2 ^ w) b ≠ 0) :
    (val (2 ^ w) (modS w a b) : Int)
      = (Int.tmod (toInt (2 ^ w) a) (toInt (2 ^ w) b)) % (((2 ^ w) ^ a.length : Nat) : Int) := by
  have hB1 : 1 < 2 ^ w := Nat.one_lt_two_pow (by omega)
  obtain ⟨_, _, han, hav⟩ := abs_spec w hw a ha
  obtain ⟨_, _, hbn, hbv⟩ := abs_spec w hw b hb
  obtain ⟨_, hrl, _, hrw, _, hrv⟩ := divModU_abs w hw a b hl ha hb hb0
  have hrlt := val_lt _ _ hrw
  rw [hrl] at hrlt
  have hnv := neg_val_int (2 ^ w) hB1 _ hrw
  rw [hrl] at hnv
  rw [modS_eq, han]
  rw [hav, hbv] at hrv
  generalize (divModU w (abs (2 ^ w) a).1 (abs (2 ^ w) b).1).2.2 = r at *
  cases hna : isNeg (2 ^ w) a <;> cases hnb : isNeg (2 ^ w) b <;>
    simp only [hna, hnb, if_true, if_false, Bool.false_eq_true] at hrv
  · simp only [Bool.false_eq_true, if_false]
    rw [← hrv]
    exact (Int.emod_eq_of_lt (by omega) (by omega)).symm
  · simp only [Bool.false_eq_true, if_false]
    rw [Int.tmod_neg] at hrv
    rw [← hrv]
    exact (Int.emod_eq_of_lt (by omega) (by omega)).symm
  · simp only [if_true]
    rw [hnv, hrv, Int.neg_tmod, Int.neg_neg]
  · simp only [if_true]
    rw [hnv, hrv, Int.neg_tmod, Int.tmod_neg, Int.neg_neg]

theorem modS_val (w : Nat) (hw : 0 < w) (a b : List Nat) (hl : a.length = b.length)
    (ha : Wf (2 ^ w) a) (hb : Wf (2 ^ w) b) (hb0 : toInt (2 ^ w) b ≠ 0) :
    val (2 ^ w) (modS w a b)
      = ((Int.tmod (toInt (2 ^ w) a) (toInt (2 ^ w) b)) % (((2 ^ w) ^ a.length : Nat) : Int)).toNat :=
  nat_eq_toNat_of_cast_eq (modS_val_int w hw a b hl ha hb hb0)

/-! ### exponentiation: one-bit right shift, parity, square-and-multiply -/

theorem shr1_limb (w : Nat) (hw : 0 < w) (v v' : Nat) (hv : v < 2 ^ w) :
    (v / 2) ||| ((v' * 2 ^ (w - 1)) % 2 ^ w) = v / 2 + 2 ^ (w - 1) * (v' % 2)
      ∧ v / 2 + 2 ^ (w - 1) * (v' % 2) < 2 ^ w := by
  obtain ⟨H, hH, hB, hH'⟩ := two_pow_split w hw
  have e1 : (v' * 2 ^ (w - 1)) % 2 ^ w = 2 ^ (w - 1) * (v' % 2) := by
    rw [hB, hH', Nat.mul_comm v' H, Nat.mul_comm 2 H, Nat.mul_mod_mul_left]
  have h2 : v / 2 < 2 ^ (w - 1) := by rw [hH']; omega
  rw [e1, lor_eq_add' (k := w - 1) (Nat.mul_mod_right _ _) h2]
  refine ⟨Nat.add_comm _ _, ?_⟩
  rw [hH'] at h2 ⊢
  rw [hB]
  have : v' % 2 < 2 := Nat.mod_lt _ (by omega)
  have : H * (v' % 2) ≤ H * 1 := Nat.mul_le_mul_left _ (by omega)
  omega

theorem shr1_length (w : Nat) (l : List Nat) : (shr1 w l).length = l.length := by
  induction l with
  | nil => rfl
  | cons v vs ih =>
    cases vs with
    | nil => rfl
    | cons v' vs => simp only [shr1, List.length_cons] at ih ⊢; rw [ih]

theorem shr1_wf (w : Nat) (hw : 0 < w) (l : List Nat) (h : Wf (2 ^ w) l) : Wf (2 ^ w) (shr1 w l) := by
  induction l with
  | nil => exact h
  | cons v vs ih =>
    have hv := h.head
    cases vs with
    | nil =>
      simp only [shr1]
      exact Wf.cons (by omega) (fun _ hx => by simp at hx)
    | cons v' vs =>
      simp only [shr1]
      obtain ⟨e1, e2⟩ := shr1_limb w hw v v' hv
      exact Wf.cons (e1 ▸ e2) (ih h.tail)

/-- ferret_shr1_limbs halves the value -/
theorem shr1_val (w : Nat) (hw : 0 < w) (l : List Nat) (h : Wf (2 ^ w) l) :
    val (2 ^ w) (shr1 w l) = val (2 ^ w) l / 2 := by
  induction l with
  | nil => simp [shr1, val]
  | cons v vs ih =>
    have hv := h.head
    cases vs with
    | nil => simp [shr1, val]
    | cons v' vs =>
      obtain ⟨e1, _⟩ := shr1_limb w hw v v' hv
      have ih' := ih h.tail
      simp only [shr1, val_cons] at ih' ⊢
      rw [e1, ih']
      obtain ⟨H, hH, hB, hH'⟩ := two_pow_split w hw
      rw [hH', hB]
      generalize val (2 * H) vs = R
      -- (v + 2H(v' + 2H R))/2 = v/2 + H (v' + 2H R);  (v' + 2H R)/2 = v'/2 + H R
      have a1 : (v + 2 * H * (v' + 2 * H * R)) / 2 = v / 2 + H * (v' + 2 * H * R) := by
        rw [Nat.mul_assoc 2 H, Nat.add_mul_div_left _ _ (by omega : 0 < 2)]
      have a2 : (v' + 2 * H * R) / 2 = v' / 2 + H * R := by
        rw [Nat.mul_assoc 2 H, Nat.add_mul_div_left _ _ (by omega : 0 < 2)]
      rw [a1, a2]
      have a3 : H * (v' + 2 * H * R) = H * (v' % 2) + 2 * H * (v' / 2 + H * R) := by
        have := Nat.div_add_mod v' 2
        have e : H * v' = H * (2 * (v' / 2) + v' % 2) := by rw [this]
        rw [Nat.mul_add] at e
        rw [Nat.mul_add, Nat.mul_add (2 * H), e, Nat.mul_left_comm H 2, Nat.mul_assoc 2 H (v' / 2),
          Nat.mul_left_comm H (2 * H)]
        omega
      rw [a3]
      omega

/-- the low bit of the low limb is the parity of the value (even base) -/
theorem limb0_parity (w : Nat) (hw : 0 < w) (l : List Nat) : limb l 0 % 2 = val (2 ^ w) l % 2 := by
  obtain ⟨H, hH, hB, hH'⟩ := two_pow_split w hw
  cases l with
  | nil => simp [limb_nil, val]
  | cons x xs =>
    rw [limb_cons_zero, val_cons, hB, Nat.mul_assoc, Nat.add_mul_mod_self_left]

theorem mul_pow_mod (x y k M : Nat) : (x % M * (y % M) ^ k) % M = (x * y ^ k) % M := by
  calc (x % M * (y % M) ^ k) % M
      = ((x % M) % M * ((y % M) ^ k % M)) % M := Nat.mul_mod ..
    _ = (x % M * (y ^ k % M)) % M := by rw [Nat.mod_mod, ← Nat.pow_mod]
    _ = (x * y ^ k) % M := (Nat.mul_mod ..).symm

theorem pow_halve (b E : Nat) : b ^ E = (b * b) ^ (E / 2) * b ^ (E % 2) := by
  have h := Nat.div_add_mod E 2
  conv => lhs; rw [← h]
  rw [Nat.pow_add, Nat.pow_mul, Nat.pow_two]

/-- square-and-multiply loop, for any limb multiplication that is correct modulo `B^n` -/
theorem powLoop_spec (mulf : List Nat → List Nat → List Nat) (w : Nat) (hw : 0 < w) (n : Nat)
    (hmul : ∀ x y, x.length = n → y.length = n → Wf (2 ^ w) x → Wf (2 ^ w) y →
      (mulf x y).length = n ∧ Wf (2 ^ w) (mulf x y) ∧
      val (2 ^ w) (mulf x y) = (val (2 ^ w) x * val (2 ^ w) y) % (2 ^ w) ^ n)
    (fuel : Nat) (result base e : List Nat) (hr : result.length = n) (hb : base.length = n)
    (hrw : Wf (2 ^ w) result) (hbw : Wf (2 ^ w) base) (hew : Wf (2 ^ w) e)
    (hfuel : val (2 ^ w) e < 2 ^ fuel) :
    (powLoop mulf w fuel result base e).length = n ∧ Wf (2 ^ w) (powLoop mulf w fuel result base e) ∧
    val (2 ^ w) (powLoop mulf w fuel result base e)
      = (val (2 ^ w) result * val (2 ^ w) base ^ val (2 ^ w) e) % (2 ^ w) ^ n := by
  have hrlt : val (2 ^ w) result < (2 ^ w) ^ n := hr ▸ val_lt _ _ hrw
  induction fuel generalizing result base e with
  | zero =>
    have he0 : val (2 ^ w) e = 0 := by simpa using hfuel
    simp only [powLoop]
    refine ⟨hr, hrw, ?_⟩
    rw [he0, Nat.pow_zero, Nat.mul_one, Nat.mod_eq_of_lt hrlt]
  | succ fuel ih =>
    simp only [powLoop]
    cases hz : isZero e with
    | true =>
      have he0 := (isZero_iff (2 ^ w) (Nat.two_pow_pos w) e).1 hz
      simp only [if_true]
      refine ⟨hr, hrw, ?_⟩
      rw [he0, Nat.pow_zero, Nat.mul_one, Nat.mod_eq_of_lt hrlt]
    | false =>
      simp only [Bool.false_eq_true, if_false]
      obtain ⟨hsl, hsw, hsv⟩ := hmul base base hb hb hbw hbw
      have he' := shr1_val w hw e hew
      have hew' := shr1_wf w hw e hew
      have hpar := limb0_parity w hw e
      have hfuel' : val (2 ^ w) (shr1 w e) < 2 ^ fuel := by
        rw [he']; rw [Nat.pow_succ] at hfuel; omega
      have hE := pow_halve (val (2 ^ w) base) (val (2 ^ w) e)
      rcases Nat.mod_two_eq_zero_or_one (val (2 ^ w) e) with hp | hp
      · have hc : ¬ (limb e 0 % 2 = 1) := by omega
        simp only [hc, if_false]
        obtain ⟨h1, h2, h3⟩ := ih result (mulf base base) (shr1 w e) hr hsl hrw hsw hew' hfuel' hrlt
        refine ⟨h1, h2, ?_⟩
        rw [h3, hsv, he', hE, hp, Nat.pow_zero, Nat.mul_one]
        conv => lhs; rw [← Nat.mod_eq_of_lt hrlt]
        exact mul_pow_mod _ _ _ _
      · have hc : limb e 0 % 2 = 1 := by omega
        simp only [hc, if_true]
        obtain ⟨hml, hmw, hmv⟩ := hmul result base hr hb hrw hbw
        have hmlt : val (2 ^ w) (mulf result base) < (2 ^ w) ^ n := hml ▸ val_lt _ _ hmw
        obtain ⟨h1, h2, h3⟩ := ih (mulf result base) (mulf base base) (shr1 w e) hml hsl hmw hsw hew' hfuel' hmlt
        refine ⟨h1, h2, ?_⟩
        rw [h3, hsv, hmv, he', hE, hp, Nat.pow_one, mul_pow_mod]
        congr 1
        rw [Nat.mul_assoc, Nat.mul_comm (val (2 ^ w) base)]

theorem val_one (B n : Nat) (hn : 0 < n) : val B (one n) = 1 := by
  cases n with
  | zero => omega
  | succ n => simp [one, val_cons, val_zero]

theorem one_length (n : Nat) : (one n).length = n := by
  cases n with
  | zero => rfl
  | succ n => simp [one, zero_length]

theorem one_wf (B n : Nat) (hB : 1 < B) : Wf B (one n) := by
  cases n with
  | zero => intro x hx; simp [one] at hx
  | succ n => exact Wf.cons hB (zero_wf B n (by omega))

/-- ferret_uN_pow: modular power by square-and-multiply -/
theorem powU_val (w : Nat) (hw : 0 < w) (base e : List Nat) (hbw : Wf (2 ^ w) base) (hew : Wf (2 ^ w) e) :
    val (2 ^ w) (powU w base e) = (val (2 ^ w) base ^ val (2 ^ w) e) % (2 ^ w) ^ base.length := by
  have hB1 : 1 < 2 ^ w := Nat.one_lt_two_pow (by omega)
  have hfuel : val (2 ^ w) e < 2 ^ (e.length * w) := by
    have := val_lt _ _ hew
    rwa [← Nat.pow_mul, Nat.mul_comm w] at this
  obtain ⟨_, _, h3⟩ := powLoop_spec (mul (2 ^ w)) w hw base.length
    (fun x y hx hy _ _ => ⟨by rw [mul_length _ _ _ (by omega), hx], mul_wf _ (by omega) _ _ (by omega),
      by rw [mul_val _ (by omega) _ _ (by omega), hx]⟩)
    (e.length * w) (one base.length) base e (one_length _) rfl (one_wf _ _ hB1) hbw hew hfuel
  unfold powU
  rw [h3]
  cases hn : base.length with
  | zero =>
    simp [Nat.mod_one]
  | succ n =>
    rw [val_one _ _ (by omega), Nat.one_mul]

/-! ### signed power, zero divisors, exact (non-wrapping) signed results -/

theorem mulS_length_wf (w : Nat) (hw : 0 < w) (a b : List Nat) (hl : a.length = b.length)
    (ha : Wf (2 ^ w) a) (hb : Wf (2 ^ w) b) :
    (mulS (2 ^ w) a b).length = a.length ∧ Wf (2 ^ w) (mulS (2 ^ w) a b) := by
  have hB1 : 1 < 2 ^ w := Nat.one_lt_two_pow (by omega)
  obtain ⟨hal, haw, _, _⟩ := abs_spec w hw a ha
  obtain ⟨hbl, hbw, _, _⟩ := abs_spec w hw b hb
  have hlen : (abs (2 ^ w) a).1.length = (abs (2 ^ w) b).1.length := by omega
  have hml := mul_length (2 ^ w) _ _ hlen
  have hmw := mul_wf (2 ^ w) (by omega) _ _ hlen
  obtain ⟨hnl, hnw⟩ := neg_length_wf (2 ^ w) hB1 _ hmw
  rw [mulS_eq]
  split
  · exact ⟨by rw [hnl, hml, hal], hnw⟩
  · exact ⟨by rw [hml, hal], hmw⟩

/-- at the level of unsigned values the signed multiply is the same modular product -/
theorem mulS_val_nat (w : Nat) (hw : 0 < w) (a b : List Nat) (hl : a.length = b.length)
    (ha : Wf (2 ^ w) a) (hb : Wf (2 ^ w) b) :
    val (2 ^ w) (mulS (2 ^ w) a b) = (val (2 ^ w) a * val (2 ^ w) b) % (2 ^ w) ^ a.length := by
  have h := mulS_val_int w hw a b hl ha hb
  have e1 := toInt_emod (2 ^ w) a ha
  have e2 := toInt_emod (2 ^ w) b hb
  rw [← hl] at e2
  rw [Int.mul_emod, e1, e2, ← Int.natCast_mul, ← Int.natCast_emod] at h
  exact Int.ofNat.inj h

/-- ferret_iN_pow: negative exponent gives 0; otherwise the modular power (as an unsigned residue) -/
theorem powS_val (w : Nat) (hw : 0 < w) (base e : List Nat) (hbw : Wf (2 ^ w) base) (hew : Wf (2 ^ w) e) :
    val (2 ^ w) (powS w base e) =
      if isNeg (2 ^ w) e then 0 else (val (2 ^ w) base ^ val (2 ^ w) e) % (2 ^ w) ^ base.length := by
  have hB1 : 1 < 2 ^ w := Nat.one_lt_two_pow (by omega)
  unfold powS
  split
  · exact val_zero _ _
  · have hfuel : val (2 ^ w) e < 2 ^ (e.length * w) := by
      have := val_lt _ _ hew
      rwa [← Nat.pow_mul, Nat.mul_comm w] at this
    obtain ⟨_, _, h3⟩ := powLoop_spec (mulS (2 ^ w)) w hw base.length
      (fun x y hx hy hxw hyw => by
        obtain ⟨h1, h2⟩ := mulS_length_wf w hw x y (by omega) hxw hyw
        exact ⟨by rw [h1, hx], h2, by rw [mulS_val_nat w hw x y (by omega) hxw hyw, hx]⟩)
      (e.length * w) (one base.length) base e (one_length _) rfl (one_wf _ _ hB1) hbw hew hfuel
    rw [h3]
    cases hn : base.length with
    | zero => simp [Nat.mod_one]
    | succ n => rw [val_one _ _ (by omega), Nat.one_mul]

theorem val_neg_zero (B : Nat) (hB : 1 < B) (n : Nat) : val B (neg B (zero n)) = 0 := by
  rw [neg_val B hB _ (zero_wf B n (by omega)), val_zero, Nat.sub_zero, Nat.mod_self]

/-- ferret_iN_div by zero yields 0 -/
theorem divS_zero (w : Nat) (hw : 0 < w) (a b : List Nat) (hb : Wf (2 ^ w) b) (hb0 : toInt (2 ^ w) b = 0) :
    val (2 ^ w) (divS w a b) = 0 := by
  have hB1 : 1 < 2 ^ w := Nat.one_lt_two_pow (by omega)
  have hnb : isNeg (2 ^ w) b = false := by
    cases h : isNeg (2 ^ w) b with
    | false => rfl
    | true => have := toInt_lt_zero _ b hb h; omega
  have hv : val (2 ^ w) b = 0 := by
    rw [toInt_of_nonneg _ _ hnb] at hb0; omega
  have habs : abs (2 ^ w) b = (b, false) := by simp [abs, hnb]
  rw [divS_eq, habs, divModU_zero w _ b hv]
  split
  · exact val_neg_zero _ hB1 _
  · exact val_zero _ _

/-- ferret_iN_mod by zero yields 0 -/
theorem modS_zero (w : Nat) (hw : 0 < w) (a b : List Nat) (hb : Wf (2 ^ w) b) (hb0 : toInt (2 ^ w) b = 0) :
    val (2 ^ w) (modS w a b) = 0 := by
  have hB1 : 1 < 2 ^ w := Nat.one_lt_two_pow (by omega)
  have hnb : isNeg (2 ^ w) b = false := by
    cases h : isNeg (2 ^ w) b with
    | false => rfl
    | true => have := toInt_lt_zero _ b hb h; omega
  have hv : val (2 ^ w) b = 0 := by
    rw [toInt_of_nonneg _ _ hnb] at hb0; omega
  have habs : abs (2 ^ w) b = (b, false) := by simp [abs, hnb]
  rw [modS_eq, habs, divModU_zero w _ b hv]
  split
  · exact val_neg_zero _ hB1 _
  · exact val_zero _ _

theorem int_eq_of_emod_eq (x y M : Int) (h : x % M = y % M) (h1 : -M < x - y) (h2 : x - y < M) : x = y := by
  have h0 := Int.emod_eq_emod_iff_emod_sub_eq_zero.1 h
  by_cases hn : x - y < 0
  · have e : (x - y + M * 1) % M = (x - y) % M := Int.add_mul_emod_self_left _ _ _
    rw [h0, Int.emod_eq_of_lt (by omega) (by omega)] at e
    omega
  · rw [Int.emod_eq_of_lt (by omega) h2] at h0
    omega

/-- a residue that fits the signed range determines the signed value -/
theorem toInt_of_val_int (w : Nat) (hw : 0 < w) (l : List Nat) (hl : Wf (2 ^ w) l) (X : Int)
    (h : (val (2 ^ w) l : Int) = X % (((2 ^ w) ^ l.length : Nat) : Int))
    (hlo : -(((2 ^ w) ^ l.length : Nat) : Int) ≤ 2 * X) (hhi : 2 * X < (((2 ^ w) ^ l.length : Nat) : Int)) :
    toInt (2 ^ w) l = X := by
  obtain ⟨b1, b2⟩ := toInt_bounds w hw l hl
  have e := toInt_emod (2 ^ w) l hl
  rw [h] at e
  exact int_eq_of_emod_eq _ _ _ e (by omega) (by omega)

theorem divS_length_wf (w : Nat) (hw : 0 < w) (a b : List Nat) (hl : a.length = b.length)
    (ha : Wf (2 ^ w) a) (hb : Wf (2 ^ w) b) :
    (divS w a b).length = a.length ∧ Wf (2 ^ w) (divS w a b) := by
  have hB1 : 1 < 2 ^ w := Nat.one_lt_two_pow (by omega)
  obtain ⟨hal, haw, _, _⟩ := abs_spec w hw a ha
  obtain ⟨hbl, hbw, _, _⟩ := abs_spec w hw b hb
  obtain ⟨h1, _, h3, _⟩ := divModU_wf w hw _ _ (show (abs (2 ^ w) a).1.length = (abs (2 ^ w) b).1.length by omega) haw hbw
  obtain ⟨hnl, hnw⟩ := neg_length_wf (2 ^ w) hB1 _ h3
  rw [divS_eq]
  split
  · exact ⟨by rw [hnl, h1, hal], hnw⟩
  · exact ⟨by rw [h1, hal], h3⟩

theorem modS_length_wf (w : Nat) (hw : 0 < w) (a b : List Nat) (hl : a.length = b.length)
    (ha : Wf (2 ^ w) a) (hb : Wf (2 ^ w) b) :
    (modS w a b).length = a.length ∧ Wf (2 ^ w) (modS w a b) := by
  have hB1 : 1 < 2 ^ w := Nat.one_lt_two_pow (by omega)
  obtain ⟨hal, haw, _, _⟩ := abs_spec w hw a ha
  obtain ⟨hbl, hbw, _, _⟩ := abs_spec w hw b hb
  obtain ⟨_, h2, _, h4⟩ := divModU_wf w hw _ _ (show (abs (2 ^ w) a).1.length = (abs (2 ^ w) b).1.length by omega) haw hbw
  obtain ⟨hnl, hnw⟩ := neg_length_wf (2 ^ w) hB1 _ h4
  rw [modS_eq]
  split
  · exact ⟨by rw [hnl, h2, hal], hnw⟩
  · exact ⟨by rw [h2, hal], h4⟩

/-- ferret_iN_mul without overflow is the exact product -/
theorem mulS_toInt (w : Nat) (hw : 0 < w) (a b : List Nat) (hl : a.length = b.length)
    (ha : Wf (2 ^ w) a) (hb : Wf (2 ^ w) b)
    (hlo : -(((2 ^ w) ^ a.length : Nat) : Int) ≤ 2 * (toInt (2 ^ w) a * toInt (2 ^ w) b))
    (hhi : 2 * (toInt (2 ^ w) a * toInt (2 ^ w) b) < (((2 ^ w) ^ a.length : Nat) : Int)) :
    toInt (2 ^ w) (mulS (2 ^ w) a b) = toInt (2 ^ w) a * toInt (2 ^ w) b := by
  obtain ⟨h1, h2⟩ := mulS_length_wf w hw a b hl ha hb
  apply toInt_of_val_int w hw _ h2
  · rw [h1]; exact mulS_val_int w hw a b hl ha hb
  · rw [h1]; exact hlo
  · rw [h1]; exact hhi

/-- ferret_iN_mod is exactly the truncating remainder (never overflows) -/
theorem modS_toInt (w : Nat) (hw : 0 < w) (a b : List Nat) (hl : a.length = b.length)
    (ha : Wf (2 ^ w) a) (hb : Wf (2 ^ w) b) (hb0 : toInt (2 ^ w) b ≠ 0) :
    toInt (2 ^ w) (modS w a b) = Int.tmod (toInt (2 ^ w) a) (toInt (2 ^ w) b) := by
  obtain ⟨h1, h2⟩ := modS_length_wf w hw a b hl ha hb
  obtain ⟨b1, b2⟩ := toInt_bounds w hw a ha
  have hna := Int.natAbs_tmod (toInt (2 ^ w) a) (toInt (2 ^ w) b)
  have hle : (toInt (2 ^ w) a).natAbs % (toInt (2 ^ w) b).natAbs ≤ (toInt (2 ^ w) a).natAbs := Nat.mod_le _ _
  have hnn : 0 ≤ toInt (2 ^ w) a → 0 ≤ Int.tmod (toInt (2 ^ w) a) (toInt (2 ^ w) b) := Int.tmod_nonneg _
  have hnp : toInt (2 ^ w) a ≤ 0 → Int.tmod (toInt (2 ^ w) a) (toInt (2 ^ w) b) ≤ 0 := by
    intro h
    have := Int.tmod_nonneg (toInt (2 ^ w) b) (show 0 ≤ -toInt (2 ^ w) a by omega)
    rw [Int.neg_tmod] at this
    omega
  apply toInt_of_val_int w hw _ h2
  · rw [h1]; exact modS_val_int w hw a b hl ha hb hb0
  · rw [h1]; omega
  · rw [h1]; omega

/-- ferret_iN_div is exactly the truncating quotient except for MIN / -1 -/
theorem divS_toInt (w : Nat) (hw : 0 < w) (a b : List Nat) (hl : a.length = b.length)
    (ha : Wf (2 ^ w) a) (hb : Wf (2 ^ w) b) (hb0 : toInt (2 ^ w) b ≠ 0)
    (hov : ¬ (2 * toInt (2 ^ w) a = -(((2 ^ w) ^ a.length : Nat) : Int) ∧ toInt (2 ^ w) b = -1)) :
    toInt (2 ^ w) (divS w a b) = Int.tdiv (toInt (2 ^ w) a) (toInt (2 ^ w) b) := by
  obtain ⟨h1, h2⟩ := divS_length_wf w hw a b hl ha hb
  obtain ⟨b1, b2⟩ := toInt_bounds w hw a ha
  have hna := Int.natAbs_tdiv (toInt (2 ^ w) a) (toInt (2 ^ w) b)
  have hle := Int.natAbs_tdiv_le_natAbs (toInt (2 ^ w) a) (toInt (2 ^ w) b)
  apply toInt_of_val_int w hw _ h2
  · rw [h1]; exact divS_val_int w hw a b hl ha hb hb0
  · rw [h1]; omega
  · rw [h1]
    generalize (((2 ^ w) ^ a.length : Nat) : Int) = M at *
    generalize hta : toInt (2 ^ w) a = ta at *
    generalize htb : toInt (2 ^ w) b = tb at *
    apply Classical.byContradiction
    intro hc
    -- then |t| = |ta| = M/2, so ta = -M/2 and |tb| = 1
    have hM : 2 * ta = -M := by omega
    have hq : ta.natAbs.div tb.natAbs = ta.natAbs := by omega
    have hpos : 0 < ta.natAbs := by omega
    have hb1 : tb.natAbs = 1 := by
      rcases Nat.lt_or_ge tb.natAbs 2 with h | h
      · omega
      · have := Nat.div_lt_self hpos h
        have e : ta.natAbs.div tb.natAbs = ta.natAbs / tb.natAbs := rfl
        omega
    have : tb = 1 := by omega
    subst this
    rw [Int.tdiv_one] at hc
    omega

end FerretVerif.Limbs
