/-
  Proofs/LexStable.lean — maximal-munch stability of the scanners of Model/Lexer.lean (C19): what `step` does at the
  front of a text does not change when, behind the bytes it consumes, white-space-led material is inserted.
-/
import FerretVerif.Proofs.LexTrivia

namespace FerretVerif.Lexer

/-- `W` is `rest` with something inserted: the two agree byte by byte up to the first insertion, which begins with a
    white-space byte and stands in front of a byte of `rest` that is not white space; nothing is assumed after it -/
inductive Ins : List Byte → List Byte → Prop
  | nil : Ins [] []
  | ins (c w : Byte) (r W : List Byte) : isSpace c = false → isSpace w = true → Ins (c :: r) (w :: W)
  | keep (c : Byte) (r W : List Byte) : Ins r W → Ins (c :: r) (c :: W)

theorem Ins.refl : ∀ s : List Byte, Ins s s
  | [] => .nil
  | c :: r => .keep c r r (Ins.refl r)

theorem Ins.append_left (a : List Byte) {r W : List Byte} (h : Ins r W) : Ins (a ++ r) (a ++ W) := by
  induction a with
  | nil => exact h
  | cons c a ih => exact .keep c _ _ ih

/-- the first `n` bytes are kept, insertions happen behind them -/
def Kept (n : Nat) (s s' : List Byte) : Prop := ∃ W, s' = s.take n ++ W ∧ Ins (s.drop n) W

theorem Kept.ins {n : Nat} {s s' : List Byte} (h : Kept n s s') : Ins s s' := by
  obtain ⟨W, rfl, hW⟩ := h
  have := Ins.append_left (s.take n) hW
  rwa [List.take_append_drop] at this

theorem Kept.succ_cons {n : Nat} {c : Byte} {r s' : List Byte} (h : Kept (n + 1) (c :: r) s') : ∃ r', s' = c :: r' ∧ Kept n r r' := by
  obtain ⟨W, rfl, hW⟩ := h
  exact ⟨r.take n ++ W, by simp, W, rfl, by simpa using hW⟩

theorem Kept.zero {s s' : List Byte} (h : Kept 0 s s') : Ins s s' := by simpa using h.ins

theorem Kept.of_ins {s s' : List Byte} (h : Ins s s') : Kept 0 s s' := ⟨s', by simp, by simpa using h⟩

theorem Kept.mono {n m : Nat} {s s' : List Byte} (h : Kept n s s') (hm : m ≤ n) : Kept m s s' := by
  induction m generalizing n s s' with
  | zero => exact Kept.of_ins h.ins
  | succ m ih =>
    cases n with
    | zero => omega
    | succ n =>
      cases s with
      | nil =>
        obtain ⟨W, hW0, hW⟩ := h
        exact ⟨W, by simpa using hW0, by simpa using hW⟩
      | cons c r =>
        obtain ⟨r', rfl, hk⟩ := h.succ_cons
        obtain ⟨W, hW1, hW2⟩ := ih hk (by omega)
        exact ⟨W, by simp [hW1], by simpa using hW2⟩

/-- heads: a kept text has the same head -/
theorem Ins.head_space {s s' : List Byte} (h : Ins s s') : s.head?.map isSpace = some true → s'.head? = s.head? := by
  intro hs
  cases h with
  | nil => rfl
  | ins c w r W hc hw => simp [hc] at hs
  | keep c r W _ => rfl

/-! ### spans -/

/-- a span whose predicate rejects white space stops at the same place -/
theorem spanLen_kept (p : Byte → Bool) (hp : ∀ w, isSpace w = true → p w = false) :
    ∀ (s s' : List Byte), Kept (spanLen p s) s s' → spanLen p s' = spanLen p s
  | [], s', h => by
    have := h.ins
    cases this; rfl
  | c :: r, s', h => by
    by_cases hc : p c = true
    · have e : spanLen p (c :: r) = spanLen p r + 1 := by simp [spanLen, hc]
      rw [e] at h
      obtain ⟨r', rfl, hk⟩ := h.succ_cons
      simp [spanLen, hc, spanLen_kept p hp r r' hk]
    · have e : spanLen p (c :: r) = 0 := by simp [spanLen, hc]
      rw [e] at h ⊢
      have hi := h.ins
      cases hi with
      | ins _ w _ W _ hw => simp [spanLen, hp w hw]
      | keep _ _ W _ => simp [spanLen, hc]

/-- a span that can only stop at a white-space byte (or at the end) stops at the same place -/
theorem spanLen_kept_stop (p : Byte → Bool) (hp : ∀ c, p c = false → isSpace c = true) :
    ∀ (s s' : List Byte), Kept (spanLen p s) s s' → spanLen p s' = spanLen p s
  | [], s', h => by
    have := h.ins
    cases this; rfl
  | c :: r, s', h => by
    by_cases hc : p c = true
    · have e : spanLen p (c :: r) = spanLen p r + 1 := by simp [spanLen, hc]
      rw [e] at h
      obtain ⟨r', rfl, hk⟩ := h.succ_cons
      simp [spanLen, hc, spanLen_kept_stop p hp r r' hk]
    · have e : spanLen p (c :: r) = 0 := by simp [spanLen, hc]
      rw [e] at h ⊢
      have hi := h.ins
      cases hi with
      | ins _ w _ W hcs hw => simp [hp c (by simpa using hc)] at hcs
      | keep _ _ W _ => simp [spanLen, hc]

/-! ### literal prefixes (comment openers, quotes, operators) -/

def noSpace (lit : List Byte) : Prop := ∀ b ∈ lit, isSpace b = false

theorem isPrefixOf_false_ins : ∀ (lit s s' : List Byte), noSpace lit → Ins s s' → isPrefixOf lit s = false → isPrefixOf lit s' = false
  | [], _, _, _, _, h => by simp [isPrefixOf] at h
  | a :: as, [], s', _, hi, _ => by cases hi; rfl
  | a :: as, b :: bs, s', hl, hi, h => by
    cases hi with
    | ins _ w _ W hb hw =>
      have ha : isSpace a = false := hl a (by simp)
      have : a ≠ w := by intro e; rw [e] at ha; rw [ha] at hw; cases hw
      simp [isPrefixOf, this]
    | keep _ _ W hr =>
      by_cases e : a = b
      · subst e
        have h' : isPrefixOf as bs = false := by simpa [isPrefixOf] using h
        have := isPrefixOf_false_ins as bs W (fun x hx => hl x (by simp [hx])) hr h'
        simp [isPrefixOf, this]
      · simp [isPrefixOf, e]

theorem isPrefixOf_true_kept : ∀ (lit s s' : List Byte) (n : Nat), lit.length ≤ n → Kept n s s' → isPrefixOf lit s = true → isPrefixOf lit s' = true
  | [], _, _, _, _, _, _ => by simp [isPrefixOf]
  | _ :: _, [], _, _, _, _, h => by simp [isPrefixOf] at h
  | a :: as, b :: bs, s', n, hn, hk, h => by
    cases n with
    | zero => simp at hn
    | succ n =>
      obtain ⟨r', rfl, hk'⟩ := hk.succ_cons
      simp only [isPrefixOf, Bool.and_eq_true, decide_eq_true_eq] at h ⊢
      exact ⟨h.1, isPrefixOf_true_kept as bs r' n (by simpa using hn) hk' h.2⟩

/-- the operator scan picks the same entry -/
theorem scanOp_kept (ops : List (List Byte × List Byte)) (hT : ∀ p ∈ ops, p.1 = p.2 ∧ p.1 ≠ []) (hS : ∀ p ∈ ops, noSpace p.1)
    (s s' tok : List Byte) (h : scanOp ops s = some tok) (hk : Kept tok.length s s') : scanOp ops s' = some tok := by
  induction ops with
  | nil => simp [scanOp] at h
  | cons p ps ih =>
    obtain ⟨lit, t⟩ := p
    simp only [scanOp] at h ⊢
    by_cases hp : isPrefixOf lit s = true
    · simp only [hp, if_true, Option.some.injEq] at h
      subst h
      have e : lit = t := (hT (lit, t) (by simp)).1
      have := isPrefixOf_true_kept lit s s' t.length (by rw [e]; exact Nat.le_refl _) hk hp
      simp [this]
    · have hp' : isPrefixOf lit s = false := by simpa using hp
      simp only [hp', Bool.false_eq_true, if_false] at h
      have := isPrefixOf_false_ins lit s s' (hS (lit, t) (by simp)) hk.ins hp'
      simp only [this, Bool.false_eq_true, if_false]
      exact ih (fun q hq => hT q (by simp [hq])) (fun q hq => hS q (by simp [hq])) h

theorem scanOp_none_ins (ops : List (List Byte × List Byte)) (hS : ∀ p ∈ ops, noSpace p.1)
    (s s' : List Byte) (h : scanOp ops s = none) (hi : Ins s s') : scanOp ops s' = none := by
  induction ops with
  | nil => rfl
  | cons p ps ih =>
    obtain ⟨lit, t⟩ := p
    simp only [scanOp] at h ⊢
    by_cases hp : isPrefixOf lit s = true
    · simp [hp] at h
    · have hp' : isPrefixOf lit s = false := by simpa using hp
      simp only [hp', Bool.false_eq_true, if_false] at h
      have := isPrefixOf_false_ins lit s s' (hS (lit, t) (by simp)) hi hp'
      simp only [this, Bool.false_eq_true, if_false]
      exact ih (fun q hq => hS q (by simp [hq])) h

/-! ### scanners whose match is determined by the bytes they consume -/

theorem findByte_prefix (a : Byte) : ∀ (s X : List Byte) (k : Nat), findByte a s = some k → findByte a (s.take (k + 1) ++ X) = some k
  | [], _, _, h => by simp [findByte] at h
  | x :: r, X, k, h => by
    simp only [findByte] at h
    by_cases e : x = a
    · simp only [e, if_true, Option.some.injEq] at h
      subst h
      simp [findByte, e]
    · simp only [e, if_false, Option.map_eq_some_iff] at h
      obtain ⟨j, hj, rfl⟩ := h
      have := findByte_prefix a r X j hj
      simp [findByte, e, this]

theorem findPair_prefix (a b : Byte) : ∀ (s X : List Byte) (k : Nat), findPair a b s = some k → findPair a b (s.take (k + 2) ++ X) = some k
  | [], _, _, h => by simp [findPair] at h
  | [_], _, _, h => by simp [findPair] at h
  | x :: y :: r, X, k, h => by
    simp only [findPair] at h
    by_cases e : (x = a && y = b) = true
    · simp only [e, if_true, Option.some.injEq] at h
      subst h
      simp only [Nat.zero_add, List.take_succ_cons, List.take_zero, List.cons_append, List.nil_append, findPair, e, if_true]
    · simp only [e, Bool.false_eq_true, if_false, Option.map_eq_some_iff] at h
      obtain ⟨j, hj, rfl⟩ := h
      have ih := findPair_prefix a b (y :: r) X j hj
      have e' : (x = a && y = b) = false := by simpa using e
      have : List.take (j + 1 + 2) (x :: y :: r) ++ X = x :: (List.take (j + 2) (y :: r) ++ X) := by simp
      rw [this]
      have hs : List.take (j + 2) (y :: r) ++ X = y :: (List.take (j + 1) r ++ X) := by simp
      rw [hs] at ih ⊢
      simp only [findPair, e', Bool.false_eq_true, if_false, ih, Option.map_some]

/-! ### numbers -/

theorem Ins.cons_ne_nil {c : Byte} {r W : List Byte} (h : Ins (c :: r) W) : ∃ x W', W = x :: W' := by
  cases h with
  | ins _ w _ W' _ _ => exact ⟨w, W', rfl⟩
  | keep _ _ W' _ => exact ⟨c, W', rfl⟩

theorem Kept.cons_ne_nil {n : Nat} {c : Byte} {r s' : List Byte} (h : Kept n (c :: r) s') : ∃ x W', s' = x :: W' :=
  h.ins.cons_ne_nil

theorem space_ne_95 {w : Byte} (h : isSpace w = true) : w ≠ 95 := by
  intro e; subst e; simp [isSpace] at h

theorem digitsTail_kept (p : Byte → Bool) (hp : ∀ w, isSpace w = true → p w = false) :
    ∀ (s s' : List Byte), Kept (digitsTail p s) s s' → digitsTail p s' = digitsTail p s
  | [], s', h => by have := h.ins; cases this; rfl
  | [c], s', h => by
    by_cases hc : p c = true
    · have e : digitsTail p [c] = 1 := by simp [digitsTail, hc]
      rw [e] at h
      obtain ⟨r', rfl, hk⟩ := h.succ_cons
      have := hk.ins; cases this
      rfl
    · have e : digitsTail p [c] = 0 := by simp [digitsTail, hc]
      rw [e] at h ⊢
      have hi := h.ins
      cases hi with
      | ins _ w _ W _ hw =>
        have h1 := hp w hw
        have h2 := space_ne_95 hw
        cases W with
        | nil => simp [digitsTail, h1]
        | cons d W' => simp [digitsTail, h1, h2]
      | keep _ _ W hW => cases hW; simp [digitsTail, hc]
  | c :: d :: rest, s', h => by
    by_cases hc : p c = true
    · have e : digitsTail p (c :: d :: rest) = digitsTail p (d :: rest) + 1 := by simp [digitsTail, hc]
      rw [e] at h
      obtain ⟨r', rfl, hk⟩ := h.succ_cons
      obtain ⟨x, W', rfl⟩ := hk.cons_ne_nil
      have ih := digitsTail_kept p hp (d :: rest) (x :: W') hk
      simp [digitsTail, hc, ih]
    · by_cases hu : (c = 95 && p d) = true
      · have e : digitsTail p (c :: d :: rest) = digitsTail p rest + 2 := by simp [digitsTail, hc, hu]
        rw [e] at h
        obtain ⟨r1, rfl, hk1⟩ := h.succ_cons
        obtain ⟨r2, rfl, hk2⟩ := hk1.succ_cons
        have ih := digitsTail_kept p hp rest r2 hk2
        simp [digitsTail, hc, hu, ih]
      · have e : digitsTail p (c :: d :: rest) = 0 := by simp [digitsTail, hc, hu]
        rw [e] at h ⊢
        have hi := h.ins
        cases hi with
        | ins _ w _ W _ hw =>
          have h1 := hp w hw
          have h2 := space_ne_95 hw
          cases W with
          | nil => simp [digitsTail, h1]
          | cons d' W' => simp [digitsTail, h1, h2]
        | keep _ _ W hW =>
          cases hW with
          | ins _ w _ W' _ hw =>
            have h1 := hp w hw
            simp [digitsTail, hc, h1]
          | keep _ _ W' _ => simp [digitsTail, hc, hu]
termination_by s => s.length

theorem digitsRun_kept (p : Byte → Bool) (hp : ∀ w, isSpace w = true → p w = false) :
    ∀ (s s' : List Byte), Kept (digitsRun p s) s s' → digitsRun p s' = digitsRun p s
  | [], s', h => by have := h.ins; cases this; rfl
  | c :: r, s', h => by
    by_cases hc : p c = true
    · have e : digitsRun p (c :: r) = digitsTail p r + 1 := by simp [digitsRun, hc]; omega
      rw [e] at h
      obtain ⟨r', rfl, hk⟩ := h.succ_cons
      simp [digitsRun, hc, digitsTail_kept p hp r r' hk]
    · have e : digitsRun p (c :: r) = 0 := by simp [digitsRun, hc]
      rw [e] at h ⊢
      have hi := h.ins
      cases hi with
      | ins _ w _ W _ hw => simp [digitsRun, hp w hw]
      | keep _ _ W _ => simp [digitsRun, hc]

theorem Kept.drop : ∀ (a b : Nat) (s s' : List Byte), Kept (a + b) s s' → Kept b (s.drop a) (s'.drop a)
  | 0, b, s, s', h => by simpa using h
  | a + 1, b, [], s', h => by
    have := h.ins; cases this
    exact ⟨[], by simp, by simpa using Ins.nil⟩
  | a + 1, b, c :: r, s', h => by
    have h' : Kept ((a + b) + 1) (c :: r) s' := by rwa [Nat.add_right_comm] at h
    obtain ⟨r', rfl, hk⟩ := h'.succ_cons
    simpa using Kept.drop a b r r' hk

theorem isDigit_space {w : Byte} (h : isSpace w = true) : isDigit w = false := by
  simp only [isSpace, Bool.or_eq_true, decide_eq_true_eq] at h
  rcases h with (((h | h) | h) | h) | h <;> subst h <;> decide
theorem isHex_space {w : Byte} (h : isSpace w = true) : isHex w = false := by
  simp only [isSpace, Bool.or_eq_true, decide_eq_true_eq] at h
  rcases h with (((h | h) | h) | h) | h <;> subst h <;> decide
theorem isOct_space {w : Byte} (h : isSpace w = true) : isOct w = false := by
  simp only [isSpace, Bool.or_eq_true, decide_eq_true_eq] at h
  rcases h with (((h | h) | h) | h) | h <;> subst h <;> decide
theorem isBin_space {w : Byte} (h : isSpace w = true) : isBin w = false := by
  simp only [isSpace, Bool.or_eq_true, decide_eq_true_eq] at h
  rcases h with (((h | h) | h) | h) | h <;> subst h <;> decide
theorem isIdCont_space {w : Byte} (h : isSpace w = true) : isIdCont w = false := by
  simp only [isSpace, Bool.or_eq_true, decide_eq_true_eq] at h
  rcases h with (((h | h) | h) | h) | h <;> subst h <;> decide
theorem space_ne {w : Byte} (h : isSpace w = true) (c : Byte) (hc : isSpace c = false) : w ≠ c := by
  intro e; subst e; rw [h] at hc; cases hc

theorem fracLen_kept : ∀ (s s' : List Byte), Kept (fracLen s) s s' → fracLen s' = fracLen s
  | [], s', h => by have := h.ins; cases this; rfl
  | c :: r, s', h => by
    by_cases hc : c = 46
    · subst hc
      by_cases hk : digitsRun isDigit r = 0
      · have e : fracLen (46 :: r) = 0 := by simp [fracLen, hk]
        rw [e] at h ⊢
        have hi := h.ins
        cases hi with
        | ins _ w _ W _ hw =>
          have : w ≠ 46 := space_ne hw 46 (by decide)
          cases W <;> simp [fracLen, this]
        | keep _ _ W hW =>
          have := digitsRun_kept isDigit (fun w hw => isDigit_space hw) r W (by rw [hk]; exact Kept.of_ins hW)
          simp [fracLen, this, hk]
      · have e : fracLen (46 :: r) = 1 + digitsRun isDigit r := by simp [fracLen, hk]
        rw [e, Nat.add_comm] at h
        obtain ⟨r', rfl, hk'⟩ := h.succ_cons
        have := digitsRun_kept isDigit (fun w hw => isDigit_space hw) r r' hk'
        simp [fracLen, this, hk]
    · have e : fracLen (c :: r) = 0 := by
        unfold fracLen; split
        · rename_i heq; cases heq; exact absurd rfl hc
        · rfl
      rw [e] at h ⊢
      have hi := h.ins
      cases hi with
      | ins _ w _ W _ hw =>
        have : w ≠ 46 := space_ne hw 46 (by decide)
        unfold fracLen; split
        · rename_i heq; cases heq; exact absurd rfl this
        · rfl
      | keep _ _ W _ =>
        unfold fracLen; split
        · rename_i heq; cases heq; exact absurd rfl hc
        · rfl

theorem expLen_of_not_e {c : Byte} (r : List Byte) (h : (c = 101 || c = 69) = false) : expLen (c :: r) = 0 := by
  simp only [expLen, h, Bool.false_eq_true, if_false]

theorem space_not_e {w : Byte} (hw : isSpace w = true) : (w = 101 || w = 69) = false := by
  have h1 := space_ne hw 101 (by decide); have h2 := space_ne hw 69 (by decide); simp [h1, h2]
theorem space_not_sign {w : Byte} (hw : isSpace w = true) : (w = 43 || w = 45) = false := by
  have h1 := space_ne hw 43 (by decide); have h2 := space_ne hw 45 (by decide); simp [h1, h2]

theorem digitsRun_space {w : Byte} (hw : isSpace w = true) (W : List Byte) : digitsRun isDigit (w :: W) = 0 := by
  simp [digitsRun, isDigit_space hw]

theorem expLen_kept : ∀ (s s' : List Byte), Kept (expLen s) s s' → expLen s' = expLen s
  | [], s', h => by have := h.ins; cases this; rfl
  | c :: r, s', h => by
    by_cases hc : (c = 101 || c = 69) = true
    · cases r with
      | nil =>
        have e : expLen [c] = 0 := by simp [expLen]
        rw [e] at h ⊢
        have hi := h.ins
        cases hi with
        | ins _ w _ W _ hw => exact expLen_of_not_e W (space_not_e hw)
        | keep _ _ W hW => cases hW; simp [expLen]
      | cons sg r' =>
        by_cases hs : (sg = 43 || sg = 45) = true
        · by_cases hk : digitsRun isDigit r' = 0
          · have e : expLen (c :: sg :: r') = 0 := by simp only [expLen, hc, hs, hk, if_true]
            rw [e] at h ⊢
            have hi := h.ins
            cases hi with
            | ins _ w _ W _ hw => exact expLen_of_not_e W (space_not_e hw)
            | keep _ _ W hW =>
              cases hW with
              | ins _ w _ W' _ hw =>
                simp only [expLen, hc, if_true, space_not_sign hw, Bool.false_eq_true, if_false, digitsRun_space hw]
              | keep _ _ W' hW' =>
                have := digitsRun_kept isDigit (fun w hw => isDigit_space hw) r' W' (by rw [hk]; exact Kept.of_ins hW')
                simp only [expLen, hc, hs, if_true, this, hk]
          · have e : expLen (c :: sg :: r') = digitsRun isDigit r' + 1 + 1 := by
              simp only [expLen, hc, hs, hk, if_true, if_false]; omega
            rw [e] at h
            obtain ⟨r1, rfl, hk1⟩ := h.succ_cons
            obtain ⟨r2, rfl, hk2⟩ := hk1.succ_cons
            have := digitsRun_kept isDigit (fun w hw => isDigit_space hw) r' r2 hk2
            simp only [expLen, hc, hs, if_true, this, hk, if_false]
        · have hs' : (sg = 43 || sg = 45) = false := by simpa using hs
          by_cases hk : digitsRun isDigit (sg :: r') = 0
          · have e : expLen (c :: sg :: r') = 0 := by simp only [expLen, hc, hs', hk, if_true, Bool.false_eq_true, if_false]
            rw [e] at h ⊢
            have hi := h.ins
            cases hi with
            | ins _ w _ W _ hw => exact expLen_of_not_e W (space_not_e hw)
            | keep _ _ W hW =>
              cases hW with
              | ins _ w _ W' _ hw =>
                simp only [expLen, hc, if_true, space_not_sign hw, Bool.false_eq_true, if_false, digitsRun_space hw]
              | keep _ _ W' hW' =>
                have := digitsRun_kept isDigit (fun w hw => isDigit_space hw) (sg :: r') (sg :: W') (by rw [hk]; exact Kept.of_ins (.keep _ _ _ hW'))
                simp only [expLen, hc, hs', if_true, Bool.false_eq_true, if_false, this, hk]
          · have e : expLen (c :: sg :: r') = digitsRun isDigit (sg :: r') + 1 := by
              simp only [expLen, hc, hs', hk, if_true, Bool.false_eq_true, if_false]; omega
            rw [e] at h
            obtain ⟨r1, rfl, hk1⟩ := h.succ_cons
            have hpos : digitsRun isDigit (sg :: r') = (digitsRun isDigit (sg :: r') - 1) + 1 := by omega
            rw [hpos] at hk1
            obtain ⟨r2, rfl, _⟩ := hk1.succ_cons
            rw [← hpos] at hk1
            have := digitsRun_kept isDigit (fun w hw => isDigit_space hw) (sg :: r') (sg :: r2) hk1
            simp only [expLen, hc, hs', if_true, Bool.false_eq_true, if_false, this, hk]
    · have hc' : (c = 101 || c = 69) = false := by simpa using hc
      rw [expLen_of_not_e r hc'] at h ⊢
      have hi := h.ins
      cases hi with
      | ins _ w _ W _ hw => exact expLen_of_not_e W (space_not_e hw)
      | keep _ _ W _ => exact expLen_of_not_e W hc'

theorem scanFloat_kept (s s' : List Byte) (n : Nat) (h : scanFloat s = some n) (hk : Kept n s s') : scanFloat s' = some n := by
  unfold scanFloat at h ⊢
  by_cases h0 : digitsRun isDigit s = 0
  · simp [h0] at h
  · simp only [h0, if_false, Option.some.injEq] at h
    subst h
    have k1 : Kept (digitsRun isDigit s) s s' := hk.mono (by omega)
    have e1 := digitsRun_kept isDigit (fun w hw => isDigit_space hw) s s' k1
    have k2 : Kept (fracLen (s.drop (digitsRun isDigit s)) + expLen ((s.drop (digitsRun isDigit s)).drop (fracLen (s.drop (digitsRun isDigit s)))))
        (s.drop (digitsRun isDigit s)) (s'.drop (digitsRun isDigit s)) :=
      Kept.drop _ _ s s' (by rwa [Nat.add_assoc] at hk)
    have e2 := fracLen_kept _ _ (k2.mono (by omega))
    have k3 := Kept.drop _ _ _ _ k2
    have e3 := expLen_kept _ _ k3
    simp only [e1, h0, if_false, e2, e3]

theorem scanPrefixed_kept (m1 m2 : Byte) (p : Byte → Bool) (hp : ∀ w, isSpace w = true → p w = false)
    (s s' : List Byte) (n : Nat) (h : scanPrefixed m1 m2 p s = some n) (hk : Kept n s s') : scanPrefixed m1 m2 p s' = some n := by
  unfold scanPrefixed at h
  split at h
  · rename_i m rest
    by_cases hm : (m = m1 || m = m2) = true
    · simp only [hm, if_true] at h
      by_cases h0 : digitsRun p rest = 0
      · simp [h0] at h
      · simp only [h0, if_false, Option.some.injEq] at h
        subst h
        rw [show 2 + digitsRun p rest = digitsRun p rest + 1 + 1 by omega] at hk
        obtain ⟨r1, rfl, hk1⟩ := hk.succ_cons
        obtain ⟨r2, rfl, hk2⟩ := hk1.succ_cons
        have := digitsRun_kept p hp rest r2 hk2
        simp only [scanPrefixed, hm, if_true, this, h0, if_false]
    · simp [hm] at h
  · cases h

/-- a prefixed form that does not match still does not match -/
theorem scanPrefixed_none_kept (m1 m2 : Byte) (p : Byte → Bool) (hp : ∀ w, isSpace w = true → p w = false)
    (hm1 : isSpace m1 = false) (hm2 : isSpace m2 = false)
    (s s' : List Byte) (h : scanPrefixed m1 m2 p s = none) (hk : Kept 1 s s') : scanPrefixed m1 m2 p s' = none := by
  cases s with
  | nil => have := hk.ins; cases this; rfl
  | cons c r =>
    obtain ⟨r', rfl, hk'⟩ := hk.succ_cons
    have hi := hk'.zero
    by_cases hc : c = 48
    · subst hc
      cases hi with
      | nil => simp [scanPrefixed]
      | ins m w r0 W _ hw =>
        have h1 := space_ne hw m1 hm1; have h2 := space_ne hw m2 hm2
        simp [scanPrefixed, h1, h2]
      | keep m r0 W hW =>
        simp only [scanPrefixed] at h ⊢
        by_cases hm : (m = m1 || m = m2) = true
        · simp only [hm, if_true] at h ⊢
          by_cases h0 : digitsRun p r0 = 0
          · have := digitsRun_kept p hp r0 W (by rw [h0]; exact Kept.of_ins hW)
            simp [this, h0]
          · simp [h0] at h
        · simp [hm]
    · unfold scanPrefixed
      split
      · rename_i heq; cases heq; exact absurd rfl hc
      · rfl

theorem scanUnsigned_kept (s s' : List Byte) (n : Nat) (h : scanUnsigned s = some n) (hk : Kept n s s') : scanUnsigned s' = some n := by
  have hb := (scanUnsigned_bounds h).1
  have k1 : Kept 1 s s' := hk.mono hb
  unfold scanUnsigned at h ⊢
  split at h
  · rename_i k hx; cases h
    rw [scanPrefixed_kept 120 88 isHex (fun w hw => isHex_space hw) s s' n hx hk]
  · rename_i hx
    rw [scanPrefixed_none_kept 120 88 isHex (fun w hw => isHex_space hw) (by decide) (by decide) s s' hx k1]
    split at h
    · rename_i k ho; cases h
      rw [scanPrefixed_kept 111 79 isOct (fun w hw => isOct_space hw) s s' n ho hk]
    · rename_i ho
      rw [scanPrefixed_none_kept 111 79 isOct (fun w hw => isOct_space hw) (by decide) (by decide) s s' ho k1]
      split at h
      · rename_i k hbn; cases h
        rw [scanPrefixed_kept 98 66 isBin (fun w hw => isBin_space hw) s s' n hbn hk]
      · rename_i hbn
        rw [scanPrefixed_none_kept 98 66 isBin (fun w hw => isBin_space hw) (by decide) (by decide) s s' hbn k1]
        exact scanFloat_kept s s' n h hk

theorem scanNumber_kept (s s' : List Byte) (n : Nat) (h : scanNumber s = some n) (hk : Kept n s s') : scanNumber s' = some n := by
  unfold scanNumber at h
  split at h
  · rename_i rest
    simp only [Option.map_eq_some_iff] at h
    obtain ⟨k, hk0, rfl⟩ := h
    obtain ⟨r', rfl, hk'⟩ := hk.succ_cons
    simp [scanNumber, scanUnsigned_kept rest r' k hk0 hk']
  · rename_i hne
    have hb := (scanUnsigned_bounds h).1
    cases s with
    | nil => simp [scanUnsigned, scanPrefixed, scanFloat, digitsRun] at h
    | cons c r =>
      have hk1 := hk.mono hb
      obtain ⟨r', rfl, _⟩ := hk1.succ_cons
      have hc : c ≠ 45 := by intro e; subst e; exact hne r rfl
      have := scanUnsigned_kept (c :: r) (c :: r') n h hk
      unfold scanNumber
      split
      · rename_i heq; cases heq; exact absurd rfl hc
      · exact this

/-- what it takes for the number pattern not to match -/
theorem scanUnsigned_none_head (c : Byte) (r : List Byte) (h : scanUnsigned (c :: r) = none) : isDigit c = false := by
  cases hd : isDigit c with
  | false => rfl
  | true =>
    have : scanFloat (c :: r) ≠ none := by simp [scanFloat, digitsRun, hd]
    unfold scanUnsigned at h
    split at h
    · cases h
    · split at h
      · cases h
      · split at h
        · cases h
        · exact absurd h this

theorem scanUnsigned_of_not_digit (c : Byte) (r : List Byte) (h : isDigit c = false) : scanUnsigned (c :: r) = none := by
  have h48 : c ≠ 48 := by intro e; subst e; simp [isDigit] at h
  have hp : ∀ m1 m2 p, scanPrefixed m1 m2 p (c :: r) = none := by
    intro m1 m2 p; unfold scanPrefixed; split
    · rename_i heq; cases heq; exact absurd rfl h48
    · rfl
  simp [scanUnsigned, hp, scanFloat, digitsRun, h]

theorem scanNumber_none_kept (s s' : List Byte) (h : scanNumber s = none) (hk : Kept 1 s s') : scanNumber s' = none := by
  cases s with
  | nil => have := hk.ins; cases this; rfl
  | cons c r =>
    obtain ⟨r', rfl, hk'⟩ := hk.succ_cons
    by_cases hc : c = 45
    · subst hc
      simp only [scanNumber, Option.map_eq_none_iff] at h ⊢
      have hi := hk'.zero
      cases hi with
      | nil => simp [scanUnsigned, scanPrefixed, scanFloat, digitsRun]
      | ins d w r0 W _ hw => exact scanUnsigned_of_not_digit w W (isDigit_space hw)
      | keep d r0 W _ => exact scanUnsigned_of_not_digit d W (scanUnsigned_none_head d r0 h)
    · have e : ∀ t, scanNumber (c :: t) = scanUnsigned (c :: t) := by
        intro t; unfold scanNumber; split
        · rename_i heq; cases heq; exact absurd rfl hc
        · rfl
      rw [e] at h ⊢
      exact scanUnsigned_of_not_digit c r' (scanUnsigned_none_head c r h)

/-! ### identifiers, white space, comments, strings, byte literals -/

theorem scanIdent_kept (s s' : List Byte) (n : Nat) (h : scanIdent s = some n) (hk : Kept n s s') : scanIdent s' = some n := by
  cases s with
  | nil => simp [scanIdent] at h
  | cons c r =>
    simp only [scanIdent] at h
    by_cases hc : isIdStart c = true
    · simp only [hc, if_true, Option.some.injEq] at h
      subst h
      rw [Nat.add_comm] at hk
      obtain ⟨r', rfl, hk'⟩ := hk.succ_cons
      simp [scanIdent, hc, spanLen_kept isIdCont (fun w hw => isIdCont_space hw) r r' hk']
    · simp [hc] at h

theorem scanIdent_none_kept (s s' : List Byte) (h : scanIdent s = none) (hk : Kept 1 s s') : scanIdent s' = none := by
  cases s with
  | nil => have := hk.ins; cases this; rfl
  | cons c r =>
    obtain ⟨r', rfl, _⟩ := hk.succ_cons
    simp only [scanIdent] at h ⊢
    by_cases hc : isIdStart c = true
    · simp [hc] at h
    · simp [hc]

theorem scanWs_none_kept (s s' : List Byte) (h : scanWs s = none) (hk : Kept 1 s s') : scanWs s' = none := by
  cases s with
  | nil => have := hk.ins; cases this; rfl
  | cons c r =>
    obtain ⟨r', rfl, _⟩ := hk.succ_cons
    by_cases hc : isSpace c = true
    · simp [scanWs, spanLen, hc] at h
    · simp [scanWs, spanLen, hc]

theorem scanLineComment_none_iff (s : List Byte) : scanLineComment s = none ↔ isPrefixOf [47, 47] s = false := by
  unfold scanLineComment
  split
  · simp [isPrefixOf]
  · rename_i hne
    constructor
    · intro _
      cases s with
      | nil => rfl
      | cons a r =>
        cases r with
        | nil => simp [isPrefixOf]
        | cons b r' =>
          cases hp : isPrefixOf [47, 47] (a :: b :: r') with
          | false => rfl
          | true =>
            simp only [isPrefixOf, Bool.and_eq_true, decide_eq_true_eq, Bool.and_true] at hp
            obtain ⟨h1, h2⟩ := hp
            exact absurd (by rw [← h1, ← h2]) (hne r')
    · intro _; rfl

theorem noSpace_4747 : noSpace [47, 47] := by intro b hb; simp at hb; rcases hb with rfl | rfl <;> decide
theorem noSpace_4742 : noSpace [47, 42] := by intro b hb; simp at hb; rcases hb with rfl | rfl <;> decide

theorem scanLineComment_none_ins (s s' : List Byte) (h : scanLineComment s = none) (hi : Ins s s') : scanLineComment s' = none :=
  (scanLineComment_none_iff s').mpr (isPrefixOf_false_ins _ s s' noSpace_4747 hi ((scanLineComment_none_iff s).mp h))

theorem scanLineComment_kept (s s' : List Byte) (n : Nat) (h : scanLineComment s = some n) (hk : Kept n s s') : scanLineComment s' = some n := by
  unfold scanLineComment at h
  split at h
  · rename_i rest
    simp only [Option.some.injEq] at h
    subst h
    rw [show 2 + spanLen (fun c => !(c = 10 || c = 13)) rest = spanLen (fun c => !(c = 10 || c = 13)) rest + 1 + 1 by omega] at hk
    obtain ⟨r1, rfl, hk1⟩ := hk.succ_cons
    obtain ⟨r2, rfl, hk2⟩ := hk1.succ_cons
    have := spanLen_kept_stop (fun c => !(c = 10 || c = 13)) (by
      intro c hc
      simp only [Bool.not_eq_eq_eq_not, Bool.not_false, Bool.or_eq_true, decide_eq_true_eq] at hc
      rcases hc with rfl | rfl <;> decide) rest r2 hk2
    simp only [scanLineComment, this]
  · cases h

theorem scanBlockComment_kept (s s' : List Byte) (n : Nat) (h : scanBlockComment s = some n) (hk : Kept n s s') : scanBlockComment s' = some n := by
  unfold scanBlockComment at h
  split at h
  · rename_i rest
    simp only [Option.map_eq_some_iff] at h
    obtain ⟨k, hk0, rfl⟩ := h
    obtain ⟨W, rfl, _⟩ := hk
    have : List.take (k + 4) (47 :: 42 :: rest) ++ W = 47 :: 42 :: (List.take (k + 2) rest ++ W) := by simp
    rw [this]
    simp [scanBlockComment, findPair_prefix 42 47 rest W k hk0]
  · cases h

/-- without the opener `/*` there is no block comment, before and after -/
theorem scanBlockComment_none_of_prefix (s : List Byte) (h : isPrefixOf [47, 42] s = false) : scanBlockComment s = none := by
  unfold scanBlockComment
  split
  · simp [isPrefixOf] at h
  · rfl

theorem scanString_kept (s s' : List Byte) (n : Nat) (h : scanString s = some n) (hk : Kept n s s') : scanString s' = some n := by
  unfold scanString at h
  split at h
  · rename_i rest
    simp only [Option.map_eq_some_iff] at h
    obtain ⟨k, hk0, rfl⟩ := h
    obtain ⟨W, rfl, _⟩ := hk
    have : List.take (k + 2) (34 :: rest) ++ W = 34 :: (List.take (k + 1) rest ++ W) := by simp
    rw [this]
    simp [scanString, findByte_prefix 34 rest W k hk0]
  · cases h

theorem scanString_none_of_head (c : Byte) (r : List Byte) (h : c ≠ 34) : scanString (c :: r) = none := by
  unfold scanString; split
  · rename_i heq; cases heq; exact absurd rfl h
  · rfl

theorem scanByte_none_of_head (c : Byte) (r : List Byte) (h : c ≠ 39) : scanByte (c :: r) = none := by
  unfold scanByte; split
  · rename_i heq; cases heq; exact absurd rfl h
  · rfl

theorem byteAlt1_shape (rest : List Byte) (h : byteAlt1 rest = true) :
    ∃ h1 h2 X, rest = 92 :: 120 :: h1 :: h2 :: 39 :: X ∧ (isHex h1 && isHex h2) = true := by
  unfold byteAlt1 at h
  split at h
  · rename_i h1 h2 X; exact ⟨h1, h2, X, rfl, h⟩
  · cases h

theorem byteAlt2_shape (rest : List Byte) (h : byteAlt2 rest = true) : ∃ c X, rest = 92 :: c :: 39 :: X ∧ c ≠ 10 := by
  unfold byteAlt2 at h
  split at h
  · rename_i c X; exact ⟨c, X, rfl, by simpa using h⟩
  · cases h

theorem byteAlt3_shape (rest : List Byte) (h : byteAlt3 rest = true) : ∃ c X, rest = c :: 39 :: X ∧ c ≤ 127 := by
  unfold byteAlt3 at h
  split at h
  · rename_i c X; exact ⟨c, X, rfl, by simpa using h⟩
  · cases h

theorem byteAlt1_second (c d : Byte) (X : List Byte) (h : d ≠ 120) : byteAlt1 (c :: d :: X) = false := by
  unfold byteAlt1; split
  · rename_i heq; cases heq; exact absurd rfl h
  · rfl

theorem byteAlt1_third39 (c d : Byte) (X : List Byte) : byteAlt1 (c :: d :: 39 :: X) = false := by
  unfold byteAlt1; split
  · rename_i h1 h2 _ heq; cases heq; simp [isHex, isDigit]
  · rfl

theorem byteAlt2_depends (a b c : Byte) (X Y : List Byte) : byteAlt2 (a :: b :: c :: X) = byteAlt2 (a :: b :: c :: Y) := by
  unfold byteAlt2
  split
  · rename_i heq; cases heq; rfl
  · rename_i hne
    split
    · rename_i heq; cases heq; exact absurd rfl (hne _ _)
    · rfl

theorem byteAlt2_third (a b c : Byte) (X : List Byte) (h : c ≠ 39) : byteAlt2 (a :: b :: c :: X) = false := by
  unfold byteAlt2; split
  · rename_i heq; cases heq; exact absurd rfl h
  · rfl

theorem byteAlt2_short (a b : Byte) : byteAlt2 [a, b] = false := by
  unfold byteAlt2; split
  · rename_i heq; cases heq
  · rfl

theorem scanByte_kept (s s' : List Byte) (n : Nat) (h : scanByte s = some n) (hk : Kept n s s') : scanByte s' = some n := by
  unfold scanByte at h
  split at h
  · rename_i rest
    by_cases a1 : byteAlt1 rest = true
    · simp only [a1, if_true, Option.some.injEq] at h
      subst h
      obtain ⟨h1, h2, X, rfl, hh⟩ := byteAlt1_shape rest a1
      obtain ⟨W, rfl, _⟩ := hk
      simp [scanByte, byteAlt1, hh]
    · have a1' : byteAlt1 rest = false := by simpa using a1
      simp only [a1', Bool.false_eq_true, if_false] at h
      by_cases a2 : byteAlt2 rest = true
      · simp only [a2, if_true, Option.some.injEq] at h
        subst h
        obtain ⟨c, X, rfl, hc⟩ := byteAlt2_shape rest a2
        obtain ⟨W, rfl, _⟩ := hk
        have e : List.take 4 (39 :: 92 :: c :: 39 :: X) ++ W = 39 :: 92 :: c :: 39 :: W := by simp
        rw [e]
        have b1 := byteAlt1_third39 92 c W
        simp [scanByte, b1, byteAlt2, hc]
      · have a2' : byteAlt2 rest = false := by simpa using a2
        simp only [a2', Bool.false_eq_true, if_false] at h
        by_cases a3 : byteAlt3 rest = true
        · simp only [a3, if_true, Option.some.injEq] at h
          subst h
          obtain ⟨c, X, rfl, hc⟩ := byteAlt3_shape rest a3
          obtain ⟨W, rfl, hW⟩ := hk
          have e : List.take 3 (39 :: c :: 39 :: X) ++ W = 39 :: c :: 39 :: W := by simp
          rw [e]
          have hW' : Ins X W := by simpa using hW
          have b1 := byteAlt1_second c 39 W (by decide)
          have b2 : byteAlt2 (c :: 39 :: W) = false := by
            cases hW' with
            | nil => exact byteAlt2_short c 39
            | ins x w r0 W0 _ hw => exact byteAlt2_third c 39 w W0 (space_ne hw 39 (by decide))
            | keep x r0 W0 _ => rw [byteAlt2_depends c 39 x W0 r0]; exact a2'
          simp [scanByte, b1, b2, byteAlt3, hc]
        · simp [a3] at h
  · cases h

/-! ### one step -/

theorem Kept.take {n : Nat} {s s' : List Byte} (h : Kept n s s') (hn : n ≤ s.length) : s'.take n = s.take n := by
  obtain ⟨W, rfl, _⟩ := h
  rw [List.take_append_of_le_length (by simp [hn])]
  simp [List.take_take]

theorem take_pred_of_take (n : Nat) (a b : List Byte) (h : a.take n = b.take n) : a.take (n - 1) = b.take (n - 1) := by
  have := congrArg (List.take (n - 1)) h
  simpa [List.take_take, Nat.min_eq_left (Nat.sub_le n 1)] using this

/-- an opener of a string, byte literal or block comment that is not closed: white space and comments inserted behind it
    could close it -/
def openUnclosed (s : List Byte) : Bool :=
  (s.head? == some 34 && (scanString s).isNone) || (s.head? == some 39 && (scanByte s).isNone) ||
  (isPrefixOf [47, 42] s && (scanBlockComment s).isNone)

def opsNoSpace (T : Tables) : Prop := ∀ p ∈ T.ops, noSpace p.1

theorem step_kept (T : Tables) (hT : TablesOk T) (hS : opsNoSpace T) (c : Byte) (r s' : List Byte)
    (hws : scanWs (c :: r) = none) (hclean : openUnclosed (c :: r) = false)
    (hk : Kept (step T (c :: r)).n (c :: r) s') : step T s' = step T (c :: r) := by
  have hb := step_bounds T hT (c :: r) (by simp)
  have hk1 : Kept 1 (c :: r) s' := hk.mono hb.1
  have htake := hk.take hb.2
  obtain ⟨r', rfl, _⟩ := hk1.succ_cons
  simp only [openUnclosed, List.head?_cons, Bool.or_eq_false_iff, Bool.and_eq_false_iff] at hclean
  obtain ⟨⟨hcs, hcb⟩, hcc⟩ := hclean
  have w' := scanWs_none_kept _ _ hws hk1
  unfold step at hk htake ⊢
  simp only [hws, w'] at hk htake ⊢
  cases hl : scanLineComment (c :: r) with
  | some n =>
    simp only [hl] at hk htake ⊢
    simp only [scanLineComment_kept _ _ n hl hk, htake]
  | none =>
    simp only [hl] at hk htake ⊢
    simp only [scanLineComment_none_ins _ _ hl hk1.ins]
    cases hbc : scanBlockComment (c :: r) with
    | some n =>
      simp only [hbc] at hk htake ⊢
      simp only [scanBlockComment_kept _ _ n hbc hk, htake]
    | none =>
      simp only [hbc] at hk htake ⊢
      have hpre : isPrefixOf [47, 42] (c :: r) = false := by
        rcases hcc with h | h
        · exact h
        · simp [hbc] at h
      have := scanBlockComment_none_of_prefix (c :: r') (isPrefixOf_false_ins _ _ _ noSpace_4742 hk1.ins hpre)
      simp only [this]
      cases hst : scanString (c :: r) with
      | some n =>
        simp only [hst] at hk htake ⊢
        simp only [scanString_kept _ _ n hst hk, take_pred_of_take n _ _ htake]
      | none =>
        simp only [hst] at hk htake ⊢
        have hc34 : c ≠ 34 := by
          rcases hcs with h | h
          · simpa using h
          · simp [hst] at h
        simp only [scanString_none_of_head c r' hc34]
        cases hby : scanByte (c :: r) with
        | some n =>
          simp only [hby] at hk htake ⊢
          simp only [scanByte_kept _ _ n hby hk, take_pred_of_take n _ _ htake]
        | none =>
          simp only [hby] at hk htake ⊢
          have hc39 : c ≠ 39 := by
            rcases hcb with h | h
            · simpa using h
            · simp [hby] at h
          simp only [scanByte_none_of_head c r' hc39]
          cases hnu : scanNumber (c :: r) with
          | some n =>
            simp only [hnu] at hk htake ⊢
            simp only [scanNumber_kept _ _ n hnu hk, htake]
          | none =>
            simp only [hnu] at hk htake ⊢
            simp only [scanNumber_none_kept _ _ hnu hk1]
            cases hid : scanIdent (c :: r) with
            | some n =>
              simp only [hid] at hk htake ⊢
              simp only [scanIdent_kept _ _ n hid hk, htake]
            | none =>
              simp only [hid] at hk htake ⊢
              simp only [scanIdent_none_kept _ _ hid hk1]
              cases hop : scanOp T.ops (c :: r) with
              | some op =>
                simp only [hop] at hk htake ⊢
                simp only [scanOp_kept T.ops hT hS _ _ op hop hk]
              | none =>
                simp only [hop] at hk htake ⊢
                simp only [scanOp_none_ins T.ops hS _ _ hop hk1.ins]

/-! ### weaving trivia into a text -/

/-- trivia that may be put in front of a token: empty, or starting with a white-space byte -/
def SepTrivia (t : List Byte) : Prop := t = [] ∨ ∃ w r, t = w :: r ∧ isSpace w = true ∧ Trivia t

theorem SepTrivia.trivia {t : List Byte} (h : SepTrivia t) : Trivia t := by
  rcases h with rfl | ⟨_, _, _, _, ht⟩
  · exact .nil
  · exact ht

/-- re-runs the lexer on `s` and re-emits its chunks, putting `tv off` in front of every chunk that yields a
    significant token or a lexer error (`off` = byte offset of the chunk in `s`) -/
def isSig (T : Tables) (s : List Byte) : Bool :=
  match (step T s).tok with
  | some (k, _) => k != .comment
  | none => (step T s).err

def weave (T : Tables) (tv : Nat → List Byte) : Nat → Nat → List Byte → List Byte
  | 0, _, s => s
  | _, _, [] => []
  | fuel + 1, off, s@(_ :: _) =>
    (if isSig T s then tv off else []) ++ s.take (step T s).n ++ weave T tv fuel (off + (step T s).n) (s.drop (step T s).n)

/-- no unterminated string / byte-literal / block-comment opener at any chunk start -/
def cleanRun (T : Tables) : Nat → List Byte → Bool
  | 0, _ => true
  | _, [] => true
  | fuel + 1, s@(_ :: _) => !openUnclosed s && cleanRun T fuel (s.drop (step T s).n)

theorem step_of_ws (T : Tables) (s : List Byte) (n : Nat) (h : scanWs s = some n) : step T s = ⟨n, none, false⟩ := by
  unfold step; simp only [h]

theorem scanWs_none_head (c : Byte) (r : List Byte) (h : scanWs (c :: r) = none) : isSpace c = false := by
  cases hc : isSpace c with
  | false => rfl
  | true => simp [scanWs, spanLen, hc] at h

theorem weave_ins (T : Tables) (tv : Nat → List Byte) (htv : ∀ i, SepTrivia (tv i)) :
    ∀ (fuel off : Nat) (s : List Byte), Ins s (weave T tv fuel off s)
  | 0, _, s => by simpa [weave] using Ins.refl s
  | _ + 1, _, [] => by simpa [weave] using Ins.nil
  | fuel + 1, off, c :: r => by
    simp only [weave]
    have ih := weave_ins T tv htv fuel (off + (step T (c :: r)).n) ((c :: r).drop (step T (c :: r)).n)
    have hbody : Ins (c :: r) ((c :: r).take (step T (c :: r)).n ++ weave T tv fuel (off + (step T (c :: r)).n) ((c :: r).drop (step T (c :: r)).n)) := by
      have := Ins.append_left ((c :: r).take (step T (c :: r)).n) ih
      rwa [List.take_append_drop] at this
    by_cases hsig : isSig T (c :: r) = true
    · simp only [hsig, if_true]
      rcases htv off with he | ⟨w, t, he, hw, _⟩
      · rw [he]; simpa using hbody
      · rw [he]
        have hc : isSpace c = false := by
          cases hws : scanWs (c :: r) with
          | none => exact scanWs_none_head c r hws
          | some n => simp [isSig, step_of_ws T _ n hws] at hsig
        simpa using Ins.ins c w r _ hc hw
    · simp only [hsig, Bool.false_eq_true, if_false]
      simpa using hbody
termination_by fuel _ _ => fuel

theorem spanLen_take_all (p : Byte → Bool) : ∀ s : List Byte, ∀ b ∈ s.take (spanLen p s), p b = true
  | [], b, hb => by simp [spanLen] at hb
  | c :: r, b, hb => by
    by_cases hc : p c = true
    · simp only [spanLen, hc, if_true, List.take_succ_cons, List.mem_cons] at hb
      rcases hb with rfl | hb
      · exact hc
      · exact spanLen_take_all p r b hb
    · simp [spanLen, hc] at hb

theorem trivia_of_spaces : ∀ t : List Byte, (∀ b ∈ t, isSpace b = true) → Trivia t
  | [], _ => .nil
  | w :: t, h => .ws w t (h w (by simp)) (trivia_of_spaces t (fun b hb => h b (by simp [hb])))

theorem sigStep_of_step_eq (T : Tables) (a b : List Byte) (h : step T a = step T b) : sigStep T a = sigStep T b := by
  unfold sigStep stepToks
  rw [h]
  cases (step T b).tok with
  | none => rfl
  | some kv =>
    obtain ⟨k, v⟩ := kv
    cases hkk : (k != Kind.comment && k != Kind.eof) <;> simp [sigOf, List.filter, hkk]

/-- **Token-gap insertion is inert**: re-emitting a text with separator trivia put in front of any of its significant
    chunks leaves the significant tokens unchanged, provided no chunk starts with an unclosed opener. -/
theorem weave_sigs (T : Tables) (hT : TablesOk T) (hS : opsNoSpace T) (tv : Nat → List Byte) (htv : ∀ i, SepTrivia (tv i)) :
    ∀ (fuel off : Nat) (s : List Byte), s.length ≤ fuel → cleanRun T fuel s = true → sigs T (weave T tv fuel off s) = sigs T s
  | 0, _, s, hl, _ => by simp [weave]
  | _ + 1, _, [], _, _ => by simp [weave]
  | fuel + 1, off, c :: r, hl, hcl => by
    have hb := step_bounds T hT (c :: r) (by simp)
    simp only [cleanRun, Bool.and_eq_true, Bool.not_eq_true'] at hcl
    obtain ⟨hopen, hrest⟩ := hcl
    have hlen : ((c :: r).drop (step T (c :: r)).n).length ≤ fuel := by
      simp only [List.length_drop, List.length_cons] at hl ⊢; omega
    have ih := weave_sigs T hT hS tv htv fuel (off + (step T (c :: r)).n) _ hlen hrest
    have hins := weave_ins T tv htv fuel (off + (step T (c :: r)).n) ((c :: r).drop (step T (c :: r)).n)
    simp only [weave]
    rw [List.append_assoc]
    have hpre : ∀ X, sigs T ((if isSig T (c :: r) = true then tv off else []) ++ X) = sigs T X := by
      intro X
      by_cases hsig : isSig T (c :: r) = true
      · simp only [hsig, if_true]; exact leading_trivia_skipped T hT (htv off).trivia X
      · simp only [hsig, Bool.false_eq_true, if_false]; rfl
    rw [hpre]
    generalize hW : weave T tv fuel (off + (step T (c :: r)).n) ((c :: r).drop (step T (c :: r)).n) = W at ih hins ⊢
    rw [sigs_unfold T hT c r, ← ih]
    cases hws : scanWs (c :: r) with
    | some n =>
      have hst := step_of_ws T (c :: r) n hws
      have hn : n = spanLen isSpace (c :: r) := by
        simp only [scanWs] at hws
        by_cases h0 : spanLen isSpace (c :: r) = 0
        · simp [h0] at hws
        · simpa [h0] using hws.symm
      have htr : Trivia ((c :: r).take (step T (c :: r)).n) := by
        rw [hst]; simp only; rw [hn]
        exact trivia_of_spaces _ (spanLen_take_all isSpace (c :: r))
      rw [leading_trivia_skipped T hT htr]
      have : sigStep T (c :: r) = [] := by unfold sigStep stepToks; rw [hst]; rfl
      rw [this]; rfl
    | none =>
      have hk : Kept (step T (c :: r)).n (c :: r) ((c :: r).take (step T (c :: r)).n ++ W) := ⟨W, rfl, hins⟩
      have hstep := step_kept T hT hS c r _ hws hopen hk
      have hne : ∃ x X, (c :: r).take (step T (c :: r)).n ++ W = x :: X := by
        have h1 : 1 ≤ (step T (c :: r)).n := hb.1
        cases hn : (step T (c :: r)).n with
        | zero => omega
        | succ m => exact ⟨c, r.take m ++ W, by simp⟩
      obtain ⟨x, X, hx⟩ := hne
      rw [hx, sigs_unfold T hT x X, ← hx, sigStep_of_step_eq T _ _ hstep, hstep]
      congr 1
      have hl1 : ((c :: r).take (step T (c :: r)).n).length = (step T (c :: r)).n := by
        rw [List.length_take]; exact Nat.min_eq_left hb.2
      rw [List.drop_append_of_le_length (by rw [hl1]; exact Nat.le_refl _), List.drop_of_length_le (by rw [hl1]; exact Nat.le_refl _)]
      simp
termination_by fuel _ _ => fuel

end FerretVerif.Lexer
