import FerretVerif.Model.Toml

/-
  Proofs/Toml.lean — C20: the TOML writer/parser round trip at the text level.

  Domain predicates (all `Bool`, hence decidable): `okStr`, `bareKey`, `floatRaw`, `inInt64`,
  `writable`, `blanks`, `wfData`.
  The only assumption on `strconv.ParseFloat` is the hypothesis
  `hpf : ∀ t, floatRaw t = true → pf t = true` of the theorems (never an axiom).

  * value level : `atoi_itoa`, `formatFloat_shape`, `trimQuotes_quoted`, `parseValue_formatValue`
  * line level  : `parseLine_formatLine`, `parseLine_blanks_inert`, `parseLine_comment_inert`
                  (all three instances of `parseLine_general`), `parseLine_skip_blank`,
                  `parseLine_skip_comment`, `parseLine_ne_bad_of_eq`
  * text level  : `splitLines_line`, `parseText_formatLine`, `parseText_header`,
                  `parseText_sections`
  * file level  : `parseFile_writeFile_eq` (the parser ends with `finalData data`),
                  `parseFile_writeFile_ne_none`, `parseFile_writeFile_lookup` (every written key is
                  read back), `parseFile_writeFile_only` (no other key), `parseFile_writeFile_sections`
                  (no other section), `parse_total`
  Core-only.
-/
namespace FerretVerif.Toml

/-! ## Domain predicates -/

/-- a string value the writer can emit faithfully: no `"`, `\`, LF, CR, and not the text true/false -/
def okStr (s : List Char) : Bool :=
  s.all (fun c => c != '"' && c != '\\' && c != '\n' && c != '\r')
    && s != "true".toList && s != "false".toList

/-- `[A-Za-z0-9_-]` -/
def keyChar (c : Char) : Bool :=
  let n := c.toNat
  (65 ≤ n && n ≤ 90) || (97 ≤ n && n ≤ 122) || (48 ≤ n && n ≤ 57) || n == 95 || n == 45

def bareKey (k : List Char) : Bool := !k.isEmpty && k.all keyChar

/-- ≥ 1 decimal digits -/
def digits1 (s : List Char) : Bool := !s.isEmpty && s.all isDigit

/-- digits, optionally followed by `.` and digits -/
def unsignedFloat (s : List Char) : Bool :=
  let ip := s.takeWhile isDigit
  let rest := s.dropWhile isDigit
  digits1 ip && (rest.isEmpty || (rest.head? == some '.' && digits1 (rest.drop 1)))

/-- shape of `strconv.FormatFloat(v,'f',-1,64)` for a finite `v`: `-?[0-9]+(\.[0-9]+)?` -/
def floatRaw (s : List Char) : Bool :=
  unsignedFloat (if s.head? == some '-' then s.drop 1 else s)

def inInt64 (i : Int) : Bool := decide (-(2 ^ 63 : Int) ≤ i) && decide (i ≤ 2 ^ 63 - 1)

def writable : WVal → Bool
  | .str s => okStr s
  | .bool _ => true
  | .int i => inInt64 i
  | .float raw => floatRaw raw

/-- white space that is not a line feed -/
def blanks (ws : List Char) : Bool := ws.all (fun c => isSpace c && c != '\n')

example : okStr " a # b = [c] ".toList = true := by decide
example : okStr "true".toList = false := by decide
example : okStr "say \"hi\"".toList = false := by decide
example : bareKey "max-depth_2".toList = true := by decide
example : bareKey "a b".toList = false := by decide
example : bareKey [] = false := by decide
example : floatRaw "-12.5".toList = true := by decide
example : floatRaw "3".toList = true := by decide
example : floatRaw "0.000001".toList = true := by decide
example : floatRaw "1e21".toList = false := by decide
example : floatRaw "-.5".toList = false := by decide
example : floatRaw "5.".toList = false := by decide
example : floatRaw " 5".toList = false := by decide
example : floatRaw "+Inf".toList = false := by decide
example : inInt64 (-9223372036854775808) = true := by decide
example : inInt64 9223372036854775808 = false := by decide
example : blanks " \t ".toList = true := by decide
example : blanks " \n".toList = false := by decide

/-! ## Generic list facts -/

theorem dropWhile_head {p : Char → Bool} {l : List Char}
    (h : ∀ a, l.head? = some a → p a = false) : l.dropWhile p = l := by
  cases l with
  | nil => rfl
  | cons a r => simp [h a rfl]

theorem dropWhile_all_append {p : Char → Bool} {ws rest : List Char}
    (hw : ∀ c ∈ ws, p c = true) (h : ∀ a, rest.head? = some a → p a = false) :
    (ws ++ rest).dropWhile p = rest := by
  induction ws with
  | nil => exact dropWhile_head h
  | cons w ws ih =>
    have : p w = true := hw w (by simp)
    simp only [List.cons_append, List.dropWhile_cons, this, if_true]
    exact ih (fun c hc => hw c (by simp [hc]))

theorem dropWhile_append_stop {p : Char → Bool} {a : Char} (ha : p a = false) (Y Z : List Char) :
    ∃ Y', (Y ++ a :: Z).dropWhile p = Y' ++ a :: Z := by
  induction Y with
  | nil => exact ⟨[], by simp [ha]⟩
  | cons y Y ih =>
    by_cases hy : p y = true
    · obtain ⟨Y', h⟩ := ih
      exact ⟨Y', by simp [hy, h]⟩
    · exact ⟨y :: Y, by simp [hy]⟩

/-! ## TrimSpace -/

/-- all white space -/
def allSp (ws : List Char) : Prop := ∀ c ∈ ws, isSpace c = true

/-- non-empty, first and last character are not white space -/
def tight (m : List Char) : Prop :=
  m ≠ [] ∧ (∀ a, m.head? = some a → isSpace a = false) ∧ (∀ a, m.getLast? = some a → isSpace a = false)

theorem allSp_nil : allSp [] := by intro c hc; simp at hc

theorem allSp_append {a b : List Char} (ha : allSp a) (hb : allSp b) : allSp (a ++ b) := by
  intro c hc
  rcases List.mem_append.mp hc with h | h
  · exact ha c h
  · exact hb c h

theorem blanks_allSp {ws : List Char} (h : blanks ws = true) : allSp ws := by
  intro c hc
  have := (List.all_eq_true.mp h) c hc
  simp at this
  exact this.1

theorem blanks_noLF {ws : List Char} (h : blanks ws = true) : '\n' ∉ ws := by
  intro hc
  have := (List.all_eq_true.mp h) _ hc
  simp at this

theorem trimRight_sandwich {m ws : List Char} (hw : allSp ws)
    (hm : ∀ a, m.getLast? = some a → isSpace a = false) : trimRight (m ++ ws) = m := by
  unfold trimRight
  rw [List.reverse_append, dropWhile_all_append (p := isSpace)]
  · simp
  · intro c hc; exact hw c (by simpa using hc)
  · intro a ha; exact hm a (by simpa [List.head?_reverse] using ha)

theorem trimSpace_sandwich {ws1 m ws2 : List Char} (h1 : allSp ws1) (h2 : allSp ws2)
    (hm : tight m) : trimSpace (ws1 ++ m ++ ws2) = m := by
  unfold trimSpace trimLeft
  rw [List.append_assoc, dropWhile_all_append (p := isSpace) h1]
  · exact trimRight_sandwich h2 hm.2.2
  · intro a ha
    obtain ⟨hne, hh, _⟩ := hm
    cases m with
    | nil => exact absurd rfl hne
    | cons b r => exact hh a (by simpa using ha)

theorem trimSpace_allSp {ws : List Char} (h : allSp ws) : trimSpace ws = [] := by
  unfold trimSpace trimLeft
  have : ws.dropWhile isSpace = [] := by
    have := dropWhile_all_append (p := isSpace) (ws := ws) (rest := []) h (by simp)
    simpa using this
  rw [this]; rfl

/-- trimming a text whose first non-blank is `a` and which continues after some later non-blank `b`:
    everything up to `b` survives -/
theorem trimSpace_keep {ws1 X c : List Char} {a b : Char} (h1 : allSp ws1)
    (ha : isSpace a = false) (hb : isSpace b = false) :
    ∃ c', trimSpace (ws1 ++ a :: X ++ b :: c) = a :: X ++ b :: c' := by
  unfold trimSpace trimLeft
  rw [List.append_assoc, dropWhile_all_append (p := isSpace) h1 (by simp [ha])]
  unfold trimRight
  rw [List.reverse_append, List.reverse_cons]
  obtain ⟨Y', hY⟩ := dropWhile_append_stop (p := isSpace) hb c.reverse (a :: X).reverse
  refine ⟨Y'.reverse, ?_⟩
  rw [List.append_assoc, List.singleton_append, hY]
  simp

/-! ## Itoa / Atoi -/

theorem ofNat_digit_toNat : ∀ n, n < 10 → (Char.ofNat (48 + n)).toNat = 48 + n := by decide

theorem natDigits_ne_nil (n : Nat) : natDigits n ≠ [] := by
  rw [natDigits.eq_1]; split <;> simp

theorem natDigits_all (n : Nat) : ∀ c ∈ natDigits n, isDigit c = true := by
  induction n using Nat.strongRecOn with
  | _ n ih =>
    rw [natDigits.eq_1]
    split
    next h =>
      intro c hc
      simp at hc; subst hc
      simp [isDigit, ofNat_digit_toNat n h]; omega
    next h =>
      intro c hc
      rcases List.mem_append.mp hc with hc | hc
      · exact ih (n / 10) (by omega) c hc
      · simp at hc; subst hc
        have : n % 10 < 10 := Nat.mod_lt _ (by omega)
        simp [isDigit, ofNat_digit_toNat _ this]; omega

theorem natDigits_fold (n : Nat) :
    (natDigits n).foldl (fun acc c => acc * 10 + (c.toNat - 48)) 0 = n := by
  induction n using Nat.strongRecOn with
  | _ n ih =>
    rw [natDigits.eq_1]
    split
    next h => simp [ofNat_digit_toNat n h]
    next h =>
      have : n % 10 < 10 := Nat.mod_lt _ (by omega)
      rw [List.foldl_append, ih (n / 10) (by omega)]
      simp [ofNat_digit_toNat _ this]; omega

theorem isDigit_not_sign {c : Char} (h : isDigit c = true) : c ≠ '+' ∧ c ≠ '-' := by
  constructor <;> (rintro rfl; revert h; decide)

/-- `atoi` on an unsigned digit string -/
theorem atoi_digits {ds : List Char} (hne : ds ≠ []) (hd : ∀ c ∈ ds, isDigit c = true) :
    atoi ds =
      (let v : Nat := ds.foldl (fun acc c => acc * 10 + (c.toNat - 48)) 0
       if (v : Int) ≤ 2 ^ 63 - 1 then some (v : Int) else none) := by
  cases ds with
  | nil => exact absurd rfl hne
  | cons d r =>
    have hd0 := isDigit_not_sign (hd d (by simp))
    have hall : (d :: r).all isDigit = true := List.all_eq_true.mpr hd
    unfold atoi
    split
    next neg ds' heq =>
      split at heq
      · rename_i h; injection h with h1 h2; exact absurd h1 hd0.1
      · rename_i h; injection h with h1 h2; exact absurd h1 hd0.2
      · cases heq
        simp [hall]

theorem atoi_neg_digits {ds : List Char} (hne : ds ≠ []) (hd : ∀ c ∈ ds, isDigit c = true) :
    atoi ('-' :: ds) =
      (let v : Nat := ds.foldl (fun acc c => acc * 10 + (c.toNat - 48)) 0
       if -(2 ^ 63 : Int) ≤ -(v : Int) then some (-(v : Int)) else none) := by
  have hall : ds.all isDigit = true := List.all_eq_true.mpr hd
  have hemp : ds.isEmpty = false := by cases ds <;> simp_all
  simp [atoi, hall, hemp]

theorem atoi_itoa {i : Int} (h : inInt64 i = true) : atoi (itoa i) = some i := by
  simp [inInt64] at h
  unfold itoa
  split
  · rw [atoi_neg_digits (natDigits_ne_nil _) (natDigits_all _), natDigits_fold]
    simp; omega
  · rw [atoi_digits (natDigits_ne_nil _) (natDigits_all _), natDigits_fold]
    simp; omega

/-- `atoi` rejects any text containing a character that is neither a digit nor a sign -/
theorem atoi_none_of_mem {s : List Char} {c : Char} (hc : c ∈ s) (hd : isDigit c = false)
    (hp : c ≠ '+') (hm : c ≠ '-') : atoi s = none := by
  unfold atoi
  split
  next neg ds heq =>
    have hmem : c ∈ ds := by
      split at heq
      · cases heq; simpa [hp] using hc
      · cases heq; simpa [hm] using hc
      · cases heq; exact hc
    have : ds.all isDigit = false := by
      rw [List.all_eq_false]; exact ⟨c, hmem, by simp [hd]⟩
    simp [this]

/-! ## Float texts -/

theorem takeWhile_all_append {p : Char → Bool} {xs rest : List Char}
    (hx : ∀ c ∈ xs, p c = true) (h : ∀ a, rest.head? = some a → p a = false) :
    (xs ++ rest).takeWhile p = xs := by
  induction xs with
  | nil =>
    cases rest with
    | nil => rfl
    | cons a r => simp [h a rfl]
  | cons x xs ih =>
    have : p x = true := hx x (by simp)
    simp only [List.cons_append, List.takeWhile_cons, this, if_true]
    rw [ih (fun c hc => hx c (by simp [hc]))]

theorem digits1_iff {s : List Char} : digits1 s = true ↔ s ≠ [] ∧ ∀ c ∈ s, isDigit c = true := by
  cases s <;> simp [digits1]

/-- the two shapes of an unsigned float text -/
theorem unsignedFloat_shape {s : List Char} (h : unsignedFloat s = true) :
    digits1 s = true ∨ ∃ ip fp, digits1 ip = true ∧ digits1 fp = true ∧ s = ip ++ '.' :: fp := by
  unfold unsignedFloat at h
  simp only [Bool.and_eq_true, Bool.or_eq_true] at h
  obtain ⟨hip, hrest⟩ := h
  have hs : s = s.takeWhile isDigit ++ s.dropWhile isDigit := List.takeWhile_append_dropWhile.symm
  rcases hrest with he | ⟨hh, hfp⟩
  · left
    have : s.dropWhile isDigit = [] := by simpa using he
    rw [this, List.append_nil] at hs
    rw [hs]; exact hip
  · right
    refine ⟨s.takeWhile isDigit, (s.dropWhile isDigit).drop 1, hip, hfp, ?_⟩
    generalize s.dropWhile isDigit = rest at hs hh
    cases rest with
    | nil => simp at hh
    | cons a r =>
      simp at hh; subst hh
      simpa using hs

theorem unsignedFloat_int {ip : List Char} (h : digits1 ip = true) : unsignedFloat ip = true := by
  have hd := (digits1_iff.mp h).2
  have h1 : ip.takeWhile isDigit = ip := by
    have := takeWhile_all_append (p := isDigit) (xs := ip) (rest := []) hd (by simp)
    simpa using this
  have h2 : ip.dropWhile isDigit = [] := by
    have := dropWhile_all_append (p := isDigit) (ws := ip) (rest := []) hd (by simp)
    simpa using this
  simp [unsignedFloat, h1, h2, h]

theorem unsignedFloat_frac {ip fp : List Char} (h : digits1 ip = true) (hf : digits1 fp = true) :
    unsignedFloat (ip ++ '.' :: fp) = true := by
  have hd := (digits1_iff.mp h).2
  have hdot : ∀ a, ('.' :: fp).head? = some a → isDigit a = false := by
    intro a ha; simp at ha; subst ha; decide
  have h1 := takeWhile_all_append (p := isDigit) (xs := ip) (rest := '.' :: fp) hd hdot
  have h2 := dropWhile_all_append (p := isDigit) (ws := ip) (rest := '.' :: fp) hd hdot
  simp [unsignedFloat, h1, h2, h, hf]

theorem unsignedFloat_head {s : List Char} (h : unsignedFloat s = true) :
    ∃ a r, s = a :: r ∧ isDigit a = true := by
  have key : ∀ ip : List Char, digits1 ip = true → ∀ t, ∃ a r, ip ++ t = a :: r ∧ isDigit a = true := by
    intro ip hip t
    obtain ⟨hne, hd⟩ := digits1_iff.mp hip
    cases ip with
    | nil => exact absurd rfl hne
    | cons a r => exact ⟨a, r ++ t, rfl, hd a (by simp)⟩
  rcases unsignedFloat_shape h with h | ⟨ip, fp, hip, _, rfl⟩
  · simpa using key s h []
  · exact key ip hip _

/-- `floatRaw` as a shape: sign, integer digits, optional fraction -/
inductive FShape : List Char → Prop
  | int (sg ip : List Char) : (sg = [] ∨ sg = ['-']) → digits1 ip = true → FShape (sg ++ ip)
  | frac (sg ip fp : List Char) : (sg = [] ∨ sg = ['-']) → digits1 ip = true → digits1 fp = true →
      FShape (sg ++ ip ++ '.' :: fp)

theorem floatRaw_unsigned {s : List Char} (h : unsignedFloat s = true) : floatRaw s = true := by
  obtain ⟨a, r, rfl, ha⟩ := unsignedFloat_head h
  have : a ≠ '-' := (isDigit_not_sign ha).2
  simp [floatRaw, this, h]

theorem floatRaw_neg {s : List Char} (h : unsignedFloat s = true) : floatRaw ('-' :: s) = true := by
  simp [floatRaw, h]

theorem floatRaw_shape {s : List Char} (h : floatRaw s = true) : FShape s := by
  have key : ∀ sg body, (sg = [] ∨ sg = ['-']) → unsignedFloat body = true → FShape (sg ++ body) := by
    intro sg body hsg hb
    rcases unsignedFloat_shape hb with hb | ⟨ip, fp, hip, hfp, rfl⟩
    · exact .int sg body hsg hb
    · rw [← List.append_assoc]; exact .frac sg ip fp hsg hip hfp
  unfold floatRaw at h
  split at h
  next hh =>
    cases s with
    | nil => simp at hh
    | cons a r =>
      simp at hh; subst hh
      simpa using key ['-'] r (Or.inr rfl) (by simpa using h)
  next => simpa using key [] s (Or.inl rfl) h

theorem FShape_floatRaw {s : List Char} (h : FShape s) : floatRaw s = true := by
  cases h with
  | int sg ip hsg hip =>
    rcases hsg with rfl | rfl
    · simpa using floatRaw_unsigned (unsignedFloat_int hip)
    · simpa using floatRaw_neg (unsignedFloat_int hip)
  | frac sg ip fp hsg hip hfp =>
    rcases hsg with rfl | rfl
    · simpa using floatRaw_unsigned (unsignedFloat_frac hip hfp)
    · simpa using floatRaw_neg (unsignedFloat_frac hip hfp)

/-- a character of a float text -/
def floatChar (c : Char) : Bool := isDigit c || c == '-' || c == '.'

theorem floatRaw_chars {s : List Char} (h : floatRaw s = true) : ∀ c ∈ s, floatChar c = true := by
  have hd : ∀ ip : List Char, digits1 ip = true → ∀ c ∈ ip, floatChar c = true := by
    intro ip hip c hc; simp [floatChar, (digits1_iff.mp hip).2 c hc]
  have hs : ∀ sg : List Char, (sg = [] ∨ sg = ['-']) → ∀ c ∈ sg, floatChar c = true := by
    intro sg hsg c hc
    rcases hsg with rfl | rfl
    · simp at hc
    · simp at hc; subst hc; decide
  intro c hc
  cases floatRaw_shape h with
  | int sg ip hsg hip =>
    rcases List.mem_append.mp hc with hc | hc
    · exact hs sg hsg c hc
    · exact hd ip hip c hc
  | frac sg ip fp hsg hip hfp =>
    rcases List.mem_append.mp hc with hc | hc
    · rcases List.mem_append.mp hc with hc | hc
      · exact hs sg hsg c hc
      · exact hd ip hip c hc
    · rcases List.mem_cons.mp hc with rfl | hc
      · decide
      · exact hd fp hfp c hc

theorem floatRaw_ne_nil {s : List Char} (h : floatRaw s = true) : s ≠ [] := by
  rintro rfl; revert h; decide

/-- the writer's float text is again of float shape and always contains a `.` -/
theorem formatFloat_shape {raw : List Char} (h : floatRaw raw = true) :
    floatRaw (formatFloat raw) = true ∧ '.' ∈ formatFloat raw := by
  unfold formatFloat
  cases floatRaw_shape h with
  | int sg ip hsg hip =>
    have hall : (sg ++ ip).all (fun c => isDigit c || c == '-') = true := by
      rw [List.all_eq_true]
      intro c hc
      rcases List.mem_append.mp hc with hc | hc
      · rcases hsg with rfl | rfl
        · simp at hc
        · simp at hc; subst hc; decide
      · simp [(digits1_iff.mp hip).2 c hc]
    rw [if_pos hall]
    constructor
    · have := FShape.frac sg ip ['0'] hsg hip (by decide)
      exact FShape_floatRaw (by simpa using this)
    · simp
  | frac sg ip fp hsg hip hfp =>
    have hmem : '.' ∈ sg ++ ip ++ '.' :: fp := by simp
    have hall : (sg ++ ip ++ '.' :: fp).all (fun c => isDigit c || c == '-') = false := by
      rw [List.all_eq_false]
      exact ⟨'.', hmem, by decide⟩
    rw [hall]
    exact ⟨h, hmem⟩

/-! ## Value level -/

theorem true_toList : "true".toList = ['t', 'r', 'u', 'e'] := by decide
theorem false_toList : "false".toList = ['f', 'a', 'l', 's', 'e'] := by decide

theorem okStr_chars {s : List Char} (h : okStr s = true) :
    ∀ c ∈ s, c ≠ '"' ∧ c ≠ '\\' ∧ c ≠ '\n' ∧ c ≠ '\r' := by
  intro c hc
  simp only [okStr, Bool.and_eq_true, List.all_eq_true] at h
  have := h.1.1 c hc
  simp at this
  obtain ⟨⟨⟨a, b⟩, c⟩, d⟩ := this
  exact ⟨a, b, c, d⟩

theorem formatValue_str {s : List Char} (h : okStr s = true) :
    formatValue (.str s) = '"' :: s ++ ['"'] := by
  simp only [okStr, Bool.and_eq_true] at h
  have h1 : (s == "true".toList) = false := by simpa using h.1.2
  have h2 : (s == "false".toList) = false := by simpa using h.2
  simp only [formatValue, h1, h2]
  rfl

theorem trimQuotes_quoted {s : List Char} (h : ∀ c ∈ s, c ≠ '"') :
    trimQuotes ('"' :: s ++ ['"']) = s := by
  unfold trimQuotes
  have hq : ∀ a, (s ++ ['"']).reverse.head? = some a → True := fun _ _ => trivial
  rcases List.eq_nil_or_concat s with rfl | ⟨r, b, rfl⟩
  · simp
  · have hb : b ≠ '"' := h b (by simp)
    have hhead : ∃ a t, r.concat b = a :: t ∧ a ≠ '"' := by
      cases r with
      | nil => exact ⟨b, [], rfl, hb⟩
      | cons a t => exact ⟨a, t.concat b, rfl, h a (by simp)⟩
    obtain ⟨a, t, hat, ha⟩ := hhead
    have h1 : ('"' :: r.concat b ++ ['"']).dropWhile (· == '"') = r.concat b ++ ['"'] := by
      rw [hat]; simp [ha]
    rw [h1]
    simp [hb]

theorem floatChar_facts {c : Char} (h : floatChar c = true) :
    isSpace c = false ∧ c ≠ '\\' ∧ c ≠ '"' ∧ c ≠ '#' ∧ c ≠ 't' ∧ c ≠ 'f' ∧ c ≠ '\n' := by
  refine ⟨?_, ?_, ?_, ?_, ?_, ?_, ?_⟩
  · simp [floatChar, isDigit] at h
    rcases h with (h | h) | h
    · simp [isSpace]; omega
    · subst h; decide
    · subst h; decide
  all_goals (rintro rfl; revert h; decide)

/-- `parseValue` on a non-empty text made of digits, `-`, `.` only -/
theorem parseValue_numeric (pf : List Char → Bool) {val : List Char} (hne : val ≠ [])
    (hn : ∀ c ∈ val, floatChar c = true) :
    parseValue pf val =
      match atoi val with
      | some i => .int i
      | none => if pf val then .float val else .str val := by
  have h1 : (val.head? == some '"' && val.getLast? == some '"') = false := by
    cases val with
    | nil => exact absurd rfl hne
    | cons a r =>
      have : a ≠ '"' := (floatChar_facts (hn a (by simp))).2.2.1
      simp [this]
  have h2 : (val == "true".toList) = false := by
    rw [true_toList]
    apply Bool.eq_false_iff.mpr
    intro h
    have : val = ['t', 'r', 'u', 'e'] := by simpa using h
    exact (floatChar_facts (hn 't' (by simp [this]))).2.2.2.2.1 rfl
  have h3 : (val == "false".toList) = false := by
    rw [false_toList]
    apply Bool.eq_false_iff.mpr
    intro h
    have : val = ['f', 'a', 'l', 's', 'e'] := by simpa using h
    exact (floatChar_facts (hn 'f' (by simp [this]))).2.2.2.2.2.1 rfl
  unfold parseValue
  simp only [h1, h2, h3, Bool.false_eq_true, if_false]
  rfl

theorem itoa_chars {i : Int} : itoa i ≠ [] ∧ ∀ c ∈ itoa i, floatChar c = true := by
  unfold itoa
  split
  · refine ⟨by simp, ?_⟩
    intro c hc
    rcases List.mem_cons.mp hc with rfl | hc
    · decide
    · simp [floatChar, natDigits_all _ c hc]
  · refine ⟨natDigits_ne_nil _, ?_⟩
    intro c hc
    simp [floatChar, natDigits_all _ c hc]

/-- 1. Value level: what the writer emits for a writable value is read back as that value. -/
theorem parseValue_formatValue (pf : List Char → Bool)
    (hpf : ∀ t, floatRaw t = true → pf t = true) (v : WVal) (hv : writable v = true) :
    parseValue pf (formatValue v) = expectRead v := by
  cases v with
  | str s =>
    have hs : okStr s = true := hv
    rw [formatValue_str hs]
    have hq : ∀ c ∈ s, c ≠ '"' := fun c hc => (okStr_chars hs c hc).1
    unfold parseValue
    have : (('"' :: s ++ ['"']).head? == some '"' && ('"' :: s ++ ['"']).getLast? == some '"') = true := by
      rw [show '"' :: s ++ ['"'] = ('"' :: s) ++ ['"'] from rfl, List.getLast?_concat]
      simp
    rw [if_pos this, trimQuotes_quoted hq]
    rfl
  | bool b => cases b <;> rfl
  | int i =>
    have hi : inInt64 i = true := hv
    show parseValue pf (itoa i) = .int i
    rw [parseValue_numeric pf itoa_chars.1 itoa_chars.2, atoi_itoa hi]
  | float raw =>
    have hr : floatRaw raw = true := hv
    obtain ⟨hsh, hdot⟩ := formatFloat_shape hr
    show parseValue pf (formatFloat raw) = .float (formatFloat raw)
    rw [parseValue_numeric pf (floatRaw_ne_nil hsh) (floatRaw_chars hsh),
      atoi_none_of_mem hdot (by decide) (by decide) (by decide)]
    simp [hpf _ hsh]

/-! ## Shape of a formatted value -/

/-- an unquoted value text: non-empty, no white space, no `\`, `"`, `#` -/
def plainVal (t : List Char) : Prop :=
  t ≠ [] ∧ ∀ c ∈ t, isSpace c = false ∧ c ≠ '\\' ∧ c ≠ '"' ∧ c ≠ '#'

theorem isSpace_facts {c : Char} (h : isSpace c = true) :
    c ≠ '\\' ∧ c ≠ '"' ∧ c ≠ '#' ∧ c ≠ '=' ∧ c ≠ '[' := by
  refine ⟨?_, ?_, ?_, ?_, ?_⟩ <;> (rintro rfl; revert h; decide)

theorem keyChar_facts {c : Char} (h : keyChar c = true) :
    isSpace c = false ∧ c ≠ '=' ∧ c ≠ '#' ∧ c ≠ '[' ∧ c ≠ '\n' := by
  refine ⟨?_, ?_, ?_, ?_, ?_⟩
  · simp [keyChar] at h
    simp [isSpace]; omega
  all_goals (rintro rfl; revert h; decide)

theorem formatValue_form {v : WVal} (hv : writable v = true) :
    plainVal (formatValue v) ∨ ∃ s, okStr s = true ∧ formatValue v = '"' :: s ++ ['"'] := by
  have hnum : ∀ t : List Char, t ≠ [] → (∀ c ∈ t, floatChar c = true) → plainVal t := by
    intro t hne ht
    refine ⟨hne, fun c hc => ?_⟩
    have := floatChar_facts (ht c hc)
    exact ⟨this.1, this.2.1, this.2.2.1, this.2.2.2.1⟩
  cases v with
  | str s => exact Or.inr ⟨s, hv, formatValue_str hv⟩
  | bool b =>
    left
    cases b
    · show plainVal "false".toList
      rw [false_toList]; refine ⟨by simp, ?_⟩; decide
    · show plainVal "true".toList
      rw [true_toList]; refine ⟨by simp, ?_⟩; decide
  | int i => exact Or.inl (hnum _ itoa_chars.1 itoa_chars.2)
  | float raw =>
    have hsh := (formatFloat_shape (raw := raw) hv).1
    exact Or.inl (hnum _ (floatRaw_ne_nil hsh) (floatRaw_chars hsh))

theorem tight_of_noSpace {t : List Char} (hne : t ≠ []) (h : ∀ c ∈ t, isSpace c = false) : tight t := by
  refine ⟨hne, fun a ha => h a (List.mem_of_mem_head? ha), fun a ha => h a (List.mem_of_getLast? ha)⟩

theorem formatValue_tight {v : WVal} (hv : writable v = true) : tight (formatValue v) := by
  rcases formatValue_form hv with ⟨hne, hc⟩ | ⟨s, _, hs⟩
  · exact tight_of_noSpace hne (fun c h => (hc c h).1)
  · rw [hs]
    refine ⟨by simp, ?_, ?_⟩
    · intro a ha; simp at ha; subst ha; decide
    · intro a ha
      rw [show '"' :: s ++ ['"'] = ('"' :: s) ++ ['"'] from rfl, List.getLast?_concat] at ha
      cases ha; decide

theorem formatValue_noLF {v : WVal} (hv : writable v = true) : '\n' ∉ formatValue v := by
  rcases formatValue_form hv with ⟨_, hc⟩ | ⟨s, hok, hs⟩
  · intro h
    have := (hc _ h).1
    revert this; decide
  · rw [hs]
    intro h
    simp at h
    exact (okStr_chars hok _ h).2.2.1 rfl

/-! ## Inline comments -/

theorem stripLoop_run (q : Bool) (xs rest : List Char) :
    ∀ acc, (∀ c ∈ xs, c ≠ '\\' ∧ c ≠ '"' ∧ (q = false → c ≠ '#')) →
      stripLoop (xs ++ rest) q false acc = stripLoop rest q false (xs.reverse ++ acc) := by
  induction xs with
  | nil => intro acc _; rfl
  | cons x xs ih =>
    intro acc h
    obtain ⟨h1, h2, h3⟩ := h x (by simp)
    have h4 : (x == '#' && !q) = false := by
      cases q
      · simp [h3 rfl]
      · simp
    rw [List.cons_append, stripLoop]
    simp only [Bool.false_eq_true, if_false, beq_iff_eq, h1, h2, h4]
    rw [ih (x :: acc) (fun c hc => h c (by simp [hc]))]
    simp

/-- what may follow a value on its line: blanks, or blanks and a `#` comment -/
def Tail (rest : List Char) : Prop :=
  allSp rest ∨ ∃ ws c, allSp ws ∧ rest = ws ++ '#' :: c

theorem stripLoop_allSp {ws : List Char} (h : allSp ws) (rest acc : List Char) :
    stripLoop (ws ++ rest) false false acc = stripLoop rest false false (ws.reverse ++ acc) :=
  stripLoop_run false ws rest acc (fun c hc =>
    have := isSpace_facts (h c hc)
    ⟨this.1, this.2.1, fun _ => this.2.2.1⟩)

theorem stripLoop_tail {rest : List Char} (ht : Tail rest) (acc : List Char) :
    ∃ ws, allSp ws ∧ stripLoop rest false false acc = acc.reverse ++ ws := by
  rcases ht with h | ⟨ws, c, h, rfl⟩
  · refine ⟨rest, h, ?_⟩
    have := stripLoop_allSp h [] acc
    rw [List.append_nil] at this
    rw [this, stripLoop]; simp
  · refine ⟨ws, h, ?_⟩
    rw [stripLoop_allSp h, stripLoop]
    simp

theorem stripLoop_formatValue {v : WVal} (hv : writable v = true) (rest : List Char) :
    stripLoop (formatValue v ++ rest) false false [] =
      stripLoop rest false false (formatValue v).reverse := by
  rcases formatValue_form hv with ⟨_, hc⟩ | ⟨s, hok, hs⟩
  · rw [stripLoop_run false _ rest [] (fun c h => ⟨(hc c h).2.1, (hc c h).2.2.1, fun _ => (hc c h).2.2.2⟩)]
    simp
  · rw [hs]
    have hrun := stripLoop_run true s ('"' :: rest) ['"'] (fun c h =>
      ⟨(okStr_chars hok c h).2.1, (okStr_chars hok c h).1, fun hq => by cases hq⟩)
    have e : '"' :: s ++ ['"'] ++ rest = '"' :: (s ++ '"' :: rest) := by simp
    rw [e, stripLoop]
    simp only [Bool.false_eq_true, if_false]
    rw [if_neg (by decide), if_pos (by decide)]
    show stripLoop (s ++ '"' :: rest) true false ['"'] = _
    rw [hrun, stripLoop]
    simp only [Bool.false_eq_true, if_false]
    rw [if_neg (by decide), if_pos (by decide)]
    simp

theorem stripInlineComment_formatValue {v : WVal} (hv : writable v = true) {rest : List Char}
    (ht : Tail rest) : stripInlineComment (formatValue v ++ rest) = formatValue v := by
  unfold stripInlineComment
  rw [stripLoop_formatValue hv]
  obtain ⟨ws, hws, h⟩ := stripLoop_tail ht (formatValue v).reverse
  rw [h, List.reverse_reverse]
  have := trimSpace_sandwich allSp_nil hws (formatValue_tight hv)
  simpa using this

theorem trimSpace_tail {ws1 m rest : List Char} (h1 : allSp ws1) (hm : tight m) (ht : Tail rest) :
    ∃ rest', Tail rest' ∧ trimSpace (ws1 ++ m ++ rest) = m ++ rest' := by
  rcases ht with h | ⟨ws, c, h, rfl⟩
  · exact ⟨[], Or.inl allSp_nil, by rw [trimSpace_sandwich h1 h hm]; simp⟩
  · obtain ⟨hne, hh, _⟩ := hm
    cases m with
    | nil => exact absurd rfl hne
    | cons a X =>
      have ha : isSpace a = false := hh a rfl
      obtain ⟨c', hc'⟩ := trimSpace_keep (ws1 := ws1) (X := X ++ ws) (c := c) (a := a) (b := '#')
        h1 ha (by decide)
      refine ⟨ws ++ '#' :: c', Or.inr ⟨ws, c', h, rfl⟩, ?_⟩
      have e : ws1 ++ a :: X ++ (ws ++ '#' :: c) = ws1 ++ a :: (X ++ ws) ++ '#' :: c := by simp
      rw [e, hc']; simp

/-! ## Line level -/

theorem splitEq_append {A : List Char} (h : '=' ∉ A) (B : List Char) :
    splitEq (A ++ '=' :: B) = some (A, B) := by
  induction A with
  | nil => simp [splitEq]
  | cons a A ih =>
    have ha : a ≠ '=' := fun e => h (by simp [e])
    have hA : '=' ∉ A := fun e => h (by simp [e])
    simp [splitEq, ha, ih hA]

theorem bareKey_facts {k : List Char} (h : bareKey k = true) :
    k ≠ [] ∧ ∀ c ∈ k, keyChar c = true := by
  cases k <;> simp_all [bareKey]

theorem bareKey_tight {k : List Char} (h : bareKey k = true) : tight k :=
  tight_of_noSpace (bareKey_facts h).1 (fun c hc => (keyChar_facts ((bareKey_facts h).2 c hc)).1)

theorem tight_wrap {A B C : List Char} (hA : tight A) (hC : tight C) : tight (A ++ B ++ C) := by
  obtain ⟨hAne, hAh, _⟩ := hA
  obtain ⟨hCne, _, hCl⟩ := hC
  refine ⟨by simp [hAne], ?_, ?_⟩
  · intro a ha
    cases A with
    | nil => exact absurd rfl hAne
    | cons x A => exact hAh a (by simpa using ha)
  · intro a ha
    rcases List.eq_nil_or_concat C with rfl | ⟨r, b, rfl⟩
    · exact absurd rfl hCne
    · apply hCl a
      simp only [List.concat_eq_append] at ha ⊢
      rw [← List.append_assoc, List.getLast?_concat] at ha
      rw [List.getLast?_concat]; exact ha

/-- the already trimmed `key ws = ws value tail` line -/
theorem parseLine_core (pf : List Char → Bool) (hpf : ∀ t, floatRaw t = true → pf t = true)
    {k ws2 ws3 rest : List Char} {v : WVal} (hk : bareKey k = true) (hv : writable v = true)
    (h2 : allSp ws2) (h3 : allSp ws3) (ht : Tail rest) :
    parseLine pf (k ++ ws2 ++ '=' :: (ws3 ++ formatValue v ++ rest)) = .kv k (expectRead v) := by
  obtain ⟨hkne, hkc⟩ := bareKey_facts hk
  have hsplit : splitEq (k ++ ws2 ++ '=' :: (ws3 ++ formatValue v ++ rest))
      = some (k ++ ws2, ws3 ++ formatValue v ++ rest) := by
    apply splitEq_append
    intro h
    rcases List.mem_append.mp h with h | h
    · exact (keyChar_facts (hkc _ h)).2.1 rfl
    · exact (isSpace_facts (h2 _ h)).2.2.2.1 rfl
  have hkey : trimSpace (k ++ ws2) = k := by
    have := trimSpace_sandwich allSp_nil h2 (bareKey_tight hk)
    simpa using this
  obtain ⟨rest', ht', hval⟩ := trimSpace_tail h3 (formatValue_tight hv) ht
  cases k with
  | nil => exact absurd rfl hkne
  | cons k0 kr =>
    have hk0 := keyChar_facts (hkc k0 (by simp))
    unfold parseLine
    rw [hsplit]
    have c1 : ((k0 :: kr ++ ws2 ++ '=' :: (ws3 ++ formatValue v ++ rest)).isEmpty
        || (k0 :: kr ++ ws2 ++ '=' :: (ws3 ++ formatValue v ++ rest)).head? == some '#') = false := by
      simp [hk0.2.2.1]
    have c2 : ((k0 :: kr ++ ws2 ++ '=' :: (ws3 ++ formatValue v ++ rest)).head? == some '['
        && (k0 :: kr ++ ws2 ++ '=' :: (ws3 ++ formatValue v ++ rest)).getLast? == some ']') = false := by
      simp [hk0.2.2.2.1]
    rw [c1, c2]
    simp only [Bool.false_eq_true, if_false]
    rw [hkey, hval, stripInlineComment_formatValue hv ht', parseValue_formatValue pf hpf v hv]

/-- general form: blanks before the key, around `=`, and a `Tail` after the value -/
theorem parseLine_general (pf : List Char → Bool) (hpf : ∀ t, floatRaw t = true → pf t = true)
    {ws1 k ws2 ws3 rest : List Char} {v : WVal} (hk : bareKey k = true) (hv : writable v = true)
    (h1 : allSp ws1) (h2 : allSp ws2) (h3 : allSp ws3) (ht : Tail rest) :
    parseLine pf (trimSpace (ws1 ++ k ++ ws2 ++ ['='] ++ ws3 ++ formatValue v ++ rest))
      = .kv k (expectRead v) := by
  have hM : tight (k ++ (ws2 ++ '=' :: ws3) ++ formatValue v) :=
    tight_wrap (bareKey_tight hk) (formatValue_tight hv)
  obtain ⟨rest', ht', htrim⟩ := trimSpace_tail h1 hM ht
  have e1 : ws1 ++ k ++ ws2 ++ ['='] ++ ws3 ++ formatValue v ++ rest
      = ws1 ++ (k ++ (ws2 ++ '=' :: ws3) ++ formatValue v) ++ rest := by simp
  have e2 : k ++ (ws2 ++ '=' :: ws3) ++ formatValue v ++ rest'
      = k ++ ws2 ++ '=' :: (ws3 ++ formatValue v ++ rest') := by simp
  rw [e1, htrim, e2]
  exact parseLine_core pf hpf hk hv h2 h3 ht'

/-- 2a. Line level: a written `key = value` line is read back as that key and value. -/
theorem parseLine_formatLine (pf : List Char → Bool) (hpf : ∀ t, floatRaw t = true → pf t = true)
    {k : List Char} {v : WVal} (hk : bareKey k = true) (hv : writable v = true) :
    parseLine pf (trimSpace (k ++ " = ".toList ++ formatValue v)) = .kv k (expectRead v) := by
  have hsp : allSp [' '] := by intro c hc; simp at hc; subst hc; decide
  have := parseLine_general pf hpf (ws1 := []) (ws2 := [' ']) (ws3 := [' ']) (rest := [])
    hk hv allSp_nil hsp hsp (Or.inl allSp_nil)
  have e : k ++ " = ".toList ++ formatValue v
      = [] ++ k ++ [' '] ++ ['='] ++ [' '] ++ formatValue v ++ [] := by
    rw [show " = ".toList = [' ', '=', ' '] by decide]; simp
  rw [e]; exact this

/-- 2b. blanks_inert (line level): any blanks before the key, around `=` and after the value. -/
theorem parseLine_blanks_inert (pf : List Char → Bool) (hpf : ∀ t, floatRaw t = true → pf t = true)
    {ws1 k ws2 ws3 ws4 : List Char} {v : WVal} (hk : bareKey k = true) (hv : writable v = true)
    (h1 : blanks ws1 = true) (h2 : blanks ws2 = true) (h3 : blanks ws3 = true)
    (h4 : blanks ws4 = true) :
    parseLine pf (trimSpace (ws1 ++ k ++ ws2 ++ ['='] ++ ws3 ++ formatValue v ++ ws4))
      = .kv k (expectRead v) :=
  parseLine_general pf hpf hk hv (blanks_allSp h1) (blanks_allSp h2) (blanks_allSp h3)
    (Or.inl (blanks_allSp h4))

/-- 2c. comments_inert (line level): a trailing `# …` comment with ANY text `c` changes nothing. -/
theorem parseLine_comment_inert (pf : List Char → Bool) (hpf : ∀ t, floatRaw t = true → pf t = true)
    {ws1 k ws2 ws3 ws4 : List Char} {v : WVal} (c : List Char)
    (hk : bareKey k = true) (hv : writable v = true)
    (h1 : blanks ws1 = true) (h2 : blanks ws2 = true) (h3 : blanks ws3 = true)
    (h4 : blanks ws4 = true) :
    parseLine pf (trimSpace (ws1 ++ k ++ ws2 ++ ['='] ++ ws3 ++ formatValue v ++ (ws4 ++ ['#'] ++ c)))
      = .kv k (expectRead v) :=
  parseLine_general pf hpf hk hv (blanks_allSp h1) (blanks_allSp h2) (blanks_allSp h3)
    (Or.inr ⟨ws4, c, blanks_allSp h4, by simp⟩)

/-- 3a. a line of blanks is skipped -/
theorem parseLine_skip_blank (pf : List Char → Bool) {l : List Char} (h : allSp l) :
    parseLine pf (trimSpace l) = .skip := by
  rw [trimSpace_allSp h]; rfl

/-- 3b. a line whose first non-blank character is `#` is skipped -/
theorem parseLine_skip_comment (pf : List Char → Bool) {ws : List Char} (c : List Char)
    (h : allSp ws) : parseLine pf (trimSpace (ws ++ '#' :: c)) = .skip := by
  have hdrop : trimLeft (ws ++ '#' :: c) = '#' :: c :=
    dropWhile_all_append (p := isSpace) h (by intro a ha; simp at ha; subst ha; decide)
  obtain ⟨Y', hY⟩ := dropWhile_append_stop (p := isSpace) (a := '#') (by decide) c.reverse []
  have : trimSpace (ws ++ '#' :: c) = '#' :: Y'.reverse := by
    unfold trimSpace
    rw [hdrop]; unfold trimRight
    rw [List.reverse_cons, hY]
    simp
  rw [this]; rfl

/-! ## Lines of a text -/

theorem splitLines_go_run (l rest : List Char) (h : '\n' ∉ l) :
    ∀ cur, splitLines.go (l ++ rest) cur = splitLines.go rest (l.reverse ++ cur) := by
  induction l with
  | nil => intro cur; rfl
  | cons a l ih =>
    intro cur
    have ha : a ≠ '\n' := fun e => h (by simp [e])
    have hl : '\n' ∉ l := fun e => h (by simp [e])
    rw [List.cons_append, splitLines.go]
    simp only [beq_iff_eq, ha, if_false]
    rw [ih hl]; simp

/-- a first line without LF that does not end in CR is split off unchanged -/
theorem splitLines_line {l : List Char} (rest : List Char) (h : '\n' ∉ l)
    (hr : l.getLast? ≠ some '\r') : splitLines (l ++ '\n' :: rest) = l :: splitLines rest := by
  unfold splitLines
  rw [splitLines_go_run l _ h, splitLines.go]
  simp [hr]

/-- the parser's loop on a text -/
def parseText (pf : List Char → Bool) (text : List Char) (d : Data) (cur : List Char) : Option Data :=
  parseLines pf (splitLines text) d cur

/-- section a key/value line lands in -/
def secName (cur : List Char) : List Char := if cur.isEmpty then "default".toList else cur

theorem parseText_nil (pf : List Char → Bool) (d : Data) (cur : List Char) :
    parseText pf [] d cur = some d := rfl

theorem tight_not_CR {m : List Char} (h : tight m) : m.getLast? ≠ some '\r' := by
  intro e
  have := h.2.2 _ e
  revert this; decide

theorem parseText_formatLine (pf : List Char → Bool) (hpf : ∀ t, floatRaw t = true → pf t = true)
    {k : List Char} {v : WVal} (hk : bareKey k = true) (hv : writable v = true)
    (rest : List Char) (d : Data) (cur : List Char) :
    parseText pf (formatLine k v ++ rest) d cur
      = parseText pf rest (setIn d (secName cur) k (expectRead v)) cur := by
  have hsp : " = ".toList = [' ', '=', ' '] := by decide
  have hnl : '\n' ∉ k ++ " = ".toList ++ formatValue v := by
    intro h
    rcases List.mem_append.mp h with h | h
    · rcases List.mem_append.mp h with h | h
      · exact (keyChar_facts ((bareKey_facts hk).2 _ h)).2.2.2.2 rfl
      · rw [hsp] at h; revert h; decide
    · exact formatValue_noLF hv h
  have hcr : (k ++ " = ".toList ++ formatValue v).getLast? ≠ some '\r' :=
    tight_not_CR (tight_wrap (bareKey_tight hk) (formatValue_tight hv))
  have e : formatLine k v ++ rest = (k ++ " = ".toList ++ formatValue v) ++ '\n' :: rest := by
    simp [formatLine]
  unfold parseText
  rw [e, splitLines_line rest hnl hcr, parseLines, parseLine_formatLine pf hpf hk hv]
  rfl

/-- entries of one section, applied in order -/
def applyEntries (sec : List Char) (d : Data) (es : List (List Char × WVal)) : Data :=
  es.foldl (fun d e => setIn d sec e.1 (expectRead e.2)) d

theorem parseText_entries (pf : List Char → Bool) (hpf : ∀ t, floatRaw t = true → pf t = true)
    (rest : List Char) (cur : List Char) (es : List (List Char × WVal)) :
    ∀ d, (∀ e ∈ es, bareKey e.1 = true ∧ writable e.2 = true) →
      parseText pf ((es.map fun (k, v) => formatLine k v).flatten ++ rest) d cur
        = parseText pf rest (applyEntries (secName cur) d es) cur := by
  induction es with
  | nil => intro d _; rfl
  | cons e es ih =>
    intro d h
    obtain ⟨hk, hv⟩ := h e (by simp)
    rw [List.map_cons, List.flatten_cons, List.append_assoc]
    show parseText pf (formatLine e.1 e.2 ++ _) d cur = _
    rw [parseText_formatLine pf hpf hk hv, ih _ (fun e' he' => h e' (by simp [he']))]
    rfl

theorem parseText_header (pf : List Char → Bool) {n : List Char} (hn : bareKey n = true)
    (rest : List Char) (d : Data) (cur : List Char) :
    parseText pf ("\n[".toList ++ n ++ "]\n".toList ++ rest) d cur
      = parseText pf rest (ensureSection d n) n := by
  have e : "\n[".toList ++ n ++ "]\n".toList ++ rest
      = [] ++ '\n' :: (('[' :: n ++ [']']) ++ '\n' :: rest) := by
    rw [show "\n[".toList = ['\n', '['] by decide, show "]\n".toList = [']', '\n'] by decide]
    simp
  have hnl : '\n' ∉ '[' :: n ++ [']'] := by
    intro h
    simp at h
    exact (keyChar_facts ((bareKey_facts hn).2 _ h)).2.2.2.2 rfl
  have hlast : ('[' :: n ++ [']']).getLast? = some ']' := by
    rw [show '[' :: n ++ [']'] = ('[' :: n) ++ [']'] from rfl, List.getLast?_concat]
  have hcr : ('[' :: n ++ [']']).getLast? ≠ some '\r' := by rw [hlast]; decide
  have htight : tight ('[' :: n ++ [']']) := by
    refine ⟨by simp, ?_, ?_⟩
    · intro a ha; simp at ha; subst ha; decide
    · intro a ha; rw [hlast] at ha; cases ha; decide
  have htrim : trimSpace ('[' :: n ++ [']']) = '[' :: n ++ [']'] := by
    have := trimSpace_sandwich allSp_nil allSp_nil htight
    simpa using this
  have hname : trimSpace n = n := by
    have := trimSpace_sandwich allSp_nil allSp_nil (bareKey_tight hn)
    simpa using this
  have hline : parseLine pf ('[' :: n ++ [']']) = .section n := by
    unfold parseLine
    have c1 : (('[' :: n ++ [']']).isEmpty || ('[' :: n ++ [']']).head? == some '#') = false := by
      simp
    have c2 : (('[' :: n ++ [']']).head? == some '[' && ('[' :: n ++ [']']).getLast? == some ']') = true := by
      rw [hlast]; simp
    rw [c1, c2]
    simp only [Bool.false_eq_true, if_false, if_true]
    have : (('[' :: n ++ [']']).drop 1).dropLast = n := by
      show (n ++ [']']).dropLast = n
      exact List.dropLast_concat
    rw [this, hname]
  unfold parseText
  rw [e, splitLines_line _ (by simp) (by simp), splitLines_line _ hnl hcr]
  rw [parseLines]
  have h0 : parseLine pf (trimSpace []) = .skip := rfl
  rw [h0]
  show parseLines pf (('[' :: n ++ [']']) :: splitLines rest) d cur = _
  rw [parseLines, htrim, hline]

abbrev WSection := List Char × List (List Char × WVal)

/-- effect of one written section on the parser's data -/
def applySec (d : Data) (s : WSection) : Data :=
  applyEntries s.1 (if s.1 == "default".toList then d else ensureSection d s.1) s.2

def okEntries (es : List (List Char × WVal)) : Prop :=
  ∀ e ∈ es, bareKey e.1 = true ∧ writable e.2 = true

theorem secName_of_bareKey {n : List Char} (hn : bareKey n = true) : secName n = n := by
  have := (bareKey_facts hn).1
  cases n with
  | nil => exact absurd rfl this
  | cons a r => rfl

theorem parseText_section (pf : List Char → Bool) (hpf : ∀ t, floatRaw t = true → pf t = true)
    {n : List Char} {es : List (List Char × WVal)} (hn : bareKey n = true)
    (hnd : n ≠ "default".toList) (hes : okEntries es) (rest : List Char) (d : Data) (cur : List Char) :
    parseText pf (writeSection n es ++ rest) d cur = parseText pf rest (applySec d (n, es)) n := by
  have hb : (n == "default".toList) = false := by simpa using hnd
  unfold writeSection applySec
  simp only [hb, Bool.false_eq_true, if_false]
  rw [List.append_assoc, parseText_header pf hn, parseText_entries pf hpf rest n es _ hes,
    secName_of_bareKey hn]

theorem parseText_section_default (pf : List Char → Bool)
    (hpf : ∀ t, floatRaw t = true → pf t = true)
    {es : List (List Char × WVal)} (hes : okEntries es) (rest : List Char) (d : Data) :
    parseText pf (writeSection "default".toList es ++ rest) d []
      = parseText pf rest (applySec d ("default".toList, es)) [] := by
  have hw : writeSection "default".toList es = (es.map fun (k, v) => formatLine k v).flatten := by
    unfold writeSection
    rw [if_pos (beq_self_eq_true _), List.nil_append]
  have ha : applySec d ("default".toList, es) = applyEntries "default".toList d es := by
    unfold applySec
    show applyEntries _ (if ("default".toList == "default".toList) = true then d else _) es = _
    rw [if_pos (beq_self_eq_true _)]
  rw [hw, ha, parseText_entries pf hpf rest [] es _ hes]
  rfl

theorem parseText_sections (pf : List Char → Bool) (hpf : ∀ t, floatRaw t = true → pf t = true)
    (secs : List WSection) :
    ∀ d cur, (∀ s ∈ secs, bareKey s.1 = true ∧ s.1 ≠ "default".toList ∧ okEntries s.2) →
      parseText pf ((secs.map fun s => writeSection s.1 s.2).flatten) d cur
        = some (secs.foldl applySec d) := by
  induction secs with
  | nil => intro d cur _; rfl
  | cons s secs ih =>
    intro d cur h
    obtain ⟨h1, h2, h3⟩ := h s (by simp)
    rw [List.map_cons, List.flatten_cons, parseText_section pf hpf h1 h2 h3,
      ih _ _ (fun s' hs' => h s' (by simp [hs']))]
    rfl

/-! ## What the parser's data contains -/

def tlookup (t : Table) (k : List Char) : Option PVal := (t.find? (·.1 == k)).map (·.2)

/-- value of key `k` in section `n` -/
def lookup (d : Data) (n k : List Char) : Option PVal :=
  (d.find? (·.1 == n)).bind fun s => tlookup s.2 k

theorem find?_filter_ne (t : Table) (k k' : List Char) :
    (t.filter (·.1 != k)).find? (·.1 == k') = if k' = k then none else t.find? (·.1 == k') := by
  induction t with
  | nil => simp
  | cons a t ih =>
    rw [List.filter_cons]
    by_cases h1 : a.1 = k
    · have e1 : (a.1 != k) = false := by simp [h1]
      rw [e1]; simp only [Bool.false_eq_true, if_false]; rw [ih]
      by_cases h2 : k' = k
      · rw [if_pos h2, if_pos h2]
      · rw [if_neg h2, if_neg h2, List.find?_cons]
        have e2 : (a.1 == k') = false := by
          rw [h1]; exact beq_eq_false_iff_ne.mpr (fun e => h2 e.symm)
        rw [e2]
    · have e1 : (a.1 != k) = true := by simp [h1]
      rw [e1]; simp only [if_true]; rw [List.find?_cons, ih]
      by_cases h2 : k' = k
      · rw [if_pos h2, if_pos h2]
        have e2 : (a.1 == k') = false := by
          rw [h2]; exact beq_eq_false_iff_ne.mpr h1
        rw [e2]
      · rw [if_neg h2, if_neg h2, List.find?_cons]

theorem tlookup_setKey (t : Table) (k k' : List Char) (v : PVal) :
    tlookup (setKey t k v) k' = if k' = k then some v else tlookup t k' := by
  unfold tlookup setKey
  rw [List.find?_append, find?_filter_ne]
  by_cases h : k' = k
  · simp [h]
  · have : (k == k') = false := beq_eq_false_iff_ne.mpr (fun e => h e.symm)
    simp [h, this]

theorem find?_ensureSection_self (d : Data) (s : List Char) :
    ∃ x, (ensureSection d s).find? (·.1 == s) = some x := by
  unfold ensureSection
  split
  next h =>
    have : (d.find? (·.1 == s)).isSome = true := by
      rw [List.find?_isSome]; exact List.any_eq_true.mp h
    exact Option.isSome_iff_exists.mp this
  next h =>
    have : d.find? (·.1 == s) = none := by
      rw [List.find?_eq_none]
      exact fun x hx hp => h (List.any_eq_true.mpr ⟨x, hx, hp⟩)
    exact ⟨(s, []), by simp [List.find?_append, this]⟩

theorem lookup_ensureSection (d : Data) (s n k : List Char) :
    lookup (ensureSection d s) n k = lookup d n k := by
  unfold lookup ensureSection
  split
  · rfl
  next h =>
    rw [List.find?_append]
    cases hf : d.find? (·.1 == n) with
    | some x => simp
    | none =>
      by_cases hn : s = n
      · simp [hn, tlookup]
      · simp [hn]

theorem lookup_map_setKey (e : Data) (s k : List Char) (v : PVal) (n k' : List Char)
    (hs : ∃ x, e.find? (·.1 == s) = some x) :
    lookup (e.map fun (n, t) => if n == s then (n, setKey t k v) else (n, t)) n k'
      = if n = s ∧ k' = k then some v else lookup e n k' := by
  unfold lookup
  have hcomp : ((fun x : List Char × Table => x.1 == n) ∘
      fun x : List Char × Table => if x.1 == s then (x.1, setKey x.2 k v) else (x.1, x.2))
      = fun x => x.1 == n := by
    funext x; simp only [Function.comp]; split <;> rfl
  have hf : (e.map fun (n, t) => if n == s then (n, setKey t k v) else (n, t))
      = e.map fun x : List Char × Table => if x.1 == s then (x.1, setKey x.2 k v) else (x.1, x.2) := rfl
  rw [hf, List.find?_map, hcomp]
  cases hfind : e.find? (·.1 == n) with
  | none =>
    have : ¬ (n = s ∧ k' = k) := by
      rintro ⟨rfl, _⟩
      obtain ⟨x, hx⟩ := hs
      rw [hfind] at hx; cases hx
    simp [this]
  | some x =>
    have hx : x.1 = n := by simpa using List.find?_some hfind
    show tlookup (if (x.1 == s) = true then (x.1, setKey x.2 k v) else (x.1, x.2)).2 k' = _
    by_cases hn : n = s
    · have : (x.1 == s) = true := by simp [hx, hn]
      rw [if_pos this]
      simp [tlookup_setKey, hn]
    · have : ¬ (x.1 == s) = true := by simp [hx, hn]
      rw [if_neg this]
      simp [hn]

theorem lookup_setIn (d : Data) (s k : List Char) (v : PVal) (n k' : List Char) :
    lookup (setIn d s k v) n k' = if n = s ∧ k' = k then some v else lookup d n k' := by
  rw [← lookup_ensureSection d s n k']
  exact lookup_map_setKey _ s k v n k' (find?_ensureSection_self d s)

theorem lookup_applyEntries_other (s : List Char) (es : List (List Char × WVal)) :
    ∀ d n k', (n ≠ s ∨ k' ∉ es.map (·.1)) →
      lookup (applyEntries s d es) n k' = lookup d n k' := by
  induction es with
  | nil => intro d n k' _; rfl
  | cons e es ih =>
    intro d n k' h
    show lookup (applyEntries s (setIn d s e.1 (expectRead e.2)) es) n k' = _
    rw [ih _ n k' (h.imp id (fun h' hm => h' (by simp [hm]))), lookup_setIn]
    have : ¬ (n = s ∧ k' = e.1) := by
      rintro ⟨h1, h2⟩
      rcases h with h | h
      · exact h h1
      · exact h (by simp [h2])
    rw [if_neg this]

theorem lookup_applyEntries_mem (s : List Char) (es : List (List Char × WVal)) :
    ∀ d, (es.map (·.1)).Nodup → ∀ k v, (k, v) ∈ es →
      lookup (applyEntries s d es) s k = some (expectRead v) := by
  induction es with
  | nil => intro d _ k v hm; simp at hm
  | cons e es ih =>
    intro d hnd k v hm
    rw [List.map_cons, List.nodup_cons] at hnd
    show lookup (applyEntries s (setIn d s e.1 (expectRead e.2)) es) s k = _
    rcases List.mem_cons.mp hm with heq | hm
    · subst heq
      rw [lookup_applyEntries_other s es _ s _ (Or.inr hnd.1), lookup_setIn]
      simp
    · exact ih _ hnd.2 k v hm

theorem lookup_applyEntries_inv (s : List Char) (es : List (List Char × WVal)) :
    ∀ d n k' pv, lookup (applyEntries s d es) n k' = some pv →
      (n = s ∧ ∃ v, (k', v) ∈ es ∧ pv = expectRead v) ∨ lookup d n k' = some pv := by
  induction es with
  | nil => intro d n k' pv h; exact Or.inr h
  | cons e es ih =>
    intro d n k' pv h
    rcases ih _ n k' pv h with ⟨hn, v, hv, hp⟩ | h'
    · exact Or.inl ⟨hn, v, by simp [hv], hp⟩
    · rw [lookup_setIn] at h'
      split at h'
      next hc =>
        cases h'
        exact Or.inl ⟨hc.1, e.2, by rw [hc.2]; simp, rfl⟩
      next => exact Or.inr h'

theorem lookup_base (d : Data) (s n k : List Char) :
    lookup (if s == "default".toList then d else ensureSection d s) n k = lookup d n k := by
  split
  · rfl
  · exact lookup_ensureSection d s n k

theorem lookup_foldl_other (secs : List WSection) (n k : List Char) :
    ∀ d, n ∉ secs.map (·.1) → lookup (secs.foldl applySec d) n k = lookup d n k := by
  induction secs with
  | nil => intro d _; rfl
  | cons s secs ih =>
    intro d h
    have h1 : n ≠ s.1 := fun e => h (by simp [e])
    have h2 : n ∉ secs.map (·.1) := fun e => h (by simp at e ⊢; exact Or.inr e)
    rw [List.foldl_cons, ih _ h2]
    unfold applySec
    rw [lookup_applyEntries_other _ _ _ _ _ (Or.inl h1), lookup_base]

theorem lookup_foldl_mem (secs : List WSection) :
    ∀ d, (secs.map (·.1)).Nodup → (∀ s ∈ secs, (s.2.map (·.1)).Nodup) →
      ∀ n es k v, (n, es) ∈ secs → (k, v) ∈ es →
        lookup (secs.foldl applySec d) n k = some (expectRead v) := by
  induction secs with
  | nil => intro d _ _ n es k v hm; simp at hm
  | cons s secs ih =>
    intro d hnd hk n es k v hm hkv
    rw [List.map_cons, List.nodup_cons] at hnd
    rw [List.foldl_cons]
    rcases List.mem_cons.mp hm with heq | hm
    · subst heq
      rw [lookup_foldl_other secs _ _ _ hnd.1]
      unfold applySec
      exact lookup_applyEntries_mem _ _ _ (hk _ (by simp)) k v hkv
    · exact ih _ hnd.2 (fun s' hs' => hk s' (by simp [hs'])) n es k v hm hkv

theorem lookup_foldl_inv (secs : List WSection) :
    ∀ d n k pv, lookup (secs.foldl applySec d) n k = some pv →
      (∃ es v, (n, es) ∈ secs ∧ (k, v) ∈ es ∧ pv = expectRead v) ∨ lookup d n k = some pv := by
  induction secs with
  | nil => intro d n k pv h; exact Or.inr h
  | cons s secs ih =>
    intro d n k pv h
    rw [List.foldl_cons] at h
    rcases ih _ n k pv h with ⟨es, v, h1, h2, h3⟩ | h'
    · exact Or.inl ⟨es, v, by simp [h1], h2, h3⟩
    · unfold applySec at h'
      rcases lookup_applyEntries_inv _ _ _ _ _ _ h' with ⟨hn, v, hv, hp⟩ | h''
      · exact Or.inl ⟨s.2, v, by rw [hn]; simp, hv, hp⟩
      · rw [lookup_base] at h''
        exact Or.inr h''

/-! section names present in the parser's data -/

theorem names_ensureSection (d : Data) (s : List Char) :
    ∀ x ∈ ensureSection d s, x.1 = s ∨ ∃ y ∈ d, y.1 = x.1 := by
  intro x hx
  unfold ensureSection at hx
  split at hx
  · exact Or.inr ⟨x, hx, rfl⟩
  · rcases List.mem_append.mp hx with hx | hx
    · exact Or.inr ⟨x, hx, rfl⟩
    · simp at hx; subst hx; exact Or.inl rfl

theorem names_setIn (d : Data) (s k : List Char) (v : PVal) :
    ∀ x ∈ setIn d s k v, x.1 = s ∨ ∃ y ∈ d, y.1 = x.1 := by
  intro x hx
  unfold setIn at hx
  obtain ⟨y, hy, rfl⟩ := List.mem_map.mp hx
  have : (match y with | (n, t) => if n == s then (n, setKey t k v) else (n, t)).1 = y.1 := by
    obtain ⟨n, t⟩ := y
    show (if n == s then (n, setKey t k v) else (n, t)).1 = n
    split <;> rfl
  rw [this]
  exact names_ensureSection d s y hy

theorem names_applyEntries (s : List Char) (es : List (List Char × WVal)) :
    ∀ d, ∀ x ∈ applyEntries s d es, x.1 = s ∨ ∃ y ∈ d, y.1 = x.1 := by
  induction es with
  | nil => intro d x hx; exact Or.inr ⟨x, hx, rfl⟩
  | cons e es ih =>
    intro d x hx
    rcases ih _ x hx with h | ⟨y, hy, hxy⟩
    · exact Or.inl h
    · rcases names_setIn d s _ _ y hy with h | ⟨z, hz, hzy⟩
      · exact Or.inl (hxy ▸ h)
      · exact Or.inr ⟨z, hz, hzy.trans hxy⟩

theorem names_foldl (secs : List WSection) :
    ∀ d, ∀ x ∈ secs.foldl applySec d, (∃ s ∈ secs, s.1 = x.1) ∨ ∃ y ∈ d, y.1 = x.1 := by
  induction secs with
  | nil => intro d x hx; exact Or.inr ⟨x, hx, rfl⟩
  | cons s secs ih =>
    intro d x hx
    rw [List.foldl_cons] at hx
    rcases ih _ x hx with ⟨s', hs', h⟩ | ⟨y, hy, hxy⟩
    · exact Or.inl ⟨s', by simp [hs'], h⟩
    · unfold applySec at hy
      rcases names_applyEntries _ _ _ y hy with h | ⟨z, hz, hzy⟩
      · exact Or.inl ⟨s, by simp, h.symm.trans hxy⟩
      · split at hz
        · exact Or.inr ⟨z, hz, hzy.trans hxy⟩
        · rcases names_ensureSection d s.1 z hz with h | ⟨w, hw, hwz⟩
          · exact Or.inl ⟨s, by simp, (h.symm.trans hzy).trans hxy⟩
          · exact Or.inr ⟨w, hw, (hwz.trans hzy).trans hxy⟩

/-! ## The written file as a list of sections -/

/-- the sections the writer emits, in its fixed order -/
def secsOf (data : List WSection) (order : List (List Char)) : List WSection :=
  order.filterMap fun n => (data.find? (·.1 == n)).map fun p => (n, p.2)

theorem writeFile_eq_secs (data : List WSection) (order : List (List Char)) :
    (order.filterMap fun n => (data.find? (·.1 == n)).map fun (_, es) => writeSection n es)
      = (secsOf data order).map fun s => writeSection s.1 s.2 := by
  unfold secsOf
  induction order with
  | nil => rfl
  | cons a order ih =>
    rw [List.filterMap_cons, List.filterMap_cons]
    cases h : data.find? (·.1 == a) with
    | none => simpa using ih
    | some p => simpa using ih

theorem mem_secsOf {data : List WSection} {order : List (List Char)} {s : WSection}
    (h : s ∈ secsOf data order) : s.1 ∈ order ∧ s ∈ data := by
  unfold secsOf at h
  obtain ⟨n, hn, hf⟩ := List.mem_filterMap.mp h
  obtain ⟨p, hp, hs⟩ := Option.map_eq_some_iff.mp hf
  have hp1 : p.1 = n := by simpa using List.find?_some hp
  have : s = p := by rw [← hs, ← hp1]
  subst this
  exact ⟨hp1 ▸ hn, List.mem_of_find?_eq_some hp⟩

theorem find?_of_nodup {data : List WSection} (hnd : (data.map (·.1)).Nodup) {s : WSection}
    (hs : s ∈ data) : data.find? (·.1 == s.1) = some s := by
  induction data with
  | nil => simp at hs
  | cons a data ih =>
    rw [List.map_cons, List.nodup_cons] at hnd
    rcases List.mem_cons.mp hs with rfl | hs
    · simp
    · have : a.1 ≠ s.1 := fun e => hnd.1 (e ▸ List.mem_map.mpr ⟨s, hs, rfl⟩)
      rw [List.find?_cons, beq_eq_false_iff_ne.mpr this]
      exact ih hnd.2 hs

theorem secsOf_mem {data : List WSection} (hnd : (data.map (·.1)).Nodup) {order : List (List Char)}
    {s : WSection} (hs : s ∈ data) (ho : s.1 ∈ order) : s ∈ secsOf data order := by
  unfold secsOf
  exact List.mem_filterMap.mpr ⟨s.1, ho, by rw [find?_of_nodup hnd hs]; rfl⟩

theorem secsOf_cons_none {data : List WSection} {a : List Char} (order : List (List Char))
    (h : data.find? (·.1 == a) = none) : secsOf data (a :: order) = secsOf data order := by
  unfold secsOf; rw [List.filterMap_cons, h]; rfl

theorem secsOf_cons_some {data : List WSection} {a : List Char} (order : List (List Char))
    {p : WSection} (h : data.find? (·.1 == a) = some p) :
    secsOf data (a :: order) = (a, p.2) :: secsOf data order := by
  unfold secsOf; rw [List.filterMap_cons, h]; rfl

theorem secsOf_nodup (data : List WSection) (order : List (List Char)) (ho : order.Nodup) :
    ((secsOf data order).map (·.1)).Nodup := by
  induction order with
  | nil => exact List.nodup_nil
  | cons a order ih =>
    rw [List.nodup_cons] at ho
    cases h : data.find? (·.1 == a) with
    | none => rw [secsOf_cons_none order h]; exact ih ho.2
    | some p =>
      rw [secsOf_cons_some order h, List.map_cons, List.nodup_cons]
      refine ⟨?_, ih ho.2⟩
      intro hm
      obtain ⟨s, hs, hsa⟩ := List.mem_map.mp hm
      have hsa' : s.1 = a := hsa
      exact ho.1 (hsa' ▸ (mem_secsOf hs).1)

/-! ## File level -/

/-- well-formed writer input: known, pairwise distinct section names; in each section pairwise
    distinct bare keys and writable values -/
def wfData (data : List WSection) : Bool :=
  decide (data.map (·.1)).Nodup &&
  data.all fun s =>
    decide (s.1 ∈ sectionOrder) && decide (s.2.map (·.1)).Nodup &&
      s.2.all fun e => bareKey e.1 && writable e.2

theorem wfData_unpack {data : List WSection} (h : wfData data = true) :
    (data.map (·.1)).Nodup ∧ (∀ s ∈ data, s.1 ∈ sectionOrder) ∧
      (∀ s ∈ data, (s.2.map (·.1)).Nodup) ∧ (∀ s ∈ data, okEntries s.2) := by
  simp only [wfData, Bool.and_eq_true, decide_eq_true_eq, List.all_eq_true] at h
  refine ⟨h.1, fun s hs => (h.2 s hs).1.1, fun s hs => (h.2 s hs).1.2, fun s hs e he => ?_⟩
  exact (h.2 s hs).2 e he

/-- the data the parser ends with -/
def finalData (data : List WSection) : Data := (secsOf data sectionOrder).foldl applySec []

def otherSections : List (List Char) :=
  ["compiler", "build", "cache", "external", "neighbors", "dependencies"].map String.toList

theorem sectionOrder_eq : sectionOrder = "default".toList :: otherSections := rfl

theorem sectionOrder_nodup : sectionOrder.Nodup := by decide
theorem sectionOrder_bare : ∀ n ∈ sectionOrder, bareKey n = true := by decide
theorem default_not_other : "default".toList ∉ otherSections := by decide

/-- the parser accepts every written file and ends with `finalData` -/
theorem parseFile_writeFile_eq (pf : List Char → Bool) (hpf : ∀ t, floatRaw t = true → pf t = true)
    (data : List WSection) (hok : ∀ s ∈ data, okEntries s.2) :
    parseFile pf (writeFile data) = some (finalData data) := by
  have hsecs : ∀ s ∈ secsOf data otherSections,
      bareKey s.1 = true ∧ s.1 ≠ "default".toList ∧ okEntries s.2 := by
    intro s hs
    obtain ⟨h1, h2⟩ := mem_secsOf hs
    refine ⟨sectionOrder_bare _ (by rw [sectionOrder_eq]; simp [h1]), ?_, hok s h2⟩
    intro e; exact default_not_other (e ▸ h1)
  show parseText pf (writeFile data) [] [] = _
  unfold writeFile finalData
  rw [writeFile_eq_secs, sectionOrder_eq]
  cases h : data.find? (·.1 == "default".toList) with
  | none => rw [secsOf_cons_none _ h]; exact parseText_sections pf hpf _ _ _ hsecs
  | some p =>
    have hp : okEntries p.2 := hok p (List.mem_of_find?_eq_some h)
    rw [secsOf_cons_some _ h]
    simp only [List.map_cons, List.flatten_cons, List.foldl_cons]
    rw [parseText_section_default pf hpf hp, parseText_sections pf hpf _ _ _ hsecs]

/-- 4a. the parser never rejects a written file -/
theorem parseFile_writeFile_ne_none (pf : List Char → Bool)
    (hpf : ∀ t, floatRaw t = true → pf t = true) (data : List WSection)
    (hwf : wfData data = true) : parseFile pf (writeFile data) ≠ none := by
  rw [parseFile_writeFile_eq pf hpf data (wfData_unpack hwf).2.2.2]; simp

/-- 4b. round trip: every written key is read back, in its section, with the expected value -/
theorem parseFile_writeFile_lookup (pf : List Char → Bool)
    (hpf : ∀ t, floatRaw t = true → pf t = true) (data : List WSection)
    (hwf : wfData data = true) {n k : List Char} {es : List (List Char × WVal)} {v : WVal}
    (hn : (n, es) ∈ data) (hk : (k, v) ∈ es) :
    (parseFile pf (writeFile data)).bind (fun d => lookup d n k) = some (expectRead v) := by
  obtain ⟨h1, h2, h3, h4⟩ := wfData_unpack hwf
  rw [parseFile_writeFile_eq pf hpf data h4]
  show lookup (finalData data) n k = _
  unfold finalData
  exact lookup_foldl_mem _ _ (secsOf_nodup data _ sectionOrder_nodup)
    (fun s hs => h3 s (mem_secsOf hs).2) n es k v (secsOf_mem h1 hn (h2 _ hn)) hk

/-- 4c. nothing else is read back: every key found by the parser was written, with that value -/
theorem parseFile_writeFile_only (pf : List Char → Bool)
    (hpf : ∀ t, floatRaw t = true → pf t = true) (data : List WSection)
    (hwf : wfData data = true) {n k : List Char} {pv : PVal}
    (h : (parseFile pf (writeFile data)).bind (fun d => lookup d n k) = some pv) :
    ∃ es v, (n, es) ∈ data ∧ (k, v) ∈ es ∧ pv = expectRead v := by
  rw [parseFile_writeFile_eq pf hpf data (wfData_unpack hwf).2.2.2] at h
  change lookup (finalData data) n k = some pv at h
  unfold finalData at h
  rcases lookup_foldl_inv _ _ _ _ _ h with ⟨es, v, h1, h2, h3⟩ | h'
  · exact ⟨es, v, (mem_secsOf h1).2, h2, h3⟩
  · simp [lookup] at h'

/-- 4d. no other sections: every section of the parser's data was written -/
theorem parseFile_writeFile_sections (pf : List Char → Bool)
    (hpf : ∀ t, floatRaw t = true → pf t = true) (data : List WSection)
    (hwf : wfData data = true) {d : Data} (h : parseFile pf (writeFile data) = some d) :
    ∀ x ∈ d, ∃ es, (x.1, es) ∈ data := by
  rw [parseFile_writeFile_eq pf hpf data (wfData_unpack hwf).2.2.2] at h
  cases h
  intro x hx
  unfold finalData at hx
  rcases names_foldl _ _ x hx with ⟨s, hs, hsx⟩ | ⟨y, hy, _⟩
  · exact ⟨s.2, hsx ▸ (mem_secsOf hs).2⟩
  · simp at hy

/-- 5. the parser is a total function (remark): it returns `some` data or `none` on every text -/
theorem parse_total (pf : List Char → Bool) (s : List Char) : ∃ r, parseFile pf s = r := ⟨_, rfl⟩

theorem splitEq_some_of_mem {l : List Char} (h : '=' ∈ l) : ∃ p, splitEq l = some p := by
  induction l with
  | nil => simp at h
  | cons a l ih =>
    by_cases ha : a = '='
    · exact ⟨([], l), by simp [splitEq, ha]⟩
    · have : '=' ∈ l := by
        rcases List.mem_cons.mp h with e | e
        · exact absurd e.symm ha
        · exact e
      obtain ⟨p, hp⟩ := ih this
      exact ⟨(a :: p.1, p.2), by simp [splitEq, ha, hp]⟩

/-- 5'. a line containing `=` is never a syntax error (it is a comment, a header or a key/value) -/
theorem parseLine_ne_bad_of_eq (pf : List Char → Bool) {l : List Char} (h : '=' ∈ l) :
    parseLine pf l ≠ .bad := by
  obtain ⟨p, hp⟩ := splitEq_some_of_mem h
  unfold parseLine
  split
  · simp
  · split
    · simp
    · rw [hp]; simp

/-! ## Concrete instances -/

def demo : List WSection :=
  [ ("build".toList,
      [ ("opt-level".toList, .int 3), ("ratio".toList, .float "2".toList),
        ("name".toList, .str " a # b = [c] ".toList) ]),
    ("default".toList,
      [ ("debug".toList, .bool true), ("max-depth_2".toList, .int (-9223372036854775808)),
        ("eps".toList, .float "-0.000001".toList) ]) ]

example : wfData demo = true := by decide

/-- `floatRaw` itself is an admissible `pf` -/
example : (parseFile floatRaw (writeFile demo)).bind
      (fun d => lookup d "default".toList "max-depth_2".toList)
    = some (.int (-9223372036854775808)) :=
  parseFile_writeFile_lookup floatRaw (fun _ h => h) demo (by decide)
    (n := "default".toList) (k := "max-depth_2".toList) (v := .int (-9223372036854775808))
    (es := _) (List.mem_cons_of_mem _ (List.mem_cons_self)) (by decide)

example : (parseFile floatRaw (writeFile demo)).bind
      (fun d => lookup d "build".toList "ratio".toList) = some (.float "2.0".toList) :=
  parseFile_writeFile_lookup floatRaw (fun _ h => h) demo (by decide)
    (n := "build".toList) (k := "ratio".toList) (v := .float "2".toList)
    (es := _) List.mem_cons_self (by decide)

/-- an end-to-end instance evaluated outright (no integers: `natDigits` is a well-founded recursion) -/
example :
    parseFile floatRaw (writeFile
      [ ("cache".toList, [("dir".toList, .str "x # y".toList), ("r".toList, .float "2".toList)]),
        ("default".toList, [("a".toList, .bool true)]) ])
    = some [ ("default".toList, [("a".toList, .bool true)]),
             ("cache".toList, [("dir".toList, .str "x # y".toList), ("r".toList, .float "2.0".toList)]) ] := by
  decide

/-- blanks and a comment on a concrete line -/
example :
    parseLine floatRaw (trimSpace "\t max-depth_2\t=  \"a # b\" \t # note = \"x\" ".toList)
      = .kv "max-depth_2".toList (.str "a # b".toList) := by decide

/-! the hypotheses of `okStr` are needed (witnesses, `pf` rejecting everything) -/

example : parseValue (fun _ => false) (formatValue (.str "true".toList)) = .bool true := by decide

example : parseLine (fun _ => false)
      (trimSpace ("k = ".toList ++ formatValue (.str "a\\".toList) ++ " # c".toList))
    = .kv "k".toList (.str "\"a\\\" # c".toList) := by decide

example : parseLine (fun _ => false) (trimSpace ("k = ".toList ++ formatValue (.str "a\"b # c".toList)))
    = .kv "k".toList (.str "\"a\"b".toList) := by decide

end FerretVerif.Toml
