import FerretVerif.Model.Toml

/-
  Proofs/Toml.lean — C20: the TOML writer/parser round trip at the text level.

  Domain predicates (all `Bool`, hence decidable): `okStr`, `bareKey`, `floatRaw`, `inInt64`, `writable`,
  `blanks`.
  * value level : `parseValue_formatValue`
  * line level  : `parseLine_formatLine`, `parseLine_blanks_inert`, `parseLine_comment_inert`,
                  `parseLine_skip_blank`, `parseLine_skip_comment`
  * file level  : `parseFile_writeFile_ne_none`, `parseFile_writeFile_lookup`,
                  `parseFile_writeFile_only`
  The only assumption on `strconv.ParseFloat` is the hypothesis
  `hpf : ∀ t, floatRaw t = true → pf t = true`.
  Core-only.
-/
namespace FerretVerif.Toml

/-! ## Domain predicates -/

/-- a string value the writer can emit faithfully: no `"`, `\`, LF, CR, and not the text true/false -/
def okStr (s : List Char) : Bool :=
  s.all (fun c => c != '"' && c != '\\' && c != '\n' && c != '\r')
    && s != "true".toList && s != "false".toList

/-- `[A-Za-z0-9_-]` -/
def keyChar (c : Char) : Bool :=
  let n := c.toNat
  (65 ≤ n && n ≤ 90) || (97 ≤ n && n ≤ 122) || (48 ≤ n && n ≤ 57) || n == 95 || n == 45

def bareKey (k : List Char) : Bool := !k.isEmpty && k.all keyChar

/-- ≥ 1 decimal digits -/
def digits1 (s : List Char) : Bool := !s.isEmpty && s.all isDigit

/-- digits, optionally followed by `.` and digits -/
def unsignedFloat (s : List Char) : Bool :=
  let ip := s.takeWhile isDigit
  let rest := s.dropWhile isDigit
  digits1 ip && (rest.isEmpty || (rest.head? == some '.' && digits1 (rest.drop 1)))

/-- shape of `strconv.FormatFloat(v,'f',-1,64)` for a finite `v`: `-?[0-9]+(\.[0-9]+)?` -/
def floatRaw (s : List Char) : Bool :=
  unsignedFloat (if s.head? == some '-' then s.drop 1 else s)

def inInt64 (i : Int) : Bool := decide (-(2 ^ 63 : Int) ≤ i) && decide (i ≤ 2 ^ 63 - 1)

def writable : WVal → Bool
  | .str s => okStr s
  | .bool _ => true
  | .int i => inInt64 i
  | .float raw => floatRaw raw

/-- white space that is not a line feed -/
def blanks (ws : List Char) : Bool := ws.all (fun c => isSpace c && c != '\n')

example : okStr " a # b = [c] ".toList = true := by decide
example : okStr "true".toList = false := by decide
example : okStr "say \"hi\"".toList = false := by decide
example : bareKey "max-depth_2".toList = true := by decide
example : bareKey "a b".toList = false := by decide
example : bareKey [] = false := by decide
example : floatRaw "-12.5".toList = true := by decide
example : floatRaw "3".toList = true := by decide
example : floatRaw "0.000001".toList = true := by decide
example : floatRaw "1e21".toList = false := by decide
example : floatRaw "-.5".toList = false := by decide
example : floatRaw "5.".toList = false := by decide
example : floatRaw " 5".toList = false := by decide
example : floatRaw "+Inf".toList = false := by decide
example : inInt64 (-9223372036854775808) = true := by decide
example : inInt64 9223372036854775808 = false := by decide
example : blanks " \t ".toList = true := by decide
example : blanks " \n".toList = false := by decide

/-! ## Generic list facts -/

theorem dropWhile_head {p : Char → Bool} {l : List Char}
    (h : ∀ a, l.head? = some a → p a = false) : l.dropWhile p = l := by
  cases l with
  | nil => rfl
  | cons a r => simp [h a rfl]

theorem dropWhile_all_append {p : Char → Bool} {ws rest : List Char}
    (hw : ∀ c ∈ ws, p c = true) (h : ∀ a, rest.head? = some a → p a = false) :
    (ws ++ rest).dropWhile p = rest := by
  induction ws with
  | nil => exact dropWhile_head h
  | cons w ws ih =>
    have : p w = true := hw w (by simp)
    simp only [List.cons_append, List.dropWhile_cons, this, if_true]
    exact ih (fun c hc => hw c (by simp [hc]))

theorem dropWhile_append_stop {p : Char → Bool} {a : Char} (ha : p a = false) (Y Z : List Char) :
    ∃ Y', (Y ++ a :: Z).dropWhile p = Y' ++ a :: Z := by
  induction Y with
  | nil => exact ⟨[], by simp [ha]⟩
  | cons y Y ih =>
    by_cases hy : p y = true
    · obtain ⟨Y', h⟩ := ih
      exact ⟨Y', by simp [hy, h]⟩
    · exact ⟨y :: Y, by simp [hy]⟩

/-! ## TrimSpace -/

/-- all white space -/
def allSp (ws : List Char) : Prop := ∀ c ∈ ws, isSpace c = true

/-- non-empty, first and last character are not white space -/
def tight (m : List Char) : Prop :=
  m ≠ [] ∧ (∀ a, m.head? = some a → isSpace a = false) ∧ (∀ a, m.getLast? = some a → isSpace a = false)

theorem allSp_nil : allSp [] := by intro c hc; simp at hc

theorem allSp_append {a b : List Char} (ha : allSp a) (hb : allSp b) : allSp (a ++ b) := by
  intro c hc
  rcases List.mem_append.mp hc with h | h
  · exact ha c h
  · exact hb c h

theorem blanks_allSp {ws : List Char} (h : blanks ws = true) : allSp ws := by
  intro c hc
  have := (List.all_eq_true.mp h) c hc
  simp at this
  exact this.1

theorem blanks_noLF {ws : List Char} (h : blanks ws = true) : '\n' ∉ ws := by
  intro hc
  have := (List.all_eq_true.mp h) _ hc
  simp at this

theorem trimRight_sandwich {m ws : List Char} (hw : allSp ws)
    (hm : ∀ a, m.getLast? = some a → isSpace a = false) : trimRight (m ++ ws) = m := by
  unfold trimRight
  rw [List.reverse_append, dropWhile_all_append (p := isSpace)]
  · simp
  · intro c hc; exact hw c (by simpa using hc)
  · intro a ha; exact hm a (by simpa [List.head?_reverse] using ha)

theorem trimSpace_sandwich {ws1 m ws2 : List Char} (h1 : allSp ws1) (h2 : allSp ws2)
    (hm : tight m) : trimSpace (ws1 ++ m ++ ws2) = m := by
  unfold trimSpace trimLeft
  rw [List.append_assoc, dropWhile_all_append (p := isSpace) h1]
  · exact trimRight_sandwich h2 hm.2.2
  · intro a ha
    obtain ⟨hne, hh, _⟩ := hm
    cases m with
    | nil => exact absurd rfl hne
    | cons b r => exact hh a (by simpa using ha)

theorem trimSpace_allSp {ws : List Char} (h : allSp ws) : trimSpace ws = [] := by
  unfold trimSpace trimLeft
  have : ws.dropWhile isSpace = [] := by
    have := dropWhile_all_append (p := isSpace) (ws := ws) (rest := []) h (by simp)
    simpa using this
  rw [this]; rfl

/-- trimming a text whose first non-blank is `a` and which continues after some later non-blank `b`:
    everything up to `b` survives -/
theorem trimSpace_keep {ws1 X c : List Char} {a b : Char} (h1 : allSp ws1)
    (ha : isSpace a = false) (hb : isSpace b = false) :
    ∃ c', trimSpace (ws1 ++ a :: X ++ b :: c) = a :: X ++ b :: c' := by
  unfold trimSpace trimLeft
  rw [List.append_assoc, dropWhile_all_append (p := isSpace) h1 (by simp [ha])]
  unfold trimRight
  rw [List.reverse_append, List.reverse_cons]
  obtain ⟨Y', hY⟩ := dropWhile_append_stop (p := isSpace) hb c.reverse (a :: X).reverse
  refine ⟨Y'.reverse, ?_⟩
  rw [List.append_assoc, List.singleton_append, hY]
  simp

/-! ## Itoa / Atoi -/

theorem ofNat_digit_toNat : ∀ n, n < 10 → (Char.ofNat (48 + n)).toNat = 48 + n := by decide

theorem natDigits_ne_nil (n : Nat) : natDigits n ≠ [] := by
  rw [natDigits.eq_1]; split <;> simp

theorem natDigits_all (n : Nat) : ∀ c ∈ natDigits n, isDigit c = true := by
  induction n using Nat.strongRecOn with
  | _ n ih =>
    rw [natDigits.eq_1]
    split
    next h =>
      intro c hc
      simp at hc; subst hc
      simp [isDigit, ofNat_digit_toNat n h]; omega
    next h =>
      intro c hc
      rcases List.mem_append.mp hc with hc | hc
      · exact ih (n / 10) (by omega) c hc
      · simp at hc; subst hc
        have : n % 10 < 10 := Nat.mod_lt _ (by omega)
        simp [isDigit, ofNat_digit_toNat _ this]; omega

theorem natDigits_fold (n : Nat) :
    (natDigits n).foldl (fun acc c => acc * 10 + (c.toNat - 48)) 0 = n := by
  induction n using Nat.strongRecOn with
  | _ n ih =>
    rw [natDigits.eq_1]
    split
    next h => simp [ofNat_digit_toNat n h]
    next h =>
      have : n % 10 < 10 := Nat.mod_lt _ (by omega)
      rw [List.foldl_append, ih (n / 10) (by omega)]
      simp [ofNat_digit_toNat _ this]; omega

theorem isDigit_not_sign {c : Char} (h : isDigit c = true) : c ≠ '+' ∧ c ≠ '-' := by
  constructor <;> (rintro rfl; revert h; decide)

/-- `atoi` on an unsigned digit string -/
theorem atoi_digits {ds : List Char} (hne : ds ≠ []) (hd : ∀ c ∈ ds, isDigit c = true) :
    atoi ds =
      (let v : Nat := ds.foldl (fun acc c => acc * 10 + (c.toNat - 48)) 0
       if (v : Int) ≤ 2 ^ 63 - 1 then some (v : Int) else none) := by
  cases ds with
  | nil => exact absurd rfl hne
  | cons d r =>
    have hd0 := isDigit_not_sign (hd d (by simp))
    have hall : (d :: r).all isDigit = true := List.all_eq_true.mpr hd
    unfold atoi
    split
    next neg ds' heq =>
      split at heq
      · rename_i h; injection h with h1 h2; exact absurd h1 hd0.1
      · rename_i h; injection h with h1 h2; exact absurd h1 hd0.2
      · cases heq
        simp [hall]
        omega

theorem atoi_neg_digits {ds : List Char} (hne : ds ≠ []) (hd : ∀ c ∈ ds, isDigit c = true) :
    atoi ('-' :: ds) =
      (let v : Nat := ds.foldl (fun acc c => acc * 10 + (c.toNat - 48)) 0
       if -(2 ^ 63 : Int) ≤ -(v : Int) then some (-(v : Int)) else none) := by
  have hall : ds.all isDigit = true := List.all_eq_true.mpr hd
  have hemp : ds.isEmpty = false := by cases ds <;> simp_all
  simp [atoi, hall, hemp]
  omega

theorem atoi_itoa {i : Int} (h : inInt64 i = true) : atoi (itoa i) = some i := by
  simp [inInt64] at h
  unfold itoa
  split
  · rw [atoi_neg_digits (natDigits_ne_nil _) (natDigits_all _), natDigits_fold]
    simp; omega
  · rw [atoi_digits (natDigits_ne_nil _) (natDigits_all _), natDigits_fold]
    simp; omega

/-- `atoi` rejects any text containing a character that is neither a digit nor a sign -/
theorem atoi_none_of_mem {s : List Char} {c : Char} (hc : c ∈ s) (hd : isDigit c = false)
    (hp : c ≠ '+') (hm : c ≠ '-') : atoi s = none := by
  unfold atoi
  split
  next neg ds heq =>
    have hmem : c ∈ ds := by
      split at heq
      · cases heq; simpa [hp] using hc
      · cases heq; simpa [hm] using hc
      · cases heq; exact hc
    have : ds.all isDigit = false := by
      rw [List.all_eq_false]; exact ⟨c, hmem, by simp [hd]⟩
    simp [this]

end FerretVerif.Toml
