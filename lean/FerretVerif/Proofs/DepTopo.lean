/-
  Proofs/DepTopo.lean — ComputeTopologicalOrder (Kahn with sorted ready sets): the result is
  duplicate-free, respects the dependency order, is complete on acyclic graphs, and does not depend on
  the iteration order of the Go maps.  Core-only.
-/
import FerretVerif.Proofs.DepGraph

namespace FerretVerif.DepGraph

/-! ### insertion sort -/

theorem insertSorted_perm (x : Nat) (l : List Nat) : (insertSorted x l).Perm (x :: l) := by
  induction l with
  | nil => exact List.Perm.refl _
  | cons y ys ih =>
    unfold insertSorted
    split
    · exact List.Perm.refl _
    · exact (List.Perm.cons y ih).trans (List.Perm.swap x y ys)

theorem sortNat_cons (x : Nat) (l : List Nat) : sortNat (x :: l) = insertSorted x (sortNat l) := rfl

theorem sortNat_perm_self (l : List Nat) : (sortNat l).Perm l := by
  induction l with
  | nil => exact List.Perm.refl _
  | cons x l ih =>
    rw [sortNat_cons]
    exact (insertSorted_perm x _).trans (List.Perm.cons x ih)

theorem mem_sortNat {x : Nat} {l : List Nat} : x ∈ sortNat l ↔ x ∈ l :=
  (sortNat_perm_self l).mem_iff

theorem nodup_sortNat {l : List Nat} (h : l.Nodup) : (sortNat l).Nodup :=
  (sortNat_perm_self l).nodup_iff.2 h

theorem insertSorted_comm (x y : Nat) (l : List Nat) :
    insertSorted x (insertSorted y l) = insertSorted y (insertSorted x l) := by
  induction l with
  | nil =>
    simp only [insertSorted]
    by_cases h1 : x ≤ y <;> by_cases h2 : y ≤ x <;> simp [h1, h2]
    · omega
    · omega
  | cons z zs ih =>
    simp only [insertSorted]
    by_cases hxz : x ≤ z <;> by_cases hyz : y ≤ z <;> by_cases hxy : x ≤ y <;> by_cases hyx : y ≤ x <;>
      simp [hxz, hyz, hxy, hyx, insertSorted, ih] <;> omega

/-- P2: the sorted ready set does not depend on the (map) iteration order -/
theorem sortNat_perm {l1 l2 : List Nat} (h : l1.Perm l2) : sortNat l1 = sortNat l2 := by
  induction h with
  | nil => rfl
  | cons x _ ih => rw [sortNat_cons, sortNat_cons, ih]
  | swap x y l => rw [sortNat_cons, sortNat_cons, sortNat_cons, sortNat_cons, insertSorted_comm]
  | trans _ _ ih1 ih2 => exact ih1.trans ih2

theorem insertSorted_sorted (x : Nat) (l : List Nat) (h : l.Pairwise (· ≤ ·)) :
    (insertSorted x l).Pairwise (· ≤ ·) := by
  induction l with
  | nil => simp [insertSorted]
  | cons y ys ih =>
    rw [List.pairwise_cons] at h
    unfold insertSorted
    split
    · next hxy =>
      rw [List.pairwise_cons]
      refine ⟨fun z hz => ?_, List.pairwise_cons.2 h⟩
      cases hz with
      | head => exact hxy
      | tail _ hz' => exact Nat.le_trans hxy (h.1 z hz')
    · next hxy =>
      rw [List.pairwise_cons]
      refine ⟨fun z hz => ?_, ih h.2⟩
      have hz2 := (insertSorted_perm x ys).mem_iff.1 hz
      rw [List.mem_cons] at hz2
      rcases hz2 with rfl | hz'
      · omega
      · exact h.1 z hz'

theorem sortNat_sorted (l : List Nat) : (sortNat l).Pairwise (· ≤ ·) := by
  induction l with
  | nil => simp [sortNat]
  | cons x l ih => rw [sortNat_cons]; exact insertSorted_sorted x _ ih

/-! ### list facts missing from core -/

theorem nodup_eraseDups (l : List Nat) : l.eraseDups.Nodup := by
  generalize hn : l.length = n
  induction n using Nat.strongRecOn generalizing l with
  | _ n ih =>
    cases l with
    | nil => simp
    | cons a as =>
      rw [List.eraseDups_cons, List.nodup_cons]
      constructor
      · rw [List.mem_eraseDups]; simp
      · subst hn
        exact ih _ (Nat.lt_succ_of_le (List.length_filter_le _ _)) _ rfl

theorem nodup_filter {l : List Nat} (p : Nat → Bool) (h : l.Nodup) : (l.filter p).Nodup :=
  List.Nodup.sublist List.filter_sublist h

theorem nodup_reverse {l : List Nat} (h : l.Nodup) : l.reverse.Nodup :=
  (List.reverse_perm l).nodup_iff.2 h

/-- pigeonhole -/
theorem nodup_subset_length : ∀ (l1 l2 : List Nat), l1.Nodup → (∀ x, x ∈ l1 → x ∈ l2) →
    l1.length ≤ l2.length := by
  intro l1
  induction l1 with
  | nil => intro _ _ _; simp
  | cons x t ih =>
    intro l2 hnd hsub
    rw [List.nodup_cons] at hnd
    have hx : x ∈ l2 := hsub x List.mem_cons_self
    have h1 : ∀ y, y ∈ t → y ∈ l2.erase x := by
      intro y hy
      have hne : y ≠ x := fun h => hnd.1 (h ▸ hy)
      exact (List.mem_erase_of_ne hne).2 (hsub y (List.mem_cons_of_mem _ hy))
    have h2 := ih (l2.erase x) hnd.2 h1
    rw [List.length_erase_of_mem hx] at h2
    have : 0 < l2.length := List.length_pos_of_mem hx
    simp only [List.length_cons]
    omega

theorem filter_length_le_of_imp (l : List Nat) (p q : Nat → Bool) (hpq : ∀ z, p z = true → q z = true) :
    (l.filter p).length ≤ (l.filter q).length := by
  induction l with
  | nil => simp
  | cons y l ih =>
    simp only [List.filter_cons]
    cases hp : p y with
    | true => simp [hpq y hp]; exact ih
    | false =>
      cases hq : q y with
      | true => simp; omega
      | false => simpa using ih

theorem filter_length_lt_of_imp (l : List Nat) (p q : Nat → Bool) (hpq : ∀ z, p z = true → q z = true)
    (x : Nat) (hx : x ∈ l) (hqx : q x = true) (hpx : p x = false) :
    (l.filter p).length < (l.filter q).length := by
  induction l with
  | nil => simp at hx
  | cons y l ih =>
    simp only [List.filter_cons]
    by_cases hxy : x = y
    · subst hxy
      have := filter_length_le_of_imp l p q hpq
      simp [hqx, hpx]; omega
    · have hx' : x ∈ l := by
        cases hx with
        | head => exact absurd rfl hxy
        | tail _ h => exact h
      have := ih hx'
      cases hp : p y with
      | true => simp [hpq y hp]; exact this
      | false =>
        cases hq : q y with
        | true => simp; omega
        | false => simpa using this

/-! ### acyclic graphs are well-founded: induction along edges -/

/-- number of graph nodes reachable from `x` -/
def rank (g : Graph) (x : Nat) : Nat := ((nodes g).filter (fun z => hasPath g x z)).length

theorem rank_lt {g : Graph} (hac : Acyclic g) {x y : Nat} (e : Edge g x y) : rank g y < rank g x := by
  unfold rank
  apply filter_length_lt_of_imp _ _ _ _ x (edge_mem_nodes e).1
  · exact dfs_complete (Reach.refl x)
  · cases h : hasPath g y x with
    | false => rfl
    | true => exact absurd (dfs_sound h) (hac x y e)
  · intro z hz
    exact dfs_complete (Reach.step e (dfs_sound hz))

/-- induction principle: a property that holds at `x` whenever it holds at all its imports holds
    everywhere (acyclic graphs only) -/
theorem acyclic_induction {g : Graph} (hac : Acyclic g) (P : Nat → Prop)
    (hstep : ∀ x, (∀ y, Edge g x y → P y) → P x) : ∀ x, P x := by
  intro x
  generalize hn : rank g x = n
  induction n using Nat.strongRecOn generalizing x with
  | _ n ih =>
    apply hstep
    intro y e
    exact ih (rank g y) (hn ▸ rank_lt hac e) y rfl

/-! ### Kahn's algorithm: the loop invariant -/

/-- number of (occurrences of) dependencies of `m` not yet emitted -/
def unem (g : Graph) (sorted : List Nat) (m : Nat) : Nat :=
  ((succs g m).filter (fun y => !sorted.contains y)).length

/-- the in-degree table the loop carries when `sorted` has been emitted -/
def degOf (g : Graph) (all sorted : List Nat) : List (Nat × Nat) :=
  all.map fun m => (m, unem g sorted m)

theorem unem_nil (g : Graph) (m : Nat) : unem g [] m = (succs g m).length := by
  simp [unem]

theorem unem_eq_zero {g : Graph} {sorted : List Nat} {m : Nat} :
    unem g sorted m = 0 ↔ ∀ y, y ∈ succs g m → y ∈ sorted := by
  unfold unem
  rw [List.length_eq_zero_iff, List.filter_eq_nil_iff]
  simp

theorem filter_notin_cons_count (l sorted : List Nat) (c : Nat) (hc : c ∉ sorted) :
    (l.filter (fun y => !(c :: sorted).contains y)).length + l.count c =
      (l.filter (fun y => !sorted.contains y)).length := by
  induction l with
  | nil => simp
  | cons y l ih =>
    simp only [List.filter_cons, List.count_cons]
    by_cases hyc : y = c
    · subst hyc
      simp only [List.contains_eq_mem, List.mem_cons, true_or, decide_true, Bool.not_true,
        Bool.false_eq_true, if_false, hc, decide_false, Bool.not_false, if_true, List.length_cons,
        BEq.rfl] at ih ⊢
      omega
    · have hyc' : (y == c) = false := by simpa using hyc
      by_cases hys : y ∈ sorted
      · simp only [List.contains_eq_mem, List.mem_cons, hyc, hys, or_true, decide_true, Bool.not_true,
          Bool.false_eq_true, if_false, hyc'] at ih ⊢
        omega
      · simp only [List.contains_eq_mem, List.mem_cons, hyc, hys, or_self, decide_false, Bool.not_false,
          if_true, List.length_cons, hyc', Bool.false_eq_true, if_false] at ih ⊢
        omega

theorem unem_cons (g : Graph) (sorted : List Nat) (c m : Nat) (hc : c ∉ sorted) :
    unem g (c :: sorted) m = unem g sorted m - (succs g m).count c := by
  have := filter_notin_cons_count (succs g m) sorted c hc
  unfold unem
  omega

theorem getDeg_map (f : Nat → Nat) (all : List Nat) (m : Nat) (hm : m ∈ all) :
    getDeg (all.map fun m => (m, f m)) m = f m := by
  unfold getDeg
  induction all with
  | nil => simp at hm
  | cons a all ih =>
    simp only [List.map_cons, List.find?_cons]
    by_cases ha : a = m
    · subst ha; simp
    · have : (a == m) = false := by simpa using ha
      simp only [this]
      apply ih
      cases hm with
      | head => exact absurd rfl ha
      | tail _ h => exact h

/-- the new ready set (before sorting) -/
def newReady (g : Graph) (all sorted : List Nat) (c : Nat) : List Nat :=
  all.filter fun m => unem g (c :: sorted) m == 0 && unem g sorted m != 0

theorem kahnStep_degOf (g : Graph) (all sorted : List Nat) (c : Nat) (hc : c ∉ sorted) :
    kahnStep g (degOf g all sorted) c = (degOf g all (c :: sorted), sortNat (newReady g all sorted c)) := by
  have hdeg : (degOf g all sorted).map (fun (p : Nat × Nat) => (p.1, p.2 - (succs g p.1).count c))
      = degOf g all (c :: sorted) := by
    unfold degOf
    rw [List.map_map]
    apply List.map_congr_left
    intro m _
    simp [unem_cons g sorted c m hc]
  unfold kahnStep
  simp only []
  rw [hdeg]
  congr 2
  unfold newReady
  conv => lhs; unfold degOf
  rw [List.filter_map, List.map_map]
  have : ((fun (x : Nat × Nat) => x.1) ∘ fun m => (m, unem g (c :: sorted) m)) = id := rfl
  rw [this, List.map_id]
  apply List.filter_congr
  intro m hm
  simp only [Function.comp]
  rw [getDeg_map (fun m => unem g sorted m) all m hm]

/-- `sorted` (most recent first): every dependency of an emitted module was emitted earlier -/
def Good (g : Graph) : List Nat → Prop
  | [] => True
  | c :: rest => (∀ y, y ∈ succs g c → y ∈ rest) ∧ Good g rest

theorem good_unem {g : Graph} {sorted : List Nat} (h : Good g sorted) :
    ∀ m, m ∈ sorted → unem g sorted m = 0 := by
  induction sorted with
  | nil => intro m hm; simp at hm
  | cons c rest ih =>
    intro m hm
    rw [unem_eq_zero]
    intro y hy
    cases hm with
    | head => exact List.mem_cons_of_mem _ (h.1 y hy)
    | tail _ hm' => exact List.mem_cons_of_mem _ (unem_eq_zero.1 (ih h.2 m hm') y hy)

theorem good_split {g : Graph} {sorted : List Nat} (h : Good g sorted) {a : Nat} (ha : a ∈ sorted) :
    ∃ l rest, sorted = l ++ a :: rest ∧ ∀ y, y ∈ succs g a → y ∈ rest := by
  induction sorted with
  | nil => simp at ha
  | cons c rest ih =>
    by_cases hca : a = c
    · subst hca; exact ⟨[], rest, rfl, h.1⟩
    · have ha' : a ∈ rest := by
        cases ha with
        | head => exact absurd rfl hca
        | tail _ h' => exact h'
      obtain ⟨l, r, h1, h2⟩ := ih h.2 ha'
      exact ⟨c :: l, r, by rw [h1]; rfl, h2⟩

/-- loop invariant; `R` switches on the completeness part -/
structure KInv (R : Prop) (g : Graph) (all queue sorted : List Nat) : Prop where
  nodup : (queue ++ sorted).Nodup
  queue_ok : ∀ m, m ∈ queue → m ∈ all ∧ unem g sorted m = 0
  sorted_sub : ∀ m, m ∈ sorted → m ∈ all
  good : Good g sorted
  ready : R → ∀ m, m ∈ all → unem g sorted m = 0 → m ∈ queue ∨ m ∈ sorted

theorem mem_newReady {g : Graph} {all sorted : List Nat} {c m : Nat} :
    m ∈ newReady g all sorted c ↔ m ∈ all ∧ unem g (c :: sorted) m = 0 ∧ unem g sorted m ≠ 0 := by
  simp [newReady]

theorem unem_cons_zero {g : Graph} {sorted : List Nat} {m : Nat} (c : Nat) (h : unem g sorted m = 0) :
    unem g (c :: sorted) m = 0 := by
  rw [unem_eq_zero] at h ⊢
  intro y hy; exact List.mem_cons_of_mem _ (h y hy)

theorem kinv_step {R : Prop} {g : Graph} {all queue sorted : List Nat} {c : Nat} (hall : all.Nodup)
    (h : KInv R g all (c :: queue) sorted) :
    KInv R g all (queue ++ sortNat (newReady g all sorted c)) (c :: sorted) := by
  have hnd := h.nodup
  rw [List.cons_append, List.nodup_cons, List.mem_append, List.nodup_append] at hnd
  obtain ⟨hc, hq, hs, hqs⟩ := hnd
  have hcq : c ∉ queue := fun x => hc (Or.inl x)
  have hcs : c ∉ sorted := fun x => hc (Or.inr x)
  have hc0 := (h.queue_ok c List.mem_cons_self)
  have hgood : Good g (c :: sorted) := ⟨unem_eq_zero.1 hc0.2, h.good⟩
  refine ⟨?_, ?_, ?_, hgood, ?_⟩
  · rw [List.nodup_append]
    refine ⟨?_, ?_, ?_⟩
    · rw [List.nodup_append]
      refine ⟨hq, nodup_sortNat (nodup_filter _ hall), ?_⟩
      intro a ha b hb hab
      subst hab
      rw [mem_sortNat, mem_newReady] at hb
      exact hb.2.2 (h.queue_ok a (List.mem_cons_of_mem _ ha)).2
    · exact List.nodup_cons.2 ⟨hcs, hs⟩
    · intro a ha b hb hab
      subst hab
      rw [List.mem_append] at ha
      rw [List.mem_cons] at hb
      rcases ha with ha | ha
      · rcases hb with hb | hb
        · exact hcq (hb ▸ ha)
        · exact hqs a ha a hb rfl
      · rw [mem_sortNat, mem_newReady] at ha
        rcases hb with hb | hb
        · exact ha.2.2 (hb ▸ hc0.2)
        · exact ha.2.2 (good_unem h.good a hb)
  · intro m hm
    rw [List.mem_append] at hm
    rcases hm with hm | hm
    · have := h.queue_ok m (List.mem_cons_of_mem _ hm)
      exact ⟨this.1, unem_cons_zero c this.2⟩
    · rw [mem_sortNat, mem_newReady] at hm
      exact ⟨hm.1, hm.2.1⟩
  · intro m hm
    rw [List.mem_cons] at hm
    rcases hm with hm | hm
    · exact hm ▸ hc0.1
    · exact h.sorted_sub m hm
  · intro hR m hm hu
    by_cases h0 : unem g sorted m = 0
    · rcases h.ready hR m hm h0 with h1 | h1
      · rw [List.mem_cons] at h1
        rcases h1 with h1 | h1
        · exact Or.inr (h1 ▸ List.mem_cons_self)
        · exact Or.inl (List.mem_append_left _ h1)
      · exact Or.inr (List.mem_cons_of_mem _ h1)
    · exact Or.inl (List.mem_append_right _ (mem_sortNat.2 (mem_newReady.2 ⟨hm, hu, h0⟩)))

/-- the loop ends with an empty queue (never by exhausting the fuel) in a state satisfying the invariant -/
theorem kahnLoop_spec {R : Prop} (g : Graph) (all : List Nat) (hall : all.Nodup) :
    ∀ (fuel : Nat) (queue sorted : List Nat), KInv R g all queue sorted →
      all.length + 1 ≤ fuel + sorted.length →
      ∃ final, kahnLoop g fuel queue (degOf g all sorted) sorted = final.reverse ∧
        KInv R g all [] final := by
  intro fuel
  induction fuel with
  | zero =>
    intro queue sorted h hf
    exfalso
    have hs : sorted.Nodup := (List.nodup_append.1 h.nodup).2.1
    have := nodup_subset_length sorted all hs h.sorted_sub
    omega
  | succ fuel ih =>
    intro queue sorted h hf
    cases queue with
    | nil => exact ⟨sorted, by rw [kahnLoop.eq_2 _ _ _ _ (by omega)], h⟩
    | cons c queue =>
      have hcs : c ∉ sorted := by
        have hnd := h.nodup
        rw [List.cons_append, List.nodup_cons, List.mem_append] at hnd
        exact fun x => hnd.1 (Or.inr x)
      rw [kahnLoop.eq_3, kahnStep_degOf g all sorted c hcs]
      exact ih _ _ (kinv_step hall h) (by simp only [List.length_cons]; omega)

/-! ### `topo` -/

/-- the module universe of `topo` -/
def topoAll (g : Graph) (mods : List Nat) : List Nat := (mods ++ g.map (·.1)).eraseDups

def topoQueue (g : Graph) (mods : List Nat) : List Nat :=
  sortNat ((mods.eraseDups).filter fun m => (succs g m).length == 0)

theorem topo_eq (g : Graph) (mods : List Nat) :
    topo g mods = kahnLoop g ((topoAll g mods).length + 1) (topoQueue g mods)
      (degOf g (topoAll g mods) []) [] := by
  unfold topo topoAll topoQueue degOf
  simp only [unem_nil]

theorem mem_topoAll {g : Graph} {mods : List Nat} {x : Nat} :
    x ∈ topoAll g mods ↔ x ∈ mods ∨ ∃ ds, (x, ds) ∈ g := by
  unfold topoAll
  rw [List.mem_eraseDups, List.mem_append, List.mem_map]
  constructor
  · rintro (h | ⟨⟨a, ds⟩, h1, h2⟩)
    · exact Or.inl h
    · simp at h2; subst h2; exact Or.inr ⟨ds, h1⟩
  · rintro (h | ⟨ds, h⟩)
    · exact Or.inl h
    · exact Or.inr ⟨(x, ds), h, rfl⟩

theorem mem_topoQueue {g : Graph} {mods : List Nat} {x : Nat} :
    x ∈ topoQueue g mods ↔ x ∈ mods ∧ (succs g x).length = 0 := by
  unfold topoQueue
  rw [mem_sortNat, List.mem_filter, List.mem_eraseDups]
  simp

theorem kinv_init (g : Graph) (mods : List Nat) :
    KInv (∀ x ds, (x, ds) ∈ g → x ∈ mods) g (topoAll g mods) (topoQueue g mods) [] := by
  refine ⟨?_, ?_, ?_, trivial, ?_⟩
  · rw [List.append_nil]
    exact nodup_sortNat (nodup_filter _ (nodup_eraseDups _))
  · intro m hm
    rw [mem_topoQueue] at hm
    exact ⟨mem_topoAll.2 (Or.inl hm.1), by rw [unem_nil]; exact hm.2⟩
  · intro m hm; simp at hm
  · intro hR m hm hu
    rw [unem_nil] at hu
    refine Or.inl (mem_topoQueue.2 ⟨?_, hu⟩)
    rcases mem_topoAll.1 hm with h | ⟨ds, h⟩
    · exact h
    · exact hR m ds h

/-- `topo` returns the reverse of a list satisfying the loop invariant with an empty queue -/
theorem topo_spec (g : Graph) (mods : List Nat) :
    ∃ final, topo g mods = final.reverse ∧
      KInv (∀ x ds, (x, ds) ∈ g → x ∈ mods) g (topoAll g mods) [] final := by
  rw [topo_eq]
  exact kahnLoop_spec g (topoAll g mods) (nodup_eraseDups _) _ _ _ (kinv_init g mods) (by simp)

/-- P2 (a): no module is emitted twice (no hypothesis needed) -/
theorem topo_nodup (g : Graph) (mods : List Nat) : (topo g mods).Nodup := by
  obtain ⟨final, h1, h2⟩ := topo_spec g mods
  rw [h1]
  have := h2.nodup
  rw [List.nil_append] at this
  exact nodup_reverse this

/-- P2 (b): whenever an importer `a` is emitted, each of its dependencies `b` has been emitted, earlier
    (no hypothesis needed) -/
theorem topo_order (g : Graph) (mods : List Nat) {a b : Nat} (e : Edge g a b) (ha : a ∈ topo g mods) :
    ∃ l1 l2 l3, topo g mods = l1 ++ b :: l2 ++ a :: l3 := by
  obtain ⟨final, h1, h2⟩ := topo_spec g mods
  rw [h1] at ha ⊢
  rw [List.mem_reverse] at ha
  obtain ⟨l, rest, hl, hr⟩ := good_split h2.good ha
  obtain ⟨r1, r2, hr2⟩ := List.append_of_mem (hr b e)
  refine ⟨r2.reverse, r1.reverse, l.reverse, ?_⟩
  rw [hl, hr2]
  simp

theorem topo_dep_mem (g : Graph) (mods : List Nat) {a b : Nat} (e : Edge g a b) (ha : a ∈ topo g mods) :
    b ∈ topo g mods := by
  obtain ⟨l1, l2, l3, h⟩ := topo_order g mods e ha
  rw [h]; simp

/-- P2 (b), index form -/
theorem topo_order_idx (g : Graph) (mods : List Nat) {a b : Nat} (e : Edge g a b) (ha : a ∈ topo g mods) :
    (topo g mods).idxOf b < (topo g mods).idxOf a := by
  obtain ⟨l1, l2, l3, h⟩ := topo_order g mods e ha
  have hnd := topo_nodup g mods
  rw [h] at hnd ⊢
  have hsplit : l1 ++ b :: l2 ++ a :: l3 = l1 ++ (b :: (l2 ++ a :: l3)) := by simp
  rw [hsplit] at hnd ⊢
  rw [List.nodup_append] at hnd
  obtain ⟨_, h2, h3⟩ := hnd
  rw [List.nodup_cons] at h2
  have hb1 : b ∉ l1 := fun hb => h3 b hb b List.mem_cons_self rfl
  have ha1 : a ∉ l1 := fun ha' => h3 a ha' a (by simp) rfl
  have hab : a ≠ b := by
    intro hab; subst hab
    exact h2.1 (by simp)
  have hab' : (b == a) = false := by simpa using (fun h => hab h.symm)
  rw [List.idxOf_append, List.idxOf_append]
  simp only [hb1, ha1, if_false, List.idxOf_cons, BEq.rfl, cond_true, hab', cond_false]
  omega

/-- P2 (c): on an acyclic graph whose nodes are all in `mods`, every module is emitted -/
theorem topo_complete (g : Graph) (mods : List Nat) (hac : Acyclic g) (hmods : mods.Nodup)
    (hnodes : ∀ x, x ∈ nodes g → x ∈ mods) : (topo g mods).Perm mods := by
  obtain ⟨final, h1, h2⟩ := topo_spec g mods
  have hR : ∀ x ds, (x, ds) ∈ g → x ∈ mods :=
    fun x ds h => hnodes x (mem_nodes.2 (Or.inl ⟨ds, h⟩))
  have hallmods : ∀ x, x ∈ topoAll g mods ↔ x ∈ mods := by
    intro x
    rw [mem_topoAll]
    constructor
    · rintro (h | ⟨ds, h⟩)
      · exact h
      · exact hR x ds h
    · exact Or.inl
  have hall : ∀ x, x ∈ topoAll g mods → x ∈ final := by
    apply acyclic_induction hac (fun x => x ∈ topoAll g mods → x ∈ final)
    intro x ih hx
    have hu : unem g final x = 0 := by
      rw [unem_eq_zero]
      intro y hy
      exact ih y hy ((hallmods y).2 (hnodes y (edge_mem_nodes hy).2))
    rcases h2.ready hR x hx hu with h | h
    · simp at h
    · exact h
  rw [h1]
  have hnd := h2.nodup
  rw [List.nil_append] at hnd
  rw [List.perm_ext_iff_of_nodup (nodup_reverse hnd) hmods]
  intro x
  rw [List.mem_reverse, ← hallmods]
  exact ⟨h2.sorted_sub x, hall x⟩

/-- P2: `topo_sound` — on an acyclic graph, with `mods` duplicate-free and containing every node:
    the result is duplicate-free, a permutation of `mods`, and every dependency precedes its importer -/
theorem topo_sound (g : Graph) (mods : List Nat) (hac : Acyclic g) (hmods : mods.Nodup)
    (hnodes : ∀ x, x ∈ nodes g → x ∈ mods) :
    (topo g mods).Nodup ∧ (topo g mods).Perm mods ∧
      ∀ a b, Edge g a b → (topo g mods).idxOf b < (topo g mods).idxOf a ∧
        ∃ l1 l2 l3, topo g mods = l1 ++ b :: l2 ++ a :: l3 := by
  have hperm := topo_complete g mods hac hmods hnodes
  refine ⟨topo_nodup g mods, hperm, fun a b e => ?_⟩
  have ha : a ∈ topo g mods := hperm.mem_iff.2 (hnodes a (edge_mem_nodes e).1)
  exact ⟨topo_order_idx g mods e ha, topo_order g mods e ha⟩

/-! ### independence of the map iteration order -/

/-- lookup by key in an association list with distinct keys does not depend on the order -/
theorem find_key_perm {β : Type} {l l' : List (Nat × β)} (h : l.Perm l') (hnd : (l.map (·.1)).Nodup)
    (a : Nat) : l.find? (·.1 == a) = l'.find? (·.1 == a) := by
  induction h with
  | nil => rfl
  | cons x _ ih =>
    rw [List.map_cons, List.nodup_cons] at hnd
    simp only [List.find?_cons]
    rw [ih hnd.2]
  | swap x y l =>
    simp only [List.map_cons, List.nodup_cons, List.mem_cons] at hnd
    simp only [List.find?_cons]
    cases hx : (x.1 == a) <;> cases hy : (y.1 == a) <;> simp
    simp at hx hy
    exact (hnd.1 (Or.inl (hy.trans hx.symm))).elim
  | trans h1 _ ih1 ih2 =>
    rw [ih1 hnd]
    exact ih2 ((h1.map (·.1)).nodup_iff.1 hnd)

/-- P2: `succs` is invariant under permutation of a `NoDupKeys` graph -/
theorem succs_perm {g g' : Graph} (h : g.Perm g') (hnd : NoDupKeys g) (a : Nat) :
    succs g a = succs g' a := by
  unfold succs
  rw [find_key_perm h hnd a]

theorem getDeg_perm {d d' : List (Nat × Nat)} (h : d.Perm d') (hnd : (d.map (·.1)).Nodup) (m : Nat) :
    getDeg d m = getDeg d' m := by
  unfold getDeg
  rw [find_key_perm h hnd m]

theorem kahnStep_congr {g g' : Graph} (hs : ∀ a, succs g a = succs g' a) (deg : List (Nat × Nat)) (c : Nat) :
    kahnStep g deg c = kahnStep g' deg c := by
  have : succs g = succs g' := funext hs
  unfold kahnStep
  rw [this]

theorem kahnLoop_congr {g g' : Graph} (hs : ∀ a, succs g a = succs g' a) :
    ∀ (fuel : Nat) (queue : List Nat) (deg : List (Nat × Nat)) (sorted : List Nat),
      kahnLoop g fuel queue deg sorted = kahnLoop g' fuel queue deg sorted := by
  intro fuel
  induction fuel with
  | zero => intro queue deg sorted; rw [kahnLoop.eq_1, kahnLoop.eq_1]
  | succ fuel ih =>
    intro queue deg sorted
    cases queue with
    | nil => rw [kahnLoop.eq_2 _ _ _ _ (by omega), kahnLoop.eq_2 _ _ _ _ (by omega)]
    | cons c queue =>
      rw [kahnLoop.eq_3, kahnLoop.eq_3, kahnStep_congr hs]
      exact ih _ _ _

theorem kahnStep_perm (g : Graph) {d d' : List (Nat × Nat)} (h : d.Perm d') (hnd : (d.map (·.1)).Nodup)
    (c : Nat) :
    (kahnStep g d c).1.Perm (kahnStep g d' c).1 ∧ (kahnStep g d c).2 = (kahnStep g d' c).2 ∧
      ((kahnStep g d c).1.map (·.1)) = d.map (·.1) := by
  unfold kahnStep
  simp only []
  refine ⟨h.map _, ?_, ?_⟩
  · apply sortNat_perm
    apply List.Perm.map
    have hp : ∀ (p : Nat × Nat), (p.2 == 0 && getDeg d p.1 != 0) = (p.2 == 0 && getDeg d' p.1 != 0) := by
      intro p; rw [getDeg_perm h hnd]
    have hfun : (fun (x : Nat × Nat) => match x with | (m, d_1) => d_1 == 0 && getDeg d m != 0)
        = (fun (x : Nat × Nat) => match x with | (m, d_1) => d_1 == 0 && getDeg d' m != 0) := by
      funext x
      exact hp x
    rw [hfun]
    exact (h.map _).filter _
  · rw [List.map_map]
    apply List.map_congr_left
    intro p _
    rfl

theorem kahnLoop_perm (g : Graph) :
    ∀ (fuel : Nat) (queue : List Nat) (d d' : List (Nat × Nat)) (sorted : List Nat),
      d.Perm d' → (d.map (·.1)).Nodup →
      kahnLoop g fuel queue d sorted = kahnLoop g fuel queue d' sorted := by
  intro fuel
  induction fuel with
  | zero => intro queue d d' sorted _ _; rw [kahnLoop.eq_1, kahnLoop.eq_1]
  | succ fuel ih =>
    intro queue d d' sorted h hnd
    cases queue with
    | nil => rw [kahnLoop.eq_2 _ _ _ _ (by omega), kahnLoop.eq_2 _ _ _ _ (by omega)]
    | cons c queue =>
      rw [kahnLoop.eq_3, kahnLoop.eq_3]
      obtain ⟨h1, h2, h3⟩ := kahnStep_perm g h hnd c
      generalize kahnStep g d c = r1 at h1 h2 h3
      generalize kahnStep g d' c = r2 at h1 h2
      obtain ⟨d1, n1⟩ := r1
      obtain ⟨d2, n2⟩ := r2
      simp only at h1 h2 h3 ⊢
      subst h2
      exact ih _ _ _ _ h1 (h3 ▸ hnd)

theorem perm_of_nodup_mem {l l' : List Nat} (h1 : l.Nodup) (h2 : l'.Nodup) (h : ∀ x, x ∈ l ↔ x ∈ l') :
    l.Perm l' := (List.perm_ext_iff_of_nodup h1 h2).2 h

/-- P2: the topological order does not depend on the iteration order of the Go maps: neither on the order
    of the association list `g` nor on the order of `mods` -/
theorem topo_perm_invariant {g g' : Graph} {mods mods' : List Nat} (hg : g.Perm g') (hnd : NoDupKeys g)
    (hm : mods.Perm mods') : topo g' mods' = topo g mods := by
  have hs : ∀ a, succs g a = succs g' a := succs_perm hg hnd
  have hsf : succs g' = succs g := funext fun a => (hs a).symm
  have hall : (topoAll g' mods').Perm (topoAll g mods) := by
    refine perm_of_nodup_mem (nodup_eraseDups _) (nodup_eraseDups _) (fun x => ?_)
    show x ∈ topoAll g' mods' ↔ x ∈ topoAll g mods
    rw [mem_topoAll, mem_topoAll, hm.mem_iff]
    constructor
    · rintro (h | ⟨ds, h⟩)
      · exact Or.inl h
      · exact Or.inr ⟨ds, hg.mem_iff.2 h⟩
    · rintro (h | ⟨ds, h⟩)
      · exact Or.inl h
      · exact Or.inr ⟨ds, hg.mem_iff.1 h⟩
  have hq : topoQueue g' mods' = topoQueue g mods := by
    unfold topoQueue
    rw [hsf]
    apply sortNat_perm
    apply List.Perm.filter
    apply perm_of_nodup_mem (nodup_eraseDups _) (nodup_eraseDups _)
    intro x
    rw [List.mem_eraseDups, List.mem_eraseDups, hm.mem_iff]
  rw [topo_eq, topo_eq, hq, hall.length_eq, ← kahnLoop_congr hs]
  apply kahnLoop_perm
  · unfold degOf unem
    rw [hsf]
    exact hall.map _
  · unfold degOf
    rw [List.map_map]
    have : ((fun (x : Nat × Nat) => x.1) ∘ fun m => (m, unem g' [] m)) = id := rfl
    rw [this, List.map_id]
    exact nodup_eraseDups _

/-! ### concrete instances -/

/-- diamond 1 → {2,3} → 4: dependencies first, ties by module number -/
example : topo [(1, [2, 3]), (2, [4]), (3, [4])] [1, 2, 3, 4] = [4, 2, 3, 1] := by
  simp [topo, kahnLoop, kahnStep, getDeg, succs, sortNat, insertSorted, List.eraseDups_cons]

/-- same graph and modules presented in another (map) order -/
example : topo [(3, [4]), (1, [2, 3]), (2, [4])] [4, 3, 2, 1] = [4, 2, 3, 1] := by
  simp [topo, kahnLoop, kahnStep, getDeg, succs, sortNat, insertSorted, List.eraseDups_cons]

/-- on a 3-cycle nothing is ever ready: the order is empty (modules are silently dropped, which is why
    `topo_complete` needs `Acyclic`) -/
example : topo [(1, [2]), (2, [3]), (3, [1])] [1, 2, 3] = [] := by
  simp [topo, kahnLoop, succs, sortNat, List.eraseDups_cons]

/-- a cycle below an acyclic part: only the acyclic part is emitted -/
example : topo [(1, [2]), (2, [1]), (3, [4])] [1, 2, 3, 4] = [4, 3] := by
  simp [topo, kahnLoop, kahnStep, getDeg, succs, sortNat, insertSorted, List.eraseDups_cons]

end FerretVerif.DepGraph
