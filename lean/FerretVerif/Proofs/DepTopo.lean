/-
  Proofs/DepTopo.lean — ComputeTopologicalOrder (Kahn with sorted ready sets): the result is
  duplicate-free, respects the dependency order, is complete on acyclic graphs, and does not depend on
  the iteration order of the Go maps.  Core-only.
-/
import FerretVerif.Proofs.DepGraph

namespace FerretVerif.DepGraph

/-! ### insertion sort -/

theorem insertSorted_perm (x : Nat) (l : List Nat) : (insertSorted x l).Perm (x :: l) := by
  induction l with
  | nil => exact List.Perm.refl _
  | cons y ys ih =>
    unfold insertSorted
    split
    · exact List.Perm.refl _
    · exact (List.Perm.cons y ih).trans (List.Perm.swap x y ys)

theorem sortNat_cons (x : Nat) (l : List Nat) : sortNat (x :: l) = insertSorted x (sortNat l) := rfl

theorem sortNat_perm_self (l : List Nat) : (sortNat l).Perm l := by
  induction l with
  | nil => exact List.Perm.refl _
  | cons x l ih =>
    rw [sortNat_cons]
    exact (insertSorted_perm x _).trans (List.Perm.cons x ih)

theorem mem_sortNat {x : Nat} {l : List Nat} : x ∈ sortNat l ↔ x ∈ l :=
  (sortNat_perm_self l).mem_iff

theorem nodup_sortNat {l : List Nat} (h : l.Nodup) : (sortNat l).Nodup :=
  (sortNat_perm_self l).nodup_iff.2 h

theorem insertSorted_comm (x y : Nat) (l : List Nat) :
    insertSorted x (insertSorted y l) = insertSorted y (insertSorted x l) := by
  induction l with
  | nil =>
    simp only [insertSorted]
    by_cases h1 : x ≤ y <;> by_cases h2 : y ≤ x <;> simp [h1, h2]
    · omega
    · omega
  | cons z zs ih =>
    simp only [insertSorted]
    by_cases hxz : x ≤ z <;> by_cases hyz : y ≤ z <;> by_cases hxy : x ≤ y <;> by_cases hyx : y ≤ x <;>
      simp [hxz, hyz, hxy, hyx, insertSorted, ih] <;> omega

/-- P2: the sorted ready set does not depend on the (map) iteration order -/
theorem sortNat_perm {l1 l2 : List Nat} (h : l1.Perm l2) : sortNat l1 = sortNat l2 := by
  induction h with
  | nil => rfl
  | cons x _ ih => rw [sortNat_cons, sortNat_cons, ih]
  | swap x y l => rw [sortNat_cons, sortNat_cons, sortNat_cons, sortNat_cons, insertSorted_comm]
  | trans _ _ ih1 ih2 => exact ih1.trans ih2

theorem insertSorted_sorted (x : Nat) (l : List Nat) (h : l.Pairwise (· ≤ ·)) :
    (insertSorted x l).Pairwise (· ≤ ·) := by
  induction l with
  | nil => simp [insertSorted]
  | cons y ys ih =>
    rw [List.pairwise_cons] at h
    unfold insertSorted
    split
    · next hxy =>
      rw [List.pairwise_cons]
      refine ⟨fun z hz => ?_, List.pairwise_cons.2 h⟩
      cases hz with
      | head => exact hxy
      | tail _ hz' => exact Nat.le_trans hxy (h.1 z hz')
    · next hxy =>
      rw [List.pairwise_cons]
      refine ⟨fun z hz => ?_, ih h.2⟩
      have hz2 := (insertSorted_perm x ys).mem_iff.1 hz
      rw [List.mem_cons] at hz2
      rcases hz2 with rfl | hz'
      · omega
      · exact h.1 z hz'

theorem sortNat_sorted (l : List Nat) : (sortNat l).Pairwise (· ≤ ·) := by
  induction l with
  | nil => simp [sortNat]
  | cons x l ih => rw [sortNat_cons]; exact insertSorted_sorted x _ ih

/-! ### list facts missing from core -/

theorem nodup_eraseDups (l : List Nat) : l.eraseDups.Nodup := by
  generalize hn : l.length = n
  induction n using Nat.strongRecOn generalizing l with
  | _ n ih =>
    cases l with
    | nil => simp
    | cons a as =>
      rw [List.eraseDups_cons, List.nodup_cons]
      constructor
      · rw [List.mem_eraseDups]; simp
      · subst hn
        exact ih _ (Nat.lt_succ_of_le (List.length_filter_le _ _)) _ rfl

theorem nodup_filter {l : List Nat} (p : Nat → Bool) (h : l.Nodup) : (l.filter p).Nodup :=
  List.Nodup.sublist List.filter_sublist h

theorem nodup_reverse {l : List Nat} (h : l.Nodup) : l.reverse.Nodup :=
  (List.reverse_perm l).nodup_iff.2 h

/-- pigeonhole -/
theorem nodup_subset_length : ∀ (l1 l2 : List Nat), l1.Nodup → (∀ x, x ∈ l1 → x ∈ l2) →
    l1.length ≤ l2.length := by
  intro l1
  induction l1 with
  | nil => intro _ _ _; simp
  | cons x t ih =>
    intro l2 hnd hsub
    rw [List.nodup_cons] at hnd
    have hx : x ∈ l2 := hsub x List.mem_cons_self
    have h1 : ∀ y, y ∈ t → y ∈ l2.erase x := by
      intro y hy
      have hne : y ≠ x := fun h => hnd.1 (h ▸ hy)
      exact (List.mem_erase_of_ne hne).2 (hsub y (List.mem_cons_of_mem _ hy))
    have h2 := ih (l2.erase x) hnd.2 h1
    rw [List.length_erase_of_mem hx] at h2
    have : 0 < l2.length := List.length_pos_of_mem hx
    simp only [List.length_cons]
    omega

theorem filter_length_le_of_imp (l : List Nat) (p q : Nat → Bool) (hpq : ∀ z, p z = true → q z = true) :
    (l.filter p).length ≤ (l.filter q).length := by
  induction l with
  | nil => simp
  | cons y l ih =>
    simp only [List.filter_cons]
    cases hp : p y with
    | true => simp [hpq y hp]; exact ih
    | false =>
      cases hq : q y with
      | true => simp; omega
      | false => simpa using ih

theorem filter_length_lt_of_imp (l : List Nat) (p q : Nat → Bool) (hpq : ∀ z, p z = true → q z = true)
    (x : Nat) (hx : x ∈ l) (hqx : q x = true) (hpx : p x = false) :
    (l.filter p).length < (l.filter q).length := by
  induction l with
  | nil => simp at hx
  | cons y l ih =>
    simp only [List.filter_cons]
    by_cases hxy : x = y
    · subst hxy
      have := filter_length_le_of_imp l p q hpq
      simp [hqx, hpx]; omega
    · have hx' : x ∈ l := by
        cases hx with
        | head => exact absurd rfl hxy
        | tail _ h => exact h
      have := ih hx'
      cases hp : p y with
      | true => simp [hpq y hp]; exact this
      | false =>
        cases hq : q y with
        | true => simp; omega
        | false => simpa using this

/-! ### acyclic graphs are well-founded: induction along edges -/

/-- number of graph nodes reachable from `x` -/
def rank (g : Graph) (x : Nat) : Nat := ((nodes g).filter (fun z => hasPath g x z)).length

theorem rank_lt {g : Graph} (hac : Acyclic g) {x y : Nat} (e : Edge g x y) : rank g y < rank g x := by
  unfold rank
  apply filter_length_lt_of_imp _ _ _ _ x (edge_mem_nodes e).1
  · exact dfs_complete (Reach.refl x)
  · cases h : hasPath g y x with
    | false => rfl
    | true => exact absurd (dfs_sound h) (hac x y e)
  · intro z hz
    exact dfs_complete (Reach.step e (dfs_sound hz))

/-- induction principle: a property that holds at `x` whenever it holds at all its imports holds
    everywhere (acyclic graphs only) -/
theorem acyclic_induction {g : Graph} (hac : Acyclic g) (P : Nat → Prop)
    (hstep : ∀ x, (∀ y, Edge g x y → P y) → P x) : ∀ x, P x := by
  intro x
  generalize hn : rank g x = n
  induction n using Nat.strongRecOn generalizing x with
  | _ n ih =>
    apply hstep
    intro y e
    exact ih (rank g y) (hn ▸ rank_lt hac e) y rfl

/-! ### Kahn's algorithm: the loop invariant -/

/-- number of (occurrences of) dependencies of `m` not yet emitted -/
def unem (g : Graph) (sorted : List Nat) (m : Nat) : Nat :=
  ((succs g m).filter (fun y => !sorted.contains y)).length

/-- the in-degree table the loop carries when `sorted` has been emitted -/
def degOf (g : Graph) (all sorted : List Nat) : List (Nat × Nat) :=
  all.map fun m => (m, unem g sorted m)

theorem unem_nil (g : Graph) (m : Nat) : unem g [] m = (succs g m).length := by
  simp [unem]

theorem unem_eq_zero {g : Graph} {sorted : List Nat} {m : Nat} :
    unem g sorted m = 0 ↔ ∀ y, y ∈ succs g m → y ∈ sorted := by
  unfold unem
  rw [List.length_eq_zero_iff, List.filter_eq_nil_iff]
  simp

theorem filter_notin_cons_count (l sorted : List Nat) (c : Nat) (hc : c ∉ sorted) :
    (l.filter (fun y => !(c :: sorted).contains y)).length + l.count c =
      (l.filter (fun y => !sorted.contains y)).length := by
  induction l with
  | nil => simp
  | cons y l ih =>
    simp only [List.filter_cons, List.count_cons]
    by_cases hyc : y = c
    · subst hyc
      simp only [List.contains_eq_mem, List.mem_cons, true_or, decide_true, Bool.not_true,
        Bool.false_eq_true, if_false, hc, decide_false, Bool.not_false, if_true, List.length_cons,
        BEq.rfl] at ih ⊢
      omega
    · have hyc' : (y == c) = false := by simpa using hyc
      by_cases hys : y ∈ sorted
      · simp only [List.contains_eq_mem, List.mem_cons, hyc, hys, or_true, decide_true, Bool.not_true,
          Bool.false_eq_true, if_false, hyc'] at ih ⊢
        omega
      · simp only [List.contains_eq_mem, List.mem_cons, hyc, hys, or_self, decide_false, Bool.not_false,
          if_true, List.length_cons, hyc', Bool.false_eq_true, if_false] at ih ⊢
        omega

theorem unem_cons (g : Graph) (sorted : List Nat) (c m : Nat) (hc : c ∉ sorted) :
    unem g (c :: sorted) m = unem g sorted m - (succs g m).count c := by
  have := filter_notin_cons_count (succs g m) sorted c hc
  unfold unem
  omega

theorem getDeg_map (f : Nat → Nat) (all : List Nat) (m : Nat) (hm : m ∈ all) :
    getDeg (all.map fun m => (m, f m)) m = f m := by
  unfold getDeg
  induction all with
  | nil => simp at hm
  | cons a all ih =>
    simp only [List.map_cons, List.find?_cons]
    by_cases ha : a = m
    · subst ha; simp
    · have : (a == m) = false := by simpa using ha
      simp only [this]
      apply ih
      cases hm with
      | head => exact absurd rfl ha
      | tail _ h => exact h

/-- the new ready set (before sorting) -/
def newReady (g : Graph) (all sorted : List Nat) (c : Nat) : List Nat :=
  all.filter fun m => unem g (c :: sorted) m == 0 && unem g sorted m != 0

theorem kahnStep_degOf (g : Graph) (all sorted : List Nat) (c : Nat) (hc : c ∉ sorted) :
    kahnStep g (degOf g all sorted) c = (degOf g all (c :: sorted), sortNat (newReady g all sorted c)) := by
  have hdeg : (degOf g all sorted).map (fun (p : Nat × Nat) => (p.1, p.2 - (succs g p.1).count c))
      = degOf g all (c :: sorted) := by
    unfold degOf
    rw [List.map_map]
    apply List.map_congr_left
    intro m _
    simp [unem_cons g sorted c m hc]
  unfold kahnStep
  simp only []
  rw [hdeg]
  congr 2
  unfold newReady
  conv => lhs; unfold degOf
  rw [List.filter_map, List.map_map]
  have : ((fun (x : Nat × Nat) => x.1) ∘ fun m => (m, unem g (c :: sorted) m)) = id := rfl
  rw [this, List.map_id]
  apply List.filter_congr
  intro m hm
  simp only [Function.comp]
  rw [getDeg_map (fun m => unem g sorted m) all m hm]

/-- `sorted` (most recent first): every dependency of an emitted module was emitted earlier -/
def Good (g : Graph) : List Nat → Prop
  | [] => True
  | c :: rest => (∀ y, y ∈ succs g c → y ∈ rest) ∧ Good g rest

theorem good_unem {g : Graph} {sorted : List Nat} (h : Good g sorted) :
    ∀ m, m ∈ sorted → unem g sorted m = 0 := by
  induction sorted with
  | nil => intro m hm; simp at hm
  | cons c rest ih =>
    intro m hm
    rw [unem_eq_zero]
    intro y hy
    cases hm with
    | head => exact List.mem_cons_of_mem _ (h.1 y hy)
    | tail _ hm' => exact List.mem_cons_of_mem _ (unem_eq_zero.1 (ih h.2 m hm') y hy)

theorem good_split {g : Graph} {sorted : List Nat} (h : Good g sorted) {a : Nat} (ha : a ∈ sorted) :
    ∃ l rest, sorted = l ++ a :: rest ∧ ∀ y, y ∈ succs g a → y ∈ rest := by
  induction sorted with
  | nil => simp at ha
  | cons c rest ih =>
    by_cases hca : a = c
    · subst hca; exact ⟨[], rest, rfl, h.1⟩
    · have ha' : a ∈ rest := by
        cases ha with
        | head => exact absurd rfl hca
        | tail _ h' => exact h'
      obtain ⟨l, r, h1, h2⟩ := ih h.2 ha'
      exact ⟨c :: l, r, by rw [h1]; rfl, h2⟩

/-- loop invariant; `R` switches on the completeness part -/
structure KInv (R : Prop) (g : Graph) (all queue sorted : List Nat) : Prop where
  nodup : (queue ++ sorted).Nodup
  queue_ok : ∀ m, m ∈ queue → m ∈ all ∧ unem g sorted m = 0
  sorted_sub : ∀ m, m ∈ sorted → m ∈ all
  good : Good g sorted
  ready : R → ∀ m, m ∈ all → unem g sorted m = 0 → m ∈ queue ∨ m ∈ sorted

theorem mem_newReady {g : Graph} {all sorted : List Nat} {c m : Nat} :
    m ∈ newReady g all sorted c ↔ m ∈ all ∧ unem g (c :: sorted) m = 0 ∧ unem g sorted m ≠ 0 := by
  simp [newReady]

theorem unem_cons_zero {g : Graph} {sorted : List Nat} {m : Nat} (c : Nat) (h : unem g sorted m = 0) :
    unem g (c :: sorted) m = 0 := by
  rw [unem_eq_zero] at h ⊢
  intro y hy; exact List.mem_cons_of_mem _ (h y hy)

theorem kinv_step {R : Prop} {g : Graph} {all queue sorted : List Nat} {c : Nat} (hall : all.Nodup)
    (h : KInv R g all (c :: queue) sorted) :
    KInv R g all (queue ++ sortNat (newReady g all sorted c)) (c :: sorted) := by
  have hnd := h.nodup
  rw [List.cons_append, List.nodup_cons, List.mem_append, List.nodup_append] at hnd
  obtain ⟨hc, hq, hs, hqs⟩ := hnd
  have hcq : c ∉ queue := fun x => hc (Or.inl x)
  have hcs : c ∉ sorted := fun x => hc (Or.inr x)
  have hc0 := (h.queue_ok c List.mem_cons_self)
  have hgood : Good g (c :: sorted) := ⟨unem_eq_zero.1 hc0.2, h.good⟩
  refine ⟨?_, ?_, ?_, hgood, ?_⟩
  · rw [List.nodup_append]
    refine ⟨?_, ?_, ?_⟩
    · rw [List.nodup_append]
      refine ⟨hq, nodup_sortNat (nodup_filter _ hall), ?_⟩
      intro a ha b hb hab
      subst hab
      rw [mem_sortNat, mem_newReady] at hb
      exact hb.2.2 (h.queue_ok a (List.mem_cons_of_mem _ ha)).2
    · exact List.nodup_cons.2 ⟨hcs, hs⟩
    · intro a ha b hb hab
      subst hab
      rw [List.mem_append] at ha
      rw [List.mem_cons] at hb
      rcases ha with ha | ha
      · rcases hb with hb | hb
        · exact hcq (hb ▸ ha)
        · exact hqs a ha a hb rfl
      · rw [mem_sortNat, mem_newReady] at ha
        rcases hb with hb | hb
        · exact ha.2.2 (hb ▸ hc0.2)
        · exact ha.2.2 (good_unem h.good a hb)
  · intro m hm
    rw [List.mem_append] at hm
    rcases hm with hm | hm
    · have := h.queue_ok m (List.mem_cons_of_mem _ hm)
      exact ⟨this.1, unem_cons_zero c this.2⟩
    · rw [mem_sortNat, mem_newReady] at hm
      exact ⟨hm.1, hm.2.1⟩
  · intro m hm
    rw [List.mem_cons] at hm
    rcases hm with hm | hm
    · exact hm ▸ hc0.1
    · exact h.sorted_sub m hm
  · intro hR m hm hu
    by_cases h0 : unem g sorted m = 0
    · rcases h.ready hR m hm h0 with h1 | h1
      · rw [List.mem_cons] at h1
        rcases h1 with h1 | h1
        · exact Or.inr (h1 ▸ List.mem_cons_self)
        · exact Or.inl (List.mem_append_left _ h1)
      · exact Or.inr (List.mem_cons_of_mem _ h1)
    · exact Or.inl (List.mem_append_right _ (mem_sortNat.2 (mem_newReady.2 ⟨hm, hu, h0⟩)))

/-- the loop ends with an empty queue (never by exhausting the fuel) in a state satisfying the invariant -/
theorem kahnLoop_spec {R : Prop} (g : Graph) (all : List Nat) (hall : all.Nodup) :
    ∀ (fuel : Nat) (queue sorted : List Nat), KInv R g all queue sorted →
      all.length + 1 ≤ fuel + sorted.length →
      ∃ final, kahnLoop g fuel queue (degOf g all sorted) sorted = final.reverse ∧
        KInv R g all [] final := by
  intro fuel
  induction fuel with
  | zero =>
    intro queue sorted h hf
    exfalso
    have hs : sorted.Nodup := (List.nodup_append.1 h.nodup).2.1
    have := nodup_subset_length sorted all hs h.sorted_sub
    omega
  | succ fuel ih =>
    intro queue sorted h hf
    cases queue with
    | nil => exact ⟨sorted, by rw [kahnLoop.eq_2 _ _ _ _ (by omega)], h⟩
    | cons c queue =>
      have hcs : c ∉ sorted := by
        have hnd := h.nodup
        rw [List.cons_append, List.nodup_cons, List.mem_append] at hnd
        exact fun x => hnd.1 (Or.inr x)
      rw [kahnLoop.eq_3, kahnStep_degOf g all sorted c hcs]
      exact ih _ _ (kinv_step hall h) (by simp only [List.length_cons]; omega)

end FerretVerif.DepGraph
