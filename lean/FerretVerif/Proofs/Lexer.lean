/-
  Proofs/Lexer.lean — progress, totality and position lemmas for Model/Lexer.lean (C13, C19).
-/
import FerretVerif.Model.Lexer

namespace FerretVerif.Lexer

/-! ### the scanners consume at least one and at most `s.length` bytes -/

theorem spanLen_le (p : Byte → Bool) (s : List Byte) : spanLen p s ≤ s.length := by
  induction s with
  | nil => simp [spanLen]
  | cons c cs ih => simp only [spanLen]; split <;> simp <;> omega

theorem scanWs_bounds {s : List Byte} {n : Nat} (h : scanWs s = some n) : 1 ≤ n ∧ n ≤ s.length := by
  unfold scanWs at h
  simp only at h
  split at h
  · cases h
  · cases h; exact ⟨by omega, spanLen_le _ _⟩

theorem scanLineComment_bounds {s : List Byte} {n : Nat} (h : scanLineComment s = some n) : 1 ≤ n ∧ n ≤ s.length := by
  unfold scanLineComment at h
  split at h
  · cases h
    rename_i rest
    have := spanLen_le (fun c => !(c = 10 || c = 13)) rest
    simp only [List.length_cons]
    omega
  · cases h

theorem findPair_lt {a b : Byte} {s : List Byte} {k : Nat} (h : findPair a b s = some k) : k + 2 ≤ s.length := by
  induction s generalizing k with
  | nil => simp [findPair] at h
  | cons x t ih =>
    cases t with
    | nil => simp [findPair] at h
    | cons y rest =>
      simp only [findPair] at h
      split at h
      · cases h; simp
      · simp only [Option.map_eq_some_iff] at h
        obtain ⟨j, hj, rfl⟩ := h
        have := ih hj
        simp at this ⊢; omega

theorem scanBlockComment_bounds {s : List Byte} {n : Nat} (h : scanBlockComment s = some n) : 1 ≤ n ∧ n ≤ s.length := by
  unfold scanBlockComment at h
  split at h
  · simp only [Option.map_eq_some_iff] at h
    obtain ⟨j, hj, rfl⟩ := h
    have := findPair_lt hj
    simp; omega
  · cases h

theorem findByte_lt {a : Byte} {s : List Byte} {k : Nat} (h : findByte a s = some k) : k + 1 ≤ s.length := by
  induction s generalizing k with
  | nil => simp [findByte] at h
  | cons x t ih =>
    simp only [findByte] at h
    split at h
    · cases h; simp
    · simp only [Option.map_eq_some_iff] at h
      obtain ⟨j, hj, rfl⟩ := h
      have := ih hj
      simp; omega

theorem scanString_bounds {s : List Byte} {n : Nat} (h : scanString s = some n) : 1 ≤ n ∧ n ≤ s.length := by
  unfold scanString at h
  split at h
  · simp only [Option.map_eq_some_iff] at h
    obtain ⟨j, hj, rfl⟩ := h
    have := findByte_lt hj
    simp; omega
  · cases h

theorem byteAlt1_len {r : List Byte} (h : byteAlt1 r = true) : 5 ≤ r.length := by
  unfold byteAlt1 at h
  split at h
  · simp
  · cases h

theorem byteAlt2_len {r : List Byte} (h : byteAlt2 r = true) : 3 ≤ r.length := by
  unfold byteAlt2 at h
  split at h
  · simp
  · cases h

theorem byteAlt3_len {r : List Byte} (h : byteAlt3 r = true) : 2 ≤ r.length := by
  unfold byteAlt3 at h
  split at h
  · simp
  · cases h

theorem scanByte_bounds {s : List Byte} {n : Nat} (h : scanByte s = some n) : 1 ≤ n ∧ n ≤ s.length := by
  unfold scanByte at h
  split at h
  · rename_i rest
    by_cases h1 : byteAlt1 rest = true
    · have := byteAlt1_len h1
      simp only [h1, if_true, Option.some.injEq] at h; subst h; simp only [List.length_cons]; omega
    · by_cases h2 : byteAlt2 rest = true
      · have := byteAlt2_len h2
        simp only [h1, h2, if_true, Option.some.injEq] at h
        simp at h; subst h; simp only [List.length_cons]; omega
      · by_cases h3 : byteAlt3 rest = true
        · have := byteAlt3_len h3
          simp only [h1, h2, h3, if_true] at h
          simp at h; subst h; simp only [List.length_cons]; omega
        · simp [h1, h2, h3] at h
  · cases h

theorem digitsTail_le (p : Byte → Bool) (s : List Byte) : digitsTail p s ≤ s.length := by
  fun_induction digitsTail p s <;> simp_all <;> omega

theorem digitsRun_le (p : Byte → Bool) (s : List Byte) : digitsRun p s ≤ s.length := by
  cases s with
  | nil => simp [digitsRun]
  | cons c rest =>
    simp only [digitsRun]
    split
    · have := digitsTail_le p rest; simp; omega
    · simp

theorem scanPrefixed_bounds {m1 m2 : Byte} {p : Byte → Bool} {s : List Byte} {n : Nat}
    (h : scanPrefixed m1 m2 p s = some n) : 1 ≤ n ∧ n ≤ s.length := by
  unfold scanPrefixed at h
  split at h
  · rename_i m rest
    split at h
    · simp only at h
      split at h
      · cases h
      · cases h
        have := digitsRun_le p rest
        simp; omega
    · cases h
  · cases h

theorem fracLen_le (r : List Byte) : fracLen r ≤ r.length := by
  unfold fracLen
  split
  · rename_i r'
    have := digitsRun_le isDigit r'
    simp only [List.length_cons]; split <;> omega
  · omega

theorem expLen_le (r : List Byte) : expLen r ≤ r.length := by
  unfold expLen
  split
  · rename_i c r
    split
    · split
      · rename_i sg r'
        split
        · have := digitsRun_le isDigit r'
          simp only [List.length_cons]; split <;> omega
        · have := digitsRun_le isDigit (sg :: r')
          simp only [List.length_cons] at this ⊢; split <;> omega
      · simp
    · simp
  · simp

theorem scanFloat_bounds {s : List Byte} {n : Nat} (h : scanFloat s = some n) : 1 ≤ n ∧ n ≤ s.length := by
  unfold scanFloat at h
  simp only at h
  split at h
  · cases h
  · cases h
    have h0 := digitsRun_le isDigit s
    have h1 := fracLen_le (s.drop (digitsRun isDigit s))
    have h2 := expLen_le ((s.drop (digitsRun isDigit s)).drop (fracLen (s.drop (digitsRun isDigit s))))
    simp only [List.length_drop] at h1 h2
    omega

theorem scanUnsigned_bounds {s : List Byte} {n : Nat} (h : scanUnsigned s = some n) : 1 ≤ n ∧ n ≤ s.length := by
  unfold scanUnsigned at h
  split at h
  · rename_i k hk; cases h; exact scanPrefixed_bounds hk
  · split at h
    · rename_i k hk; cases h; exact scanPrefixed_bounds hk
    · split at h
      · rename_i k hk; cases h; exact scanPrefixed_bounds hk
      · exact scanFloat_bounds h

theorem scanNumber_bounds {s : List Byte} {n : Nat} (h : scanNumber s = some n) : 1 ≤ n ∧ n ≤ s.length := by
  unfold scanNumber at h
  split at h
  · simp only [Option.map_eq_some_iff] at h
    obtain ⟨j, hj, rfl⟩ := h
    have := scanUnsigned_bounds hj
    simp; omega
  · exact scanUnsigned_bounds h

theorem scanIdent_bounds {s : List Byte} {n : Nat} (h : scanIdent s = some n) : 1 ≤ n ∧ n ≤ s.length := by
  unfold scanIdent at h
  split at h
  · rename_i c rest
    split at h
    · cases h
      have := spanLen_le isIdCont rest
      simp; omega
    · cases h
  · cases h

theorem isPrefixOf_length {a s : List Byte} (h : isPrefixOf a s = true) : a.length ≤ s.length := by
  induction a generalizing s with
  | nil => simp
  | cons x xs ih =>
    cases s with
    | nil => simp [isPrefixOf] at h
    | cons y ys =>
      simp only [isPrefixOf, Bool.and_eq_true] at h
      have := ih h.2
      simp; omega

/-- The operator table is usable: the handler of every operator pattern consumes exactly the text its regular
    expression matched, and that text is not empty.  Decided on the regenerated table (Props/C13). -/
def TablesOk (T : Tables) : Prop := ∀ p ∈ T.ops, p.1 = p.2 ∧ p.1 ≠ []

instance (T : Tables) : Decidable (TablesOk T) := by unfold TablesOk; infer_instance

theorem scanOp_bounds {ops : List (List Byte × List Byte)} {s tok : List Byte}
    (hT : ∀ p ∈ ops, p.1 = p.2 ∧ p.1 ≠ []) (h : scanOp ops s = some tok) : 1 ≤ tok.length ∧ tok.length ≤ s.length := by
  induction ops with
  | nil => simp [scanOp] at h
  | cons p ps ih =>
    obtain ⟨lit, t⟩ := p
    simp only [scanOp] at h
    split at h
    · rename_i hp
      cases h
      have := hT (lit, tok) (by simp)
      simp only at this
      obtain ⟨e, ne⟩ := this
      subst e
      have := isPrefixOf_length hp
      constructor
      · cases lit with
        | nil => exact absurd rfl ne
        | cons _ _ => simp
      · exact this
    · exact ih (fun p hp => hT p (by simp [hp])) h

/-- **Progress**: every iteration of `Tokenize` consumes at least one byte and never more than what is left. -/
theorem step_bounds (T : Tables) (hT : TablesOk T) (s : List Byte) (hs : s ≠ []) :
    1 ≤ (step T s).n ∧ (step T s).n ≤ s.length := by
  unfold step
  split
  · rename_i n h; exact scanWs_bounds h
  · split
    · rename_i n h; exact scanLineComment_bounds h
    · split
      · rename_i n h; exact scanBlockComment_bounds h
      · split
        · rename_i n h; exact scanString_bounds h
        · split
          · rename_i n h; exact scanByte_bounds h
          · split
            · rename_i n h; exact scanNumber_bounds h
            · split
              · rename_i n h; exact scanIdent_bounds h
              · split
                · rename_i op h; exact scanOp_bounds hT h
                · cases s with
                  | nil => exact absurd rfl hs
                  | cons _ _ => simp

/-! ### totality: `s.length` iterations always suffice -/

/-- the tokens pushed by one iteration -/
def stepToks (T : Tables) (p : Pos) (s : List Byte) : List Tok :=
  match (step T s).tok with
  | some (k, v) => [⟨k, v, p, advance p (s.take (step T s).n)⟩]
  | none => []

theorem lexLoop_succ_cons (T : Tables) (f : Nat) (p : Pos) (c : Byte) (cs : List Byte) :
    (lexLoop T (f + 1) p (c :: cs)).toks =
      stepToks T p (c :: cs) ++
        (lexLoop T f (advance p ((c :: cs).take (step T (c :: cs)).n)) ((c :: cs).drop (step T (c :: cs)).n)).toks := by
  simp only [lexLoop, stepToks]
  cases (step T (c :: cs)).tok with
  | none => simp
  | some kv => obtain ⟨k, v⟩ := kv; simp

theorem lexLoop_succ_cons_errs (T : Tables) (f : Nat) (p : Pos) (c : Byte) (cs : List Byte) :
    (lexLoop T (f + 1) p (c :: cs)).errs =
      (lexLoop T f (advance p ((c :: cs).take (step T (c :: cs)).n)) ((c :: cs).drop (step T (c :: cs)).n)).errs
        + (if (step T (c :: cs)).err then 1 else 0) := by
  simp only [lexLoop]

theorem drop_step_length (T : Tables) (hT : TablesOk T) (c : Byte) (cs : List Byte) :
    ((c :: cs).drop (step T (c :: cs)).n).length ≤ cs.length := by
  have hb := step_bounds T hT (c :: cs) (by simp)
  simp only [List.length_drop, List.length_cons] at hb ⊢
  omega

/-- **Fuel irrelevance / termination**: with a usable operator table the loop of `Tokenize` needs at most
    `s.length` iterations — any larger bound gives the same result, i.e. the fuel-exhausted branch of the model
    is never taken. -/
theorem lexLoop_fuel (T : Tables) (hT : TablesOk T) :
    ∀ (fuel : Nat) (p : Pos) (s : List Byte), s.length ≤ fuel → lexLoop T fuel p s = lexLoop T s.length p s := by
  intro fuel
  induction fuel using Nat.strongRecOn with
  | _ fuel ih =>
    intro p s hle
    cases s with
    | nil => cases fuel <;> simp [lexLoop]
    | cons c cs =>
      cases fuel with
      | zero => simp at hle
      | succ f =>
        have hlen := drop_step_length T hT c cs
        simp only [List.length_cons] at hle
        have e1 := ih f (by omega) (advance p ((c :: cs).take (step T (c :: cs)).n)) _ (by omega : ((c :: cs).drop (step T (c :: cs)).n).length ≤ f)
        have e2 := ih cs.length (by omega) (advance p ((c :: cs).take (step T (c :: cs)).n)) _ hlen
        simp only [List.length_cons, lexLoop]
        rw [e1, e2]

/-! ### shape of the token list -/

theorem stepToks_not_eof (T : Tables) (p : Pos) (s : List Byte) : ∀ t ∈ stepToks T p s, t.kind ≠ .eof := by
  intro t ht
  unfold stepToks at ht
  split at ht
  · rename_i k v hst
    simp only [List.mem_singleton] at ht
    subst ht
    simp only
    unfold step at hst
    repeat' split at hst
    all_goals (simp only [Option.some.injEq, Prod.mk.injEq, reduceCtorEq] at hst)
    all_goals (try (obtain ⟨rfl, _⟩ := hst))
    all_goals (try simp)
    all_goals (split <;> simp)
  · simp at ht

/-- The token list always ends with the end-of-file token and no other token is an end-of-file token. -/
theorem lexLoop_shape (T : Tables) (fuel : Nat) (p : Pos) (s : List Byte) :
    ∃ (front : List Tok) (e : Tok), (lexLoop T fuel p s).toks = front ++ [e] ∧ e.kind = .eof ∧ ∀ t ∈ front, t.kind ≠ .eof := by
  induction fuel generalizing p s with
  | zero => cases s <;> exact ⟨[], ⟨.eof, eofText, p, p⟩, by simp [lexLoop], rfl, by simp⟩
  | succ f ih =>
    cases s with
    | nil => exact ⟨[], ⟨.eof, eofText, p, p⟩, by simp [lexLoop], rfl, by simp⟩
    | cons c cs =>
      obtain ⟨front, e, h1, h2, h3⟩ := ih (advance p ((c :: cs).take (step T (c :: cs)).n)) ((c :: cs).drop (step T (c :: cs)).n)
      refine ⟨stepToks T p (c :: cs) ++ front, e, ?_, h2, ?_⟩
      · rw [lexLoop_succ_cons, h1]; simp
      · intro t ht
        rcases List.mem_append.mp ht with h | h
        · exact stepToks_not_eof T p _ t h
        · exact h3 t h

/-! ### positions -/

theorem advanceGo_idx (p : Pos) (b : Bool) (s : List Byte) : (advanceGo p b s).idx = p.idx + s.length := by
  induction s generalizing p b with
  | nil => simp [advanceGo]
  | cons c cs ih =>
    simp only [advanceGo]
    split
    · rw [ih]; simp; omega
    · split
      · rw [ih]; simp; omega
      · rw [ih]; simp; omega

theorem advance_idx (p : Pos) (s : List Byte) : (advance p s).idx = p.idx + s.length := advanceGo_idx p false s

/-- number of line feeds -/
def countNl : List Byte → Nat
  | [] => 0
  | c :: cs => (if c = 10 then 1 else 0) + countNl cs

theorem advanceGo_line (p : Pos) (b : Bool) (s : List Byte) : (advanceGo p b s).line = p.line + countNl s := by
  induction s generalizing p b with
  | nil => simp [advanceGo, countNl]
  | cons c cs ih =>
    simp only [advanceGo, countNl]
    split
    · rw [ih]; simp; omega
    · split
      · rw [ih]; simp
      · rw [ih]; simp

/-- **Lines follow the text**: the line of a position is 1 + the number of line feeds before it, whatever the
    chunks in which the text was consumed. -/
theorem advance_line (p : Pos) (s : List Byte) : (advance p s).line = p.line + countNl s := advanceGo_line p false s

/-- column after a tab-free, newline-free text: one per byte -/
theorem advanceGo_col_plain (p : Pos) (s : List Byte) (h : ∀ c ∈ s, c ≠ 10 ∧ c ≠ 9) :
    (advanceGo p false s).col = p.col + s.length ∧ (advanceGo p false s).line = p.line := by
  induction s generalizing p with
  | nil => simp [advanceGo]
  | cons c cs ih =>
    have hc := h c (by simp)
    simp only [advanceGo, hc.1, hc.2, if_false]
    have := ih ⟨p.line, p.col + 1, p.idx + 1⟩ (fun d hd => h d (by simp [hd]))
    simp at this ⊢
    constructor <;> omega

/-- **Columns follow the text** on tab-free text: after a line feed the column restarts at 1 and then grows by
    one per byte. -/
theorem advance_col_after_newline (p : Pos) (a b : List Byte) (hb : ∀ c ∈ b, c ≠ 10 ∧ c ≠ 9) :
    (advance p (a ++ 10 :: b)).col = 1 + b.length := by
  unfold advance
  suffices h : ∀ (p : Pos) (f : Bool), (advanceGo p f (a ++ 10 :: b)).col = 1 + b.length from h p false
  induction a with
  | nil =>
    intro p f
    simp only [List.nil_append, advanceGo, if_true]
    exact (advanceGo_col_plain _ b hb).1
  | cons c cs ih =>
    intro p f
    simp only [List.cons_append, advanceGo]
    split
    · exact ih _ _
    · split <;> exact ih _ _

/-- does the text end with a tab (`f` = the flag before the text) -/
def lastTab (f : Bool) : List Byte → Bool
  | [] => f
  | c :: cs => lastTab (decide (c = 9)) cs

/-- The position reached does not depend on how a text is cut into chunks, as long as no chunk ends with a tab
    (the byte after a tab inside one chunk is not counted — `prevWasTab` — and that flag is reset per chunk). -/
theorem advanceGo_append (p : Pos) (f : Bool) (a b : List Byte) :
    advanceGo p f (a ++ b) = advanceGo (advanceGo p f a) (lastTab f a) b := by
  induction a generalizing p f with
  | nil => simp [advanceGo, lastTab]
  | cons c cs ih =>
    simp only [List.cons_append, advanceGo, lastTab]
    split
    · rename_i hc; rw [ih]; simp [hc]
    · split
      · rename_i hc; rw [ih]; simp [hc]
      · rename_i h1 h2; rw [ih]; simp [h2]

theorem advance_append_of_not_tab (p : Pos) (a b : List Byte) (h : lastTab false a = false) :
    advance p (a ++ b) = advance (advance p a) b := by
  unfold advance
  rw [advanceGo_append, h]

/-! ### the final position is the end of the input -/

theorem lexLoop_eof_idx (T : Tables) (hT : TablesOk T) :
    ∀ (fuel : Nat) (p : Pos) (s : List Byte), s.length ≤ fuel →
      ∀ e ∈ (lexLoop T fuel p s).toks, e.kind = .eof → e.start.idx = p.idx + s.length := by
  intro fuel
  induction fuel with
  | zero => intro p s h; cases s <;> simp_all [lexLoop]
  | succ f ih =>
    intro p s hle
    cases s with
    | nil => simp [lexLoop]
    | cons c cs =>
      have hb := step_bounds T hT (c :: cs) (by simp)
      have hlen := drop_step_length T hT c cs
      simp only [List.length_cons] at hle hb
      have hrec := ih (advance p ((c :: cs).take (step T (c :: cs)).n)) ((c :: cs).drop (step T (c :: cs)).n) (by omega)
      have hidx : (advance p ((c :: cs).take (step T (c :: cs)).n)).idx + ((c :: cs).drop (step T (c :: cs)).n).length
          = p.idx + (c :: cs).length := by
        rw [advance_idx]; simp only [List.length_take, List.length_drop, List.length_cons]; omega
      intro e he hk
      rw [lexLoop_succ_cons] at he
      rcases List.mem_append.mp he with h | h
      · exact absurd hk (stepToks_not_eof T p _ e h)
      · rw [hrec e h hk, hidx]

/-- every error of the lexer consumes input: at most one diagnostic per byte -/
theorem lexLoop_errs_le (T : Tables) (hT : TablesOk T) :
    ∀ (fuel : Nat) (p : Pos) (s : List Byte), (lexLoop T fuel p s).errs ≤ s.length := by
  intro fuel
  induction fuel with
  | zero => intro p s; cases s <;> simp [lexLoop]
  | succ f ih =>
    intro p s
    cases s with
    | nil => simp [lexLoop]
    | cons c cs =>
      have hlen := drop_step_length T hT c cs
      have := ih (advance p ((c :: cs).take (step T (c :: cs)).n)) ((c :: cs).drop (step T (c :: cs)).n)
      rw [lexLoop_succ_cons_errs]
      simp only [List.length_cons]
      split <;> omega

end FerretVerif.Lexer
