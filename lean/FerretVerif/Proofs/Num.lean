/-
  Proofs/Num.lean — meaning of `losslessDec`:
    losslessDec s t = true  ↔  every value of s is a value of t.
-/
import FerretVerif.Model.Num

namespace FerretVerif.Num
open NumTy

theorem E_eq : E = 262378 := rfl

theorem two_pow_pos (k : Nat) : 0 < 2 ^ k := Nat.pow_pos (by decide)

theorem lo_le_zero (t : NumTy) : t.lo ≤ 0 := by
  unfold NumTy.lo
  generalize 2 ^ (t.bits - 1) = a
  split <;> omega

theorem zero_le_hi (t : NumTy) : 0 ≤ t.hi := by
  unfold NumTy.hi
  have h1 := two_pow_pos (t.bits - 1)
  have h2 := two_pow_pos t.bits
  generalize 2 ^ (t.bits - 1) = a at *
  generalize 2 ^ t.bits = b at *
  split <;> omega

theorem lo_le_hi (t : NumTy) : t.lo ≤ t.hi := Int.le_trans (lo_le_zero t) (zero_le_hi t)

/-- cancel the grid factor -/
theorem mul_pow_cancel {a b : Int} (k : Nat) (h : a * ((2 ^ k : Nat) : Int) = b * ((2 ^ k : Nat) : Int)) : a = b := by
  have hp : ((2 ^ k : Nat) : Int) ≠ 0 := by
    have := two_pow_pos k
    generalize 2 ^ k = g at *
    omega
  exact Int.eq_of_mul_eq_mul_right hp h

/-- a non-zero multiple of a larger power of two is not a smaller power of two -/
theorem pow_lt_not_mul {a k : Nat} (m : Nat) (hk : a < k) (h : 2 ^ a = m * 2 ^ k) : False := by
  cases m with
  | zero => have := two_pow_pos a; omega
  | succ m =>
    have h1 : 2 ^ a < 2 ^ k := Nat.pow_lt_pow_right (by decide) hk
    have h2 : 2 ^ k ≤ (m + 1) * 2 ^ k := Nat.le_mul_of_pos_left _ (by omega)
    omega

/-- 2^p + 1 (p ≥ 1) scaled to the grid is not a·2^k with a < 2^p -/
theorem odd_not_rep {p a k e : Nat} (hp : 1 ≤ p) (ha : a < 2 ^ p)
    (h : (2 ^ p + 1) * 2 ^ e = a * 2 ^ k) : False := by
  rcases Nat.lt_or_ge e k with hk | hk
  · -- k > e : then 2^p + 1 = a * 2^(k-e) is even
    obtain ⟨d, rfl⟩ : ∃ d, k = e + (d + 1) := ⟨k - e - 1, by omega⟩
    have h' : (2 ^ p + 1) * 2 ^ e = ((a * 2 ^ d) * 2) * 2 ^ e := by
      rw [h, Nat.pow_add, Nat.pow_succ]; ac_rfl
    have h2 := Nat.eq_of_mul_eq_mul_right (two_pow_pos e) h'
    obtain ⟨q, rfl⟩ : ∃ q, p = q + 1 := ⟨p - 1, by omega⟩
    rw [Nat.pow_succ] at h2
    generalize a * 2 ^ d = c at h2
    generalize 2 ^ q = r at h2
    omega
  · -- k ≤ e : then a = (2^p+1) * 2^(e-k) ≥ 2^p + 1
    obtain ⟨d, rfl⟩ : ∃ d, e = k + d := ⟨e - k, by omega⟩
    have h' : ((2 ^ p + 1) * 2 ^ d) * 2 ^ k = a * 2 ^ k := by
      rw [← h, Nat.pow_add]; ac_rfl
    have h2 := Nat.eq_of_mul_eq_mul_right (two_pow_pos k) h'
    have h3 : 2 ^ p + 1 ≤ (2 ^ p + 1) * 2 ^ d := Nat.le_mul_of_pos_right _ (two_pow_pos d)
    omega

theorem natAbs_mul_pow (m : Int) (k : Nat) : (m * ((2 ^ k : Nat) : Int)).natAbs = m.natAbs * 2 ^ k := by
  rw [Int.natAbs_mul, Int.natAbs_natCast]

/-- float formats: facts used below, by enumeration of the four formats -/
theorem float_facts (t : NumTy) (h : t.isFloat = true) :
    1 ≤ t.prec ∧ t.prec ≤ t.emax ∧ t.kmin ≤ E ∧ E + 1 ≤ t.kmax ∧ t.kmin < E ∧ t.kmin ≤ t.kmax := by
  cases t <;> simp [NumTy.isFloat] at h <;> simp [NumTy.prec, NumTy.emax, NumTy.kmin, NumTy.kmax, E_eq]

theorem float_mono (s t : NumTy) (hs : s.isFloat = true) (ht : t.isFloat = true) :
    (s.prec ≤ t.prec → t.kmin ≤ s.kmin ∧ s.kmax ≤ t.kmax) ∧ (¬ s.prec ≤ t.prec → s.kmin < t.kmin) := by
  cases s <;> simp [NumTy.isFloat] at hs <;> cases t <;> simp [NumTy.isFloat] at ht <;>
    simp [NumTy.prec, NumTy.emax, NumTy.kmin, NumTy.kmax, E_eq]

/-- the smallest positive (subnormal) value of a float type -/
theorem rep_min_subnormal (s : NumTy) (hs : s.isFloat = true) : Rep s ((2 ^ s.kmin : Nat) : Int) := by
  have hf := float_facts s hs
  unfold Rep; rw [hs]
  refine ⟨1, s.kmin, ?_, Nat.le_refl _, hf.2.2.2.2.2, by simp⟩
  exact Nat.one_lt_two_pow (by omega)

theorem int_rep_of_bounds (t : NumTy) (ht : t.isFloat = true) (n : Int)
    (hn : n.natAbs ≤ 2 ^ t.prec) : Rep t (n * ((2 ^ E : Nat) : Int)) := by
  have hf := float_facts t ht
  unfold Rep; rw [ht]
  rcases Nat.lt_or_ge n.natAbs (2 ^ t.prec) with h | h
  · exact ⟨n, E, h, hf.2.2.1, by omega, rfl⟩
  · have heq : n.natAbs = 2 ^ t.prec := by omega
    obtain ⟨q, hq⟩ : ∃ q, t.prec = q + 1 := ⟨t.prec - 1, by omega⟩
    -- n = ± 2^(q+1) = (± 2^q) * 2
    refine ⟨n.sign * ((2 ^ q : Nat) : Int), E + 1, ?_, by omega, hf.2.2.2.1, ?_⟩
    · rw [Int.natAbs_mul, Int.natAbs_natCast, hq, Nat.pow_succ]
      have : n.sign.natAbs ≤ 1 := by
        rcases Int.sign_trichotomy n with h | h | h <;> rw [h] <;> decide
      have hp := two_pow_pos q
      generalize 2 ^ q = Q at *
      calc n.sign.natAbs * Q ≤ 1 * Q := Nat.mul_le_mul_right _ this
        _ < Q * 2 := by omega
    · rw [hq, Nat.pow_succ] at heq
      rw [Nat.pow_succ]
      generalize 2 ^ q = Q at *
      generalize 2 ^ E = G at *
      have hn' : n = n.sign * ((Q * 2 : Nat) : Int) := by
        rw [← heq]; exact (Int.sign_mul_natAbs n).symm
      calc n * (G : Int) = (n.sign * ((Q * 2 : Nat) : Int)) * (G : Int) := by rw [← hn']
        _ = n.sign * (Q : Int) * ((G * 2 : Nat) : Int) := by
          rw [Int.natCast_mul, Int.natCast_mul]; ac_rfl

theorem losslessDec_iff (s t : NumTy) :
    losslessDec s t = true ↔ ∀ v, Rep s v → Rep t v := by
  unfold losslessDec
  cases hs : s.isFloat <;> cases ht : t.isFloat <;> simp only [decide_eq_true_eq]
  · -- int → int
    constructor
    · rintro ⟨h1, h2⟩ v hv
      unfold Rep at hv ⊢; rw [hs] at hv; rw [ht]
      obtain ⟨n, a, b, rfl⟩ := hv
      exact ⟨n, by omega, by omega, rfl⟩
    · intro h
      have hlo := h (s.lo * ((2 ^ E : Nat) : Int)) (by
        unfold Rep; rw [hs]; exact ⟨s.lo, Int.le_refl _, lo_le_hi s, rfl⟩)
      have hhi := h (s.hi * ((2 ^ E : Nat) : Int)) (by
        unfold Rep; rw [hs]; exact ⟨s.hi, lo_le_hi s, Int.le_refl _, rfl⟩)
      unfold Rep at hlo hhi; rw [ht] at hlo hhi
      obtain ⟨n1, a1, _, e1⟩ := hlo
      obtain ⟨n2, _, b2, e2⟩ := hhi
      have := mul_pow_cancel E e1
      have := mul_pow_cancel E e2
      constructor <;> omega
  · -- int → float
    constructor
    · rintro ⟨h1, h2⟩ v hv
      unfold Rep at hv; rw [hs] at hv
      obtain ⟨n, a, b, rfl⟩ := hv
      refine int_rep_of_bounds t ht n ?_
      generalize 2 ^ t.prec = P at *
      omega
    · intro h
      have hf := float_facts t ht
      refine Classical.byContradiction fun hc => ?_
      have hpp := two_pow_pos t.prec
      generalize hP : 2 ^ t.prec = P at *
      have hcase : (P : Int) + 1 ≤ s.hi ∨ s.lo ≤ -((P : Int) + 1) := by omega
      have key : ∀ n : Int, n.natAbs = P + 1 → s.lo ≤ n → n ≤ s.hi → False := by
        intro n hn h1 h2
        have hr := h (n * ((2 ^ E : Nat) : Int)) (by
          unfold Rep; rw [hs]; exact ⟨n, h1, h2, rfl⟩)
        unfold Rep at hr; rw [ht] at hr
        obtain ⟨m, k, hm, _, _, e⟩ := hr
        have e' := congrArg Int.natAbs e
        rw [natAbs_mul_pow, natAbs_mul_pow, hn] at e'
        subst hP
        exact odd_not_rep hf.1 hm e'
      have := lo_le_zero s
      have := zero_le_hi s
      rcases hcase with hh | hh
      · exact key ((P : Int) + 1) (by omega) (by omega) hh
      · exact key (-((P : Int) + 1)) (by omega) hh (by omega)
  · -- float → int : never
    simp only [Bool.false_eq_true, false_iff]
    intro h
    have hf := float_facts s hs
    have hr := h _ (rep_min_subnormal s hs)
    unfold Rep at hr; rw [ht] at hr
    obtain ⟨n, _, _, e⟩ := hr
    have e' := congrArg Int.natAbs e
    rw [natAbs_mul_pow, Int.natAbs_natCast] at e'
    exact pow_lt_not_mul _ hf.2.2.2.2.1 e'
  · -- float → float
    have hm := float_mono s t hs ht
    constructor
    · intro hp v hv
      obtain ⟨h1, h2⟩ := hm.1 hp
      unfold Rep at hv ⊢; rw [hs] at hv; rw [ht]
      obtain ⟨m, k, a, b, c, rfl⟩ := hv
      exact ⟨m, k, Nat.lt_of_lt_of_le a (Nat.pow_le_pow_right (by decide) hp), by omega, by omega, rfl⟩
    · intro h
      refine Classical.byContradiction fun hc => ?_
      have hlt := hm.2 hc
      have hr := h _ (rep_min_subnormal s hs)
      unfold Rep at hr; rw [ht] at hr
      obtain ⟨m, k, _, hk, _, e⟩ := hr
      have e' := congrArg Int.natAbs e
      rw [natAbs_mul_pow, Int.natAbs_natCast] at e'
      exact pow_lt_not_mul _ (by omega) e'

end FerretVerif.Num
