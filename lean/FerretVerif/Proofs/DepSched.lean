/-
  Proofs/DepSched.lean — the parse scheduler as a transition system: exactly-once scheduling,
  progress and termination under every schedule, acyclicity of the shared graph, and
  schedule-independence of the "circular import" verdict.  Core-only.
-/
import FerretVerif.Proofs.DepGraph

namespace FerretVerif.DepGraph

/-! ### the step function as a relation (with the ghost log of AddDependency attempts) -/

/-- the AddDependency attempt (if any) performed by `step p s i` -/
def stepLog (s : Sched) (i : Nat) : List (Nat × Nat) :=
  match s.tasks[i]? with
  | some t => match t.adds with
    | b :: _ => [(t.mod, b)]
    | [] => []
  | none => []

/-- the log of a whole schedule -/
def runLog (p : Project) : Sched → List Nat → List (Nat × Nat)
  | _, [] => []
  | s, i :: is =>
    match step p s i with
    | some s' => stepLog s i ++ runLog p s' is
    | none => runLog p s is

inductive StepRel (p : Project) (s : Sched) (i : Nat) : Sched → List (Nat × Nat) → Prop
  | reject (t : Task) (b : Nat) (rest : List Nat) :
      s.tasks[i]? = some t → t.adds = b :: rest → addDep s.graph t.mod b = none →
      StepRel p s i { s with tasks := s.tasks.set i { t with adds := rest },
                             errors := s.errors ++ [(t.mod, b)] } [(t.mod, b)]
  | accept (t : Task) (b : Nat) (rest : List Nat) (g' : Graph) :
      s.tasks[i]? = some t → t.adds = b :: rest → addDep s.graph t.mod b = some g' →
      StepRel p s i { s with graph := g', tasks := s.tasks.set i { t with adds := rest } } [(t.mod, b)]
  | skip (t : Task) (m : Nat) (rest : List Nat) :
      s.tasks[i]? = some t → t.adds = [] → t.spawns = m :: rest → m ∈ s.seen →
      StepRel p s i { s with tasks := s.tasks.set i { t with spawns := rest } } []
  | spawn (t : Task) (m : Nat) (rest : List Nat) :
      s.tasks[i]? = some t → t.adds = [] → t.spawns = m :: rest → m ∉ s.seen →
      StepRel p s i { s with seen := m :: s.seen, parsed := s.parsed ++ [m],
                             tasks := s.tasks.set i { t with spawns := rest } ++
                               [⟨m, importsOf p m, importsOf p m⟩] } []
  | done (t : Task) :
      s.tasks[i]? = some t → t.adds = [] → t.spawns = [] →
      StepRel p s i { s with tasks := s.tasks.eraseIdx i } []

theorem step_rel {p : Project} {s s' : Sched} {i : Nat} (h : step p s i = some s') :
    StepRel p s i s' (stepLog s i) := by
  unfold step at h
  unfold stepLog
  split at h
  · simp at h
  · next t ht =>
    rw [ht]
    simp only []
    split at h
    · next b rest hadds =>
      rw [hadds]
      simp only []
      split at h
      · next hd =>
        simp only [Option.some.injEq] at h; subst h
        exact StepRel.reject t b rest ht hadds hd
      · next g' hd =>
        simp only [Option.some.injEq] at h; subst h
        exact StepRel.accept t b rest g' ht hadds hd
    · next hadds =>
      rw [hadds]
      simp only []
      split at h
      · next m rest hsp =>
        split at h
        · next hseen =>
          simp only [Option.some.injEq] at h; subst h
          exact StepRel.skip t m rest ht hadds hsp (by simpa using hseen)
        · next hseen =>
          simp only [Option.some.injEq] at h; subst h
          exact StepRel.spawn t m rest ht hadds hsp (by simpa using hseen)
      · next hsp =>
        simp only [Option.some.injEq] at h; subst h
        exact StepRel.done t ht hadds hsp

/-- reachable scheduler states together with the log of attempts made so far -/
inductive RS (p : Project) (entry : Nat) : Sched → List (Nat × Nat) → Prop
  | init : RS p entry (initSched p entry) []
  | step {s s' : Sched} {A : List (Nat × Nat)} {i : Nat} :
      RS p entry s A → step p s i = some s' → RS p entry s' (A ++ stepLog s i)

theorem rs_runSched {p : Project} {entry : Nat} (is : List Nat) :
    ∀ {s : Sched} {A : List (Nat × Nat)}, RS p entry s A →
      RS p entry (runSched p s is) (A ++ runLog p s is) := by
  induction is with
  | nil => intro s A h; simpa [runSched, runLog] using h
  | cons i is ih =>
    intro s A h
    unfold runSched runLog
    cases hs : step p s i with
    | none => exact ih h
    | some s' =>
      simp only []
      rw [← List.append_assoc]
      exact ih (RS.step h hs)

/-- every state of every schedule is reachable -/
theorem rs_of_run (p : Project) (entry : Nat) (is : List Nat) :
    RS p entry (runSched p (initSched p entry) is) (runLog p (initSched p entry) is) := by
  have := rs_runSched (p := p) (entry := entry) is RS.init
  simpa using this

/-! ### list helpers -/

theorem mem_set_of_mem {α : Type} {l : List α} {i : Nat} {t t' x : α} (hi : l[i]? = some t) (hx : x ∈ l) :
    x ∈ l.set i t' ∨ x = t := by
  rw [List.mem_iff_getElem?] at hx
  obtain ⟨j, hj⟩ := hx
  by_cases hji : i = j
  · subst hji
    rw [hi] at hj
    exact Or.inr (Option.some.inj hj).symm
  · left
    rw [List.mem_iff_getElem?]
    exact ⟨j, by rw [List.getElem?_set_ne hji]; exact hj⟩

theorem mem_set_self' {α : Type} {l : List α} {i : Nat} {t t' : α} (hi : l[i]? = some t) :
    t' ∈ l.set i t' := by
  obtain ⟨h, _⟩ := List.getElem?_eq_some_iff.1 hi
  exact List.mem_set h t'

theorem mem_eraseIdx_of_mem {α : Type} {l : List α} {i : Nat} {t x : α} (hi : l[i]? = some t) (hx : x ∈ l) :
    x ∈ l.eraseIdx i ∨ x = t := by
  rw [List.mem_iff_getElem?] at hx
  obtain ⟨j, hj⟩ := hx
  by_cases hji : j = i
  · subst hji
    rw [hi] at hj
    exact Or.inr (Option.some.inj hj).symm
  · left
    rw [List.mem_iff_getElem?]
    by_cases hlt : j < i
    · exact ⟨j, by rw [List.getElem?_eraseIdx]; simp [hlt, hj]⟩
    · refine ⟨j - 1, ?_⟩
      rw [List.getElem?_eraseIdx]
      have h1 : ¬ (j - 1 < i) := by omega
      have h2 : j - 1 + 1 = j := by omega
      simp [h1, h2, hj]

/-! ### P3.1: exactly-once scheduling -/

structure Inv1 (p : Project) (entry : Nat) (s : Sched) : Prop where
  parsed_nodup : s.parsed.Nodup
  seen_parsed : ∀ x, x ∈ s.seen ↔ x ∈ s.parsed
  entry_parsed : entry ∈ s.parsed
  parsed_reach : ∀ x, x ∈ s.parsed → Reach p entry x
  task_ok : ∀ t, t ∈ s.tasks → t.mod ∈ s.parsed ∧ (∀ b, b ∈ t.adds → b ∈ succs p t.mod) ∧
    (∀ m, m ∈ t.spawns → m ∈ succs p t.mod)

theorem inv1_init (p : Project) (entry : Nat) : Inv1 p entry (initSched p entry) := by
  refine ⟨by simp [initSched], by simp [initSched], by simp [initSched], ?_, ?_⟩
  · intro x hx
    simp [initSched] at hx
    subst hx; exact Reach.refl _
  · intro t ht
    simp [initSched] at ht
    subst ht
    simp [initSched, importsOf]

theorem inv1_step {p : Project} {entry : Nat} {s s' : Sched} {i : Nat} {L : List (Nat × Nat)}
    (h : Inv1 p entry s) (hs : StepRel p s i s' L) : Inv1 p entry s' := by
  cases hs with
  | reject t b rest ht hadds hd =>
    refine ⟨h.parsed_nodup, h.seen_parsed, h.entry_parsed, h.parsed_reach, ?_⟩
    intro x hx
    rcases List.mem_or_eq_of_mem_set hx with hx | hx
    · exact h.task_ok x hx
    · subst hx
      obtain ⟨h1, h2, h3⟩ := h.task_ok t (List.mem_of_getElem? ht)
      exact ⟨h1, fun b' hb' => h2 b' (by rw [hadds]; exact List.mem_cons_of_mem _ hb'), h3⟩
  | accept t b rest g' ht hadds hd =>
    refine ⟨h.parsed_nodup, h.seen_parsed, h.entry_parsed, h.parsed_reach, ?_⟩
    intro x hx
    rcases List.mem_or_eq_of_mem_set hx with hx | hx
    · exact h.task_ok x hx
    · subst hx
      obtain ⟨h1, h2, h3⟩ := h.task_ok t (List.mem_of_getElem? ht)
      exact ⟨h1, fun b' hb' => h2 b' (by rw [hadds]; exact List.mem_cons_of_mem _ hb'), h3⟩
  | skip t m rest ht hadds hsp hseen =>
    refine ⟨h.parsed_nodup, h.seen_parsed, h.entry_parsed, h.parsed_reach, ?_⟩
    intro x hx
    rcases List.mem_or_eq_of_mem_set hx with hx | hx
    · exact h.task_ok x hx
    · subst hx
      obtain ⟨h1, h2, h3⟩ := h.task_ok t (List.mem_of_getElem? ht)
      exact ⟨h1, h2, fun b' hb' => h3 b' (by rw [hsp]; exact List.mem_cons_of_mem _ hb')⟩
  | spawn t m rest ht hadds hsp hseen =>
    obtain ⟨h1, h2, h3⟩ := h.task_ok t (List.mem_of_getElem? ht)
    have hmp : m ∉ s.parsed := fun hm => hseen ((h.seen_parsed m).2 hm)
    refine ⟨?_, ?_, ?_, ?_, ?_⟩
    · show (s.parsed ++ [m]).Nodup
      rw [List.nodup_append]
      refine ⟨h.parsed_nodup, by simp, ?_⟩
      intro a ha b' hb' hab
      simp at hb'
      subst hb'; subst hab
      exact hmp ha
    · intro x
      show x ∈ m :: s.seen ↔ x ∈ s.parsed ++ [m]
      simp [h.seen_parsed x]
      exact Or.comm
    · exact List.mem_append_left _ h.entry_parsed
    · intro x hx
      have hx' : x ∈ s.parsed ++ [m] := hx
      rw [List.mem_append] at hx'
      rcases hx' with hx' | hx'
      · exact h.parsed_reach x hx'
      · simp at hx'
        subst hx'
        exact (h.parsed_reach _ h1).tail (h3 x (by rw [hsp]; exact List.mem_cons_self))
    · intro x hx
      have hx' : x ∈ s.tasks.set i { t with spawns := rest } ++ [⟨m, importsOf p m, importsOf p m⟩] := hx
      show x.mod ∈ s.parsed ++ [m] ∧ _
      rw [List.mem_append] at hx'
      rcases hx' with hx' | hx'
      · rcases List.mem_or_eq_of_mem_set hx' with hx' | hx'
        · obtain ⟨k1, k2, k3⟩ := h.task_ok x hx'
          exact ⟨List.mem_append_left _ k1, k2, k3⟩
        · subst hx'
          exact ⟨List.mem_append_left _ h1, h2,
            fun b' hb' => h3 b' (by rw [hsp]; exact List.mem_cons_of_mem _ hb')⟩
      · simp at hx'
        subst hx'
        simp [importsOf]
  | done t ht hadds hsp =>
    refine ⟨h.parsed_nodup, h.seen_parsed, h.entry_parsed, h.parsed_reach, ?_⟩
    intro x hx
    exact h.task_ok x (List.mem_of_mem_eraseIdx hx)

theorem inv1_of_rs {p : Project} {entry : Nat} {s : Sched} {A : List (Nat × Nat)} (h : RS p entry s A) :
    Inv1 p entry s := by
  induction h with
  | init => exact inv1_init p entry
  | step _ hs ih => exact inv1_step ih (step_rel hs)

/-- P3.1: each module is parsed at most once, `seen` and `parsed` hold the same modules, and only modules
    reachable from the entry are ever parsed — for every schedule -/
theorem parsed_nodup (p : Project) (entry : Nat) (is : List Nat) :
    let s := runSched p (initSched p entry) is
    s.parsed.Nodup ∧ (∀ x, x ∈ s.seen ↔ x ∈ s.parsed) ∧ (∀ x, x ∈ s.parsed → Reach p entry x) := by
  have h := inv1_of_rs (rs_of_run p entry is)
  exact ⟨h.parsed_nodup, h.seen_parsed, h.parsed_reach⟩

/-! ### P3.2: progress (no deadlock) and termination under every schedule -/

/-- a live task always has an enabled step -/
theorem step_enabled (p : Project) (s : Sched) (i : Nat) (hi : i < s.tasks.length) :
    ∃ s', step p s i = some s' := by
  unfold step
  rw [List.getElem?_eq_getElem hi]
  simp only []
  split
  · split <;> exact ⟨_, rfl⟩
  · split
    · split <;> exact ⟨_, rfl⟩
    · exact ⟨_, rfl⟩

theorem step_none_iff (p : Project) (s : Sched) (i : Nat) : step p s i = none ↔ s.tasks.length ≤ i := by
  constructor
  · intro h
    apply Nat.le_of_not_lt
    intro hi
    obtain ⟨s', hs⟩ := step_enabled p s i hi
    rw [hs] at h; simp at h
  · intro h
    unfold step
    rw [List.getElem?_eq_none h]

def taskW (t : Task) : Nat := t.adds.length + t.spawns.length + 1
def tasksW (ts : List Task) : Nat := (ts.map taskW).sum
def modW (p : Project) (m : Nat) : Nat := 2 * (importsOf p m).length + 1
def unseenW (p : Project) (seen : List Nat) : Nat :=
  (((nodes p).filter (fun m => !seen.contains m)).map (modW p)).sum

/-- termination measure: pending actions of live tasks + the cost of every module not yet seen -/
def schedMeasure (p : Project) (s : Sched) : Nat := tasksW s.tasks + unseenW p s.seen

theorem tasksW_set {l : List Task} {i : Nat} {t : Task} (t' : Task) (h : l[i]? = some t) :
    tasksW (l.set i t') + taskW t = tasksW l + taskW t' := by
  induction l generalizing i with
  | nil => simp at h
  | cons a l ih =>
    cases i with
    | zero =>
      simp at h; subst h
      simp [tasksW]; omega
    | succ i =>
      simp at h
      have := ih h
      simp [tasksW] at this ⊢; omega

theorem tasksW_eraseIdx {l : List Task} {i : Nat} {t : Task} (h : l[i]? = some t) :
    tasksW (l.eraseIdx i) + taskW t = tasksW l := by
  induction l generalizing i with
  | nil => simp at h
  | cons a l ih =>
    cases i with
    | zero =>
      simp at h; subst h
      simp [tasksW]; omega
    | succ i =>
      simp at h
      have := ih h
      simp [tasksW] at this ⊢; omega

theorem tasksW_append (l1 l2 : List Task) : tasksW (l1 ++ l2) = tasksW l1 + tasksW l2 := by
  simp [tasksW]

theorem filterW_mono (w : Nat → Nat) (l seen : List Nat) (m : Nat) :
    ((l.filter (fun x => !(m :: seen).contains x)).map w).sum ≤
      ((l.filter (fun x => !seen.contains x)).map w).sum := by
  induction l with
  | nil => simp
  | cons y l ih =>
    simp only [List.filter_cons]
    by_cases hym : y = m
    · subst hym
      by_cases hys : y ∈ seen
      · simp only [List.contains_eq_mem, List.mem_cons, true_or, decide_true, Bool.not_true,
          Bool.false_eq_true, if_false, hys] at ih ⊢
        exact ih
      · simp only [List.contains_eq_mem, List.mem_cons, true_or, decide_true, Bool.not_true,
          Bool.false_eq_true, if_false, hys, decide_false, Bool.not_false, if_true, List.map_cons,
          List.sum_cons] at ih ⊢
        omega
    · by_cases hys : y ∈ seen
      · simp only [List.contains_eq_mem, List.mem_cons, hym, hys, or_true, decide_true, Bool.not_true,
          Bool.false_eq_true, if_false] at ih ⊢
        exact ih
      · simp only [List.contains_eq_mem, List.mem_cons, hym, hys, or_self, decide_false, Bool.not_false,
          if_true, List.map_cons, List.sum_cons] at ih ⊢
        omega

theorem filterW_cons (w : Nat → Nat) (l seen : List Nat) (m : Nat) (hm : m ∈ l) (hs : m ∉ seen) :
    ((l.filter (fun x => !(m :: seen).contains x)).map w).sum + w m ≤
      ((l.filter (fun x => !seen.contains x)).map w).sum := by
  induction l with
  | nil => simp at hm
  | cons y l ih =>
    simp only [List.filter_cons]
    by_cases hym : y = m
    · subst hym
      have := filterW_mono w l seen y
      simp only [List.contains_eq_mem, List.mem_cons, true_or, decide_true, Bool.not_true,
        Bool.false_eq_true, if_false, hs, decide_false, Bool.not_false, if_true, List.map_cons,
        List.sum_cons] at this ⊢
      omega
    · have hm' : m ∈ l := by
        cases hm with
        | head => exact absurd rfl hym
        | tail _ h => exact h
      have ih' := ih hm'
      by_cases hys : y ∈ seen
      · simp only [List.contains_eq_mem, List.mem_cons, hym, hys, or_true, decide_true, Bool.not_true,
          Bool.false_eq_true, if_false] at ih' ⊢
        exact ih'
      · simp only [List.contains_eq_mem, List.mem_cons, hym, hys, or_self, decide_false, Bool.not_false,
          if_true, List.map_cons, List.sum_cons] at ih' ⊢
        omega

theorem unseenW_cons {p : Project} {seen : List Nat} {m : Nat} (hm : m ∈ nodes p) (hs : m ∉ seen) :
    unseenW p (m :: seen) + modW p m ≤ unseenW p seen :=
  filterW_cons (modW p) (nodes p) seen m hm hs

/-- every pending spawn names a node of the project (true in every reachable state) -/
def SpawnsOk (p : Project) (s : Sched) : Prop := ∀ t, t ∈ s.tasks → ∀ m, m ∈ t.spawns → m ∈ nodes p

theorem spawnsOk_init (p : Project) (entry : Nat) : SpawnsOk p (initSched p entry) := by
  intro t ht m hm
  simp [initSched] at ht
  subst ht
  exact (edge_mem_nodes (g := p) (a := entry) hm).2

theorem spawnsOk_step {p : Project} {s s' : Sched} {i : Nat} {L : List (Nat × Nat)}
    (h : SpawnsOk p s) (hs : StepRel p s i s' L) : SpawnsOk p s' := by
  cases hs with
  | reject t b rest ht hadds hd =>
    intro x hx m hm
    rcases List.mem_or_eq_of_mem_set hx with hx | hx
    · exact h x hx m hm
    · subst hx; exact h t (List.mem_of_getElem? ht) m hm
  | accept t b rest g' ht hadds hd =>
    intro x hx m hm
    rcases List.mem_or_eq_of_mem_set hx with hx | hx
    · exact h x hx m hm
    · subst hx; exact h t (List.mem_of_getElem? ht) m hm
  | skip t m0 rest ht hadds hsp hseen =>
    intro x hx m hm
    rcases List.mem_or_eq_of_mem_set hx with hx | hx
    · exact h x hx m hm
    · subst hx; exact h t (List.mem_of_getElem? ht) m (by rw [hsp]; exact List.mem_cons_of_mem _ hm)
  | spawn t m0 rest ht hadds hsp hseen =>
    intro x hx m hm
    have hx' : x ∈ s.tasks.set i { t with spawns := rest } ++ [⟨m0, importsOf p m0, importsOf p m0⟩] := hx
    rw [List.mem_append] at hx'
    rcases hx' with hx' | hx'
    · rcases List.mem_or_eq_of_mem_set hx' with hx' | hx'
      · exact h x hx' m hm
      · subst hx'; exact h t (List.mem_of_getElem? ht) m (by rw [hsp]; exact List.mem_cons_of_mem _ hm)
    · simp at hx'
      subst hx'
      exact (edge_mem_nodes (g := p) (a := m0) hm).2
  | done t ht hadds hsp =>
    intro x hx m hm
    exact h x (List.mem_of_mem_eraseIdx hx) m hm

/-- every successful step strictly decreases the measure -/
theorem stepRel_measure_lt {p : Project} {s s' : Sched} {i : Nat} {L : List (Nat × Nat)}
    (hok : SpawnsOk p s) (hs : StepRel p s i s' L) : schedMeasure p s' < schedMeasure p s := by
  cases hs with
  | reject t b rest ht hadds hd =>
    have := tasksW_set { t with adds := rest } ht
    simp only [schedMeasure, taskW, hadds, List.length_cons] at this ⊢
    omega
  | accept t b rest g' ht hadds hd =>
    have := tasksW_set { t with adds := rest } ht
    simp only [schedMeasure, taskW, hadds, List.length_cons] at this ⊢
    omega
  | skip t m rest ht hadds hsp hseen =>
    have := tasksW_set { t with spawns := rest } ht
    simp only [schedMeasure, taskW, hsp, List.length_cons] at this ⊢
    omega
  | spawn t m rest ht hadds hsp hseen =>
    have h1 := tasksW_set { t with spawns := rest } ht
    have hm : m ∈ nodes p := hok t (List.mem_of_getElem? ht) m (by rw [hsp]; exact List.mem_cons_self)
    have h2 := unseenW_cons hm hseen
    simp only [schedMeasure, tasksW_append]
    simp only [taskW, hsp, List.length_cons] at h1
    have h3 : tasksW [⟨m, importsOf p m, importsOf p m⟩] = modW p m := by
      simp [tasksW, taskW, modW]; omega
    rw [h3]
    omega
  | done t ht hadds hsp =>
    have := tasksW_eraseIdx ht
    simp only [schedMeasure, taskW] at this ⊢
    omega

theorem step_measure_lt {p : Project} {s s' : Sched} {i : Nat} (hok : SpawnsOk p s)
    (hs : step p s i = some s') : schedMeasure p s' < schedMeasure p s :=
  stepRel_measure_lt hok (step_rel hs)

theorem tasks_nil_of_measure_zero {p : Project} {s : Sched} (h : schedMeasure p s = 0) : s.tasks = [] := by
  cases hts : s.tasks with
  | nil => rfl
  | cons t ts =>
    simp [schedMeasure, hts, tasksW, taskW] at h

/-- P3.2: the FIFO schedule terminates with no live task once the fuel covers the measure -/
theorem runFifo_terminates (p : Project) :
    ∀ (fuel : Nat) (s : Sched), SpawnsOk p s → schedMeasure p s ≤ fuel → (runFifo p fuel s).tasks = [] := by
  intro fuel
  induction fuel with
  | zero =>
    intro s _ hm
    exact tasks_nil_of_measure_zero (Nat.le_zero.1 hm)
  | succ fuel ih =>
    intro s hok hm
    unfold runFifo
    cases hs : step p s 0 with
    | none =>
      simp only []
      have := (step_none_iff p s 0).1 hs
      exact List.eq_nil_of_length_eq_zero (Nat.le_zero.1 this)
    | some s' =>
      simp only []
      have := step_measure_lt hok hs
      exact ih s' (spawnsOk_step hok (step_rel hs)) (by omega)

theorem runFifo_init_terminates (p : Project) (entry fuel : Nat)
    (h : schedMeasure p (initSched p entry) ≤ fuel) : (runFifo p fuel (initSched p entry)).tasks = [] :=
  runFifo_terminates p fuel _ (spawnsOk_init p entry) h

/-- number of successful steps of a schedule -/
def liveSteps (p : Project) : Sched → List Nat → Nat
  | _, [] => 0
  | s, i :: is =>
    match step p s i with
    | some s' => liveSteps p s' is + 1
    | none => liveSteps p s is

/-- P3.2: under ANY schedule the number of successful steps is bounded by the initial measure: a schedule
    that keeps picking live tasks must reach `tasks = []` -/
theorem liveSteps_le (p : Project) (is : List Nat) :
    ∀ (s : Sched), SpawnsOk p s → liveSteps p s is + schedMeasure p (runSched p s is) ≤ schedMeasure p s := by
  induction is with
  | nil => intro s _; simp [liveSteps, runSched]
  | cons i is ih =>
    intro s hok
    unfold liveSteps runSched
    cases hs : step p s i with
    | none => exact ih s hok
    | some s' =>
      simp only []
      have h1 := step_measure_lt hok hs
      have h2 := ih s' (spawnsOk_step hok (step_rel hs))
      omega

/-- a schedule all of whose picks are live and which is at least as long as the measure cannot exist
    unless it ends with no task: once `measure` successful steps are done, nothing is left -/
theorem run_complete_of_liveSteps (p : Project) (entry : Nat) (is : List Nat)
    (h : schedMeasure p (initSched p entry) ≤ liveSteps p (initSched p entry) is) :
    (runSched p (initSched p entry) is).tasks = [] := by
  have := liveSteps_le p is _ (spawnsOk_init p entry)
  exact tasks_nil_of_measure_zero (p := p) (by omega)

/-! ### P3.3: the shared graph stays acyclic -/

theorem graph_invariant_step {p : Project} {s s' : Sched} {i : Nat} {L : List (Nat × Nat)}
    (h : Acyclic s.graph ∧ NoDupKeys s.graph) (hs : StepRel p s i s' L) :
    Acyclic s'.graph ∧ NoDupKeys s'.graph := by
  cases hs with
  | reject t b rest ht hadds hd => exact h
  | accept t b rest g' ht hadds hd => exact ⟨acyclic_invariant h.1 hd, noDupKeys_addDep h.2 hd⟩
  | skip t m rest ht hadds hsp hseen => exact h
  | spawn t m rest ht hadds hsp hseen => exact h
  | done t ht hadds hsp => exact h

theorem graph_invariant_of_rs {p : Project} {entry : Nat} {s : Sched} {A : List (Nat × Nat)}
    (h : RS p entry s A) : Acyclic s.graph ∧ NoDupKeys s.graph := by
  induction h with
  | init => exact ⟨acyclic_nil, noDupKeys_nil⟩
  | step _ hs ih => exact graph_invariant_step ih (step_rel hs)

/-- P3.3: the dependency graph is acyclic (and well-formed) in every state of every schedule -/
theorem graph_acyclic_invariant (p : Project) (entry : Nat) (is : List Nat) :
    Acyclic (runSched p (initSched p entry) is).graph ∧
      NoDupKeys (runSched p (initSched p entry) is).graph :=
  graph_invariant_of_rs (rs_of_run p entry is)

/-! ### P3.4: schedule-independence of the verdict -/

/-- the rejected attempts of a sequence of AddDependency calls -/
def rejects : Graph → List (Nat × Nat) → List (Nat × Nat)
  | _, [] => []
  | g, (a, b) :: es =>
    match addDep g a b with
    | none => (a, b) :: rejects g es
    | some g1 => rejects g1 es

theorem rejects_append (g : Graph) (A B : List (Nat × Nat)) :
    rejects g (A ++ B) = rejects g A ++ rejects (addAll g A).1 B := by
  induction A generalizing g with
  | nil => simp [rejects, addAll_nil]
  | cons e A ih =>
    obtain ⟨a, b⟩ := e
    cases h : addDep g a b with
    | none => simp [rejects, h, addAll_cons_none _ h, ih]
    | some g1 => simp [rejects, h, addAll_cons_some _ h, ih]

theorem rejects_nil_iff (g : Graph) (A : List (Nat × Nat)) :
    rejects g A = [] ↔ (addAll g A).2.all id = true := by
  induction A generalizing g with
  | nil => simp [rejects, addAll_nil]
  | cons e A ih =>
    obtain ⟨a, b⟩ := e
    cases h : addDep g a b with
    | none => simp [rejects, h, addAll_cons_none _ h]
    | some g1 => simp [rejects, h, addAll_cons_some _ h, ih]

/-- the shared graph and the diagnostics are those of the sequential replay of the log -/
structure Inv2 (s : Sched) (A : List (Nat × Nat)) : Prop where
  graph_eq : s.graph = (addAll [] A).1
  errors_eq : s.errors = rejects [] A

theorem inv2_step {p : Project} {s s' : Sched} {i : Nat} {A L : List (Nat × Nat)}
    (h : Inv2 s A) (hs : StepRel p s i s' L) : Inv2 s' (A ++ L) := by
  cases hs with
  | reject t b rest ht hadds hd =>
    rw [h.graph_eq] at hd
    constructor
    · show s.graph = _
      rw [addAll_append, addAll_cons_none _ hd, addAll_nil]
      exact h.graph_eq
    · show s.errors ++ [(t.mod, b)] = _
      rw [rejects_append, h.errors_eq]
      simp [rejects, hd]
  | accept t b rest g' ht hadds hd =>
    rw [h.graph_eq] at hd
    constructor
    · show g' = _
      rw [addAll_append, addAll_cons_some _ hd, addAll_nil]
    · show s.errors = _
      rw [rejects_append, h.errors_eq]
      simp [rejects, hd]
  | skip t m rest ht hadds hsp hseen => rw [List.append_nil]; exact ⟨h.graph_eq, h.errors_eq⟩
  | spawn t m rest ht hadds hsp hseen => rw [List.append_nil]; exact ⟨h.graph_eq, h.errors_eq⟩
  | done t ht hadds hsp => rw [List.append_nil]; exact ⟨h.graph_eq, h.errors_eq⟩

theorem inv2_of_rs {p : Project} {entry : Nat} {s : Sched} {A : List (Nat × Nat)} (h : RS p entry s A) :
    Inv2 s A := by
  induction h with
  | init => exact ⟨rfl, rfl⟩
  | step _ hs ih => exact inv2_step ih (step_rel hs)

/-- bookkeeping of what is still to be done: every import of a parsed module is either already
    seen / attempted, or still pending in a live task of that module -/
structure Inv3 (p : Project) (s : Sched) (A : List (Nat × Nat)) : Prop where
  spawn_cover : ∀ a, a ∈ s.parsed → ∀ b, b ∈ succs p a →
    b ∈ s.seen ∨ ∃ t, t ∈ s.tasks ∧ t.mod = a ∧ b ∈ t.spawns
  add_cover : ∀ a, a ∈ s.parsed → ∀ b, b ∈ succs p a →
    (a, b) ∈ A ∨ ∃ t, t ∈ s.tasks ∧ t.mod = a ∧ b ∈ t.adds
  log_sub : ∀ a b, (a, b) ∈ A → a ∈ s.parsed ∧ b ∈ succs p a

theorem inv3_init (p : Project) (entry : Nat) : Inv3 p (initSched p entry) [] := by
  refine ⟨?_, ?_, ?_⟩
  · intro a ha b hb
    simp [initSched] at ha
    subst ha
    exact Or.inr ⟨⟨a, importsOf p a, importsOf p a⟩, by simp [initSched], rfl, hb⟩
  · intro a ha b hb
    simp [initSched] at ha
    subst ha
    exact Or.inr ⟨⟨a, importsOf p a, importsOf p a⟩, by simp [initSched], rfl, hb⟩
  · intro a b h; simp at h

theorem inv3_step {p : Project} {entry : Nat} {s s' : Sched} {i : Nat} {A L : List (Nat × Nat)}
    (h1 : Inv1 p entry s) (h : Inv3 p s A) (hs : StepRel p s i s' L) : Inv3 p s' (A ++ L) := by
  cases hs with
  | reject t b0 rest ht hadds hd =>
    obtain ⟨k1, k2, k3⟩ := h1.task_ok t (List.mem_of_getElem? ht)
    refine ⟨?_, ?_, ?_⟩
    · intro a ha b hb
      rcases h.spawn_cover a ha b hb with hc | ⟨t0, ht0, hm0, hb0⟩
      · exact Or.inl hc
      · rcases mem_set_of_mem (t' := { t with adds := rest }) ht ht0 with hx | hx
        · exact Or.inr ⟨t0, hx, hm0, hb0⟩
        · subst hx
          exact Or.inr ⟨_, mem_set_self' ht, hm0, hb0⟩
    · intro a ha b hb
      rcases h.add_cover a ha b hb with hc | ⟨t0, ht0, hm0, hb0⟩
      · exact Or.inl (List.mem_append_left _ hc)
      · rcases mem_set_of_mem (t' := { t with adds := rest }) ht ht0 with hx | hx
        · exact Or.inr ⟨t0, hx, hm0, hb0⟩
        · subst hx
          rw [hadds, List.mem_cons] at hb0
          rcases hb0 with hb0 | hb0
          · subst hb0; subst hm0
            exact Or.inl (List.mem_append_right _ List.mem_cons_self)
          · exact Or.inr ⟨_, mem_set_self' ht, hm0, hb0⟩
    · intro a b hab
      rw [List.mem_append] at hab
      rcases hab with hab | hab
      · exact h.log_sub a b hab
      · simp at hab
        obtain ⟨rfl, rfl⟩ := hab
        exact ⟨k1, k2 _ (by rw [hadds]; exact List.mem_cons_self)⟩
  | accept t b0 rest g' ht hadds hd =>
    obtain ⟨k1, k2, k3⟩ := h1.task_ok t (List.mem_of_getElem? ht)
    refine ⟨?_, ?_, ?_⟩
    · intro a ha b hb
      rcases h.spawn_cover a ha b hb with hc | ⟨t0, ht0, hm0, hb0⟩
      · exact Or.inl hc
      · rcases mem_set_of_mem (t' := { t with adds := rest }) ht ht0 with hx | hx
        · exact Or.inr ⟨t0, hx, hm0, hb0⟩
        · subst hx
          exact Or.inr ⟨_, mem_set_self' ht, hm0, hb0⟩
    · intro a ha b hb
      rcases h.add_cover a ha b hb with hc | ⟨t0, ht0, hm0, hb0⟩
      · exact Or.inl (List.mem_append_left _ hc)
      · rcases mem_set_of_mem (t' := { t with adds := rest }) ht ht0 with hx | hx
        · exact Or.inr ⟨t0, hx, hm0, hb0⟩
        · subst hx
          rw [hadds, List.mem_cons] at hb0
          rcases hb0 with hb0 | hb0
          · subst hb0; subst hm0
            exact Or.inl (List.mem_append_right _ List.mem_cons_self)
          · exact Or.inr ⟨_, mem_set_self' ht, hm0, hb0⟩
    · intro a b hab
      rw [List.mem_append] at hab
      rcases hab with hab | hab
      · exact h.log_sub a b hab
      · simp at hab
        obtain ⟨rfl, rfl⟩ := hab
        exact ⟨k1, k2 _ (by rw [hadds]; exact List.mem_cons_self)⟩
  | skip t m rest ht hadds hsp hseen =>
    rw [List.append_nil]
    refine ⟨?_, ?_, h.log_sub⟩
    · intro a ha b hb
      rcases h.spawn_cover a ha b hb with hc | ⟨t0, ht0, hm0, hb0⟩
      · exact Or.inl hc
      · rcases mem_set_of_mem (t' := { t with spawns := rest }) ht ht0 with hx | hx
        · exact Or.inr ⟨t0, hx, hm0, hb0⟩
        · subst hx
          rw [hsp, List.mem_cons] at hb0
          rcases hb0 with hb0 | hb0
          · subst hb0; exact Or.inl hseen
          · exact Or.inr ⟨_, mem_set_self' ht, hm0, hb0⟩
    · intro a ha b hb
      rcases h.add_cover a ha b hb with hc | ⟨t0, ht0, hm0, hb0⟩
      · exact Or.inl hc
      · rcases mem_set_of_mem (t' := { t with spawns := rest }) ht ht0 with hx | hx
        · exact Or.inr ⟨t0, hx, hm0, hb0⟩
        · subst hx
          exact Or.inr ⟨_, mem_set_self' ht, hm0, hb0⟩
  | spawn t m rest ht hadds hsp hseen =>
    rw [List.append_nil]
    refine ⟨?_, ?_, ?_⟩
    · intro a ha b hb
      have ha' : a ∈ s.parsed ++ [m] := ha
      show b ∈ m :: s.seen ∨ ∃ t0, t0 ∈ s.tasks.set i { t with spawns := rest } ++
        [⟨m, importsOf p m, importsOf p m⟩] ∧ t0.mod = a ∧ b ∈ t0.spawns
      rw [List.mem_append] at ha'
      rcases ha' with ha' | ha'
      · rcases h.spawn_cover a ha' b hb with hc | ⟨t0, ht0, hm0, hb0⟩
        · exact Or.inl (List.mem_cons_of_mem _ hc)
        · rcases mem_set_of_mem (t' := { t with spawns := rest }) ht ht0 with hx | hx
          · exact Or.inr ⟨t0, List.mem_append_left _ hx, hm0, hb0⟩
          · subst hx
            rw [hsp, List.mem_cons] at hb0
            rcases hb0 with hb0 | hb0
            · subst hb0; exact Or.inl List.mem_cons_self
            · exact Or.inr ⟨_, List.mem_append_left _ (mem_set_self' ht), hm0, hb0⟩
      · simp at ha'
        subst ha'
        exact Or.inr ⟨_, List.mem_append_right _ List.mem_cons_self, rfl, hb⟩
    · intro a ha b hb
      have ha' : a ∈ s.parsed ++ [m] := ha
      show (a, b) ∈ A ∨ ∃ t0, t0 ∈ s.tasks.set i { t with spawns := rest } ++
        [⟨m, importsOf p m, importsOf p m⟩] ∧ t0.mod = a ∧ b ∈ t0.adds
      rw [List.mem_append] at ha'
      rcases ha' with ha' | ha'
      · rcases h.add_cover a ha' b hb with hc | ⟨t0, ht0, hm0, hb0⟩
        · exact Or.inl hc
        · rcases mem_set_of_mem (t' := { t with spawns := rest }) ht ht0 with hx | hx
          · exact Or.inr ⟨t0, List.mem_append_left _ hx, hm0, hb0⟩
          · subst hx
            exact Or.inr ⟨_, List.mem_append_left _ (mem_set_self' ht), hm0, hb0⟩
      · simp at ha'
        subst ha'
        exact Or.inr ⟨_, List.mem_append_right _ List.mem_cons_self, rfl, hb⟩
    · intro a b hab
      obtain ⟨k1, k2⟩ := h.log_sub a b hab
      exact ⟨List.mem_append_left _ k1, k2⟩
  | done t ht hadds hsp =>
    rw [List.append_nil]
    refine ⟨?_, ?_, h.log_sub⟩
    · intro a ha b hb
      rcases h.spawn_cover a ha b hb with hc | ⟨t0, ht0, hm0, hb0⟩
      · exact Or.inl hc
      · rcases mem_eraseIdx_of_mem ht ht0 with hx | hx
        · exact Or.inr ⟨t0, hx, hm0, hb0⟩
        · subst hx
          rw [hsp] at hb0; simp at hb0
    · intro a ha b hb
      rcases h.add_cover a ha b hb with hc | ⟨t0, ht0, hm0, hb0⟩
      · exact Or.inl hc
      · rcases mem_eraseIdx_of_mem ht ht0 with hx | hx
        · exact Or.inr ⟨t0, hx, hm0, hb0⟩
        · subst hx
          rw [hadds] at hb0; simp at hb0

theorem inv3_of_rs {p : Project} {entry : Nat} {s : Sched} {A : List (Nat × Nat)} (h : RS p entry s A) :
    Inv3 p s A := by
  induction h with
  | init => exact inv3_init p entry
  | step hrs hs ih => exact inv3_step (inv1_of_rs hrs) ih (step_rel hs)

/-- P3.4 (i-a): in a completed run exactly the modules reachable from the entry have been parsed -/
theorem completed_parsed_iff {p : Project} {entry : Nat} {s : Sched} {A : List (Nat × Nat)}
    (h : RS p entry s A) (hdone : s.tasks = []) (x : Nat) : x ∈ s.parsed ↔ Reach p entry x := by
  have i1 := inv1_of_rs h
  have i3 := inv3_of_rs h
  constructor
  · exact i1.parsed_reach x
  · intro hr
    apply reach_closed (g := p) (S := fun x => x ∈ s.parsed) _ hr i1.entry_parsed
    intro a b ha e
    rcases i3.spawn_cover a ha b e with hc | ⟨t0, ht0, _, _⟩
    · exact (i1.seen_parsed b).1 hc
    · rw [hdone] at ht0; simp at ht0

/-- P3.4 (i-b): the attempted edges of a completed run are exactly the import edges of the parsed
    (= reachable) modules -/
theorem completed_log_iff {p : Project} {entry : Nat} {s : Sched} {A : List (Nat × Nat)}
    (h : RS p entry s A) (hdone : s.tasks = []) (a b : Nat) :
    (a, b) ∈ A ↔ Reach p entry a ∧ Edge p a b := by
  have i3 := inv3_of_rs h
  constructor
  · intro hab
    obtain ⟨k1, k2⟩ := i3.log_sub a b hab
    exact ⟨(completed_parsed_iff h hdone a).1 k1, k2⟩
  · rintro ⟨hr, e⟩
    rcases i3.add_cover a ((completed_parsed_iff h hdone a).2 hr) b e with hc | ⟨t0, ht0, _, _⟩
    · exact hc
    · rw [hdone] at ht0; simp at ht0

/-- the diagnostics of any state are the rejections of the sequential replay of its log, and the graph
    is the replayed graph -/
theorem errors_eq_rejects {p : Project} {entry : Nat} {s : Sched} {A : List (Nat × Nat)}
    (h : RS p entry s A) : s.errors = rejects [] A ∧ s.graph = (addAll [] A).1 :=
  ⟨(inv2_of_rs h).errors_eq, (inv2_of_rs h).graph_eq⟩

theorem completed_verdict {p : Project} {entry : Nat} {s : Sched} {A : List (Nat × Nat)}
    (h : RS p entry s A) (hdone : s.tasks = []) :
    s.errors ≠ [] ↔ ∃ a b, Reach p entry a ∧ Edge p a b ∧ Reach p b a := by
  have hlog := completed_log_iff h hdone
  have herr : s.errors = [] ↔ EAcyclic A := by
    rw [(inv2_of_rs h).errors_eq, rejects_nil_iff, addAll_all_iff]
  -- reachability inside the log = reachability in the project, below the entry
  have hre1 : ∀ x y, ReachE A x y → Reach p x y := by
    intro x y hr
    exact reach_of_reachE (g := p) (fun a b hab => ((hlog a b).1 hab).2) hr
  have hre2 : ∀ x y, Reach p x y → Reach p entry x → ReachE A x y := by
    intro x y hr
    induction hr with
    | refl _ => intro _; exact ReachE.refl _
    | step e _ ih =>
      intro hx
      exact ReachE.step ((hlog _ _).2 ⟨hx, e⟩) (ih (hx.tail e))
  constructor
  · intro hne
    apply Classical.byContradiction
    intro hno
    apply hne
    rw [herr]
    intro a b hab hr
    obtain ⟨k1, k2⟩ := (hlog a b).1 hab
    exact hno ⟨a, b, k1, k2, hre1 b a hr⟩
  · rintro ⟨a, b, hr, e, hba⟩ hnil
    rw [herr] at hnil
    exact hnil a b ((hlog a b).2 ⟨hr, e⟩) (hre2 b a hba (hr.tail e))

/-- P3.4: schedule-independence of the verdict.  In ANY completed run, a circular-import diagnostic is
    emitted iff the part of the project reachable from the entry contains a cycle. -/
theorem verdict_schedule_independent (p : Project) (entry : Nat) (is : List Nat)
    (hdone : (runSched p (initSched p entry) is).tasks = []) :
    (runSched p (initSched p entry) is).errors ≠ [] ↔
      ∃ a b, Reach p entry a ∧ Edge p a b ∧ Reach p b a :=
  completed_verdict (rs_of_run p entry is) hdone

/-- two completed runs of the same project agree on whether an error is reported, and on the set of
    parsed modules -/
theorem verdict_same_for_all_schedules (p : Project) (entry : Nat) (is is' : List Nat)
    (hdone : (runSched p (initSched p entry) is).tasks = [])
    (hdone' : (runSched p (initSched p entry) is').tasks = []) :
    ((runSched p (initSched p entry) is).errors = [] ↔ (runSched p (initSched p entry) is').errors = []) ∧
    ∀ x, x ∈ (runSched p (initSched p entry) is).parsed ↔ x ∈ (runSched p (initSched p entry) is').parsed := by
  have h1 := verdict_schedule_independent p entry is hdone
  have h2 := verdict_schedule_independent p entry is' hdone'
  constructor
  · constructor
    · intro h; apply Classical.byContradiction; intro hn; exact (h2.1 hn |> h1.2) h
    · intro h; apply Classical.byContradiction; intro hn; exact (h1.1 hn |> h2.2) h
  · intro x
    rw [completed_parsed_iff (rs_of_run p entry is) hdone, completed_parsed_iff (rs_of_run p entry is') hdone']

/-! ### the FIFO run is a schedule, so everything above applies to it -/

theorem runSched_stuck (p : Project) (s : Sched) (h : step p s 0 = none) (n : Nat) :
    runSched p s (List.replicate n 0) = s := by
  induction n with
  | zero => rfl
  | succ n ih => rw [List.replicate_succ, runSched, h]; exact ih

theorem runFifo_eq_runSched (p : Project) : ∀ (fuel : Nat) (s : Sched),
    runFifo p fuel s = runSched p s (List.replicate fuel 0) := by
  intro fuel
  induction fuel with
  | zero => intro s; rfl
  | succ fuel ih =>
    intro s
    rw [List.replicate_succ, runFifo, runSched]
    cases h : step p s 0 with
    | none => simp only []; exact (runSched_stuck p s h fuel).symm
    | some s' => simp only []; exact ih s'

/-- the verdict of the deterministic run is the semantic one as soon as the fuel covers the measure -/
theorem runFifo_verdict (p : Project) (entry fuel : Nat) (h : schedMeasure p (initSched p entry) ≤ fuel) :
    (runFifo p fuel (initSched p entry)).errors ≠ [] ↔
      ∃ a b, Reach p entry a ∧ Edge p a b ∧ Reach p b a := by
  have hdone := runFifo_init_terminates p entry fuel h
  rw [runFifo_eq_runSched] at hdone ⊢
  exact verdict_schedule_independent p entry _ hdone

/-! ### concrete instances -/

def diamondP : Project := [(1, [2, 3]), (2, [4]), (3, [4])]
def cycleP : Project := [(1, [2]), (2, [3]), (3, [1])]
/-- `1` and `2` import each other and are parsed concurrently -/
def raceP : Project := [(0, [1, 2]), (1, [2]), (2, [1])]

example : schedMeasure diamondP (initSched diamondP 1) = 12 := by
  simp [schedMeasure, tasksW, taskW, unseenW, modW, diamondP, initSched, importsOf, succs, nodes,
    List.eraseDups_cons]

set_option maxRecDepth 4000 in
example : runFifo diamondP 17 (initSched diamondP 1) =
    { graph := [(1, [2, 3]), (2, [4]), (3, [4])], seen := [4, 3, 2, 1], tasks := [],
      parsed := [1, 2, 3, 4], errors := [] } := by
  simp [runFifo, step, diamondP, initSched, importsOf, addDep, insertEdge, hasPath, dfs, dfs.loop, succs,
    nodes, List.eraseDups_cons]

set_option maxRecDepth 4000 in
example : runFifo cycleP 13 (initSched cycleP 1) =
    { graph := [(1, [2]), (2, [3])], seen := [3, 2, 1], tasks := [],
      parsed := [1, 2, 3], errors := [(3, 1)] } := by
  simp [runFifo, step, cycleP, initSched, importsOf, addDep, insertEdge, hasPath, dfs, dfs.loop, succs,
    nodes, List.eraseDups_cons]

/-- two schedules of `raceP`: the diagnostic names a different edge, the verdict is the same -/
example : (runSched raceP (initSched raceP 0) [0, 0, 0, 0, 1, 2, 0, 0, 0, 0, 0, 0, 0]).errors = [(2, 1)] ∧
    (runSched raceP (initSched raceP 0) [0, 0, 0, 0, 1, 2, 0, 0, 0, 0, 0, 0, 0]).tasks = [] := by
  simp [runSched, step, raceP, initSched, importsOf, addDep, insertEdge, hasPath, dfs, dfs.loop, succs,
    nodes, List.eraseDups_cons]

example : (runSched raceP (initSched raceP 0) [0, 0, 0, 0, 2, 1, 0, 0, 0, 0, 0, 0, 0]).errors = [(1, 2)] ∧
    (runSched raceP (initSched raceP 0) [0, 0, 0, 0, 2, 1, 0, 0, 0, 0, 0, 0, 0]).tasks = [] := by
  simp [runSched, step, raceP, initSched, importsOf, addDep, insertEdge, hasPath, dfs, dfs.loop, succs,
    nodes, List.eraseDups_cons]

/-- the right-hand side of `verdict_schedule_independent` for `raceP` -/
example : ∃ a b, Reach raceP 0 a ∧ Edge raceP a b ∧ Reach raceP b a :=
  ⟨1, 2, Reach.single (by simp [Edge, succs, raceP]), by simp [Edge, succs, raceP],
    Reach.single (by simp [Edge, succs, raceP])⟩

/-- hence EVERY completed schedule of `raceP` reports an error -/
example (is : List Nat) (hdone : (runSched raceP (initSched raceP 0) is).tasks = []) :
    (runSched raceP (initSched raceP 0) is).errors ≠ [] :=
  (verdict_schedule_independent raceP 0 is hdone).2
    ⟨1, 2, Reach.single (by simp [Edge, succs, raceP]), by simp [Edge, succs, raceP],
      Reach.single (by simp [Edge, succs, raceP])⟩

end FerretVerif.DepGraph
