/-
  Proofs/Diag.lean — counters of the diagnostic bag, exit status, pipeline gate (C13).
-/
import FerretVerif.Model.Diag

namespace FerretVerif.Diag

def isErr (d : D) : Bool := d.sev = .error
def isWarn (d : D) : Bool := d.sev = .warning

/-- invariant of the bag: the counters count the recorded diagnostics -/
def Bag.Inv (b : Bag) : Prop :=
  b.errorCount = (b.diags.filter isErr).length ∧ b.warnCount = (b.diags.filter isWarn).length

theorem inv_empty : Bag.empty.Inv := by simp [Bag.Inv, Bag.empty]

theorem inv_add (b : Bag) (d : D) (h : b.Inv) : (b.add d).Inv := by
  obtain ⟨h1, h2⟩ := h
  unfold Bag.Inv Bag.add
  simp only [List.filter_append, List.length_append]
  constructor
  · by_cases he : d.sev = .error <;> simp [isErr, he, h1, List.filter]
  · by_cases hw : d.sev = .warning <;> simp [isWarn, hw, h2, List.filter]

theorem add_diags (b : Bag) (d : D) : (b.add d).diags = b.diags ++ [d] := rfl

theorem addAll_diags (b : Bag) (ds : List D) : (addAll b ds).diags = b.diags ++ ds := by
  unfold addAll
  induction ds generalizing b with
  | nil => simp
  | cons d ds ih => simp only [List.foldl_cons]; rw [ih, add_diags]; simp

theorem addAll_inv (b : Bag) (ds : List D) (h : b.Inv) : (addAll b ds).Inv := by
  unfold addAll
  induction ds generalizing b with
  | nil => simpa
  | cons d ds ih => simp only [List.foldl_cons]; exact ih _ (inv_add b d h)

/-- hasErrors ⟺ some recorded diagnostic is an error -/
theorem hasErrors_iff (b : Bag) (h : b.Inv) : b.hasErrors = true ↔ ∃ d ∈ b.diags, d.sev = .error := by
  unfold Bag.hasErrors
  rw [h.1]
  simp only [decide_eq_true_eq, List.length_pos_iff_exists_mem, List.mem_filter, isErr]

theorem hasErrors_mono (b : Bag) (ds : List D) (hi : b.Inv) (h : b.hasErrors = true) : (addAll b ds).hasErrors = true := by
  rw [hasErrors_iff _ (addAll_inv b ds hi), addAll_diags]
  obtain ⟨d, hd, he⟩ := (hasErrors_iff b hi).mp h
  exact ⟨d, List.mem_append_left _ hd, he⟩

end FerretVerif.Diag
