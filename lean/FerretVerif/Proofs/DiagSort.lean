/-
  Proofs/DiagSort.lean — sortDiagnostics is a stable sort by (file, line) on located diagnostics, hence its result
  does not depend on the order in which goroutines delivered diagnostics of DIFFERENT keys (C14).
-/
import FerretVerif.Model.Diag

namespace FerretVerif.Diag

/-- a diagnostic whose first label has a location -/
def located (d : D) : Bool := d.hasLabel && !d.nilLoc

/-- what the comparator looks at -/
def key (d : D) : Nat × Nat := (d.fileKey, d.line)

theorem less_located {a b : D} (ha : located a = true) (hb : located b = true) :
    less a b = true ↔ (a.fileKey < b.fileKey ∨ (a.fileKey = b.fileKey ∧ a.line < b.line)) := by
  unfold located at ha hb
  simp only [Bool.and_eq_true, Bool.not_eq_true'] at ha hb
  unfold less
  simp only [ha.1, hb.1, ha.2, hb.2, Bool.not_true, Bool.or_self, Bool.false_eq_true, if_false]
  by_cases h1 : a.fileKey = b.fileKey
  · by_cases h2 : a.line = b.line
    · simp [h1, h2]
    · simp [h1, h2]
  · simp [h1]

theorem less_irrefl {a : D} (ha : located a = true) : less a a = false := by
  cases h : less a a with
  | false => rfl
  | true => have := (less_located ha ha).mp h; omega

theorem less_trans {a b c : D} (ha : located a = true) (hb : located b = true) (hc : located c = true)
    (h1 : less a b = true) (h2 : less b c = true) : less a c = true := by
  rw [less_located ha hb] at h1; rw [less_located hb hc] at h2; rw [less_located ha hc]; omega

/-- ¬(b < a) ∧ (b < c)... : the order is a strict weak order; two consequences used below -/
theorem not_less_trans {a b c : D} (ha : located a = true) (hb : located b = true) (hc : located c = true)
    (h1 : less b a = false) (h2 : less c b = false) : less c a = false := by
  cases h : less c a with
  | false => rfl
  | true =>
    rw [less_located hc ha] at h
    have n1 : ¬ (b.fileKey < a.fileKey ∨ (b.fileKey = a.fileKey ∧ b.line < a.line)) := by
      intro hh; have := (less_located hb ha).mpr hh; rw [h1] at this; cases this
    have n2 : ¬ (c.fileKey < b.fileKey ∨ (c.fileKey = b.fileKey ∧ c.line < b.line)) := by
      intro hh; have := (less_located hc hb).mpr hh; rw [h2] at this; cases this
    omega

theorem key_eq_of_incomparable {a b : D} (ha : located a = true) (hb : located b = true)
    (h1 : less a b = false) (h2 : less b a = false) : key a = key b := by
  have n1 : ¬ (a.fileKey < b.fileKey ∨ (a.fileKey = b.fileKey ∧ a.line < b.line)) := by
    intro hh; have := (less_located ha hb).mpr hh; rw [h1] at this; cases this
  have n2 : ¬ (b.fileKey < a.fileKey ∨ (b.fileKey = a.fileKey ∧ b.line < a.line)) := by
    intro hh; have := (less_located hb ha).mpr hh; rw [h2] at this; cases this
  unfold key
  have e1 : a.fileKey = b.fileKey := by omega
  have e2 : a.line = b.line := by omega
  rw [e1, e2]

theorem key_ne_of_less {a b : D} (ha : located a = true) (hb : located b = true) (h : less a b = true) : key a ≠ key b := by
  rw [less_located ha hb] at h
  unfold key
  intro e
  simp only [Prod.mk.injEq] at e
  omega

/-! ### stability: a diagnostic never moves past one with the same key -/

def fk (k : Nat × Nat) (l : List D) : List D := l.filter (fun d => key d == k)

theorem fk_insertBack (k : Nat × Nat) (x : D) (acc : List D) (hx : located x = true) (hacc : ∀ d ∈ acc, located d = true) :
    fk k (insertBack x acc) = fk k (x :: acc) := by
  induction acc with
  | nil => simp [insertBack]
  | cons y ys ih =>
    have hy := hacc y (by simp)
    simp only [insertBack]
    split
    · rename_i hl
      have hne := key_ne_of_less hx hy hl
      have ih' := ih (fun d hd => hacc d (by simp [hd]))
      simp only [fk, List.filter_cons] at ih' ⊢
      rw [ih']
      by_cases h1 : key x = k
      · have h2 : key y ≠ k := by intro e; exact hne (h1.trans e.symm)
        simp [h1, h2]
      · simp [h1]
    · rfl

theorem located_insertBack (x : D) (acc : List D) (hx : located x = true) (hacc : ∀ d ∈ acc, located d = true) :
    ∀ d ∈ insertBack x acc, located d = true := by
  induction acc with
  | nil => simp [insertBack, hx]
  | cons y ys ih =>
    simp only [insertBack]
    split
    · intro d hd
      rcases List.mem_cons.mp hd with h | h
      · rw [h]; exact hacc y (by simp)
      · exact ih (fun d hd => hacc d (by simp [hd])) d h
    · intro d hd
      rcases List.mem_cons.mp hd with h | h
      · rw [h]; exact hx
      · exact hacc d h

theorem fk_isortRev (k : Nat × Nat) (acc l : List D) (hacc : ∀ d ∈ acc, located d = true) (hl : ∀ d ∈ l, located d = true) :
    fk k (isortRev acc l) = fk k (l.reverse ++ acc) ∧ ∀ d ∈ isortRev acc l, located d = true := by
  induction l generalizing acc with
  | nil => simp [isortRev]; exact hacc
  | cons x xs ih =>
    have hx := hl x (by simp)
    have h1 := ih (insertBack x acc) (located_insertBack x acc hx hacc) (fun d hd => hl d (by simp [hd]))
    simp only [isortRev]
    refine ⟨?_, h1.2⟩
    rw [h1.1]
    simp only [fk, List.filter_append, List.reverse_cons, List.append_assoc]
    have := fk_insertBack k x acc hx hacc
    simp only [fk] at this
    rw [this]
    simp only [List.filter_cons, List.filter_nil]
    split <;> simp

/-- **Stability**: for every key, the diagnostics with that key come out in their arrival order. -/
theorem fk_sortDiags (k : Nat × Nat) (l : List D) (hl : ∀ d ∈ l, located d = true) : fk k (sortDiags l) = fk k l := by
  unfold sortDiags
  have := (fk_isortRev k [] l (by simp) hl).1
  simp only [fk, List.append_nil] at this ⊢
  rw [List.filter_reverse, this, List.filter_reverse, List.reverse_reverse]

/-! ### sortedness -/

/-- reversed accumulator: every element is not smaller than the ones after it (which come earlier in the output) -/
def RevSorted : List D → Prop
  | [] => True
  | y :: ys => (∀ z ∈ ys, less y z = false) ∧ RevSorted ys

theorem revSorted_insertBack (x : D) (acc : List D) (hx : located x = true) (hacc : ∀ d ∈ acc, located d = true)
    (hs : RevSorted acc) : RevSorted (insertBack x acc) ∧ (∀ z ∈ insertBack x acc, z = x ∨ z ∈ acc) := by
  induction acc with
  | nil => simp [insertBack, RevSorted]
  | cons y ys ih =>
    have hy := hacc y (by simp)
    obtain ⟨hy1, hy2⟩ := hs
    have ih' := ih (fun d hd => hacc d (by simp [hd])) hy2
    simp only [insertBack]
    split
    · rename_i hl
      refine ⟨⟨?_, ih'.1⟩, ?_⟩
      · intro z hz
        rcases ih'.2 z hz with h | h
        · rw [h]
          -- less y x = false because less x y = true
          cases hyx : less y x with
          | false => rfl
          | true => have := less_trans hx hy hx hl hyx; rw [less_irrefl hx] at this; cases this
        · exact hy1 z h
      · intro z hz
        rcases List.mem_cons.mp hz with h | h
        · right; rw [h]; simp
        · rcases ih'.2 z h with h' | h'
          · left; exact h'
          · right; simp [h']
    · rename_i hl
      have hl' : less x y = false := by simpa using hl
      refine ⟨⟨?_, hy1, hy2⟩, ?_⟩
      · intro z hz
        rcases List.mem_cons.mp hz with h | h
        · rw [h]; exact hl'
        · exact not_less_trans (hacc z (by simp [h])) hy hx (hy1 z h) hl'
      · intro z hz
        rcases List.mem_cons.mp hz with h | h
        · left; exact h
        · right; exact h

theorem revSorted_isortRev (acc l : List D) (hacc : ∀ d ∈ acc, located d = true) (hl : ∀ d ∈ l, located d = true)
    (hs : RevSorted acc) : RevSorted (isortRev acc l) := by
  induction l generalizing acc with
  | nil => simpa [isortRev]
  | cons x xs ih =>
    have hx := hl x (by simp)
    simp only [isortRev]
    exact ih _ (located_insertBack x acc hx hacc) (fun d hd => hl d (by simp [hd])) (revSorted_insertBack x acc hx hacc hs).1

/-- output order: no element is smaller than an earlier one -/
def Sorted : List D → Prop
  | [] => True
  | y :: ys => (∀ z ∈ ys, less z y = false) ∧ Sorted ys

theorem sorted_append_singleton (l : List D) (x : D) (hs : Sorted l) (hx : ∀ z ∈ l, less x z = false) : Sorted (l ++ [x]) := by
  induction l with
  | nil => simp [Sorted]
  | cons y ys ih =>
    obtain ⟨h1, h2⟩ := hs
    refine ⟨?_, ih h2 (fun z hz => hx z (by simp [hz]))⟩
    intro z hz
    rcases List.mem_append.mp hz with h | h
    · exact h1 z h
    · simp at h; rw [h]; exact hx y (by simp)

theorem sorted_reverse_of_revSorted (l : List D) (h : RevSorted l) : Sorted l.reverse := by
  induction l with
  | nil => simp [Sorted]
  | cons y ys ih =>
    obtain ⟨h1, h2⟩ := h
    rw [List.reverse_cons]
    exact sorted_append_singleton _ _ (ih h2) (fun z hz => h1 z (by simpa using hz))

theorem sorted_sortDiags (l : List D) (hl : ∀ d ∈ l, located d = true) : Sorted (sortDiags l) :=
  sorted_reverse_of_revSorted _ (revSorted_isortRev [] l (by simp) hl trivial)

theorem located_sortDiags (l : List D) (hl : ∀ d ∈ l, located d = true) : ∀ d ∈ sortDiags l, located d = true := by
  intro d hd
  unfold sortDiags at hd
  exact (fk_isortRev (0, 0) [] l (by simp) hl).2 d (by simpa using hd)

/-! ### a sorted list is determined by its per-key subsequences -/

theorem mem_of_fk {k : Nat × Nat} {d : D} {l : List D} (h : d ∈ fk k l) : d ∈ l ∧ key d = k := by
  simp only [fk, List.mem_filter, beq_iff_eq] at h; exact h

theorem sorted_unique (A B : List D) (hA : ∀ d ∈ A, located d = true) (hB : ∀ d ∈ B, located d = true)
    (sA : Sorted A) (sB : Sorted B) (h : ∀ k, fk k A = fk k B) : A = B := by
  induction A generalizing B with
  | nil =>
    cases B with
    | nil => rfl
    | cons b bs => have := h (key b); simp [fk] at this
  | cons a as ih =>
    cases B with
    | nil => have := h (key a); simp [fk] at this
    | cons b bs =>
      have la := hA a (by simp)
      have lb := hB b (by simp)
      -- a occurs in B, b occurs in A
      have haB : a ∈ b :: bs := by
        have : a ∈ fk (key a) (a :: as) := by simp [fk]
        rw [h] at this; exact (mem_of_fk this).1
      have hbA : b ∈ a :: as := by
        have : b ∈ fk (key b) (b :: bs) := by simp [fk]
        rw [← h] at this; exact (mem_of_fk this).1
      have nab : less a b = false := by
        rcases List.mem_cons.mp haB with e | e
        · rw [e]; exact less_irrefl lb
        · exact sB.1 a e
      have nba : less b a = false := by
        rcases List.mem_cons.mp hbA with e | e
        · rw [e]; exact less_irrefl la
        · exact sA.1 b e
      have hk : key a = key b := key_eq_of_incomparable la lb nab nba
      have hh := h (key a)
      have e1 : fk (key a) (a :: as) = a :: fk (key a) as := by simp [fk]
      have e2 : fk (key a) (b :: bs) = b :: fk (key a) bs := by simp [fk, hk]
      rw [e1, e2] at hh
      have hab : a = b := (List.cons.inj hh).1
      subst hab
      congr 1
      apply ih bs (fun d hd => hA d (by simp [hd])) (fun d hd => hB d (by simp [hd])) sA.2 sB.2
      intro k
      have hk' := h k
      simp only [fk, List.filter_cons] at hk' ⊢
      split at hk'
      · exact (List.cons.inj hk').2
      · exact hk'

/-- **Arrival-order invariance**: two arrival orders of located diagnostics that agree on the relative order of the
    diagnostics of every single (file, line) key are emitted identically. -/
theorem sort_arrival_invariant (l₁ l₂ : List D) (h1 : ∀ d ∈ l₁, located d = true) (h2 : ∀ d ∈ l₂, located d = true)
    (h : ∀ k, fk k l₁ = fk k l₂) : sortDiags l₁ = sortDiags l₂ := by
  apply sorted_unique _ _ (located_sortDiags l₁ h1) (located_sortDiags l₂ h2) (sorted_sortDiags l₁ h1) (sorted_sortDiags l₂ h2)
  intro k
  rw [fk_sortDiags k l₁ h1, fk_sortDiags k l₂ h2]
  exact h k

end FerretVerif.Diag
