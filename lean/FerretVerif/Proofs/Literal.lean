import FerretVerif.Model.Literal

/-
  Proofs/Literal.lean — C10: integer literals.

  * `newNumericValue_spec` : on every string of the lexer's integer grammar (`isIntLit`) the fixed
    parser `newNumericValue` returns exactly the mathematical value `specVal`.
  * `fits_exact`           : `fitsInType` decides exactly the range predicate on that value.
  * `digitsVal_append_digit`, `digitsVal_eq_sum` : `specVal`'s magnitude is the positional sum.
  * `old_*_witness`        : the originally shipped parser (`newNumericValueOld`) disagrees with the
    spec on "0127", "0_1_0" and rejects "-0xFFFFFFFFFFFFFFFFFF".
  Core-only.
-/
namespace FerretVerif.Literal


theorem groupTail_mem {p : Char → Bool} {ds : List Char} (h : groupTail p ds = true) :
    ∀ c ∈ ds, c ≠ '_' → p c = true := by
  induction ds using groupTail.induct with
  | case1 => simp
  | case2 c rest ih => 
    simp [groupTail] at h  -- h : p c ∧ groupTail p rest
    intro x hx hne
    simp at hx
    rcases hx with rfl | rfl | hx
    · exact absurd rfl hne
    · exact h.1
    · exact ih h.2 x hx hne
  | case3 c rest hn ih =>
    rw [groupTail.eq_3 _ _ _ hn] at h
    simp at h
    intro x hx hne
    simp at hx
    rcases hx with rfl | hx
    · exact h.1
    · exact ih h.2 x hx hne

theorem isDec_hex {c : Char} (h : isDec c = true) : isHex c = true := by simp [isHex, h]
theorem isOct_hex {c : Char} (h : isOct c = true) : isHex c = true := by
  simp [isHex, isOct, isDec] at *; omega
theorem isBin_hex {c : Char} (h : isBin c = true) : isHex c = true := by
  simp [isHex, isBin, isDec] at *; omega
theorem isHex_lt {c : Char} (h : isHex c = true) : digitVal c < 16 := by
  simp [isHex, isDec] at h
  simp [digitVal, isDec]
  split
  · omega
  · split
    · omega
    · split <;> omega
theorem isDec_lt {c : Char} (h : isDec c = true) : digitVal c < 10 := by
  simp [isDec] at h
  simp [digitVal, isDec, h]
  omega
theorem isOct_lt {c : Char} (h : isOct c = true) : digitVal c < 8 := by
  simp [isOct] at h
  have : isDec c = true := by simp [isDec]; omega
  simp [digitVal, this]
  omega
theorem isBin_lt {c : Char} (h : isBin c = true) : digitVal c < 2 := by
  simp [isBin] at h
  have : isDec c = true := by simp [isDec]; omega
  simp [digitVal, this]
  omega
theorem isHex_ne {c : Char} (h : isHex c = true) : c ≠ '_' ∧ c ≠ '+' ∧ c ≠ '-' := by
  refine ⟨?_, ?_, ?_⟩ <;> (rintro rfl; revert h; decide)

/-- shape of a digit group: first char is a digit, every non-underscore after it too -/
theorem group_shape {p : Char → Bool} {ds : List Char} (h : group p ds = true) :
    ∃ c rest, ds = c :: rest ∧ c ≠ '_' ∧ p c = true ∧ ∀ x ∈ rest, x ≠ '_' → p x = true := by
  cases ds with
  | nil => simp [group] at h
  | cons c rest =>
    simp [group] at h
    exact ⟨c, rest, rfl, h.1.1, h.1.2, groupTail_mem h.2⟩

theorem clean_cons_ne {c : Char} (h : c ≠ '_') (r : List Char) : clean (c :: r) = c :: clean r := by
  simp [clean, h]

theorem clean_clean (s : List Char) : clean (clean s) = clean s := by
  simp [clean, List.filter_filter]

theorem mem_clean {x : Char} {s : List Char} : x ∈ clean s ↔ x ∈ s ∧ x ≠ '_' := by
  simp [clean]

theorem digitsVal_eq (base : Nat) (ds : List Char) :
    digitsVal base ds = (clean ds).foldl (fun acc c => acc * base + digitVal c) 0 := rfl

/-- cleaned digit group: non-empty, all digits -/
theorem group_clean {p : Char → Bool} {ds : List Char} (h : group p ds = true) :
    ∃ c r, clean ds = c :: r ∧ p c = true ∧ ∀ x ∈ r, p x = true := by
  obtain ⟨c, rest, rfl, hne, hc, hr⟩ := group_shape h
  refine ⟨c, clean rest, clean_cons_ne hne rest, hc, ?_⟩
  intro x hx
  rw [mem_clean] at hx
  exact hr x hx.1 hx.2

theorem setString_digits (base : Nat) (cs : List Char) (hne : cs ≠ [])
    (hall : ∀ x ∈ cs, digitVal x < base ∧ isHex x = true) :
    setString cs base = some ((cs.foldl (fun acc c => acc * base + digitVal c) 0 : Nat) : Int) := by
  cases cs with
  | nil => exact absurd rfl hne
  | cons c r =>
    have hc := isHex_ne (hall c (by simp)).2
    have hall' : (c :: r).all (fun c => decide (digitVal c < base)) = true := by
      simp only [List.all_eq_true, decide_eq_true_eq]
      exact fun x hx => (hall x hx).1
    unfold setString
    split
    rename_i heq
    split at heq
    · rename_i h0; injection h0 with h1 _; exact absurd h1 hc.2.1
    · rename_i h0; injection h0 with h1 _; exact absurd h1 hc.2.2
    · injection heq with h1 h2
      subst h1 h2
      simp [hall']

theorem mp_true (p1 p2 c : Char) (q : Char → Bool) (r : List Char) (hc : c = p1 ∨ c = p2)
    (hne : r ≠ []) (hall : ∀ x ∈ r, q x = true) :
    matchesPrefixed p1 p2 q ('0' :: c :: r) = true := by
  simp [matchesPrefixed, hne]
  exact ⟨hc, hall⟩

theorem mp_false_prefix (p1 p2 c : Char) (q : Char → Bool) (r : List Char) (h1 : c ≠ p1)
    (h2 : c ≠ p2) : matchesPrefixed p1 p2 q ('0' :: c :: r) = false := by
  simp [matchesPrefixed, h1, h2]

theorem mp_false_dec (p1 p2 : Char) (q : Char → Bool) (cs : List Char)
    (hall : ∀ x ∈ cs, isDec x = true) (h1 : isDec p1 = false) (h2 : isDec p2 = false) :
    matchesPrefixed p1 p2 q cs = false := by
  unfold matchesPrefixed
  split
  · rename_i c r
    have hc := hall c (by simp)
    have : c ≠ p1 := by rintro rfl; simp [hc] at h1
    have : c ≠ p2 := by rintro rfl; simp [hc] at h2
    simp [*]
  · rfl

/-- the generic "prefixed" step, given how the three regex tests come out -/
theorem setString_group {p : Char → Bool} {base : Nat} {ds : List Char}
    (hlt : ∀ c, p c = true → digitVal c < base) (hhex : ∀ c, p c = true → isHex c = true)
    (h : group p ds = true) : setString (clean ds) base = some (digitsVal base ds : Int) := by
  obtain ⟨c, r, hcl, hc, hr⟩ := group_clean h
  rw [digitsVal_eq]
  apply setString_digits
  · simp [hcl]
  · intro x hx
    have : p x = true := by
      rw [hcl] at hx
      simp at hx
      rcases hx with rfl | hx
      · exact hc
      · exact hr x hx
    exact ⟨hlt x this, hhex x this⟩

theorem group_clean_all {p : Char → Bool} {ds : List Char} (h : group p ds = true) :
    clean ds ≠ [] ∧ ∀ x ∈ clean ds, p x = true := by
  obtain ⟨c, r, hcd, hc, hr⟩ := group_clean h
  rw [hcd]
  refine ⟨by simp, ?_⟩
  intro x hx; simp at hx; rcases hx with rfl | hx
  · exact hc
  · exact hr x hx

theorem stb_hex (pc : Char) (hpc : pc = 'x' ∨ pc = 'X') (ds : List Char) (h : group isHex ds = true) :
    stringToBigInt ('0' :: pc :: ds) = some (digitsVal 16 ds : Int) := by
  have hcl : clean ('0' :: pc :: ds) = '0' :: pc :: clean ds := by
    rcases hpc with rfl | rfl <;> simp [clean]
  have ⟨hne, hall⟩ := group_clean_all h
  unfold stringToBigInt
  simp only [hcl]
  rw [mp_true 'x' 'X' pc isHex (clean ds) hpc hne hall]
  simp only [if_true, List.drop]
  exact setString_group (fun c => isHex_lt) (fun c h => h) h

theorem stb_oct (pc : Char) (hpc : pc = 'o' ∨ pc = 'O') (ds : List Char) (h : group isOct ds = true) :
    stringToBigInt ('0' :: pc :: ds) = some (digitsVal 8 ds : Int) := by
  have hcl : clean ('0' :: pc :: ds) = '0' :: pc :: clean ds := by
    rcases hpc with rfl | rfl <;> simp [clean]
  have ⟨hne, hall⟩ := group_clean_all h
  unfold stringToBigInt
  simp only [hcl]
  rw [mp_false_prefix 'x' 'X' pc isHex (clean ds) (by rcases hpc with rfl | rfl <;> decide)
    (by rcases hpc with rfl | rfl <;> decide)]
  rw [mp_true 'o' 'O' pc isOct (clean ds) hpc hne hall]
  simp only [if_true, List.drop]
  exact setString_group (fun c => isOct_lt) (fun c => isOct_hex) h

theorem stb_bin (pc : Char) (hpc : pc = 'b' ∨ pc = 'B') (ds : List Char) (h : group isBin ds = true) :
    stringToBigInt ('0' :: pc :: ds) = some (digitsVal 2 ds : Int) := by
  have hcl : clean ('0' :: pc :: ds) = '0' :: pc :: clean ds := by
    rcases hpc with rfl | rfl <;> simp [clean]
  have ⟨hne, hall⟩ := group_clean_all h
  unfold stringToBigInt
  simp only [hcl]
  rw [mp_false_prefix 'x' 'X' pc isHex (clean ds) (by rcases hpc with rfl | rfl <;> decide)
    (by rcases hpc with rfl | rfl <;> decide)]
  rw [mp_false_prefix 'o' 'O' pc isOct (clean ds) (by rcases hpc with rfl | rfl <;> decide)
    (by rcases hpc with rfl | rfl <;> decide)]
  rw [mp_true 'b' 'B' pc isBin (clean ds) hpc hne hall]
  simp only [if_true, List.drop]
  exact setString_group (fun c => isBin_lt) (fun c => isBin_hex) h

theorem stb_dec (ds : List Char) (h : group isDec ds = true) :
    stringToBigInt ds = some (digitsVal 10 ds : Int) := by
  have ⟨_, hall⟩ := group_clean_all h
  unfold stringToBigInt
  simp only []
  rw [mp_false_dec 'x' 'X' isHex (clean ds) hall (by decide) (by decide)]
  rw [mp_false_dec 'o' 'O' isOct (clean ds) hall (by decide) (by decide)]
  rw [mp_false_dec 'b' 'B' isBin (clean ds) hall (by decide) (by decide)]
  simp only [Bool.false_eq_true, if_false]
  exact setString_group (fun c => isDec_lt) (fun c => isDec_hex) h

/-- magnitude parser is correct on every sign-free literal body -/
theorem stringToBigInt_body (body : List Char)
    (h : group (isDigOf (splitBody body).1) (splitBody body).2 = true) :
    stringToBigInt body = some (digitsVal (splitBody body).1 (splitBody body).2 : Int) := by
  unfold splitBody at h ⊢
  split at h
  · exact stb_hex 'x' (.inl rfl) _ h
  · exact stb_hex 'X' (.inr rfl) _ h
  · exact stb_oct 'o' (.inl rfl) _ h
  · exact stb_oct 'O' (.inr rfl) _ h
  · exact stb_bin 'b' (.inl rfl) _ h
  · exact stb_bin 'B' (.inr rfl) _ h
  · exact stb_dec _ h

/-- a literal body never starts (after cleaning) with '-' -/
theorem body_head (body : List Char)
    (h : group (isDigOf (splitBody body).1) (splitBody body).2 = true) (r : List Char) :
    clean body ≠ '-' :: r := by
  unfold splitBody at h
  split at h
  all_goals try (simp [clean]; done)
  obtain ⟨c, rest, hcd, hc, _⟩ := group_clean h
  rw [hcd]
  intro heq
  injection heq with h1 _
  subst h1
  revert hc; simp only []; decide

theorem stringToBigInt_clean (s : List Char) : stringToBigInt (clean s) = stringToBigInt s := by
  unfold stringToBigInt
  simp only [clean_clean]

theorem isIntLit_eq (s : List Char) : isIntLit s =
    group (isDigOf (splitBody (splitSign s).2).1) (splitBody (splitSign s).2).2 := rfl

theorem specVal_eq (s : List Char) : specVal s =
    if (splitSign s).1 then -(digitsVal (splitBody (splitSign s).2).1 (splitBody (splitSign s).2).2 : Int)
    else digitsVal (splitBody (splitSign s).2).1 (splitBody (splitSign s).2).2 := rfl

theorem splitSign_cases (s : List Char) :
    (∃ body, s = '-' :: body ∧ splitSign s = (true, body)) ∨
    (splitSign s = (false, s) ∧ ∀ r, s ≠ '-' :: r) := by
  unfold splitSign
  split
  · exact .inl ⟨_, rfl, rfl⟩
  · rename_i hn
    exact .inr ⟨rfl, fun r hr => hn r hr⟩

theorem newNumericValue_spec (s : List Char) (h : isIntLit s = true) :
    newNumericValue s = some (specVal s) := by
  rw [isIntLit_eq] at h
  rw [specVal_eq]
  rcases splitSign_cases s with ⟨body, rfl, hs⟩ | ⟨hs, _⟩
  · rw [hs] at h ⊢
    simp only [↓reduceIte] at h ⊢
    have hcl : clean ('-' :: body) = '-' :: clean body := by simp [clean]
    unfold newNumericValue
    simp only [hcl, stringToBigInt_clean, stringToBigInt_body body h]
    simp
  · rw [hs] at h ⊢
    simp only [Bool.false_eq_true, ↓reduceIte] at h ⊢
    unfold newNumericValue
    simp only []
    split
    · rename_i r heq
      exact absurd heq (body_head _ h r)
    · simp only [stringToBigInt_clean, stringToBigInt_body _ h]

theorem fits_exact (s : List Char) (bits : Nat) (signed : Bool) (h : isIntLit s = true) :
    fitsInType s bits signed = true ↔
      (if signed then -(2 ^ (bits - 1) : Int) ≤ specVal s ∧ specVal s ≤ 2 ^ (bits - 1) - 1
       else 0 ≤ specVal s ∧ specVal s ≤ 2 ^ bits - 1) := by
  unfold fitsInType
  rw [newNumericValue_spec s h]
  simp only [fitsBits]
  cases signed <;> simp

theorem digitsVal_append_digit (base : Nat) (ds : List Char) (c : Char) (hc : c ≠ '_') :
    digitsVal base (ds ++ [c]) = digitsVal base ds * base + digitVal c := by
  simp [digitsVal, List.filter_append, hc, List.foldl_append]

/-- positional value Σ dᵢ·base^(n-1-i), most significant digit first -/
def posSum (base : Nat) : List Char → Nat
  | [] => 0
  | c :: r => digitVal c * base ^ r.length + posSum base r

theorem foldl_eq_posSum (base : Nat) (cs : List Char) (acc : Nat) :
    cs.foldl (fun acc c => acc * base + digitVal c) acc = acc * base ^ cs.length + posSum base cs := by
  induction cs generalizing acc with
  | nil => simp [posSum]
  | cons c r ih =>
    simp only [List.foldl_cons, List.length_cons, posSum]
    rw [ih, Nat.pow_succ, Nat.add_mul, Nat.mul_assoc, Nat.mul_comm base, Nat.add_assoc]

theorem digitsVal_eq_posSum (base : Nat) (ds : List Char) :
    digitsVal base ds = posSum base (clean ds) := by
  rw [digitsVal_eq, foldl_eq_posSum]; simp

theorem posSum_eq_range (base : Nat) (cs : List Char) :
    posSum base cs = ((List.range cs.length).map
      (fun i => digitVal (cs.getD i '0') * base ^ (cs.length - 1 - i))).sum := by
  induction cs with
  | nil => simp [posSum]
  | cons c r ih =>
    rw [List.length_cons, List.range_succ_eq_map, List.map_cons, List.sum_cons, List.map_map, posSum, ih]
    have hm : List.map ((fun i => digitVal ((c :: r).getD i '0') * base ^ (r.length + 1 - 1 - i)) ∘ Nat.succ)
          (List.range r.length) =
        List.map (fun i => digitVal (r.getD i '0') * base ^ (r.length - 1 - i)) (List.range r.length) := by
      apply List.map_congr_left
      intro i _
      have : r.length + 1 - 1 - i.succ = r.length - 1 - i := by omega
      simp only [Function.comp, List.getD_cons_succ, this]
    rw [hm]
    simp

/-- the literal's magnitude is the explicit positional sum Σ_{i<n} dᵢ·base^(n-1-i)
    over the non-underscore characters -/
theorem digitsVal_eq_sum (base : Nat) (ds : List Char) :
    digitsVal base ds = ((List.range (clean ds).length).map
      (fun i => digitVal ((clean ds).getD i '0') * base ^ ((clean ds).length - 1 - i))).sum := by
  rw [digitsVal_eq_posSum, posSum_eq_range]

theorem old_leading_zero_witness :
    newNumericValueOld ['0','1','2','7'] = some 87 ∧ specVal ['0','1','2','7'] = 127 ∧
    isIntLit ['0','1','2','7'] = true := by decide

theorem old_separator_witness :
    newNumericValueOld ['0','_','1','_','0'] = some 8 ∧ specVal ['0','_','1','_','0'] = 10 ∧
    isIntLit ['0','_','1','_','0'] = true := by decide

theorem old_negative_hex_witness :
    newNumericValueOld "-0xFFFFFFFFFFFFFFFFFF".toList = none ∧
    isIntLit "-0xFFFFFFFFFFFFFFFFFF".toList = true ∧
    newNumericValue "-0xFFFFFFFFFFFFFFFFFF".toList = some (-4722366482869645213695) ∧
    specVal "-0xFFFFFFFFFFFFFFFFFF".toList = -4722366482869645213695 := by decide
end FerretVerif.Literal
