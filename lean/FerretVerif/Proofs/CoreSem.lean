/-
  Proofs/CoreSem.lean — the reference semantics `Core/Eval.lean` says what the language definition says:
  two's-complement wrapping, truncating division, comparison as the mathematical order, bitwise operators as
  the Nat bit operations, by-value composites with write-through places, left-to-right evaluation.  Core-only.
-/
import FerretVerif.Core.Eval

namespace FerretVerif.Core

/-! ## 1. wrapping -/

theorem pow2_pos (bits : Nat) : (0 : Int) < ((2 ^ bits : Nat) : Int) := by
  have := Nat.pow_pos (n := bits) (show 0 < 2 by decide)
  omega

theorem pow2_half {bits : Nat} (h : 1 ≤ bits) :
    ((2 ^ bits : Nat) : Int) = 2 * ((2 ^ (bits - 1) : Nat) : Int) := by
  obtain ⟨k, rfl⟩ : ∃ k, bits = k + 1 := ⟨bits - 1, by omega⟩
  simp [Nat.pow_succ]
  omega

theorem wrapInt_unsigned (bits : Nat) (v : Int) :
    wrapInt bits false v = v % ((2 ^ bits : Nat) : Int) := by
  simp [wrapInt]

theorem wrapInt_signed (bits : Nat) (v : Int) :
    wrapInt bits true v =
      if ((2 ^ (bits - 1) : Nat) : Int) ≤ v % ((2 ^ bits : Nat) : Int)
      then v % ((2 ^ bits : Nat) : Int) - ((2 ^ bits : Nat) : Int)
      else v % ((2 ^ bits : Nat) : Int) := by
  simp [wrapInt]

theorem wrapInt_unsigned_range (bits : Nat) (v : Int) :
    0 ≤ wrapInt bits false v ∧ wrapInt bits false v < ((2 ^ bits : Nat) : Int) := by
  rw [wrapInt_unsigned]
  have hm := pow2_pos bits
  exact ⟨Int.emod_nonneg _ (by omega), Int.emod_lt_of_pos _ hm⟩

theorem wrapInt_signed_range {bits : Nat} (h : 1 ≤ bits) (v : Int) :
    -((2 ^ (bits - 1) : Nat) : Int) ≤ wrapInt bits true v ∧
      wrapInt bits true v < ((2 ^ (bits - 1) : Nat) : Int) := by
  rw [wrapInt_signed]
  have hm := pow2_pos bits
  have hh := pow2_half h
  have h0 := Int.emod_nonneg v (show ((2 ^ bits : Nat) : Int) ≠ 0 by omega)
  have h1 := Int.emod_lt_of_pos v hm
  generalize v % ((2 ^ bits : Nat) : Int) = r at *
  generalize ((2 ^ bits : Nat) : Int) = m at *
  generalize ((2 ^ (bits - 1) : Nat) : Int) = hf at *
  split <;> omega

/-- `wrapInt` changes a value by a multiple of `2^bits`. -/
theorem wrapInt_congr_ex (bits : Nat) (s : Bool) (v : Int) :
    ∃ k : Int, wrapInt bits s v = v + k * ((2 ^ bits : Nat) : Int) := by
  have hd := Int.emod_add_mul_ediv v ((2 ^ bits : Nat) : Int)
  unfold wrapInt
  simp only []
  generalize ((2 ^ bits : Nat) : Int) = m at *
  split
  · refine ⟨-(v / m) - 1, ?_⟩
    rw [Int.sub_mul, Int.neg_mul, Int.mul_comm (v / m) m]
    omega
  · refine ⟨-(v / m), ?_⟩
    rw [Int.neg_mul, Int.mul_comm (v / m) m]
    omega

theorem wrapInt_congr (bits : Nat) (s : Bool) (v : Int) :
    (wrapInt bits s v - v) % ((2 ^ bits : Nat) : Int) = 0 := by
  obtain ⟨k, hk⟩ := wrapInt_congr_ex bits s v
  have e : v + k * ((2 ^ bits : Nat) : Int) - v = k * ((2 ^ bits : Nat) : Int) := by
    generalize k * ((2 ^ bits : Nat) : Int) = t
    omega
  rw [hk, e]
  exact Int.mul_emod_left k _

/-- the value range of the `bits`-wide integer type of signedness `s` -/
def InRange (bits : Nat) (s : Bool) (r : Int) : Prop :=
  if s then -((2 ^ (bits - 1) : Nat) : Int) ≤ r ∧ r < ((2 ^ (bits - 1) : Nat) : Int)
  else 0 ≤ r ∧ r < ((2 ^ bits : Nat) : Int)

instance (bits : Nat) (s : Bool) (r : Int) : Decidable (InRange bits s r) := by
  unfold InRange; infer_instance

theorem wrapInt_inRange {bits : Nat} (h : 1 ≤ bits) (s : Bool) (v : Int) :
    InRange bits s (wrapInt bits s v) := by
  cases s
  · exact wrapInt_unsigned_range bits v
  · exact wrapInt_signed_range h v

/-- two integers congruent modulo `m` and less than `m` apart are equal -/
theorem eq_of_emod_sub_eq_zero {m x y : Int} (_hm : 0 < m) (h : (x - y) % m = 0)
    (h1 : x - y < m) (h2 : y - x < m) : x = y := by
  have hd : m ∣ x - y := Int.dvd_of_emod_eq_zero h
  by_cases hxy : 0 ≤ x - y
  · have := Int.emod_eq_of_lt hxy h1
    omega
  · have hd' : m ∣ y - x := by
      have := Int.dvd_neg.mpr hd
      rwa [Int.neg_sub] at this
    have h0 := Int.emod_eq_zero_of_dvd hd'
    have := Int.emod_eq_of_lt (a := y - x) (b := m) (by omega) h2
    omega

/-- `wrapInt bits s v` is the unique representative of `v` modulo `2^bits` in the range of the type. -/
theorem wrapInt_unique {bits : Nat} (h : 1 ≤ bits) (s : Bool) (v r : Int)
    (hr : InRange bits s r) (hc : (r - v) % ((2 ^ bits : Nat) : Int) = 0) :
    r = wrapInt bits s v := by
  have hm := pow2_pos bits
  have hh := pow2_half h
  have hw := wrapInt_inRange h s v
  have hcw := wrapInt_congr bits s v
  have hrw : (r - wrapInt bits s v) % ((2 ^ bits : Nat) : Int) = 0 := by
    have : r - wrapInt bits s v = (r - v) - (wrapInt bits s v - v) := by omega
    rw [this, Int.sub_emod, hc, hcw]
    simp
  generalize wrapInt bits s v = w at *
  unfold InRange at hr hw
  generalize ((2 ^ bits : Nat) : Int) = m at *
  generalize ((2 ^ (bits - 1) : Nat) : Int) = hf at *
  cases s
  · simp at hr hw
    exact eq_of_emod_sub_eq_zero hm hrw (by omega) (by omega)
  · simp at hr hw
    exact eq_of_emod_sub_eq_zero hm hrw (by omega) (by omega)

/-- a value already in the range of the type is unchanged -/
theorem wrapInt_id_of_in_range {bits : Nat} (h : 1 ≤ bits) (s : Bool) (v : Int)
    (hv : InRange bits s v) : wrapInt bits s v = v :=
  (wrapInt_unique h s v v hv (by simp)).symm

theorem wrapInt_id_unsigned {bits : Nat} (v : Int) (h0 : 0 ≤ v) (h1 : v < ((2 ^ bits : Nat) : Int)) :
    wrapInt bits false v = v := by
  rw [wrapInt_unsigned]; exact Int.emod_eq_of_lt h0 h1

theorem wrapInt_id_signed {bits : Nat} (h : 1 ≤ bits) (v : Int)
    (h0 : -((2 ^ (bits - 1) : Nat) : Int) ≤ v) (h1 : v < ((2 ^ (bits - 1) : Nat) : Int)) :
    wrapInt bits true v = v :=
  wrapInt_id_of_in_range h true v (by unfold InRange; rw [if_pos rfl]; exact ⟨h0, h1⟩)

theorem wrapInt_idem {bits : Nat} (h : 1 ≤ bits) (s : Bool) (v : Int) :
    wrapInt bits s (wrapInt bits s v) = wrapInt bits s v :=
  wrapInt_id_of_in_range h s _ (wrapInt_inRange h s v)

/-- wrapping is a ring-homomorphism-compatible reduction: congruent inputs give equal outputs -/
theorem wrapInt_eq_of_congr {bits : Nat} (h : 1 ≤ bits) (s : Bool) (v w : Int)
    (hc : (v - w) % ((2 ^ bits : Nat) : Int) = 0) : wrapInt bits s v = wrapInt bits s w := by
  apply wrapInt_unique h s w _ (wrapInt_inRange h s v)
  have : wrapInt bits s v - w = (wrapInt bits s v - v) + (v - w) := by omega
  rw [this, Int.add_emod, wrapInt_congr, hc]
  simp

example : InRange 8 false 255 := by decide
example : InRange 8 true (-128) := by decide
example : ¬ InRange 8 true 128 := by decide
example : wrapInt 8 true 200 = -56 :=
  (wrapInt_unique (by decide) true 200 (-56) (by decide) (by decide)).symm
example : wrapInt 16 false 65535 = 65535 := wrapInt_id_of_in_range (by decide) false 65535 (by decide)
/-- why `1 ≤ bits` is needed for uniqueness at a signed type: at width 0 the nominal range `[-1, 1)` has two
    members congruent modulo `2^0 = 1` -/
example : InRange 0 true (-1) ∧ ((-1 : Int) - 0) % ((2 ^ 0 : Nat) : Int) = 0 ∧ wrapInt 0 true 0 ≠ -1 := by decide

/-! ## 2. operators -/

theorem add_wraps (bits : Nat) (s : Bool) (a b : Int) :
    evalIntBin .add bits s a b = pure (.int (wrapInt bits s (a + b))) := rfl
theorem sub_wraps (bits : Nat) (s : Bool) (a b : Int) :
    evalIntBin .sub bits s a b = pure (.int (wrapInt bits s (a - b))) := rfl
theorem mul_wraps (bits : Nat) (s : Bool) (a b : Int) :
    evalIntBin .mul bits s a b = pure (.int (wrapInt bits s (a * b))) := rfl

theorem div_truncates (bits : Nat) (s : Bool) (a b : Int) (hb : b ≠ 0) :
    evalIntBin .div bits s a b = pure (.int (wrapInt bits s (Int.tdiv a b))) := by
  simp [evalIntBin, tdiv, hb]
theorem rem_truncates (bits : Nat) (s : Bool) (a b : Int) (hb : b ≠ 0) :
    evalIntBin .rem bits s a b = pure (.int (wrapInt bits s (Int.tmod a b))) := by
  simp [evalIntBin, trem, hb]

theorem div_by_zero_panics (bits : Nat) (s : Bool) (a : Int) :
    evalIntBin .div bits s a 0 = panic "division by zero" := rfl
theorem rem_by_zero_panics (bits : Nat) (s : Bool) (a : Int) :
    evalIntBin .rem bits s a 0 = panic "division by zero" := rfl

/-- quotient and remainder reconstruct the dividend -/
theorem tdiv_trem_spec (a b : Int) : Int.tdiv a b * b + Int.tmod a b = a :=
  Int.tdiv_mul_add_tmod a b

/-- the remainder is smaller in magnitude than the divisor -/
theorem trem_abs_lt (a b : Int) (hb : b ≠ 0) : (Int.tmod a b).natAbs < b.natAbs := by
  rw [Int.natAbs_tmod]
  exact Nat.mod_lt _ (by omega)

theorem trem_abs_lt' (a b : Int) (hb : b ≠ 0) :
    -(b.natAbs : Int) < Int.tmod a b ∧ Int.tmod a b < (b.natAbs : Int) := by
  have := trem_abs_lt a b hb
  omega

/-- hence the quotient is rounded toward zero: `|q * b| ≤ |a|` -/
theorem tdiv_toward_zero (a b : Int) : (Int.tdiv a b * b).natAbs ≤ a.natAbs := by
  have h := Int.tdiv_mul_add_tmod a b
  have h1 : 0 ≤ a → 0 ≤ Int.tmod a b := Int.tmod_nonneg b
  have h2 : a ≤ 0 → Int.tmod a b ≤ 0 := by
    intro ha
    have := Int.tmod_nonneg (a := -a) b (by omega)
    rw [Int.neg_tmod] at this
    omega
  have h3 := Int.natAbs_tmod a b
  have h4 : a.natAbs % b.natAbs ≤ a.natAbs := Nat.mod_le _ _
  generalize Int.tdiv a b * b = q at *
  generalize Int.tmod a b = r at *
  omega

theorem rem_sign_of_dividend (a b : Int) :
    (0 ≤ a → 0 ≤ Int.tmod a b) ∧ (a ≤ 0 → Int.tmod a b ≤ 0) := by
  refine ⟨Int.tmod_nonneg b, ?_⟩
  intro ha
  have := Int.tmod_nonneg (a := -a) b (by omega)
  rw [Int.neg_tmod] at this
  omega

theorem cmp_is_order (bits : Nat) (s : Bool) (a b : Int) :
    evalIntBin .lt bits s a b = pure (.bool (decide (a < b))) ∧
    evalIntBin .le bits s a b = pure (.bool (decide (a ≤ b))) ∧
    evalIntBin .gt bits s a b = pure (.bool (decide (b < a))) ∧
    evalIntBin .ge bits s a b = pure (.bool (decide (b ≤ a))) ∧
    evalIntBin .eq bits s a b = pure (.bool (decide (a = b))) ∧
    evalIntBin .ne bits s a b = pure (.bool (decide (a ≠ b))) := by
  refine ⟨rfl, rfl, rfl, rfl, rfl, ?_⟩
  show pure (Val.bool (a != b)) = _
  have : (a != b) = decide (a ≠ b) := by by_cases h : a = b <;> simp [h]
  rw [this]

theorem signed_overflow_example : wrapInt 32 true (2147483647 + 1) = -2147483648 := by decide
theorem unsigned_wrap_example : wrapInt 8 false (200 + 100) = 44 := by decide
theorem signed_wrap_example : wrapInt 8 true 300 = 44 := by decide
theorem signed_wrap_example' : wrapInt 8 true 200 = -56 := by decide
theorem min_div_minus_one : wrapInt 32 true (Int.tdiv (-2147483648) (-1)) = -2147483648 := by decide
theorem trunc_div_example : Int.tdiv (-7) 2 = -3 ∧ Int.tmod (-7) 2 = -1 ∧ Int.tdiv 7 (-2) = -3 ∧ Int.tmod 7 (-2) = 1 := by
  decide

/-! ## 3. bitwise operators -/

/-- the number below `2^k` whose bit `i` is `g i` -/
def bitsSum (g : Nat → Bool) : Nat → Nat
  | 0 => 0
  | k + 1 => if g k then bitsSum g k + 2 ^ k else bitsSum g k

theorem foldl_eq_bitsSum (g : Nat → Bool) (k : Nat) :
    (List.range k).foldl (fun (acc : Int) i => if g i = true then acc + 2 ^ i else acc) 0
      = ((bitsSum g k : Nat) : Int) := by
  induction k with
  | zero => rfl
  | succ k ih =>
    rw [List.range_succ, List.foldl_append, ih]
    simp only [List.foldl_cons, List.foldl_nil, bitsSum]
    split <;> simp

theorem bitsSum_lt (g : Nat → Bool) (k : Nat) : bitsSum g k < 2 ^ k := by
  induction k with
  | zero => simp [bitsSum]
  | succ k ih =>
    simp only [bitsSum, Nat.pow_succ]
    split <;> omega

theorem testBit_bitsSum (g : Nat → Bool) (k i : Nat) :
    (bitsSum g k).testBit i = (decide (i < k) && g i) := by
  induction k with
  | zero => simp [bitsSum]
  | succ k ih =>
    have hlt := bitsSum_lt g k
    simp only [bitsSum]
    rcases Nat.lt_trichotomy i k with h | h | h
    · have e : decide (i < k + 1) = true := by simp; omega
      have e' : decide (i < k) = true := by simp; omega
      split
      · rw [Nat.add_comm, Nat.testBit_two_pow_add_gt h, ih, e, e']
      · rw [ih, e, e']
    · subst h
      have e : decide (i < i + 1) = true := by simp
      have hf : (bitsSum g i).testBit i = false := Nat.testBit_lt_two_pow hlt
      split
      · rename_i hg
        rw [Nat.add_comm, Nat.testBit_two_pow_add_eq, hf, e, hg]; rfl
      · rename_i hg
        rw [hf, e]; simp [hg]
    · have e : decide (i < k + 1) = false := by simp; omega
      rw [e, Bool.false_and]
      apply Nat.testBit_lt_two_pow
      have : 2 ^ (k + 1) ≤ 2 ^ i := Nat.pow_le_pow_right (by decide) h
      rw [Nat.pow_succ] at this
      split <;> omega

/-- the unsigned bit pattern of `a` at width `bits` -/
def upat (bits : Nat) (a : Int) : Nat := (a % ((2 ^ bits : Nat) : Int)).toNat

theorem upat_lt (bits : Nat) (a : Int) : upat bits a < 2 ^ bits := by
  unfold upat
  have hpos : 0 < 2 ^ bits := Nat.pow_pos (by decide)
  have h0 := Int.emod_nonneg a (show ((2 ^ bits : Nat) : Int) ≠ 0 by omega)
  have h1 := Int.emod_lt_of_pos a (show (0 : Int) < ((2 ^ bits : Nat) : Int) by omega)
  generalize 2 ^ bits = M at *
  omega

theorem upat_of_in_range {bits : Nat} {a : Int} (h0 : 0 ≤ a) (h1 : a < ((2 ^ bits : Nat) : Int)) :
    upat bits a = a.toNat := by
  unfold upat; rw [Int.emod_eq_of_lt h0 h1]

theorem bitwise_eq_bitsSum (f : Bool → Bool → Bool) (bits : Nat) (a b : Int) :
    bitwise f bits a b
      = ((bitsSum (fun i => f ((upat bits a).testBit i) ((upat bits b).testBit i)) bits : Nat) : Int) := by
  unfold bitwise upat
  exact foldl_eq_bitsSum _ bits

/-- the result is a `bits`-wide unsigned pattern -/
theorem bitwise_range (f : Bool → Bool → Bool) (bits : Nat) (a b : Int) :
    0 ≤ bitwise f bits a b ∧ bitwise f bits a b < ((2 ^ bits : Nat) : Int) := by
  rw [bitwise_eq_bitsSum]
  have := bitsSum_lt (fun i => f ((upat bits a).testBit i) ((upat bits b).testBit i)) bits
  omega

/-- bit `i` of the result is `f` of bit `i` of the operands' patterns -/
theorem bitwise_testBit (f : Bool → Bool → Bool) (hf : f false false = false) (bits : Nat) (a b : Int)
    (i : Nat) :
    (bitwise f bits a b).toNat.testBit i = f ((upat bits a).testBit i) ((upat bits b).testBit i) := by
  rw [bitwise_eq_bitsSum, Int.toNat_natCast, testBit_bitsSum]
  by_cases h : i < bits
  · simp [h]
  · have hle : 2 ^ bits ≤ 2 ^ i := Nat.pow_le_pow_right (by decide) (by omega)
    have ha := Nat.testBit_lt_two_pow (Nat.lt_of_lt_of_le (upat_lt bits a) hle)
    have hb := Nat.testBit_lt_two_pow (Nat.lt_of_lt_of_le (upat_lt bits b) hle)
    simp [h, ha, hb, hf]

theorem bitwise_eq_of_testBit (f : Bool → Bool → Bool) (hf : f false false = false) (bits : Nat) (a b : Int)
    (n : Nat) (hn : ∀ i, n.testBit i = f ((upat bits a).testBit i) ((upat bits b).testBit i)) :
    bitwise f bits a b = (n : Int) := by
  have h0 := (bitwise_range f bits a b).1
  have : (bitwise f bits a b).toNat = n :=
    Nat.eq_of_testBit_eq fun i => by rw [bitwise_testBit f hf, hn]
  omega

theorem bitwise_and_pat (bits : Nat) (a b : Int) :
    bitwise (· && ·) bits a b = ((upat bits a &&& upat bits b : Nat) : Int) :=
  bitwise_eq_of_testBit _ rfl bits a b _ fun _ => Nat.testBit_and ..
theorem bitwise_or_pat (bits : Nat) (a b : Int) :
    bitwise (· || ·) bits a b = ((upat bits a ||| upat bits b : Nat) : Int) :=
  bitwise_eq_of_testBit _ rfl bits a b _ fun _ => Nat.testBit_or ..
theorem bitwise_xor_pat (bits : Nat) (a b : Int) :
    bitwise (fun x y => x != y) bits a b = ((upat bits a ^^^ upat bits b : Nat) : Int) :=
  bitwise_eq_of_testBit _ rfl bits a b _ fun _ => by rw [Nat.testBit_xor]

/-- for operands already in the unsigned range, `bitwise` is the Nat bit operation -/
theorem bitwise_and {bits : Nat} {a b : Int} (ha0 : 0 ≤ a) (ha : a < ((2 ^ bits : Nat) : Int))
    (hb0 : 0 ≤ b) (hb : b < ((2 ^ bits : Nat) : Int)) :
    bitwise (· && ·) bits a b = ((a.toNat &&& b.toNat : Nat) : Int) := by
  rw [bitwise_and_pat, upat_of_in_range ha0 ha, upat_of_in_range hb0 hb]
theorem bitwise_or {bits : Nat} {a b : Int} (ha0 : 0 ≤ a) (ha : a < ((2 ^ bits : Nat) : Int))
    (hb0 : 0 ≤ b) (hb : b < ((2 ^ bits : Nat) : Int)) :
    bitwise (· || ·) bits a b = ((a.toNat ||| b.toNat : Nat) : Int) := by
  rw [bitwise_or_pat, upat_of_in_range ha0 ha, upat_of_in_range hb0 hb]
theorem bitwise_xor {bits : Nat} {a b : Int} (ha0 : 0 ≤ a) (ha : a < ((2 ^ bits : Nat) : Int))
    (hb0 : 0 ≤ b) (hb : b < ((2 ^ bits : Nat) : Int)) :
    bitwise (fun x y => x != y) bits a b = ((a.toNat ^^^ b.toNat : Nat) : Int) := by
  rw [bitwise_xor_pat, upat_of_in_range ha0 ha, upat_of_in_range hb0 hb]

example : bitwise (· && ·) 8 12 10 = 8 := by decide
example : bitwise (· || ·) 8 12 10 = 14 := by decide
example : bitwise (fun x y => x != y) 8 12 10 = 6 := by decide
/-- a signed operand is taken by its two's-complement pattern: `-1 & 0x0f = 0x0f` at 8 bits -/
example : bitwise (· && ·) 8 (-1) 15 = 15 := by decide

/-- at an unsigned type the bitwise operators of the reference semantics are exactly the Nat operations
    on the operands' patterns (no further wrapping happens) -/
theorem band_unsigned (bits : Nat) (a b : Int) :
    evalIntBin .band bits false a b = pure (.int ((upat bits a &&& upat bits b : Nat) : Int)) := by
  have h := bitwise_range (· && ·) bits a b
  show pure (Val.int (wrapInt bits false (bitwise (· && ·) bits a b))) = _
  rw [wrapInt_id_unsigned _ h.1 h.2, bitwise_and_pat]
theorem bor_unsigned (bits : Nat) (a b : Int) :
    evalIntBin .bor bits false a b = pure (.int ((upat bits a ||| upat bits b : Nat) : Int)) := by
  have h := bitwise_range (· || ·) bits a b
  show pure (Val.int (wrapInt bits false (bitwise (· || ·) bits a b))) = _
  rw [wrapInt_id_unsigned _ h.1 h.2, bitwise_or_pat]
theorem bxor_unsigned (bits : Nat) (a b : Int) :
    evalIntBin .bxor bits false a b = pure (.int ((upat bits a ^^^ upat bits b : Nat) : Int)) := by
  have h := bitwise_range (fun x y => x != y) bits a b
  show pure (Val.int (wrapInt bits false (bitwise (fun x y => x != y) bits a b))) = _
  rw [wrapInt_id_unsigned _ h.1 h.2, bitwise_xor_pat]
/-- at a signed type the result is the two's-complement reading of the same pattern -/
theorem band_signed (bits : Nat) (a b : Int) :
    evalIntBin .band bits true a b
      = pure (.int (wrapInt bits true ((upat bits a &&& upat bits b : Nat) : Int))) := by
  show pure (Val.int (wrapInt bits true (bitwise (· && ·) bits a b))) = _
  rw [bitwise_and_pat]
example : wrapInt 8 true (bitwise (· && ·) 8 (-1) (-16)) = -16 := by decide

/-! ## 4. store laws: by-value composites, write-through places -/


/-- embed a pure outcome in the interpreter monad (no state change) -/
def ofExcept {α : Type} (e : Except Abort α) : M α := ExceptT.mk (pure e)

@[simp] theorem ofExcept_ok {α : Type} (a : α) : ofExcept (.ok a) = (pure a : M α) := rfl
@[simp] theorem ofExcept_error {α : Type} (x : Abort) : (ofExcept (.error x) : M α) = throw x := rfl
theorem ofExcept_run {α : Type} (e : Except Abort α) (s : St) : (ofExcept e).run s = (e, s) := rfl
theorem ofExcept_bind {α β : Type} (e : Except Abort α) (f : α → M β) :
    ofExcept e >>= f = match e with | .ok a => f a | .error x => throw x := by
  cases e <;> rfl
theorem ofExcept_map {α β : Type} (e : Except Abort α) (f : α → β) :
    f <$> ofExcept e = ofExcept (Except.map f e) := by
  cases e <;> rfl
theorem ofExcept_inj {α : Type} {e e' : Except Abort α} (h : ofExcept e = ofExcept e') : e = e' := by
  have := congrArg (fun m : M α => (m.run {}).1) h
  simpa [ofExcept_run] using this

def getPathP : Val → List Seg → Except Abort Val
  | v, [] => .ok v
  | .struct _ fs, .fld f :: rest =>
    match fs.find? (·.1 == f) with
    | some (_, v) => getPathP v rest
    | none => .error (.stuck s!"no field {f}")
  | .arr es, .idx i :: rest =>
    match es[i]? with
    | some v => getPathP v rest
    | none => .error (.panic "index out of bounds")
  | .opt (some v), segs => getPathP v segs
  | _, _ => .error (.stuck "bad path")

def setPathP : Val → List Seg → Val → Except Abort Val
  | _, [], nv => .ok nv
  | .struct n fs, .fld f :: rest, nv =>
    match fs.find? (·.1 == f) with
    | some (_, v) =>
      (setPathP v rest nv).map fun v' => .struct n (fs.map fun (g, x) => if g == f then (g, v') else (g, x))
    | none => .error (.stuck s!"no field {f}")
  | .arr es, .idx i :: rest, nv =>
    match es[i]? with
    | some v =>
      (setPathP v rest nv).map fun v' => .arr (es.set i v')
    | none => .error (.panic "index out of bounds")
  | _, _, _ => .error (.stuck "bad path (set)")

theorem getPath_eq (v : Val) (p : List Seg) : getPath v p = ofExcept (getPathP v p) := by
  fun_induction getPath v p <;> simp [getPathP, stuck, panic, *]

theorem setPath_eq (v : Val) (p : List Seg) (nv : Val) : setPath v p nv = ofExcept (setPathP v p nv) := by
  fun_induction setPath v p nv <;> simp [setPathP, stuck, panic, ofExcept_map, *]

theorem find_map_same (fs : List (String × Val)) (f g : String) (v v' : Val)
    (h : fs.find? (·.1 == f) = some (g, v)) :
    (fs.map fun (g, x) => if g == f then (g, v') else (g, x)).find? (·.1 == f) = some (g, v') := by
  induction fs with
  | nil => simp at h
  | cons hd tl ih =>
    obtain ⟨g0, x0⟩ := hd
    simp only [List.map_cons, List.find?_cons] at h ⊢
    cases hb : g0 == f with
    | true =>
      simp only [hb] at h
      simp only [if_true, hb]
      cases h; rfl
    | false =>
      simp only [hb] at h
      simp only [Bool.false_eq_true, if_false, hb]
      exact ih h

theorem find_map_other (fs : List (String × Val)) (f f' : String) (v' : Val) (hne : f' ≠ f) :
    (fs.map fun (g, x) => if g == f then (g, v') else (g, x)).find? (·.1 == f') = fs.find? (·.1 == f') := by
  induction fs with
  | nil => rfl
  | cons hd tl ih =>
    obtain ⟨g0, x0⟩ := hd
    simp only [List.map_cons, List.find?_cons]
    cases hb' : g0 == f' with
    | true =>
      have : (g0 == f) = false := by
        have : g0 = f' := by simpa using hb'
        subst this; simpa using hne
      simp only [this, Bool.false_eq_true, if_false, hb']
    | false =>
      cases hb : g0 == f with
      | true => simp only [if_true, hb']; exact ih
      | false => simp only [Bool.false_eq_true, if_false, hb']; exact ih

theorem getPathP_setPathP_same (v : Val) (p : List Seg) (nv v' : Val)
    (h : setPathP v p nv = .ok v') : getPathP v' p = .ok nv := by
  fun_induction setPathP v p nv generalizing v' with
  | case1 _ nv =>
    cases h; simp [getPathP]
  | case2 n fs f rest nv g v hf ih =>
    cases hs : setPathP v rest nv with
    | error e => simp [hs, Except.map] at h
    | ok w =>
      simp only [hs, Except.map] at h
      cases h
      simp only [getPathP, find_map_same fs f g v w hf]
      exact ih w hs
  | case3 n fs f rest nv hf => cases h
  | case4 es i rest nv v hi ih =>
    cases hs : setPathP v rest nv with
    | error e => simp [hs, Except.map] at h
    | ok w =>
      simp only [hs, Except.map] at h
      cases h
      have hlt : i < es.length := by
        rcases Nat.lt_or_ge i es.length with h | h
        · exact h
        · simp [List.getElem?_eq_none h] at hi
      simp only [getPathP, List.getElem?_set_self hlt]
      exact ih w hs
  | case5 es i rest nv hi => cases h
  | case6 => cases h

/-- what a successful one-segment-or-deeper write looks like -/
theorem setPathP_cons_ok {v : Val} {sg : Seg} {p : List Seg} {nv v' : Val}
    (h : setPathP v (sg :: p) nv = .ok v') :
    (∃ n fs f g x w, v = .struct n fs ∧ sg = .fld f ∧ fs.find? (·.1 == f) = some (g, x) ∧
        setPathP x p nv = .ok w ∧
        v' = .struct n (fs.map fun (g, y) => if g == f then (g, w) else (g, y))) ∨
    (∃ es i x w, v = .arr es ∧ sg = .idx i ∧ es[i]? = some x ∧ setPathP x p nv = .ok w ∧
        v' = .arr (es.set i w)) := by
  cases v <;> cases sg <;> simp only [setPathP] at h <;> try (cases h; done)
  · split at h
    · rename_i g x hf
      cases hs : setPathP x p nv with
      | error e => simp [hs, Except.map] at h
      | ok w =>
        simp only [hs, Except.map] at h
        cases h
        exact Or.inl ⟨_, _, _, g, x, w, rfl, rfl, hf, hs, rfl⟩
    · cases h
  · split at h
    · rename_i x hi
      cases hs : setPathP x p nv with
      | error e => simp [hs, Except.map] at h
      | ok w =>
        simp only [hs, Except.map] at h
        cases h
        exact Or.inr ⟨_, _, x, w, rfl, rfl, hi, hs, rfl⟩
    · cases h

/-- a write below one first segment leaves everything below a different first segment unchanged -/
theorem getPathP_setPathP_diverge {v : Val} {s1 s2 : Seg} {p q : List Seg} {nv v' : Val}
    (hne : s1 ≠ s2) (h : setPathP v (s1 :: p) nv = .ok v') :
    getPathP v' (s2 :: q) = getPathP v (s2 :: q) := by
  rcases setPathP_cons_ok h with ⟨n, fs, f, g, x, w, rfl, rfl, hf, hs, rfl⟩ | ⟨es, i, x, w, rfl, rfl, hi, hs, rfl⟩
  · cases s2 with
    | fld f' =>
      have : f' ≠ f := fun e => hne (by rw [e])
      simp only [getPathP, find_map_other fs f f' w this]
    | idx j => simp only [getPathP]
  · cases s2 with
    | fld f' => simp only [getPathP]
    | idx j =>
      have : i ≠ j := fun e => hne (by rw [e])
      simp only [getPathP, List.getElem?_set_ne this]

/-- general form: the two paths share a prefix and then diverge -/
theorem getPathP_setPathP_disjoint {v : Val} (pre : List Seg) {s1 s2 : Seg} {p q : List Seg} {nv v' : Val}
    (hne : s1 ≠ s2) (h : setPathP v (pre ++ s1 :: p) nv = .ok v') :
    getPathP v' (pre ++ s2 :: q) = getPathP v (pre ++ s2 :: q) := by
  induction pre generalizing v v' with
  | nil => exact getPathP_setPathP_diverge hne h
  | cons sg pre ih =>
    rcases setPathP_cons_ok h with ⟨n, fs, f, g, x, w, rfl, rfl, hf, hs, rfl⟩ | ⟨es, i, x, w, rfl, rfl, hi, hs, rfl⟩
    · simp only [List.cons_append, getPathP, find_map_same fs f g x w hf, hf]
      exact ih hs
    · have hlt : i < es.length := by
        rcases Nat.lt_or_ge i es.length with h | h
        · exact h
        · simp [List.getElem?_eq_none h] at hi
      simp only [List.cons_append, getPathP, List.getElem?_set_self hlt, hi]
      exact ih hs

theorem getPath_run (v : Val) (p : List Seg) (s : St) : (getPath v p).run s = (getPathP v p, s) := by
  rw [getPath_eq]; rfl
theorem setPath_run (v : Val) (p : List Seg) (nv : Val) (s : St) :
    (setPath v p nv).run s = (setPathP v p nv, s) := by
  rw [setPath_eq]; rfl

theorem run_get_bind {α : Type} (f : St → M α) (s : St) : (get >>= f).run s = (f s).run s := rfl
theorem run_modify (g : St → St) (s : St) : (modify g : M Unit).run s = (.ok (), g s) := rfl
theorem run_modifyGet {α : Type} (g : St → α × St) (s : St) :
    (modifyGet g : M α).run s = (.ok (g s).1, (g s).2) := rfl
theorem run_pure {α : Type} (a : α) (s : St) : (pure a : M α).run s = (.ok a, s) := rfl
theorem run_throw {α : Type} (e : Abort) (s : St) : (throw e : M α).run s = (.error e, s) := rfl
theorem run_bind {α β : Type} (x : M α) (f : α → M β) (s : St) :
    (x >>= f).run s = match x.run s with
      | (.ok a, s') => (f a).run s'
      | (.error e, s') => (.error e, s') := by
  show (ExceptT.run x >>= ExceptT.bindCont f) s = _
  show (match ExceptT.run x s with | (a, s') => ExceptT.bindCont f a s') = _
  rcases h : ExceptT.run x s with ⟨a | a, s'⟩ <;> rfl

def readLocP (s : St) (l : Loc) : Except Abort Val :=
  match l.base with
  | .cell n =>
    match s.cells[n]? with
    | some v => getPathP v l.path
    | none => .error (.stuck "dangling cell")
  | .dynB h =>
    match s.dyns[h]? with
    | some es => getPathP (.arr es) l.path
    | none => .error (.stuck "dangling dyn")

def writeLocP (s : St) (l : Loc) (nv : Val) : Except Abort St :=
  match l.base with
  | .cell n =>
    match s.cells[n]? with
    | some v => (setPathP v l.path nv).map fun v' => { s with cells := s.cells.set! n v' }
    | none => .error (.stuck "dangling cell")
  | .dynB h =>
    match s.dyns[h]? with
    | some es =>
      match setPathP (.arr es) l.path nv with
      | .ok (.arr es') => .ok { s with dyns := s.dyns.set! h es' }
      | .ok _ => .error (.stuck "dyn write")
      | .error e => .error e
    | none => .error (.stuck "dangling dyn")

theorem readLoc_run (l : Loc) (s : St) : (readLoc l).run s = (readLocP s l, s) := by
  unfold readLoc readLocP
  rw [run_get_bind]
  obtain ⟨b, p⟩ := l
  cases b with
  | cell n =>
    simp only []
    cases h : s.cells[n]? with
    | none => rfl
    | some v => simp only [getPath_run]
  | dynB n =>
    simp only []
    cases h : s.dyns[n]? with
    | none => rfl
    | some v => simp only [getPath_run]

theorem writeLoc_run (l : Loc) (nv : Val) (s : St) :
    (writeLoc l nv).run s = match writeLocP s l nv with
      | .ok s' => (.ok (), s')
      | .error e => (.error e, s) := by
  unfold writeLoc writeLocP
  rw [run_get_bind]
  obtain ⟨b, p⟩ := l
  cases b with
  | cell n =>
    simp only []
    cases h : s.cells[n]? with
    | none => rfl
    | some v =>
      simp only [run_bind, setPath_run]
      cases hs : setPathP v p nv with
      | error e => rfl
      | ok w => rfl
  | dynB n =>
    simp only []
    cases h : s.dyns[n]? with
    | none => rfl
    | some es =>
      simp only [run_bind, setPath_run]
      cases hs : setPathP (.arr es) p nv with
      | error e => rfl
      | ok w => cases w <;> rfl

theorem array_set!_same {α : Type} (a : Array α) (n : Nat) (x v : α) (h : a[n]? = some x) :
    (a.set! n v)[n]? = some v := by
  have hlt : n < a.size := by
    rcases Nat.lt_or_ge n a.size with h' | h'
    · exact h'
    · simp [Array.getElem?_eq_none h'] at h
  simp [hlt]
theorem array_set!_ne {α : Type} (a : Array α) (n m : Nat) (v : α) (h : n ≠ m) :
    (a.set! n v)[m]? = a[m]? := by
  simp [Array.getElem?_setIfInBounds_ne h]

/-- what a successful write looks like -/
theorem writeLocP_ok {s s' : St} {l : Loc} {nv : Val} (h : writeLocP s l nv = .ok s') :
    (∃ n v v', l.base = .cell n ∧ s.cells[n]? = some v ∧ setPathP v l.path nv = .ok v' ∧
        s' = { s with cells := s.cells.set! n v' }) ∨
    (∃ k es es', l.base = .dynB k ∧ s.dyns[k]? = some es ∧ setPathP (.arr es) l.path nv = .ok (.arr es') ∧
        s' = { s with dyns := s.dyns.set! k es' }) := by
  unfold writeLocP at h
  split at h
  · rename_i n hb
    split at h
    · rename_i v hc
      cases hs : setPathP v l.path nv with
      | error e => simp [hs, Except.map] at h
      | ok w =>
        simp only [hs, Except.map] at h
        cases h
        exact Or.inl ⟨n, v, w, hb, hc, hs, rfl⟩
    · cases h
  · rename_i k hb
    split at h
    · rename_i es hc
      split at h
      · rename_i es' hs
        cases h
        exact Or.inr ⟨k, es, es', hb, hc, hs, rfl⟩
      · cases h
      · cases h
    · cases h

/-- a successful write is read back -/
theorem readLocP_writeLocP_same {s s' : St} {l : Loc} {nv : Val} (h : writeLocP s l nv = .ok s') :
    readLocP s' l = .ok nv := by
  rcases writeLocP_ok h with ⟨n, v, v', hb, hc, hs, rfl⟩ | ⟨k, es, es', hb, hc, hs, rfl⟩
  · simp only [readLocP, hb, array_set!_same _ _ _ _ hc]
    exact getPathP_setPathP_same _ _ _ _ hs
  · simp only [readLocP, hb, array_set!_same _ _ _ _ hc]
    exact getPathP_setPathP_same _ _ _ _ hs

/-- a write to one cell / dynamic array does not change any other cell / dynamic array -/
theorem readLocP_writeLocP_other_base {s s' : St} {l l' : Loc} {nv : Val}
    (h : writeLocP s l nv = .ok s') (hne : l'.base ≠ l.base) : readLocP s' l' = readLocP s l' := by
  rcases writeLocP_ok h with ⟨n, v, v', hb, hc, hs, rfl⟩ | ⟨k, es, es', hb, hc, hs, rfl⟩
  · unfold readLocP
    cases hb' : l'.base with
    | cell m =>
      have : n ≠ m := fun e => hne (by rw [hb, hb', e])
      simp only [array_set!_ne _ _ _ _ this]
    | dynB k => rfl
  · unfold readLocP
    cases hb' : l'.base with
    | cell m => rfl
    | dynB k' =>
      have : k ≠ k' := fun e => hne (by rw [hb, hb', e])
      simp only [array_set!_ne _ _ _ _ this]

/-- a write below one path leaves a disjoint place of the same base unchanged -/
theorem readLocP_writeLocP_disjoint_path {s s' : St} {b : Base} (pre : List Seg) {s1 s2 : Seg}
    {p q : List Seg} {nv : Val} (hne : s1 ≠ s2)
    (h : writeLocP s ⟨b, pre ++ s1 :: p⟩ nv = .ok s') :
    readLocP s' ⟨b, pre ++ s2 :: q⟩ = readLocP s ⟨b, pre ++ s2 :: q⟩ := by
  rcases writeLocP_ok h with ⟨n, v, v', hb, hc, hs, rfl⟩ | ⟨k, es, es', hb, hc, hs, rfl⟩
  · simp only at hb hs
    subst hb
    simp only [readLocP, array_set!_same _ _ _ _ hc, hc]
    exact getPathP_setPathP_disjoint pre hne hs
  · simp only at hb hs
    subst hb
    simp only [readLocP, array_set!_same _ _ _ _ hc, hc]
    exact getPathP_setPathP_disjoint pre hne hs

/-- a write changes nothing but the one cell / dynamic array: output, closures and sizes are preserved -/
theorem writeLocP_frame {s s' : St} {l : Loc} {nv : Val} (h : writeLocP s l nv = .ok s') :
    s'.out = s.out ∧ s'.clos = s.clos ∧ s'.cells.size = s.cells.size ∧ s'.dyns.size = s.dyns.size := by
  rcases writeLocP_ok h with ⟨n, v, v', hb, hc, hs, rfl⟩ | ⟨k, es, es', hb, hc, hs, rfl⟩ <;> simp

/-! ### the same laws, stated on the monadic functions by running them -/

/-- `getPath` / `setPath` neither read nor change the state -/
theorem getPath_state_indep (v : Val) (p : List Seg) :
    ∃ r, ∀ s : St, (getPath v p).run s = (r, s) := ⟨_, getPath_run v p⟩
theorem setPath_state_indep (v : Val) (p : List Seg) (nv : Val) :
    ∃ r, ∀ s : St, (setPath v p nv).run s = (r, s) := ⟨_, setPath_run v p nv⟩

theorem setPath_run_ok {v : Val} {p : List Seg} {nv v' : Val} {s s' : St}
    (h : (setPath v p nv).run s = (.ok v', s')) : setPathP v p nv = .ok v' ∧ s' = s := by
  rw [setPath_run] at h
  injection h with h1 h2
  exact ⟨h1, h2.symm⟩

theorem getPath_setPath_same {v : Val} {p : List Seg} {nv v' : Val} {s s' : St}
    (h : (setPath v p nv).run s = (.ok v', s')) (t : St) : (getPath v' p).run t = (.ok nv, t) := by
  rw [getPath_run, getPathP_setPathP_same _ _ _ _ (setPath_run_ok h).1]

theorem getPath_setPath_same' {v : Val} {p : List Seg} {nv v' : Val}
    (h : setPath v p nv = pure v') : getPath v' p = pure nv := by
  rw [setPath_eq] at h
  rw [getPath_eq, getPathP_setPathP_same _ _ _ _ (ofExcept_inj (e' := .ok v') h)]
  rfl

theorem getPath_setPath_disjoint_field {v : Val} {f g : String} {p q : List Seg} {nv v' : Val} {s s' : St}
    (h : (setPath v (.fld f :: p) nv).run s = (.ok v', s')) (hne : g ≠ f) (t : St) :
    (getPath v' (.fld g :: q)).run t = (getPath v (.fld g :: q)).run t := by
  rw [getPath_run, getPath_run,
    getPathP_setPathP_diverge (fun e => hne (by cases e; rfl)) (setPath_run_ok h).1]

theorem getPath_setPath_disjoint_index {v : Val} {i j : Nat} {p q : List Seg} {nv v' : Val} {s s' : St}
    (h : (setPath v (.idx i :: p) nv).run s = (.ok v', s')) (hne : j ≠ i) (t : St) :
    (getPath v' (.idx j :: q)).run t = (getPath v (.idx j :: q)).run t := by
  rw [getPath_run, getPath_run,
    getPathP_setPathP_diverge (fun e => hne (by cases e; rfl)) (setPath_run_ok h).1]

theorem getPath_setPath_disjoint {v : Val} (pre : List Seg) {s1 s2 : Seg} {p q : List Seg} {nv v' : Val}
    {s s' : St} (h : (setPath v (pre ++ s1 :: p) nv).run s = (.ok v', s')) (hne : s1 ≠ s2) (t : St) :
    (getPath v' (pre ++ s2 :: q)).run t = (getPath v (pre ++ s2 :: q)).run t := by
  rw [getPath_run, getPath_run, getPathP_setPathP_disjoint pre hne (setPath_run_ok h).1]

theorem writeLoc_run_ok {l : Loc} {nv : Val} {s s' : St} :
    (writeLoc l nv).run s = (.ok (), s') ↔ writeLocP s l nv = .ok s' := by
  rw [writeLoc_run]
  cases writeLocP s l nv with
  | error e =>
    constructor
    · intro h; injection h with h1 _; cases h1
    · intro h; cases h
  | ok s'' =>
    constructor
    · intro h; injection h with _ h2; rw [h2]
    · intro h; cases h; rfl

/-- a failed write leaves the state unchanged -/
theorem writeLoc_run_error {l : Loc} {nv : Val} {s s' : St} {e : Abort}
    (h : (writeLoc l nv).run s = (.error e, s')) : s' = s := by
  rw [writeLoc_run] at h
  cases hw : writeLocP s l nv with
  | error e => rw [hw] at h; cases h; rfl
  | ok s'' => rw [hw] at h; cases h

theorem readLoc_writeLoc_same {l : Loc} {nv : Val} {s s' : St}
    (h : (writeLoc l nv).run s = (.ok (), s')) : (readLoc l).run s' = (.ok nv, s') := by
  rw [readLoc_run, readLocP_writeLocP_same (writeLoc_run_ok.mp h)]

theorem readLoc_writeLoc_other_cell {n m : Nat} {p q : List Seg} {nv : Val} {s s' : St}
    (h : (writeLoc ⟨.cell n, p⟩ nv).run s = (.ok (), s')) (hne : m ≠ n) :
    (readLoc ⟨.cell m, q⟩).run s' = (((readLoc ⟨.cell m, q⟩).run s).1, s') := by
  rw [readLoc_run, readLoc_run,
    readLocP_writeLocP_other_base (writeLoc_run_ok.mp h) (fun e => hne (by cases e; rfl))]

theorem readLoc_writeLoc_other_base {l l' : Loc} {nv : Val} {s s' : St}
    (h : (writeLoc l nv).run s = (.ok (), s')) (hne : l'.base ≠ l.base) :
    (readLoc l').run s' = (((readLoc l').run s).1, s') := by
  rw [readLoc_run, readLoc_run, readLocP_writeLocP_other_base (writeLoc_run_ok.mp h) hne]

theorem readLoc_writeLoc_disjoint_path {b : Base} (pre : List Seg) {s1 s2 : Seg} {p q : List Seg}
    {nv : Val} {s s' : St} (h : (writeLoc ⟨b, pre ++ s1 :: p⟩ nv).run s = (.ok (), s')) (hne : s1 ≠ s2) :
    (readLoc ⟨b, pre ++ s2 :: q⟩).run s' = (((readLoc ⟨b, pre ++ s2 :: q⟩).run s).1, s') := by
  rw [readLoc_run, readLoc_run, readLocP_writeLocP_disjoint_path pre hne (writeLoc_run_ok.mp h)]

/-- a reference (a `Loc`) writes through to its referent: after `writeLoc l nv`, every reader of `l` —
    through however many references (`derefVal` of `.ref l`) — sees `nv` (when `nv` is not itself a reference). -/
theorem derefVal_ref_after_write {l : Loc} {nv : Val} {s s' : St} (k : Nat)
    (h : (writeLoc l nv).run s = (.ok (), s')) (hnv : ∀ l', nv ≠ .ref l') :
    (derefVal (k + 1) (.ref l)).run s' = (.ok nv, s') := by
  simp only [derefVal, run_bind, readLoc_writeLoc_same h]
  cases k with
  | zero => rfl
  | succ k =>
    cases nv <;> first | rfl | exact absurd rfl (hnv _)

/-! examples: the hypotheses are satisfiable -/
example : setPathP (.struct "P" [("x", .int 1), ("y", .int 2)]) [.fld "y"] (.int 7)
    = .ok (.struct "P" [("x", .int 1), ("y", .int 7)]) := by
  simp [setPathP, Except.map]
example : getPathP (.struct "P" [("x", .int 1), ("y", .int 7)]) [.fld "x"] = .ok (.int 1) := by
  simp [getPathP]
example : setPathP (.arr [.int 1, .int 2, .int 3]) [.idx 1] (.int 9) = .ok (.arr [.int 1, .int 9, .int 3]) := by
  simp [setPathP, Except.map]
example : writeLocP { cells := #[.int 0, .arr [.int 1, .int 2]] } ⟨.cell 1, [.idx 0]⟩ (.int 5)
    = .ok { cells := #[.int 0, .arr [.int 5, .int 2]] } := by
  simp [writeLocP, setPathP, Except.map]

/-! ## 5. evaluation order -/

theorem evalE_zero (ctx : Ctx) (env : Env) (e : Expr) : evalE ctx 0 env e = throw .fuel := by
  rw [evalE]
theorem evalE_lit (ctx : Ctx) (fuel : Nat) (env : Env) (t : Ty) (v : Int) :
    evalE ctx (fuel + 1) env (.lit t v) = pure (.int (wrapTy t v)) := by
  rw [evalE]
theorem evalE_blit (ctx : Ctx) (fuel : Nat) (env : Env) (b : Bool) :
    evalE ctx (fuel + 1) env (.blit b) = pure (.bool b) := by
  rw [evalE]
theorem evalArgs_zero (ctx : Ctx) (env : Env) (es : List Expr) : evalArgs ctx 0 env es = throw .fuel := by
  rw [evalArgs]
theorem evalArgs_nil (ctx : Ctx) (fuel : Nat) (env : Env) : evalArgs ctx (fuel+1) env [] = pure [] := by
  rw [evalArgs]; exact Nat.succ_ne_zero _
theorem evalArgs_cons (ctx : Ctx) (fuel : Nat) (env : Env) (a : Expr) (as : List Expr) :
    evalArgs ctx (fuel + 1) env (a :: as) = (do
      let v ← evalE ctx fuel env a
      let vs ← evalArgs ctx fuel env as
      pure (v :: vs)) := by
  rw [evalArgs]

/-- how a binary operator combines its (dereferenced) operand values -/
def combineBin (op : BinOp) (t : Ty) (va vb : Val) : M Val :=
  match op, va, vb with
  | .land, .bool x, .bool y => pure (.bool (x && y))
  | .lor, .bool x, .bool y => pure (.bool (x || y))
  | .eq, x, y => match t with
    | .int bits s => match x, y with
      | .int p, .int q => evalIntBin .eq bits s p q
      | _, _ => stuck "eq operands"
    | _ => pure (.bool (valEq x y))
  | .ne, x, y => match t with
    | .int bits s => match x, y with
      | .int p, .int q => evalIntBin .ne bits s p q
      | _, _ => stuck "ne operands"
    | _ => pure (.bool (!valEq x y))
  | op, .int x, .int y => match t with
    | .int bits s => evalIntBin op bits s x y
    | _ => stuck "int op at non-int type"
  | _, _, _ => stuck "bin operands"

theorem evalE_bin (ctx : Ctx) (fuel : Nat) (env : Env) (op : BinOp) (t : Ty) (a b : Expr) :
    evalE ctx (fuel + 1) env (.bin op t a b) = (do
      let va ← derefVal 8 (← evalE ctx fuel env a)
      let vb ← derefVal 8 (← evalE ctx fuel env b)
      combineBin op t va vb) := by
  rw [evalE]; rfl

theorem combineBin_int (op : BinOp) (bits : Nat) (s : Bool) (x y : Int) :
    combineBin op (.int bits s) (.int x) (.int y) = evalIntBin op bits s x y := by
  cases op <;> rfl

/-- LEFT-TO-RIGHT, on runs: `b` is evaluated in the state left by `a`; an abort of `a` is the abort of the
    whole expression and `b` is not evaluated (the result does not depend on `b`). -/
theorem evalE_bin_run (ctx : Ctx) (fuel : Nat) (env : Env) (op : BinOp) (t : Ty) (a b : Expr) (s : St) :
    (evalE ctx (fuel + 1) env (.bin op t a b)).run s =
      match (evalE ctx fuel env a).run s with
      | (.error x, s1) => (.error x, s1)
      | (.ok ra, s1) =>
        match (derefVal 8 ra).run s1 with
        | (.error x, s2) => (.error x, s2)
        | (.ok va, s2) =>
          match (evalE ctx fuel env b).run s2 with
          | (.error x, s3) => (.error x, s3)
          | (.ok rb, s3) =>
            match (derefVal 8 rb).run s3 with
            | (.error x, s4) => (.error x, s4)
            | (.ok vb, s4) => (combineBin op t va vb).run s4 := by
  rw [evalE_bin]
  simp only [run_bind]
  rcases (evalE ctx fuel env a).run s with ⟨x | ra, s1⟩
  · rfl
  · simp only []
    rcases (derefVal 8 ra).run s1 with ⟨x | va, s2⟩
    · rfl
    · simp only []
      rcases (evalE ctx fuel env b).run s2 with ⟨x | rb, s3⟩
      · rfl
      · simp only []
        rcases (derefVal 8 rb).run s3 with ⟨x | vb, s4⟩ <;> rfl

theorem evalE_bin_abort_left (ctx : Ctx) (fuel : Nat) (env : Env) (op : BinOp) (t : Ty) (a b : Expr)
    (s s' : St) (x : Abort) (h : (evalE ctx fuel env a).run s = (.error x, s')) :
    (evalE ctx (fuel + 1) env (.bin op t a b)).run s = (.error x, s') := by
  rw [evalE_bin_run, h]

theorem evalE_bin_abort_left' (ctx : Ctx) (fuel : Nat) (env : Env) (op : BinOp) (t : Ty) (a b : Expr)
    (x : Abort) (h : evalE ctx fuel env a = throw x) :
    evalE ctx (fuel + 1) env (.bin op t a b) = throw x := by
  rw [evalE_bin, h]; rfl

theorem evalArgs_cons_run (ctx : Ctx) (fuel : Nat) (env : Env) (a : Expr) (as : List Expr) (s : St) :
    (evalArgs ctx (fuel + 1) env (a :: as)).run s =
      match (evalE ctx fuel env a).run s with
      | (.error x, s1) => (.error x, s1)
      | (.ok v, s1) =>
        match (evalArgs ctx fuel env as).run s1 with
        | (.error x, s2) => (.error x, s2)
        | (.ok vs, s2) => (.ok (v :: vs), s2) := by
  rw [evalArgs_cons]
  simp only [run_bind]
  rcases (evalE ctx fuel env a).run s with ⟨x | v, s1⟩
  · rfl
  · simp only []
    rcases (evalArgs ctx fuel env as).run s1 with ⟨x | vs, s2⟩ <;> rfl

theorem evalArgs_abort_head (ctx : Ctx) (fuel : Nat) (env : Env) (a : Expr) (as : List Expr)
    (s s' : St) (x : Abort) (h : (evalE ctx fuel env a).run s = (.error x, s')) :
    (evalArgs ctx (fuel + 1) env (a :: as)).run s = (.error x, s') := by
  rw [evalArgs_cons_run, h]

/-- arithmetic on two literals: operands are wrapped to the type, the result wraps again -/
theorem evalE_add_lits (ctx : Ctx) (fuel : Nat) (env : Env) (bits : Nat) (sg : Bool) (x y : Int) :
    evalE ctx (fuel + 2) env (.bin .add (.int bits sg) (.lit (.int bits sg) x) (.lit (.int bits sg) y)) =
      pure (.int (wrapInt bits sg (wrapInt bits sg x + wrapInt bits sg y))) := by
  rw [evalE_bin, evalE_lit, evalE_lit]; rfl

def emptyCtx : Ctx := ⟨[], [], [], []⟩
def u8 : Ty := .int 8 false

/-- order witness: the left operand's panic wins over the right operand's stuck, and vice versa -/
example : ((evalE emptyCtx 3 [] (.bin .add u8 (.bin .div u8 (.lit u8 1) (.lit u8 0)) (.var "nope"))).run {}).1
    = .error (.panic "division by zero") := by
  rfl
example : ((evalE emptyCtx 3 [] (.bin .add u8 (.var "nope") (.bin .div u8 (.lit u8 1) (.lit u8 0)))).run {}).1
    = .error (.stuck "unbound nope") := by
  rfl
example : ((evalE emptyCtx 2 [] (.bin .add u8 (.lit u8 200) (.lit u8 100))).run {}).1 = .ok (.int 44) := by
  rfl

end FerretVerif.Core
