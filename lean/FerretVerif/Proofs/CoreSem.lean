/-
  Proofs/CoreSem.lean — the reference semantics `Core/Eval.lean` says what the language definition says:
  two's-complement wrapping, truncating division, comparison as the mathematical order, bitwise operators as
  the Nat bit operations, by-value composites with write-through places, left-to-right evaluation.  Core-only.
-/
import FerretVerif.Core.Eval

namespace FerretVerif.Core

/-! ## 1. wrapping -/

theorem pow2_pos (bits : Nat) : (0 : Int) < ((2 ^ bits : Nat) : Int) := by
  have := Nat.pow_pos (n := bits) (show 0 < 2 by decide)
  omega

theorem pow2_half {bits : Nat} (h : 1 ≤ bits) :
    ((2 ^ bits : Nat) : Int) = 2 * ((2 ^ (bits - 1) : Nat) : Int) := by
  obtain ⟨k, rfl⟩ : ∃ k, bits = k + 1 := ⟨bits - 1, by omega⟩
  simp [Nat.pow_succ]
  omega

theorem wrapInt_unsigned (bits : Nat) (v : Int) :
    wrapInt bits false v = v % ((2 ^ bits : Nat) : Int) := by
  simp [wrapInt]

theorem wrapInt_signed (bits : Nat) (v : Int) :
    wrapInt bits true v =
      if ((2 ^ (bits - 1) : Nat) : Int) ≤ v % ((2 ^ bits : Nat) : Int)
      then v % ((2 ^ bits : Nat) : Int) - ((2 ^ bits : Nat) : Int)
      else v % ((2 ^ bits : Nat) : Int) := by
  simp [wrapInt]

theorem wrapInt_unsigned_range (bits : Nat) (v : Int) :
    0 ≤ wrapInt bits false v ∧ wrapInt bits false v < ((2 ^ bits : Nat) : Int) := by
  rw [wrapInt_unsigned]
  have hm := pow2_pos bits
  exact ⟨Int.emod_nonneg _ (by omega), Int.emod_lt_of_pos _ hm⟩

theorem wrapInt_signed_range {bits : Nat} (h : 1 ≤ bits) (v : Int) :
    -((2 ^ (bits - 1) : Nat) : Int) ≤ wrapInt bits true v ∧
      wrapInt bits true v < ((2 ^ (bits - 1) : Nat) : Int) := by
  rw [wrapInt_signed]
  have hm := pow2_pos bits
  have hh := pow2_half h
  have h0 := Int.emod_nonneg v (show ((2 ^ bits : Nat) : Int) ≠ 0 by omega)
  have h1 := Int.emod_lt_of_pos v hm
  generalize v % ((2 ^ bits : Nat) : Int) = r at *
  generalize ((2 ^ bits : Nat) : Int) = m at *
  generalize ((2 ^ (bits - 1) : Nat) : Int) = hf at *
  split <;> omega

/-- `wrapInt` changes a value by a multiple of `2^bits`. -/
theorem wrapInt_congr_ex (bits : Nat) (s : Bool) (v : Int) :
    ∃ k : Int, wrapInt bits s v = v + k * ((2 ^ bits : Nat) : Int) := by
  have hd := Int.emod_add_mul_ediv v ((2 ^ bits : Nat) : Int)
  unfold wrapInt
  simp only []
  generalize ((2 ^ bits : Nat) : Int) = m at *
  split
  · refine ⟨-(v / m) - 1, ?_⟩
    rw [Int.sub_mul, Int.neg_mul, Int.mul_comm (v / m) m]
    omega
  · refine ⟨-(v / m), ?_⟩
    rw [Int.neg_mul, Int.mul_comm (v / m) m]
    omega

theorem wrapInt_congr (bits : Nat) (s : Bool) (v : Int) :
    (wrapInt bits s v - v) % ((2 ^ bits : Nat) : Int) = 0 := by
  obtain ⟨k, hk⟩ := wrapInt_congr_ex bits s v
  have e : v + k * ((2 ^ bits : Nat) : Int) - v = k * ((2 ^ bits : Nat) : Int) := by
    generalize k * ((2 ^ bits : Nat) : Int) = t
    omega
  rw [hk, e]
  exact Int.mul_emod_left k _

/-- the value range of the `bits`-wide integer type of signedness `s` -/
def InRange (bits : Nat) (s : Bool) (r : Int) : Prop :=
  if s then -((2 ^ (bits - 1) : Nat) : Int) ≤ r ∧ r < ((2 ^ (bits - 1) : Nat) : Int)
  else 0 ≤ r ∧ r < ((2 ^ bits : Nat) : Int)

instance (bits : Nat) (s : Bool) (r : Int) : Decidable (InRange bits s r) := by
  unfold InRange; infer_instance

theorem wrapInt_inRange {bits : Nat} (h : 1 ≤ bits) (s : Bool) (v : Int) :
    InRange bits s (wrapInt bits s v) := by
  cases s
  · exact wrapInt_unsigned_range bits v
  · exact wrapInt_signed_range h v

/-- two integers congruent modulo `m` and less than `m` apart are equal -/
theorem eq_of_emod_sub_eq_zero {m x y : Int} (_hm : 0 < m) (h : (x - y) % m = 0)
    (h1 : x - y < m) (h2 : y - x < m) : x = y := by
  have hd : m ∣ x - y := Int.dvd_of_emod_eq_zero h
  by_cases hxy : 0 ≤ x - y
  · have := Int.emod_eq_of_lt hxy h1
    omega
  · have hd' : m ∣ y - x := by
      have := Int.dvd_neg.mpr hd
      rwa [Int.neg_sub] at this
    have h0 := Int.emod_eq_zero_of_dvd hd'
    have := Int.emod_eq_of_lt (a := y - x) (b := m) (by omega) h2
    omega

/-- `wrapInt bits s v` is the unique representative of `v` modulo `2^bits` in the range of the type. -/
theorem wrapInt_unique {bits : Nat} (h : 1 ≤ bits) (s : Bool) (v r : Int)
    (hr : InRange bits s r) (hc : (r - v) % ((2 ^ bits : Nat) : Int) = 0) :
    r = wrapInt bits s v := by
  have hm := pow2_pos bits
  have hh := pow2_half h
  have hw := wrapInt_inRange h s v
  have hcw := wrapInt_congr bits s v
  have hrw : (r - wrapInt bits s v) % ((2 ^ bits : Nat) : Int) = 0 := by
    have : r - wrapInt bits s v = (r - v) - (wrapInt bits s v - v) := by omega
    rw [this, Int.sub_emod, hc, hcw]
    simp
  generalize wrapInt bits s v = w at *
  unfold InRange at hr hw
  generalize ((2 ^ bits : Nat) : Int) = m at *
  generalize ((2 ^ (bits - 1) : Nat) : Int) = hf at *
  cases s
  · simp at hr hw
    exact eq_of_emod_sub_eq_zero hm hrw (by omega) (by omega)
  · simp at hr hw
    exact eq_of_emod_sub_eq_zero hm hrw (by omega) (by omega)

/-- a value already in the range of the type is unchanged -/
theorem wrapInt_id_of_in_range {bits : Nat} (h : 1 ≤ bits) (s : Bool) (v : Int)
    (hv : InRange bits s v) : wrapInt bits s v = v :=
  (wrapInt_unique h s v v hv (by simp)).symm

theorem wrapInt_id_unsigned {bits : Nat} (v : Int) (h0 : 0 ≤ v) (h1 : v < ((2 ^ bits : Nat) : Int)) :
    wrapInt bits false v = v := by
  rw [wrapInt_unsigned]; exact Int.emod_eq_of_lt h0 h1

theorem wrapInt_id_signed {bits : Nat} (h : 1 ≤ bits) (v : Int)
    (h0 : -((2 ^ (bits - 1) : Nat) : Int) ≤ v) (h1 : v < ((2 ^ (bits - 1) : Nat) : Int)) :
    wrapInt bits true v = v :=
  wrapInt_id_of_in_range h true v (by unfold InRange; rw [if_pos rfl]; exact ⟨h0, h1⟩)

theorem wrapInt_idem {bits : Nat} (h : 1 ≤ bits) (s : Bool) (v : Int) :
    wrapInt bits s (wrapInt bits s v) = wrapInt bits s v :=
  wrapInt_id_of_in_range h s _ (wrapInt_inRange h s v)

/-- wrapping is a ring-homomorphism-compatible reduction: congruent inputs give equal outputs -/
theorem wrapInt_eq_of_congr {bits : Nat} (h : 1 ≤ bits) (s : Bool) (v w : Int)
    (hc : (v - w) % ((2 ^ bits : Nat) : Int) = 0) : wrapInt bits s v = wrapInt bits s w := by
  apply wrapInt_unique h s w _ (wrapInt_inRange h s v)
  have : wrapInt bits s v - w = (wrapInt bits s v - v) + (v - w) := by omega
  rw [this, Int.add_emod, wrapInt_congr, hc]
  simp

example : InRange 8 false 255 := by decide
example : InRange 8 true (-128) := by decide
example : ¬ InRange 8 true 128 := by decide

/-! ## 2. operators -/

theorem add_wraps (bits : Nat) (s : Bool) (a b : Int) :
    evalIntBin .add bits s a b = pure (.int (wrapInt bits s (a + b))) := rfl
theorem sub_wraps (bits : Nat) (s : Bool) (a b : Int) :
    evalIntBin .sub bits s a b = pure (.int (wrapInt bits s (a - b))) := rfl
theorem mul_wraps (bits : Nat) (s : Bool) (a b : Int) :
    evalIntBin .mul bits s a b = pure (.int (wrapInt bits s (a * b))) := rfl

theorem div_truncates (bits : Nat) (s : Bool) (a b : Int) (hb : b ≠ 0) :
    evalIntBin .div bits s a b = pure (.int (wrapInt bits s (Int.tdiv a b))) := by
  simp [evalIntBin, tdiv, hb]
theorem rem_truncates (bits : Nat) (s : Bool) (a b : Int) (hb : b ≠ 0) :
    evalIntBin .rem bits s a b = pure (.int (wrapInt bits s (Int.tmod a b))) := by
  simp [evalIntBin, trem, hb]

theorem div_by_zero_panics (bits : Nat) (s : Bool) (a : Int) :
    evalIntBin .div bits s a 0 = panic "division by zero" := rfl
theorem rem_by_zero_panics (bits : Nat) (s : Bool) (a : Int) :
    evalIntBin .rem bits s a 0 = panic "division by zero" := rfl

/-- quotient and remainder reconstruct the dividend -/
theorem tdiv_trem_spec (a b : Int) : Int.tdiv a b * b + Int.tmod a b = a :=
  Int.tdiv_mul_add_tmod a b

/-- the remainder is smaller in magnitude than the divisor -/
theorem trem_abs_lt (a b : Int) (hb : b ≠ 0) : (Int.tmod a b).natAbs < b.natAbs := by
  rw [Int.natAbs_tmod]
  exact Nat.mod_lt _ (by omega)

/-- hence the quotient is rounded toward zero: `|q * b| ≤ |a|` -/
theorem tdiv_toward_zero (a b : Int) : (Int.tdiv a b * b).natAbs ≤ a.natAbs := by
  have h := Int.tdiv_mul_add_tmod a b
  have h1 : 0 ≤ a → 0 ≤ Int.tmod a b := Int.tmod_nonneg b
  have h2 : a ≤ 0 → Int.tmod a b ≤ 0 := by
    intro ha
    have := Int.tmod_nonneg (a := -a) b (by omega)
    rw [Int.neg_tmod] at this
    omega
  have h3 := Int.natAbs_tmod a b
  have h4 : a.natAbs % b.natAbs ≤ a.natAbs := Nat.mod_le _ _
  generalize Int.tdiv a b * b = q at *
  generalize Int.tmod a b = r at *
  omega

theorem rem_sign_of_dividend (a b : Int) :
    (0 ≤ a → 0 ≤ Int.tmod a b) ∧ (a ≤ 0 → Int.tmod a b ≤ 0) := by
  refine ⟨Int.tmod_nonneg b, ?_⟩
  intro ha
  have := Int.tmod_nonneg (a := -a) b (by omega)
  rw [Int.neg_tmod] at this
  omega

theorem cmp_is_order (bits : Nat) (s : Bool) (a b : Int) :
    evalIntBin .lt bits s a b = pure (.bool (decide (a < b))) ∧
    evalIntBin .le bits s a b = pure (.bool (decide (a ≤ b))) ∧
    evalIntBin .gt bits s a b = pure (.bool (decide (b < a))) ∧
    evalIntBin .ge bits s a b = pure (.bool (decide (b ≤ a))) ∧
    evalIntBin .eq bits s a b = pure (.bool (decide (a = b))) ∧
    evalIntBin .ne bits s a b = pure (.bool (decide (a ≠ b))) := by
  refine ⟨rfl, rfl, rfl, rfl, rfl, ?_⟩
  show pure (Val.bool (a != b)) = _
  have : (a != b) = decide (a ≠ b) := by by_cases h : a = b <;> simp [h]
  rw [this]

theorem signed_overflow_example : wrapInt 32 true (2147483647 + 1) = -2147483648 := by decide
theorem unsigned_wrap_example : wrapInt 8 false (200 + 100) = 44 := by decide
theorem signed_wrap_example : wrapInt 8 true 300 = 44 := by decide
theorem signed_wrap_example' : wrapInt 8 true 200 = -56 := by decide
theorem min_div_minus_one : wrapInt 32 true (Int.tdiv (-2147483648) (-1)) = -2147483648 := by decide
theorem trunc_div_example : Int.tdiv (-7) 2 = -3 ∧ Int.tmod (-7) 2 = -1 ∧ Int.tdiv 7 (-2) = -3 ∧ Int.tmod 7 (-2) = 1 := by
  decide

end FerretVerif.Core
