/-
  Proofs/Limbs.lean — value-level correctness of the limb algorithms, for every base B and length n.
-/
import FerretVerif.Model.Limbs

namespace FerretVerif.Limbs

theorem val_nil (B : Nat) : val B [] = 0 := rfl
theorem val_cons (B x : Nat) (xs : List Nat) : val B (x :: xs) = x + B * val B xs := rfl

theorem Wf.tail {B x : Nat} {xs : List Nat} (h : Wf B (x :: xs)) : Wf B xs :=
  fun y hy => h y (List.mem_cons_of_mem _ hy)
theorem Wf.head {B x : Nat} {xs : List Nat} (h : Wf B (x :: xs)) : x < B :=
  h x (List.mem_cons_self)
theorem Wf.cons {B x : Nat} {xs : List Nat} (hx : x < B) (h : Wf B xs) : Wf B (x :: xs) := by
  intro y hy
  rcases List.mem_cons.1 hy with rfl | hy
  · exact hx
  · exact h y hy

theorem val_lt (B : Nat) (l : List Nat) (h : Wf B l) : val B l < B ^ l.length := by
  induction l with
  | nil => simp [val]
  | cons x xs ih =>
    have hx := h.head
    have := ih h.tail
    rw [val_cons, List.length_cons, Nat.pow_succ]
    generalize B ^ xs.length = M at *
    have : B * (val B xs + 1) ≤ B * M := Nat.mul_le_mul_left _ (by omega)
    rw [Nat.mul_add, Nat.mul_one] at this
    rw [Nat.mul_comm M B]
    omega

/-- (r + B*q) % (B*M) = r + B*(q % M) for r < B -/
theorem mod_mul_split {B M r q : Nat} (hr : r < B) : (r + B * q) % (B * M) = r + B * (q % M) := by
  rcases Nat.eq_zero_or_pos B with hB | hB
  · omega
  rw [Nat.mod_mul, Nat.add_mul_mod_self_left, Nat.mod_eq_of_lt hr, Nat.add_mul_div_left _ _ hB,
      Nat.div_eq_of_lt hr, Nat.zero_add]

theorem addc_length (B : Nat) (as bs : List Nat) (c : Nat) (h : as.length = bs.length) :
    (addc B as bs c).length = as.length := by
  induction as generalizing bs c with
  | nil => cases bs <;> simp [addc]
  | cons a as ih =>
    cases bs with
    | nil => simp at h
    | cons b bs => simp [addc, ih bs _ (by simpa using h)]

theorem addc_wf (B : Nat) (hB : 0 < B) (as bs : List Nat) (c : Nat) : Wf B (addc B as bs c) := by
  induction as generalizing bs c with
  | nil => cases bs <;> simp [addc, Wf]
  | cons a as ih =>
    cases bs with
    | nil => simp [addc, Wf]
    | cons b bs => exact Wf.cons (Nat.mod_lt _ hB) (ih bs _)

/-- ferret_add_limbs: exact sum reduced modulo B^n -/
theorem addc_val (B : Nat) (hB : 0 < B) (as bs : List Nat) (c : Nat) (h : as.length = bs.length) :
    val B (addc B as bs c) = (val B as + val B bs + c) % B ^ as.length := by
  induction as generalizing bs c with
  | nil => cases bs <;> simp [addc, val, Nat.mod_one]
  | cons a as ih =>
    cases bs with
    | nil => simp at h
    | cons b bs =>
      have h' : as.length = bs.length := by simpa using h
      simp only [addc, val_cons, List.length_cons]
      rw [ih bs _ h', Nat.pow_succ, Nat.mul_comm (B ^ as.length) B]
      generalize B ^ as.length = M
      have key : a + B * val B as + (b + B * val B bs) + c
          = (a + b + c) % B + B * (val B as + val B bs + (a + b + c) / B) := by
        have := Nat.mod_add_div (a + b + c) B
        rw [Nat.mul_add, Nat.mul_add]
        omega
      rw [key, mod_mul_split (Nat.mod_lt _ hB)]

theorem add_val (B : Nat) (hB : 0 < B) (a b : List Nat) (h : a.length = b.length) :
    val B (add B a b) = (val B a + val B b) % B ^ a.length := by
  unfold add; rw [addc_val B hB a b 0 h, Nat.add_zero]

/-- one limb of ferret_sub_limbs (fixed): out + b + br = a + B*br' -/
theorem sub_limb (B a b br : Nat) (hB : 1 < B) (ha : a < B) (hb : b < B) (hbr : br ≤ 1) :
    let bi := (b + br) % B
    let br' := if bi < br ∨ a < bi then 1 else 0
    (a + B - bi) % B + b + br = a + B * br' ∧ br' ≤ 1 := by
  intro bi br'
  rcases Nat.lt_or_ge (b + br) B with h | h
  · have hbi : bi = b + br := Nat.mod_eq_of_lt h
    rcases Nat.lt_or_ge a bi with h2 | h2
    · have hbr' : br' = 1 := by simp [br', h2]
      have : (a + B - bi) % B = a + B - bi := Nat.mod_eq_of_lt (by omega)
      rw [this, hbr']; omega
    · have hbr' : br' = 0 := by
        have : ¬ (bi < br) := by omega
        simp [br', this, Nat.not_lt.2 h2]
      have : (a + B - bi) % B = a - bi := by
        have : a + B - bi = (a - bi) + B := by omega
        rw [this, Nat.add_mod_right, Nat.mod_eq_of_lt (by omega)]
      rw [this, hbr']; omega
  · have hb1 : b + br = B := by omega
    have hbi : bi = 0 := by show (b + br) % B = 0; rw [hb1, Nat.mod_self]
    have hbr1 : br = 1 := by omega
    have hbr' : br' = 1 := by simp [br', hbi, hbr1]
    have : (a + B - bi) % B = a := by rw [hbi, Nat.sub_zero, Nat.add_mod_right, Nat.mod_eq_of_lt ha]
    rw [this, hbr']; omega

theorem subb_spec (B : Nat) (hB : 1 < B) (as bs : List Nat) (br : Nat) (hbr : br ≤ 1)
    (h : as.length = bs.length) (ha : Wf B as) (hb : Wf B bs) :
    ∃ bout, bout ≤ 1 ∧ val B (subb B as bs br) + val B bs + br = val B as + B ^ as.length * bout
      ∧ (subb B as bs br).length = as.length ∧ Wf B (subb B as bs br) := by
  induction as generalizing bs br with
  | nil => cases bs <;> simp_all [subb, val, Wf]
  | cons a as ih =>
    cases bs with
    | nil => simp at h
    | cons b bs =>
      have h' : as.length = bs.length := by simpa using h
      obtain ⟨hl, hbr'⟩ := sub_limb B a b br hB ha.head hb.head hbr
      obtain ⟨bout, hbo, hv, hlen, hwf⟩ := ih bs _ hbr' h' ha.tail hb.tail
      refine ⟨bout, hbo, ?_, by simp [subb, hlen], Wf.cons (Nat.mod_lt _ (by omega)) hwf⟩
      simp only [subb, val_cons, List.length_cons] at hl hv ⊢
      rw [Nat.pow_succ]
      generalize (if (b + br) % B < br ∨ a < (b + br) % B then 1 else 0) = br' at *
      generalize val B (subb B as bs br') = vo at *
      generalize (a + B - (b + br) % B) % B = o at *
      generalize B ^ as.length = M at *
      have e1 : B * (vo + val B bs + br') = B * (val B as + M * bout) := by rw [hv]
      rw [Nat.mul_add, Nat.mul_add, Nat.mul_add] at e1
      have e2 : M * B * bout = B * (M * bout) := by rw [Nat.mul_comm M B, Nat.mul_assoc]
      rw [e2]
      omega

/-- ferret_sub_limbs: exact difference reduced modulo B^n -/
theorem sub_val (B : Nat) (hB : 1 < B) (a b : List Nat) (h : a.length = b.length) (ha : Wf B a) (hb : Wf B b) :
    val B (sub B a b) = (val B a + B ^ a.length - val B b) % B ^ a.length := by
  obtain ⟨bout, hbo, hv, hlen, hwf⟩ := subb_spec B hB a b 0 (by omega) h ha hb
  have hlt := val_lt B _ hwf
  have hblt := val_lt B _ hb
  rw [hlen] at hlt; rw [← h] at hblt
  unfold sub
  generalize val B (subb B a b 0) = vo at *
  generalize B ^ a.length = M at *
  have hM : 0 < M := by omega
  rcases Nat.eq_zero_or_pos bout with rfl | hp
  · have : val B a + M - val B b = vo + M := by omega
    rw [this, Nat.add_mod_right, Nat.mod_eq_of_lt hlt]
  · have hb1 : bout = 1 := by omega
    subst hb1
    have : val B a + M - val B b = vo := by omega
    rw [this, Nat.mod_eq_of_lt hlt]

/-- one limb of ferret_negate_limbs -/
theorem neg_limb (B v c : Nat) (hB : 1 < B) (hv : v < B) (hc : c ≤ 1) :
    let inv := B - 1 - v
    let sum := (inv + c) % B
    let c' := if sum < inv then 1 else 0
    sum + B * c' = inv + c ∧ c' ≤ 1 := by
  intro inv sum c'
  rcases Nat.lt_or_ge (inv + c) B with h | h
  · have hs : sum = inv + c := Nat.mod_eq_of_lt h
    have hc' : c' = 0 := by simp [c', hs]
    rw [hs, hc']; omega
  · have h1 : inv + c = B := by omega
    have hs : sum = 0 := by show (inv + c) % B = 0; rw [h1, Nat.mod_self]
    have hc' : c' = 1 := by
      have : 0 < inv := by omega
      simp [c', hs, this]
    rw [hs, hc']; omega

theorem negc_spec (B : Nat) (hB : 1 < B) (vs : List Nat) (c : Nat) (hc : c ≤ 1) (hv : Wf B vs) :
    ∃ cout, cout ≤ 1 ∧ val B (negc B vs c) + B ^ vs.length * cout + val B vs + 1 = B ^ vs.length + c
      ∧ (negc B vs c).length = vs.length ∧ Wf B (negc B vs c) := by
  induction vs generalizing c with
  | nil => exact ⟨c, hc, by simp [negc, val]; omega, rfl, by simp [negc, Wf]⟩
  | cons v vs ih =>
    obtain ⟨hl, hc'⟩ := neg_limb B v c hB hv.head hc
    obtain ⟨cout, hco, he, hlen, hwf⟩ := ih _ hc' hv.tail
    refine ⟨cout, hco, ?_, by simp [negc, hlen], Wf.cons (Nat.mod_lt _ (by omega)) hwf⟩
    simp only [negc, val_cons, List.length_cons] at hl he ⊢
    rw [Nat.pow_succ]
    have hvB := hv.head
    generalize (if (B - 1 - v + c) % B < B - 1 - v then 1 else 0) = c' at *
    generalize val B (negc B vs c') = vo at *
    generalize (B - 1 - v + c) % B = o at *
    generalize B ^ vs.length = M at *
    have e1 : B * (vo + M * cout + val B vs + 1) = B * (M + c') := by rw [he]
    rw [Nat.mul_add, Nat.mul_add, Nat.mul_add, Nat.mul_add] at e1
    have e2 : M * B * cout = B * (M * cout) := by rw [Nat.mul_comm M B, Nat.mul_assoc]
    have e3 : M * B = B * M := Nat.mul_comm _ _
    rw [e2, e3]
    omega

/-- ferret_negate_limbs: two's complement negation, (B^n - v) mod B^n -/
theorem neg_val (B : Nat) (hB : 1 < B) (v : List Nat) (hv : Wf B v) :
    val B (neg B v) = (B ^ v.length - val B v) % B ^ v.length := by
  obtain ⟨cout, hco, he, hlen, hwf⟩ := negc_spec B hB v 1 (by omega) hv
  have hlt := val_lt B _ hwf
  have hvlt := val_lt B _ hv
  rw [hlen] at hlt
  unfold neg
  generalize val B (negc B v 1) = vo at *
  generalize B ^ v.length = M at *
  rcases Nat.eq_zero_or_pos cout with rfl | hp
  · have : M - val B v = vo := by omega
    rw [this, Nat.mod_eq_of_lt hlt]
  · have : cout = 1 := by omega
    subst this
    have h0 : val B v = 0 := by
      rcases Nat.eq_zero_or_pos (val B v) with h | h
      · exact h
      · exfalso
        have : M * 1 = M := Nat.mul_one M
        omega
    have hvo : vo = 0 := by
      have : M * 1 = M := Nat.mul_one M
      omega
    rw [h0, hvo, Nat.sub_zero, Nat.mod_self]

theorem mulRow_length (B a : Nat) (bs os : List Nat) (c : Nat) (h : os.length ≤ bs.length) :
    (mulRow B a bs os c).length = os.length := by
  induction os generalizing bs c with
  | nil => cases bs <;> simp [mulRow]
  | cons o os ih =>
    cases bs with
    | nil => simp at h
    | cons b bs => simp [mulRow, ih bs _ (by simpa using h)]

theorem mulRow_wf (B a : Nat) (hB : 0 < B) (bs os : List Nat) (c : Nat) : Wf B (mulRow B a bs os c) := by
  induction os generalizing bs c with
  | nil => cases bs <;> simp [mulRow, Wf]
  | cons o os ih =>
    cases bs with
    | nil => simp [mulRow, Wf]
    | cons b bs => exact Wf.cons (Nat.mod_lt _ hB) (ih bs _)

/-- one row of the schoolbook product, truncated to the slice length -/
theorem mulRow_val (B a : Nat) (hB : 0 < B) (bs os : List Nat) (c : Nat) (h : os.length ≤ bs.length) :
    val B (mulRow B a bs os c) = (val B os + a * val B bs + c) % B ^ os.length := by
  induction os generalizing bs c with
  | nil => cases bs <;> simp [mulRow, val, Nat.mod_one]
  | cons o os ih =>
    cases bs with
    | nil => simp at h
    | cons b bs =>
      have h' : os.length ≤ bs.length := by simpa using h
      simp only [mulRow, val_cons, List.length_cons]
      rw [ih bs _ h', Nat.pow_succ, Nat.mul_comm (B ^ os.length) B]
      generalize B ^ os.length = M
      have key : o + B * val B os + a * (b + B * val B bs) + c
          = (a * b + o + c) % B + B * (val B os + a * val B bs + (a * b + o + c) / B) := by
        have := Nat.mod_add_div (a * b + o + c) B
        rw [Nat.mul_add, Nat.mul_add, Nat.mul_add, Nat.mul_left_comm a B]
        omega
      rw [key, mod_mul_split (Nat.mod_lt _ hB)]

theorem mulLoop_length (B : Nat) (as b out : List Nat) (h : as.length = out.length) (hb : out.length ≤ b.length) :
    (mulLoop B as b out).length = out.length := by
  induction as generalizing out with
  | nil => simp [mulLoop]
  | cons a as ih =>
    cases out with
    | nil => simp at h
    | cons o os =>
      have hl := mulRow_length B a b (o :: os) 0 hb
      unfold mulLoop
      match hr : mulRow B a b (o :: os) 0 with
      | [] => rw [hr] at hl; simp at hl
      | r :: rs =>
        rw [hr] at hl
        have hrs : rs.length = os.length := by simpa using hl
        simp only [List.length_cons]
        rw [ih rs (by simp at h; omega) (by simp at hb; omega), hrs]

theorem mulLoop_val (B : Nat) (hB : 0 < B) (as b out : List Nat) (h : as.length = out.length)
    (hb : out.length ≤ b.length) :
    val B (mulLoop B as b out) = (val B out + val B as * val B b) % B ^ out.length := by
  induction as generalizing out with
  | nil =>
    cases out with
    | nil => simp [mulLoop, val, Nat.mod_one]
    | cons o os => simp at h
  | cons a as ih =>
    cases out with
    | nil => simp at h
    | cons o os =>
      have hl := mulRow_length B a b (o :: os) 0 hb
      have hv := mulRow_val B a hB b (o :: os) 0 hb
      have hw := mulRow_wf B a hB b (o :: os) 0
      unfold mulLoop
      match hr : mulRow B a b (o :: os) 0 with
      | [] => rw [hr] at hl; simp at hl
      | r :: rs =>
        rw [hr] at hl hv hw
        have hrs : rs.length = os.length := by simpa using hl
        have hrB : r < B := hw.head
        have ih' := ih rs (by simp at h; omega) (by simp at hb; omega)
        simp only [val_cons, List.length_cons, Nat.add_zero] at hv ⊢
        rw [ih', hrs, Nat.pow_succ, Nat.mul_comm (B ^ os.length) B]
        rw [Nat.pow_succ, Nat.mul_comm (B ^ os.length) B] at hv
        generalize B ^ os.length = M at *
        -- X := value before reduction of the row
        have hX : (o + B * val B os + a * val B b) % (B * M) = r + B * val B rs := hv.symm
        have : (o + B * val B os + (a + B * val B as) * val B b) % (B * M)
             = (r + B * (val B rs + val B as * val B b)) % (B * M) := by
          have e : o + B * val B os + (a + B * val B as) * val B b
                = (o + B * val B os + a * val B b) + B * (val B as * val B b) := by
            rw [Nat.add_mul, Nat.mul_assoc]; omega
          rw [e, Nat.add_mod, hX, Nat.add_mod_mod, Nat.mul_add, Nat.add_assoc]
        rw [this, mod_mul_split hrB]

theorem val_replicate_zero (B n : Nat) : val B (List.replicate n 0) = 0 := by
  induction n with
  | zero => rfl
  | succ n ih => rw [List.replicate_succ, val_cons, ih]; simp

theorem val_zero (B n : Nat) : val B (zero n) = 0 := val_replicate_zero B n

/-- ferret_mul_limbs: exact product reduced modulo B^n -/
theorem mul_val (B : Nat) (hB : 0 < B) (a b : List Nat) (h : a.length = b.length) :
    val B (mul B a b) = (val B a * val B b) % B ^ a.length := by
  unfold mul
  rw [mulLoop_val B hB a b (zero a.length) (by simp [zero]) (by simp [zero]; omega)]
  simp [val_zero, zero, val_replicate_zero]

theorem mul_length (B : Nat) (a b : List Nat) (h : a.length = b.length) : (mul B a b).length = a.length := by
  unfold mul
  rw [mulLoop_length B a b (zero a.length) (by simp [zero]) (by simp [zero]; omega)]
  simp [zero]

/-- ferret_mul_add_small: v*base + digit, with carry-out -/
theorem mulAddSmall_spec (B base : Nat) (hB : 0 < B) (vs : List Nat) (c : Nat) :
    val B (mulAddSmall B base vs c) = (val B vs * base + c) % B ^ vs.length := by
  induction vs generalizing c with
  | nil => simp [mulAddSmall, val, Nat.mod_one]
  | cons v vs ih =>
    simp only [mulAddSmall, val_cons, List.length_cons]
    rw [ih, Nat.pow_succ, Nat.mul_comm (B ^ vs.length) B]
    generalize B ^ vs.length = M
    have key : (v + B * val B vs) * base + c = (v * base + c) % B + B * (val B vs * base + (v * base + c) / B) := by
      have := Nat.mod_add_div (v * base + c) B
      rw [Nat.add_mul, Nat.mul_add, Nat.mul_assoc]
      omega
    rw [key, mod_mul_split (Nat.mod_lt _ hB)]

/-- ferret_div_small_limbs: quotient and remainder by a small divisor -/
theorem divSmall_spec (B d : Nat) (hd : 0 < d) (vs : List Nat) :
    val B (divSmall B d vs).1 * d + (divSmall B d vs).2 = val B vs ∧ (divSmall B d vs).2 < d := by
  induction vs with
  | nil => simp [divSmall, val, hd]
  | cons v vs ih =>
    obtain ⟨ih1, ih2⟩ := ih
    simp only [divSmall, val_cons]
    generalize (divSmall B d vs).1 = qs at *
    generalize (divSmall B d vs).2 = rem at *
    refine ⟨?_, Nat.mod_lt _ hd⟩
    have := Nat.div_add_mod (rem * B + v) d
    rw [← ih1, Nat.add_mul, Nat.mul_add, Nat.mul_comm d ((rem * B + v) / d)] at *
    have e : B * (val B qs * d) = B * val B qs * d := by rw [Nat.mul_assoc]
    have e2 : B * rem = rem * B := Nat.mul_comm _ _
    omega

/-- ferret_cmp_u_limbs decides the order of the values -/
theorem cmpU_spec (B : Nat) (as bs : List Nat) (h : as.length = bs.length) (ha : Wf B as) (hb : Wf B bs) :
    cmpU as bs = compare (val B as) (val B bs) := by
  induction as generalizing bs with
  | nil => cases bs <;> simp_all [cmpU, val]
  | cons a as ih =>
    cases bs with
    | nil => simp at h
    | cons b bs =>
      have ih' := ih bs (by simpa using h) ha.tail hb.tail
      have haB := ha.head
      have hbB := hb.head
      simp only [cmpU, val_cons]
      rw [ih']
      rcases Nat.lt_trichotomy (val B as) (val B bs) with hlt | heq | hgt
      · rw [Nat.compare_eq_lt.2 hlt]
        symm; apply Nat.compare_eq_lt.2
        have : B * (val B as + 1) ≤ B * val B bs := Nat.mul_le_mul_left _ hlt
        rw [Nat.mul_add] at this; omega
      · rw [heq, Nat.compare_eq_eq.2 rfl]
        rcases Nat.lt_trichotomy a b with h1 | h1 | h1
        · rw [Nat.compare_eq_lt.2 h1]; symm; apply Nat.compare_eq_lt.2; omega
        · rw [h1]; simp
        · rw [Nat.compare_eq_gt.2 h1]; symm; apply Nat.compare_eq_gt.2; omega
      · rw [Nat.compare_eq_gt.2 hgt]
        symm; apply Nat.compare_eq_gt.2
        have : B * (val B bs + 1) ≤ B * val B as := Nat.mul_le_mul_left _ hgt
        rw [Nat.mul_add] at this; omega

end FerretVerif.Limbs
