/-
  Proofs/LimbsShift.lean — value-level correctness of the multi-limb shifts
  (ferret_shift_left_limbs / ferret_shift_right_limbs / ferret_shift_right_signed_limbs).
  Route: pure-Nat digit identities by bit extensionality, then `limb_map_range` + `val_of_limbs`.
-/
import FerretVerif.Proofs.LimbsBase
namespace FerretVerif.Limbs

theorem pow_base (w i : Nat) : (2 ^ w) ^ i = 2 ^ (w * i) := (Nat.pow_mul 2 w i).symm

theorem limb_zero (n i : Nat) : limb (zero n) i = 0 := by
  rw [limb_eq 2 (by omega) _ (zero_wf 2 n (by omega)), val_zero, Nat.zero_div, Nat.zero_mod]

/-- low digits of a left-shifted value vanish -/
theorem digit_mul_two_pow_low (w A s i : Nat) (h : w * (i + 1) ≤ s) :
    (A * 2 ^ s / 2 ^ (w * i)) % 2 ^ w = 0 := by
  apply Nat.eq_of_testBit_eq
  intro j
  rw [Nat.mul_succ] at h
  simp only [Nat.testBit_mod_two_pow, Nat.testBit_div_two_pow, Nat.testBit_mul_two_pow, Nat.zero_testBit]
  by_cases hj : j < w
  · have : ¬ (s ≤ j + w * i) := by omega
    simp [this]
  · simp [hj]

theorem shl_length (w : Nat) (a : List Nat) (s : Int) : (shl w a s).length = a.length := by
  unfold shl
  simp only []
  split
  · rfl
  · split
    · exact zero_length _
    · simp


/-- digit `k` (base `2^w`) of `A * 2^bs`, `bs < w` -/
theorem shl_digit (w A bs k : Nat) (hbs : bs < w) :
    (A * 2 ^ bs / 2 ^ (w * k)) % 2 ^ w =
      if bs ≠ 0 ∧ k > 0 then
        ((A / 2 ^ (w * k)) % 2 ^ w * 2 ^ bs) % 2 ^ w ||| ((A / 2 ^ (w * (k - 1))) % 2 ^ w) / 2 ^ (w - bs)
      else ((A / 2 ^ (w * k)) % 2 ^ w * 2 ^ bs) % 2 ^ w := by
  apply Nat.eq_of_testBit_eq
  intro j
  split
  · rename_i hc
    obtain ⟨hb0, hk⟩ := hc
    obtain ⟨k', rfl⟩ : ∃ k', k = k' + 1 := ⟨k - 1, by omega⟩
    simp only [Nat.add_sub_cancel, Nat.mul_succ]
    generalize w * k' = P
    simp only [Nat.testBit_or, Nat.testBit_mod_two_pow, Nat.testBit_div_two_pow, Nat.testBit_mul_two_pow]
    by_cases hj : j < w
    · by_cases hjb : bs ≤ j
      · have e1 : j + (P + w) - bs = j - bs + (P + w) := by omega
        have h1 : bs ≤ j + (P + w) := by omega
        have h2 : j - bs < w := by omega
        have h3 : ¬ (j + (w - bs) < w) := by omega
        simp [hj, hjb, e1, h1, h2, h3]
      · have e1 : j + (P + w) - bs = j + (w - bs) + P := by omega
        have h1 : bs ≤ j + (P + w) := by omega
        have h3 : (j + (w - bs) < w) := by omega
        simp [hj, hjb, e1, h1, h3]
    · simp [hj]
      omega
  · rename_i hc
    simp only [Nat.testBit_mod_two_pow, Nat.testBit_div_two_pow, Nat.testBit_mul_two_pow]
    by_cases hj : j < w
    · by_cases hjb : bs ≤ j
      · have e1 : j + w * k - bs = j - bs + w * k := by omega
        have h1 : bs ≤ j + w * k := by omega
        have h2 : j - bs < w := by omega
        simp [hj, hjb, e1, h1, h2]
      · have hk : k = 0 := by
          rcases Nat.eq_zero_or_pos k with h | h
          · exact h
          · exfalso; exact hc ⟨by omega, h⟩
        subst hk
        have h1 : ¬ (bs ≤ j) := hjb
        simp [hj, h1]
    · simp [hj]


/-- digit `k` (base `2^w`) of `A / 2^bs`, `bs < w` -/
theorem shr_digit (w A bs k : Nat) (hbs : bs < w) :
    (A / 2 ^ bs / 2 ^ (w * k)) % 2 ^ w =
      if bs ≠ 0 then
        ((A / 2 ^ (w * k)) % 2 ^ w) / 2 ^ bs ||| ((A / 2 ^ (w * (k + 1))) % 2 ^ w * 2 ^ (w - bs)) % 2 ^ w
      else ((A / 2 ^ (w * k)) % 2 ^ w) / 2 ^ bs := by
  apply Nat.eq_of_testBit_eq
  intro j
  split
  · rename_i hb0
    simp only [Nat.mul_succ]
    generalize w * k = P
    simp only [Nat.testBit_or, Nat.testBit_mod_two_pow, Nat.testBit_div_two_pow, Nat.testBit_mul_two_pow]
    by_cases hj : j < w
    · by_cases hjb : j + bs < w
      · have h3 : ¬ (w - bs ≤ j) := by omega
        have e1 : j + bs + P = j + P + bs := by omega
        simp [hj, hjb, h3, e1]
      · have e1 : j - (w - bs) + (P + w) = j + P + bs := by omega
        have h1 : w - bs ≤ j := by omega
        have h2 : j - (w - bs) < w := by omega
        simp [hj, hjb, e1, h1, h2]
    · simp [hj]
      omega
  · rename_i hb0
    have : bs = 0 := by omega
    subst this
    simp only [Nat.pow_zero, Nat.div_one]

/-- every limb of the left shift is the corresponding digit of `val a * 2^s` -/
theorem shl_limbs (w : Nat) (hw : 0 < w) (a : List Nat) (ha : Wf (2 ^ w) a) (s : Int) (hs : 0 < s)
    (i : Nat) (hi : i < a.length) :
    limb (shl w a s) i = (val (2 ^ w) a * 2 ^ s.toNat / (2 ^ w) ^ i) % 2 ^ w := by
  have hS : ¬ s ≤ 0 := by omega
  rw [pow_base]
  unfold shl
  simp only [if_neg hS]
  by_cases hbig : s ≥ ((a.length * w : Nat) : Int)
  · rw [if_pos hbig, limb_zero, digit_mul_two_pow_low]
    have : w * (i + 1) ≤ w * a.length := Nat.mul_le_mul_left _ hi
    rw [Nat.mul_comm w a.length] at this
    omega
  · rw [if_neg hbig, limb_map_range _ _ _ hi]
    generalize hSdef : s.toNat = S
    have hdm := Nat.div_add_mod S w
    have hbs : S % w < w := Nat.mod_lt _ hw
    generalize S / w = ws at *
    generalize S % w = bs at *
    by_cases hiw : i < ws
    · rw [if_pos hiw, digit_mul_two_pow_low]
      have : w * (i + 1) ≤ w * ws := Nat.mul_le_mul_left _ hiw
      omega
    · rw [if_neg hiw]
      obtain ⟨k, rfl⟩ : ∃ k, i = k + ws := ⟨i - ws, by omega⟩
      simp only [Nat.add_sub_cancel]
      have e : val (2 ^ w) a * 2 ^ S / 2 ^ (w * (k + ws)) = val (2 ^ w) a * 2 ^ bs / 2 ^ (w * k) := by
        rw [← hdm, Nat.mul_add, Nat.pow_add, Nat.pow_add, Nat.mul_comm (2 ^ (w * ws)) (2 ^ bs), ← Nat.mul_assoc,
          Nat.mul_div_mul_right _ _ (Nat.two_pow_pos _)]
      rw [e, shl_digit w _ bs k hbs, limb_eq (2 ^ w) (Nat.two_pow_pos _) a ha, limb_eq (2 ^ w) (Nat.two_pow_pos _) a ha,
        pow_base, pow_base]

theorem shl_nonpos (w : Nat) (a : List Nat) (s : Int) (hs : s ≤ 0) : shl w a s = a := by
  unfold shl
  simp only [if_pos hs]

theorem shl_wf (w : Nat) (hw : 0 < w) (a : List Nat) (ha : Wf (2 ^ w) a) (s : Int) : Wf (2 ^ w) (shl w a s) := by
  by_cases hs : s ≤ 0
  · rw [shl_nonpos w a s hs]; exact ha
  · apply wf_of_limbs
    intro i hi
    rw [shl_length] at hi
    rw [shl_limbs w hw a ha s (by omega) i hi]
    exact Nat.mod_lt _ (Nat.two_pow_pos _)

/-- ferret_shift_left_limbs: `val a * 2^s` reduced modulo `B^n` -/
theorem shl_val (w : Nat) (hw : 0 < w) (a : List Nat) (ha : Wf (2 ^ w) a) (s : Int) :
    val (2 ^ w) (shl w a s) =
      if s ≤ 0 then val (2 ^ w) a else (val (2 ^ w) a * 2 ^ s.toNat) % (2 ^ w) ^ a.length := by
  by_cases hs : s ≤ 0
  · rw [if_pos hs, shl_nonpos w a s hs]
  · rw [if_neg hs, ← shl_length w a s]
    apply val_of_limbs _ (Nat.two_pow_pos _)
    intro i hi
    rw [shl_length] at hi
    exact shl_limbs w hw a ha s (by omega) i hi

/-! ### logical right shift -/

theorem shr_length (w : Nat) (a : List Nat) (s : Int) : (shr w a s).length = a.length := by
  unfold shr
  simp only []
  split
  · rfl
  · split
    · exact zero_length _
    · simp

theorem shr_nonpos (w : Nat) (a : List Nat) (s : Int) (hs : s ≤ 0) : shr w a s = a := by
  unfold shr
  simp only [if_pos hs]

/-- digits at or above the length vanish -/
theorem digit_high (w A n m : Nat) (hA : A < 2 ^ (w * n)) (hm : w * n ≤ m) : A / 2 ^ m = 0 := by
  apply Nat.div_eq_of_lt
  exact Nat.lt_of_lt_of_le hA (Nat.pow_le_pow_right (by omega) hm)

/-- every limb of the right shift is the corresponding digit of `val a / 2^s` -/
theorem shr_limbs (w : Nat) (hw : 0 < w) (a : List Nat) (ha : Wf (2 ^ w) a) (s : Int) (hs : 0 < s)
    (i : Nat) (hi : i < a.length) :
    limb (shr w a s) i = (val (2 ^ w) a / 2 ^ s.toNat / (2 ^ w) ^ i) % 2 ^ w := by
  have hS : ¬ s ≤ 0 := by omega
  have hA := val_lt _ _ ha
  rw [pow_base] at hA ⊢
  rw [Nat.div_div_eq_div_mul, ← Nat.pow_add]
  unfold shr
  simp only [if_neg hS]
  by_cases hbig : s ≥ ((a.length * w : Nat) : Int)
  · rw [if_pos hbig, limb_zero, digit_high w _ a.length _ hA, Nat.zero_mod]
    rw [Nat.mul_comm w a.length]
    omega
  · rw [if_neg hbig, limb_map_range _ _ _ hi]
    generalize hSdef : s.toNat = S
    have hdm := Nat.div_add_mod S w
    have hbs : S % w < w := Nat.mod_lt _ hw
    generalize S / w = ws at *
    generalize S % w = bs at *
    by_cases hsrc : i + ws ≥ a.length
    · rw [if_pos hsrc, digit_high w _ a.length _ hA, Nat.zero_mod]
      have : w * a.length ≤ w * (i + ws) := Nat.mul_le_mul_left _ hsrc
      rw [Nat.mul_add] at this
      omega
    · rw [if_neg hsrc]
      have e : val (2 ^ w) a / 2 ^ (S + w * i) = val (2 ^ w) a / 2 ^ bs / 2 ^ (w * (i + ws)) := by
        rw [Nat.div_div_eq_div_mul, ← Nat.pow_add]
        congr 2
        rw [Nat.mul_add]; omega
      rw [e, shr_digit w _ bs (i + ws) hbs, limb_eq (2 ^ w) (Nat.two_pow_pos _) a ha,
        limb_eq (2 ^ w) (Nat.two_pow_pos _) a ha, pow_base, pow_base]
      by_cases hb0 : bs ≠ 0
      · rw [if_pos hb0]
        by_cases hlast : i + ws + 1 < a.length
        · rw [if_pos ⟨hb0, hlast⟩]
        · rw [if_neg (fun h => hlast h.2), digit_high w _ a.length (w * (i + ws + 1)) hA, Nat.zero_mod, Nat.zero_mul, Nat.zero_mod,
            Nat.or_zero]
          exact Nat.mul_le_mul_left _ (by omega)
      · rw [if_neg hb0, if_neg (fun h => hb0 h.1)]

theorem shr_wf (w : Nat) (hw : 0 < w) (a : List Nat) (ha : Wf (2 ^ w) a) (s : Int) : Wf (2 ^ w) (shr w a s) := by
  by_cases hs : s ≤ 0
  · rw [shr_nonpos w a s hs]; exact ha
  · apply wf_of_limbs
    intro i hi
    rw [shr_length] at hi
    rw [shr_limbs w hw a ha s (by omega) i hi]
    exact Nat.mod_lt _ (Nat.two_pow_pos _)

/-- ferret_shift_right_limbs: `val a / 2^s` -/
theorem shr_val (w : Nat) (hw : 0 < w) (a : List Nat) (ha : Wf (2 ^ w) a) (s : Int) :
    val (2 ^ w) (shr w a s) = if s ≤ 0 then val (2 ^ w) a else val (2 ^ w) a / 2 ^ s.toNat := by
  by_cases hs : s ≤ 0
  · rw [if_pos hs, shr_nonpos w a s hs]
  · rw [if_neg hs]
    have h := val_of_limbs (2 ^ w) (Nat.two_pow_pos _) (shr w a s) (val (2 ^ w) a / 2 ^ s.toNat) (by
      intro i hi
      rw [shr_length] at hi
      exact shr_limbs w hw a ha s (by omega) i hi)
    rw [h, shr_length]
    apply Nat.mod_eq_of_lt
    exact Nat.lt_of_le_of_lt (Nat.div_le_self _ _) (val_lt _ _ ha)

end FerretVerif.Limbs
