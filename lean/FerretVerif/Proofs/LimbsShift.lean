/-
  Proofs/LimbsShift.lean — value-level correctness of the multi-limb shifts
  (ferret_shift_left_limbs / ferret_shift_right_limbs / ferret_shift_right_signed_limbs).
  Route: pure-Nat digit identities by bit extensionality, then `limb_map_range` + `val_of_limbs`.
-/
import FerretVerif.Proofs.LimbsBase
namespace FerretVerif.Limbs

theorem pow_base (w i : Nat) : (2 ^ w) ^ i = 2 ^ (w * i) := (Nat.pow_mul 2 w i).symm

theorem limb_zero (n i : Nat) : limb (zero n) i = 0 := by
  rw [limb_eq 2 (by omega) _ (zero_wf 2 n (by omega)), val_zero, Nat.zero_div, Nat.zero_mod]

/-- low digits of a left-shifted value vanish -/
theorem digit_mul_two_pow_low (w A s i : Nat) (h : w * (i + 1) ≤ s) :
    (A * 2 ^ s / 2 ^ (w * i)) % 2 ^ w = 0 := by
  apply Nat.eq_of_testBit_eq
  intro j
  rw [Nat.mul_succ] at h
  simp only [Nat.testBit_mod_two_pow, Nat.testBit_div_two_pow, Nat.testBit_mul_two_pow, Nat.zero_testBit]
  by_cases hj : j < w
  · have : ¬ (s ≤ j + w * i) := by omega
    simp [this]
  · simp [hj]

theorem shl_length (w : Nat) (a : List Nat) (s : Int) : (shl w a s).length = a.length := by
  unfold shl
  simp only []
  split
  · rfl
  · split
    · exact zero_length _
    · simp


/-! ### pure-Nat digit identities -/

/-- digit `k` (base `2^w`) of `A * 2^bs`, `bs < w` -/
theorem shl_digit (w A bs k : Nat) (hbs : bs < w) :
    (A * 2 ^ bs / 2 ^ (w * k)) % 2 ^ w =
      if bs ≠ 0 ∧ k > 0 then
        ((A / 2 ^ (w * k)) % 2 ^ w * 2 ^ bs) % 2 ^ w ||| ((A / 2 ^ (w * (k - 1))) % 2 ^ w) / 2 ^ (w - bs)
      else ((A / 2 ^ (w * k)) % 2 ^ w * 2 ^ bs) % 2 ^ w := by
  apply Nat.eq_of_testBit_eq
  intro j
  split
  · rename_i hc
    obtain ⟨hb0, hk⟩ := hc
    obtain ⟨k', rfl⟩ : ∃ k', k = k' + 1 := ⟨k - 1, by omega⟩
    simp only [Nat.add_sub_cancel, Nat.mul_succ]
    generalize w * k' = P
    simp only [Nat.testBit_or, Nat.testBit_mod_two_pow, Nat.testBit_div_two_pow, Nat.testBit_mul_two_pow]
    by_cases hj : j < w
    · by_cases hjb : bs ≤ j
      · have e1 : j + (P + w) - bs = j - bs + (P + w) := by omega
        have h1 : bs ≤ j + (P + w) := by omega
        have h2 : j - bs < w := by omega
        have h3 : ¬ (j + (w - bs) < w) := by omega
        simp [hj, hjb, e1, h1, h2, h3]
      · have e1 : j + (P + w) - bs = j + (w - bs) + P := by omega
        have h1 : bs ≤ j + (P + w) := by omega
        have h3 : (j + (w - bs) < w) := by omega
        simp [hj, hjb, e1, h1, h3]
    · simp [hj]
      omega
  · rename_i hc
    simp only [Nat.testBit_mod_two_pow, Nat.testBit_div_two_pow, Nat.testBit_mul_two_pow]
    by_cases hj : j < w
    · by_cases hjb : bs ≤ j
      · have e1 : j + w * k - bs = j - bs + w * k := by omega
        have h1 : bs ≤ j + w * k := by omega
        have h2 : j - bs < w := by omega
        simp [hj, hjb, e1, h1, h2]
      · have hk : k = 0 := by
          rcases Nat.eq_zero_or_pos k with h | h
          · exact h
          · exfalso; exact hc ⟨by omega, h⟩
        subst hk
        have h1 : ¬ (bs ≤ j) := hjb
        simp [hj, h1]
    · simp [hj]


/-- digit `k` (base `2^w`) of `A / 2^bs`, `bs < w` -/
theorem shr_digit (w A bs k : Nat) (hbs : bs < w) :
    (A / 2 ^ bs / 2 ^ (w * k)) % 2 ^ w =
      if bs ≠ 0 then
        ((A / 2 ^ (w * k)) % 2 ^ w) / 2 ^ bs ||| ((A / 2 ^ (w * (k + 1))) % 2 ^ w * 2 ^ (w - bs)) % 2 ^ w
      else ((A / 2 ^ (w * k)) % 2 ^ w) / 2 ^ bs := by
  apply Nat.eq_of_testBit_eq
  intro j
  split
  · rename_i hb0
    simp only [Nat.mul_succ]
    generalize w * k = P
    simp only [Nat.testBit_or, Nat.testBit_mod_two_pow, Nat.testBit_div_two_pow, Nat.testBit_mul_two_pow]
    by_cases hj : j < w
    · by_cases hjb : j + bs < w
      · have h3 : ¬ (w - bs ≤ j) := by omega
        have e1 : j + bs + P = j + P + bs := by omega
        simp [hj, hjb, h3, e1]
      · have e1 : j - (w - bs) + (P + w) = j + P + bs := by omega
        have h1 : w - bs ≤ j := by omega
        have h2 : j - (w - bs) < w := by omega
        simp [hj, hjb, e1, h1, h2]
    · simp [hj]
      omega
  · rename_i hb0
    have : bs = 0 := by omega
    subst this
    simp only [Nat.pow_zero, Nat.div_one]

/-- every limb of the left shift is the corresponding digit of `val a * 2^s` -/
theorem shl_limbs (w : Nat) (hw : 0 < w) (a : List Nat) (ha : Wf (2 ^ w) a) (s : Int) (hs : 0 < s)
    (i : Nat) (hi : i < a.length) :
    limb (shl w a s) i = (val (2 ^ w) a * 2 ^ s.toNat / (2 ^ w) ^ i) % 2 ^ w := by
  have hS : ¬ s ≤ 0 := by omega
  rw [pow_base]
  unfold shl
  simp only [if_neg hS]
  by_cases hbig : s ≥ ((a.length * w : Nat) : Int)
  · rw [if_pos hbig, limb_zero, digit_mul_two_pow_low]
    have : w * (i + 1) ≤ w * a.length := Nat.mul_le_mul_left _ hi
    rw [Nat.mul_comm w a.length] at this
    omega
  · rw [if_neg hbig, limb_map_range _ _ _ hi]
    generalize hSdef : s.toNat = S
    have hdm := Nat.div_add_mod S w
    have hbs : S % w < w := Nat.mod_lt _ hw
    generalize S / w = ws at *
    generalize S % w = bs at *
    by_cases hiw : i < ws
    · rw [if_pos hiw, digit_mul_two_pow_low]
      have : w * (i + 1) ≤ w * ws := Nat.mul_le_mul_left _ hiw
      omega
    · rw [if_neg hiw]
      obtain ⟨k, rfl⟩ : ∃ k, i = k + ws := ⟨i - ws, by omega⟩
      simp only [Nat.add_sub_cancel]
      have e : val (2 ^ w) a * 2 ^ S / 2 ^ (w * (k + ws)) = val (2 ^ w) a * 2 ^ bs / 2 ^ (w * k) := by
        rw [← hdm, Nat.mul_add, Nat.pow_add, Nat.pow_add, Nat.mul_comm (2 ^ (w * ws)) (2 ^ bs), ← Nat.mul_assoc,
          Nat.mul_div_mul_right _ _ (Nat.two_pow_pos _)]
      rw [e, shl_digit w _ bs k hbs, limb_eq (2 ^ w) (Nat.two_pow_pos _) a ha, limb_eq (2 ^ w) (Nat.two_pow_pos _) a ha,
        pow_base, pow_base]

/-! ### left shift -/

theorem shl_nonpos (w : Nat) (a : List Nat) (s : Int) (hs : s ≤ 0) : shl w a s = a := by
  unfold shl
  simp only [if_pos hs]

theorem shl_wf (w : Nat) (hw : 0 < w) (a : List Nat) (ha : Wf (2 ^ w) a) (s : Int) : Wf (2 ^ w) (shl w a s) := by
  by_cases hs : s ≤ 0
  · rw [shl_nonpos w a s hs]; exact ha
  · apply wf_of_limbs
    intro i hi
    rw [shl_length] at hi
    rw [shl_limbs w hw a ha s (by omega) i hi]
    exact Nat.mod_lt _ (Nat.two_pow_pos _)

/-- ferret_shift_left_limbs: `val a * 2^s` reduced modulo `B^n` -/
theorem shl_val (w : Nat) (hw : 0 < w) (a : List Nat) (ha : Wf (2 ^ w) a) (s : Int) :
    val (2 ^ w) (shl w a s) =
      if s ≤ 0 then val (2 ^ w) a else (val (2 ^ w) a * 2 ^ s.toNat) % (2 ^ w) ^ a.length := by
  by_cases hs : s ≤ 0
  · rw [if_pos hs, shl_nonpos w a s hs]
  · rw [if_neg hs, ← shl_length w a s]
    apply val_of_limbs _ (Nat.two_pow_pos _)
    intro i hi
    rw [shl_length] at hi
    exact shl_limbs w hw a ha s (by omega) i hi

/-! ### logical right shift -/

theorem shr_length (w : Nat) (a : List Nat) (s : Int) : (shr w a s).length = a.length := by
  unfold shr
  simp only []
  split
  · rfl
  · split
    · exact zero_length _
    · simp

theorem shr_nonpos (w : Nat) (a : List Nat) (s : Int) (hs : s ≤ 0) : shr w a s = a := by
  unfold shr
  simp only [if_pos hs]

/-- digits at or above the length vanish -/
theorem digit_high (w A n m : Nat) (hA : A < 2 ^ (w * n)) (hm : w * n ≤ m) : A / 2 ^ m = 0 := by
  apply Nat.div_eq_of_lt
  exact Nat.lt_of_lt_of_le hA (Nat.pow_le_pow_right (by omega) hm)

/-- every limb of the right shift is the corresponding digit of `val a / 2^s` -/
theorem shr_limbs (w : Nat) (hw : 0 < w) (a : List Nat) (ha : Wf (2 ^ w) a) (s : Int) (hs : 0 < s)
    (i : Nat) (hi : i < a.length) :
    limb (shr w a s) i = (val (2 ^ w) a / 2 ^ s.toNat / (2 ^ w) ^ i) % 2 ^ w := by
  have hS : ¬ s ≤ 0 := by omega
  have hA := val_lt _ _ ha
  rw [pow_base] at hA ⊢
  rw [Nat.div_div_eq_div_mul, ← Nat.pow_add]
  unfold shr
  simp only [if_neg hS]
  by_cases hbig : s ≥ ((a.length * w : Nat) : Int)
  · rw [if_pos hbig, limb_zero, digit_high w _ a.length _ hA, Nat.zero_mod]
    rw [Nat.mul_comm w a.length]
    omega
  · rw [if_neg hbig, limb_map_range _ _ _ hi]
    generalize hSdef : s.toNat = S
    have hdm := Nat.div_add_mod S w
    have hbs : S % w < w := Nat.mod_lt _ hw
    generalize S / w = ws at *
    generalize S % w = bs at *
    by_cases hsrc : i + ws ≥ a.length
    · rw [if_pos hsrc, digit_high w _ a.length _ hA, Nat.zero_mod]
      have : w * a.length ≤ w * (i + ws) := Nat.mul_le_mul_left _ hsrc
      rw [Nat.mul_add] at this
      omega
    · rw [if_neg hsrc]
      have e : val (2 ^ w) a / 2 ^ (S + w * i) = val (2 ^ w) a / 2 ^ bs / 2 ^ (w * (i + ws)) := by
        rw [Nat.div_div_eq_div_mul, ← Nat.pow_add]
        congr 2
        rw [Nat.mul_add]; omega
      rw [e, shr_digit w _ bs (i + ws) hbs, limb_eq (2 ^ w) (Nat.two_pow_pos _) a ha,
        limb_eq (2 ^ w) (Nat.two_pow_pos _) a ha, pow_base, pow_base]
      by_cases hb0 : bs ≠ 0
      · rw [if_pos hb0]
        by_cases hlast : i + ws + 1 < a.length
        · rw [if_pos ⟨hb0, hlast⟩]
        · rw [if_neg (fun h => hlast h.2), digit_high w _ a.length (w * (i + ws + 1)) hA, Nat.zero_mod, Nat.zero_mul, Nat.zero_mod,
            Nat.or_zero]
          exact Nat.mul_le_mul_left _ (by omega)
      · rw [if_neg hb0, if_neg (fun h => hb0 h.1)]

theorem shr_wf (w : Nat) (hw : 0 < w) (a : List Nat) (ha : Wf (2 ^ w) a) (s : Int) : Wf (2 ^ w) (shr w a s) := by
  by_cases hs : s ≤ 0
  · rw [shr_nonpos w a s hs]; exact ha
  · apply wf_of_limbs
    intro i hi
    rw [shr_length] at hi
    rw [shr_limbs w hw a ha s (by omega) i hi]
    exact Nat.mod_lt _ (Nat.two_pow_pos _)

/-- ferret_shift_right_limbs: `val a / 2^s` -/
theorem shr_val (w : Nat) (hw : 0 < w) (a : List Nat) (ha : Wf (2 ^ w) a) (s : Int) :
    val (2 ^ w) (shr w a s) = if s ≤ 0 then val (2 ^ w) a else val (2 ^ w) a / 2 ^ s.toNat := by
  by_cases hs : s ≤ 0
  · rw [if_pos hs, shr_nonpos w a s hs]
  · rw [if_neg hs]
    have h := val_of_limbs (2 ^ w) (Nat.two_pow_pos _) (shr w a s) (val (2 ^ w) a / 2 ^ s.toNat) (by
      intro i hi
      rw [shr_length] at hi
      exact shr_limbs w hw a ha s (by omega) i hi)
    rw [h, shr_length]
    apply Nat.mod_eq_of_lt
    exact Nat.lt_of_le_of_lt (Nat.div_le_self _ _) (val_lt _ _ ha)


/-! ### arithmetic right shift -/

theorem or_full_mask (w x : Nat) (hx : x < 2 ^ w) : x ||| (2 ^ w - 1) = 2 ^ w - 1 := by
  apply Nat.eq_of_testBit_eq
  intro j
  simp only [Nat.testBit_or, Nat.testBit_two_pow_sub_one]
  by_cases hj : j < w
  · simp [hj]
  · have : x.testBit j = false :=
      Nat.testBit_lt_two_pow (Nat.lt_of_lt_of_le hx (Nat.pow_le_pow_right (by omega) (by omega)))
    simp [hj, this]

/-- digit `i` of the sign-fill mask `(2^S - 1) * 2^(N - S)`, `N = w*n`, `S = w*ws + bs` -/
theorem mask_digit (w n ws bs i : Nat) (hbs : bs < w) (hi : i < n) (hS : w * ws + bs < w * n) :
    ((2 ^ (w * ws + bs) - 1) * 2 ^ (w * n - (w * ws + bs)) / 2 ^ (w * i)) % 2 ^ w =
      if i ≥ n - ws then 2 ^ w - 1
      else if bs ≠ 0 ∧ i = n - 1 - ws then ((2 ^ w - 1) * 2 ^ (w - bs)) % 2 ^ w
      else 0 := by
  have hi1 : w * (i + 1) ≤ w * n := Nat.mul_le_mul_left _ hi
  rw [Nat.mul_add, Nat.mul_one] at hi1
  apply Nat.eq_of_testBit_eq
  intro j
  simp only [Nat.testBit_mod_two_pow, Nat.testBit_div_two_pow, Nat.testBit_mul_two_pow,
    Nat.testBit_two_pow_sub_one]
  by_cases hj : j < w
  · by_cases hA : i ≥ n - ws
    · rw [if_pos hA]
      have h1 : w * n ≤ w * (i + ws) := Nat.mul_le_mul_left _ (by omega)
      rw [Nat.mul_add] at h1
      simp only [Nat.testBit_two_pow_sub_one]
      generalize w * n = N at *
      generalize w * ws = Q at *
      generalize w * i = P at *
      have c1 : N - (Q + bs) ≤ j + P := by omega
      have c2 : j + P - (N - (Q + bs)) < Q + bs := by omega
      simp [hj, c1, c2]
    · rw [if_neg hA]
      by_cases hB : bs ≠ 0 ∧ i = n - 1 - ws
      · rw [if_pos hB]
        have h1 : w * (i + 1 + ws) = w * n := by congr 1; omega
        rw [Nat.mul_add, Nat.mul_add, Nat.mul_one] at h1
        simp only [Nat.testBit_mod_two_pow, Nat.testBit_mul_two_pow, Nat.testBit_two_pow_sub_one]
        generalize w * n = N at *
        generalize w * ws = Q at *
        generalize w * i = P at *
        have c2 : j + P - (N - (Q + bs)) < Q + bs := by omega
        by_cases hjb : w - bs ≤ j
        · have c1 : N - (Q + bs) ≤ j + P := by omega
          have c3 : j - (w - bs) < w := by omega
          simp [hj, c1, c2, hjb, c3]
        · have c1 : ¬ (N - (Q + bs) ≤ j + P) := by omega
          simp [hj, c1, hjb]
      · rw [if_neg hB]
        have h1 : w * (i + 1 + ws) ≤ w * n := Nat.mul_le_mul_left _ (by omega)
        rw [Nat.mul_add, Nat.mul_add, Nat.mul_one] at h1
        have h2 : bs = 0 ∨ w * (i + 2 + ws) ≤ w * n := by
          rcases Nat.eq_zero_or_pos bs with h | h
          · exact Or.inl h
          · refine Or.inr (Nat.mul_le_mul_left _ ?_)
            have : i ≠ n - 1 - ws := fun h' => hB ⟨by omega, h'⟩
            omega
        rw [Nat.mul_add, Nat.mul_add] at h2
        generalize w * n = N at *
        generalize w * ws = Q at *
        generalize w * i = P at *
        have c1 : ¬ (N - (Q + bs) ≤ j + P) := by omega
        simp [c1]
  · simp only [hj, decide_false, Bool.false_and]
    split
    · simp [hj]
    · split
      · simp [hj]
      · simp


theorem sar_length (w : Nat) (a : List Nat) (s : Int) : (sar w a s).length = a.length := by
  unfold sar
  simp only []
  split
  · exact shr_length w a s
  · split
    · simp
    · split
      · exact shr_length w a s
      · simp

theorem sar_nonneg (w : Nat) (a : List Nat) (s : Int) (h : isNeg (2 ^ w) a = false) : sar w a s = shr w a s := by
  unfold sar
  simp [h]

/-- every limb of the arithmetic right shift of a negative value is the corresponding digit of
    `val a / 2^s ||| mask`, the mask being the top `s` bits -/
theorem sar_limbs (w : Nat) (hw : 0 < w) (a : List Nat) (ha : Wf (2 ^ w) a) (s : Int) (hs : 0 < s)
    (hlt : s < ((a.length * w : Nat) : Int)) (hneg : isNeg (2 ^ w) a = true)
    (i : Nat) (hi : i < a.length) :
    limb (sar w a s) i =
      ((val (2 ^ w) a / 2 ^ s.toNat ||| (2 ^ s.toNat - 1) * 2 ^ (w * a.length - s.toNat)) / (2 ^ w) ^ i) % 2 ^ w := by
  have hS : ¬ s ≤ 0 := by omega
  have hbig : ¬ s ≥ ((a.length * w : Nat) : Int) := by omega
  have hout := shr_limbs w hw a ha s hs
  have hwf := shr_wf w hw a ha s
  rw [pow_base, Nat.or_div_two_pow, Nat.or_mod_two_pow]
  unfold sar
  simp only [hneg, Bool.not_true, Bool.false_eq_true, if_false, if_neg hS, if_neg hbig]
  rw [limb_map_range _ _ _ hi]
  have hSN : s.toNat < w * a.length := by rw [Nat.mul_comm]; omega
  generalize hSdef : s.toNat = S at *
  have hdm := Nat.div_add_mod S w
  have hbs : S % w < w := Nat.mod_lt _ hw
  generalize S / w = ws at *
  generalize S % w = bs at *
  subst hdm
  rw [mask_digit w a.length ws bs i hbs hi hSN, ← pow_base, ← hout i hi]
  by_cases hA : i ≥ a.length - ws
  · rw [if_pos hA, if_pos hA, or_full_mask w _ (limb_lt _ (Nat.two_pow_pos _) _ hwf i)]
  · rw [if_neg hA, if_neg hA]
    by_cases hB : bs ≠ 0 ∧ i = a.length - 1 - ws
    · rw [if_pos hB, if_pos hB]
    · rw [if_neg hB, if_neg hB, Nat.or_zero]


theorem val_replicate_max (B n : Nat) (hB : 0 < B) : val B (List.replicate n (B - 1)) + 1 = B ^ n := by
  induction n with
  | zero => rfl
  | succ n ih =>
    rw [List.replicate_succ, val_cons, Nat.pow_succ, ← ih, Nat.add_mul, Nat.mul_comm _ B]
    omega

theorem sar_neg_big (w : Nat) (a : List Nat) (s : Int) (hneg : isNeg (2 ^ w) a = true)
    (hbig : s ≥ ((a.length * w : Nat) : Int)) : sar w a s = List.replicate a.length (2 ^ w - 1) := by
  unfold sar
  simp only [hneg, Bool.not_true, Bool.false_eq_true, if_false, if_pos hbig]

theorem sar_nonpos (w : Nat) (hw : 0 < w) (a : List Nat) (s : Int) (hS : s ≤ 0) : sar w a s = shr w a s := by
  by_cases hneg : isNeg (2 ^ w) a = true
  · by_cases hbig : s ≥ ((a.length * w : Nat) : Int)
    · exfalso
      have hn : a.length * w = 0 := by omega
      rcases Nat.mul_eq_zero.1 hn with h | h
      · have : a = [] := List.length_eq_zero_iff.1 h
        subst this
        simp [isNeg] at hneg
      · omega
    · unfold sar
      simp only [hneg, Bool.not_true, Bool.false_eq_true, if_false, if_neg hbig, if_pos hS]
  · rw [sar_nonneg w a s (by simpa using hneg)]

/-- model-level only: for `s < 0` on a negative value the C code has no such early exit (see report) -/
theorem sar_nonpos_eq (w : Nat) (hw : 0 < w) (a : List Nat) (s : Int) (hS : s ≤ 0) : sar w a s = a := by
  rw [sar_nonpos w hw a s hS, shr_nonpos w a s hS]

theorem sar_wf (w : Nat) (hw : 0 < w) (a : List Nat) (ha : Wf (2 ^ w) a) (s : Int) :
    Wf (2 ^ w) (sar w a s) := by
  have hB : 0 < 2 ^ w := Nat.two_pow_pos _
  by_cases hneg : isNeg (2 ^ w) a = true
  · by_cases hbig : s ≥ ((a.length * w : Nat) : Int)
    · rw [sar_neg_big w a s hneg hbig]
      exact wf_replicate _ _ _ (by omega)
    · by_cases hS : s ≤ 0
      · rw [sar_nonpos w hw a s hS]; exact shr_wf w hw a ha s
      · apply wf_of_limbs
        intro i hi
        rw [sar_length] at hi
        rw [sar_limbs w hw a ha s (by omega) (by omega) hneg i hi]
        exact Nat.mod_lt _ hB
  · rw [sar_nonneg w a s (by simpa using hneg)]
    exact shr_wf w hw a ha s

/-- the sign-fill mask as a difference of powers -/
theorem mask_eq (N S : Nat) (h : S ≤ N) : (2 ^ S - 1) * 2 ^ (N - S) = 2 ^ N - 2 ^ (N - S) := by
  rw [Nat.sub_mul, Nat.one_mul, ← Nat.pow_add]
  congr 2
  omega

/-- arithmetic right shift of a negative value, `0 < s < n*w`: logical shift plus the top `s` bits -/
theorem sar_val_neg (w : Nat) (hw : 0 < w) (a : List Nat) (ha : Wf (2 ^ w) a) (s : Int) (hs : 0 < s)
    (hlt : s < ((a.length * w : Nat) : Int)) (hneg : isNeg (2 ^ w) a = true) :
    val (2 ^ w) (sar w a s) + 2 ^ (w * a.length - s.toNat) =
      val (2 ^ w) a / 2 ^ s.toNat + 2 ^ (w * a.length) := by
  have hB : 0 < 2 ^ w := Nat.two_pow_pos _
  have hSN : s.toNat < w * a.length := by rw [Nat.mul_comm]; omega
  have h := val_of_limbs (2 ^ w) hB (sar w a s) _ (by
    intro i hi
    rw [sar_length] at hi
    exact sar_limbs w hw a ha s hs hlt hneg i hi)
  have hA := val_lt _ _ ha
  rw [pow_base] at hA
  rw [h, sar_length, pow_base]
  generalize s.toNat = S at *
  generalize val (2 ^ w) a = A at *
  generalize w * a.length = N at *
  have hsplit : 2 ^ N = 2 ^ (N - S) * 2 ^ S := by rw [← Nat.pow_add]; congr 1; omega
  have hq : A / 2 ^ S < 2 ^ (N - S) := by
    rw [Nat.div_lt_iff_lt_mul (Nat.two_pow_pos _), ← hsplit]; exact hA
  have hle : 2 ^ (N - S) ≤ 2 ^ N := Nat.pow_le_pow_right (by omega) (by omega)
  rw [lor_eq_add' (k := N - S) (Nat.mul_mod_left _ _) hq, mask_eq N S (by omega)]
  rw [Nat.mod_eq_of_lt (by omega)]
  omega


/-- floor division of a negative two's complement value, `S ≤ N` -/
theorem int_floor_neg (A N S : Nat) (hSN : S ≤ N) :
    ((A : Int) - ((2 ^ N : Nat) : Int)) / (2 : Int) ^ S = ((A / 2 ^ S : Nat) : Int) - ((2 ^ (N - S) : Nat) : Int) := by
  have hsplit : 2 ^ N = 2 ^ (N - S) * 2 ^ S := by rw [← Nat.pow_add]; congr 1; omega
  have hne : (2 : Int) ^ S ≠ 0 := Int.pow_ne_zero (by omega)
  have hc : ((2 ^ S : Nat) : Int) = (2 : Int) ^ S := by rw [Int.natCast_pow]; rfl
  rw [hsplit, Int.natCast_mul, hc, Int.sub_mul_ediv_right _ _ hne, Int.natCast_ediv, hc]

/-- floor division of a negative value by something at least as large as its magnitude -/
theorem int_floor_neg_big (A N S : Nat) (hA : A < 2 ^ N) (hNS : N ≤ S) :
    ((A : Int) - ((2 ^ N : Nat) : Int)) / (2 : Int) ^ S = -1 := by
  have hle : 2 ^ N ≤ 2 ^ S := Nat.pow_le_pow_right (by omega) hNS
  have hne : (2 : Int) ^ S ≠ 0 := Int.pow_ne_zero (by omega)
  have hc : ((2 ^ S : Nat) : Int) = (2 : Int) ^ S := by rw [Int.natCast_pow]; rfl
  have e : (A : Int) - ((2 ^ N : Nat) : Int) = ((A : Int) + ((2 ^ S - 2 ^ N : Nat) : Int)) + (-1) * (2 : Int) ^ S := by
    rw [← hc]; omega
  rw [e, Int.add_mul_ediv_right _ _ hne, Int.ediv_eq_zero_of_lt (by omega) (by rw [← hc]; omega)]
  rfl


theorem two_pow_cast (S : Nat) : ((2 ^ S : Nat) : Int) = (2 : Int) ^ S := by rw [Int.natCast_pow]; rfl

/-- value of the logical right shift for a non-negative shift count -/
theorem shr_val_nonneg (w : Nat) (hw : 0 < w) (a : List Nat) (ha : Wf (2 ^ w) a) (s : Int) (hs : 0 ≤ s) :
    val (2 ^ w) (shr w a s) = val (2 ^ w) a / 2 ^ s.toNat := by
  rw [shr_val w hw a ha s]
  split
  · have : s.toNat = 0 := by omega
    rw [this, Nat.pow_zero, Nat.div_one]
  · rfl

/-- ferret_shift_right_signed_limbs: floor division of the signed value by `2^s` -/
theorem sar_val (w : Nat) (hw : 0 < w) (a : List Nat) (ha : Wf (2 ^ w) a) (s : Int) (hs : 0 ≤ s) :
    toInt (2 ^ w) (sar w a s) = toInt (2 ^ w) a / 2 ^ s.toNat := by
  have hA := val_lt _ _ ha
  have hnegA := isNeg_iff_pow w hw a ha
  by_cases hneg : isNeg (2 ^ w) a = true
  · have hA2 := hnegA.1 hneg
    rw [toInt_of_neg _ a hneg]
    by_cases hbig : s ≥ ((a.length * w : Nat) : Int)
    · -- all ones
      have hwfr : Wf (2 ^ w) (List.replicate a.length (2 ^ w - 1)) :=
        wf_replicate _ _ _ (by have := Nat.two_pow_pos w; omega)
      have hv := val_replicate_max (2 ^ w) a.length (Nat.two_pow_pos _)
      have hn : isNeg (2 ^ w) (List.replicate a.length (2 ^ w - 1)) = true := by
        rw [isNeg_iff_pow w hw _ hwfr, List.length_replicate]
        omega
      rw [sar_neg_big w a s hneg hbig, toInt_of_neg _ _ hn, List.length_replicate, pow_base,
        int_floor_neg_big _ (w * a.length) s.toNat (by rw [← pow_base]; exact hA)
          (by rw [Nat.mul_comm]; omega)]
      rw [pow_base] at hv
      omega
    · by_cases hS : s ≤ 0
      · have h0 : s.toNat = 0 := by omega
        rw [sar_nonpos w hw a s hS, shr_nonpos w a s hS, toInt_of_neg _ a hneg, h0, Int.pow_zero, Int.ediv_one]
      · have hSN : s.toNat < w * a.length := by rw [Nat.mul_comm]; omega
        have hv := sar_val_neg w hw a ha s (by omega) (by omega) hneg
        have hwf := sar_wf w hw a ha s
        have hS1 : 2 ^ 1 ≤ 2 ^ s.toNat := Nat.pow_le_pow_right (by omega) (by omega)
        have hsplit : 2 ^ (w * a.length) = 2 ^ (w * a.length - s.toNat) * 2 ^ s.toNat := by
          rw [← Nat.pow_add]; congr 1; omega
        have hmul : 2 ^ (w * a.length - s.toNat) * 2 ^ 1 ≤ 2 ^ (w * a.length - s.toNat) * 2 ^ s.toNat :=
          Nat.mul_le_mul_left _ hS1
        have hn : isNeg (2 ^ w) (sar w a s) = true := by
          rw [isNeg_iff_pow w hw _ hwf, sar_length, pow_base]
          generalize val (2 ^ w) a / 2 ^ s.toNat = q at *
          generalize 2 ^ (w * a.length - s.toNat) = h at *
          generalize 2 ^ s.toNat = j at *
          omega
        rw [toInt_of_neg _ _ hn, sar_length, pow_base, int_floor_neg _ _ _ (by omega)]
        generalize val (2 ^ w) a / 2 ^ s.toNat = q at *
        generalize 2 ^ (w * a.length - s.toNat) = h at *
        omega
  · have hneg' : isNeg (2 ^ w) a = false := by simpa using hneg
    have hv := shr_val_nonneg w hw a ha s hs
    have hwf := shr_wf w hw a ha s
    have hle : val (2 ^ w) a / 2 ^ s.toNat ≤ val (2 ^ w) a := Nat.div_le_self _ _
    have hn : isNeg (2 ^ w) (shr w a s) = false := by
      cases h : isNeg (2 ^ w) (shr w a s)
      · rfl
      · exfalso
        rw [isNeg_iff_pow w hw _ hwf, shr_length] at h
        exact hneg (hnegA.2 (by omega))
    rw [sar_nonneg w a s hneg', toInt_of_nonneg _ _ hn, toInt_of_nonneg _ _ hneg', hv, Int.natCast_ediv,
      two_pow_cast]

end FerretVerif.Limbs
