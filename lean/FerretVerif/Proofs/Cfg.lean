/-
  Proofs/Cfg.lean — the return-path analysis (Model/Cfg.lean, C05) is exact on the model.

  Generalised invariant (`invS`/`invL`/`invC`, mutual structural recursion over the nested inductive `Stmt`):
  for every statement list `l`, entry reachability `r` and break accumulator `k`, with
  `(c, k') := buildL l (some r) k` and `o := outL l`
      (c == some true) = (r && o.falls)        -- graph reachability of the fall-through block
      k' = (k || (r && o.brks))                -- graph-reachable breaks to the innermost loop
  and (`noneS`/`noneL`/`noneC`)  `c = none → o.falls = false`  (a nil current block means no path falls through).
  None of these needs well-formedness (`wfL`): the main theorems are stated with the `wfL false b` hypothesis as
  requested, and also in the stronger unconditional form `returns_exact`.
-/
import FerretVerif.Model.Cfg
namespace FerretVerif.Cfg

/-! ### unreachable code (current block nil) is skipped -/

theorem buildS_none (s : Stmt) (k : Bool) : buildS s none k = (none, k) := by
  cases s <;> simp [buildS]

theorem buildL_none (l : List Stmt) (k : Bool) : buildL l none k = (none, k) := by
  induction l with
  | nil => simp [buildL]
  | cons s ss ih => simp [buildL, buildS_none, ih]

/-! ### the invariant -/

def Inv (p : Option Bool × Bool) (r k : Bool) (o : Outs) : Prop :=
  (p.1 == some true) = (r && o.falls) ∧ p.2 = (k || (r && o.brks))

def InvC (p : Bool × Bool × Bool) (r k : Bool) (o : Outs) : Prop :=
  p.2.1 = (r && o.falls) ∧ (p.2.1 = true → p.1 = true) ∧ p.2.2 = (k || (r && o.brks))

mutual
theorem invS : ∀ (s : Stmt) (r k : Bool), Inv (buildS s (some r) k) r k (outS s)
  | .plain, r, k => by cases r <;> simp [Inv, buildS, outS]
  | .ret, r, k => by simp [Inv, buildS, outS]
  | .brk, r, k => by simp [Inv, buildS, outS]
  | .cont, r, k => by simp [Inv, buildS, outS]
  | .ifS thn none, r, k => by
    have h1 := invL thn r k
    simp only [Inv, buildS, outS, Outs.union] at h1 ⊢
    generalize buildL thn (some r) k = p1 at h1 ⊢
    obtain ⟨a, k1⟩ := p1
    generalize outL thn = o1 at h1 ⊢
    obtain ⟨h1a, h1b⟩ := h1
    rcases a with _ | _ | _ <;> cases r <;> simp_all
  | .ifS thn (some e), r, k => by
    have h1 := invL thn r k
    simp only [Inv, buildS, outS, Outs.union] at h1 ⊢
    generalize buildL thn (some r) k = p1 at h1 ⊢
    obtain ⟨a, k1⟩ := p1
    have h2 := invL e r k1
    simp only [Inv] at h2 ⊢
    generalize buildL e (some r) k1 = p2 at h2 ⊢
    obtain ⟨b, k2⟩ := p2
    generalize outL thn = o1 at h1 ⊢
    generalize outL e = o2 at h2 ⊢
    obtain ⟨h1a, h1b⟩ := h1
    obtain ⟨h2a, h2b⟩ := h2
    rcases a with _ | _ | _ <;> rcases b with _ | _ | _ <;> cases r <;> simp_all [Bool.or_assoc]
  | .whileS lt body, r, k => by
    have h1 := invL body r false
    simp only [Inv, buildS, outS] at h1 ⊢
    generalize buildL body (some r) false = p1 at h1 ⊢
    obtain ⟨a, k1⟩ := p1
    generalize outL body = o1 at h1 ⊢
    obtain ⟨h1a, h1b⟩ := h1
    cases r <;> cases lt <;> simp_all
  | .forS body, r, k => by
    have h1 := invL body r false
    simp only [Inv, buildS, outS] at h1 ⊢
    generalize buildL body (some r) false = p1 at h1 ⊢
    obtain ⟨a, k1⟩ := p1
    generalize outL body = o1 at h1 ⊢
    obtain ⟨h1a, h1b⟩ := h1
    cases r <;> simp_all
  | .matchS cs d ce, r, k => by
    have h1 := invC cs r k
    simp only [Inv, InvC, buildS, outS] at h1 ⊢
    generalize buildCases cs r k = p1 at h1 ⊢
    obtain ⟨f, m, k1⟩ := p1
    generalize outCases cs = o1 at h1 ⊢
    obtain ⟨h1a, h1m, h1b⟩ := h1
    cases r <;> cases d <;> cases ce <;> cases f <;> cases m <;> simp_all [Outs.union]
  | .block body, r, k => by
    have := invL body r k
    simpa [Inv, buildS, outS] using this
theorem invL : ∀ (l : List Stmt) (r k : Bool), Inv (buildL l (some r) k) r k (outL l)
  | [], r, k => by cases r <;> simp [Inv, buildL, outL]
  | s :: ss, r, k => by
    have h1 := invS s r k
    simp only [Inv, buildL, outL] at h1 ⊢
    generalize buildS s (some r) k = p1 at h1 ⊢
    obtain ⟨a, k1⟩ := p1
    generalize outS s = o1 at h1 ⊢
    obtain ⟨h1a, h1b⟩ := h1
    rcases a with _ | r1
    · simp only [buildL_none]
      cases r <;> simp_all [Outs.seq]
    · have h2 := invL ss r1 k1
      simp only [Inv] at h2 ⊢
      generalize buildL ss (some r1) k1 = p2 at h2 ⊢
      obtain ⟨b, k2⟩ := p2
      generalize outL ss = o2 at h2 ⊢
      obtain ⟨h2a, h2b⟩ := h2
      cases r <;> cases r1 <;> cases hf : o1.falls <;> simp_all [Outs.seq, Bool.or_assoc]
theorem invC : ∀ (cs : List (List Stmt)) (r k : Bool), InvC (buildCases cs r k) r k (outCases cs)
  | [], r, k => by simp [InvC, buildCases, outCases, Outs.none]
  | c :: cs, r, k => by
    have h1 := invL c r k
    simp only [Inv, InvC, buildCases, outCases, Outs.union] at h1 ⊢
    generalize buildL c (some r) k = p1 at h1 ⊢
    obtain ⟨a, k1⟩ := p1
    have h2 := invC cs r k1
    simp only [InvC] at h2 ⊢
    generalize buildCases cs r k1 = p2 at h2 ⊢
    obtain ⟨f, m, k2⟩ := p2
    generalize outL c = o1 at h1 ⊢
    generalize outCases cs = o2 at h2 ⊢
    obtain ⟨h1a, h1b⟩ := h1
    obtain ⟨h2a, h2m, h2b⟩ := h2
    rcases a with _ | _ | _ <;> cases r <;> simp_all [Bool.or_assoc]
end

/-! ### a nil current block means that no path falls through (independent of reachability) -/

mutual
theorem noneS : ∀ (s : Stmt) (r k : Bool), (buildS s (some r) k).1 = none → (outS s).falls = false
  | .plain, r, k => by simp [buildS]
  | .ret, r, k => by simp [outS]
  | .brk, r, k => by simp [outS]
  | .cont, r, k => by simp [outS]
  | .ifS thn none, r, k => by simp [buildS]
  | .ifS thn (some e), r, k => by
    have h1 := noneL thn r k
    simp only [buildS, outS, Outs.union] at h1 ⊢
    generalize buildL thn (some r) k = p1 at h1 ⊢
    obtain ⟨a, k1⟩ := p1
    have h2 := noneL e r k1
    simp only [] at h2 ⊢
    generalize buildL e (some r) k1 = p2 at h2 ⊢
    obtain ⟨b, k2⟩ := p2
    rcases a with _ | a <;> rcases b with _ | b <;> simp_all
  | .whileS lt body, r, k => by simp [buildS]
  | .forS body, r, k => by simp [buildS]
  | .matchS cs d ce, r, k => by
    have h1 := noneC cs r k
    simp only [buildS, outS] at h1 ⊢
    generalize buildCases cs r k = p1 at h1 ⊢
    obtain ⟨f, m, k1⟩ := p1
    cases d <;> cases ce <;> cases f <;> simp_all
  | .block body, r, k => by
    have := noneL body r k
    simpa [buildS, outS] using this
theorem noneL : ∀ (l : List Stmt) (r k : Bool), (buildL l (some r) k).1 = none → (outL l).falls = false
  | [], r, k => by simp [buildL]
  | s :: ss, r, k => by
    have h1 := noneS s r k
    simp only [buildL, outL] at h1 ⊢
    generalize buildS s (some r) k = p1 at h1 ⊢
    obtain ⟨a, k1⟩ := p1
    rcases a with _ | r1
    · intro _
      simp_all [Outs.seq]
    · have h2 := noneL ss r1 k1
      intro h
      have := h2 h
      cases hf : (outS s).falls <;> simp_all [Outs.seq]
theorem noneC : ∀ (cs : List (List Stmt)) (r k : Bool), (buildCases cs r k).1 = false → (outCases cs).falls = false
  | [], r, k => by simp [outCases, Outs.none]
  | c :: cs, r, k => by
    have h1 := noneL c r k
    simp only [buildCases, outCases, Outs.union] at h1 ⊢
    generalize buildL c (some r) k = p1 at h1 ⊢
    obtain ⟨a, k1⟩ := p1
    have h2 := noneC cs r k1
    simp only [] at h2 ⊢
    generalize buildCases cs r k1 = p2 at h2 ⊢
    obtain ⟨f, m, k2⟩ := p2
    rcases a with _ | a <;> simp_all
end

/-! ### readable corollaries of the invariant -/

/-- (a) the fall-through block is graph-reachable iff the entry is and some path falls through -/
theorem build_reach (l : List Stmt) (r k : Bool) :
    (buildL l (some r) k).1 = some true ↔ (r = true ∧ (outL l).falls = true) := by
  have h := (invL l r k).1
  generalize (buildL l (some r) k).1 = c at h
  rcases c with _ | _ | _ <;> cases r <;> simp_all

/-- (c) breaks seen = breaks that some path executes, provided the entry is reachable -/
theorem build_brks (l : List Stmt) (r k : Bool) :
    (buildL l (some r) k).2 = (k || (r && (outL l).brks)) := (invL l r k).2

/-- nothing is reachable from an unreachable block -/
theorem build_unreachable (l : List Stmt) (k : Bool) :
    (buildL l (some false) k).1 ≠ some true ∧ (buildL l (some false) k).2 = k := by
  have h := invL l false k
  simp only [Inv] at h
  obtain ⟨ha, hb⟩ := h
  constructor
  · intro hc
    simp [hc] at ha
  · simpa using hb

/-- (b) the builder's `current == nil` implies that no path falls through -/
theorem build_none (l : List Stmt) (r k : Bool) :
    (buildL l (some r) k).1 = none → (outL l).falls = false := noneL l r k

/-! ### MAIN: the analysis is exact -/

/-- unconditional form: AllPathsReturn holds exactly when no path can fall off the end -/
theorem returns_exact (b : List Stmt) : implAllPathsReturn b = !canFallOff b := by
  have h := (invL b true false).1
  simp only [implAllPathsReturn, canFallOff, bne]
  rw [h]
  simp

theorem returns_sound (b : List Stmt) :
    wfL false b = true → implAllPathsReturn b = true → canFallOff b = false := by
  intro _ h
  rw [returns_exact] at h
  simpa using h

theorem returns_complete (b : List Stmt) :
    wfL false b = true → canFallOff b = false → implAllPathsReturn b = true := by
  intro _ h
  rw [returns_exact, h]
  rfl

theorem returns_iff (b : List Stmt) (_ : wfL false b = true) :
    implAllPathsReturn b = true ↔ canFallOff b = false := by
  rw [returns_exact]
  cases canFallOff b <;> simp

/-! ### match without default on a non-enum / non-covered subject always has a fall-through path -/

theorem outCases_falls_false (cases : List (List Stmt))
    (h : ∀ c ∈ cases, (outL c).falls = false) : (outCases cases).falls = false := by
  induction cases with
  | nil => simp [outCases, Outs.none]
  | cons c cs ih =>
    have hc := h c (by simp)
    have hcs := ih (fun c' hc' => h c' (by simp [hc']))
    simp [outCases, Outs.union, hc, hcs]

/-- even when every arm returns, an open match (no default, enum not covered) can fall through, and the
    analysis says so; with a default arm or full enum coverage it cannot.  (`cases = []` allowed; the
    first two conjuncts do not even need the hypothesis on the arms.) -/
theorem match_open_falls (cases : List (List Stmt)) (h : ∀ c ∈ cases, (outL c).falls = false) :
    canFallOff [.matchS cases false false] = true ∧
    implAllPathsReturn [.matchS cases false false] = false ∧
    (∀ ce, canFallOff [.matchS cases true ce] = false) ∧
    (∀ d, canFallOff [.matchS cases d true] = false) ∧
    (∀ ce, implAllPathsReturn [.matchS cases true ce] = true) ∧
    (∀ d, implAllPathsReturn [.matchS cases d true] = true) := by
  have hu := outCases_falls_false cases h
  have h1 : canFallOff [.matchS cases false false] = true := by
    simp [canFallOff, outL, outS, Outs.seq, Outs.union]
  have h3 : ∀ ce, canFallOff [.matchS cases true ce] = false := by
    intro ce
    simp [canFallOff, outL, outS, Outs.seq, hu]
  have h4 : ∀ d, canFallOff [.matchS cases d true] = false := by
    intro d
    simp [canFallOff, outL, outS, Outs.seq, hu]
  refine ⟨h1, ?_, h3, h4, ?_, ?_⟩
  · rw [returns_exact, h1]; rfl
  · intro ce; rw [returns_exact, h3]; rfl
  · intro d; rw [returns_exact, h4]; rfl

/-- the open-match fall-through needs no hypothesis on the arms -/
theorem match_open_falls' (cases : List (List Stmt)) :
    canFallOff [.matchS cases false false] = true ∧ implAllPathsReturn [.matchS cases false false] = false := by
  have h1 : canFallOff [.matchS cases false false] = true := by
    simp [canFallOff, outL, outS, Outs.seq, Outs.union]
  exact ⟨h1, by rw [returns_exact, h1]; rfl⟩

/-! ### which hosts are analysed (finding F3b: function literals are not) -/

theorem all_hosts_analysed : ∀ h : Host, analysed h = true := by
  intro h; cases h <;> rfl

/-! ### concrete bodies: both functions agree, hypotheses satisfiable -/

example : wfL false [.ifS [.ret] (some [.ret])] = true ∧
    implAllPathsReturn [.ifS [.ret] (some [.ret])] = true ∧ canFallOff [.ifS [.ret] (some [.ret])] = false := by
  decide
example : wfL false [.whileS true [.ifS [.brk] none], .ret] = true ∧
    implAllPathsReturn [.whileS true [.ifS [.brk] none], .ret] = true ∧
    canFallOff [.whileS true [.ifS [.brk] none], .ret] = false := by decide
example : wfL false [.whileS true [.ifS [.brk] none]] = true ∧
    implAllPathsReturn [.whileS true [.ifS [.brk] none]] = false ∧
    canFallOff [.whileS true [.ifS [.brk] none]] = true := by decide
example : wfL false [.whileS true [.ret], .plain] = true ∧
    implAllPathsReturn [.whileS true [.ret], .plain] = true ∧ canFallOff [.whileS true [.ret], .plain] = false := by
  decide
example : wfL false [.whileS false [.ret], .plain] = true ∧
    implAllPathsReturn [.whileS false [.ret], .plain] = false ∧ canFallOff [.whileS false [.ret], .plain] = true := by
  decide
example : wfL false [.forS [.ret]] = true ∧
    implAllPathsReturn [.forS [.ret]] = false ∧ canFallOff [.forS [.ret]] = true := by decide
/-- nested loops with an unreachable break: the outer loop never exits, so "all paths return" holds vacuously
    although the body contains no `return` -/
example : wfL false [.whileS true [.whileS true [.plain], .brk]] = true ∧
    implAllPathsReturn [.whileS true [.whileS true [.plain], .brk]] = true ∧
    canFallOff [.whileS true [.whileS true [.plain], .brk]] = false := by decide
example : implAllPathsReturn [.matchS [[.ret], [.ret]] false false] = false ∧
    implAllPathsReturn [.matchS [[.ret], [.ret]] true false] = true ∧
    implAllPathsReturn [.matchS [[.ret], [.ret]] false true] = true ∧
    implAllPathsReturn [.matchS [[.ret], [.plain]] true false] = false := by decide
/-- an ill-formed body (break outside a loop): the two sides still agree -/
example : wfL false [.brk, .plain] = false ∧
    implAllPathsReturn [.brk, .plain] = true ∧ canFallOff [.brk, .plain] = false := by decide

end FerretVerif.Cfg
