/-
  Proofs/Rewrite.lean — the reference interpreter (Core/Eval.lean) treats the C09 rewrites as it should:
  equations for `if true { body }`, `const` vs `let`, and folding of constant integer arithmetic.
-/
import FerretVerif.Proofs.CoreSem

namespace FerretVerif.Core

/-- `if true { thn } else { els }` runs exactly `thn` (in a nested scope: declarations of the block do not escape). -/
theorem execS_if_true (ctx : Ctx) (fuel : Nat) (env : Env) (ret : Ty) (thn els : List Stmt) :
    execS ctx (fuel + 2) env ret (.ifS (.blit true) thn els) = (do
      let (fl, _) ← execBlock ctx (fuel + 1) env ret thn
      pure (fl, env)) := by
  rw [execS]
  simp only [evalE_blit, pure_bind, derefVal]
  rfl

/-- `if false { thn }` runs nothing. -/
theorem execS_if_false (ctx : Ctx) (fuel : Nat) (env : Env) (ret : Ty) (thn : List Stmt) :
    execS ctx (fuel + 2) env ret (.ifS (.blit false) thn []) = pure (.next, env) := by
  rw [execS]
  simp only [evalE_blit, pure_bind, derefVal]
  show (do let (fl, _) ← execBlock ctx (fuel + 1) env ret []; pure (fl, env)) = _
  rw [execBlock]
  · rfl
  · omega

/-- A `const` declaration executes exactly like the `let` declaration with the same initialiser. -/
theorem execS_const_eq_let (ctx : Ctx) (fuel : Nat) (env : Env) (ret : Ty) (x : String) (t : Ty) (e : Expr) :
    execS ctx fuel env ret (.constS x t e) = execS ctx fuel env ret (.letS x t e) := by
  cases fuel with
  | zero => rw [execS, execS]
  | succ n => rw [execS, execS]

/-- Constant folding is sound exactly up to wrapping: the run-time value of `a op b` on integer literals is the
    mathematical result reduced to the declared width; it equals the unbounded result iff that result is in range. -/
theorem fold_add (ctx : Ctx) (fuel : Nat) (env : Env) (bits : Nat) (s : Bool) (a b : Int) :
    evalE ctx (fuel + 2) env (.bin .add (.int bits s) (.lit (.int bits s) a) (.lit (.int bits s) b))
      = pure (.int (wrapInt bits s (wrapTy (.int bits s) a + wrapTy (.int bits s) b))) := by
  rw [evalE_bin]
  simp only [evalE_lit, pure_bind, derefVal]
  rfl

theorem fold_agrees_iff_in_range {bits : Nat} (h : 1 ≤ bits) (s : Bool) (v : Int) :
    wrapInt bits s v = v ↔ InRange bits s v := by
  constructor
  · intro e; rw [← e]; exact wrapInt_inRange h s v
  · intro hr; exact wrapInt_id_of_in_range h s v hr

end FerretVerif.Core
