/-
  Proofs/DepGraph.lean — import graph: DFS correctness, AddDependency verdict = reachability,
  acyclicity invariant, order-independence of the verdict over a whole edge sequence.
  Core-only.
-/
import FerretVerif.Model.DepGraph

namespace FerretVerif.DepGraph

/-! ### specification-level notions -/

/-- `a` imports `b` -/
def Edge (g : Graph) (a b : Nat) : Prop := b ∈ succs g a

/-- reflexive–transitive closure of `Edge g` -/
inductive Reach (g : Graph) : Nat → Nat → Prop
  | refl (a : Nat) : Reach g a a
  | step {a b c : Nat} : Edge g a b → Reach g b c → Reach g a c

/-- no edge closes a cycle (a self-loop is a cycle) -/
def Acyclic (g : Graph) : Prop := ∀ a b, Edge g a b → ¬ Reach g b a

/-- each importer appears once as a key -/
def NoDupKeys (g : Graph) : Prop := (g.map (·.1)).Nodup

theorem Reach.trans {g : Graph} {a b c : Nat} (h1 : Reach g a b) (h2 : Reach g b c) : Reach g a c := by
  induction h1 with
  | refl _ => exact h2
  | step e _ ih => exact Reach.step e (ih h2)

theorem Reach.single {g : Graph} {a b : Nat} (e : Edge g a b) : Reach g a b :=
  Reach.step e (Reach.refl b)

theorem Reach.tail {g : Graph} {a b c : Nat} (h : Reach g a b) (e : Edge g b c) : Reach g a c :=
  h.trans (Reach.single e)

/-- monotonicity in the edge relation -/
theorem Reach.mono {g g' : Graph} (hsub : ∀ a b, Edge g a b → Edge g' a b) {a b : Nat}
    (h : Reach g a b) : Reach g' a b := by
  induction h with
  | refl _ => exact Reach.refl _
  | step e _ ih => exact Reach.step (hsub _ _ e) ih

/-! ### nodes -/

theorem succs_eq_of_find {g : Graph} {a : Nat} {p : Nat × List Nat}
    (h : g.find? (·.1 == a) = some p) : succs g a = p.2 := by
  unfold succs; rw [h]

theorem succs_mem_graph {g : Graph} {a y : Nat} (h : y ∈ succs g a) :
    ∃ ds, (a, ds) ∈ g ∧ y ∈ ds := by
  unfold succs at h
  split at h
  · next n ds hf =>
    have h1 := List.mem_of_find?_eq_some hf
    have h2 := List.find?_some hf
    simp at h2
    subst h2
    exact ⟨ds, h1, h⟩
  · simp at h

theorem mem_nodes {g : Graph} {x : Nat} :
    x ∈ nodes g ↔ (∃ ds, (x, ds) ∈ g) ∨ (∃ a ds, (a, ds) ∈ g ∧ x ∈ ds) := by
  unfold nodes
  rw [List.mem_eraseDups, List.mem_append, List.mem_map, List.mem_flatMap]
  constructor
  · rintro (⟨⟨a, ds⟩, h1, h2⟩ | ⟨⟨a, ds⟩, h1, h2⟩)
    · simp at h2; subst h2; exact Or.inl ⟨ds, h1⟩
    · exact Or.inr ⟨a, ds, h1, h2⟩
  · rintro (⟨ds, h⟩ | ⟨a, ds, h1, h2⟩)
    · exact Or.inl ⟨(x, ds), h, rfl⟩
    · exact Or.inr ⟨(a, ds), h1, h2⟩

theorem edge_mem_nodes {g : Graph} {a b : Nat} (h : Edge g a b) : a ∈ nodes g ∧ b ∈ nodes g := by
  obtain ⟨ds, h1, h2⟩ := succs_mem_graph h
  exact ⟨mem_nodes.2 (Or.inl ⟨ds, h1⟩), mem_nodes.2 (Or.inr ⟨a, ds, h1, h2⟩)⟩

/-! ### DFS soundness -/

theorem dfs_loop_sound_of (g : Graph) (t fuel : Nat)
    (ih : ∀ start vis vis', dfs g t fuel start vis = (true, vis') → Reach g start t) :
    ∀ ds vis vis', dfs.loop g t fuel ds vis = (true, vis') → ∃ d, d ∈ ds ∧ Reach g d t := by
  intro ds
  induction ds with
  | nil => intro vis vis' h; simp [dfs.loop] at h
  | cons d ds ihds =>
    intro vis vis' h
    rw [dfs.loop] at h
    split at h
    · next v1 hd => exact ⟨d, List.mem_cons_self, ih d vis v1 hd⟩
    · next v1 hd =>
      obtain ⟨d', hm, hr⟩ := ihds v1 vis' h
      exact ⟨d', List.mem_cons_of_mem _ hm, hr⟩

theorem dfs_sound_aux (g : Graph) (t : Nat) :
    ∀ fuel start vis vis', dfs g t fuel start vis = (true, vis') → Reach g start t := by
  intro fuel
  induction fuel with
  | zero => intro start vis vis' h; simp [dfs] at h
  | succ fuel ih =>
    intro start vis vis' h
    rw [dfs] at h
    split at h
    · next heq => simp at heq; subst heq; exact Reach.refl _
    · split at h
      · simp at h
      · obtain ⟨d, hm, hr⟩ := dfs_loop_sound_of g t fuel ih _ _ _ h
        exact Reach.step hm hr

/-- soundness of the DFS: a reported path exists -/
theorem dfs_sound {g : Graph} {a b : Nat} (h : hasPath g a b = true) : Reach g a b := by
  unfold hasPath at h
  generalize hr : dfs g b ((nodes g).length + 2) a [] = r at h
  obtain ⟨r1, r2⟩ := r
  simp at h; subst h
  exact dfs_sound_aux g b _ _ _ _ hr

/-! ### DFS completeness -/

/-- number of graph nodes not yet visited -/
def unv (g : Graph) (vis : List Nat) : Nat := ((nodes g).filter (fun x => !vis.contains x)).length

theorem filter_notin_mono (l vis vis' : List Nat) (h : ∀ x, x ∈ vis → x ∈ vis') :
    (l.filter (fun x => !vis'.contains x)).length ≤ (l.filter (fun x => !vis.contains x)).length := by
  induction l with
  | nil => simp
  | cons y l ih =>
    simp only [List.filter_cons]
    by_cases h1 : y ∈ vis
    · have h2 := h y h1
      simp only [List.contains_eq_mem, h1, h2, decide_true, Bool.not_true, Bool.false_eq_true, if_false] at ih ⊢
      exact ih
    · by_cases h2 : y ∈ vis'
      · simp only [List.contains_eq_mem, h1, h2, decide_true, decide_false, Bool.not_true, Bool.not_false,
          Bool.false_eq_true, if_false, if_true, List.length_cons] at ih ⊢
        omega
      · simp only [List.contains_eq_mem, h1, h2, decide_false, Bool.not_false, if_true,
          List.length_cons] at ih ⊢
        omega

theorem filter_notin_lt (l vis : List Nat) (x : Nat) (hx : x ∈ l) (hv : x ∉ vis) :
    (l.filter (fun y => !(x :: vis).contains y)).length < (l.filter (fun y => !vis.contains y)).length := by
  induction l with
  | nil => simp at hx
  | cons y l ih =>
    simp only [List.filter_cons]
    by_cases hxy : y = x
    · subst hxy
      have := filter_notin_mono l vis (y :: vis) (fun z hz => List.mem_cons_of_mem _ hz)
      simp [hv]
      simp at this
      omega
    · have hx' : x ∈ l := by
        cases hx with
        | head => exact absurd rfl hxy
        | tail _ h => exact h
      have := ih hx'
      by_cases h1 : y ∈ vis
      · simp [h1]; simpa using this
      · simp [h1, hxy]; simpa using this

theorem unv_mono (g : Graph) {vis vis' : List Nat} (h : ∀ x, x ∈ vis → x ∈ vis') :
    unv g vis' ≤ unv g vis := filter_notin_mono _ _ _ h

theorem unv_lt (g : Graph) {vis : List Nat} {x : Nat} (hx : x ∈ nodes g) (hv : x ∉ vis) :
    unv g (x :: vis) < unv g vis := filter_notin_lt _ _ _ hx hv

theorem unv_nil (g : Graph) : unv g [] = (nodes g).length := by
  simp [unv]

/-- the set added between `vis` and `vis'` avoids the target and is closed under successors -/
def DInv (g : Graph) (t : Nat) (vis vis' : List Nat) : Prop :=
  (∀ x, x ∈ vis → x ∈ vis') ∧
  ∀ x, x ∈ vis' → x ∉ vis → x ≠ t ∧ ∀ y, y ∈ succs g x → y ∈ vis'

theorem DInv.refl (g : Graph) (t : Nat) (vis : List Nat) : DInv g t vis vis :=
  ⟨fun _ h => h, fun _ h1 h2 => absurd h1 h2⟩

theorem DInv.trans {g : Graph} {t : Nat} {v1 v2 v3 : List Nat}
    (h12 : DInv g t v1 v2) (h23 : DInv g t v2 v3) : DInv g t v1 v3 := by
  refine ⟨fun x hx => h23.1 x (h12.1 x hx), fun x hx hn => ?_⟩
  by_cases h2 : x ∈ v2
  · obtain ⟨hne, hs⟩ := h12.2 x h2 hn
    exact ⟨hne, fun y hy => h23.1 y (hs y hy)⟩
  · exact h23.2 x hx h2

def DfsOk (g : Graph) (t fuel : Nat) : Prop :=
  ∀ start vis vis', start ∈ nodes g → unv g vis + 1 ≤ fuel →
    dfs g t fuel start vis = (false, vis') → DInv g t vis vis' ∧ start ∈ vis'

theorem dfs_loop_complete_of (g : Graph) (t fuel : Nat) (ih : DfsOk g t fuel) :
    ∀ ds vis vis', (∀ d, d ∈ ds → d ∈ nodes g) → unv g vis + 1 ≤ fuel →
      dfs.loop g t fuel ds vis = (false, vis') → DInv g t vis vis' ∧ ∀ d, d ∈ ds → d ∈ vis' := by
  intro ds
  induction ds with
  | nil =>
    intro vis vis' _ _ h
    simp [dfs.loop] at h; subst h
    exact ⟨DInv.refl _ _ _, fun d hd => by simp at hd⟩
  | cons d ds ihds =>
    intro vis vis' hn hf h
    rw [dfs.loop] at h
    split at h
    · simp at h
    · next v1 hd =>
      obtain ⟨i1, m1⟩ := ih d vis v1 (hn d List.mem_cons_self) hf hd
      have hf1 : unv g v1 + 1 ≤ fuel := Nat.le_trans (Nat.succ_le_succ (unv_mono g i1.1)) hf
      obtain ⟨i2, m2⟩ := ihds v1 vis' (fun d' hd' => hn d' (List.mem_cons_of_mem _ hd')) hf1 h
      refine ⟨i1.trans i2, fun d' hd' => ?_⟩
      cases hd' with
      | head => exact i2.1 _ m1
      | tail _ h' => exact m2 d' h'

theorem dfsOk (g : Graph) (t : Nat) : ∀ fuel, DfsOk g t fuel := by
  intro fuel
  induction fuel with
  | zero => intro start vis vis' _ hf _; omega
  | succ fuel ih =>
    intro start vis vis' hs hf h
    rw [dfs] at h
    split at h
    · simp at h
    · next hne =>
      simp at hne
      split at h
      · next hc =>
        simp at hc
        simp at h; subst h
        exact ⟨DInv.refl _ _ _, hc⟩
      · next hc =>
        simp at hc
        have hlt := unv_lt g hs hc
        obtain ⟨i1, m1⟩ := dfs_loop_complete_of g t fuel ih (succs g start) (start :: vis) vis'
          (fun d hd => (edge_mem_nodes hd).2) (by omega) h
        have hsv : start ∈ vis' := i1.1 _ List.mem_cons_self
        refine ⟨⟨fun x hx => i1.1 x (List.mem_cons_of_mem _ hx), fun x hx hn => ?_⟩, hsv⟩
        by_cases hxs : x = start
        · subst hxs; exact ⟨hne, m1⟩
        · exact i1.2 x hx (by simp [hxs, hn])

/-- a set that contains `a`, is closed under successors, contains everything reachable from `a` -/
theorem reach_closed {g : Graph} {S : Nat → Prop} (hS : ∀ x y, S x → Edge g x y → S y)
    {a b : Nat} (h : Reach g a b) (ha : S a) : S b := by
  induction h with
  | refl _ => exact ha
  | step e _ ih => exact ih (hS _ _ ha e)

/-- completeness of the DFS with the fuel used by `hasPath` -/
theorem dfs_complete {g : Graph} {a b : Nat} (h : Reach g a b) : hasPath g a b = true := by
  cases hb : hasPath g a b with
  | true => rfl
  | false =>
    exfalso
    unfold hasPath at hb
    rw [dfs] at hb
    by_cases hab : a = b
    · subst hab; simp at hb
    · have hab' : (a == b) = false := by simpa using hab
      simp only [hab', Bool.false_eq_true, if_false, List.contains_nil] at hb
      generalize hr : dfs.loop g b ((nodes g).length + 1) (succs g a) [a] = r at hb
      obtain ⟨r1, vis'⟩ := r
      simp at hb; subst hb
      have hf : unv g [a] + 1 ≤ (nodes g).length + 1 := by
        have := unv_mono g (vis := []) (vis' := [a]) (fun x hx => by simp at hx)
        rw [unv_nil] at this; omega
      obtain ⟨i1, m1⟩ := dfs_loop_complete_of g b _ (dfsOk g b _) (succs g a) [a] vis'
        (fun d hd => (edge_mem_nodes hd).2) hf hr
      -- S := vis' is closed, contains a, avoids b
      have hclosed : ∀ x y, x ∈ vis' → Edge g x y → y ∈ vis' := by
        intro x y hx e
        by_cases hxa : x = a
        · subst hxa; exact m1 y e
        · exact (i1.2 x hx (by simp [hxa])).2 y e
      have hbv : b ∈ vis' := reach_closed (S := fun x => x ∈ vis') hclosed h (i1.1 a (by simp))
      by_cases hba : b = a
      · exact hab hba.symm
      · exact (i1.2 b hbv (by simp [hba])).1 rfl

/-- P1.1: `hasPath` decides reachability -/
theorem dfs_correct (g : Graph) (a b : Nat) : hasPath g a b = true ↔ Reach g a b :=
  ⟨dfs_sound, dfs_complete⟩

instance (g : Graph) (a b : Nat) : Decidable (Reach g a b) :=
  decidable_of_iff _ (dfs_correct g a b)

/-! ### AddDependency -/

/-- P1.2: an import is rejected exactly when the imported module already reaches the importer -/
theorem addDep_none_iff (g : Graph) (a b : Nat) : addDep g a b = none ↔ Reach g b a := by
  rw [← dfs_correct]
  unfold addDep
  by_cases h : hasPath g b a = true
  · simp [h]
  · simp [h]
    split <;> simp

theorem addDep_self (g : Graph) (a : Nat) : addDep g a a = none :=
  (addDep_none_iff g a a).2 (Reach.refl a)

theorem find_map_key (g : Graph) (f : Nat × List Nat → Nat × List Nat) (hf : ∀ p, (f p).1 = p.1)
    (x : Nat) : (g.map f).find? (·.1 == x) = (g.find? (·.1 == x)).map f := by
  induction g with
  | nil => rfl
  | cons p g ih =>
    simp only [List.map_cons, List.find?_cons, hf]
    cases (p.1 == x) with
    | true => rfl
    | false => exact ih

theorem succs_insertEdge (g : Graph) (a b x : Nat) :
    succs (insertEdge g a b) x = if x = a then succs g a ++ [b] else succs g x := by
  unfold insertEdge
  split
  · next hany =>
    unfold succs
    rw [find_map_key _ _ (by intro ⟨n, ds⟩; simp only []; split <;> rfl)]
    cases hfd : g.find? (·.1 == x) with
    | none =>
      by_cases hx : x = a
      · subst hx
        exfalso
        rw [List.find?_eq_none] at hfd
        rw [List.any_eq_true] at hany
        obtain ⟨p, hp, hpx⟩ := hany
        exact hfd p hp hpx
      · simp [hx]
    | some p =>
      obtain ⟨n, ds⟩ := p
      have hn := List.find?_some hfd
      simp at hn
      subst hn
      by_cases hx : n = a
      · subst hx; simp [hfd]
      · simp [hx]
  · next hany =>
    have hnone : g.find? (·.1 == a) = none := by
      rw [List.find?_eq_none]
      intro p hp hpa
      apply hany
      rw [List.any_eq_true]
      exact ⟨p, hp, hpa⟩
    unfold succs
    rw [List.find?_append]
    by_cases hx : x = a
    · subst hx
      simp [hnone]
    · have : (a == x) = false := by simpa using (fun h => hx h.symm)
      simp [hx, this]

theorem edge_insertEdge (g : Graph) (a b x y : Nat) :
    Edge (insertEdge g a b) x y ↔ Edge g x y ∨ (x = a ∧ y = b) := by
  unfold Edge
  rw [succs_insertEdge]
  by_cases hx : x = a
  · subst hx; simp
  · simp [hx]

/-- the edges after a successful `addDep` are the old ones plus the new one -/
theorem edge_addDep {g g' : Graph} {a b : Nat} (h : addDep g a b = some g') (x y : Nat) :
    Edge g' x y ↔ Edge g x y ∨ (x = a ∧ y = b) := by
  unfold addDep at h
  split at h
  · simp at h
  · split at h
    · next hc =>
      simp at h; subst h
      simp at hc
      constructor
      · exact Or.inl
      · rintro (h | ⟨rfl, rfl⟩)
        · exact h
        · exact hc
    · simp at h; subst h
      exact edge_insertEdge g a b x y

theorem reach_add_edge {g g' : Graph} {a b : Nat}
    (he : ∀ x y, Edge g' x y ↔ Edge g x y ∨ (x = a ∧ y = b)) {x y : Nat} (h : Reach g' x y) :
    Reach g x y ∨ (Reach g x a ∧ Reach g b y) := by
  induction h with
  | refl _ => exact Or.inl (Reach.refl _)
  | step e _ ih =>
    rcases (he _ _).1 e with e' | ⟨rfl, rfl⟩
    · rcases ih with h | ⟨h1, h2⟩
      · exact Or.inl (Reach.step e' h)
      · exact Or.inr ⟨Reach.step e' h1, h2⟩
    · rcases ih with h | ⟨_, h2⟩
      · exact Or.inr ⟨Reach.refl _, h⟩
      · exact Or.inr ⟨Reach.refl _, h2⟩

theorem acyclic_nil : Acyclic [] := by
  intro a b e
  simp [Edge, succs] at e

/-- P1.3: `addDep` preserves acyclicity -/
theorem acyclic_invariant {g g' : Graph} {a b : Nat} (hac : Acyclic g) (h : addDep g a b = some g') :
    Acyclic g' := by
  have hnr : ¬ Reach g b a := by
    intro hr
    rw [(addDep_none_iff g a b).2 hr] at h
    simp at h
  have he := edge_addDep h
  intro x y e hr
  rcases (he x y).1 e with e' | ⟨rfl, rfl⟩
  · rcases reach_add_edge he hr with h1 | ⟨h1, h2⟩
    · exact hac x y e' h1
    · exact hnr (h2.trans (Reach.step e' h1))
  · rcases reach_add_edge he hr with h1 | ⟨h1, _⟩
    · exact hnr h1
    · exact hnr h1

/-! `insertEdge` / `addDep` preserve `NoDupKeys` -/

theorem noDupKeys_nil : NoDupKeys [] := by simp [NoDupKeys]

theorem noDupKeys_insertEdge {g : Graph} (h : NoDupKeys g) (a b : Nat) : NoDupKeys (insertEdge g a b) := by
  unfold insertEdge
  split
  · unfold NoDupKeys at *
    have : (g.map fun (p : Nat × List Nat) => if p.1 == a then (p.1, p.2 ++ [b]) else (p.1, p.2)).map (·.1)
        = g.map (·.1) := by
      rw [List.map_map]
      apply List.map_congr_left
      intro p _
      simp only [Function.comp]
      split <;> rfl
    exact this ▸ h
  · next hany =>
    unfold NoDupKeys at *
    rw [List.map_append, List.nodup_append]
    refine ⟨h, by simp, ?_⟩
    intro x hx y hy hxy
    simp at hy
    subst hy; subst hxy
    apply hany
    rw [List.mem_map] at hx
    obtain ⟨p, hp, hpx⟩ := hx
    rw [List.any_eq_true]
    exact ⟨p, hp, by simpa using hpx⟩

theorem noDupKeys_addDep {g g' : Graph} {a b : Nat} (h : NoDupKeys g) (hd : addDep g a b = some g') :
    NoDupKeys g' := by
  unfold addDep at hd
  split at hd
  · simp at hd
  · split at hd
    · simp at hd; subst hd; exact h
    · simp at hd; subst hd; exact noDupKeys_insertEdge h a b

/-! ### order-independence of the verdict over a whole edge sequence -/

/-- reachability in the edge *set* of an attempt sequence -/
inductive ReachE (E : List (Nat × Nat)) : Nat → Nat → Prop
  | refl (a : Nat) : ReachE E a a
  | step {a b c : Nat} : (a, b) ∈ E → ReachE E b c → ReachE E a c

/-- the edge set of `E` has no cycle -/
def EAcyclic (E : List (Nat × Nat)) : Prop := ∀ a b, (a, b) ∈ E → ¬ ReachE E b a

/-- every edge of `g` is an attempt of `E` -/
def SubE (g : Graph) (E : List (Nat × Nat)) : Prop := ∀ a b, Edge g a b → (a, b) ∈ E

theorem ReachE.mono {E E' : List (Nat × Nat)} (h : ∀ e, e ∈ E → e ∈ E') {a b : Nat}
    (hr : ReachE E a b) : ReachE E' a b := by
  induction hr with
  | refl _ => exact ReachE.refl _
  | step e _ ih => exact ReachE.step (h _ e) ih

/-- `EAcyclic` depends only on the set of attempted edges -/
theorem EAcyclic.congr {E E' : List (Nat × Nat)} (h : ∀ e, e ∈ E ↔ e ∈ E') :
    EAcyclic E ↔ EAcyclic E' := by
  constructor
  · intro hE a b hab hr
    exact hE a b ((h _).2 hab) (hr.mono fun e he => (h e).2 he)
  · intro hE a b hab hr
    exact hE a b ((h _).1 hab) (hr.mono fun e he => (h e).1 he)

theorem reachE_of_reach {g : Graph} {E : List (Nat × Nat)} (hs : SubE g E) {a b : Nat}
    (h : Reach g a b) : ReachE E a b := by
  induction h with
  | refl _ => exact ReachE.refl _
  | step e _ ih => exact ReachE.step (hs _ _ e) ih

theorem reach_of_reachE {g : Graph} {E : List (Nat × Nat)} (hs : ∀ a b, (a, b) ∈ E → Edge g a b)
    {a b : Nat} (h : ReachE E a b) : Reach g a b := by
  induction h with
  | refl _ => exact Reach.refl _
  | step e _ ih => exact Reach.step (hs _ _ e) ih

theorem subE_nil (E : List (Nat × Nat)) : SubE [] E := by
  intro a b e; simp [Edge, succs] at e

theorem addAll_nil (g : Graph) : addAll g [] = (g, []) := rfl

theorem addAll_cons_none {g : Graph} {a b : Nat} (es : List (Nat × Nat)) (h : addDep g a b = none) :
    addAll g ((a, b) :: es) = ((addAll g es).1, false :: (addAll g es).2) := by
  simp [addAll, h]

theorem addAll_cons_some {g g1 : Graph} {a b : Nat} (es : List (Nat × Nat)) (h : addDep g a b = some g1) :
    addAll g ((a, b) :: es) = ((addAll g1 es).1, true :: (addAll g1 es).2) := by
  simp [addAll, h]

theorem addAll_append (g : Graph) (es1 es2 : List (Nat × Nat)) :
    addAll g (es1 ++ es2) =
      ((addAll (addAll g es1).1 es2).1, (addAll g es1).2 ++ (addAll (addAll g es1).1 es2).2) := by
  induction es1 generalizing g with
  | nil => simp [addAll_nil]
  | cons e es ih =>
    obtain ⟨a, b⟩ := e
    cases h : addDep g a b with
    | none => rw [List.cons_append, addAll_cons_none _ h, addAll_cons_none _ h, ih]; simp
    | some g1 => rw [List.cons_append, addAll_cons_some _ h, addAll_cons_some _ h, ih]; simp

theorem addAll_length (g : Graph) (es : List (Nat × Nat)) : (addAll g es).2.length = es.length := by
  induction es generalizing g with
  | nil => simp [addAll_nil]
  | cons e es ih =>
    obtain ⟨a, b⟩ := e
    cases h : addDep g a b with
    | none => rw [addAll_cons_none _ h]; simp [ih]
    | some g1 => rw [addAll_cons_some _ h]; simp [ih]

/-- general form of `dag_never_reported` -/
theorem addAll_all_of_eacyclic {E : List (Nat × Nat)} (hE : EAcyclic E) :
    ∀ (es : List (Nat × Nat)) (g : Graph), SubE g E → (∀ e, e ∈ es → e ∈ E) →
      (addAll g es).2.all id = true ∧ SubE (addAll g es).1 E := by
  intro es
  induction es with
  | nil => intro g hs _; simp [addAll_nil]; exact hs
  | cons e es ih =>
    intro g hs hes
    obtain ⟨a, b⟩ := e
    have hab : (a, b) ∈ E := hes _ List.mem_cons_self
    cases h : addDep g a b with
    | none =>
      exfalso
      exact hE a b hab (reachE_of_reach hs ((addDep_none_iff g a b).1 h))
    | some g1 =>
      have hs1 : SubE g1 E := by
        intro x y e
        rcases (edge_addDep h x y).1 e with e' | ⟨rfl, rfl⟩
        · exact hs _ _ e'
        · exact hab
      obtain ⟨h1, h2⟩ := ih g1 hs1 (fun e he => hes e (List.mem_cons_of_mem _ he))
      rw [addAll_cons_some _ h]
      exact ⟨by simpa using h1, h2⟩

/-- general form of `cycle_always_reported` (contrapositive): if nothing is rejected, the final graph
    is acyclic and contains every old and every attempted edge -/
theorem addAll_all_accepted :
    ∀ (es : List (Nat × Nat)) (g : Graph), Acyclic g → (addAll g es).2.all id = true →
      Acyclic (addAll g es).1 ∧ (∀ a b, Edge g a b → Edge (addAll g es).1 a b) ∧
      (∀ a b, (a, b) ∈ es → Edge (addAll g es).1 a b) := by
  intro es
  induction es with
  | nil => intro g hac _; simp [addAll_nil]; exact hac
  | cons e es ih =>
    intro g hac hall
    obtain ⟨a, b⟩ := e
    cases h : addDep g a b with
    | none => rw [addAll_cons_none _ h] at hall; simp at hall
    | some g1 =>
      rw [addAll_cons_some _ h] at hall ⊢
      have hall' : (addAll g1 es).2.all id = true := by simpa using hall
      obtain ⟨h1, h2, h3⟩ := ih g1 (acyclic_invariant hac h) hall'
      refine ⟨h1, fun x y e => h2 x y ((edge_addDep h x y).2 (Or.inl e)), fun x y hxy => ?_⟩
      cases hxy with
      | head => exact h2 _ _ ((edge_addDep h a b).2 (Or.inr ⟨rfl, rfl⟩))
      | tail _ h' => exact h3 x y h'

theorem contains_false_iff (l : List Bool) : l.contains false = true ↔ ¬ (l.all id = true) := by
  induction l with
  | nil => simp
  | cons b l ih => cases b <;> simp_all

/-- P1.4: a DAG is never reported, whatever the order (and repetitions) of the attempts -/
theorem dag_never_reported (E : List (Nat × Nat)) (hE : EAcyclic E) :
    (addAll [] E).2.all id = true :=
  (addAll_all_of_eacyclic hE E [] (subE_nil E) (fun _ h => h)).1

/-- the verdict of a whole attempt sequence depends only on its edge set -/
theorem addAll_all_iff (E : List (Nat × Nat)) : (addAll [] E).2.all id = true ↔ EAcyclic E := by
  constructor
  · intro hall
    obtain ⟨hac, _, h3⟩ := addAll_all_accepted E [] acyclic_nil hall
    intro a b hab hr
    exact hac a b (h3 a b hab) (reach_of_reachE h3 hr)
  · exact dag_never_reported E

/-- P1.4: if the edge set contains a cycle, at least one attempt is rejected, whatever the order -/
theorem cycle_always_reported (E : List (Nat × Nat))
    (hc : ∃ a b, (a, b) ∈ E ∧ ReachE E b a) : (addAll [] E).2.contains false = true := by
  rw [contains_false_iff, addAll_all_iff]
  intro hE
  obtain ⟨a, b, hab, hr⟩ := hc
  exact hE a b hab hr

/-- the verdict is invariant under any reordering / duplication of the attempts -/
theorem verdict_order_independent (E E' : List (Nat × Nat)) (h : ∀ e, e ∈ E ↔ e ∈ E') :
    (addAll [] E).2.contains false = (addAll [] E').2.contains false := by
  have h1 := contains_false_iff (addAll [] E).2
  have h2 := contains_false_iff (addAll [] E').2
  rw [addAll_all_iff] at h1 h2
  have h3 := EAcyclic.congr h
  cases hc : (addAll [] E).2.contains false <;> cases hc' : (addAll [] E').2.contains false <;> simp_all

/-! ### concrete instances: a diamond and a 3-cycle -/

def diamondE : List (Nat × Nat) := [(1, 2), (1, 3), (2, 4), (3, 4)]
def cycle3E : List (Nat × Nat) := [(1, 2), (2, 3), (3, 1)]

example : addAll [] diamondE = ([(1, [2, 3]), (2, [4]), (3, [4])], [true, true, true, true]) := by
  simp [diamondE, addAll, addDep, insertEdge, hasPath, dfs, dfs.loop, succs, nodes, List.eraseDups_cons]

example : addAll [] cycle3E = ([(1, [2]), (2, [3])], [true, true, false]) := by
  simp [cycle3E, addAll, addDep, insertEdge, hasPath, dfs, dfs.loop, succs, nodes, List.eraseDups_cons]

/-- the other rotation of the same cycle is also reported (at a different attempt) -/
example : (addAll [] [(3, 1), (1, 2), (2, 3)]).2 = [true, true, false] := by
  simp [addAll, addDep, insertEdge, hasPath, dfs, dfs.loop, succs, nodes, List.eraseDups_cons]

example : hasPath [(1, [2, 3]), (2, [4]), (3, [4])] 1 4 = true := by
  simp [hasPath, dfs, dfs.loop, succs, nodes, List.eraseDups_cons]

example : hasPath [(1, [2, 3]), (2, [4]), (3, [4])] 4 1 = false := by
  simp [hasPath, dfs, dfs.loop, succs, nodes, List.eraseDups_cons]

/-- the hypothesis of `dag_never_reported` is satisfiable -/
example : EAcyclic diamondE :=
  (addAll_all_iff diamondE).1 (by
    simp [diamondE, addAll, addDep, insertEdge, hasPath, dfs, dfs.loop, succs, nodes, List.eraseDups_cons])

/-- the hypothesis of `cycle_always_reported` is satisfiable -/
example : ∃ a b, (a, b) ∈ cycle3E ∧ ReachE cycle3E b a :=
  ⟨1, 2, by simp [cycle3E],
    ReachE.step (b := 3) (by simp [cycle3E]) (ReachE.step (b := 1) (by simp [cycle3E]) (ReachE.refl 1))⟩

example : Acyclic [(1, [2, 3]), (2, [4]), (3, [4])] := by
  have h : addAll [] diamondE = ([(1, [2, 3]), (2, [4]), (3, [4])], [true, true, true, true]) := by
    simp [diamondE, addAll, addDep, insertEdge, hasPath, dfs, dfs.loop, succs, nodes, List.eraseDups_cons]
  have := (addAll_all_accepted diamondE [] acyclic_nil (by rw [h]; rfl)).1
  rwa [h] at this

end FerretVerif.DepGraph
