/-
  Proofs/RtMap.lean — the chained hash table of runtime/core/map.c (as transcribed in Model/RtMap.lean)
  refines an association list with "last write wins", for ANY hash function; the growable array of
  runtime/core/array.c refines a plain list.  Core Lean only.
-/
import FerretVerif.Model.RtMap

namespace FerretVerif.RtMap

set_option linter.unusedSectionVars false

variable {K V : Type} [DecidableEq K]

/-! ## generic list helpers -/

theorem nodup_map_inj {α β : Type} {f : α → β} :
    ∀ {l : List α}, (l.map f).Nodup → ∀ x ∈ l, ∀ y ∈ l, f x = f y → x = y
  | [], _, x, hx, _, _, _ => by cases hx
  | a :: l, h, x, hx, y, hy, hxy => by
    rw [List.map_cons, List.nodup_cons] at h
    rcases List.mem_cons.1 hx with hxa | hx <;> rcases List.mem_cons.1 hy with hya | hy
    · rw [hxa, hya]
    · subst hxa; exact absurd (hxy ▸ List.mem_map_of_mem hy) h.1
    · subst hya; exact absurd (hxy ▸ List.mem_map_of_mem hx) h.1
    · exact nodup_map_inj h.2 x hx y hy hxy

theorem nodup_of_nodup_map {α β : Type} (f : α → β) :
    ∀ {l : List α}, (l.map f).Nodup → l.Nodup
  | [], _ => List.nodup_nil
  | a :: l, h => by
    rw [List.map_cons, List.nodup_cons] at h
    exact List.nodup_cons.2 ⟨fun ha => h.1 (List.mem_map_of_mem ha), nodup_of_nodup_map f h.2⟩

/-- with duplicate-free keys, `find?` by key is characterised by membership -/
theorem find?_key_eq_some_iff {α β : Type} [DecidableEq β] {f : α → β} {l : List α} (h : (l.map f).Nodup)
    (k : β) (e : α) : l.find? (fun x => decide (f x = k)) = some e ↔ e ∈ l ∧ f e = k := by
  constructor
  · intro hf
    exact ⟨List.mem_of_find?_eq_some hf, by simpa using List.find?_some hf⟩
  · rintro ⟨hel, hek⟩
    have hs : (l.find? (fun x => decide (f x = k))).isSome := by
      rw [List.find?_isSome]; exact ⟨e, hel, by simpa using hek⟩
    obtain ⟨e', he'⟩ := Option.isSome_iff_exists.1 hs
    have hk' : f e' = k := by simpa using List.find?_some he'
    have := nodup_map_inj h e' (List.mem_of_find?_eq_some he') e hel (hk'.trans hek.symm)
    rw [he', this]

theorem split_at {α : Type} : ∀ (bs : List α) (i : Nat) (c : α), bs[i]? = some c →
    ∃ A B, bs = A ++ c :: B ∧ A.length = i
  | [], _, _, h => by simp at h
  | x :: xs, 0, c, h => by
    simp at h; subst h; exact ⟨[], xs, rfl, rfl⟩
  | x :: xs, i + 1, c, h => by
    simp at h
    obtain ⟨A, B, hAB, hl⟩ := split_at xs i c h
    exact ⟨x :: A, B, by simp [hAB], by simp [hl]⟩

theorem set_split {α : Type} (A B : List α) (c c' : α) : (A ++ c :: B).set A.length c' = A ++ c' :: B := by
  induction A with
  | nil => rfl
  | cons a A ih => simp [ih]

theorem modify_split {α : Type} (A B : List α) (c : α) (f : α → α) :
    (A ++ c :: B).modify A.length f = A ++ f c :: B := by
  induction A with
  | nil => rfl
  | cons a A ih => simp [ih]

theorem getD_split {α : Type} (A B : List α) (c d : α) : (A ++ c :: B).getD A.length d = c := by
  induction A with
  | nil => rfl
  | cons a A ih => simp [ih]

/-! ## 1. representation invariant -/

/-- every entry sits in the bucket its (cached, correct) hash selects -/
def WF (hash : K → Nat) (bs : List (List (Entry K V))) : Prop :=
  ∀ i c, bs[i]? = some c → ∀ e ∈ c, e.hash = hash e.key ∧ e.hash % bs.length = i

structure Inv (hash : K → Nat) (m : Map K V) : Prop where
  /-- (a) there is at least one bucket -/
  pos : 0 < m.buckets.length
  /-- (b) cached hashes are right and select the bucket the entry is in -/
  wf : WF hash m.buckets
  /-- (c) no key occurs twice anywhere -/
  nodup : (m.buckets.flatten.map (·.key)).Nodup
  /-- (d) the entry counter is the number of entries -/
  size_eq : m.size = m.buckets.flatten.length

/-- (b) in indexed form -/
theorem Inv.bucket {hash : K → Nat} {m : Map K V} (h : Inv hash m) (i : Nat) (hi : i < m.buckets.length)
    (e : Entry K V) (he : e ∈ m.buckets[i]) : e.hash = hash e.key ∧ e.hash % m.buckets.length = i :=
  h.wf i _ (List.getElem?_eq_getElem hi) e he

/-- spatial safety: the bucket index used by get/set is in range -/
theorem Inv.index_lt {hash : K → Nat} {m : Map K V} (h : Inv hash m) (k : K) :
    hash k % m.buckets.length < m.buckets.length := Nat.mod_lt _ h.pos

theorem wf_replicate (hash : K → Nat) (n : Nat) : WF hash (List.replicate n ([] : List (Entry K V))) := by
  intro i c hc e he
  rw [List.getElem?_replicate] at hc
  split at hc
  · cases hc; cases he
  · cases hc

theorem inv_new (hash : K → Nat) : Inv hash (new : Map K V) where
  pos := by simp [new, initialBuckets]
  wf := wf_replicate hash _
  nodup := by simp [new]
  size_eq := by simp [new]

theorem length_pushAt (bs : List (List (Entry K V))) (i : Nat) (e : Entry K V) :
    (pushAt bs i e).length = bs.length := by simp [pushAt]

theorem wf_pushAt {hash : K → Nat} {bs : List (List (Entry K V))} {e : Entry K V} (hwf : WF hash bs)
    (he : e.hash = hash e.key) : WF hash (pushAt bs (e.hash % bs.length) e) := by
  intro i c hc x hx
  rw [length_pushAt]
  simp only [pushAt, List.getElem?_modify] at hc
  cases hbi : bs[i]? with
  | none => simp [hbi] at hc
  | some c0 =>
    simp only [hbi, Option.map_eq_map, Option.map_some, Option.some.injEq] at hc
    subst hc
    split at hx
    · rcases List.mem_cons.1 hx with rfl | hx
      · exact ⟨he, by assumption⟩
      · exact hwf i c0 hbi x hx
    · exact hwf i c0 hbi x hx

theorem flatten_pushAt_perm {bs : List (List (Entry K V))} {i : Nat} (hi : i < bs.length) (e : Entry K V) :
    (pushAt bs i e).flatten.Perm (e :: bs.flatten) := by
  obtain ⟨A, B, hAB, hl⟩ := split_at bs i bs[i] (List.getElem?_eq_getElem hi)
  generalize bs[i] = c at hAB
  subst hAB; subst hl
  rw [pushAt, modify_split]
  simp only [List.flatten_append, List.flatten_cons, List.cons_append]
  exact List.perm_middle

/-- under `WF`, an entry of the table is found in the bucket its key hashes to -/
theorem mem_flatten_wf {hash : K → Nat} {bs : List (List (Entry K V))} (hwf : WF hash bs) {e : Entry K V}
    (he : e ∈ bs.flatten) : e.hash = hash e.key ∧ ∃ c, bs[hash e.key % bs.length]? = some c ∧ e ∈ c := by
  obtain ⟨c, hc, hec⟩ := List.mem_flatten.1 he
  obtain ⟨i, hi⟩ := List.mem_iff_getElem?.1 hc
  obtain ⟨h1, h2⟩ := hwf i c hi e hec
  exact ⟨h1, c, by rw [← h1, h2]; exact hi, hec⟩

theorem mem_flatten_of_getElem? {α : Type} {bs : List (List α)} {i : Nat} {c : List α} (hc : bs[i]? = some c)
    {e : α} (he : e ∈ c) : e ∈ bs.flatten :=
  List.mem_flatten.2 ⟨c, List.mem_iff_getElem?.2 ⟨i, hc⟩, he⟩

/-! ### resize -/

/-- what resize stores for an old entry: the same entry with its hash recomputed -/
def fixHash (hash : K → Nat) (e : Entry K V) : Entry K V := { e with hash := hash e.key }

theorem rehash_spec (hash : K → Nat) (n : Nat) (hn : 0 < n) :
    ∀ (es : List (Entry K V)) (acc : List (List (Entry K V))), acc.length = n → WF hash acc →
      (es.foldl (fun acc e => pushAt acc (hash e.key % n) { e with hash := hash e.key }) acc).length = n ∧
      WF hash (es.foldl (fun acc e => pushAt acc (hash e.key % n) { e with hash := hash e.key }) acc) ∧
      (es.foldl (fun acc e => pushAt acc (hash e.key % n) { e with hash := hash e.key }) acc).flatten.Perm
        (es.map (fixHash hash) ++ acc.flatten)
  | [], acc, hl, hwf => ⟨hl, hwf, by simp⟩
  | e :: es, acc, hl, hwf => by
    rw [List.foldl_cons]
    have hwf' : WF hash (pushAt acc (hash e.key % n) (fixHash hash e)) := by
      have := wf_pushAt (e := fixHash hash e) hwf rfl
      simpa [fixHash, hl] using this
    have hl' : (pushAt acc (hash e.key % n) (fixHash hash e)).length = n := by rw [length_pushAt, hl]
    obtain ⟨h1, h2, h3⟩ := rehash_spec hash n hn es _ hl' hwf'
    refine ⟨h1, h2, h3.trans ?_⟩
    have hp := flatten_pushAt_perm (bs := acc) (i := hash e.key % n) (by rw [hl]; exact Nat.mod_lt _ hn)
      (fixHash hash e)
    rw [List.map_cons, List.cons_append]
    exact (List.Perm.append_left _ hp).trans List.perm_middle

theorem length_resize (hash : K → Nat) (m : Map K V) {n : Nat} (hn : 0 < n) :
    (resize hash m n).buckets.length = n :=
  (rehash_spec hash n hn m.buckets.flatten _ List.length_replicate (wf_replicate hash n)).1

theorem size_resize (hash : K → Nat) (m : Map K V) (n : Nat) : (resize hash m n).size = m.size := rfl

/-- resize keeps exactly the old entries (hashes recomputed) -/
theorem resize_perm_fix (hash : K → Nat) (m : Map K V) {n : Nat} (hn : 0 < n) :
    (resize hash m n).buckets.flatten.Perm (m.buckets.flatten.map (fixHash hash)) := by
  have := (rehash_spec hash n hn m.buckets.flatten _ List.length_replicate (wf_replicate hash n)).2.2
  simpa [resize] using this

theorem fixHash_eq_self {hash : K → Nat} {m : Map K V} (h : Inv hash m) :
    m.buckets.flatten.map (fixHash hash) = m.buckets.flatten := by
  have : ∀ e ∈ m.buckets.flatten, fixHash hash e = e := by
    intro e he
    have := (mem_flatten_wf h.wf he).1
    cases e; simp_all [fixHash]
  rw [List.map_congr_left this, List.map_id']

/-- under the invariant, resize permutes the entries -/
theorem resize_perm {hash : K → Nat} {m : Map K V} (h : Inv hash m) {n : Nat} (hn : 0 < n) :
    (resize hash m n).buckets.flatten.Perm m.buckets.flatten := by
  have := resize_perm_fix hash m hn
  rwa [fixHash_eq_self h] at this

theorem inv_resize {hash : K → Nat} {m : Map K V} {n : Nat} (h : Inv hash m) (hn : 0 < n) :
    Inv hash (resize hash m n) where
  pos := by rw [length_resize hash m hn]; exact hn
  wf := (rehash_spec hash n hn m.buckets.flatten _ List.length_replicate (wf_replicate hash n)).2.1
  nodup := ((resize_perm h hn).map _).nodup_iff.2 h.nodup
  size_eq := by rw [size_resize, h.size_eq, (resize_perm h hn).length_eq]

end FerretVerif.RtMap
