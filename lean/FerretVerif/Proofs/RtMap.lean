/-
  Proofs/RtMap.lean — the chained hash table of runtime/core/map.c (as transcribed in Model/RtMap.lean)
  refines an association list with "last write wins", for ANY hash function; the growable array of
  runtime/core/array.c refines a plain list.  Core Lean only.
-/
import FerretVerif.Model.RtMap

namespace FerretVerif.RtMap

set_option linter.unusedSectionVars false

variable {K V : Type} [DecidableEq K]

/-! ## generic list helpers -/

theorem nodup_map_inj {α β : Type} {f : α → β} :
    ∀ {l : List α}, (l.map f).Nodup → ∀ x ∈ l, ∀ y ∈ l, f x = f y → x = y
  | [], _, x, hx, _, _, _ => by cases hx
  | a :: l, h, x, hx, y, hy, hxy => by
    rw [List.map_cons, List.nodup_cons] at h
    rcases List.mem_cons.1 hx with hxa | hx' <;> rcases List.mem_cons.1 hy with hya | hy'
    · rw [hxa, hya]
    · subst hxa; exact absurd (hxy ▸ List.mem_map_of_mem hy') h.1
    · subst hya; exact absurd (hxy ▸ List.mem_map_of_mem hx') h.1
    · exact nodup_map_inj h.2 x hx' y hy' hxy

theorem nodup_of_nodup_map {α β : Type} (f : α → β) :
    ∀ {l : List α}, (l.map f).Nodup → l.Nodup
  | [], _ => List.nodup_nil
  | a :: l, h => by
    rw [List.map_cons, List.nodup_cons] at h
    exact List.nodup_cons.2 ⟨fun ha => h.1 (List.mem_map_of_mem ha), nodup_of_nodup_map f h.2⟩

/-- with duplicate-free keys, `find?` by key is characterised by membership -/
theorem find?_key_eq_some_iff {α β : Type} [DecidableEq β] {f : α → β} {l : List α} (h : (l.map f).Nodup)
    (k : β) (e : α) : l.find? (fun x => decide (f x = k)) = some e ↔ e ∈ l ∧ f e = k := by
  constructor
  · intro hf
    exact ⟨List.mem_of_find?_eq_some hf, by simpa using List.find?_some hf⟩
  · rintro ⟨hel, hek⟩
    have hs : (l.find? (fun x => decide (f x = k))).isSome := by
      rw [List.find?_isSome]; exact ⟨e, hel, by simpa using hek⟩
    obtain ⟨e', he'⟩ := Option.isSome_iff_exists.1 hs
    have hk' : f e' = k := by simpa using List.find?_some he'
    have := nodup_map_inj h e' (List.mem_of_find?_eq_some he') e hel (hk'.trans hek.symm)
    rw [he', this]

theorem split_at {α : Type} : ∀ (bs : List α) (i : Nat) (c : α), bs[i]? = some c →
    ∃ A B, bs = A ++ c :: B ∧ A.length = i
  | [], _, _, h => by simp at h
  | x :: xs, 0, c, h => by
    simp at h; subst h; exact ⟨[], xs, rfl, rfl⟩
  | x :: xs, i + 1, c, h => by
    simp at h
    obtain ⟨A, B, hAB, hl⟩ := split_at xs i c h
    exact ⟨x :: A, B, by simp [hAB], by simp [hl]⟩

theorem set_split {α : Type} (A B : List α) (c c' : α) : (A ++ c :: B).set A.length c' = A ++ c' :: B := by
  induction A with
  | nil => rfl
  | cons a A ih => simp [ih]

theorem modify_split {α : Type} (A B : List α) (c : α) (f : α → α) :
    (A ++ c :: B).modify A.length f = A ++ f c :: B := by
  induction A with
  | nil => rfl
  | cons a A ih => simp [ih]

theorem getD_split {α : Type} (A B : List α) (c d : α) : (A ++ c :: B).getD A.length d = c := by
  induction A with
  | nil => rfl
  | cons a A ih => simp

/-! ## 1. representation invariant -/

/-- every entry sits in the bucket its (cached, correct) hash selects -/
def WF (hash : K → Nat) (bs : List (List (Entry K V))) : Prop :=
  ∀ i c, bs[i]? = some c → ∀ e ∈ c, e.hash = hash e.key ∧ e.hash % bs.length = i

structure Inv (hash : K → Nat) (m : Map K V) : Prop where
  /-- (a) there is at least one bucket -/
  pos : 0 < m.buckets.length
  /-- (b) cached hashes are right and select the bucket the entry is in -/
  wf : WF hash m.buckets
  /-- (c) no key occurs twice anywhere -/
  nodup : (m.buckets.flatten.map (·.key)).Nodup
  /-- (d) the entry counter is the number of entries -/
  size_eq : m.size = m.buckets.flatten.length

/-- (b) in indexed form -/
theorem Inv.bucket {hash : K → Nat} {m : Map K V} (h : Inv hash m) (i : Nat) (hi : i < m.buckets.length)
    (e : Entry K V) (he : e ∈ m.buckets[i]) : e.hash = hash e.key ∧ e.hash % m.buckets.length = i :=
  h.wf i _ (List.getElem?_eq_getElem hi) e he

/-- spatial safety: the bucket index used by get/set is in range -/
theorem Inv.index_lt {hash : K → Nat} {m : Map K V} (h : Inv hash m) (k : K) :
    hash k % m.buckets.length < m.buckets.length := Nat.mod_lt _ h.pos

theorem wf_replicate (hash : K → Nat) (n : Nat) : WF hash (List.replicate n ([] : List (Entry K V))) := by
  intro i c hc e he
  rw [List.getElem?_replicate] at hc
  split at hc
  · cases hc; cases he
  · cases hc

theorem inv_new (hash : K → Nat) : Inv hash (new : Map K V) where
  pos := by simp [new, initialBuckets]
  wf := wf_replicate hash _
  nodup := by simp [new]
  size_eq := by simp [new]

theorem length_pushAt (bs : List (List (Entry K V))) (i : Nat) (e : Entry K V) :
    (pushAt bs i e).length = bs.length := by simp [pushAt]

theorem wf_pushAt {hash : K → Nat} {bs : List (List (Entry K V))} {e : Entry K V} (hwf : WF hash bs)
    (he : e.hash = hash e.key) : WF hash (pushAt bs (e.hash % bs.length) e) := by
  intro i c hc x hx
  rw [length_pushAt]
  simp only [pushAt, List.getElem?_modify] at hc
  cases hbi : bs[i]? with
  | none => simp [hbi] at hc
  | some c0 =>
    simp only [hbi, Option.map_eq_map, Option.map_some, Option.some.injEq] at hc
    subst hc
    split at hx
    · rcases List.mem_cons.1 hx with rfl | hx
      · exact ⟨he, by assumption⟩
      · exact hwf i c0 hbi x hx
    · exact hwf i c0 hbi x hx

theorem flatten_pushAt_perm {bs : List (List (Entry K V))} {i : Nat} (hi : i < bs.length) (e : Entry K V) :
    (pushAt bs i e).flatten.Perm (e :: bs.flatten) := by
  obtain ⟨A, B, hAB, hl⟩ := split_at bs i bs[i] (List.getElem?_eq_getElem hi)
  generalize bs[i] = c at hAB
  subst hAB; subst hl
  rw [pushAt, modify_split]
  simp only [List.flatten_append, List.flatten_cons, List.cons_append]
  exact List.perm_middle

/-- under `WF`, an entry of the table is found in the bucket its key hashes to -/
theorem mem_flatten_wf {hash : K → Nat} {bs : List (List (Entry K V))} (hwf : WF hash bs) {e : Entry K V}
    (he : e ∈ bs.flatten) : e.hash = hash e.key ∧ ∃ c, bs[hash e.key % bs.length]? = some c ∧ e ∈ c := by
  obtain ⟨c, hc, hec⟩ := List.mem_flatten.1 he
  obtain ⟨i, hi⟩ := List.mem_iff_getElem?.1 hc
  obtain ⟨h1, h2⟩ := hwf i c hi e hec
  exact ⟨h1, c, by rw [← h1, h2]; exact hi, hec⟩

theorem mem_flatten_of_getElem? {α : Type} {bs : List (List α)} {i : Nat} {c : List α} (hc : bs[i]? = some c)
    {e : α} (he : e ∈ c) : e ∈ bs.flatten :=
  List.mem_flatten.2 ⟨c, List.mem_iff_getElem?.2 ⟨i, hc⟩, he⟩

/-! ### resize -/

/-- what resize stores for an old entry: the same entry with its hash recomputed -/
def fixHash (hash : K → Nat) (e : Entry K V) : Entry K V := { e with hash := hash e.key }

theorem rehash_spec (hash : K → Nat) (n : Nat) (hn : 0 < n) :
    ∀ (es : List (Entry K V)) (acc : List (List (Entry K V))), acc.length = n → WF hash acc →
      (es.foldl (fun acc e => pushAt acc (hash e.key % n) { e with hash := hash e.key }) acc).length = n ∧
      WF hash (es.foldl (fun acc e => pushAt acc (hash e.key % n) { e with hash := hash e.key }) acc) ∧
      (es.foldl (fun acc e => pushAt acc (hash e.key % n) { e with hash := hash e.key }) acc).flatten.Perm
        (es.map (fixHash hash) ++ acc.flatten)
  | [], acc, hl, hwf => ⟨hl, hwf, by simp⟩
  | e :: es, acc, hl, hwf => by
    rw [List.foldl_cons]
    have hwf' : WF hash (pushAt acc (hash e.key % n) (fixHash hash e)) := by
      have := wf_pushAt (e := fixHash hash e) hwf rfl
      simpa [fixHash, hl] using this
    have hl' : (pushAt acc (hash e.key % n) (fixHash hash e)).length = n := by rw [length_pushAt, hl]
    obtain ⟨h1, h2, h3⟩ := rehash_spec hash n hn es _ hl' hwf'
    refine ⟨h1, h2, h3.trans ?_⟩
    have hp := flatten_pushAt_perm (bs := acc) (i := hash e.key % n) (by rw [hl]; exact Nat.mod_lt _ hn)
      (fixHash hash e)
    rw [List.map_cons, List.cons_append]
    exact (List.Perm.append_left _ hp).trans List.perm_middle

theorem length_resize (hash : K → Nat) (m : Map K V) {n : Nat} (hn : 0 < n) :
    (resize hash m n).buckets.length = n :=
  (rehash_spec hash n hn m.buckets.flatten _ List.length_replicate (wf_replicate hash n)).1

theorem size_resize (hash : K → Nat) (m : Map K V) (n : Nat) : (resize hash m n).size = m.size := rfl

/-- resize keeps exactly the old entries (hashes recomputed) -/
theorem resize_perm_fix (hash : K → Nat) (m : Map K V) {n : Nat} (hn : 0 < n) :
    (resize hash m n).buckets.flatten.Perm (m.buckets.flatten.map (fixHash hash)) := by
  have := (rehash_spec hash n hn m.buckets.flatten _ List.length_replicate (wf_replicate hash n)).2.2
  simpa [resize] using this

theorem fixHash_eq_self {hash : K → Nat} {m : Map K V} (h : Inv hash m) :
    m.buckets.flatten.map (fixHash hash) = m.buckets.flatten := by
  have : ∀ e ∈ m.buckets.flatten, fixHash hash e = e := by
    intro e he
    have := (mem_flatten_wf h.wf he).1
    cases e; simp_all [fixHash]
  rw [List.map_congr_left this, List.map_id']

/-- under the invariant, resize permutes the entries -/
theorem resize_perm {hash : K → Nat} {m : Map K V} (h : Inv hash m) {n : Nat} (hn : 0 < n) :
    (resize hash m n).buckets.flatten.Perm m.buckets.flatten := by
  have := resize_perm_fix hash m hn
  rwa [fixHash_eq_self h] at this

theorem inv_resize {hash : K → Nat} {m : Map K V} {n : Nat} (h : Inv hash m) (hn : 0 < n) :
    Inv hash (resize hash m n) where
  pos := by rw [length_resize hash m hn]; exact hn
  wf := (rehash_spec hash n hn m.buckets.flatten _ List.length_replicate (wf_replicate hash n)).2.1
  nodup := ((resize_perm h hn).map _).nodup_iff.2 h.nodup
  size_eq := by rw [size_resize, h.size_eq, (resize_perm h hn).length_eq]

/-! ## 2. lookups -/

/-- the entries of the table, in iteration order -/
def entries (m : Map K V) : List (Entry K V) := m.buckets.flatten

/-- `get` returns `v` exactly when some entry of the table carries `(k, v)` -/
theorem get_some_iff {hash : K → Nat} {m : Map K V} (h : Inv hash m) (k : K) (v : V) :
    get hash m k = some v ↔ ∃ e ∈ m.buckets.flatten, e.key = k ∧ e.val = v := by
  unfold get findChain
  simp only [Option.map_eq_some_iff, List.getD_eq_getElem?_getD]
  constructor
  · rintro ⟨e, hf, hv⟩
    have hp := List.find?_some hf
    have hm := List.mem_of_find?_eq_some hf
    simp only [Bool.and_eq_true, decide_eq_true_eq] at hp
    cases hb : m.buckets[hash k % m.buckets.length]? with
    | none => simp [hb] at hm
    | some c =>
      simp only [hb, Option.getD_some] at hm
      exact ⟨e, mem_flatten_of_getElem? hb hm, hp.2, hv⟩
  · rintro ⟨e, he, hk, hv⟩
    obtain ⟨hh, c, hc, hec⟩ := mem_flatten_wf h.wf he
    rw [hk] at hc hh
    simp only [hc, Option.getD_some]
    have hs : (c.find? (fun e => e.hash == hash k && decide (e.key = k))).isSome := by
      rw [List.find?_isSome]; exact ⟨e, hec, by simp [hh, hk]⟩
    obtain ⟨e', he'⟩ := Option.isSome_iff_exists.1 hs
    have hp := List.find?_some he'
    simp only [Bool.and_eq_true, decide_eq_true_eq] at hp
    have := nodup_map_inj h.nodup e' (mem_flatten_of_getElem? hc (List.mem_of_find?_eq_some he')) e he
      (hp.2.trans hk.symm)
    exact ⟨e', he', by rw [this, hv]⟩

theorem get_eq_none_iff {hash : K → Nat} {m : Map K V} (h : Inv hash m) (k : K) :
    get hash m k = none ↔ ∀ e ∈ m.buckets.flatten, e.key ≠ k := by
  constructor
  · intro hn e he hk
    have := (get_some_iff h k e.val).2 ⟨e, he, hk, rfl⟩
    rw [hn] at this; cases this
  · intro hall
    cases hg : get hash m k with
    | none => rfl
    | some v =>
      obtain ⟨e, he, hk, _⟩ := (get_some_iff h k v).1 hg
      exact absurd hk (hall e he)

theorem get_new (hash : K → Nat) (k : K) : get hash (new : Map K V) k = none :=
  (get_eq_none_iff (inv_new hash) k).2 (by simp [new])

theorem resize_preserves_get {hash : K → Nat} {m : Map K V} {n : Nat} (h : Inv hash m) (hn : 0 < n) (k : K) :
    get hash (resize hash m n) k = get hash m k := by
  apply Option.ext
  intro v
  rw [get_some_iff (inv_resize h hn), get_some_iff h]
  constructor <;> rintro ⟨e, he, hkv⟩
  · exact ⟨e, (resize_perm h hn).mem_iff.1 he, hkv⟩
  · exact ⟨e, (resize_perm h hn).mem_iff.2 he, hkv⟩

/-! ### set -/

theorem updateChain_split {h : Nat} {k : K} (v : V) {e0 : Entry K V} :
    ∀ {c : List (Entry K V)}, findChain c h k = some e0 →
      ∃ c1 c2, c = c1 ++ e0 :: c2 ∧ updateChain c h k v = c1 ++ { e0 with val := v } :: c2
  | [], hf => by simp [findChain] at hf
  | e :: es, hf => by
    unfold findChain at hf
    rw [List.find?_cons] at hf
    unfold updateChain
    split at hf
    · rename_i hp
      cases hf
      exact ⟨[], es, rfl, by simp [hp]⟩
    · rename_i hp
      obtain ⟨c1, c2, h1, h2⟩ := updateChain_split v (c := es) hf
      refine ⟨e :: c1, c2, by simp [h1], ?_⟩
      simp only [hp, Bool.false_eq_true, if_false, h2, List.cons_append]

/-- the part of `set` after the optional resize -/
def setCore (hash : K → Nat) (m : Map K V) (k : K) (v : V) : Map K V :=
  let h := hash k
  let b := h % m.buckets.length
  let chain := m.buckets.getD b []
  match findChain chain h k with
  | some _ => ⟨m.buckets.set b (updateChain chain h k v), m.size⟩
  | none => ⟨pushAt m.buckets b ⟨h, k, v⟩, m.size + 1⟩

theorem set_eq (hash : K → Nat) (m : Map K V) (k : K) (v : V) :
    set hash m k v = setCore hash
      (if m.size ≥ threshold m.buckets.length then resize hash m (m.buckets.length * 2) else m) k v := rfl

/-- the effect of `setCore` on the entry list: either one entry with key `k` has its value overwritten in
    place, or there was none and a new one is added -/
theorem setCore_spec {hash : K → Nat} {m : Map K V} (h : Inv hash m) (k : K) (v : V) :
    (setCore hash m k v).buckets.length = m.buckets.length ∧ WF hash (setCore hash m k v).buckets ∧
    ((∃ L R e0, e0.key = k ∧ m.buckets.flatten = L ++ e0 :: R ∧
        (setCore hash m k v).buckets.flatten = L ++ { e0 with val := v } :: R ∧
        (setCore hash m k v).size = m.size) ∨
     ((∀ e ∈ m.buckets.flatten, e.key ≠ k) ∧
        (setCore hash m k v).buckets.flatten.Perm (⟨hash k, k, v⟩ :: m.buckets.flatten) ∧
        (setCore hash m k v).size = m.size + 1)) := by
  have hb : hash k % m.buckets.length < m.buckets.length := h.index_lt k
  have hwf := h.wf
  obtain ⟨A, B, hAB, hl⟩ := split_at m.buckets _ _ (List.getElem?_eq_getElem hb)
  generalize hc : m.buckets[hash k % m.buckets.length] = c at hAB
  have hget : m.buckets[hash k % m.buckets.length]? = some c := by rw [List.getElem?_eq_getElem hb, hc]
  have hcD : m.buckets.getD (hash k % m.buckets.length) [] = c := by
    rw [List.getD_eq_getElem?_getD, hget]; rfl
  unfold setCore
  simp only [hcD]
  cases hf : findChain c (hash k) k with
  | some e0 =>
    simp only
    obtain ⟨c1, c2, hc12, hupd⟩ := updateChain_split v hf
    have he0 : e0.hash = hash k ∧ e0.key = k := by
      have := List.find?_some hf
      simpa using this
    refine ⟨by simp, ?_, Or.inl ⟨A.flatten ++ c1, c2 ++ B.flatten, e0, he0.2, ?_, ?_, trivial⟩⟩
    · intro i c' hc' x hx
      rw [List.length_set]
      rw [List.getElem?_set] at hc'
      split at hc'
      · rename_i hi
        cases hc'
        subst hi
        rw [hupd] at hx
        have hxc : x ∈ c ∨ (x.hash = e0.hash ∧ x.key = e0.key) := by
          rw [hc12]
          simp only [List.mem_append, List.mem_cons] at hx ⊢
          rcases hx with hx | rfl | hx
          · exact Or.inl (Or.inl hx)
          · exact Or.inr ⟨rfl, rfl⟩
          · exact Or.inl (Or.inr (Or.inr hx))
        rcases hxc with hxc | ⟨hx1, hx2⟩
        · exact hwf _ c hget x hxc
        · have := hwf _ c hget e0 (by rw [hc12]; simp)
          rw [hx1, hx2]; exact this
      · exact hwf i c' hc' x hx
    · rw [hAB, hc12]; simp
    · rw [hupd]
      conv => lhs; rw [← hl, hAB, set_split]
      simp
  | none =>
    simp only
    have hnone : ∀ e ∈ m.buckets.flatten, e.key ≠ k := by
      intro e he hk
      obtain ⟨hh, c', hc', hec⟩ := mem_flatten_wf hwf he
      rw [hk] at hc' hh
      rw [hget] at hc'; cases hc'
      have := List.find?_eq_none.1 hf e hec
      simp [hh, hk] at this
    refine ⟨length_pushAt _ _ _, ?_, Or.inr ⟨hnone, flatten_pushAt_perm hb _, trivial⟩⟩
    exact wf_pushAt (e := ⟨hash k, k, v⟩) hwf rfl

theorem inv_setCore {hash : K → Nat} {m : Map K V} (h : Inv hash m) (k : K) (v : V) :
    Inv hash (setCore hash m k v) := by
  obtain ⟨hlen, hwf, hcase⟩ := setCore_spec h k v
  refine ⟨by rw [hlen]; exact h.pos, hwf, ?_, ?_⟩
  · rcases hcase with ⟨L, R, e0, _, hold, hnew, _⟩ | ⟨hno, hperm, _⟩
    · have := h.nodup
      rw [hold] at this
      rw [hnew]
      simpa using this
    · rw [(hperm.map _).nodup_iff, List.map_cons, List.nodup_cons]
      refine ⟨?_, h.nodup⟩
      intro hmem
      obtain ⟨e, he, hk⟩ := List.mem_map.1 hmem
      exact hno e he hk
  · rcases hcase with ⟨L, R, e0, _, hold, hnew, hsz⟩ | ⟨_, hperm, hsz⟩
    · rw [hsz, h.size_eq, hold, hnew]; simp
    · rw [hsz, h.size_eq, hperm.length_eq]; simp

theorem get_setCore_same {hash : K → Nat} {m : Map K V} (h : Inv hash m) (k : K) (v : V) :
    get hash (setCore hash m k v) k = some v := by
  rw [get_some_iff (inv_setCore h k v)]
  obtain ⟨_, _, hcase⟩ := setCore_spec h k v
  rcases hcase with ⟨L, R, e0, hk, _, hnew, _⟩ | ⟨_, hperm, _⟩
  · exact ⟨{ e0 with val := v }, by rw [hnew]; simp, hk, rfl⟩
  · exact ⟨⟨hash k, k, v⟩, hperm.mem_iff.2 (by simp), rfl, rfl⟩

theorem get_setCore_other {hash : K → Nat} {m : Map K V} (h : Inv hash m) {k k' : K} (hne : k' ≠ k) (v : V) :
    get hash (setCore hash m k v) k' = get hash m k' := by
  apply Option.ext
  intro w
  rw [get_some_iff (inv_setCore h k v), get_some_iff h]
  obtain ⟨_, _, hcase⟩ := setCore_spec h k v
  rcases hcase with ⟨L, R, e0, hk, hold, hnew, _⟩ | ⟨_, hperm, _⟩
  · rw [hold, hnew]
    constructor
    · rintro ⟨e, he, hek, hev⟩
      simp only [List.mem_append, List.mem_cons] at he
      rcases he with he | rfl | he
      · exact ⟨e, by simp [he], hek, hev⟩
      · exact absurd (hek.symm.trans hk) hne
      · exact ⟨e, by simp [he], hek, hev⟩
    · rintro ⟨e, he, hek, hev⟩
      simp only [List.mem_append, List.mem_cons] at he
      rcases he with he | rfl | he
      · exact ⟨e, by simp [he], hek, hev⟩
      · exact absurd (hek.symm.trans hk) hne
      · exact ⟨e, by simp [he], hek, hev⟩
  · constructor
    · rintro ⟨e, he, hek, hev⟩
      rcases List.mem_cons.1 (hperm.mem_iff.1 he) with rfl | he
      · exact absurd hek.symm hne
      · exact ⟨e, he, hek, hev⟩
    · rintro ⟨e, he, hek, hev⟩
      exact ⟨e, hperm.mem_iff.2 (List.mem_cons_of_mem _ he), hek, hev⟩

theorem size_setCore {hash : K → Nat} {m : Map K V} (h : Inv hash m) (k : K) (v : V) :
    (setCore hash m k v).size = if (get hash m k).isSome then m.size else m.size + 1 := by
  obtain ⟨_, _, hcase⟩ := setCore_spec h k v
  rcases hcase with ⟨L, R, e0, hk, hold, _, hsz⟩ | ⟨hno, _, hsz⟩
  · have : get hash m k = some e0.val := (get_some_iff h k _).2 ⟨e0, by rw [hold]; simp, hk, rfl⟩
    rw [hsz, this]; rfl
  · have : get hash m k = none := (get_eq_none_iff h k).2 hno
    rw [hsz, this]; rfl

/-- the map `set` works on after its optional resize -/
def presize (hash : K → Nat) (m : Map K V) : Map K V :=
  if m.size ≥ threshold m.buckets.length then resize hash m (m.buckets.length * 2) else m

theorem set_eq' (hash : K → Nat) (m : Map K V) (k : K) (v : V) :
    set hash m k v = setCore hash (presize hash m) k v := rfl

theorem inv_presize {hash : K → Nat} {m : Map K V} (h : Inv hash m) : Inv hash (presize hash m) := by
  unfold presize; split
  · exact inv_resize h (Nat.mul_pos h.pos (by decide))
  · exact h

theorem get_presize {hash : K → Nat} {m : Map K V} (h : Inv hash m) (k : K) :
    get hash (presize hash m) k = get hash m k := by
  unfold presize; split
  · exact resize_preserves_get h (Nat.mul_pos h.pos (by decide)) k
  · rfl

theorem size_presize (hash : K → Nat) (m : Map K V) : (presize hash m).size = m.size := by
  unfold presize; split <;> rfl

theorem inv_set {hash : K → Nat} {m : Map K V} (h : Inv hash m) (k : K) (v : V) : Inv hash (set hash m k v) :=
  inv_setCore (inv_presize h) k v

theorem get_set_same {hash : K → Nat} {m : Map K V} (h : Inv hash m) (k : K) (v : V) :
    get hash (set hash m k v) k = some v :=
  get_setCore_same (inv_presize h) k v

theorem get_set_other {hash : K → Nat} {m : Map K V} (h : Inv hash m) {k k' : K} (hne : k' ≠ k) (v : V) :
    get hash (set hash m k v) k' = get hash m k' := by
  rw [set_eq', get_setCore_other (inv_presize h) hne, get_presize h]

theorem get_set {hash : K → Nat} {m : Map K V} (h : Inv hash m) (k k' : K) (v : V) :
    get hash (set hash m k v) k' = if k' = k then some v else get hash m k' := by
  split
  · rename_i hk; subst hk; exact get_set_same h _ v
  · rename_i hk; exact get_set_other h hk v

/-- size counts distinct keys: it grows exactly when the key was absent -/
theorem size_set {hash : K → Nat} {m : Map K V} (h : Inv hash m) (k : K) (v : V) :
    (set hash m k v).size = if (get hash m k).isSome then m.size else m.size + 1 := by
  rw [set_eq', size_setCore (inv_presize h), get_presize h, size_presize]

/-- the bucket count only changes by the doubling of the optional resize -/
theorem length_set {hash : K → Nat} {m : Map K V} (h : Inv hash m) (k : K) (v : V) :
    (set hash m k v).buckets.length =
      if m.size ≥ threshold m.buckets.length then m.buckets.length * 2 else m.buckets.length := by
  rw [set_eq', (setCore_spec (inv_presize h) k v).1]
  unfold presize; split
  · exact length_resize hash m (Nat.mul_pos h.pos (by decide))
  · rfl

/-- load bound kept by `set` (so chains stay short and the resize trigger is never skipped) -/
theorem load_bound_set {hash : K → Nat} {m : Map K V} (h : Inv hash m) (k : K) (v : V)
    (hb : m.size ≤ threshold m.buckets.length + 1) :
    (set hash m k v).size ≤ threshold (set hash m k v).buckets.length + 1 := by
  have hs : (set hash m k v).size ≤ m.size + 1 := by
    rw [size_set h]; split <;> omega
  rw [length_set h]
  have hp := h.pos
  unfold threshold at *
  split <;> omega

/-- spatial safety of `set`: the bucket it reads and writes (after its optional resize) exists -/
theorem set_index_in_bounds {hash : K → Nat} {m : Map K V} (h : Inv hash m) (k : K) :
    hash k % (presize hash m).buckets.length < (presize hash m).buckets.length :=
  (inv_presize h).index_lt k

/-- spatial safety of `get`: the bucket it reads exists -/
theorem get_index_in_bounds {hash : K → Nat} {m : Map K V} (h : Inv hash m) (k : K) :
    hash k % m.buckets.length < m.buckets.length := h.index_lt k

theorem has_eq (hash : K → Nat) (m : Map K V) (k : K) : has hash m k = (get hash m k).isSome := rfl

/-! ## 3. iteration -/

theorem iterate_keys (m : Map K V) : (iterate m).map (·.1) = m.buckets.flatten.map (·.key) := by
  simp [iterate, List.map_map, Function.comp_def]

theorem iterate_nodup_keys {hash : K → Nat} {m : Map K V} (h : Inv hash m) : ((iterate m).map (·.1)).Nodup := by
  rw [iterate_keys]; exact h.nodup

theorem iterate_nodup {hash : K → Nat} {m : Map K V} (h : Inv hash m) : (iterate m).Nodup :=
  nodup_of_nodup_map _ (iterate_nodup_keys h)

/-- every entry is visited exactly once -/
theorem iterate_length {hash : K → Nat} {m : Map K V} (h : Inv hash m) : (iterate m).length = m.size := by
  rw [iterate, List.length_map, h.size_eq]

theorem mem_iterate_iff {hash : K → Nat} {m : Map K V} (h : Inv hash m) (k : K) (v : V) :
    (k, v) ∈ iterate m ↔ get hash m k = some v := by
  rw [get_some_iff h, iterate, List.mem_map]
  constructor
  · rintro ⟨e, he, heq⟩
    cases heq
    exact ⟨e, he, rfl, rfl⟩
  · rintro ⟨e, he, rfl, rfl⟩
    exact ⟨e, he, rfl⟩

/-- `get` agrees with what iteration shows -/
theorem get_eq_lookup {hash : K → Nat} {m : Map K V} (h : Inv hash m) (k : K) :
    get hash m k = ((iterate m).find? (fun p => p.1 = k)).map (·.2) := by
  apply Option.ext
  intro v
  rw [← mem_iterate_iff h, Option.map_eq_some_iff]
  constructor
  · intro hm
    exact ⟨(k, v), (find?_key_eq_some_iff (f := Prod.fst) (iterate_nodup_keys h) k (k, v)).2 ⟨hm, rfl⟩, rfl⟩
  · rintro ⟨⟨k', v'⟩, hf, hv⟩
    obtain ⟨hm, hk⟩ := (find?_key_eq_some_iff (f := Prod.fst) (iterate_nodup_keys h) k (k', v')).1 hf
    simp only at hk hv
    subst hk; subst hv
    exact hm

/-! ## 4. refinement of the association-list specification -/

theorem spec_get_some_iff {s : Spec K V} (hs : (s.map (·.1)).Nodup) (k : K) (v : V) :
    s.get k = some v ↔ (k, v) ∈ s := by
  unfold Spec.get
  rw [Option.map_eq_some_iff]
  constructor
  · rintro ⟨⟨k', v'⟩, hf, hv⟩
    obtain ⟨hm, hk⟩ := (find?_key_eq_some_iff (f := fun p : K × V => p.1) hs k (k', v')).1 hf
    simp only at hk hv
    subst hk; subst hv
    exact hm
  · intro hm
    exact ⟨(k, v), (find?_key_eq_some_iff (f := fun p : K × V => p.1) hs k (k, v)).2 ⟨hm, rfl⟩, rfl⟩

theorem spec_get_replace (s : Spec K V) (k k' : K) (v : V) :
    Spec.get (s.map (fun p => if p.1 = k then (k, v) else p)) k' =
      if k' = k then (if s.any (fun p => decide (p.1 = k)) then some v else none) else Spec.get s k' := by
  induction s with
  | nil => simp [Spec.get]
  | cons p s ih =>
    unfold Spec.get at ih ⊢
    rw [List.map_cons, List.find?_cons, List.find?_cons, List.any_cons]
    by_cases hpk : p.1 = k <;> by_cases hk : k' = k
    · subst hk; simp [hpk]
    · have : ¬ p.1 = k' := fun h => hk (h.symm.trans hpk)
      have hk2 : ¬ k = k' := fun h => hk h.symm
      simp only [hpk, if_true, hk, if_false, hk2, decide_false] at ih ⊢
      exact ih
    · subst hk
      simp only [hpk, if_false, decide_false, Bool.false_or, if_true] at ih ⊢
      exact ih
    · simp only [hpk, if_false, hk] at ih ⊢
      split
      · rfl
      · exact ih

theorem spec_get_set (s : Spec K V) (k k' : K) (v : V) :
    (s.set k v).get k' = if k' = k then some v else s.get k' := by
  unfold Spec.set
  split
  · rename_i hany
    rw [spec_get_replace, hany]; rfl
  · rename_i hany
    have hnone : s.find? (fun p => decide (p.1 = k)) = none := by
      rw [List.find?_eq_none]
      intro x hx hp
      exact hany (List.any_eq_true.2 ⟨x, hx, hp⟩)
    unfold Spec.get
    rw [List.find?_append]
    by_cases hk : k' = k
    · subst hk
      simp [hnone]
    · have hk2 : ¬ k = k' := fun h => hk h.symm
      simp [hk, hk2]

theorem spec_keys_set {s : Spec K V} (hs : (s.map (·.1)).Nodup) (k : K) (v : V) :
    ((s.set k v).map (·.1)).Nodup := by
  unfold Spec.set
  split
  · have : (s.map (fun p => if p.1 = k then (k, v) else p)).map (·.1) = s.map (·.1) := by
      rw [List.map_map]
      apply List.map_congr_left
      intro p _
      simp only [Function.comp]
      split
      · rename_i h; exact h.symm
      · rfl
    rw [this]; exact hs
  · rename_i hany
    rw [List.map_append, List.nodup_append]
    refine ⟨hs, by simp, ?_⟩
    intro a ha b hb hab
    simp only [List.map_cons, List.map_nil, List.mem_singleton] at hb
    obtain ⟨p, hp, hpa⟩ := List.mem_map.1 ha
    apply hany
    exact List.any_eq_true.2 ⟨p, hp, by simp [hpa, hab, hb]⟩

/-- the refinement relation: the table is well formed and answers lookups like the association list -/
def Rel (hash : K → Nat) (m : Map K V) (s : Spec K V) : Prop :=
  Inv hash m ∧ (s.map (·.1)).Nodup ∧ ∀ k, get hash m k = s.get k

theorem rel_new (hash : K → Nat) : Rel hash (new : Map K V) [] :=
  ⟨inv_new hash, List.nodup_nil, fun k => by rw [get_new]; rfl⟩

/-- related states hold the same entries (iteration order may differ) -/
theorem rel_perm {hash : K → Nat} {m : Map K V} {s : Spec K V} (h : Rel hash m s) : (iterate m).Perm s := by
  obtain ⟨hinv, hs, hget⟩ := h
  rw [List.perm_ext_iff_of_nodup (iterate_nodup hinv) (nodup_of_nodup_map _ hs)]
  rintro ⟨k, v⟩
  rw [mem_iterate_iff hinv, hget, spec_get_some_iff hs]

theorem rel_size {hash : K → Nat} {m : Map K V} {s : Spec K V} (h : Rel hash m s) : m.size = s.length := by
  rw [← iterate_length h.1, (rel_perm h).length_eq]

theorem rel_set {hash : K → Nat} {m : Map K V} {s : Spec K V} (h : Rel hash m s) (k : K) (v : V) :
    Rel hash (set hash m k v) (s.set k v) := by
  obtain ⟨hinv, hs, hget⟩ := h
  refine ⟨inv_set hinv k v, spec_keys_set hs k v, fun k' => ?_⟩
  rw [get_set hinv, spec_get_set, hget]

/-- when two outputs count as the same observation: iteration results up to order, everything else exactly -/
def OutAgree : Out K V → Out K V → Prop
  | .unit, .unit => True
  | .val a, .val b => a = b
  | .bool a, .bool b => a = b
  | .nat a, .nat b => a = b
  | .entries a, .entries b => a.Perm b
  | _, _ => False

theorem step_refines {hash : K → Nat} {m : Map K V} {s : Spec K V} (h : Rel hash m s) (op : Op K V) :
    Rel hash (stepImpl hash m op).1 (stepSpec s op).1 ∧
      OutAgree (stepImpl hash m op).2 (stepSpec s op).2 := by
  cases op with
  | set k v => exact ⟨rel_set h k v, trivial⟩
  | get k => exact ⟨h, h.2.2 k⟩
  | has k => exact ⟨h, by simp only [stepImpl, stepSpec, OutAgree, has, h.2.2 k]⟩
  | size => exact ⟨h, rel_size h⟩
  | iter => exact ⟨h, rel_perm h⟩

/-- run a history, collecting the outputs and the final state -/
def runImpl (hash : K → Nat) : Map K V → List (Op K V) → Map K V × List (Out K V)
  | m, [] => (m, [])
  | m, op :: ops =>
    let r := runImpl hash (stepImpl hash m op).1 ops
    (r.1, (stepImpl hash m op).2 :: r.2)

def runSpec : Spec K V → List (Op K V) → Spec K V × List (Out K V)
  | s, [] => (s, [])
  | s, op :: ops =>
    let r := runSpec (stepSpec s op).1 ops
    (r.1, (stepSpec s op).2 :: r.2)

/-- pairwise agreement of two output sequences (in particular: same length) -/
def OutsAgree : List (Out K V) → List (Out K V) → Prop
  | [], [] => True
  | a :: as, b :: bs => OutAgree a b ∧ OutsAgree as bs
  | _, _ => False

theorem run_refines {hash : K → Nat} (ops : List (Op K V)) {m : Map K V} {s : Spec K V} (h : Rel hash m s) :
    Rel hash (runImpl hash m ops).1 (runSpec s ops).1 ∧ OutsAgree (runImpl hash m ops).2 (runSpec s ops).2 := by
  induction ops generalizing m s with
  | nil => exact ⟨h, trivial⟩
  | cons op ops ih =>
    obtain ⟨hrel, hout⟩ := step_refines h op
    obtain ⟨h1, h2⟩ := ih hrel
    exact ⟨h1, hout, h2⟩

/-- every history of operations on a fresh table is observationally a history on the association list -/
theorem history_refines (hash : K → Nat) (ops : List (Op K V)) :
    Rel hash (runImpl hash (new : Map K V) ops).1 (runSpec ([] : Spec K V) ops).1 ∧
      OutsAgree (runImpl hash (new : Map K V) ops).2 (runSpec ([] : Spec K V) ops).2 :=
  run_refines ops (rel_new hash)

theorem outsAgree_length : ∀ {a b : List (Out K V)}, OutsAgree a b → a.length = b.length
  | [], [], _ => rfl
  | _ :: as, _ :: bs, h => by simp [outsAgree_length h.2]
  | [], _ :: _, h => h.elim
  | _ :: _, [], h => h.elim

/-! ## 5. bulk construction -/

theorem grow_pos (needed : Nat) : ∀ (fuel nb : Nat), 0 < nb → 0 < fromPairs.grow needed fuel nb
  | 0, nb, h => by rw [fromPairs.grow.eq_1]; exact h
  | fuel + 1, nb, h => by
    rw [fromPairs.grow.eq_2]
    split
    · exact grow_pos needed fuel (nb * 2) (by omega)
    · exact h

theorem inv_foldl_set {hash : K → Nat} (ps : List (K × V)) {m : Map K V} (h : Inv hash m) :
    Inv hash (ps.foldl (fun m (k, v) => set hash m k v) m) := by
  induction ps generalizing m with
  | nil => exact h
  | cons p ps ih =>
    obtain ⟨k, v⟩ := p
    rw [List.foldl_cons]
    exact ih (inv_set h k v)

/-- after inserting `ps` in order, a key maps to the value of its LAST occurrence in `ps`, or keeps its old
    binding if it does not occur -/
theorem get_foldl_set {hash : K → Nat} (ps : List (K × V)) {m : Map K V} (h : Inv hash m) (k : K) :
    get hash (ps.foldl (fun m (k, v) => set hash m k v) m) k =
      ((ps.reverse.find? (fun p => decide (p.1 = k))).map (·.2)).or (get hash m k) := by
  induction ps generalizing m with
  | nil => simp
  | cons p ps ih =>
    obtain ⟨k0, v0⟩ := p
    rw [List.foldl_cons, ih (inv_set h k0 v0), get_set h, List.reverse_cons, List.find?_append]
    cases List.find? (fun p => decide (p.1 = k)) ps.reverse with
    | some q => simp
    | none =>
      by_cases hk : k = k0
      · subst hk; simp
      · have hk2 : ¬ k0 = k := fun h => hk h.symm
        simp [hk, hk2]

/-- the table `fromPairs` starts inserting into -/
theorem fromPairs_eq (hash : K → Nat) (ps : List (K × V)) :
    fromPairs hash ps = ps.foldl (fun m (k, v) => set hash m k v)
      (if ps.length * 4 / 3 + 1 > (new : Map K V).buckets.length then
        resize hash (new : Map K V) (fromPairs.grow (ps.length * 4 / 3 + 1) 64 initialBuckets)
       else new) := rfl

theorem inv_fromPairs (hash : K → Nat) (ps : List (K × V)) : Inv hash (fromPairs hash ps) := by
  rw [fromPairs_eq]
  apply inv_foldl_set
  split
  · exact inv_resize (inv_new hash) (grow_pos _ _ _ (by decide))
  · exact inv_new hash

/-- `fromPairs` builds the map sending each key to the value of its last occurrence in the pair list -/
theorem fromPairs_spec (hash : K → Nat) (ps : List (K × V)) (k : K) :
    get hash (fromPairs hash ps) k = (ps.reverse.find? (fun p => decide (p.1 = k))).map (·.2) := by
  rw [fromPairs_eq]
  split
  · rw [get_foldl_set _ (inv_resize (inv_new hash) (grow_pos _ _ _ (by decide))),
      resize_preserves_get (inv_new hash) (grow_pos _ _ _ (by decide)), get_new, Option.or_none]
  · rw [get_foldl_set _ (inv_new hash), get_new, Option.or_none]

/-- `fromPairs` is the specification's fold: it is related to setting the pairs one by one -/
theorem rel_fromPairs (hash : K → Nat) (ps : List (K × V)) :
    Rel hash (fromPairs hash ps) (ps.foldl (fun s (k, v) => Spec.set s k v) []) := by
  rw [fromPairs_eq]
  have h0 : Rel hash (if ps.length * 4 / 3 + 1 > (new : Map K V).buckets.length then
        resize hash (new : Map K V) (fromPairs.grow (ps.length * 4 / 3 + 1) 64 initialBuckets)
       else new) ([] : Spec K V) := by
    split
    · refine ⟨inv_resize (inv_new hash) (grow_pos _ _ _ (by decide)), List.nodup_nil, fun k => ?_⟩
      rw [resize_preserves_get (inv_new hash) (grow_pos _ _ _ (by decide)), get_new]; rfl
    · exact rel_new hash
  generalize (if ps.length * 4 / 3 + 1 > (new : Map K V).buckets.length then
        resize hash (new : Map K V) (fromPairs.grow (ps.length * 4 / 3 + 1) 64 initialBuckets)
       else new) = m0 at h0
  generalize ([] : Spec K V) = s0 at h0
  induction ps generalizing m0 s0 with
  | nil => exact h0
  | cons p ps ih =>
    obtain ⟨k, v⟩ := p
    rw [List.foldl_cons, List.foldl_cons]
    exact ih _ _ (rel_set h0 k v)

/-! ## 6. growable array -/

theorem arr_len_append (a : Arr V) (x : V) : (a.append x).len = a.len + 1 := by
  simp [Arr.append, Arr.len]

theorem arr_get_append (a : Arr V) (x : V) : (a.append x).get (a.len : Int) = some x := by
  unfold Arr.get Arr.append Arr.len
  have h1 : ¬ ((a.data.length : Int) < 0) := by omega
  simp [h1]
  omega

theorem arr_get_old (a : Arr V) (x : V) (i : Int) (hi : i < a.len) : (a.append x).get i = a.get i := by
  unfold Arr.get Arr.append Arr.len at *
  by_cases h0 : i < 0
  · simp [h0]
  · have h2 : ¬ (i ≥ (a.data.length : Int)) := by omega
    have h3 : ¬ (i ≥ ((a.data ++ [x]).length : Int)) := by simp; omega
    have h4 : i.toNat < a.data.length := by omega
    simp only [h0, h2, h3, or_self, if_false]
    rw [List.getElem?_append_left h4]

/-- out-of-range indices are refused by both `get` and `set`, and `set` leaves the array alone -/
theorem arr_oor_refused (a : Arr V) (x : V) (i : Int) (h : i < 0 ∨ i ≥ a.len) :
    a.get i = none ∧ (a.set i x).2 = false ∧ (a.set i x).1 = a := by
  unfold Arr.len at h
  simp [Arr.get, Arr.set, h]

theorem arr_set_accepted (a : Arr V) (x : V) (i : Int) (h0 : 0 ≤ i) (h1 : i < a.len) :
    (a.set i x).2 = true ∧ (a.set i x).1.len = a.len := by
  unfold Arr.len at *
  have : ¬ (i < 0 ∨ i ≥ (a.data.length : Int)) := by omega
  simp [Arr.set, this]

theorem arr_set_get (a : Arr V) (x : V) (i : Int) (h0 : 0 ≤ i) (h1 : i < a.len) :
    (a.set i x).1.get i = some x := by
  unfold Arr.len at *
  have h : ¬ (i < 0 ∨ i ≥ (a.data.length : Int)) := by omega
  have h4 : i.toNat < a.data.length := by omega
  simp [Arr.set, Arr.get, h, h4]

theorem arr_set_get_other (a : Arr V) (x : V) (i j : Int) (hij : j ≠ i) :
    (a.set i x).1.get j = a.get j := by
  by_cases h : i < 0 ∨ i ≥ (a.data.length : Int)
  · simp [Arr.set, h]
  · have hne : i.toNat ≠ j.toNat ∨ j < 0 := by omega
    simp only [Arr.set, h, if_false, Arr.get, List.length_set]
    split
    · rfl
    · rename_i hj
      have : i.toNat ≠ j.toNat := by omega
      rw [List.getElem?_set_ne this]

/-- spatial invariant of the C array: the used prefix fits in the allocation -/
def ArrInv (a : Arr V) : Prop := a.data.length ≤ a.capacity

theorem arrInv_new (c : Nat) : ArrInv (Arr.new c : Arr V) := by simp [ArrInv, Arr.new]

/-- `append` writes at `data.length`, which is inside the (possibly grown) allocation -/
theorem arr_append_write_in_bounds (a : Arr V) (x : V) (h : ArrInv a) :
    a.data.length < (a.append x).capacity := by
  unfold ArrInv at h
  unfold Arr.append minCapacity
  simp only
  split <;> (try split) <;> omega

theorem arrInv_append (a : Arr V) (x : V) (h : ArrInv a) : ArrInv (a.append x) := by
  have := arr_append_write_in_bounds a x h
  unfold ArrInv
  have hl : (a.append x).data.length = a.data.length + 1 := by simp [Arr.append]
  omega

theorem arrInv_set (a : Arr V) (i : Int) (x : V) (h : ArrInv a) : ArrInv (a.set i x).1 := by
  unfold ArrInv at *
  unfold Arr.set
  split
  · exact h
  · simpa using h

/-- capacity never shrinks and is never below the minimum once allocated by `new` -/
theorem arr_capacity_mono (a : Arr V) (x : V) : a.capacity ≤ (a.append x).capacity := by
  unfold Arr.append minCapacity
  simp only
  split <;> (try split) <;> omega

/-- mutations of an array -/
inductive ArrOp (V : Type)
  | append (x : V)
  | set (i : Int) (x : V)

def Arr.step (a : Arr V) : ArrOp V → Arr V
  | .append x => a.append x
  | .set i x => (a.set i x).1

/-- the abstract list semantics of the same mutations: out-of-range stores are dropped -/
def listStep (l : List V) : ArrOp V → List V
  | .append x => l ++ [x]
  | .set i x => if 0 ≤ i ∧ i < (l.length : Int) then l.set i.toNat x else l

theorem arr_step_refines (a : Arr V) (op : ArrOp V) : (a.step op).data = listStep a.data op := by
  cases op with
  | append x => rfl
  | set i x =>
    simp only [Arr.step, Arr.set, listStep]
    by_cases h : i < 0 ∨ i ≥ (a.data.length : Int)
    · have h' : ¬ (0 ≤ i ∧ i < (a.data.length : Int)) := by omega
      simp [h, h']
    · have h' : 0 ≤ i ∧ i < (a.data.length : Int) := by omega
      simp [h, h']

theorem arrInv_step (a : Arr V) (op : ArrOp V) (h : ArrInv a) : ArrInv (a.step op) := by
  cases op with
  | append x => exact arrInv_append a x h
  | set i x => exact arrInv_set a i x h

/-- any sequence of appends and stores leaves the array holding exactly the abstract list, within its
    allocation -/
theorem arr_refines_list (ops : List (ArrOp V)) (a : Arr V) (h : ArrInv a) :
    (ops.foldl Arr.step a).data = ops.foldl listStep a.data ∧ ArrInv (ops.foldl Arr.step a) := by
  induction ops generalizing a with
  | nil => exact ⟨rfl, h⟩
  | cons op ops ih =>
    rw [List.foldl_cons, List.foldl_cons, ← arr_step_refines]
    exact ih (a.step op) (arrInv_step a op h)

theorem arr_refines_list_new (ops : List (ArrOp V)) (c : Nat) :
    (ops.foldl Arr.step (Arr.new c)).data = ops.foldl listStep [] ∧ ArrInv (ops.foldl Arr.step (Arr.new c)) :=
  arr_refines_list ops (Arr.new c) (arrInv_new c)

/-- reads are list reads -/
theorem arr_get_eq (a : Arr V) (i : Int) :
    a.get i = if 0 ≤ i ∧ i < (a.data.length : Int) then a.data[i.toNat]? else none := by
  unfold Arr.get
  by_cases h : i < 0 ∨ i ≥ (a.data.length : Int)
  · have h' : ¬ (0 ≤ i ∧ i < (a.data.length : Int)) := by omega
    simp [h, h']
  · have h' : 0 ≤ i ∧ i < (a.data.length : Int) := by omega
    simp [h, h']

/-! ## concrete instances: the hypotheses are satisfiable and the functions compute -/

section Examples

set_option maxRecDepth 20000

/-- a bad hash (5 classes) to force long chains -/
def exHash : Nat → Nat := fun k => k % 5

/-- 15 insertions into a fresh 16-bucket table: crosses the threshold of 12, so a resize to 32 happens;
    key 3 is written twice -/
def exPairs : List (Nat × Nat) :=
  [(0, 100), (5, 105), (10, 110), (1, 101), (6, 106), (3, 103), (8, 108), (13, 113), (2, 102), (7, 107),
   (12, 112), (4, 104), (9, 109), (14, 114), (3, 999), (11, 111)]

def exMap : Map Nat Nat := exPairs.foldl (fun m (k, v) => set exHash m k v) new

example : Inv exHash exMap := inv_foldl_set exPairs (inv_new exHash)
example : exMap.buckets.length = 32 := by decide
example : exMap.size = 15 := by decide
example : get exHash exMap 3 = some 999 := by decide
example : get exHash exMap 13 = some 113 := by decide
example : get exHash exMap 15 = none := by decide
example : has exHash exMap 15 = false := by decide
example : (exMap.buckets.getD 3 []).length = 3 := by decide
example : (iterate exMap).length = 15 := by decide
example : (iterate exMap).map (·.1) = [0, 5, 10, 11, 1, 6, 2, 7, 12, 3, 8, 13, 14, 9, 4] := by decide
example : (fromPairs exHash exPairs).buckets.length = 32 := by decide
example : get exHash (fromPairs exHash exPairs) 3 = some 999 := by decide
example : Inv exHash (fromPairs exHash exPairs) := inv_fromPairs exHash exPairs
example : (exPairs.reverse.find? (fun p => decide (p.1 = 3))).map (·.2) = some 999 := by decide
example : (runImpl exHash (new : Map Nat Nat) [.set 1 10, .set 6 60, .set 1 11, .get 1, .has 6, .size]).2.length = 6 := by
  decide
example : Rel exHash exMap (exPairs.foldl (fun s (k, v) => Spec.set s k v) []) := by
  have h : ∀ (ps : List (Nat × Nat)) (m : Map Nat Nat) (s : Spec Nat Nat), Rel exHash m s →
      Rel exHash (ps.foldl (fun m (k, v) => set exHash m k v) m) (ps.foldl (fun s (k, v) => Spec.set s k v) s) := by
    intro ps
    induction ps with
    | nil => intro m s h; exact h
    | cons p ps ih => intro m s h; exact ih _ _ (rel_set h p.1 p.2)
  exact h exPairs new [] (rel_new exHash)

/-- arrays: growth from the minimum capacity, refusal of out-of-range indices -/
def exArr : Arr Nat := [1, 2, 3, 4, 5].foldl Arr.append (Arr.new 0)

example : exArr.capacity = 8 := by decide
example : exArr.len = 5 := by decide
example : exArr.get 4 = some 5 := by decide
example : exArr.get 5 = none := by decide
example : exArr.get (-1) = none := by decide
example : (exArr.set 5 9).2 = false := by decide
example : ((exArr.set 2 9).1.get 2, (exArr.set 2 9).2) = (some 9, true) := by decide
example : ArrInv exArr := by unfold ArrInv; decide

end Examples

end FerretVerif.RtMap
