/-
  Proofs/WasmAlloc.lean — the bump allocator of the wasm runtime keeps every block inside the memory and
  hands out pairwise disjoint blocks, for every sequence of sizes.
-/
import FerretVerif.Model.WasmAlloc
namespace FerretVerif.WasmAlloc

theorem align8_ge (v : Nat) : v ≤ align8 v := by unfold align8; omega
theorem align8_mod (v : Nat) : align8 v % 8 = 0 := by unfold align8; omega
theorem align8_lt (v : Nat) : align8 v < v + 8 := by unfold align8; omega

theorem ceilPages_covers (x : Nat) : x ≤ ceilPages x * page := by
  unfold ceilPages page; omega

theorem bind_inv (d p : Nat) (h : align8 d ≤ p * page) : Inv (bind d p) := ⟨h, align8_mod d⟩

/-- one allocation: the invariant is kept, the block lies inside the (possibly grown) memory, the memory never shrinks,
    the block starts at the old bump pointer and ends at or before the new one -/
theorem alloc_spec (s : St) (n : Nat) (h : Inv s) :
    Inv (alloc s n).1 ∧ (alloc s n).2 + n ≤ (alloc s n).1.mem ∧ s.mem ≤ (alloc s n).1.mem ∧
      (alloc s n).2 = s.heap ∧ s.heap + n ≤ (alloc s n).1.heap ∧ (alloc s n).2 % 8 = 0 := by
  obtain ⟨h1, h2⟩ := h
  have hge := align8_ge (s.heap + n)
  have hmod := align8_mod (s.heap + n)
  have hc := ceilPages_covers (align8 (s.heap + n) - s.mem)
  simp only [alloc, Inv]
  split <;> refine ⟨⟨?_, hmod⟩, ?_, ?_, trivial, hge, h2⟩ <;> omega

/-- the blocks of a run, and the state after it -/
theorem run_spec (s : St) (ns : List Nat) (h : Inv s) :
    Inv (run s ns).1 ∧ s.mem ≤ (run s ns).1.mem ∧ s.heap ≤ (run s ns).1.heap ∧
      (∀ b ∈ (run s ns).2, s.heap ≤ b.1 ∧ b.1 + b.2 ≤ (run s ns).1.heap ∧ b.1 % 8 = 0) ∧
      ((run s ns).2.Pairwise fun b c => b.1 + b.2 ≤ c.1) := by
  induction ns generalizing s with
  | nil => simp [run, h]
  | cons n ns ih =>
    obtain ⟨hi, _, hm, ha, hh, ha8⟩ := alloc_spec s n h
    obtain ⟨i1, i2, i3, i4, i5⟩ := ih (alloc s n).1 hi
    simp only [run]
    refine ⟨i1, by omega, by omega, ?_, ?_⟩
    · intro b hb
      rcases List.mem_cons.mp hb with rfl | hb
      · exact ⟨by simp [ha], by simp only []; omega, ha8⟩
      · obtain ⟨j1, j2, j3⟩ := i4 b hb
        exact ⟨by omega, j2, j3⟩
    · refine List.pairwise_cons.mpr ⟨?_, i5⟩
      intro c hc
      obtain ⟨j1, _, _⟩ := i4 c hc
      simp only []; omega

theorem run_length (s : St) (ns : List Nat) : (run s ns).2.length = ns.length := by
  induction ns generalizing s with
  | nil => rfl
  | cons n ns ih => simp [run, ih]

end FerretVerif.WasmAlloc
