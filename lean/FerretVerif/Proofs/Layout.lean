/-
  Proofs/Layout.lean — properties of the data-layout model (Model/Layout.lean):
  alignment is a power of two, size is a multiple of alignment, struct fields are aligned,
  pairwise disjoint and inside the struct, the optional flag / result tag lie after the payload
  and inside the object, array elements are aligned and disjoint, and the offsets hard-coded in
  the C runtime (io.c) agree with the model at ps = 8.  Core-only.
-/
import FerretVerif.Model.Layout

namespace FerretVerif.Layout

/-! ## A. powers of two and well-formed types -/

/-- `n` is a power of two -/
def IsPow2 (n : Nat) : Prop := ∃ k, n = 2 ^ k

theorem IsPow2.pos {n : Nat} (h : IsPow2 n) : 0 < n := by
  cases h with
  | intro k hk => subst hk; exact Nat.pow_pos (by decide)

theorem isPow2_one : IsPow2 1 := ⟨0, rfl⟩

theorem isPow2_iff_bounded (n : Nat) : IsPow2 n ↔ ∃ k, k < n + 1 ∧ n = 2 ^ k := by
  constructor
  · intro h
    cases h with
    | intro k hk =>
      refine ⟨k, ?_, hk⟩
      have : k < 2 ^ k := Nat.lt_two_pow_self
      omega
  · intro h
    cases h with
    | intro k hk => exact ⟨k, hk.2⟩

instance (n : Nat) : Decidable (IsPow2 n) :=
  decidable_of_iff _ (isPow2_iff_bounded n).symm

theorem isPow2_max {a b : Nat} (ha : IsPow2 a) (hb : IsPow2 b) : IsPow2 (max a b) := by
  rw [Nat.max_def]; split <;> assumption

theorem isPow2_max_one {a : Nat} (ha : IsPow2 a) : max a 1 = a := by
  have := ha.pos; omega

/-- for powers of two the smaller divides the larger -/
theorem IsPow2.dvd_of_le {a b : Nat} (ha : IsPow2 a) (hb : IsPow2 b) (h : a ≤ b) : a ∣ b := by
  cases ha with
  | intro k hk =>
    cases hb with
    | intro l hl =>
      subst hk; subst hl
      exact Nat.pow_dvd_pow 2 ((Nat.pow_le_pow_iff_right (by decide)).1 h)

mutual
/-- every primitive inside has size 0 or a power of two (real sizes: 0,1,2,4,8,16,32) -/
def WfTy : Ty → Prop
  | .prim s => s = 0 ∨ IsPow2 s
  | .ptr => True
  | .iface2 => True
  | .arr e _ => WfTy e
  | .opt i => WfTy i
  | .res o e => WfTy o ∧ WfTy e
  | .struct fs => WfTys fs
/-- all fields well-formed -/
def WfTys : List Ty → Prop
  | [] => True
  | f :: fs => WfTy f ∧ WfTys fs
end

mutual
def decWfTy : (t : Ty) → Decidable (WfTy t)
  | .prim s => by unfold WfTy; exact inferInstance
  | .ptr => by unfold WfTy; exact inferInstance
  | .iface2 => by unfold WfTy; exact inferInstance
  | .arr e _ => by unfold WfTy; exact decWfTy e
  | .opt i => by unfold WfTy; exact decWfTy i
  | .res o e => by
    unfold WfTy
    exact @instDecidableAnd _ _ (decWfTy o) (decWfTy e)
  | .struct fs => by unfold WfTy; exact decWfTys fs
def decWfTys : (fs : List Ty) → Decidable (WfTys fs)
  | [] => by unfold WfTys; exact inferInstance
  | f :: fs => by
    unfold WfTys
    exact @instDecidableAnd _ _ (decWfTy f) (decWfTys fs)
end

instance (t : Ty) : Decidable (WfTy t) := decWfTy t
instance (fs : List Ty) : Decidable (WfTys fs) := decWfTys fs

theorem WfTys.mem {fs : List Ty} (h : WfTys fs) {f : Ty} (hf : f ∈ fs) : WfTy f := by
  induction fs with
  | nil => cases hf
  | cons g gs ih =>
    unfold WfTys at h
    cases hf with
    | head => exact h.1
    | tail _ hm => exact ih h.2 hm

example : WfTy (.struct [.prim 1, .prim 8, .struct [.prim 2, .opt (.prim 16)],
    .arr (.res .ptr (.prim 4)) 3]) := by decide
example : ¬ WfTy (.struct [.prim 1, .arr (.prim 3) 2]) := by decide

/-! ## B. alignTo -/

theorem le_alignTo (v a : Nat) : v ≤ alignTo v a := by
  unfold alignTo; split
  · exact Nat.le_refl _
  · split
    · exact Nat.le_refl _
    · exact Nat.le_add_right _ _

theorem alignTo_dvd (v : Nat) {a : Nat} (ha : 0 < a) : a ∣ alignTo v a := by
  unfold alignTo; split
  · have : a = 1 := by omega
    subst this; exact Nat.one_dvd _
  · split
    · exact Nat.dvd_of_mod_eq_zero (by assumption)
    · have hlt : v % a < a := Nat.mod_lt _ ha
      have hdm : a * (v / a) + v % a = v := Nat.div_add_mod v a
      have : v + (a - v % a) = a * (v / a) + a := by omega
      rw [this]
      exact Nat.dvd_add (Nat.dvd_mul_right _ _) (Nat.dvd_refl _)

theorem alignTo_lt (v : Nat) {a : Nat} (ha : 0 < a) : alignTo v a < v + a := by
  unfold alignTo; split
  · omega
  · split
    · omega
    · have hlt : v % a < a := Nat.mod_lt _ ha
      have : 0 < v % a := Nat.pos_of_ne_zero (by assumption)
      omega

theorem alignTo_of_dvd {v a : Nat} (h : a ∣ v) : alignTo v a = v := by
  unfold alignTo; split
  · rfl
  · rw [if_pos (Nat.mod_eq_zero_of_dvd h)]

/-- `alignTo v (max a 1) = alignTo v a` (alignments 0 and 1 both mean "no padding") -/
theorem alignTo_max_one (v a : Nat) : alignTo v (max a 1) = alignTo v a := by
  cases a with
  | zero => simp [alignTo]
  | succ n => rw [Nat.max_eq_left (by omega)]

/-! ## C.1 alignment is a power of two -/

theorem clampAlign_pow2 {s ps : Nat} (hps : IsPow2 ps) (hs : s = 0 ∨ IsPow2 s) :
    IsPow2 (clampAlign s ps) := by
  unfold clampAlign
  split
  · exact isPow2_one
  · split
    · exact hps
    · cases hs with
      | inl h => contradiction
      | inr h => exact h

mutual
theorem align_pow2 {ps : Nat} (hps : IsPow2 ps) : (t : Ty) → WfTy t → IsPow2 (alignOf ps t)
  | .prim s, h => by
    unfold WfTy at h; unfold alignOf; exact clampAlign_pow2 hps h
  | .ptr, _ => by unfold alignOf; exact hps
  | .iface2, _ => by unfold alignOf; exact hps
  | .arr e _, h => by
    unfold WfTy at h; unfold alignOf; exact align_pow2 hps e h
  | .opt i, h => by
    unfold WfTy at h; unfold alignOf
    exact isPow2_max (align_pow2 hps i h) isPow2_one
  | .res o e, h => by
    unfold WfTy at h; unfold alignOf
    exact isPow2_max (align_pow2 hps o h.1) (align_pow2 hps e h.2)
  | .struct fs, h => by
    unfold WfTy at h; unfold alignOf; exact structAlign_pow2 hps fs h
theorem structAlign_pow2 {ps : Nat} (hps : IsPow2 ps) :
    (fs : List Ty) → WfTys fs → IsPow2 (structAlign ps fs)
  | [], _ => by unfold structAlign; exact isPow2_one
  | f :: fs, h => by
    unfold WfTys at h; unfold structAlign
    exact isPow2_max (align_pow2 hps f h.1) (structAlign_pow2 hps fs h.2)
end

theorem align_pos {ps : Nat} (hps : IsPow2 ps) {t : Ty} (h : WfTy t) : 0 < alignOf ps t :=
  (align_pow2 hps t h).pos

theorem structAlign_pos {ps : Nat} (hps : IsPow2 ps) {fs : List Ty} (h : WfTys fs) :
    0 < structAlign ps fs :=
  (structAlign_pow2 hps fs h).pos

/-! ## C.2 size is a multiple of alignment -/

theorem size_mult_align {ps : Nat} (hps : IsPow2 ps) :
    (t : Ty) → WfTy t → alignOf ps t ∣ sizeOf ps t
  | .prim s, h => by
    unfold WfTy at h; unfold alignOf sizeOf clampAlign
    split
    · exact Nat.one_dvd _
    · split
      · cases h with
        | inl h0 => contradiction
        | inr hp => exact hps.dvd_of_le hp (by omega)
      · exact Nat.dvd_refl _
  | .ptr, _ => by unfold alignOf sizeOf; exact Nat.dvd_refl _
  | .iface2, _ => by unfold alignOf sizeOf; exact Nat.dvd_mul_right _ _
  | .arr e n, h => by
    unfold WfTy at h; unfold alignOf sizeOf
    exact Nat.dvd_trans (size_mult_align hps e h) (Nat.dvd_mul_right _ _)
  | .opt i, h => by
    have hp := align_pos hps (t := .opt i) h
    unfold alignOf at hp
    unfold alignOf sizeOf
    exact alignTo_dvd _ hp
  | .res o e, h => by
    have hp := align_pos hps (t := .res o e) h
    unfold alignOf at hp
    unfold alignOf sizeOf
    simp only []
    rw [alignTo_max_one]
    exact alignTo_dvd _ hp
  | .struct fs, h => by
    have hp := align_pos hps (t := .struct fs) h
    unfold alignOf at hp
    unfold alignOf sizeOf
    exact alignTo_dvd _ hp

/-! ## C.3 field alignment divides struct alignment -/

theorem field_align_le_struct (ps : Nat) {f : Ty} {fs : List Ty} (hf : f ∈ fs) :
    alignOf ps f ≤ structAlign ps fs := by
  induction fs with
  | nil => cases hf
  | cons g gs ih =>
    unfold structAlign
    cases hf with
    | head => exact Nat.le_max_left _ _
    | tail _ hm => exact Nat.le_trans (ih hm) (Nat.le_max_right _ _)

theorem field_align_dvd_struct {ps : Nat} (hps : IsPow2 ps) {fs : List Ty} (hwf : WfTys fs)
    {f : Ty} (hf : f ∈ fs) : alignOf ps f ∣ structAlign ps fs :=
  (align_pow2 hps f (hwf.mem hf)).dvd_of_le (structAlign_pow2 hps fs hwf)
    (field_align_le_struct ps hf)

/-- a struct is at least as aligned as each field, and (C.2) its size is a multiple of its
    alignment, hence placing it at a multiple of its alignment keeps field `f` at offset `o`
    aligned whenever `alignOf f ∣ o` -/
theorem field_addr_aligned {ps : Nat} (hps : IsPow2 ps) {fs : List Ty} (hwf : WfTys fs)
    {f : Ty} (hf : f ∈ fs) {base o : Nat} (hb : alignOf ps (.struct fs) ∣ base)
    (ho : alignOf ps f ∣ o) : alignOf ps f ∣ base + o := by
  unfold alignOf at hb
  exact Nat.dvd_add (Nat.dvd_trans (field_align_dvd_struct hps hwf hf) hb) ho

/-! ## C.4 struct field layout -/

theorem fieldOffsets_length (ps : Nat) (fs : List Ty) (off : Nat) :
    (fieldOffsets ps fs off).length = fs.length := by
  induction fs generalizing off with
  | nil => rfl
  | cons f fs ih => simp [fieldOffsets, ih]

theorem le_structEnd (ps : Nat) (fs : List Ty) (off : Nat) : off ≤ structEnd ps fs off := by
  induction fs generalizing off with
  | nil => unfold structEnd; exact Nat.le_refl _
  | cons f fs ih =>
    unfold structEnd
    exact Nat.le_trans (Nat.le_trans (le_alignTo off _) (Nat.le_add_right _ _)) (ih _)

/-- every offset produced from running offset `off` is at least `off` -/
theorem le_fieldOffsets (ps : Nat) (fs : List Ty) (off : Nat) (i : Nat)
    (hi : i < (fieldOffsets ps fs off).length) : off ≤ (fieldOffsets ps fs off)[i] := by
  induction fs generalizing off i with
  | nil => simp [fieldOffsets] at hi
  | cons f fs ih =>
    cases i with
    | zero => simp only [fieldOffsets, List.getElem_cons_zero]; exact le_alignTo _ _
    | succ i =>
      simp only [fieldOffsets, List.getElem_cons_succ]
      exact Nat.le_trans (Nat.le_trans (le_alignTo off _) (Nat.le_add_right _ _)) (ih _ _ _)

/-- generalised over the starting offset: each field offset is a multiple of the field's alignment -/
theorem fields_aligned_from {ps : Nat} (hps : IsPow2 ps) (fs : List Ty) (hwf : WfTys fs)
    (off i : Nat) (hi : i < fs.length) :
    alignOf ps fs[i] ∣ (fieldOffsets ps fs off)[i]'(by rw [fieldOffsets_length]; exact hi) := by
  induction fs generalizing off i with
  | nil => simp at hi
  | cons f fs ih =>
    unfold WfTys at hwf
    cases i with
    | zero =>
      simp only [fieldOffsets, List.getElem_cons_zero]
      exact alignTo_dvd _ (align_pos hps hwf.1)
    | succ i =>
      simp only [fieldOffsets, List.getElem_cons_succ]
      exact ih hwf.2 _ _ _

/-- generalised over the starting offset: field `i` ends before field `j` starts, for `i < j` -/
theorem fields_disjoint_from (ps : Nat) (fs : List Ty) (off i j : Nat) (hij : i < j)
    (hj : j < fs.length) :
    (fieldOffsets ps fs off)[i]'(by rw [fieldOffsets_length]; omega) + sizeOf ps (fs[i]'(by omega))
      ≤ (fieldOffsets ps fs off)[j]'(by rw [fieldOffsets_length]; exact hj) := by
  induction fs generalizing off i j with
  | nil => simp at hj
  | cons f fs ih =>
    cases j with
    | zero => omega
    | succ j =>
      cases i with
      | zero =>
        simp only [fieldOffsets, List.getElem_cons_zero, List.getElem_cons_succ]
        exact le_fieldOffsets _ _ _ _ _
      | succ i =>
        simp only [fieldOffsets, List.getElem_cons_succ]
        exact ih _ _ _ (by omega) (Nat.lt_of_succ_lt_succ hj)

/-- generalised over the starting offset: each field ends at or before the final running offset -/
theorem fields_end_le_structEnd (ps : Nat) (fs : List Ty) (off i : Nat) (hi : i < fs.length) :
    (fieldOffsets ps fs off)[i]'(by rw [fieldOffsets_length]; exact hi) + sizeOf ps fs[i]
      ≤ structEnd ps fs off := by
  induction fs generalizing off i with
  | nil => simp at hi
  | cons f fs ih =>
    cases i with
    | zero =>
      simp only [fieldOffsets, List.getElem_cons_zero]
      unfold structEnd
      exact le_structEnd _ _ _
    | succ i =>
      simp only [fieldOffsets, List.getElem_cons_succ]
      unfold structEnd
      exact ih _ _ _

theorem fields_aligned {ps : Nat} (hps : IsPow2 ps) (fs : List Ty) (hwf : WfTys fs)
    (i : Nat) (hi : i < fs.length) :
    alignOf ps fs[i] ∣ (fieldOffsets ps fs 0)[i]'(by rw [fieldOffsets_length]; exact hi) :=
  fields_aligned_from hps fs hwf 0 i hi

theorem fields_disjoint (ps : Nat) (fs : List Ty) (i j : Nat) (hij : i < j) (hj : j < fs.length) :
    (fieldOffsets ps fs 0)[i]'(by rw [fieldOffsets_length]; omega) + sizeOf ps (fs[i]'(by omega))
      ≤ (fieldOffsets ps fs 0)[j]'(by rw [fieldOffsets_length]; exact hj) :=
  fields_disjoint_from ps fs 0 i j hij hj

theorem fields_in_bounds (ps : Nat) (fs : List Ty) (i : Nat) (hi : i < fs.length) :
    (fieldOffsets ps fs 0)[i]'(by rw [fieldOffsets_length]; exact hi) + sizeOf ps fs[i]
      ≤ sizeOf ps (.struct fs) := by
  rw [sizeOf.eq_7]
  exact Nat.le_trans (fields_end_le_structEnd ps fs 0 i hi) (le_alignTo _ _)

/-! ## C.5 optional -/

theorem optional_flag_after_payload (ps : Nat) (inner : Ty) :
    sizeOf ps inner ≤ optFlagOff ps inner ∧ optFlagOff ps inner < sizeOf ps (.opt inner) := by
  unfold optFlagOff
  refine ⟨Nat.le_refl _, ?_⟩
  rw [sizeOf]
  exact le_alignTo _ _

/-- an optional is at least as aligned as its payload (which sits at offset 0) -/
theorem optional_payload_align_le (ps : Nat) (inner : Ty) :
    alignOf ps inner ≤ alignOf ps (.opt inner) := by
  rw [alignOf.eq_5]; exact Nat.le_max_left _ _

/-! ## C.6 result -/

theorem resTagOff_eq (ps : Nat) (ok err : Ty) :
    resTagOff ps ok err
      = alignTo (max (sizeOf ps ok) (sizeOf ps err)) (max (alignOf ps ok) (alignOf ps err)) := by
  unfold resTagOff
  exact alignTo_max_one _ _

/-- `sizeOf (.res ok err)` is the tag offset plus one byte, padded -/
theorem sizeOf_res_eq (ps : Nat) (ok err : Ty) :
    sizeOf ps (.res ok err)
      = alignTo (resTagOff ps ok err + 1) (max (alignOf ps ok) (alignOf ps err)) := by
  rw [resTagOff_eq, sizeOf]
  exact alignTo_max_one _ _

theorem result_tag_after_union (ps : Nat) (ok err : Ty) :
    sizeOf ps ok ≤ resTagOff ps ok err ∧ sizeOf ps err ≤ resTagOff ps ok err ∧
      resTagOff ps ok err < sizeOf ps (.res ok err) := by
  have h1 : max (sizeOf ps ok) (sizeOf ps err) ≤ resTagOff ps ok err := by
    rw [resTagOff_eq]; exact le_alignTo _ _
  have h2 : resTagOff ps ok err + 1 ≤ sizeOf ps (.res ok err) := by
    rw [sizeOf_res_eq]; exact le_alignTo _ _
  omega

/-! ## C.7 arrays -/

theorem array_elems_disjoint (ps : Nat) (e : Ty) {i j n : Nat} (hij : i < j) (hjn : j < n) :
    i * sizeOf ps e + sizeOf ps e ≤ j * sizeOf ps e ∧
      j * sizeOf ps e + sizeOf ps e ≤ sizeOf ps (.arr e n) := by
  rw [sizeOf.eq_4]
  generalize sizeOf ps e = s
  constructor
  · calc i * s + s = (i + 1) * s := (Nat.succ_mul i s).symm
      _ ≤ j * s := Nat.mul_le_mul_right s hij
  · calc j * s + s = (j + 1) * s := (Nat.succ_mul j s).symm
      _ ≤ n * s := Nat.mul_le_mul_right s hjn
      _ = s * n := Nat.mul_comm n s

theorem array_elem_aligned {ps : Nat} (hps : IsPow2 ps) {e : Ty} (hwf : WfTy e) (i : Nat) :
    alignOf ps e ∣ i * sizeOf ps e :=
  Nat.dvd_trans (size_mult_align hps e hwf) (Nat.dvd_mul_left _ _)

/-! ## C.8 offsets hard-coded in the C runtime (io.c) at ps = 8 -/

theorem io_c_hardcoded_offsets_ok :
    (sizeOf 8 (.res .ptr (.prim 4)) = 16 ∧ resTagOff 8 .ptr (.prim 4) = 8) ∧
    (sizeOf 8 (.res .ptr (.prim 8)) = 16 ∧ resTagOff 8 .ptr (.prim 8) = 8) ∧
    (sizeOf 8 (.res .ptr .ptr) = 16 ∧ resTagOff 8 .ptr .ptr = 8) := by
  decide

/-! ## D. non-vacuity -/

/-- example nested type -/
def exTy : Ty :=
  .struct [.prim 1, .prim 8, .struct [.prim 2, .opt (.prim 16)], .arr (.res .ptr (.prim 4)) 3]

def exFields : List Ty :=
  [.prim 1, .prim 8, .struct [.prim 2, .opt (.prim 16)], .arr (.res .ptr (.prim 4)) 3]

example : WfTy exTy := by decide
example : WfTys exFields := by decide
example : IsPow2 8 ∧ IsPow2 4 := by decide

example : exTy = .struct exFields := rfl

/-- concrete layout at ps = 8 (x64 / arm64) -/
example : fieldOffsets 8 exFields 0 = [0, 8, 16, 48] ∧ sizeOf 8 exTy = 96 ∧ alignOf 8 exTy = 8 := by
  decide
/-- concrete layout at ps = 4 (wasm32) -/
example : fieldOffsets 4 exFields 0 = [0, 4, 12, 36] ∧ sizeOf 4 exTy = 60 ∧ alignOf 4 exTy = 4 := by
  decide
/-- the inner struct `{i16, i128?}`: at ps = 8 the i128 is clamped to alignment 8 -/
example : fieldOffsets 8 [.prim 2, .opt (.prim 16)] 0 = [0, 8] ∧
    sizeOf 8 (.struct [.prim 2, .opt (.prim 16)]) = 32 ∧ optFlagOff 8 (.prim 16) = 16 ∧
    sizeOf 8 (.opt (.prim 16)) = 24 := by
  decide
example : fieldOffsets 4 [.prim 2, .opt (.prim 16)] 0 = [0, 4] ∧
    sizeOf 4 (.struct [.prim 2, .opt (.prim 16)]) = 24 ∧ sizeOf 4 (.opt (.prim 16)) = 20 := by
  decide
/-- degenerate shapes are covered: empty struct, zero-length array, void payloads -/
example : WfTy (.struct []) ∧ sizeOf 8 (.struct []) = 0 ∧ alignOf 8 (.struct []) = 1 ∧
    WfTy (.arr (.prim 8) 0) ∧ sizeOf 8 (.arr (.prim 8) 0) = 0 ∧
    WfTy (.opt (.prim 0)) ∧ sizeOf 8 (.opt (.prim 0)) = 1 ∧
    sizeOf 8 (.res (.prim 0) (.prim 0)) = 1 ∧ resTagOff 8 (.prim 0) (.prim 0) = 0 := by
  decide

/-- the general theorems instantiated on the example (hypotheses are satisfiable) -/
example : alignOf 8 exTy ∣ sizeOf 8 exTy := size_mult_align (by decide) exTy (by decide)
example : alignOf 4 exFields[2] ∣ (fieldOffsets 4 exFields 0)[2] :=
  fields_aligned (by decide) exFields (by decide) 2 (by decide)
example : (fieldOffsets 4 exFields 0)[2] + sizeOf 4 exFields[2] ≤ (fieldOffsets 4 exFields 0)[3] :=
  fields_disjoint 4 exFields 2 3 (by decide) (by decide)

/-- the power-of-two hypothesis on primitive sizes is needed for `size_mult_align`:
    a 3-byte primitive would have alignment 3 … and a 12-byte one alignment 8 ∤ 12 -/
example : ¬ WfTy (.prim 12) ∧ ¬ (alignOf 8 (.prim 12) ∣ sizeOf 8 (.prim 12)) := by decide

end FerretVerif.Layout
