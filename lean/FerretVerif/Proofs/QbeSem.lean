/-
  Proofs/QbeSem.lean — the instruction sequences of `QbeSem.expectedSeq` compute, on canonical temporaries, the
  canonical temporary of the source-level result (C01, C02, C09).
-/
import FerretVerif.Model.QbeSem

namespace FerretVerif.QbeSem

def legalTys : List Ty := [⟨8, true⟩, ⟨16, true⟩, ⟨32, true⟩, ⟨64, true⟩, ⟨8, false⟩, ⟨16, false⟩, ⟨32, false⟩, ⟨64, false⟩]

theorem p32 : ((2 ^ 32 : Nat) : Int) = 4294967296 := by decide
theorem p64 : ((2 ^ 64 : Nat) : Int) = 18446744073709551616 := by decide

/-! ### patterns -/

theorem pat_w (v : Int) : pat .w v = (v % 4294967296).toNat := by simp [pat, Cls.bits]
theorem pat_l (v : Int) : pat .l v = (v % 18446744073709551616).toNat := by simp [pat, Cls.bits]

theorem pat_lt (c : Cls) (v : Int) : pat c v < 2 ^ c.bits := by
  cases c <;> simp only [pat_w, pat_l, Cls.bits] <;> omega

/-- arithmetic on patterns is arithmetic on the values, modulo the class width -/
theorem pat_add (c : Cls) (a b : Int) : pat c ((pat c a : Int) + pat c b) = pat c (a + b) := by
  cases c <;> simp only [pat_w, pat_l] <;> omega

theorem pat_sub (c : Cls) (a b : Int) : pat c ((pat c a : Int) - pat c b) = pat c (a - b) := by
  cases c <;> simp only [pat_w, pat_l] <;> omega

theorem pat_neg (c : Cls) (a : Int) : pat c (((0 : Nat) : Int) - pat c a) = pat c (-a) := by
  cases c <;> simp only [pat_w, pat_l] <;> omega

theorem pat_mul (c : Cls) (a b : Int) : pat c ((pat c a : Int) * pat c b) = pat c (a * b) := by
  have key : ∀ m : Int, 0 < m → ((a % m) * (b % m)) % m = (a * b) % m := by
    intro m _; rw [← Int.mul_emod]
  cases c
  · simp only [pat_w]
    have h1 : ((a % 4294967296).toNat : Int) = a % 4294967296 := by omega
    have h2 : ((b % 4294967296).toNat : Int) = b % 4294967296 := by omega
    rw [h1, h2, key 4294967296 (by decide)]
  · simp only [pat_l]
    have h1 : ((a % 18446744073709551616).toNat : Int) = a % 18446744073709551616 := by omega
    have h2 : ((b % 18446744073709551616).toNat : Int) = b % 18446744073709551616 := by omega
    rw [h1, h2, key 18446744073709551616 (by decide)]

/-- the signed reading of the canonical temporary of an in-range value is the value -/
theorem sx_canon (t : Ty) (ht : t ∈ legalTys) (v : Int) (hv : t.inRange v) : t.signed = true → sx t.cls (canon t v) = v := by
  intro hs
  simp only [legalTys, List.mem_cons, List.mem_nil_iff, or_false] at ht
  rcases ht with rfl | rfl | rfl | rfl | rfl | rfl | rfl | rfl <;> simp at hs <;>
    simp [Ty.inRange, Ty.lo, Ty.hi, canon, Ty.cls, sx, Cls.bits, pat_w, pat_l] at * <;> omega

/-- the unsigned reading likewise -/
theorem canon_unsigned (t : Ty) (ht : t ∈ legalTys) (v : Int) (hv : t.inRange v) : t.signed = false → ((canon t v : Nat) : Int) = v := by
  intro hs
  simp only [legalTys, List.mem_cons, List.mem_nil_iff, or_false] at ht
  rcases ht with rfl | rfl | rfl | rfl | rfl | rfl | rfl | rfl <;> simp at hs <;>
    simp [Ty.inRange, Ty.lo, Ty.hi, canon, Ty.cls, Cls.bits, pat_w, pat_l] at * <;> omega

/-! ### re-normalisation of a `w` temporary to an 8/16-bit type -/

/-- `shl k; sar k` (k = 32 - bits) sign-extends the low `bits` bits: the result is the canonical temporary of the wrapped value -/
theorem renorm_signed8 (v : Int) :
    pat .w (sx .w (pat .w ((pat .w v : Int) * ((2 ^ 24 : Nat) : Int))) / ((2 ^ 24 : Nat) : Int)) = pat .w ((⟨8, true⟩ : Ty).wrap v) := by
  simp only [pat_w, sx, Cls.bits, Ty.wrap]
  simp
  omega

theorem renorm_signed16 (v : Int) :
    pat .w (sx .w (pat .w ((pat .w v : Int) * ((2 ^ 16 : Nat) : Int))) / ((2 ^ 16 : Nat) : Int)) = pat .w ((⟨16, true⟩ : Ty).wrap v) := by
  simp only [pat_w, sx, Cls.bits, Ty.wrap]
  simp
  omega

/-- `and (2^bits - 1)` zero-extends -/
theorem renorm_unsigned8 (v : Int) : Nat.land (pat .w v) 255 = pat .w ((⟨8, false⟩ : Ty).wrap v) := by
  have : Nat.land (pat .w v) 255 = pat .w v % 256 := Nat.and_two_pow_sub_one_eq_mod (pat .w v) 8
  rw [this]
  simp only [pat_w, Ty.wrap]
  simp
  omega

theorem renorm_unsigned16 (v : Int) : Nat.land (pat .w v) 65535 = pat .w ((⟨16, false⟩ : Ty).wrap v) := by
  have : Nat.land (pat .w v) 65535 = pat .w v % 65536 := Nat.and_two_pow_sub_one_eq_mod (pat .w v) 16
  rw [this]
  simp only [pat_w, Ty.wrap]
  simp
  omega

/-- 32- and 64-bit types need no re-normalisation: the pattern of a value is the pattern of its wrap -/
theorem pat_wrap_full (t : Ty) (h : t.bits = 32 ∨ t.bits = 64) (hc : t.cls.bits = t.bits) (v : Int) : pat t.cls (t.wrap v) = pat t.cls v := by
  obtain ⟨b, s⟩ := t
  simp only at h hc
  rcases h with rfl | rfl
  · have : (Ty.cls ⟨32, s⟩) = .w := by simp [Ty.cls]
    rw [this]; simp only [pat_w, Ty.wrap]; cases s <;> simp <;> omega
  · have : (Ty.cls ⟨64, s⟩) = .l := by simp [Ty.cls]
    rw [this]; simp only [pat_l, Ty.wrap]; cases s <;> simp <;> omega


/-- add / sub / mul: the emitted sequence yields the canonical temporary of the wrapped result, for every type -/
theorem add_correct (t : Ty) (ht : t ∈ legalTys) (a b : Int) :
    ∃ seq, expectedSeq .bin "add" t t = some seq ∧ exec [canon t a, canon t b] [] seq = some (canon t (t.wrap (a + b))) := by
  simp only [legalTys, List.mem_cons, List.mem_nil_iff, or_false] at ht
  rcases ht with rfl | rfl | rfl | rfl | rfl | rfl | rfl | rfl
  all_goals (refine ⟨_, rfl, ?_⟩)
  all_goals simp [exec, argVal, evalOp, canon, Ty.cls, renorm, pat_add]
  · exact renorm_signed8 (a + b)
  · exact renorm_signed16 (a + b)
  · exact (pat_wrap_full ⟨32, true⟩ (Or.inl rfl) rfl (a + b)).symm
  · exact (pat_wrap_full ⟨64, true⟩ (Or.inr rfl) rfl (a + b)).symm
  · exact renorm_unsigned8 (a + b)
  · exact renorm_unsigned16 (a + b)
  · exact (pat_wrap_full ⟨32, false⟩ (Or.inl rfl) rfl (a + b)).symm
  · exact (pat_wrap_full ⟨64, false⟩ (Or.inr rfl) rfl (a + b)).symm

theorem sub_correct (t : Ty) (ht : t ∈ legalTys) (a b : Int) :
    ∃ seq, expectedSeq .bin "sub" t t = some seq ∧ exec [canon t a, canon t b] [] seq = some (canon t (t.wrap (a - b))) := by
  simp only [legalTys, List.mem_cons, List.mem_nil_iff, or_false] at ht
  rcases ht with rfl | rfl | rfl | rfl | rfl | rfl | rfl | rfl
  all_goals (refine ⟨_, rfl, ?_⟩)
  all_goals simp [exec, argVal, evalOp, canon, Ty.cls, renorm, pat_sub]
  · exact renorm_signed8 (a - b)
  · exact renorm_signed16 (a - b)
  · exact (pat_wrap_full ⟨32, true⟩ (Or.inl rfl) rfl (a - b)).symm
  · exact (pat_wrap_full ⟨64, true⟩ (Or.inr rfl) rfl (a - b)).symm
  · exact renorm_unsigned8 (a - b)
  · exact renorm_unsigned16 (a - b)
  · exact (pat_wrap_full ⟨32, false⟩ (Or.inl rfl) rfl (a - b)).symm
  · exact (pat_wrap_full ⟨64, false⟩ (Or.inr rfl) rfl (a - b)).symm

theorem mul_correct (t : Ty) (ht : t ∈ legalTys) (a b : Int) :
    ∃ seq, expectedSeq .bin "mul" t t = some seq ∧ exec [canon t a, canon t b] [] seq = some (canon t (t.wrap (a * b))) := by
  simp only [legalTys, List.mem_cons, List.mem_nil_iff, or_false] at ht
  rcases ht with rfl | rfl | rfl | rfl | rfl | rfl | rfl | rfl
  all_goals (refine ⟨_, rfl, ?_⟩)
  all_goals simp [exec, argVal, evalOp, canon, Ty.cls, renorm, pat_mul]
  · exact renorm_signed8 (a * b)
  · exact renorm_signed16 (a * b)
  · exact (pat_wrap_full ⟨32, true⟩ (Or.inl rfl) rfl (a * b)).symm
  · exact (pat_wrap_full ⟨64, true⟩ (Or.inr rfl) rfl (a * b)).symm
  · exact renorm_unsigned8 (a * b)
  · exact renorm_unsigned16 (a * b)
  · exact (pat_wrap_full ⟨32, false⟩ (Or.inl rfl) rfl (a * b)).symm
  · exact (pat_wrap_full ⟨64, false⟩ (Or.inr rfl) rfl (a * b)).symm

theorem neg_correct (t : Ty) (ht : t ∈ legalTys) (a : Int) :
    ∃ seq, expectedSeq .neg "neg" t t = some seq ∧ exec [canon t a] [] seq = some (canon t (t.wrap (-a))) := by
  simp only [legalTys, List.mem_cons, List.mem_nil_iff, or_false] at ht
  rcases ht with rfl | rfl | rfl | rfl | rfl | rfl | rfl | rfl
  all_goals (refine ⟨_, rfl, ?_⟩)
  all_goals simp [exec, argVal, evalOp, canon, Ty.cls, renorm]
  · have := pat_neg .w a; simp at this; rw [this]; exact renorm_signed8 (-a)
  · have := pat_neg .w a; simp at this; rw [this]; exact renorm_signed16 (-a)
  · have := pat_neg .w a; simp at this; rw [this]; exact (pat_wrap_full ⟨32, true⟩ (Or.inl rfl) rfl (-a)).symm
  · have := pat_neg .l a; simp at this; rw [this]; exact (pat_wrap_full ⟨64, true⟩ (Or.inr rfl) rfl (-a)).symm
  · have := pat_neg .w a; simp at this; rw [this]; exact renorm_unsigned8 (-a)
  · have := pat_neg .w a; simp at this; rw [this]; exact renorm_unsigned16 (-a)
  · have := pat_neg .w a; simp at this; rw [this]; exact (pat_wrap_full ⟨32, false⟩ (Or.inl rfl) rfl (-a)).symm
  · have := pat_neg .l a; simp at this; rw [this]; exact (pat_wrap_full ⟨64, false⟩ (Or.inr rfl) rfl (-a)).symm

theorem pat_w_of_l (v : Int) : pat .w (pat .l v) = pat .w v := by simp only [pat_w, pat_l]; omega
theorem pat_l_idem (v : Int) : pat .l (pat .l v) = pat .l v := by simp only [pat_l]; omega
theorem pat_w_idem (v : Int) : pat .w (pat .w v) = pat .w v := by simp only [pat_w]; omega

/-- sign / zero extension of a canonical `w` temporary to `l` -/
theorem extsw_correct (v : Int) (h1 : -2147483648 ≤ v) (h2 : v ≤ 2147483647) : pat .l (sx .w (pat .w v)) = pat .l v := by
  simp only [pat_w, pat_l, sx, Cls.bits]; simp; omega
theorem extuw_correct (v : Int) (h1 : 0 ≤ v) (h2 : v ≤ 4294967295) : pat .w v = pat .l v := by
  simp only [pat_w, pat_l]; omega

def narrowTys : List Ty := [⟨8, true⟩, ⟨16, true⟩, ⟨8, false⟩, ⟨16, false⟩]

/-- casts to an 8/16-bit type -/
theorem cast_to_narrow_correct (s d : Ty) (hs : s ∈ legalTys) (hd : d ∈ narrowTys) (v : Int) :
    ∃ seq, expectedSeq .cast "cast" s d = some seq ∧ exec [canon s v] [] seq = some (canon d (d.wrap v)) := by
  simp only [narrowTys, List.mem_cons, List.mem_nil_iff, or_false] at hd
  simp only [legalTys, List.mem_cons, List.mem_nil_iff, or_false] at hs
  rcases hd with rfl | rfl | rfl | rfl
  · rcases hs with rfl | rfl | rfl | rfl | rfl | rfl | rfl | rfl <;> (refine ⟨_, rfl, ?_⟩) <;>
      simp [exec, argVal, evalOp, canon, Ty.cls, renorm, pat_w_of_l] <;> exact renorm_signed8 v
  · rcases hs with rfl | rfl | rfl | rfl | rfl | rfl | rfl | rfl <;> (refine ⟨_, rfl, ?_⟩) <;>
      simp [exec, argVal, evalOp, canon, Ty.cls, renorm, pat_w_of_l] <;> exact renorm_signed16 v
  · rcases hs with rfl | rfl | rfl | rfl | rfl | rfl | rfl | rfl <;> (refine ⟨_, rfl, ?_⟩) <;>
      simp [exec, argVal, evalOp, canon, Ty.cls, renorm, pat_w_of_l] <;> exact renorm_unsigned8 v
  · rcases hs with rfl | rfl | rfl | rfl | rfl | rfl | rfl | rfl <;> (refine ⟨_, rfl, ?_⟩) <;>
      simp [exec, argVal, evalOp, canon, Ty.cls, renorm, pat_w_of_l] <;> exact renorm_unsigned16 v

/-- casts to a 32-bit type: `w copy` -/
theorem cast_to_32_correct (s : Ty) (ds : Bool) (hs : s ∈ legalTys) (v : Int) :
    ∃ seq, expectedSeq .cast "cast" s ⟨32, ds⟩ = some seq ∧ exec [canon s v] [] seq = some (canon ⟨32, ds⟩ ((⟨32, ds⟩ : Ty).wrap v)) := by
  simp only [legalTys, List.mem_cons, List.mem_nil_iff, or_false] at hs
  have hw := pat_wrap_full ⟨32, ds⟩ (Or.inl rfl) rfl v
  have hc : (Ty.cls ⟨32, ds⟩) = .w := by simp [Ty.cls]
  rw [hc] at hw
  rcases hs with rfl | rfl | rfl | rfl | rfl | rfl | rfl | rfl <;> (refine ⟨_, rfl, ?_⟩) <;>
    simp [exec, argVal, evalOp, canon, Ty.cls, pat_w_of_l, pat_w_idem, hw]

/-- casts to a 64-bit type: `l copy`, `extsw` (signed source), `extuw` (unsigned source) -/
theorem cast_to_64_correct (s : Ty) (ds : Bool) (hs : s ∈ legalTys) (v : Int) (hv : s.inRange v) :
    ∃ seq, expectedSeq .cast "cast" s ⟨64, ds⟩ = some seq ∧ exec [canon s v] [] seq = some (canon ⟨64, ds⟩ ((⟨64, ds⟩ : Ty).wrap v)) := by
  simp only [legalTys, List.mem_cons, List.mem_nil_iff, or_false] at hs
  have hw := pat_wrap_full ⟨64, ds⟩ (Or.inr rfl) rfl v
  have hc : (Ty.cls ⟨64, ds⟩) = .l := by simp [Ty.cls]
  rw [hc] at hw
  rcases hs with rfl | rfl | rfl | rfl | rfl | rfl | rfl | rfl <;> (refine ⟨_, rfl, ?_⟩) <;>
    simp [Ty.inRange, Ty.lo, Ty.hi] at hv <;>
    simp [exec, argVal, evalOp, canon, Ty.cls, pat_l_idem, hw]
  · exact extsw_correct v (by omega) (by omega)
  · exact extsw_correct v (by omega) (by omega)
  · exact extsw_correct v (by omega) (by omega)
  · exact extuw_correct v (by omega) (by omega)
  · exact extuw_correct v (by omega) (by omega)
  · exact extuw_correct v (by omega) (by omega)

/-! ### division and remainder -/

theorem wrap_inRange (t : Ty) (ht : t ∈ legalTys) (v : Int) (hv : t.inRange v) : t.wrap v = v := by
  simp only [legalTys, List.mem_cons, List.mem_nil_iff, or_false] at ht
  rcases ht with rfl | rfl | rfl | rfl | rfl | rfl | rfl | rfl <;>
    simp [Ty.inRange, Ty.lo, Ty.hi, Ty.wrap] at * <;> omega

theorem tmod_between (a b : Int) : (0 ≤ a → 0 ≤ Int.tmod a b ∧ Int.tmod a b ≤ a) ∧ (a ≤ 0 → a ≤ Int.tmod a b ∧ Int.tmod a b ≤ 0) := by
  constructor
  · intro ha
    refine ⟨Int.tmod_nonneg b ha, ?_⟩
    have h := Int.natAbs_tmod a b
    have h2 : (Int.tmod a b).natAbs ≤ a.natAbs := by rw [h]; exact Nat.mod_le _ _
    have := Int.tmod_nonneg b ha
    omega
  · intro ha
    have h := Int.natAbs_tmod a b
    have h2 : (Int.tmod a b).natAbs ≤ a.natAbs := by rw [h]; exact Nat.mod_le _ _
    have h3 : Int.tmod a b ≤ 0 := by
      have := Int.tmod_nonneg (a := -a) b (by omega)
      rw [Int.neg_tmod] at this
      omega
    omega


theorem tmod_inRange (t : Ty) (a b : Int) (ha : t.inRange a) (h0 : t.lo ≤ 0) (h1 : 0 ≤ t.hi) : t.inRange (Int.tmod a b) := by
  have := tmod_between a b
  unfold Ty.inRange at *
  rcases Int.lt_or_le a 0 with h | h
  · have := this.2 (by omega); omega
  · have := this.1 h; omega


def signedTys : List Ty := [⟨8, true⟩, ⟨16, true⟩, ⟨32, true⟩, ⟨64, true⟩]
def unsignedTys : List Ty := [⟨8, false⟩, ⟨16, false⟩, ⟨32, false⟩, ⟨64, false⟩]

theorem signed_legal {t : Ty} (h : t ∈ signedTys) : t ∈ legalTys ∧ t.signed = true := by
  simp only [signedTys, List.mem_cons, List.mem_nil_iff, or_false] at h
  rcases h with rfl | rfl | rfl | rfl <;> simp [legalTys]

theorem div_signed_correct (t : Ty) (ht : t ∈ signedTys) (a b : Int) (ha : t.inRange a) (hb : t.inRange b) (hz : b ≠ 0)
    (ho : ¬ overflows t a b) :
    ∃ seq, expectedSeq .bin "div" t t = some seq ∧ exec [canon t a, canon t b] [] seq = some (canon t (t.wrap (Int.tdiv a b))) := by
  have ⟨hl, hs⟩ := signed_legal ht
  have ha' := sx_canon t hl a ha hs
  have hb' := sx_canon t hl b hb hs
  simp only [signedTys, List.mem_cons, List.mem_nil_iff, or_false] at ht
  rcases ht with rfl | rfl | rfl | rfl
  all_goals (refine ⟨_, rfl, ?_⟩)
  all_goals simp [Ty.cls] at ha' hb'
  all_goals simp [overflows, Ty.lo] at ho
  all_goals simp [Ty.inRange, Ty.lo, Ty.hi] at ha hb
  all_goals simp [exec, argVal, evalOp, Ty.cls, renorm, ha', hb', hz, divTraps, Cls.bits]
  · rw [if_neg (by omega)]
    have := renorm_signed8 (a.tdiv b)
    simp [canon, Ty.cls] at this ⊢; exact this
  · rw [if_neg (by omega)]
    have := renorm_signed16 (a.tdiv b)
    simp [canon, Ty.cls] at this ⊢; exact this
  · exact ⟨ho, (pat_wrap_full ⟨32, true⟩ (Or.inl rfl) rfl _).symm⟩
  · exact ⟨ho, (pat_wrap_full ⟨64, true⟩ (Or.inr rfl) rfl _).symm⟩

theorem rem_signed_correct (t : Ty) (ht : t ∈ signedTys) (a b : Int) (ha : t.inRange a) (hb : t.inRange b) (hz : b ≠ 0)
    (ho : ¬ overflows t a b) :
    ∃ seq, expectedSeq .bin "rem" t t = some seq ∧ exec [canon t a, canon t b] [] seq = some (canon t (t.wrap (Int.tmod a b))) := by
  have ⟨hl, hs⟩ := signed_legal ht
  have ha' := sx_canon t hl a ha hs
  have hb' := sx_canon t hl b hb hs
  have hr : t.wrap (Int.tmod a b) = Int.tmod a b := by
    apply wrap_inRange t hl
    apply tmod_inRange t a b ha
    all_goals (simp only [signedTys, List.mem_cons, List.mem_nil_iff, or_false] at ht; rcases ht with rfl | rfl | rfl | rfl <;> simp [Ty.lo, Ty.hi])
  rw [hr]
  simp only [signedTys, List.mem_cons, List.mem_nil_iff, or_false] at ht
  rcases ht with rfl | rfl | rfl | rfl
  all_goals (refine ⟨_, rfl, ?_⟩)
  all_goals simp [Ty.cls, canon] at ha' hb'
  all_goals simp [overflows, Ty.lo] at ho
  all_goals simp [Ty.inRange, Ty.lo, Ty.hi] at ha hb
  all_goals simp [exec, argVal, evalOp, Ty.cls, renorm, ha', hb', hz, divTraps, Cls.bits, canon]
  all_goals first | omega | exact ho | trace_state

theorem unsigned_legal {t : Ty} (h : t ∈ unsignedTys) : t ∈ legalTys ∧ t.signed = false := by
  simp only [unsignedTys, List.mem_cons, List.mem_nil_iff, or_false] at h
  rcases h with rfl | rfl | rfl | rfl <;> simp [legalTys]

theorem canon_nat (t : Ty) (ht : t ∈ unsignedTys) (x : Nat) (h : t.inRange (x : Int)) : canon t (x : Int) = x := by
  have ⟨hl, hs⟩ := unsigned_legal ht
  have := canon_unsigned t hl x h hs
  omega

theorem inRange_nat_le (t : Ty) (ht : t ∈ unsignedTys) (x z : Nat) (h : t.inRange (x : Int)) (hz : z ≤ x) : t.inRange (z : Int) := by
  have ⟨_, hs⟩ := unsigned_legal ht
  simp only [Ty.inRange, Ty.lo, Ty.hi, hs] at *
  simp at *; omega

theorem land_mask (z : Nat) (k : Nat) (h : z < 2 ^ k) : Nat.land z (2 ^ k - 1) = z := by
  have : Nat.land z (2 ^ k - 1) = z % 2 ^ k := Nat.and_two_pow_sub_one_eq_mod z k
  rw [this, Nat.mod_eq_of_lt h]

theorem udiv_urem_correct (t : Ty) (ht : t ∈ unsignedTys) (a b : Int) (ha : t.inRange a) (hb : t.inRange b) (hz : b ≠ 0) :
    (∃ seq, expectedSeq .bin "div" t t = some seq ∧ exec [canon t a, canon t b] [] seq = some (canon t (t.wrap (Int.tdiv a b)))) ∧
    (∃ seq, expectedSeq .bin "rem" t t = some seq ∧ exec [canon t a, canon t b] [] seq = some (canon t (t.wrap (Int.tmod a b)))) := by
  have ⟨hl, hs⟩ := unsigned_legal ht
  have ha0 : 0 ≤ a := by have := ha.1; simp [Ty.lo, hs] at this; exact this
  have hb0 : 0 ≤ b := by have := hb.1; simp [Ty.lo, hs] at this; exact this
  obtain ⟨x, rfl⟩ := Int.eq_ofNat_of_zero_le ha0
  obtain ⟨y, rfl⟩ := Int.eq_ofNat_of_zero_le hb0
  have hy : y ≠ 0 := by omega
  have hq : Int.tdiv (x : Int) (y : Int) = ((x / y : Nat) : Int) := by
    rw [Int.tdiv_eq_ediv_of_nonneg ha0]; exact (Int.natCast_ediv x y).symm
  have hr : Int.tmod (x : Int) (y : Int) = ((x % y : Nat) : Int) := by
    rw [Int.tmod_eq_emod_of_nonneg ha0]; exact (Int.natCast_emod x y).symm
  have hqr := inRange_nat_le t ht x (x / y) ha (Nat.div_le_self x y)
  have hrr := inRange_nat_le t ht x (x % y) ha (Nat.mod_le x y)
  rw [hq, hr, wrap_inRange t hl _ hqr, wrap_inRange t hl _ hrr, canon_nat t ht x ha, canon_nat t ht y hb,
    canon_nat t ht _ hqr, canon_nat t ht _ hrr]
  simp only [unsignedTys, List.mem_cons, List.mem_nil_iff, or_false] at ht
  rcases ht with rfl | rfl | rfl | rfl
  all_goals simp [Ty.inRange, Ty.lo, Ty.hi] at hqr
  all_goals (refine ⟨⟨_, rfl, ?_⟩, ⟨_, rfl, ?_⟩⟩)
  all_goals simp [exec, argVal, evalOp, Ty.cls, renorm, hy]
  · exact land_mask (x / y) 8 (by omega)
  · exact land_mask (x / y) 16 (by omega)

/-! ### comparisons -/

def cmpOps : List String := ["eq", "ne", "lt", "le", "gt", "ge"]

theorem cmp_signed_correct (t : Ty) (ht : t ∈ signedTys) (op : String) (hop : op ∈ cmpOps) (a b : Int) (ha : t.inRange a) (hb : t.inRange b) :
    ∃ seq, expectedSeq .cmp op t t = some seq ∧ exec [canon t a, canon t b] [] seq = specCmp op a b := by
  have ⟨hl, hs⟩ := signed_legal ht
  have ha' := sx_canon t hl a ha hs
  have hb' := sx_canon t hl b hb hs
  have hinj : canon t a = canon t b ↔ a = b := by
    constructor
    · intro h; rw [← ha', ← hb', h]
    · intro h; rw [h]
  simp only [signedTys, List.mem_cons, List.mem_nil_iff, or_false] at ht
  simp only [cmpOps, List.mem_cons, List.mem_nil_iff, or_false] at hop
  rcases ht with rfl | rfl | rfl | rfl <;> simp [Ty.cls] at ha' hb' <;>
    rcases hop with rfl | rfl | rfl | rfl | rfl | rfl <;> (refine ⟨_, rfl, ?_⟩) <;>
    simp [exec, argVal, evalOp, specCmp, ha', hb', hinj]
theorem cmp_unsigned_correct (t : Ty) (ht : t ∈ unsignedTys) (op : String) (hop : op ∈ cmpOps) (a b : Int) (ha : t.inRange a) (hb : t.inRange b) :
    ∃ seq, expectedSeq .cmp op t t = some seq ∧ exec [canon t a, canon t b] [] seq = specCmp op a b := by
  have ⟨hl, hs⟩ := unsigned_legal ht
  have ha0 : 0 ≤ a := by have := ha.1; simp [Ty.lo, hs] at this; exact this
  have hb0 : 0 ≤ b := by have := hb.1; simp [Ty.lo, hs] at this; exact this
  obtain ⟨x, rfl⟩ := Int.eq_ofNat_of_zero_le ha0
  obtain ⟨y, rfl⟩ := Int.eq_ofNat_of_zero_le hb0
  rw [canon_nat t ht x ha, canon_nat t ht y hb]
  simp only [unsignedTys, List.mem_cons, List.mem_nil_iff, or_false] at ht
  simp only [cmpOps, List.mem_cons, List.mem_nil_iff, or_false] at hop
  rcases ht with rfl | rfl | rfl | rfl <;>
    rcases hop with rfl | rfl | rfl | rfl | rfl | rfl <;> (refine ⟨_, rfl, ?_⟩) <;>
    simp [exec, argVal, evalOp, specCmp] <;> (split <;> split <;> first | rfl | omega)

/-! ### every row of a known shape computes its specification -/

theorem legal_split {t : Ty} (h : t ∈ legalTys) : t ∈ signedTys ∨ t ∈ unsignedTys := by
  simp only [legalTys, List.mem_cons, List.mem_nil_iff, or_false] at h
  rcases h with rfl | rfl | rfl | rfl | rfl | rfl | rfl | rfl <;> simp [signedTys, unsignedTys]

theorem legal_dst_split {t : Ty} (h : t ∈ legalTys) : t ∈ narrowTys ∨ (∃ s, t = ⟨32, s⟩) ∨ (∃ s, t = ⟨64, s⟩) := by
  simp only [legalTys, List.mem_cons, List.mem_nil_iff, or_false] at h
  rcases h with rfl | rfl | rfl | rfl | rfl | rfl | rfl | rfl <;> simp [narrowTys]

theorem row_correct (r : Row) (hok : rowOk r = true) (hs : r.src ∈ legalTys) (hd : r.dst ∈ legalTys)
    (hsame : r.kind ≠ .cast → r.dst = r.src) (args : List Int) (hin : ∀ a ∈ args, r.src.inRange a) (v : Nat)
    (hv : rowSpec r args = some v) : exec (args.map (canon r.src)) [] r.seq = some v := by
  obtain ⟨kind, op, src, dst, seq⟩ := r
  simp only [rowOk, beq_iff_eq] at hok
  simp only at hs hd hsame hin
  cases kind
  · -- bin
    have := hsame (by simp); subst this
    match args, hv, hin with
    | [a, b], hv, hin =>
      have ha := hin a (by simp)
      have hb := hin b (by simp)
      simp only [rowSpec] at hv
      split at hv
      · cases hv
      · rename_i hno
        simp only [Option.map_eq_some_iff] at hv
        obtain ⟨w, hw, rfl⟩ := hv
        simp only [List.map_cons, List.map_nil]
        unfold specBin at hw
        split at hw
        · cases hw
          obtain ⟨sq, h1, h2⟩ := add_correct dst hs a b
          rw [hok] at h1; cases h1; exact h2
        · cases hw
          obtain ⟨sq, h1, h2⟩ := sub_correct dst hs a b
          rw [hok] at h1; cases h1; exact h2
        · cases hw
          obtain ⟨sq, h1, h2⟩ := mul_correct dst hs a b
          rw [hok] at h1; cases h1; exact h2
        · split at hw
          · cases hw
          · rename_i hz
            cases hw
            rcases legal_split hs with h | h
            · have hsg := (signed_legal h).2
              obtain ⟨sq, h1, h2⟩ := div_signed_correct dst h a b ha hb hz (by intro ho; exact hno ⟨Or.inl rfl, hsg, ho⟩)
              rw [hok] at h1; cases h1; exact h2
            · obtain ⟨sq, h1, h2⟩ := (udiv_urem_correct dst h a b ha hb hz).1
              rw [hok] at h1; cases h1; exact h2
        · split at hw
          · cases hw
          · rename_i hz
            cases hw
            rcases legal_split hs with h | h
            · have hsg := (signed_legal h).2
              obtain ⟨sq, h1, h2⟩ := rem_signed_correct dst h a b ha hb hz (by intro ho; exact hno ⟨Or.inr rfl, hsg, ho⟩)
              rw [hok] at h1; cases h1; exact h2
            · obtain ⟨sq, h1, h2⟩ := (udiv_urem_correct dst h a b ha hb hz).2
              rw [hok] at h1; cases h1; exact h2
        · cases hw
    | [], hv, _ => simp [rowSpec] at hv
    | [_], hv, _ => simp [rowSpec] at hv
    | _ :: _ :: _ :: _, hv, _ => simp [rowSpec] at hv
  · -- cmp
    have := hsame (by simp); subst this
    match args, hv, hin with
    | [a, b], hv, hin =>
      have ha := hin a (by simp)
      have hb := hin b (by simp)
      simp only [rowSpec] at hv
      have hop : op ∈ cmpOps := by
        unfold specCmp at hv
        split at hv <;> simp [cmpOps] at hv ⊢
      simp only [List.map_cons, List.map_nil]
      rcases legal_split hs with h | h
      · obtain ⟨sq, h1, h2⟩ := cmp_signed_correct dst h op hop a b ha hb
        rw [hok] at h1; cases h1; rw [h2, hv]
      · obtain ⟨sq, h1, h2⟩ := cmp_unsigned_correct dst h op hop a b ha hb
        rw [hok] at h1; cases h1; rw [h2, hv]
    | [], hv, _ => simp [rowSpec] at hv
    | [_], hv, _ => simp [rowSpec] at hv
    | _ :: _ :: _ :: _, hv, _ => simp [rowSpec] at hv
  · -- neg
    have := hsame (by simp); subst this
    match args, hv, hin with
    | [a], hv, hin =>
      simp only [rowSpec, Option.some.injEq] at hv
      subst hv
      simp only [List.map_cons, List.map_nil]
      obtain ⟨sq, h1, h2⟩ := neg_correct dst hs a
      have e : expectedSeq .neg op dst dst = expectedSeq .neg "neg" dst dst := rfl
      rw [e] at hok
      rw [hok] at h1; cases h1; exact h2
    | [], hv, _ => simp [rowSpec] at hv
    | _ :: _ :: _, hv, _ => simp [rowSpec] at hv
  · -- cast
    match args, hv, hin with
    | [a], hv, hin =>
      have ha := hin a (by simp)
      simp only [rowSpec, Option.some.injEq] at hv
      subst hv
      simp only [List.map_cons, List.map_nil]
      have e : expectedSeq .cast op src dst = expectedSeq .cast "cast" src dst := rfl
      rw [e] at hok
      rcases legal_dst_split hd with h | ⟨s, rfl⟩ | ⟨s, rfl⟩
      · obtain ⟨sq, h1, h2⟩ := cast_to_narrow_correct src dst hs h a
        rw [hok] at h1; cases h1; exact h2
      · obtain ⟨sq, h1, h2⟩ := cast_to_32_correct src s hs a
        rw [hok] at h1; cases h1; exact h2
      · obtain ⟨sq, h1, h2⟩ := cast_to_64_correct src s hs a ha
        rw [hok] at h1; cases h1; exact h2
    | [], hv, _ => simp [rowSpec] at hv
    | _ :: _ :: _, hv, _ => simp [rowSpec] at hv

/-! ### memory round trip -/

/-- storing the canonical temporary of an in-range value with the type's store instruction and loading it back with the type's
    load instruction gives the canonical temporary again: a value that went through memory (a field, an element, a spilled local)
    is indistinguishable from one that stayed in a temporary -/
theorem mem_roundtrip (t : Ty) (ht : t ∈ legalTys) (v : Int) (hv : t.inRange v) :
    (memStore (expectedMem t).1 (canon t v)).bind (memLoad t.cls (expectedMem t).2) = some (canon t v) := by
  simp only [legalTys, List.mem_cons, List.mem_nil_iff, or_false] at ht
  rcases ht with rfl | rfl | rfl | rfl | rfl | rfl | rfl | rfl <;>
    simp [expectedMem, memStore, storeBits, memLoad, sxk, canon, Ty.cls, Ty.inRange, Ty.lo, Ty.hi, pat_w, pat_l] at * <;> omega

/-- sharpness: reading an unsigned byte back with the sign-extending load is wrong from 128 on -/
theorem wrong_load_witness :
    (memStore "storeb" (canon ⟨8, false⟩ 200)).bind (memLoad .w "loadsb") ≠ some (canon ⟨8, false⟩ 200) := by decide

end FerretVerif.QbeSem
