/-
  Proofs/LimbsText.lean — decimal text conversion of the limb model:
  ferret_div_small_limbs / ferret_limbs_to_decimal (digits of the value),
  ferret_parse_uint's digit loop (Horner evaluation modulo B^n, stopping behaviour),
  and the print/parse round trip.
-/
import FerretVerif.Proofs.LimbsBase

namespace FerretVerif.Limbs

/-! ### helper facts: lengths, well-formedness, injectivity of `val` -/

theorem divSmall_fst_cons (B d v : Nat) (vs : List Nat) :
    (divSmall B d (v :: vs)).1 = (((divSmall B d vs).2 * B + v) / d) :: (divSmall B d vs).1 := rfl

theorem divSmall_snd_cons (B d v : Nat) (vs : List Nat) :
    (divSmall B d (v :: vs)).2 = ((divSmall B d vs).2 * B + v) % d := rfl

theorem divSmall_length (B d : Nat) (vs : List Nat) : (divSmall B d vs).1.length = vs.length := by
  induction vs with
  | nil => rfl
  | cons v vs ih => rw [divSmall_fst_cons, List.length_cons, ih, List.length_cons]

theorem divSmall_rem_lt (B d : Nat) (hd : 0 < d) (vs : List Nat) : (divSmall B d vs).2 < d :=
  (divSmall_spec B d hd vs).2

theorem divSmall_wf (B d : Nat) (hd : 0 < d) (vs : List Nat) (h : Wf B vs) :
    Wf B (divSmall B d vs).1 := by
  induction vs with
  | nil => intro x hx; simp [divSmall] at hx
  | cons v vs ih =>
    rw [divSmall_fst_cons]
    refine Wf.cons ?_ (ih h.tail)
    have hr := divSmall_rem_lt B d hd vs
    have hv := h.head
    generalize (divSmall B d vs).2 = rem at *
    rw [Nat.div_lt_iff_lt_mul hd]
    have : (rem + 1) * B ≤ d * B := Nat.mul_le_mul_right _ hr
    rw [Nat.add_mul, Nat.one_mul] at this
    rw [Nat.mul_comm B d]
    omega

theorem divSmall_val (B d : Nat) (hd : 0 < d) (vs : List Nat) :
    val B (divSmall B d vs).1 = val B vs / d ∧ (divSmall B d vs).2 = val B vs % d := by
  obtain ⟨h1, h2⟩ := divSmall_spec B d hd vs
  generalize val B (divSmall B d vs).1 = q at *
  generalize (divSmall B d vs).2 = r at *
  rw [← h1, Nat.mul_comm q d]
  constructor
  · rw [Nat.mul_add_div hd, Nat.div_eq_of_lt h2, Nat.add_zero]
  · rw [Nat.mul_add_mod, Nat.mod_eq_of_lt h2]

theorem mulAddSmall_length (B base : Nat) (vs : List Nat) (c : Nat) :
    (mulAddSmall B base vs c).length = vs.length := by
  induction vs generalizing c with
  | nil => rfl
  | cons v vs ih => simp only [mulAddSmall, List.length_cons, ih]

theorem mulAddSmall_wf (B base : Nat) (hB : 0 < B) (vs : List Nat) (c : Nat) :
    Wf B (mulAddSmall B base vs c) := by
  induction vs generalizing c with
  | nil => intro x hx; simp [mulAddSmall] at hx
  | cons v vs ih => exact Wf.cons (Nat.mod_lt _ hB) (ih _)

/-- a well-formed limb list is determined by its length and value -/
theorem val_inj (B : Nat) (a b : List Nat) (ha : Wf B a) (hb : Wf B b) (hl : a.length = b.length)
    (hv : val B a = val B b) : a = b := by
  induction a generalizing b with
  | nil => cases b with
    | nil => rfl
    | cons y ys => simp at hl
  | cons x xs ih =>
    cases b with
    | nil => simp at hl
    | cons y ys =>
      have hx := ha.head
      have hy := hb.head
      rw [val_cons, val_cons] at hv
      have hB : 0 < B := by omega
      have e1 : x = y := by
        have h1 : (x + B * val B xs) % B = (y + B * val B ys) % B := by rw [hv]
        rwa [Nat.add_mul_mod_self_left, Nat.add_mul_mod_self_left, Nat.mod_eq_of_lt hx,
          Nat.mod_eq_of_lt hy] at h1
      have e2 : val B xs = val B ys := by
        subst e1
        have : B * val B xs = B * val B ys := by omega
        exact Nat.eq_of_mul_eq_mul_left hB this
      rw [e1, ih ys ha.tail hb.tail (by simpa using hl) e2]

theorem eq_zero_of_val_eq_zero (B : Nat) (v : List Nat) (hv : Wf B v) (h0 : val B v = 0) :
    v = zero v.length := by
  rcases Nat.eq_zero_or_pos B with hB | hB
  · cases v with
    | nil => rfl
    | cons x xs => have := hv.head; omega
  · exact val_inj B v (zero v.length) hv (zero_wf B _ hB) (zero_length _).symm (by rw [h0, val_zero])

/-! ### decimal digits -/

/-- Horner evaluation of a most-significant-first digit list -/
def horner (base : Nat) (ds : List Nat) (init : Nat) : Nat := ds.foldl (fun a d => a * base + d) init

theorem horner_nil (base init : Nat) : horner base [] init = init := rfl
theorem horner_cons (base d : Nat) (ds : List Nat) (init : Nat) :
    horner base (d :: ds) init = horner base ds (init * base + d) := rfl
theorem horner_append (base : Nat) (ds es : List Nat) (init : Nat) :
    horner base (ds ++ es) init = horner base es (horner base ds init) := by
  simp only [horner, List.foldl_append]

/-- the loop of `toDecimalDigits` on plain naturals -/
def natDigitsAux : Nat → Nat → List Nat → List Nat
  | 0, _, acc => acc
  | fuel + 1, v, acc => if v = 0 then acc else natDigitsAux fuel (v / 10) (v % 10 :: acc)

/-- decimal digits, most significant first; `digits10 0 = []` -/
def digits10 (v : Nat) : List Nat :=
  if _ : v = 0 then [] else digits10 (v / 10) ++ [v % 10]
decreasing_by omega

theorem digits10_zero : digits10 0 = [] := by rw [digits10]; simp
theorem digits10_pos (v : Nat) (h : v ≠ 0) : digits10 v = digits10 (v / 10) ++ [v % 10] := by
  rw [digits10]; simp [h]

theorem natDigitsAux_eq (fuel v : Nat) (acc : List Nat) (h : v < 10 ^ fuel) :
    natDigitsAux fuel v acc = digits10 v ++ acc := by
  induction fuel generalizing v acc with
  | zero =>
    have : v = 0 := by simpa using h
    subst this; rw [digits10_zero]; rfl
  | succ fuel ih =>
    unfold natDigitsAux
    by_cases hv : v = 0
    · subst hv; rw [digits10_zero]; rfl
    · rw [if_neg hv, ih _ _ (by rw [Nat.pow_succ] at h; omega), digits10_pos v hv,
        List.append_assoc]; rfl

theorem digits10_lt (v : Nat) : ∀ d ∈ digits10 v, d < 10 := by
  induction v using Nat.strongRecOn with
  | _ v ih =>
    by_cases hv : v = 0
    · subst hv; rw [digits10_zero]; intro d hd; simp at hd
    · rw [digits10_pos v hv]
      intro d hd
      rcases List.mem_append.1 hd with hd | hd
      · exact ih (v / 10) (by omega) d hd
      · have : d = v % 10 := by simpa using hd
        omega

theorem horner_digits10 (v : Nat) : horner 10 (digits10 v) 0 = v := by
  induction v using Nat.strongRecOn with
  | _ v ih =>
    by_cases hv : v = 0
    · subst hv; rw [digits10_zero]; rfl
    · rw [digits10_pos v hv, horner_append, ih (v / 10) (by omega), horner_cons, horner_nil]
      omega

theorem digits10_foldl (v : Nat) : (digits10 v).foldl (fun a d => 10 * a + d) 0 = v := by
  have h := horner_digits10 v
  unfold horner at h
  have e : (fun a d => 10 * a + d) = (fun (a d : Nat) => a * 10 + d) := by
    funext a d; omega
  rw [e]; exact h

theorem digits10_ne_nil (v : Nat) (h : v ≠ 0) : digits10 v ≠ [] := by
  rw [digits10_pos v h]; simp

/-- the leading digit is nonzero -/
theorem digits10_head (v : Nat) (h : v ≠ 0) : ∃ d ds, digits10 v = d :: ds ∧ d ≠ 0 ∧ d < 10 := by
  induction v using Nat.strongRecOn with
  | _ v ih =>
    rw [digits10_pos v h]
    by_cases hq : v / 10 = 0
    · rw [hq, digits10_zero]
      exact ⟨v % 10, [], rfl, by omega, by omega⟩
    · obtain ⟨d, ds, e, h1, h2⟩ := ih (v / 10) (by omega) hq
      exact ⟨d, ds ++ [v % 10], by rw [e]; rfl, h1, h2⟩

theorem digits10_length (v k : Nat) (h : v < 10 ^ k) : (digits10 v).length ≤ k := by
  induction k generalizing v with
  | zero =>
    have : v = 0 := by simpa using h
    subst this; rw [digits10_zero]; simp
  | succ k ih =>
    by_cases hv : v = 0
    · subst hv; rw [digits10_zero]; simp
    · rw [digits10_pos v hv, List.length_append]
      have := ih (v / 10) (by rw [Nat.pow_succ] at h; omega)
      simp; omega

/-- ferret_limbs_to_decimal's loop produces the decimal digits of the value -/
theorem toDecimalDigits_eq (B : Nat) (hB : 0 < B) (fuel : Nat) (work acc : List Nat)
    (h : val B work < 10 ^ fuel) :
    toDecimalDigits B fuel work acc = digits10 (val B work) ++ acc := by
  induction fuel generalizing work acc with
  | zero =>
    have : val B work = 0 := by simpa using h
    rw [this, digits10_zero]; rfl
  | succ fuel ih =>
    unfold toDecimalDigits
    cases hz : isZero work with
    | true =>
      rw [(isZero_iff B hB work).1 hz, digits10_zero]; rfl
    | false =>
      have hv := (isZero_eq_false_iff B hB work).1 hz
      obtain ⟨hq, hr⟩ := divSmall_val B 10 (by omega) work
      simp only [Bool.false_eq_true, if_false]
      rw [ih _ _ (by rw [hq]; rw [Nat.pow_succ] at h; omega), hq, hr, digits10_pos _ hv,
        List.append_assoc]; rfl

theorem toDecimalDigits_eq_natDigitsAux (B : Nat) (hB : 0 < B) (fuel : Nat) (work acc : List Nat)
    (h : val B work < 10 ^ fuel) :
    toDecimalDigits B fuel work acc = natDigitsAux fuel (val B work) acc := by
  rw [toDecimalDigits_eq B hB fuel work acc h, natDigitsAux_eq fuel _ acc h]

theorem toDecimalDigits_lt (B : Nat) (hB : 0 < B) (fuel : Nat) (work : List Nat)
    (h : val B work < 10 ^ fuel) : ∀ d ∈ toDecimalDigits B fuel work [], d < 10 := by
  rw [toDecimalDigits_eq B hB fuel work [] h, List.append_nil]
  exact digits10_lt _

theorem toDecimalDigits_value (B : Nat) (hB : 0 < B) (fuel : Nat) (work : List Nat)
    (h : val B work < 10 ^ fuel) :
    (toDecimalDigits B fuel work []).foldl (fun a d => 10 * a + d) 0 = val B work := by
  rw [toDecimalDigits_eq B hB fuel work [] h, List.append_nil]
  exact digits10_foldl _

/-! ### parseDigits -/

/-- the char is skipped (`_`) or consumed (a digit below the base) by the digit loop -/
def validChar (base : Nat) (c : Char) : Bool :=
  c == '_' || (match digitValue c with | some d => decide (d < base) | none => false)

/-- numeric values of the digit characters of a string (`_` and other non-digits dropped) -/
def digitVals (cs : List Char) : List Nat := cs.filterMap digitValue

/-- repeated `ferret_mul_add_small` -/
def mulAddAll (B base : Nat) (ds : List Nat) (v : List Nat) : List Nat :=
  ds.foldl (fun v d => mulAddSmall B base v d) v

theorem mulAddAll_nil (B base : Nat) (v : List Nat) : mulAddAll B base [] v = v := rfl
theorem mulAddAll_cons (B base d : Nat) (ds v : List Nat) :
    mulAddAll B base (d :: ds) v = mulAddAll B base ds (mulAddSmall B base v d) := rfl

theorem mulAddAll_length (B base : Nat) (ds v : List Nat) :
    (mulAddAll B base ds v).length = v.length := by
  induction ds generalizing v with
  | nil => rfl
  | cons d ds ih => rw [mulAddAll_cons, ih, mulAddSmall_length]

theorem mulAddAll_wf (B base : Nat) (hB : 0 < B) (ds v : List Nat) (hv : Wf B v) :
    Wf B (mulAddAll B base ds v) := by
  induction ds generalizing v with
  | nil => exact hv
  | cons d ds ih => rw [mulAddAll_cons]; exact ih _ (mulAddSmall_wf B base hB v d)

/-- Horner evaluation is compatible with reduction of the accumulator -/
theorem horner_mod (base M : Nat) (ds : List Nat) (x : Nat) :
    horner base ds (x % M) % M = horner base ds x % M := by
  induction ds generalizing x with
  | nil => rw [horner_nil, horner_nil, Nat.mod_mod]
  | cons d ds ih =>
    rw [horner_cons, horner_cons, ← ih (x % M * base + d), ← ih (x * base + d)]
    congr 2
    rw [Nat.add_mod, Nat.mul_mod, Nat.mod_mod, ← Nat.mul_mod, ← Nat.add_mod]

theorem mulAddAll_val (B base : Nat) (hB : 0 < B) (ds v : List Nat) :
    val B (mulAddAll B base ds v) % B ^ v.length = horner base ds (val B v) % B ^ v.length := by
  induction ds generalizing v with
  | nil => rfl
  | cons d ds ih =>
    rw [mulAddAll_cons, horner_cons]
    have := ih (mulAddSmall B base v d)
    rw [mulAddSmall_length, mulAddSmall_spec B base hB, horner_mod] at this
    exact this

/-- the digit loop computes the Horner value modulo `B^n` -/
theorem mulAddAll_val_wf (B base : Nat) (hB : 0 < B) (ds v : List Nat) (hv : Wf B v) :
    val B (mulAddAll B base ds v) = horner base ds (val B v) % B ^ v.length := by
  rw [← mulAddAll_val B base hB ds v]
  have := val_lt B _ (mulAddAll_wf B base hB ds v hv)
  rw [mulAddAll_length] at this
  exact (Nat.mod_eq_of_lt this).symm

theorem digitValue_underscore : digitValue '_' = none := by decide

theorem parseDigits_nil (B base : Nat) (v : List Nat) (any : Bool) :
    parseDigits B base [] v any = (v, any) := rfl

theorem parseDigits_underscore (B base : Nat) (cs : List Char) (v : List Nat) (any : Bool) :
    parseDigits B base ('_' :: cs) v any = parseDigits B base cs v any := by
  rw [parseDigits]; simp

theorem parseDigits_stop (B base : Nat) (c : Char) (cs : List Char) (v : List Nat) (any : Bool)
    (h : validChar base c = false) : parseDigits B base (c :: cs) v any = (v, any) := by
  unfold validChar at h
  rw [Bool.or_eq_false_iff] at h
  rw [parseDigits, h.1]
  simp only [Bool.false_eq_true, if_false]
  cases hd : digitValue c with
  | none => rfl
  | some d =>
    have h2 := h.2
    rw [hd] at h2
    simp only [decide_eq_false_iff_not, Nat.not_lt] at h2
    simp only [ge_iff_le, h2, if_true]

theorem parseDigits_digit (B base : Nat) (c : Char) (d : Nat) (cs : List Char) (v : List Nat) (any : Bool)
    (hd : digitValue c = some d) (hlt : d < base) :
    parseDigits B base (c :: cs) v any = parseDigits B base cs (mulAddSmall B base v d) true := by
  have hc : (c == '_') = false := by
    cases h : c == '_' with
    | false => rfl
    | true =>
      have : c = '_' := by simpa using h
      rw [this, digitValue_underscore] at hd
      cases hd
  rw [parseDigits, hc]
  simp only [Bool.false_eq_true, if_false, hd, ge_iff_le, Nat.not_le.2 hlt]

/-- on a string of `_` and digits below the base, the loop consumes everything -/
theorem parseDigits_valid (B base : Nat) (cs : List Char) (v : List Nat) (any : Bool)
    (h : ∀ c ∈ cs, validChar base c = true) :
    parseDigits B base cs v any
      = (mulAddAll B base (digitVals cs) v, any || !(digitVals cs).isEmpty) := by
  induction cs generalizing v any with
  | nil => simp [parseDigits_nil, digitVals, mulAddAll_nil]
  | cons c cs ih =>
    have hc := h c List.mem_cons_self
    have ih' := fun v any => ih v any (fun c' hc' => h c' (List.mem_cons_of_mem _ hc'))
    by_cases hu : c = '_'
    · subst hu
      rw [parseDigits_underscore, ih']
      have : digitVals ('_' :: cs) = digitVals cs := by
        unfold digitVals; rw [List.filterMap_cons]; rfl
      rw [this]
    · unfold validChar at hc
      have hne : (c == '_') = false := by simpa using hu
      rw [hne, Bool.false_or] at hc
      cases hd : digitValue c with
      | none => rw [hd] at hc; exact absurd hc (by simp)
      | some d =>
        rw [hd] at hc
        have hlt : d < base := by simpa using hc
        rw [parseDigits_digit B base c d cs v any hd hlt, ih']
        have : digitVals (c :: cs) = d :: digitVals cs := by
          unfold digitVals; rw [List.filterMap_cons, hd]
        rw [this, mulAddAll_cons]
        simp

/-- stopping behaviour: the loop only looks at the longest prefix of `_`/digit-below-base chars -/
theorem parseDigits_takeWhile (B base : Nat) (cs : List Char) (v : List Nat) (any : Bool) :
    parseDigits B base cs v any = parseDigits B base (cs.takeWhile (validChar base)) v any := by
  induction cs generalizing v any with
  | nil => rfl
  | cons c cs ih =>
    cases hc : validChar base c with
    | false => rw [List.takeWhile_cons, hc, parseDigits_stop B base c cs v any hc]; rfl
    | true =>
      rw [List.takeWhile_cons, hc]
      simp only [if_true]
      by_cases hu : c = '_'
      · subst hu; rw [parseDigits_underscore, parseDigits_underscore, ih]
      · unfold validChar at hc
        have hne : (c == '_') = false := by simpa using hu
        rw [hne, Bool.false_or] at hc
        cases hd : digitValue c with
        | none => rw [hd] at hc; exact absurd hc (by simp)
        | some d =>
          rw [hd] at hc
          have hlt : d < base := by simpa using hc
          rw [parseDigits_digit B base c d _ v any hd hlt, parseDigits_digit B base c d _ v any hd hlt, ih]

/-- full description of the digit loop on an arbitrary string -/
theorem parseDigits_spec (B base : Nat) (cs : List Char) (v : List Nat) (any : Bool) :
    parseDigits B base cs v any
      = (mulAddAll B base (digitVals (cs.takeWhile (validChar base))) v,
         any || !(digitVals (cs.takeWhile (validChar base))).isEmpty) := by
  rw [parseDigits_takeWhile]
  exact parseDigits_valid B base _ v any (fun c hc => List.all_eq_true.1 List.all_takeWhile c hc)

/-! ### sign / base prefix handling -/

theorem parseUint_nosign (B n : Nat) (allow : Bool) (c : Char) (cs : List Char)
    (hsp : isSpaceC c = false) (hp : c ≠ '+') (hm : c ≠ '-') :
    parseUint B n allow (c :: cs)
      = ((parseDigits B (parseBase (c :: cs)).1 (parseBase (c :: cs)).2 (zero n) false).2,
         (parseDigits B (parseBase (c :: cs)).1 (parseBase (c :: cs)).2 (zero n) false).1, false) := by
  have e : List.dropWhile isSpaceC (c :: cs) = c :: cs := by
    rw [List.dropWhile_cons, hsp]; rfl
  unfold parseUint
  simp only [e]
  split
  · rename_i heq
    rw [List.cons.injEq] at heq
    exact absurd heq.1 hp
  · rename_i heq
    rw [List.cons.injEq] at heq
    exact absurd heq.1 hm
  · simp only [Bool.false_and, Bool.false_eq_true, if_false]

theorem parseBase_of_ne (c : Char) (h : c ≠ '0') (cs : List Char) : parseBase (c :: cs) = (10, c :: cs) := by
  unfold parseBase
  split
  · rename_i heq
    rw [List.cons.injEq] at heq
    exact absurd heq.1 h
  · rfl

theorem parseBase_single (c : Char) : parseBase [c] = (10, [c]) := by
  unfold parseBase
  split
  · rename_i heq
    rw [List.cons.injEq] at heq
    exact absurd heq.2 (by simp)
  · rfl

theorem fromString_unsigned (B n : Nat) (str : List Char) :
    fromString B n false str
      = if (parseUint B n false str).1 = true then (parseUint B n false str).2.1 else zero n := by
  unfold fromString
  cases h : (parseUint B n false str).1 <;> simp [h]

/-! ### decimal strings -/

def decChars (ds : List Nat) : List Char := ds.map fun d => Char.ofNat (48 + d)

theorem decChar_facts : ∀ d : Fin 10,
    digitValue (Char.ofNat (48 + d.val)) = some d.val ∧ isSpaceC (Char.ofNat (48 + d.val)) = false
    ∧ Char.ofNat (48 + d.val) ≠ '+' ∧ Char.ofNat (48 + d.val) ≠ '-' ∧ Char.ofNat (48 + d.val) ≠ '_'
    ∧ (Char.ofNat (48 + d.val) == 'x' || Char.ofNat (48 + d.val) == 'X') = false
    ∧ (Char.ofNat (48 + d.val) == 'o' || Char.ofNat (48 + d.val) == 'O') = false
    ∧ (Char.ofNat (48 + d.val) == 'b' || Char.ofNat (48 + d.val) == 'B') = false
    ∧ (d.val ≠ 0 → Char.ofNat (48 + d.val) ≠ '0') := by decide

theorem parseBase_zero_digit (c : Char) (rest : List Char)
    (hx : (c == 'x' || c == 'X') = false) (ho : (c == 'o' || c == 'O') = false)
    (hb : (c == 'b' || c == 'B') = false) :
    parseBase ('0' :: c :: rest) = (10, '0' :: c :: rest) := by
  rw [parseBase, hx, ho, hb]
  simp only [Bool.false_eq_true, if_false]

theorem decChars_nil : decChars [] = [] := rfl
theorem decChars_cons (d : Nat) (ds : List Nat) :
    decChars (d :: ds) = Char.ofNat (48 + d) :: decChars ds := rfl

theorem digitVals_cons_some (c : Char) (d : Nat) (cs : List Char) (h : digitValue c = some d) :
    digitVals (c :: cs) = d :: digitVals cs := by
  unfold digitVals; rw [List.filterMap_cons, h]

theorem digitVals_decChars (ds : List Nat) (h : ∀ d ∈ ds, d < 10) : digitVals (decChars ds) = ds := by
  induction ds with
  | nil => rfl
  | cons d ds ih =>
    have hd := h d List.mem_cons_self
    rw [decChars_cons, digitVals_cons_some _ d _ (decChar_facts ⟨d, hd⟩).1,
      ih (fun x hx => h x (List.mem_cons_of_mem _ hx))]

theorem validChar_decChars (base : Nat) (ds : List Nat) (h : ∀ d ∈ ds, d < 10 ∧ d < base) :
    ∀ c ∈ decChars ds, validChar base c = true := by
  induction ds with
  | nil => intro c hc; simp [decChars] at hc
  | cons d ds ih =>
    intro c hc
    rw [decChars_cons] at hc
    rcases List.mem_cons.1 hc with rfl | hc
    · have hd := h d List.mem_cons_self
      unfold validChar
      rw [(decChar_facts ⟨d, hd.1⟩).1]
      simp [hd.2]
    · exact ih (fun x hx => h x (List.mem_cons_of_mem _ hx)) c hc

/-- a decimal digit string never carries a `0x`/`0o`/`0b` prefix -/
theorem parseBase_decChars (ds : List Nat) (h : ∀ d ∈ ds, d < 10) :
    parseBase (decChars ds) = (10, decChars ds) := by
  match ds, h with
  | [], _ => rfl
  | [d], _ => exact parseBase_single _
  | d :: e :: ds, h =>
    have hd := h d List.mem_cons_self
    have he := h e (List.mem_cons_of_mem _ List.mem_cons_self)
    by_cases h0 : d = 0
    · subst h0
      obtain ⟨_, _, _, _, _, hx, ho, hb, _⟩ := decChar_facts ⟨e, he⟩
      exact parseBase_zero_digit _ _ hx ho hb
    · exact parseBase_of_ne _ ((decChar_facts ⟨d, hd⟩).2.2.2.2.2.2.2.2 h0) _

/-- ferret_parse_uint on a nonempty string of decimal digits (leading zeros allowed): success, no sign,
    the limbs are those of the repeated multiply-add -/
theorem parseUint_decChars (B n : Nat) (allow : Bool) (ds : List Nat) (hne : ds ≠ [])
    (h : ∀ d ∈ ds, d < 10) :
    parseUint B n allow (decChars ds) = (true, mulAddAll B 10 ds (zero n), false) := by
  cases ds with
  | nil => exact absurd rfl hne
  | cons d ds =>
    have hd := h d List.mem_cons_self
    obtain ⟨_, hsp, hp, hm, _⟩ := decChar_facts ⟨d, hd⟩
    have hpb := parseBase_decChars (d :: ds) h
    rw [decChars_cons] at hpb
    rw [decChars_cons, parseUint_nosign B n allow _ _ hsp hp hm, hpb]
    simp only []
    rw [← decChars_cons, parseDigits_valid B 10 _ _ _
      (validChar_decChars 10 (d :: ds) (fun x hx => ⟨h x hx, h x hx⟩)), digitVals_decChars _ h]
    simp

/-- ferret_{u,i}N_from_string on a nonempty string of decimal digits -/
theorem fromString_decChars' (B n : Nat) (signed : Bool) (ds : List Nat) (hne : ds ≠ [])
    (h : ∀ d ∈ ds, d < 10) :
    fromString B n signed (decChars ds) = mulAddAll B 10 ds (zero n) := by
  unfold fromString
  rw [parseUint_decChars B n signed ds hne h]
  simp

theorem fromString_decChars (B n : Nat) (ds : List Nat) (hne : ds ≠ []) (h : ∀ d ∈ ds, d < 10) :
    fromString B n false (decChars ds) = mulAddAll B 10 ds (zero n) :=
  fromString_decChars' B n false ds hne h

/-- value of ferret_uN_from_string on a decimal digit string: Horner value modulo `B^n` -/
theorem fromString_decChars_val (B n : Nat) (hB : 0 < B) (ds : List Nat) (hne : ds ≠ [])
    (h : ∀ d ∈ ds, d < 10) :
    val B (fromString B n false (decChars ds)) = horner 10 ds 0 % B ^ n := by
  rw [fromString_decChars B n ds hne h, mulAddAll_val_wf B 10 hB ds _ (zero_wf B n hB), val_zero,
    zero_length]

theorem fromString_decChars_length (B n : Nat) (ds : List Nat) (hne : ds ≠ []) (h : ∀ d ∈ ds, d < 10) :
    (fromString B n false (decChars ds)).length = n := by
  rw [fromString_decChars B n ds hne h, mulAddAll_length, zero_length]

theorem fromString_decChars_wf (B n : Nat) (hB : 0 < B) (ds : List Nat) (hne : ds ≠ [])
    (h : ∀ d ∈ ds, d < 10) : Wf B (fromString B n false (decChars ds)) := by
  rw [fromString_decChars B n ds hne h]
  exact mulAddAll_wf B 10 hB ds _ (zero_wf B n hB)

/-! ### printing -/

/-- the character list printed by ferret_limbs_to_decimal -/
theorem toDecimal_toList (B : Nat) (hB : 0 < B) (v : List Nat) (h80 : val B v < 10 ^ 80) :
    (toDecimal B v).toList
      = if val B v = 0 then ['0'] else decChars (digits10 (val B v)) := by
  unfold toDecimal
  cases hz : isZero v with
  | true =>
    rw [if_pos ((isZero_iff B hB v).1 hz)]
    simp only [if_true]
    rfl
  | false =>
    rw [if_neg ((isZero_eq_false_iff B hB v).1 hz)]
    simp only [Bool.false_eq_true, if_false]
    rw [String.toList_ofList, toDecimalDigits_eq B hB 80 v [] h80, List.append_nil]
    rfl

/-- the digits to be re-read: `[0]` for zero, else the decimal digits -/
theorem toDecimal_toList' (B : Nat) (hB : 0 < B) (v : List Nat) (h80 : val B v < 10 ^ 80) :
    ∃ ds, (toDecimal B v).toList = decChars ds ∧ ds ≠ [] ∧ (∀ d ∈ ds, d < 10)
      ∧ horner 10 ds 0 = val B v := by
  rw [toDecimal_toList B hB v h80]
  by_cases h0 : val B v = 0
  · rw [if_pos h0, h0]
    exact ⟨[0], rfl, by simp, by simp, rfl⟩
  · rw [if_neg h0]
    exact ⟨digits10 (val B v), rfl, digits10_ne_nil _ h0, digits10_lt _, horner_digits10 _⟩

/-! ### round trip -/

/-- printing an unsigned value in decimal and parsing it back yields the same limbs
    (`val B v < 10^80`: the 80-digit buffer of ferret_limbs_to_decimal suffices; true for every
    width up to 256 bits since 2^256 < 10^78) -/
theorem fromString_toDecimal (B n : Nat) (hB : 0 < B) (v : List Nat) (hv : Wf B v) (hn : v.length = n)
    (h80 : val B v < 10 ^ 80) :
    fromString B n false (toDecimal B v).toList = v := by
  obtain ⟨ds, e, hne, hlt, hval⟩ := toDecimal_toList' B hB v h80
  rw [e]
  apply val_inj B _ _ (fromString_decChars_wf B n hB ds hne hlt) hv
  · rw [fromString_decChars_length B n ds hne hlt, hn]
  · rw [fromString_decChars_val B n hB ds hne hlt, hval, ← hn]
    exact Nat.mod_eq_of_lt (val_lt B v hv)

/-- same, with the buffer bound stated on the width -/
theorem fromString_toDecimal_of_width (B n : Nat) (hB : 0 < B) (v : List Nat) (hv : Wf B v)
    (hn : v.length = n) (hw : B ^ n ≤ 10 ^ 80) :
    fromString B n false (toDecimal B v).toList = v := by
  apply fromString_toDecimal B n hB v hv hn
  have := val_lt B v hv
  rw [hn] at this
  omega

/-! ### task-style summaries of the digit loop -/

/-- Horner evaluation splits into the shifted initial value plus the value of the digits -/
theorem horner_init (base : Nat) (ds : List Nat) (init : Nat) :
    horner base ds init = init * base ^ ds.length + horner base ds 0 := by
  induction ds generalizing init with
  | nil => simp [horner_nil]
  | cons d ds ih =>
    rw [horner_cons, ih (init * base + d), horner_cons, ih (0 * base + d), List.length_cons,
      Nat.pow_succ, Nat.zero_mul, Nat.zero_add, Nat.add_mul, Nat.mul_assoc,
      Nat.mul_comm base (base ^ ds.length)]
    omega

/-- ferret_parse_uint's digit loop on a string consisting of `_` and digits below the base:
    `any` records whether a digit was seen, the limbs hold the Horner value modulo `B^n` -/
theorem parseDigits_horner (B base : Nat) (hB : 0 < B) (cs : List Char) (v : List Nat) (any : Bool)
    (hv : Wf B v) (h : ∀ c ∈ cs, validChar base c = true) :
    (parseDigits B base cs v any).2 = (any || !(digitVals cs).isEmpty)
    ∧ (parseDigits B base cs v any).1.length = v.length
    ∧ Wf B (parseDigits B base cs v any).1
    ∧ val B (parseDigits B base cs v any).1
        = (val B v * base ^ (digitVals cs).length + horner base (digitVals cs) 0) % B ^ v.length := by
  rw [parseDigits_valid B base cs v any h]
  refine ⟨rfl, mulAddAll_length _ _ _ _, mulAddAll_wf B base hB _ _ hv, ?_⟩
  show val B (mulAddAll B base (digitVals cs) v) = _
  rw [mulAddAll_val_wf B base hB _ _ hv, horner_init]

/-- general form: only the longest valid prefix matters (the loop `break`s at the first other char) -/
theorem parseDigits_horner_prefix (B base : Nat) (hB : 0 < B) (cs : List Char) (v : List Nat) (any : Bool)
    (hv : Wf B v) :
    let ds := digitVals (cs.takeWhile (validChar base))
    (parseDigits B base cs v any).2 = (any || !ds.isEmpty)
    ∧ (parseDigits B base cs v any).1.length = v.length
    ∧ Wf B (parseDigits B base cs v any).1
    ∧ val B (parseDigits B base cs v any).1
        = (val B v * base ^ ds.length + horner base ds 0) % B ^ v.length := by
  intro ds
  rw [parseDigits_takeWhile]
  exact parseDigits_horner B base hB _ v any hv
    (fun c hc => List.all_eq_true.1 List.all_takeWhile c hc)

/-! ### characters accepted by the digit loop -/

theorem char_digit_range (c : Char) : ('0' ≤ c ∧ c ≤ '9') ↔ (48 ≤ c.toNat ∧ c.toNat ≤ 57) := by
  rw [Char.le_def, Char.le_def]
  simp only [↓Char.isValue, Char.reduceVal, UInt32.le_iff_toNat_le, UInt32.reduceToNat, Char.toNat_val]

theorem char_lower_range (c : Char) : ('a' ≤ c ∧ c ≤ 'f') ↔ (97 ≤ c.toNat ∧ c.toNat ≤ 102) := by
  rw [Char.le_def, Char.le_def]
  simp only [↓Char.isValue, Char.reduceVal, UInt32.le_iff_toNat_le, UInt32.reduceToNat, Char.toNat_val]

theorem char_upper_range (c : Char) : ('A' ≤ c ∧ c ≤ 'F') ↔ (65 ≤ c.toNat ∧ c.toNat ≤ 70) := by
  rw [Char.le_def, Char.le_def]
  simp only [↓Char.isValue, Char.reduceVal, UInt32.le_iff_toNat_le, UInt32.reduceToNat, Char.toNat_val]

/-- ferret_digit_value in terms of the code point -/
theorem digitValue_eq (c : Char) :
    digitValue c =
      if 48 ≤ c.toNat ∧ c.toNat ≤ 57 then some (c.toNat - 48)
      else if 97 ≤ c.toNat ∧ c.toNat ≤ 102 then some (10 + (c.toNat - 97))
      else if 65 ≤ c.toNat ∧ c.toNat ≤ 70 then some (10 + (c.toNat - 65))
      else none := by
  unfold digitValue
  simp only [char_digit_range, char_lower_range, char_upper_range]

theorem digitValue_lt_16 (c : Char) (d : Nat) (h : digitValue c = some d) : d < 16 := by
  rw [digitValue_eq] at h
  split at h
  · cases h; omega
  · split at h
    · cases h; omega
    · split at h
      · cases h; omega
      · cases h

/-- for base 10 the accepted characters are exactly `_` and `0`..`9` -/
theorem validChar_ten_iff (c : Char) : validChar 10 c = true ↔ (c = '_' ∨ ('0' ≤ c ∧ c ≤ '9')) := by
  rw [char_digit_range]
  by_cases hu : c = '_'
  · subst hu; simp [validChar]
  · have hne : (c == '_') = false := by simpa using hu
    unfold validChar
    rw [hne, Bool.false_or, digitValue_eq]
    by_cases h1 : 48 ≤ c.toNat ∧ c.toNat ≤ 57
    · rw [if_pos h1]
      simp only [decide_eq_true_eq]
      constructor
      · intro _; exact Or.inr h1
      · intro _; omega
    · rw [if_neg h1]
      constructor
      · intro h
        exfalso
        by_cases h2 : 97 ≤ c.toNat ∧ c.toNat ≤ 102
        · rw [if_pos h2] at h
          simp only [decide_eq_true_eq] at h; omega
        · rw [if_neg h2] at h
          by_cases h3 : 65 ≤ c.toNat ∧ c.toNat ≤ 70
          · rw [if_pos h3] at h
            simp only [decide_eq_true_eq] at h; omega
          · rw [if_neg h3] at h
            cases h
      · rintro (h | h)
        · exact absurd h hu
        · exact absurd h h1

/-! ### signed printing and parsing (ferret_iN_to_string / ferret_iN_from_string) -/

theorem neg_length (B : Nat) (hB : 1 < B) (v : List Nat) (hv : Wf B v) : (neg B v).length = v.length := by
  obtain ⟨_, _, _, hlen, _⟩ := negc_spec B hB v 1 (by omega) hv
  exact hlen

theorem neg_wf (B : Nat) (hB : 1 < B) (v : List Nat) (hv : Wf B v) : Wf B (neg B v) := by
  obtain ⟨_, _, _, _, hwf⟩ := negc_spec B hB v 1 (by omega) hv
  exact hwf

/-- two's complement negation is an involution -/
theorem neg_neg (B : Nat) (hB : 1 < B) (v : List Nat) (hv : Wf B v) : neg B (neg B v) = v := by
  have hw := neg_wf B hB v hv
  have hl := neg_length B hB v hv
  apply val_inj B _ _ (neg_wf B hB _ hw) hv
  · rw [neg_length B hB _ hw, hl]
  · rw [neg_val B hB _ hw, neg_val B hB v hv, hl]
    have hlt := val_lt B v hv
    generalize B ^ v.length = M at *
    generalize val B v = V at *
    by_cases h0 : V = 0
    · subst h0
      rw [Nat.sub_zero, Nat.mod_self, Nat.sub_zero, Nat.mod_self]
    · rw [Nat.mod_eq_of_lt (by omega : M - V < M)]
      have : M - (M - V) = V := by omega
      rw [this, Nat.mod_eq_of_lt hlt]

theorem parseUint_minus (B n : Nat) (cs : List Char) :
    parseUint B n true ('-' :: cs)
      = ((parseDigits B (parseBase cs).1 (parseBase cs).2 (zero n) false).2,
         (parseDigits B (parseBase cs).1 (parseBase cs).2 (zero n) false).1, true) := by
  have e : List.dropWhile isSpaceC ('-' :: cs) = '-' :: cs := by
    rw [List.dropWhile_cons]; rfl
  unfold parseUint
  simp only [e]
  rfl

/-- ferret_iN_from_string on `-` followed by decimal digits: the negated magnitude -/
theorem fromString_minus_decChars (B n : Nat) (ds : List Nat) (hne : ds ≠ []) (h : ∀ d ∈ ds, d < 10) :
    fromString B n true ('-' :: decChars ds) = neg B (mulAddAll B 10 ds (zero n)) := by
  unfold fromString
  rw [parseUint_minus, parseBase_decChars ds h]
  simp only []
  rw [parseDigits_valid B 10 _ _ _ (validChar_decChars 10 ds (fun x hx => ⟨h x hx, h x hx⟩)),
    digitVals_decChars _ h]
  cases ds with
  | nil => exact absurd rfl hne
  | cons d ds => simp

/-- printing in decimal and parsing back, for either signedness of the parser (the text carries no sign) -/
theorem fromString_toDecimal' (B n : Nat) (signed : Bool) (hB : 0 < B) (v : List Nat) (hv : Wf B v)
    (hn : v.length = n) (h80 : val B v < 10 ^ 80) :
    fromString B n signed (toDecimal B v).toList = v := by
  obtain ⟨ds, e, hne, hlt, hval⟩ := toDecimal_toList' B hB v h80
  rw [e, fromString_decChars' B n signed ds hne hlt, ← fromString_decChars B n ds hne hlt, ← e]
  exact fromString_toDecimal B n hB v hv hn h80

/-- ferret_uN_to_string then ferret_uN_from_string is the identity -/
theorem fromString_toStringS_unsigned (B n : Nat) (hB : 0 < B) (v : List Nat) (hv : Wf B v)
    (hn : v.length = n) (hw : B ^ n ≤ 10 ^ 80) :
    fromString B n false (toStringS B false v).toList = v := by
  have e : toStringS B false v = toDecimal B v := by simp [toStringS]
  rw [e]
  exact fromString_toDecimal_of_width B n hB v hv hn hw

/-- ferret_iN_to_string then ferret_iN_from_string is the identity (including the most negative value,
    whose magnitude wraps to itself) -/
theorem fromString_toStringS_signed (B n : Nat) (hB : 1 < B) (v : List Nat) (hv : Wf B v)
    (hn : v.length = n) (hw : B ^ n ≤ 10 ^ 80) :
    fromString B n true (toStringS B true v).toList = v := by
  have hB0 : 0 < B := by omega
  unfold toStringS
  cases hneg : isNeg B v with
  | false =>
    simp only [Bool.and_false, Bool.false_eq_true, if_false]
    apply fromString_toDecimal' B n true hB0 v hv hn
    have := val_lt B v hv
    rw [hn] at this
    omega
  | true =>
    simp only [Bool.and_true, if_true]
    have hw' := neg_wf B hB v hv
    have hl' : (neg B v).length = n := by rw [neg_length B hB v hv, hn]
    have h80 : val B (neg B v) < 10 ^ 80 := by
      have := val_lt B _ hw'
      rw [hl'] at this
      omega
    obtain ⟨ds, e, hne, hlt, hval⟩ := toDecimal_toList' B hB0 (neg B v) h80
    have hm : mulAddAll B 10 ds (zero n) = neg B v := by
      rw [← fromString_decChars B n ds hne hlt, ← e]
      exact fromString_toDecimal B n hB0 _ hw' hl' h80
    have hs : ("-" ++ toDecimal B (neg B v)).toList = '-' :: decChars ds := by
      rw [String.toList_append, e]; rfl
    rw [hs, fromString_minus_decChars B n ds hne hlt, hm]
    exact neg_neg B hB v hv

end FerretVerif.Limbs
