/-
  Proofs/Borrow.lean — path overlap is a tolerance relation with the expected meaning; the live loan set of an accepted
  run satisfies aliasing-xor-mutation at every step (C07).
-/
import FerretVerif.Model.Borrow

namespace FerretVerif.Borrow

theorem overlap_refl (a : List Seg) : overlap a a = true := by
  induction a with
  | nil => rfl
  | cons x xs ih => simp only [overlap]; split <;> simp [ih]

theorem overlap_symm (a b : List Seg) : overlap a b = overlap b a := by
  induction a generalizing b with
  | nil => cases b <;> rfl
  | cons x xs ih =>
    cases b with
    | nil => rfl
    | cons y ys =>
      simp only [overlap]
      by_cases h1 : x = .idx <;> by_cases h2 : y = .idx <;> simp [h1, h2]
      by_cases h : x = y
      · subst h; simp [ih ys]
      · have h' : ¬ y = x := fun e => h e.symm
        simp [h, h']

/-- a path overlaps all its extensions (a borrow of `x.f` covers `x.f.g`, `x.f[i]`, …) -/
theorem overlap_prefix (a b : List Seg) : overlap a (a ++ b) = true := by
  induction a with
  | nil => rfl
  | cons x xs ih => simp only [List.cons_append, overlap]; split <;> simp [ih]

/-- two different fields at the same position, with only equal fields before, are disjoint -/
theorem distinct_fields_disjoint (pre : List Seg) (hpre : ∀ s ∈ pre, s ≠ .idx) (f g : Nat) (h : f ≠ g) (a b : List Seg) :
    overlap (pre ++ .fld f :: a) (pre ++ .fld g :: b) = false := by
  induction pre with
  | nil => simp [overlap, h]
  | cons x xs ih =>
    have hx := hpre x (by simp)
    simp only [List.cons_append, overlap, hx, Bool.or_self, if_true]
    simp [ih (fun s hs => hpre s (by simp [hs]))]

/-- an index segment aliases every other index at that position: everything below overlaps -/
theorem index_overlaps (pre a b : List Seg) : overlap (pre ++ .idx :: a) (pre ++ .idx :: b) = true := by
  induction pre with
  | nil => simp [overlap]
  | cons x xs ih => simp only [List.cons_append, overlap]; split <;> simp [ih]

theorem overlaps_symm (p q : Place) : p.overlaps q = q.overlaps p := by
  unfold Place.overlaps
  rw [overlap_symm]
  by_cases h : p.base = q.base
  · simp [h]
  · have h' : ¬ q.base = p.base := fun e => h e.symm
    simp [h, h']

/-- aliasing XOR mutation on a loan list: two different loans on overlapping places are both shared -/
def AXM : List Loan → Prop
  | [] => True
  | l :: ls => (∀ m ∈ ls, l.place.overlaps m.place = true → l.isMut = false ∧ m.isMut = false) ∧ AXM ls

theorem axm_filter (p : Loan → Bool) (ls : List Loan) (h : AXM ls) : AXM (ls.filter p) := by
  induction ls with
  | nil => trivial
  | cons l rest ih =>
    obtain ⟨h1, h2⟩ := h
    simp only [List.filter_cons]
    split
    · exact ⟨fun m hm => h1 m (List.mem_filter.mp hm).1, ih h2⟩
    · exact ih h2

theorem axm_append_singleton (ls : List Loan) (n : Loan) (h : AXM ls)
    (hn : ∀ l ∈ ls, l.place.overlaps n.place = true → l.isMut = false ∧ n.isMut = false) : AXM (ls ++ [n]) := by
  induction ls with
  | nil => exact ⟨by simp, trivial⟩
  | cons l rest ih =>
    obtain ⟨h1, h2⟩ := h
    refine ⟨?_, ih h2 (fun m hm => hn m (by simp [hm]))⟩
    intro m hm
    rcases List.mem_append.mp hm with hm' | hm'
    · exact h1 m hm'
    · simp at hm'; subst hm'; exact hn l (by simp)

/-- a new loan that `borrowConflicts` lets through keeps the invariant -/
theorem axm_add (live : List Loan) (r : Nat) (p : Place) (m : Bool) (h : AXM live) (hc : borrowConflicts live p m = false) :
    AXM (live ++ [⟨r, p, m⟩]) := by
  apply axm_append_singleton live _ h
  intro l hl hov
  unfold borrowConflicts at hc
  rw [List.any_eq_false] at hc
  have := hc l hl
  simp only [hov, Bool.true_and, Bool.or_eq_true, not_or, Bool.not_eq_true] at this
  exact ⟨this.2, this.1⟩

/-- the state after event `k` of an accepted run: loans live when the remaining events start -/
def liveAfter : List Loan → List Event → Nat → List Loan
  | live, _, 0 => live
  | live, [], _ => live
  | live, e :: rest, k + 1 => liveAfter (expire (extend live e) rest) rest k

theorem axm_extend (live : List Loan) (e : Event) (h : AXM live) (hc : conflicts live e = false) : AXM (extend live e) := by
  cases e with
  | borrow r p m => exact axm_add live r p m h hc
  | use r => exact h
  | read p => exact h
  | write p => exact h
  | temp p m => exact h

/-- **Invariant**: in a run the checker accepts, the live loans satisfy aliasing-xor-mutation after every event. -/
theorem accepted_run_axm (i : Nat) (live : List Loan) (es : List Event) (h : AXM live) (hacc : check i live es = none) :
    ∀ k, AXM (liveAfter live es k) := by
  induction es generalizing i live with
  | nil => intro k; cases k <;> exact h
  | cons e rest ih =>
    intro k
    cases k with
    | zero => exact h
    | succ k =>
      simp only [check] at hacc
      by_cases hb : conflicts live e = true
      · simp [hb] at hacc
      · have hb' : conflicts live e = false := by simpa using hb
        simp only [hb', Bool.false_eq_true, if_false] at hacc
        simp only [liveAfter]
        exact ih (i + 1) _ (axm_filter _ _ (axm_extend live e h hb')) hacc k

/-- **Soundness of the access checks**: an accepted write touches no place under a live loan, an accepted read no
    place under a live mutable loan, an accepted mutable borrow no loaned place, an accepted shared borrow no
    mutably loaned place. -/
theorem accepted_event_respects_loans (i : Nat) (live : List Loan) (e : Event) (rest : List Event)
    (hacc : check i live (e :: rest) = none) :
    match e with
    | .write p => ∀ l ∈ live, l.place.overlaps p = false
    | .read p => ∀ l ∈ live, l.place.overlaps p = true → l.isMut = false
    | .borrow _ p m | .temp p m => ∀ l ∈ live, l.place.overlaps p = true → m = false ∧ l.isMut = false
    | .use _ => True := by
  simp only [check] at hacc
  by_cases hb : conflicts live e = true
  · simp [hb] at hacc
  · have hbad : conflicts live e = false := by simpa using hb
    cases e with
    | use r => trivial
    | write p =>
      simp only [conflicts, writeConflicts, List.any_eq_false] at hbad
      intro l hl; simpa using hbad l hl
    | read p =>
      simp only [conflicts, readConflicts, List.any_eq_false] at hbad
      intro l hl hov; have := hbad l hl; simpa [hov] using this
    | borrow r p m =>
      simp only [conflicts, borrowConflicts, List.any_eq_false] at hbad
      intro l hl hov; have := hbad l hl
      simp only [hov, Bool.true_and, Bool.or_eq_true, not_or, Bool.not_eq_true] at this
      exact this
    | temp p m =>
      simp only [conflicts, borrowConflicts, List.any_eq_false] at hbad
      intro l hl hov; have := hbad l hl
      simp only [hov, Bool.true_and, Bool.or_eq_true, not_or, Bool.not_eq_true] at this
      exact this

/-- a loan ends exactly when its reference has no later use: it is never dropped while the reference is still used -/
theorem expire_keeps_used (live : List Loan) (rest : List Event) (l : Loan) (hl : l ∈ live) (hu : usedLater l.ref rest = true) :
    l ∈ expire live rest := by
  simp [expire, hl, hu]

theorem expire_drops_unused (live : List Loan) (rest : List Event) (l : Loan) (hu : usedLater l.ref rest = false) :
    l ∉ expire live rest := by
  simp [expire, hu]

end FerretVerif.Borrow
