/-
  Proofs/LexTrivia.lean — whitespace and comments in front of a text do not change its significant tokens (C19).
-/
import FerretVerif.Proofs.Lexer

namespace FerretVerif.Lexer

/-- what the parser sees of a token list: kinds and values of the non-comment, non-EOF tokens -/
def sigOf (toks : List Tok) : List (Kind × List Byte) :=
  (toks.filter fun t => t.kind != .comment && t.kind != .eof).map fun t => (t.kind, t.text)

/-- the significant tokens of a source text -/
def sigs (T : Tables) (s : List Byte) : List (Kind × List Byte) := sigOf (lex T s).toks

theorem sigOf_append (a b : List Tok) : sigOf (a ++ b) = sigOf a ++ sigOf b := by
  simp [sigOf, List.filter_append]

/-- significant tokens do not depend on the start position -/
theorem sigOf_stepToks_pos (T : Tables) (p q : Pos) (s : List Byte) :
    sigOf (stepToks T p s) = sigOf (stepToks T q s) := by
  unfold stepToks
  cases (step T s).tok with
  | none => rfl
  | some kv =>
    obtain ⟨k, v⟩ := kv
    simp only [sigOf, List.filter]
    split <;> simp

theorem sigOf_lexLoop_pos (T : Tables) (fuel : Nat) (p q : Pos) (s : List Byte) :
    sigOf (lexLoop T fuel p s).toks = sigOf (lexLoop T fuel q s).toks := by
  induction fuel generalizing p q s with
  | zero => cases s <;> simp [lexLoop, sigOf]
  | succ f ih =>
    cases s with
    | nil => simp [lexLoop, sigOf]
    | cons c cs =>
      rw [lexLoop_succ_cons, lexLoop_succ_cons, sigOf_append, sigOf_append, sigOf_stepToks_pos T p q]
      congr 1
      exact ih _ _ _

/-- the significant tokens pushed by one iteration -/
def sigStep (T : Tables) (s : List Byte) : List (Kind × List Byte) := sigOf (stepToks T Pos.start s)

/-- **One-step unfolding**, free of fuel and positions. -/
theorem sigs_unfold (T : Tables) (hT : TablesOk T) (c : Byte) (cs : List Byte) :
    sigs T (c :: cs) = sigStep T (c :: cs) ++ sigs T ((c :: cs).drop (step T (c :: cs)).n) := by
  unfold sigs lex sigStep
  simp only [List.length_cons]
  rw [lexLoop_succ_cons, sigOf_append]
  congr 1
  have hlen := drop_step_length T hT c cs
  rw [lexLoop_fuel T hT cs.length _ _ hlen]
  exact sigOf_lexLoop_pos T _ _ _ _

theorem sigs_nil (T : Tables) : sigs T [] = [] := by
  simp [sigs, lex, lexLoop, sigOf]

theorem sigStep_comment (T : Tables) (x v : List Byte) (h : (step T x).tok = some (.comment, v)) : sigStep T x = [] := by
  unfold sigStep stepToks
  rw [h]
  simp [sigOf]

/-! ### white space -/

theorem scanWs_cons_space (w : Byte) (x : List Byte) (hw : isSpace w = true) :
    scanWs (w :: x) = some (1 + spanLen isSpace x) := by
  simp [scanWs, spanLen, hw]; omega

theorem step_ws (T : Tables) (w : Byte) (x : List Byte) (hw : isSpace w = true) :
    step T (w :: x) = ⟨1 + spanLen isSpace x, none, false⟩ := by
  unfold step
  rw [scanWs_cons_space w x hw]

theorem sigStep_ws (T : Tables) (w : Byte) (x : List Byte) (hw : isSpace w = true) : sigStep T (w :: x) = [] := by
  simp [sigStep, stepToks, step_ws T w x hw, sigOf]

theorem spanLen_drop (p : Byte → Bool) (x : List Byte) : spanLen p (x.drop (spanLen p x)) = 0 := by
  induction x with
  | nil => simp [spanLen]
  | cons c cs ih =>
    by_cases h : p c = true
    · simp only [spanLen, h, if_true, List.drop_succ_cons]; exact ih
    · simp [spanLen, h]

/-- leading white space is skipped -/
theorem sigs_drop_ws (T : Tables) (hT : TablesOk T) (x : List Byte) :
    sigs T (x.drop (spanLen isSpace x)) = sigs T x := by
  cases x with
  | nil => simp [spanLen]
  | cons c cs =>
    by_cases hc : isSpace c = true
    · rw [sigs_unfold T hT c cs, sigStep_ws T c cs hc, step_ws T c cs hc]
      simp only [List.nil_append, spanLen, hc, if_true]
      rw [Nat.add_comm]
    · simp [spanLen, hc]

theorem sigs_ws_cons (T : Tables) (hT : TablesOk T) (w : Byte) (x : List Byte) (hw : isSpace w = true) :
    sigs T (w :: x) = sigs T x := by
  rw [sigs_unfold T hT w x, sigStep_ws T w x hw, step_ws T w x hw]
  simp only [List.nil_append]
  rw [Nat.add_comm, List.drop_succ_cons]
  exact sigs_drop_ws T hT x

/-! ### comments -/

theorem findPair_append {a b : Byte} {u : List Byte} {k : Nat} (x : List Byte) (h : findPair a b u = some k) :
    findPair a b (u ++ x) = some k := by
  induction u generalizing k with
  | nil => simp [findPair] at h
  | cons c t ih =>
    cases t with
    | nil => simp [findPair] at h
    | cons d rest =>
      simp only [findPair] at h
      simp only [List.cons_append, findPair]
      split
      · rename_i hcd; simp only [hcd, if_true] at h; exact h
      · rename_i hcd
        simp only [hcd] at h
        simp only [Bool.false_eq_true, if_false, Option.map_eq_some_iff] at h
        obtain ⟨j, hj, rfl⟩ := h
        have := ih hj
        simp only [List.cons_append] at this
        rw [this]; rfl

theorem not_space_47 : isSpace 47 = false := by decide

theorem step_block (T : Tables) (body x : List Byte) (hb : findPair 42 47 (body ++ [42, 47]) = some body.length) :
    step T (47 :: 42 :: (body ++ [42, 47]) ++ x) =
      ⟨body.length + 4, some (.comment, commentText (47 :: 42 :: (body ++ [42, 47]))), false⟩ := by
  have hfp : findPair 42 47 ((body ++ [42, 47]) ++ x) = some body.length := findPair_append x hb
  have h1 : scanWs (47 :: 42 :: (body ++ [42, 47]) ++ x) = none := by
    simp [scanWs, spanLen, not_space_47]
  have h2 : scanLineComment (47 :: 42 :: (body ++ [42, 47]) ++ x) = none := by
    simp [scanLineComment]
  have h3 : scanBlockComment (47 :: 42 :: (body ++ [42, 47]) ++ x) = some (body.length + 4) := by
    simp only [List.cons_append, scanBlockComment, hfp, Option.map_some]
  unfold step
  rw [h1, h2, h3]
  simp only [Step.mk.injEq, Option.some.injEq, Prod.mk.injEq, true_and, and_true]
  congr 1
  have : (47 :: 42 :: (body ++ [42, 47]) ++ x).take (body.length + 4) = 47 :: 42 :: (body ++ [42, 47]) := by
    have hl : (47 :: 42 :: (body ++ [42, 47])).length = body.length + 4 := by simp
    rw [← hl, List.take_left']
    rfl
  rw [this]

theorem spanLen_append_stop (p : Byte → Bool) (body : List Byte) (c : Byte) (x : List Byte)
    (hb : ∀ b ∈ body, p b = true) (hc : p c = false) : spanLen p (body ++ c :: x) = body.length := by
  induction body with
  | nil => simp [spanLen, hc]
  | cons b bs ih =>
    have := hb b (by simp)
    simp only [List.cons_append, spanLen, this, if_true, List.length_cons]
    rw [ih (fun d hd => hb d (by simp [hd]))]

theorem step_line (T : Tables) (body x : List Byte) (hb : ∀ b ∈ body, b ≠ 10 ∧ b ≠ 13) :
    step T (47 :: 47 :: body ++ 10 :: x) = ⟨2 + body.length, some (.comment, commentText (47 :: 47 :: body)), false⟩ := by
  have h1 : scanWs (47 :: 47 :: body ++ 10 :: x) = none := by
    simp [scanWs, spanLen, not_space_47]
  have hs : spanLen (fun c => !(c = 10 || c = 13)) (body ++ 10 :: x) = body.length := by
    apply spanLen_append_stop
    · intro b hbm; have := hb b hbm; simp [this.1, this.2]
    · simp
  have h2 : scanLineComment (47 :: 47 :: body ++ 10 :: x) = some (2 + body.length) := by
    simp only [List.cons_append, scanLineComment, hs]
  unfold step
  rw [h1, h2]
  simp only [Step.mk.injEq, Option.some.injEq, Prod.mk.injEq, true_and, and_true]
  congr 1
  have hl : (47 :: 47 :: body).length = 2 + body.length := by simp; omega
  have : (47 :: 47 :: body ++ 10 :: x) = (47 :: 47 :: body) ++ 10 :: x := by simp
  rw [this, ← hl, List.take_left']
  rfl

/-! ### trivia -/

/-- White space and comments as the lexer sees them: white-space bytes, block comments `/* body */` whose first
    `*/` is the closing one, line comments `// body` terminated by a line feed. -/
inductive Trivia : List Byte → Prop
  | nil : Trivia []
  | ws (w : Byte) (t : List Byte) : isSpace w = true → Trivia t → Trivia (w :: t)
  | block (body t : List Byte) : findPair 42 47 (body ++ [42, 47]) = some body.length → Trivia t →
      Trivia (47 :: 42 :: (body ++ [42, 47]) ++ t)
  | line (body t : List Byte) : (∀ b ∈ body, b ≠ 10 ∧ b ≠ 13) → Trivia t → Trivia (47 :: 47 :: body ++ 10 :: t)

/-- **Leading trivia is inert**: any amount of white space and comments in front of ANY text leaves the
    significant tokens (kinds and values) of that text unchanged. -/
theorem leading_trivia_skipped (T : Tables) (hT : TablesOk T) {t : List Byte} (ht : Trivia t) :
    ∀ s : List Byte, sigs T (t ++ s) = sigs T s := by
  induction ht with
  | nil => intro s; rfl
  | ws w t hw _ ih =>
    intro s
    rw [List.cons_append, sigs_ws_cons T hT w _ hw]
    exact ih s
  | block body t hb _ ih =>
    intro s
    have hst := step_block T body (t ++ s) hb
    have e : (47 :: 42 :: (body ++ [42, 47]) ++ t) ++ s = 47 :: 42 :: (body ++ [42, 47]) ++ (t ++ s) := by simp
    rw [e]
    have e2 : (47 :: 42 :: (body ++ [42, 47]) ++ (t ++ s)) = 47 :: (42 :: (body ++ [42, 47]) ++ (t ++ s)) := by simp
    rw [e2, sigs_unfold T hT, ← e2, hst]
    have hsig : sigStep T (47 :: 42 :: (body ++ [42, 47]) ++ (t ++ s)) = [] :=
      sigStep_comment T _ _ (by rw [hst])
    rw [hsig]
    simp only [List.nil_append]
    have hl : (47 :: 42 :: (body ++ [42, 47])).length = body.length + 4 := by simp
    rw [← hl, List.drop_left']
    · exact ih s
    · rfl
  | line body t hb _ ih =>
    intro s
    have hst := step_line T body (t ++ s) hb
    have e : (47 :: 47 :: body ++ 10 :: t) ++ s = 47 :: 47 :: body ++ 10 :: (t ++ s) := by simp
    rw [e]
    have e2 : (47 :: 47 :: body ++ 10 :: (t ++ s)) = 47 :: (47 :: body ++ 10 :: (t ++ s)) := by simp
    rw [e2, sigs_unfold T hT, ← e2, hst]
    have hsig : sigStep T (47 :: 47 :: body ++ 10 :: (t ++ s)) = [] :=
      sigStep_comment T _ _ (by rw [hst])
    rw [hsig]
    simp only [List.nil_append]
    have hl : (47 :: 47 :: body).length = 2 + body.length := by simp; omega
    have e3 : (47 :: 47 :: body ++ 10 :: (t ++ s)) = (47 :: 47 :: body) ++ 10 :: (t ++ s) := by simp
    rw [e3, ← hl, List.drop_left']
    · rw [sigs_ws_cons T hT 10 _ (by decide)]
      exact ih s
    · rfl

end FerretVerif.Lexer
