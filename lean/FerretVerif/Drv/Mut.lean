/- Drv/Mut.lean — `fvdriver mut`: `<root> <path: f|i|p letters or -> <form>` (F/I: field / element holding `&T`, G/J: holding `&'T`) → `<implRejects> <mustReject>` -/
import FerretVerif.Model.Mut
import FerretVerif.Drv.Util
namespace FerretVerif.Drv
open FerretVerif.Mut

def rootOf? : String → Option Root
  | "let" => some .letV | "const" => some .constV | "forindex" => some .forIndex | "catcherr" => some .catchErr
  | "param_val" => some .paramVal | "param_ref" => some .paramRef | "param_mut" => some .paramMut
  | "recv_val" => some .recvVal | "recv_ref" => some .recvRef | "recv_mut" => some .recvMut
  | "local_ref" => some .localRef | "local_mut" => some .localMut | _ => none
def formOf? : String → Option Form
  | "assign" => some .assign | "compound" => some .compound | "incdec" => some .incDec
  | "mutborrow" => some .mutBorrow | "passmut" => some .passMut | "mutmethod" => some .callMutMethod | _ => none
/-- path letters, OUTERMOST segment first (as `Chain.ofPath` expects) -/
def pathOf? (s : String) : Option (List Seg) :=
  if s == "-" then some [] else s.toList.mapM fun c =>
    if c == 'f' then some (.fld .val) else if c == 'i' then some (.idx .val) else if c == 'p' then some .paren
    else if c == 'F' then some (.fld .imm) else if c == 'I' then some (.idx .imm)       -- the step yields an immutable reference
    else if c == 'G' then some (.fld .mut) else if c == 'J' then some (.idx .mut)       -- … a mutable reference
    else none

def cmdMut (l : String) : String :=
  match fields l with
  | [r, p, f] => match rootOf? r, pathOf? p, formOf? f with
    | some r, some p, some f => s!"{implRejects r p f} {mustReject r p}"
    | _, _, _ => "bad-op"
  | _ => "bad-op"
end FerretVerif.Drv
