/- Drv/Diag.lean — `fvdriver diag-bag | diag-sort`: same protocol as gohook (see harness/gohook/sub_diag.go) -/
import FerretVerif.Model.Diag
import FerretVerif.Drv.Util

namespace FerretVerif.Drv
open FerretVerif.Diag

def parseDiag? (tok : String) : Option D :=
  match tok.splitOn ":" with
  | [sv, hl, nl, file, line, col, id] =>
    let sev? : Option Sev := match sv with
      | "e" => some .error | "w" => some .warning | "i" => some .info | "h" => some .hint | _ => none
    match sev?, line.toNat?, col.toNat?, id.toNat? with
    | some sev, some l, some c, some i =>
      let fileBytes := if file == "-" then [] else file.toUTF8.toList.map (·.toNat)
      -- order-preserving number: big-endian value of the name padded to 48 bytes (names in the protocol are shorter, no NUL)
      let padded := (fileBytes ++ List.replicate (48 - fileBytes.length) 0).take 48
      let fk := padded.foldl (fun acc b => acc * 256 + b) 0
      some ⟨sev, hl == "1", nl == "1", fk, l, c, i⟩
    | _, _, _, _ => none
  | _ => none

def parseDiags? (l : String) : Option (List D) :=
  (fields l).foldr (fun t acc => match parseDiag? t, acc with
    | some d, some ds => some (d :: ds)
    | _, _ => none) (some [])

def cmdDiagBag (l : String) : String :=
  match parseDiags? l with
  | some ds =>
    -- the bag protocol strips the labels before adding (counters do not look at them)
    let b := addAll Bag.empty ds
    s!"errors={b.errorCount} warnings={b.warnCount} has={b.hasErrors} len={b.diags.length} printed_errors={b.printedErrors.length} failed_line={b.exitStatus != 0}"
  | none => "bad-op"

def cmdDiagSort (l : String) : String :=
  match parseDiags? l with
  | some ds => " ".intercalate ((sortDiags ds).map fun d => toString d.id)
  | none => "bad-op"

end FerretVerif.Drv
