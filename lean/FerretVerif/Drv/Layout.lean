/- Drv/Layout.lean — `fvdriver layout`: `<ps> <type expr in prefix notation>` → `<size> <align> [offsets…] [tag n] [flag n]` -/
import FerretVerif.Model.Layout
import FerretVerif.Drv.Util

namespace FerretVerif.Drv
open FerretVerif.Layout

/-- parser with fuel; returns the type and the remaining tokens -/
def parseTy : Nat → List String → Option (Ty × List String)
  | 0, _ => none
  | _, [] => none
  | fuel + 1, t :: rest =>
    if t == "b" || t == "y" then some (.prim 1, rest)
    else if t == "P" || t == "R" || t == "W" || t == "D" || t == "M" || t == "I0" then some (.ptr, rest)
    else if t == "I1" then some (.iface2, rest)
    else if t == "O" then (parseTy fuel rest).map fun (i, r) => (.opt i, r)
    else if t == "E" then
      match parseTy fuel rest with
      | some (o, r) => (parseTy fuel r).map fun (e, r') => (.res o e, r')
      | none => none
    else if t.startsWith "p" || t.startsWith "f" then
      match (t.drop 1).toNat? with
      | some n => some (.prim n, rest)
      | none => none
    else if t.startsWith "A" then
      match (t.drop 1).toNat? with
      | some n => (parseTy fuel rest).map fun (e, r) => (.arr e n, r)
      | none => none
    else if t.startsWith "S" then
      match (t.drop 1).toNat? with
      | some k =>
        let rec fieldsLoop : Nat → List String → List Ty → Option (List Ty × List String)
          | 0, r, acc => some (acc.reverse, r)
          | k + 1, r, acc =>
            match parseTy fuel r with
            | some (f, r') => fieldsLoop k r' (f :: acc)
            | none => none
        (fieldsLoop k rest []).map fun (fs, r) => (.struct fs, r)
      | none => none
    else none

def cmdLayout (l : String) : String :=
  match fields l with
  | pss :: toks =>
    match pss.toNat?, parseTy 200 toks with
    | some ps, some (t, []) =>
      let base := s!"{sizeOf ps t} {alignOf ps t}"
      match t with
      | .struct fs => (fieldOffsets ps fs 0).foldl (fun acc o => acc ++ s!" {o}") base
      | .res o e => base ++ s!" tag {resTagOff ps o e}"
      | .opt i => base ++ s!" flag {optFlagOff ps i}"
      | _ => base
    | _, _ => "bad-op"
  | _ => "bad-op"

end FerretVerif.Drv
