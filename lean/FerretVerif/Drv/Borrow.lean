/- Drv/Borrow.lean — `fvdriver borrow`: events `B<r>:<base>:<path>:<m|s>` `U<r>` `R<base>:<path>` `W<base>:<path>` `T<base>:<path>:<m|s>`
   (path = `-` or dot-separated segments, a number = field, `i` = index) → `accept` | `reject <event index>` -/
import FerretVerif.Model.Borrow
import FerretVerif.Drv.Util
namespace FerretVerif.Drv
open FerretVerif.Borrow

def parsePath? (s : String) : Option (List Seg) :=
  if s == "-" then some [] else
  (s.splitOn ".").mapM fun t => if t == "i" then some Seg.idx else t.toNat?.map Seg.fld

def parseEvent? (t : String) : Option Event :=
  let k := String.ofList (t.toList.take 1)
  let body := (String.ofList (t.toList.drop 1)).splitOn ":"
  match k, body with
  | "B", [r, b, p, m] => do pure (.borrow (← r.toNat?) ⟨← b.toNat?, ← parsePath? p⟩ (m == "m"))
  | "U", [r] => do pure (.use (← r.toNat?))
  | "R", [b, p] => do pure (.read ⟨← b.toNat?, ← parsePath? p⟩)
  | "W", [b, p] => do pure (.write ⟨← b.toNat?, ← parsePath? p⟩)
  | "T", [b, p, m] => do pure (.temp ⟨← b.toNat?, ← parsePath? p⟩ (m == "m"))
  | _, _ => none

def cmdBorrow (l : String) : String :=
  match (fields l).mapM parseEvent? with
  | some es => match check 0 [] es with
    | none => "accept"
    | some i => s!"reject {i}"
  | none => "bad-op"
end FerretVerif.Drv
