/- Drv/Borrow.lean — `fvdriver borrow`: events `B<r>:<base>:<path>:<m|s>` `U<r>` `R<base>:<path>` `W<base>:<path>` `T<base>:<path>:<m|s>`
   (path = `-` or dot-separated segments, a number = field, `i` = index) → `accept` | `reject <event index>` -/
import FerretVerif.Model.Borrow
import FerretVerif.Drv.Util
namespace FerretVerif.Drv
open FerretVerif.Borrow

def parsePath? (s : String) : Option (List Seg) :=
  if s == "-" then some [] else
  (s.splitOn ".").mapM fun t => if t == "i" then some Seg.idx else t.toNat?.map Seg.fld

def parseEvent? (t : String) : Option Event :=
  let k := String.ofList (t.toList.take 1)
  let body := (String.ofList (t.toList.drop 1)).splitOn ":"
  match k, body with
  | "B", [r, b, p, m] => do pure (.borrow (← r.toNat?) ⟨← b.toNat?, ← parsePath? p⟩ (m == "m"))
  | "U", [r] => do pure (.use (← r.toNat?))
  | "R", [b, p] => do pure (.read ⟨← b.toNat?, ← parsePath? p⟩)
  | "W", [b, p] => do pure (.write ⟨← b.toNat?, ← parsePath? p⟩)
  | "T", [b, p, m] => do pure (.temp ⟨← b.toNat?, ← parsePath? p⟩ (m == "m"))
  | _, _ => none

def cmdBorrow (l : String) : String :=
  match (fields l).mapM parseEvent? with
  | some es => match check 0 [] es with
    | none => "accept"
    | some i => s!"reject {i}"
  | none => "bad-op"
/-- `fvdriver retlife`: `<b|i> <var>` with var = `q`* followed by L (local value) | V (by-value parameter) | R (reference parameter)
    → `<retRejects> <dangling>` -/
def parseRVar? (s : String) : Option RVar :=
  let rec go : List Char → Option RVar
    | ['L'] => some .localVal
    | ['V'] => some .paramVal
    | ['R'] => some .paramRef
    | 'q' :: r => (go r).map .refTo
    | _ => none
  go s.toList

def cmdRetLife (l : String) : String :=
  match fields l with
  | [f, v] =>
    match parseRVar? v with
    | some v =>
      let form? : Option RetForm := if f == "b" then some (.borrow v) else if f == "i" then some (.ident v) else none
      match form? with
      | some form => s!"{retRejects form} {form.dangling}"
      | none => "bad-op"
    | none => "bad-op"
  | _ => "bad-op"

end FerretVerif.Drv
