import FerretVerif.Model.WasmAlloc
import FerretVerif.Drv.Util
namespace FerretVerif.Drv
open FerretVerif.WasmAlloc

/-- `fvdriver walloc`: one line = one runtime instance: `<dataEnd> <pages> <size> <size> …`
    -> for each allocation `addr:memBytes:ok` (ok = the block's last byte can be written), joined by spaces -/
def cmdWalloc (l : String) : String :=
  match (fields l).map String.toNat? with
  | some d :: some p :: sizes =>
    if sizes.any Option.isNone then "bad-op" else
    let rec go (s : St) : List Nat → List String
      | [] => []
      | n :: ns =>
        let (s', a) := alloc s n
        s!"{a}:{s'.mem}:{if a + n ≤ s'.mem then "ok" else "oob"}" :: go s' ns
    " ".intercalate (go (bind d p) (sizes.filterMap id))
  | _ => "bad-op"
end FerretVerif.Drv
