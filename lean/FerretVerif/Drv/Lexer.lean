/- Drv/Lexer.lean — `fvdriver lex`: same protocol as gohook lex (hex source → tokens | errs) -/
import FerretVerif.Model.Lexer
import FerretVerif.Gen.LexTables
import FerretVerif.Drv.Util

namespace FerretVerif.Drv
open FerretVerif.Lexer

def bytesToHex (bs : List Nat) : String :=
  String.ofList (bs.flatMap fun c => [hexChar (c / 16 % 16), hexChar (c % 16)])

def hexToBytes? (s : String) : Option (List Nat) := (hexToChars? s).map (·.map Char.toNat)

def strBytes (s : String) : List Nat := s.toUTF8.toList.map (·.toNat)

def kindName (t : Tok) : List Nat :=
  match t.kind with
  | .ident => strBytes "identifier"
  | .keyword => t.text
  | .number => strBytes "numeric literal"
  | .string => strBytes "string literal"
  | .byte => strBytes "byte literal"
  | .comment => strBytes "comment"
  | .op => t.text
  | .eof => strBytes "end_of_file"

def showPos (p : Pos) : String := s!"{p.line}.{p.col}.{p.idx}"

def lexTables : Tables := ⟨FerretVerif.Gen.lexOps, FerretVerif.Gen.lexKeywords⟩

def cmdLex (l : String) : String :=
  match fields l with
  | [h] =>
    match (if h == "-" then some [] else hexToBytes? h) with
    | some src =>
      let r := lex lexTables src
      let ts := r.toks.map fun t => s!"{bytesToHex (kindName t)},{bytesToHex t.text},{showPos t.start},{showPos t.stop};"
      s!"{String.join ts} | errs={r.errs}"
    | none => "bad-op"
  | _ => "bad-op"

end FerretVerif.Drv
