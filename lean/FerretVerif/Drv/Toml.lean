/- Drv/Toml.lean — `fvdriver toml-*` line protocol over Model/Toml.lean -/
import FerretVerif.Model.Toml
import FerretVerif.Drv.Util

namespace FerretVerif.Drv
open FerretVerif.Toml

def unhexOpt (s : String) : Option (List Char) :=
  if s == "-" then some [] else
  -- bytes → UTF-8 decode
  match hexToNat? ("0" ++ s) with
  | none => none
  | some _ =>
    let rec bytes : List Char → Option (List UInt8)
      | [] => some []
      | [_] => none
      | a :: b :: r => match hexDigit? a, hexDigit? b, bytes r with
        | some x, some y, some rest => some (UInt8.ofNat (x * 16 + y) :: rest)
        | _, _, _ => none
    match bytes s.toList with
    | none => none
    | some bs => (String.fromUTF8? (ByteArray.mk bs.toArray)).map String.toList

def hexOfChars (cs : List Char) : String :=
  let bs := (String.ofList cs).toUTF8
  if bs.size == 0 then "-" else
  String.ofList (bs.toList.flatMap fun b => [hexChar (b.toNat / 16), hexChar (b.toNat % 16)])

def hexOfChars0 (cs : List Char) : String :=
  let bs := (String.ofList cs).toUTF8
  String.ofList (bs.toList.flatMap fun b => [hexChar (b.toNat / 16), hexChar (b.toNat % 16)])

/-- approximation of "strconv.ParseFloat(s, 64) succeeds" on the generated domain:
    sign? (inf|infinity|nan | decimal mantissa with ≥1 digit, optional exponent); no range errors considered -/
def pfApprox (s : List Char) : Bool :=
  let s := match s with | '+' :: r => r | '-' :: r => r | r => r
  let low := s.map Char.toLower
  if low == "inf".toList || low == "infinity".toList || low == "nan".toList then
    -- "nan" takes no sign in Go? it does accept a sign for inf only; handled by the caller's domain
    true
  else
    let ip := s.takeWhile isDigit
    let r := s.dropWhile isDigit
    let (fp, r) := match r with
      | '.' :: r' => (r'.takeWhile isDigit, r'.dropWhile isDigit)
      | _ => ([], r)
    if ip.isEmpty && fp.isEmpty then false
    else match r with
      | [] => true
      | e :: r' =>
        if e == 'e' || e == 'E' then
          let r'' := match r' with | '+' :: x => x | '-' :: x => x | x => x
          !r''.isEmpty && r''.all isDigit
        else false

def showP : PVal → String
  | .str s => "str:" ++ hexOfChars0 s
  | .bool b => s!"bool:{b}"
  | .int i => s!"int:{i}"
  | .float t => "floattext:" ++ hexOfChars0 t

def sortStrs (l : List (String × String)) : List (String × String) :=
  (l.toArray.qsort (fun a b => a.1 < b.1)).toList

def dumpData (d : Data) : String :=
  let secs := sortStrs (d.map fun (n, t) =>
    (hexOfChars0 n, (sortStrs (t.map fun (k, v) => (hexOfChars0 k, showP v))).foldl (fun acc (k, v) => acc ++ " " ++ k ++ "=" ++ v) ""))
  " ;".intercalate (secs.map fun (n, body) => "[" ++ n ++ "]" ++ body)

def decodeW (kind h : String) : Option WVal :=
  match unhexOpt h with
  | none => none
  | some cs =>
    match kind with
    | "s" => some (.str cs)
    | "b" => some (.bool (cs == ['1']))
    | "i" => (String.ofList cs).toInt?.map .int
    | "f" => some (.float cs)      -- the FormatFloat raw text
    | _ => none

def cmdTomlFmt (l : String) : String :=
  match fields l with
  | [k, h] => match decodeW k h with
    | some v => hexOfChars (formatValue v)
    | none => "bad-op"
  | _ => "bad-op"

def cmdTomlParseVal (l : String) : String :=
  match fields l with
  | [h] => match unhexOpt h with
    | some cs => showP (parseValue pfApprox cs)
    | none => "bad-utf8"
  | _ => "bad-op"

def cmdTomlStrip (l : String) : String :=
  match fields l with
  | [h] => match unhexOpt h with
    | some cs => hexOfChars (stripInlineComment cs)
    | none => "bad-utf8"
  | _ => "bad-op"

def cmdTomlFile (l : String) : String :=
  match fields l with
  | [h] => match unhexOpt h with
    | some cs => match parseFile pfApprox cs with
      | some d => "ok " ++ dumpData d
      | none => "err"
    | none => "bad-utf8"
  | _ => "bad-op"

/-- toml-rt: items `sec:key:kind:hex` (float items carry the FormatFloat raw text) →
    `equal|diff <hex written>` comparing parse(write data) with the expected read-back -/
def cmdTomlRt (l : String) : String :=
  let items := fields l
  let parsed := items.map fun it =>
    match it.splitOn ":" with
    | [s, k, kind, h] => match unhexOpt s, unhexOpt k, decodeW kind h with
      | some s, some k, some v => some (s, k, v)
      | _, _, _ => none
    | _ => none
  if parsed.any Option.isNone then "bad-op" else
  let triples := parsed.filterMap id
  -- group by section, later duplicates of a key override earlier ones (Go map semantics)
  let secs : List (List Char) := triples.foldl (fun acc (s, _, _) => if acc.contains s then acc else acc ++ [s]) []
  let data := secs.map fun s =>
    let es := (triples.filter (·.1 == s)).map fun (_, k, v) => (k, v)
    let dedup := es.foldl (fun acc (k, v) => (acc.filter (·.1 != k)) ++ [(k, v)]) []
    (s, dedup)
  let written := writeFile data
  match parseFile pfApprox written with
  | none => "parse-err " ++ hexOfChars written
  | some back =>
    let expect : Data := (data.filter (fun (_, es) => !es.isEmpty)).map fun (s, es) => (s, es.map fun (k, v) => (k, expectRead v))
    -- only sections the writer knows are written
    let expectKnown := expect.filter fun (s, _) => sectionOrder.contains s
    if dumpData back == dumpData expectKnown && expectKnown.length == expect.length then "equal " ++ hexOfChars written
    else "diff " ++ hexOfChars written ++ " " ++ dumpData back

end FerretVerif.Drv
