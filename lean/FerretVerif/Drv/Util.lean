/- Drv/Util.lean — helpers for the line-protocol driver (core-only). -/
namespace FerretVerif.Drv

def fields (l : String) : List String := (l.splitOn " ").filter (· ≠ "")

def hexDigit? (c : Char) : Option Nat :=
  if '0' ≤ c ∧ c ≤ '9' then some (c.toNat - 48)
  else if 'a' ≤ c ∧ c ≤ 'f' then some (10 + c.toNat - 97)
  else if 'A' ≤ c ∧ c ≤ 'F' then some (10 + c.toNat - 65)
  else none

def hexToNat? (s : String) : Option Nat :=
  if s.isEmpty then none else
  s.toList.foldl (fun acc c => match acc, hexDigit? c with
    | some a, some d => some (a * 16 + d)
    | _, _ => none) (some 0)

def hexChar (d : Nat) : Char := if d < 10 then Char.ofNat (48 + d) else Char.ofNat (87 + d)

/-- fixed-width lowercase hex, `digits` nibbles -/
def natToHex (digits : Nat) (v : Nat) : String :=
  String.ofList ((List.range digits).reverse.map fun i => hexChar ((v / 16 ^ i) % 16))

/-- hex-encoded bytes → chars (bytes < 128 expected; others mapped through Char.ofNat) -/
def hexToChars? (s : String) : Option (List Char) :=
  let rec go : List Char → Option (List Char)
    | [] => some []
    | [_] => none
    | a :: b :: rest => match hexDigit? a, hexDigit? b, go rest with
      | some x, some y, some r => some (Char.ofNat (x * 16 + y) :: r)
      | _, _, _ => none
  go s.toList

def charsToHex (cs : List Char) : String :=
  String.ofList (cs.flatMap fun c => [hexChar (c.toNat / 16 % 16), hexChar (c.toNat % 16)])

def intOfString? (s : String) : Option Int := s.toInt?

end FerretVerif.Drv
