/- Drv/Cfg.lean — `fvdriver cfg`: `(body stmt…)` → `<implAllPathsReturn> <canFallOff> <wf>` -/
import FerretVerif.Model.Cfg
import FerretVerif.Core.SExp
import FerretVerif.Drv.Util

namespace FerretVerif.Drv
open FerretVerif.Cfg FerretVerif.Core

partial def decCfgStmt : SExp → Option Cfg.Stmt
  | .list [.atom "P"] => some .plain
  | .list [.atom "R"] => some .ret
  | .list [.atom "B"] => some .brk
  | .list [.atom "C"] => some .cont
  | .list [.atom "if", .list a, .list b] => do some (.ifS (← a.mapM decCfgStmt) (some (← b.mapM decCfgStmt)))
  | .list [.atom "ifn", .list a] => do some (.ifS (← a.mapM decCfgStmt) none)
  | .list (.atom "while" :: .atom t :: body) => do some (.whileS (t == "T") (← body.mapM decCfgStmt))
  | .list (.atom "for" :: body) => do some (.forS (← body.mapM decCfgStmt))
  | .list (.atom "match" :: .atom d :: .atom e :: cases) => do
    let cs ← cases.mapM fun
      | .list (.atom "case" :: body) => body.mapM decCfgStmt
      | _ => none
    some (.matchS cs (d == "D") (e == "E"))
  | .list (.atom "block" :: body) => do some (.block (← body.mapM decCfgStmt))
  | _ => none

def cmdCfg (l : String) : String :=
  match readS l with
  | some (.list (.atom "body" :: ss)) =>
    match ss.mapM decCfgStmt with
    | some b => s!"{implAllPathsReturn b} {canFallOff b} {wfL false b} {analysed .func} {analysed .method} {analysed .funcLit}"
    | none => "bad-ast"
  | _ => "bad-sexp"

/-- `fvdriver cfg-covers`: `<n> <i,j,…|->` → matchCoversEnum of the enum V0…V(n-1) against arms Vi, Vj, … -/
def cmdCfgCovers (l : String) : String :=
  match fields l with
  | [n, arms] =>
    match n.toNat?, (if arms == "-" then some [] else (arms.splitOn ",").mapM String.toNat?) with
    | some n, some as => toString (matchCoversEnum ((List.range n).map fun i => s!"V{i}") (as.map fun i => s!"V{i}"))
    | _, _ => "bad-op"
  | _ => "bad-op"

end FerretVerif.Drv
