/- Drv/Visibility.lean — `fvdriver is-exported`: `<hex name or ->` → true|false -/
import FerretVerif.Model.Visibility
import FerretVerif.Drv.Util
namespace FerretVerif.Drv
open FerretVerif.Visibility

def cmdIsExported (l : String) : String :=
  match fields l with
  | [h] =>
    match (if h == "-" then some [] else (hexToChars? h).map (·.map Char.toNat)) with
    | some bs => toString (isExported bs)
    | none => "bad-op"
  | _ => "bad-op"
end FerretVerif.Drv
