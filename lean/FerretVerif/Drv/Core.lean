/- Drv/Core.lean — `fvdriver core`: one S-expression program per line →
   `ok <hex .fer text> <term> <hex of output lines joined by \n>` | `bad-sexp` | `bad-ast` -/
import FerretVerif.Core.SExp
import FerretVerif.Core.Print
import FerretVerif.Core.Eval
import FerretVerif.Drv.Util

namespace FerretVerif.Drv
open FerretVerif.Core

def hexOfString (s : String) : String :=
  let bs := s.toUTF8
  if bs.size == 0 then "-" else
  String.ofList (bs.toList.flatMap fun b => [hexChar (b.toNat / 16), hexChar (b.toNat % 16)])

def cmdCore (fuel : Nat) (l : String) : String :=
  match readS l with
  | none => "bad-sexp"
  | some sx =>
    match decProgram sx with
    | none => "bad-ast"
    | some p =>
      let o := run p fuel
      let term := o.term.replace " " "_"
      s!"ok {hexOfString p.show} {term} {hexOfString ("\n".intercalate o.lines)} {o.lines.length}"

end FerretVerif.Drv
