/- Drv/RtMap.lean — `fvdriver rt`: stateful line protocol over Model/RtMap.lean (same lines as harness/crt/rt_harness.c) -/
import FerretVerif.Model.RtMap
import FerretVerif.Drv.Util

namespace FerretVerif.Drv
open FerretVerif.RtMap

abbrev Key := List Nat

structure RtState where
  map : Option (Map Key String) := none
  ksize : Nat := 0          -- 0 = str (variable length)
  vsize : Nat := 0
  arr : Option (Arr String) := none
  esize : Nat := 0

def hexBytes? (s : String) : Option (List Nat) :=
  if s == "-" then some [] else
  let rec go : List Char → Option (List Nat)
    | [] => some []
    | [_] => none
    | a :: b :: r => match hexDigit? a, hexDigit? b, go r with
      | some x, some y, some rest => some ((x * 16 + y) :: rest)
      | _, _, _ => none
  go s.toList

def bytesHex (bs : List Nat) : String :=
  if bs.isEmpty then "-" else String.ofList (bs.flatMap fun b => [hexChar (b / 16), hexChar (b % 16)])

/-- pad / truncate to n bytes (the harness zero-fills a buffer of exactly n bytes) -/
def fit (n : Nat) (bs : List Nat) : List Nat := (bs ++ List.replicate n 0).take n

def kindSize (k : String) : Nat :=
  if k == "i32" then 4 else if k == "i64" then 8 else if k == "str" then 0 else (k.drop 1).toNat?.getD 0

def mkKey (st : RtState) (h : String) : Option Key :=
  (hexBytes? h).map fun bs => if st.ksize == 0 then bs else fit st.ksize bs

def hashKey (k : Key) : Nat := fnv1a k

def showVal (st : RtState) (v : String) : String := if st.vsize == 0 then "-" else v

def stepRt (st : RtState) (l : String) : RtState × String :=
  match fields l with
  | ["mnew", k, vs] => ({ st with map := some new, ksize := kindSize k, vsize := vs.toNat?.getD 0 }, "ok")
  | ["mfrom", k, vs, items] =>
    let st := { st with ksize := kindSize k, vsize := vs.toNat?.getD 0 }
    let parsed := if items == "-" then some [] else (items.splitOn ",").mapM fun it =>
      match it.splitOn "=" with
      | [kh, vh] => match mkKey st kh, hexBytes? vh with
        | some key, some v => some (key, bytesHex (fit st.vsize v))
        | _, _ => none
      | _ => none
    match parsed with
    | some ps => ({ st with map := some (fromPairs hashKey ps) }, "ok")
    | none => (st, "bad-op")
  | ["mset", kh, vh] =>
    match st.map, mkKey st kh, hexBytes? vh with
    | some m, some k, some v => ({ st with map := some (set hashKey m k (bytesHex (fit st.vsize v))) }, "ok")
    | _, _, _ => (st, "bad-op")
  | ["mget", kh] =>
    match st.map, mkKey st kh with
    | some m, some k => (st, match get hashKey m k with | some v => v | none => "absent")
    | _, _ => (st, "bad-op")
  | ["mopt", kh] =>
    match st.map, mkKey st kh with
    | some m, some k => (st, match get hashKey m k with | some v => "some " ++ v | none => "none")
    | _, _ => (st, "bad-op")
  | ["mhas", kh] =>
    match st.map, mkKey st kh with
    | some m, some k => (st, if has hashKey m k then "true" else "false")
    | _, _ => (st, "bad-op")
  | ["msize"] => match st.map with
    | some m => (st, toString m.size)
    | none => (st, "bad-op")
  | ["miter"] => match st.map with
    | some m =>
      let es := iterate m
      (st, if es.isEmpty then "-" else ",".intercalate (es.map fun (k, v) => bytesHex k ++ "=" ++ v))
    | none => (st, "bad-op")
  | ["anew", es, cap] => ({ st with arr := some (Arr.new (cap.toInt?.getD 0).toNat), esize := es.toNat?.getD 0 }, "ok")
  | ["aapp", h] => match st.arr, hexBytes? h with
    | some a, some v => ({ st with arr := some (a.append (bytesHex (fit st.esize v))) }, "ok")
    | _, _ => (st, "bad-op")
  | ["aget", i] => match st.arr, i.toInt? with
    | some a, some i => (st, match a.get i with | some v => v | none => "refused")
    | _, _ => (st, "bad-op")
  | ["aset", i, h] => match st.arr, i.toInt?, hexBytes? h with
    | some a, some i, some v =>
      let (a', ok) := a.set i (bytesHex (fit st.esize v))
      ({ st with arr := some a' }, if ok then "ok" else "refused")
    | _, _, _ => (st, "bad-op")
  | ["alen"] => match st.arr with
    | some a => (st, s!"{a.len} {a.capacity}")
    | none => (st, "bad-op")
  | _ => (st, "bad-op")

end FerretVerif.Drv
