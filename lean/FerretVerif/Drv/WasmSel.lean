/- Drv/WasmSel.lean — `fvdriver wasm-row`:
     `<kind> <op> <sbits> <ssigned 0|1> <dbits> <dsigned 0|1> <nparams> <nlocals> <a[,b]> | <tok> <tok> …`
     (tok: gN local.get, sN local.set, cwN i32.const, clN i64.const, o:<name> numeric instruction, r return)
   → `<shape ok|other> <spec value|none> <value of the stack code|none>`, values read at the result type. -/
import FerretVerif.Model.WasmSem
import FerretVerif.Drv.QbeSel
namespace FerretVerif.Drv
open FerretVerif.QbeSem FerretVerif.WasmSem

def parseWTok (s : String) : Option WIns :=
  match s.toList with
  | ['r'] => some .ret
  | 'g' :: r => (String.ofList r).toNat?.map .get
  | 's' :: r => (String.ofList r).toNat?.map .set
  | 'c' :: 'w' :: r => (String.ofList r).toNat?.map (.const .w)
  | 'c' :: 'l' :: r => (String.ofList r).toNat?.map (.const .l)
  | 'o' :: ':' :: r => some (.op (String.ofList r))
  | _ => none

def cmdWasmRow (l : String) : String :=
  match l.splitOn "|" with
  | [hd, body] =>
    match fields hd with
    | [k, op, sb, ss, db, ds, np, nl, args] =>
      let code? := (fields body).mapM parseWTok
      let args? := (args.splitOn ",").mapM intOfString?
      match parseQKind k, sb.toNat?, db.toNat?, np.toNat?, nl.toNat?, code?, args? with
      | some kind, some sb, some db, some np, some nl, some code, some as =>
        let r : WRow := ⟨kind, op, ⟨sb, ss == "1"⟩, ⟨db, ds == "1"⟩, np, nl, code⟩
        let q : Row := ⟨kind, op, r.src, r.dst, []⟩
        let shape := if wrowOk r then "ok" else "other"
        s!"{shape} {showQ q (r.spec as)} {showQ q (wrun r.code (as.map (canon r.src)) r.nlocals)}"
      | _, _, _, _, _, _, _ => "bad-op"
    | _ => "bad-op"
  | _ => "bad-op"
end FerretVerif.Drv
