/- Drv/QbeSel.lean — `fvdriver qbe-row`:
     `<kind> <op> <sbits> <ssigned 0|1> <dbits> <dsigned 0|1> <a[,b]> | <cls> <op> <arg> <arg> ; …`   (arg: pN | tN | lN)
   → `<shape ok|other> <spec value|none> <exec value|none>`: the value the row must produce on those arguments (rowSpec) and the
   value its instruction sequence produces in the QBE semantics of Model/QbeSem, both read as a value of the result type. -/
import FerretVerif.Model.QbeSem
import FerretVerif.Drv.Util
namespace FerretVerif.Drv
open FerretVerif.QbeSem

def parseQArg (s : String) : Option Arg :=
  match s.toList with
  | 'p' :: r => (String.ofList r).toNat?.map .param
  | 't' :: r => (String.ofList r).toNat?.map .tmp
  | 'l' :: r => (String.ofList r).toNat?.map .lit
  | _ => none

def parseQCls : String → Option Cls
  | "w" => some .w
  | "l" => some .l
  | _ => none

def parseQIns (s : String) : Option Ins :=
  match fields s with
  | [c, o, a, b] => do pure ⟨← parseQCls c, o, ← parseQArg a, ← parseQArg b⟩
  | _ => none

def parseQKind : String → Option Kind
  | "bin" => some .bin
  | "cmp" => some .cmp
  | "neg" => some .neg
  | "cast" => some .cast
  | _ => none

/-- reads a temporary as a value of the row's result type (comparisons: the raw 0/1) -/
def decodeQ (r : Row) (x : Nat) : Int :=
  match r.kind with
  | .cmp => x
  | _ => if r.dst.signed then sx r.dst.cls x else x

def showQ (r : Row) : Option Nat → String
  | none => "none"
  | some x => toString (decodeQ r x)

def cmdQbeRow (l : String) : String :=
  match l.splitOn "|" with
  | [hd, body] =>
    match fields hd with
    | [k, op, sb, ss, db, ds, args] =>
      let seq? := ((body.splitOn ";").filter (fun s => (fields s) ≠ [])).mapM parseQIns
      let args? := (args.splitOn ",").mapM intOfString?
      match parseQKind k, sb.toNat?, db.toNat?, seq?, args? with
      | some kind, some sb, some db, some seq, some as =>
        let r : Row := ⟨kind, op, ⟨sb, ss == "1"⟩, ⟨db, ds == "1"⟩, seq⟩
        let shape := if rowOk r then "ok" else "other"
        s!"{shape} {showQ r (rowSpec r as)} {showQ r (exec (as.map (canon r.src)) [] r.seq)}"
      | _, _, _, _, _ => "bad-op"
    | _ => "bad-op"
  | _ => "bad-op"
end FerretVerif.Drv
