/- Drv/DepGraph.lean — `fvdriver depgraph`: same protocol as gohook depgraph (module names m<digits>) -/
import FerretVerif.Model.DepGraph
import FerretVerif.Drv.Util

namespace FerretVerif.Drv
open FerretVerif.DepGraph

def modId? (s : String) : Option Nat := if s.startsWith "m" then (s.drop 1).toNat? else none
def modName (n : Nat) : String :=
  let d := toString n
  "m" ++ String.ofList (List.replicate (3 - d.length) '0') ++ d

def cmdDepGraph (l : String) : String :=
  match fields l with
  | ms :: es =>
    let mods := if ms == "-" then some [] else (ms.splitOn ",").mapM modId?
    let edges := es.mapM fun e => match e.splitOn ">" with
      | [a, b] => match modId? a, modId? b with
        | some a, some b => some (a, b)
        | _, _ => none
      | _ => none
    match mods, edges with
    | some mods, some edges =>
      let (g, vs) := addAll [] edges
      let v := String.ofList (vs.map fun b => if b then '1' else '0')
      let adj := ";".intercalate ((g.filter (fun (_, ds) => !ds.isEmpty)).map fun (a, ds) => modName a ++ ":" ++ ",".intercalate (ds.map modName))
      let order := topo g mods
      let own := (mods ++ edges.flatMap fun (a, b) => [a, b])
      let order := order.filter own.contains
      s!"{if v.isEmpty then "-" else v} | {adj} | {",".intercalate (order.map modName)}"
    | _, _ => "bad-op"
  | _ => "bad-op"

/-- `sched <entry> <project: m:a,b;…> <schedule: task indices>` → parsed order | errors | graph | live tasks -/
def cmdSched (l : String) : String :=
  match fields l with
  | [entry, proj, sch] =>
    let p : Option Project := if proj == "-" then some [] else (proj.splitOn ";").mapM fun item =>
      match item.splitOn ":" with
      | [m, ds] => match modId? m, (if ds.isEmpty then some [] else (ds.splitOn ",").mapM modId?) with
        | some m, some ds => some (m, ds)
        | _, _ => none
      | _ => none
    let idx := if sch == "-" then some [] else (sch.splitOn ",").mapM String.toNat?
    match modId? entry, p, idx with
    | some e, some p, some idx =>
      let s := runSched p (initSched p e) idx
      let s := runFifo p 100000 s
      let adj := ";".intercalate ((s.graph.filter (fun (_, ds) => !ds.isEmpty)).map fun (a, ds) => modName a ++ ":" ++ ",".intercalate (ds.map modName))
      s!"{",".intercalate (s.parsed.map modName)} | {",".intercalate (s.errors.map fun (a, b) => modName a ++ ">" ++ modName b)} | {adj} | {s.tasks.length}"
    | _, _, _ => "bad-op"
  | _ => "bad-op"

end FerretVerif.Drv
