/- Drv/Limbs.lean — `fvdriver limbs`: runs Model/Limbs on protocol lines.
   line:  <w> <op> <kind> <args…>     kind ∈ i128 u128 i256 u256 g<n> (generic, n limbs, unsigned) -/
import FerretVerif.Model.Limbs
import FerretVerif.Drv.Util

namespace FerretVerif.Drv
open FerretVerif.Limbs

structure Kind where
  bits : Nat
  signed : Bool

def parseKind (w : Nat) (k : String) : Option Kind :=
  match k with
  | "i128" => some ⟨128, true⟩ | "u128" => some ⟨128, false⟩
  | "i256" => some ⟨256, true⟩ | "u256" => some ⟨256, false⟩
  | _ => if k.startsWith "g" then (k.drop 1).toNat?.map (fun n => ⟨n * w, false⟩) else none

def ordStr : Ordering → String | .lt => "-1" | .eq => "0" | .gt => "1"

def cmdLimbs (l : String) : String :=
  match fields l with
  | ws :: op :: ks :: args =>
    match ws.toNat?, (ws.toNat?.bind fun w => parseKind w ks) with
    | some w, some k =>
      if w = 0 then "bad-op" else
      let B := 2 ^ w
      let n := k.bits / w
      let hexw := k.bits / 4
      let toL (v : Nat) := ofNat B n v
      let out (r : List Nat) := natToHex hexw (val B r)
      let bool (b : Bool) := if b then "true" else "false"
      match op, args with
      | "add", [a, b] => match hexToNat? a, hexToNat? b with
        | some a, some b => out (add B (toL a) (toL b)) | _, _ => "bad-op"
      | "sub", [a, b] => match hexToNat? a, hexToNat? b with
        | some a, some b => out (sub B (toL a) (toL b)) | _, _ => "bad-op"
      | "mul", [a, b] => match hexToNat? a, hexToNat? b with
        | some a, some b => out (if k.signed then mulS B (toL a) (toL b) else mul B (toL a) (toL b)) | _, _ => "bad-op"
      | "div", [a, b] => match hexToNat? a, hexToNat? b with
        | some a, some b => out (if k.signed then divS w (toL a) (toL b) else divUw w (toL a) (toL b)) | _, _ => "bad-op"
      | "mod", [a, b] => match hexToNat? a, hexToNat? b with
        | some a, some b => out (if k.signed then modS w (toL a) (toL b) else modUw w (toL a) (toL b)) | _, _ => "bad-op"
      | "pow", [a, b] => match hexToNat? a, hexToNat? b with
        | some a, some b => out (if k.signed then powS w (toL a) (toL b) else powU w (toL a) (toL b)) | _, _ => "bad-op"
      | "and", [a, b] => match hexToNat? a, hexToNat? b with
        | some a, some b => out (bitAnd (toL a) (toL b)) | _, _ => "bad-op"
      | "or", [a, b] => match hexToNat? a, hexToNat? b with
        | some a, some b => out (bitOr (toL a) (toL b)) | _, _ => "bad-op"
      | "xor", [a, b] => match hexToNat? a, hexToNat? b with
        | some a, some b => out (bitXor (toL a) (toL b)) | _, _ => "bad-op"
      | "not", [a] => match hexToNat? a with
        | some a => out (bitNot B (toL a)) | _ => "bad-op"
      | "neg", [a] => match hexToNat? a with
        | some a => out (neg B (toL a)) | _ => "bad-op"
      | "eq", [a, b] => match hexToNat? a, hexToNat? b with
        | some a, some b => bool (toL a == toL b) | _, _ => "bad-op"
      | "lt", [a, b] => match hexToNat? a, hexToNat? b with
        | some a, some b => bool ((if k.signed then cmpS B (toL a) (toL b) else cmpU (toL a) (toL b)) == .lt) | _, _ => "bad-op"
      | "gt", [a, b] => match hexToNat? a, hexToNat? b with
        | some a, some b => bool ((if k.signed then cmpS B (toL a) (toL b) else cmpU (toL a) (toL b)) == .gt) | _, _ => "bad-op"
      | "cmpu", [a, b] => match hexToNat? a, hexToNat? b with
        | some a, some b => ordStr (cmpU (toL a) (toL b)) | _, _ => "bad-op"
      | "shl", [a, s] => match hexToNat? a, s.toInt? with
        | some a, some s => out (shl w (toL a) s) | _, _ => "bad-op"
      | "shr", [a, s] => match hexToNat? a, s.toInt? with
        | some a, some s => out (if k.signed then sar w (toL a) s else shr w (toL a) s) | _, _ => "bad-op"
      | "tostr", [a] => match hexToNat? a with
        | some a => toStringS B k.signed (toL a) | _ => "bad-op"
      | "fromstr", [h] => match hexToChars? h with
        | some cs => out (fromString B n k.signed cs) | _ => "bad-op"
      | "fromstr", [] => out (fromString B n k.signed [])
      | "from64", [a] => match hexToNat? a with
        | some a => out (if k.signed then fromI64 w n a else fromU64 w n a) | _ => "bad-op"
      | "to64", [a] => match hexToNat? a with
        | some a => natToHex 16 (toU64 w (toL a)) | _ => "bad-op"
      | _, _ => "bad-op"
    | _, _ => "bad-op"
  | _ => "bad-op"

end FerretVerif.Drv
