/- Drv/Literal.lean — `fvdriver literal`: `<hex text> <bits> <s|u>` → `<islit> <spec> <new> <old> <fits>` -/
import FerretVerif.Model.Literal
import FerretVerif.Drv.Util

namespace FerretVerif.Drv
open FerretVerif.Literal

def optInt : Option Int → String
  | some v => toString v
  | none => "none"

def cmdLiteral (l : String) : String :=
  match fields l with
  | [h, bits, sg] =>
    match hexToChars? h, bits.toNat? with
    | some cs, some b =>
      let signed := sg == "s"
      s!"{isIntLit cs} {specVal cs} {optInt (newNumericValue cs)} {optInt (newNumericValueOld cs)} {fitsInType cs b signed} {optInt (stringToBigInt cs)}"
    | _, _ => "bad-op"
  | _ => "bad-op"

end FerretVerif.Drv
