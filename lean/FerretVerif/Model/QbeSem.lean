/-
  Model/QbeSem.lean — semantics of the QBE IL fragment the emitter uses for integer arithmetic, comparisons and casts
  on `w` (32-bit) and `l` (64-bit) temporaries, the canonical representation of a Ferret integer value in a temporary,
  and the table format of the regenerated instruction-selection table `Gen.qbeSel` (C01, C02, C09).  Core-only.

  A temporary holds a bit pattern (a natural below 2^32 / 2^64).  A value `v` of an integer type of `bits` ≤ 32 lives
  in a `w` temporary sign-extended (signed types) or zero-extended (unsigned types); 64-bit types live in `l`.
-/
namespace FerretVerif.QbeSem

inductive Cls | w | l
  deriving DecidableEq, Repr, Inhabited

def Cls.bits : Cls → Nat
  | .w => 32
  | .l => 64

/-- bit pattern of an integer in a class -/
def pat (c : Cls) (v : Int) : Nat := (v % ((2 ^ c.bits : Nat) : Int)).toNat

/-- signed reading of a bit pattern -/
def sx (c : Cls) (x : Nat) : Int := if x ≥ 2 ^ (c.bits - 1) then (x : Int) - ((2 ^ c.bits : Nat) : Int) else x

inductive Arg
  | param (i : Nat)
  | tmp (i : Nat)
  | lit (n : Nat)
  deriving DecidableEq, Repr, Inhabited

structure Ins where
  cls : Cls                 -- class of the result
  op : String
  a : Arg
  b : Arg
  deriving DecidableEq, Repr, Inhabited

/-- the signed division instruction of the target machine traps on MIN / -1 at the class width (x86 `idiv`);
    QBE gives the operation no meaning there -/
def divTraps (c : Cls) (x y : Nat) : Prop := sx c x = -((2 ^ (c.bits - 1) : Nat) : Int) ∧ sx c y = -1

instance (c : Cls) (x y : Nat) : Decidable (divTraps c x y) := by unfold divTraps; infer_instance

/-- the class in which a comparison / extension reads its operands is part of the opcode name -/
def evalOp (c : Cls) (op : String) (x y : Nat) : Option Nat :=
  match op with
  | "add" => some (pat c ((x : Int) + y))
  | "sub" => some (pat c ((x : Int) - y))
  | "mul" => some (pat c ((x : Int) * y))
  | "div" => if sx c y = 0 ∨ divTraps c x y then none else some (pat c (Int.tdiv (sx c x) (sx c y)))
  | "rem" => if sx c y = 0 ∨ divTraps c x y then none else some (pat c (Int.tmod (sx c x) (sx c y)))
  | "udiv" => if y = 0 then none else some (x / y)
  | "urem" => if y = 0 then none else some (x % y)
  | "and" => some (Nat.land x y)
  | "shl" => some (pat c ((x : Int) * ((2 ^ (y % c.bits) : Nat) : Int)))       -- the shift count is taken modulo the width
  | "sar" => some (pat c (sx c x / ((2 ^ (y % c.bits) : Nat) : Int)))
  | "copy" => some (pat c x)                         -- `w copy` of an `l` value truncates
  | "extsw" => some (pat .l (sx .w x))
  | "extuw" => some x
  | "ceqw" | "ceql" => some (if x = y then 1 else 0)
  | "cnew" | "cnel" => some (if x = y then 0 else 1)
  | "csltw" => some (if sx .w x < sx .w y then 1 else 0)
  | "cslew" => some (if sx .w x ≤ sx .w y then 1 else 0)
  | "csgtw" => some (if sx .w x > sx .w y then 1 else 0)
  | "csgew" => some (if sx .w x ≥ sx .w y then 1 else 0)
  | "csltl" => some (if sx .l x < sx .l y then 1 else 0)
  | "cslel" => some (if sx .l x ≤ sx .l y then 1 else 0)
  | "csgtl" => some (if sx .l x > sx .l y then 1 else 0)
  | "csgel" => some (if sx .l x ≥ sx .l y then 1 else 0)
  | "cultw" | "cultl" => some (if x < y then 1 else 0)
  | "culew" | "culel" => some (if x ≤ y then 1 else 0)
  | "cugtw" | "cugtl" => some (if x > y then 1 else 0)
  | "cugew" | "cugel" => some (if x ≥ y then 1 else 0)
  | _ => none

def argVal (params tmps : List Nat) : Arg → Option Nat
  | .param i => params[i]?
  | .tmp i => tmps[i]?
  | .lit n => some n

/-- runs a straight-line sequence; the result of the last instruction is the function's result -/
def exec (params : List Nat) : List Nat → List Ins → Option Nat
  | tmps, [] => tmps.getLast?
  | tmps, i :: rest => do
    let x ← argVal params tmps i.a
    let y ← argVal params tmps i.b
    let r ← evalOp i.cls i.op x y
    exec params (tmps ++ [r]) rest

/-- an integer type: bits ∈ {8,16,32,64} -/
structure Ty where
  bits : Nat
  signed : Bool
  deriving DecidableEq, Repr, Inhabited

def Ty.cls (t : Ty) : Cls := if t.bits = 64 then .l else .w
def Ty.lo (t : Ty) : Int := if t.signed then -((2 ^ (t.bits - 1) : Nat) : Int) else 0
def Ty.hi (t : Ty) : Int := if t.signed then ((2 ^ (t.bits - 1) : Nat) : Int) - 1 else ((2 ^ t.bits : Nat) : Int) - 1
def Ty.inRange (t : Ty) (v : Int) : Prop := t.lo ≤ v ∧ v ≤ t.hi

/-- two's-complement wrap to the type (the source semantics of every arithmetic result and cast) -/
def Ty.wrap (t : Ty) (v : Int) : Int :=
  let m : Int := ((2 ^ t.bits : Nat) : Int)
  let r := v % m
  if t.signed && r ≥ ((2 ^ (t.bits - 1) : Nat) : Int) then r - m else r

/-- the canonical temporary contents for value `v` of type `t` -/
def canon (t : Ty) (v : Int) : Nat := pat t.cls v

inductive Kind | bin | cmp | neg | cast
  deriving DecidableEq, Repr, Inhabited

structure Row where
  kind : Kind
  op : String
  src : Ty
  dst : Ty
  seq : List Ins
  deriving DecidableEq, Repr, Inhabited

/-! ### the sequences that are known (proved in Proofs/QbeSem.lean) to be correct -/

def renorm (t : Ty) (from_ : Arg) (n : Nat) : List Ins :=
  if t.bits ≥ 32 then [] else
  if t.signed then [⟨.w, "shl", from_, .lit (32 - t.bits)⟩, ⟨.w, "sar", .tmp n, .lit (32 - t.bits)⟩]
  else [⟨.w, "and", from_, .lit (2 ^ t.bits - 1)⟩]

def binOpcode (op : String) (t : Ty) : Option String :=
  match op with
  | "add" | "sub" | "mul" => some op
  | "div" => some (if t.signed then "div" else "udiv")
  | "rem" => some (if t.signed then "rem" else "urem")
  | _ => none

def cmpOpcode (op : String) (t : Ty) : Option String :=
  let l : Bool := t.bits = 64
  let pick (sw sl uw ul : String) : String := if t.signed then (if l then sl else sw) else (if l then ul else uw)
  match op with
  | "eq" => some (if l then "ceql" else "ceqw")
  | "ne" => some (if l then "cnel" else "cnew")
  | "lt" => some (pick "csltw" "csltl" "cultw" "cultl")
  | "le" => some (pick "cslew" "cslel" "culew" "culel")
  | "gt" => some (pick "csgtw" "csgtl" "cugtw" "cugtl")
  | "ge" => some (pick "csgew" "csgel" "cugew" "cugel")
  | _ => none

/-- the instruction sequence expected for a table row, `none` if the row is of no known-correct shape -/
def expectedSeq (kind : Kind) (op : String) (src dst : Ty) : Option (List Ins) :=
  match kind with
  | .bin => do
    let o ← binOpcode op src
    if op = "rem" then pure [⟨src.cls, o, .param 0, .param 1⟩]
    else pure (⟨src.cls, o, .param 0, .param 1⟩ :: renorm src (.tmp 0) 1)
  | .cmp => do
    let o ← cmpOpcode op src
    pure [⟨.w, o, .param 0, .param 1⟩]
  | .neg => pure (⟨src.cls, "sub", .lit 0, .param 0⟩ :: renorm src (.tmp 0) 1)
  | .cast =>
    if dst.bits = 64 then
      if src.bits = 64 then pure [⟨.l, "copy", .param 0, .lit 0⟩]
      else pure [⟨.l, if src.signed then "extsw" else "extuw", .param 0, .lit 0⟩]
    else if dst.bits = 32 then pure [⟨.w, "copy", .param 0, .lit 0⟩]
    else if src.bits = 64 then pure (⟨.w, "copy", .param 0, .lit 0⟩ :: renorm dst (.tmp 0) 1)
    else pure (renorm dst (.param 0) 0)

def rowOk (r : Row) : Bool := expectedSeq r.kind r.op r.src r.dst == some r.seq

/-! ### specification of the operations on values -/

def specBin (op : String) (t : Ty) (a b : Int) : Option Int :=
  match op with
  | "add" => some (t.wrap (a + b))
  | "sub" => some (t.wrap (a - b))
  | "mul" => some (t.wrap (a * b))
  | "div" => if b = 0 then none else some (t.wrap (Int.tdiv a b))
  | "rem" => if b = 0 then none else some (t.wrap (Int.tmod a b))
  | _ => none

def specCmp (op : String) (a b : Int) : Option Nat :=
  match op with
  | "eq" => some (if a = b then 1 else 0)
  | "ne" => some (if a = b then 0 else 1)
  | "lt" => some (if a < b then 1 else 0)
  | "le" => some (if a ≤ b then 1 else 0)
  | "gt" => some (if a > b then 1 else 0)
  | "ge" => some (if a ≥ b then 1 else 0)
  | _ => none

/-- the overflowing quotient: MIN / -1 at the width of the machine operation (32- and 64-bit types only; for 8- and
    16-bit types the 32-bit operation does not overflow and the result is re-normalised) -/
def overflows (t : Ty) (a b : Int) : Prop := t.bits ≥ 32 ∧ a = t.lo ∧ b = -1

instance (t : Ty) (a b : Int) : Decidable (overflows t a b) := by unfold overflows; infer_instance

/-- what a row of the selection table must compute: the canonical temporary of the source-level result
    (`none`: the source-level operation has no value — division by zero, or the trapping quotient) -/
def rowSpec (r : Row) (args : List Int) : Option Nat :=
  match r.kind, args with
  | .bin, [a, b] =>
    if (r.op = "div" ∨ r.op = "rem") ∧ r.src.signed = true ∧ overflows r.src a b then none
    else (specBin r.op r.src a b).map (canon r.src)
  | .cmp, [a, b] => specCmp r.op a b
  | .neg, [a] => some (canon r.src (r.src.wrap (-a)))
  | .cast, [a] => some (canon r.dst (r.dst.wrap a))
  | _, _ => none


/-! ### memory: which store / load instruction a value of each type goes through

A store writes the low `k` bits of the temporary; a load reads them back, sign- or zero-extending into the class of its result. -/

def storeBits : String → Option Nat
  | "storeb" => some 8
  | "storeh" => some 16
  | "storew" => some 32
  | "storel" => some 64
  | _ => none

/-- contents of the cell after the store -/
def memStore (op : String) (x : Nat) : Option Nat := (storeBits op).map fun k => x % 2 ^ k

/-- signed reading of a `k`-bit cell -/
def sxk (k : Nat) (m : Nat) : Int := if m ≥ 2 ^ (k - 1) then (m : Int) - ((2 ^ k : Nat) : Int) else m

/-- the temporary (class `c`) after loading a cell holding `m` -/
def memLoad (c : Cls) (op : String) (m : Nat) : Option Nat :=
  match op with
  | "loadsb" => some (pat c (sxk 8 (m % 256)))
  | "loadub" => some (m % 256)
  | "loadsh" => some (pat c (sxk 16 (m % 65536)))
  | "loaduh" => some (m % 65536)
  | "loadw" | "loadsw" => some (pat c (sxk 32 (m % 4294967296)))
  | "loaduw" => some (m % 4294967296)
  | "loadl" => some (pat c (m % 18446744073709551616))
  | _ => none

structure MemRow where
  ty : Ty
  store : String
  load : String
  cls : Cls                -- class of the load's result
  deriving DecidableEq, Repr, Inhabited

/-- the store / load pair known (Proofs/QbeSem.lean `mem_roundtrip`) to give back the canonical temporary -/
def expectedMem (t : Ty) : String × String :=
  if t.bits = 8 then ("storeb", if t.signed then "loadsb" else "loadub")
  else if t.bits = 16 then ("storeh", if t.signed then "loadsh" else "loaduh")
  else if t.bits = 32 then ("storew", if t.signed then "loadw" else "loaduw")
  else ("storel", "loadl")

def memRowOk (r : MemRow) : Bool := (r.store, r.load) == expectedMem r.ty && r.cls == r.ty.cls

end FerretVerif.QbeSem
