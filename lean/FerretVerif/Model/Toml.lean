/-
  Model/Toml.lean — transcription of toml/writer.go and toml/parser.go at the text level (C20).

  Strings are `List Char` (valid Unicode; arbitrary bytes are exercised only on the Go side).
  Floats stay text: the writer's `strconv.FormatFloat(v,'f',-1,64)` output is an input of the model
  (`WVal.float txt`), and the parser's `strconv.ParseFloat` acceptance test is the parameter `pf`;
  what is assumed about the two is stated as hypotheses of the theorems, never as axioms.
  Core-only.
-/
namespace FerretVerif.Toml

/-- unicode.IsSpace -/
def isSpace (c : Char) : Bool :=
  let n := c.toNat
  (9 ≤ n && n ≤ 13) || n == 32 || n == 0x85 || n == 0xA0 || n == 0x1680 || (0x2000 ≤ n && n ≤ 0x200A)
    || n == 0x2028 || n == 0x2029 || n == 0x202F || n == 0x205F || n == 0x3000

def trimLeft (s : List Char) : List Char := s.dropWhile isSpace
def trimRight (s : List Char) : List Char := (s.reverse.dropWhile isSpace).reverse
/-- strings.TrimSpace -/
def trimSpace (s : List Char) : List Char := trimRight (trimLeft s)

def isDigit (c : Char) : Bool := 48 ≤ c.toNat && c.toNat ≤ 57

/-- value kinds the writer is given -/
inductive WVal
  | str (s : List Char)
  | bool (b : Bool)
  | int (i : Int)
  | float (raw : List Char)     -- FormatFloat(v, 'f', -1, 64) of the float being written
  deriving Repr, DecidableEq

/-- value kinds the parser produces (a float is kept as the text handed to ParseFloat) -/
inductive PVal
  | str (s : List Char)
  | bool (b : Bool)
  | int (i : Int)
  | float (txt : List Char)
  deriving Repr, DecidableEq

def natDigits : Nat → List Char
  | n => if n < 10 then [Char.ofNat (48 + n)] else natDigits (n / 10) ++ [Char.ofNat (48 + n % 10)]

/-- strconv.Itoa -/
def itoa (i : Int) : List Char :=
  if i < 0 then '-' :: natDigits i.natAbs else natDigits i.toNat

/-- formatTOMLValue for a float after the fix: an integral rendering gets a ".0" so it stays a float -/
def formatFloat (raw : List Char) : List Char :=
  if raw.all (fun c => isDigit c || c == '-') then raw ++ ['.', '0'] else raw

/-- formatTOMLValue -/
def formatValue : WVal → List Char
  | .str s => if s == "true".toList || s == "false".toList then s else ['"'] ++ s ++ ['"']
  | .bool b => if b then "true".toList else "false".toList
  | .int i => itoa i
  | .float raw => formatFloat raw

/-- writeTOMLKeyValue without inline comment: `key = value\n` -/
def formatLine (key : List Char) (v : WVal) : List Char :=
  key ++ " = ".toList ++ formatValue v ++ ['\n']

/-- strconv.Atoi: optional sign, ≥1 decimal digits, int64 range -/
def atoi (s : List Char) : Option Int :=
  let (neg, ds) := match s with
    | '+' :: r => (false, r)
    | '-' :: r => (true, r)
    | r => (false, r)
  if ds.isEmpty || !ds.all isDigit then none
  else
    let v : Nat := ds.foldl (fun acc c => acc * 10 + (c.toNat - 48)) 0
    let iv : Int := if neg then -(v : Int) else v
    if -(2 ^ 63 : Int) ≤ iv ∧ iv ≤ 2 ^ 63 - 1 then some iv else none

/-- strings.Trim(val, `"`) -/
def trimQuotes (s : List Char) : List Char :=
  ((s.dropWhile (· == '"')).reverse.dropWhile (· == '"')).reverse

/-- parseValue; `pf` = "strconv.ParseFloat accepts this text" -/
def parseValue (pf : List Char → Bool) (val : List Char) : PVal :=
  if val.head? == some '"' && val.getLast? == some '"' then .str (trimQuotes val)
  else if val == "true".toList then .bool true
  else if val == "false".toList then .bool false
  else match atoi val with
    | some i => .int i
    | none => if pf val then .float val else .str val

/-- stripInlineComment: cut at the first `#` outside quotes (a backslash protects the next rune) -/
def stripLoop : List Char → Bool → Bool → List Char → List Char
  | [], _, _, acc => acc.reverse
  | c :: cs, inQuotes, escaped, acc =>
    if escaped then stripLoop cs inQuotes false (c :: acc)
    else if c == '\\' then stripLoop cs inQuotes true (c :: acc)
    else if c == '"' then stripLoop cs (!inQuotes) false (c :: acc)
    else if c == '#' && !inQuotes then acc.reverse
    else stripLoop cs inQuotes false (c :: acc)

def stripInlineComment (s : List Char) : List Char := trimSpace (stripLoop s false false [])

/-- strings.SplitN(line, "=", 2) -/
def splitEq : List Char → Option (List Char × List Char)
  | [] => none
  | c :: cs => if c == '=' then some ([], cs) else (splitEq cs).map fun (a, b) => (c :: a, b)

inductive Line
  | skip
  | section (name : List Char)
  | kv (key : List Char) (v : PVal)
  | bad
  deriving Repr, DecidableEq

/-- one (already TrimSpace'd) line of ParseTOMLFile's loop -/
def parseLine (pf : List Char → Bool) (line : List Char) : Line :=
  if line.isEmpty || line.head? == some '#' then .skip
  else if line.head? == some '[' && line.getLast? == some ']' then
    .section (trimSpace ((line.drop 1).dropLast))
  else match splitEq line with
    | none => .bad
    | some (k, v) => .kv (trimSpace k) (parseValue pf (stripInlineComment (trimSpace v)))

/-- bufio.ScanLines: split on '\n', drop one trailing '\r' per line, no empty final line -/
def splitLines (s : List Char) : List (List Char) :=
  let rec go : List Char → List Char → List (List Char)
    | [], cur => if cur.isEmpty then [] else [cur.reverse]
    | c :: cs, cur => if c == '\n' then cur.reverse :: go cs [] else go cs (c :: cur)
  (go s []).map fun l => if l.getLast? == some '\r' then l.dropLast else l

abbrev Table := List (List Char × PVal)          -- association list, later entries override
abbrev Data := List (List Char × Table)

def setKey (t : Table) (k : List Char) (v : PVal) : Table := (t.filter (·.1 != k)) ++ [(k, v)]

def ensureSection (d : Data) (s : List Char) : Data := if d.any (·.1 == s) then d else d ++ [(s, [])]

def setIn (d : Data) (s k : List Char) (v : PVal) : Data :=
  (ensureSection d s).map fun (n, t) => if n == s then (n, setKey t k v) else (n, t)

/-- ParseTOMLFile's loop over the lines: (data, current section) or error -/
def parseLines (pf : List Char → Bool) : List (List Char) → Data → List Char → Option Data
  | [], d, _ => some d
  | l :: ls, d, cur =>
    match parseLine pf (trimSpace l) with
    | .skip => parseLines pf ls d cur
    | .section n => parseLines pf ls (ensureSection d n) n
    | .kv k v => parseLines pf ls (setIn d (if cur.isEmpty then "default".toList else cur) k v) cur
    | .bad => none

def parseFile (pf : List Char → Bool) (content : List Char) : Option Data :=
  parseLines pf (splitLines content) [] []

def sectionOrder : List (List Char) :=
  ["default", "compiler", "build", "cache", "external", "neighbors", "dependencies"].map String.toList

/-- writeTOMLSection: entries in the order given (Go iterates its map in an arbitrary order) -/
def writeSection (name : List Char) (entries : List (List Char × WVal)) : List Char :=
  (if name == "default".toList then [] else "\n[".toList ++ name ++ "]\n".toList)
    ++ (entries.map fun (k, v) => formatLine k v).flatten

/-- writeTOMLSections: known sections in the fixed order -/
def writeFile (data : List (List Char × List (List Char × WVal))) : List Char :=
  (sectionOrder.filterMap fun n => (data.find? (·.1 == n)).map fun (_, es) => writeSection n es).flatten

/-- what a written value is read back as -/
def expectRead : WVal → PVal
  | .str s => .str s
  | .bool b => .bool b
  | .int i => .int i
  | .float raw => .float (formatFloat raw)

end FerretVerif.Toml
