/-
  Model/Diag.lean — internal/diagnostics/bag.go: the diagnostic bag (Add / ErrorCount / HasErrors), the exit
  status logic of internal/compiler/compiler.go + main.go (Success = !HasErrors, exit 1 iff !Success) and
  sortDiagnostics (C13, C14).  Core-only.

  Goroutines add diagnostics under `db.mu`; an execution is therefore a *sequence* of Add calls (some
  interleaving of the per-goroutine sequences) — the model folds over that sequence.
-/
namespace FerretVerif.Diag

inductive Sev
  | error | warning | info | hint
  deriving DecidableEq, Repr, Inhabited

/-- what sortDiagnostics and the counters look at, plus an identity -/
structure D where
  sev : Sev
  hasLabel : Bool        -- len(Labels) > 0
  nilLoc : Bool          -- Labels[0].Location == nil (or its Start is nil)
  fileKey : Nat          -- *Location.Filename ("" when nil) as a number whose order is the byte-wise order of the names
                         -- (big-endian value of the name padded with zero bytes to a fixed width; computed by the driver)
  line : Nat             -- Location.Start.Line
  col : Nat              -- not compared
  id : Nat               -- stands for message, code, notes …
  deriving DecidableEq, Repr, Inhabited

structure Bag where
  diags : List D := []
  errorCount : Nat := 0
  warnCount : Nat := 0
  deriving Repr, Inhabited

def Bag.empty : Bag := {}

/-- DiagnosticBag.Add -/
def Bag.add (b : Bag) (d : D) : Bag :=
  { diags := b.diags ++ [d],
    errorCount := if d.sev = .error then b.errorCount + 1 else b.errorCount,
    warnCount := if d.sev = .warning then b.warnCount + 1 else b.warnCount }

def Bag.hasErrors (b : Bag) : Bool := b.errorCount > 0

/-- compiler.Compile: Success = !ctx.HasErrors(); main: exit status 1 iff !Success -/
def Bag.success (b : Bag) : Bool := !b.hasErrors
def Bag.exitStatus (b : Bag) : Nat := if b.success then 0 else 1

/-- the diagnostics EmitAll prints with an `error` header -/
def Bag.printedErrors (b : Bag) : List D := b.diags.filter (fun d => d.sev = .error)

/-! ### pipeline gate (pipeline.go Run): MIR generation and code generation are reached only while the bag holds
no error; the output artefact is written by the last step of code generation only. -/

structure PipeState where
  bag : Bag := {}
  artifact : Bool := false
  deriving Repr, Inhabited

def addAll (b : Bag) (ds : List D) : Bag := ds.foldl Bag.add b

/-- `front`: diagnostics of parse … HIR lowering (all of these phases run and accumulate); `mir`, `codegen`:
    diagnostics of the two gated phases; `skip`: `-t`.  The back end links/writes the artefact only when its own
    run recorded no error. -/
def runPipeline (front mir codegen : List D) (skip : Bool) : PipeState :=
  let b0 := addAll Bag.empty front
  if b0.hasErrors then { bag := b0 } else
  let b1 := addAll b0 mir
  if b1.hasErrors then { bag := b1 } else
  if skip then { bag := b1 } else
  let b2 := addAll b1 codegen
  { bag := b2, artifact := !b2.hasErrors }

/-! ### sortDiagnostics -/

/-- the comparator passed to sort.SliceStable -/
def less (a b : D) : Bool :=
  if !a.hasLabel || !b.hasLabel then false
  else if a.nilLoc then false
  else if b.nilLoc then true
  else if a.fileKey ≠ b.fileKey then a.fileKey < b.fileKey
  else if a.line ≠ b.line then a.line < b.line
  else false

/-- insertion of `x` at the end of an already processed prefix given in REVERSE order (last element first):
    `for j := i; j > a && less(data[j], data[j-1]); j-- { swap }` -/
def insertBack (x : D) : List D → List D
  | [] => [x]
  | y :: ys => if less x y then y :: insertBack x ys else x :: y :: ys

/-- sort.SliceStable for n ≤ 20 (one insertion-sort block); for a comparator that is a strict weak order every
    stable sort gives this result for all n. The accumulator is kept reversed. -/
def isortRev : List D → List D → List D
  | acc, [] => acc
  | acc, x :: xs => isortRev (insertBack x acc) xs

def sortDiags (l : List D) : List D := (isortRev [] l).reverse

end FerretVerif.Diag
