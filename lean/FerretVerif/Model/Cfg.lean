/-
  Model/Cfg.lean — return-path analysis of internal/hir/analysis/cfg.go (C05).

  Bodies are abstracted to their control skeleton.  `build*` transcribes buildBlock/buildNode/buildIf/buildWhile/
  buildFor/buildMatch compositionally: the builder's `current` block is `none` (nil: code after return/break/
  continue) or `some r` where `r` says whether that block is reachable from the entry IN THE GRAPH (edges), which
  is what AllPathsReturn's DFS sees; `k` accumulates "a graph-reachable break to the innermost enclosing loop".
  The spec `outcomes` is the path semantics with nondeterministic conditions.  Core-only.
-/
namespace FerretVerif.Cfg

inductive Stmt
  | plain
  | ret
  | brk
  | cont
  | ifS (thn : List Stmt) (els : Option (List Stmt))
  | whileS (litTrue : Bool) (body : List Stmt)          -- `while true` vs. any other condition
  | forS (body : List Stmt)
  | matchS (cases : List (List Stmt)) (hasDefault : Bool) (coversEnum : Bool)
  | block (body : List Stmt)
  deriving Inhabited

mutual
/-- buildNode -/
def buildS : Stmt → Option Bool → Bool → Option Bool × Bool
  | _, none, k => (none, k)                                  -- unreachable code is skipped by buildBlock
  | .plain, some r, k => (some r, k)
  | .ret, some _, k => (none, k)
  | .brk, some r, k => (none, k || r)
  | .cont, some _, k => (none, k)
  | .ifS thn els, some r, k =>
    let (a, k1) := buildL thn (some r) k
    match els with
    | none => (some ((a == some true) || r), k1)             -- edge current → merge
    | some e =>
      let (b, k2) := buildL e (some r) k1
      if a.isNone && b.isNone then (none, k2)
      else (some ((a == some true) || (b == some true)), k2)
  | .whileS litTrue body, some r, k =>
    let (_, kb) := buildL body (some r) false
    (some ((!litTrue && r) || kb), k)
  | .forS body, some r, k =>
    let (_, kb) := buildL body (some r) false
    (some (r || kb), k)
  | .matchS cases hasDefault coversEnum, some r, k =>
    let (falls, reach, k') := buildCases cases r k
    let open_ := !hasDefault && !coversEnum                   -- "no arm matched" edge
    if falls || open_ then (some (reach || (open_ && r)), k') else (none, k')
  | .block body, some r, k => buildL body (some r) k

/-- buildBlock -/
def buildL : List Stmt → Option Bool → Bool → Option Bool × Bool
  | [], c, k => (c, k)
  | s :: ss, c, k =>
    let (c', k') := buildS s c k
    buildL ss c' k'

/-- the arm loop of buildMatch: (some arm falls through, merge reachable through an arm, k) -/
def buildCases : List (List Stmt) → Bool → Bool → Bool × Bool × Bool
  | [], _, k => (false, false, k)
  | c :: cs, r, k =>
    let (a, k1) := buildL c (some r) k
    let (f, m, k2) := buildCases cs r k1
    (a.isSome || f, (a == some true) || m, k2)
end

/-- AllPathsReturn for a function body: the exit is not reachable without passing a returning block -/
def implAllPathsReturn (body : List Stmt) : Bool := (buildL body (some true) false).1 != some true

/-! ### specification: possible ways a statement list can end, conditions nondeterministic -/

structure Outs where
  falls : Bool      -- control reaches the end
  rets : Bool       -- a `return` executes
  brks : Bool       -- a `break` to the innermost enclosing loop executes
  conts : Bool
  deriving DecidableEq, Repr, Inhabited

def Outs.none : Outs := ⟨false, false, false, false⟩
def Outs.union (a b : Outs) : Outs := ⟨a.falls || b.falls, a.rets || b.rets, a.brks || b.brks, a.conts || b.conts⟩
/-- sequential composition: `b` happens only if `a` can fall through -/
def Outs.seq (a b : Outs) : Outs :=
  if a.falls then ⟨b.falls, a.rets || b.rets, a.brks || b.brks, a.conts || b.conts⟩ else a

mutual
def outS : Stmt → Outs
  | .plain => ⟨true, false, false, false⟩
  | .ret => ⟨false, true, false, false⟩
  | .brk => ⟨false, false, true, false⟩
  | .cont => ⟨false, false, false, true⟩
  | .ifS thn els =>
    match els with
    | none => (outL thn).union ⟨true, false, false, false⟩
    | some e => (outL thn).union (outL e)
  | .whileS litTrue body =>
    let b := outL body
    -- the loop is left when the condition fails (impossible for `while true`) or by a break
    ⟨!litTrue || b.brks, b.rets, false, false⟩
  | .forS body =>
    let b := outL body
    ⟨true, b.rets, false, false⟩
  | .matchS cases hasDefault coversEnum =>
    let u := outCases cases
    if hasDefault || coversEnum then u else u.union ⟨true, false, false, false⟩
  | .block body => outL body

def outL : List Stmt → Outs
  | [] => ⟨true, false, false, false⟩
  | s :: ss => (outS s).seq (outL ss)

def outCases : List (List Stmt) → Outs
  | [] => Outs.none
  | c :: cs => (outL c).union (outCases cs)
end

/-- can some path reach the end of the body without returning? -/
def canFallOff (body : List Stmt) : Bool := (outL body).falls

mutual
/-- break/continue occur only inside loops -/
def wfS (inLoop : Bool) : Stmt → Bool
  | .plain | .ret => true
  | .brk | .cont => inLoop
  | .ifS t e => wfL inLoop t && (match e with | none => true | some e => wfL inLoop e)
  | .whileS _ b => wfL true b
  | .forS b => wfL true b
  | .matchS cs _ _ => wfCases inLoop cs
  | .block b => wfL inLoop b
def wfL (inLoop : Bool) : List Stmt → Bool
  | [] => true
  | s :: ss => wfS inLoop s && wfL inLoop ss
def wfCases (inLoop : Bool) : List (List Stmt) → Bool
  | [] => true
  | c :: cs => wfL inLoop c && wfCases inLoop cs
end

/-- which declaration kinds AnalyzeModule runs the analysis on -/
inductive Host | func | method | funcLit
  deriving DecidableEq, Repr
def analysed : Host → Bool
  | .func => true
  | .method => true
  | .funcLit => true        -- since the fix of F3b (analyzer.go analyzeFuncLit); before it: false

/-- cfg.go `matchCoversEnum`: the scrutinee is an enum with at least one variant and every variant is named by an arm
    (variants and arm patterns by name, in declaration / source order; a duplicate arm changes nothing) -/
def matchCoversEnum (variants arms : List String) : Bool :=
  !variants.isEmpty && variants.all fun v => arms.contains v

end FerretVerif.Cfg
