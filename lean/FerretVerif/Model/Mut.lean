/-
  Model/Mut.lean — mutability checking (C06): transcription of checkMutability / rootIdentifier /
  findImmutableRefInChain (ref.go), checkIncDecTarget, checkBorrowExpr / isBorrowableTarget and the receiver
  check of checkCallExpr (typechecker.go), on the abstract shape of a mutation:
  a ROOT binding kind, an access PATH from it, and a mutation FORM.  Core-only.
-/
namespace FerretVerif.Mut

inductive Root
  | letV | constV | forIndex | catchErr
  | paramVal | paramRef | paramMut
  | recvVal | recvRef | recvMut
  | localRef | localMut
  deriving DecidableEq, Repr, Inhabited

/-- what a selection step yields: a value, an immutable reference `&T`, or a mutable reference `&'T`
    (a struct field or an array element may itself hold a reference) -/
inductive Ty3 | val | imm | mut
  deriving DecidableEq, Repr, Inhabited

inductive Seg
  | fld (t : Ty3 := .val)
  | idx (t : Ty3 := .val)
  | paren
  deriving DecidableEq, Repr, Inhabited

inductive Form | assign | compound | incDec | mutBorrow | passMut | callMutMethod
  deriving DecidableEq, Repr, Inhabited

/-- SymbolConstant or IsReadonly -/
def Root.constOrReadonly : Root → Bool
  | .constV | .forIndex | .catchErr => true
  | _ => false

/-- the symbol's type is an immutable reference `&T` -/
def Root.immRef : Root → Bool
  | .paramRef | .recvRef | .localRef => true
  | _ => false

/-- the symbol's type is any reference -/
def Root.isRef : Root → Bool
  | .paramRef | .paramMut | .recvRef | .recvMut | .localRef | .localMut => true
  | _ => false

def Root.ty (r : Root) : Ty3 := if r.immRef then .imm else if r.isRef then .mut else .val

/-- the property's notion: the value seen through this binding must not change -/
def Root.immutable (r : Root) : Bool := r.constOrReadonly || r.immRef

/-- an access chain: the root identifier wrapped in selectors / index / parentheses (outermost last) -/
inductive Chain
  | ident (r : Root)
  | sel (t : Ty3) (x : Chain)
  | index (t : Ty3) (x : Chain)
  | paren (x : Chain)
  deriving Repr

def Chain.ofPath (r : Root) : List Seg → Chain
  | [] => .ident r
  | .fld t :: p => .sel t (Chain.ofPath r p)
  | .idx t :: p => .index t (Chain.ofPath r p)
  | .paren :: p => .paren (Chain.ofPath r p)

/-- rootIdentifier -/
def Chain.root : Chain → Root
  | .ident r => r
  | .sel _ x | .index _ x | .paren x => x.root

/-- inferExprType of the chain, as far as references are concerned -/
def Chain.ty : Chain → Ty3
  | .ident r => r.ty
  | .sel t _ | .index t _ => t
  | .paren x => x.ty

/-- findImmutableRefInChain: an immutable-reference identifier at the root, or a selection step whose BASE is an
    immutable reference held in a field or an element (`throughBase`) -/
def Chain.immRefInChain : Chain → Bool
  | .ident r => r.immRef
  | .sel _ x | .index _ x => x.immRefInChain || x.ty == .imm
  | .paren x => x.immRefInChain

/-- checkMutability … reportMutabilityError returns true (an error, not the value-receiver warning) -/
def checkMutabilityBlocks (c : Chain) : Bool := c.root.constOrReadonly || c.immRefInChain

/-- isBorrowableTarget (for the fixed-array / field / identifier places generated here) -/
def Chain.borrowable : Chain → Bool
  | .ident r => !r.constOrReadonly
  | .sel _ x | .index _ x | .paren x => x.borrowable

/-- does the type checker reject this mutation? -/
def implRejects (r : Root) (path : List Seg) (f : Form) : Bool :=
  let c := Chain.ofPath r path
  match f with
  | .assign | .compound | .incDec =>
    -- checkAssignStmt / checkIncDecTarget: the mutability of the place, then their own check that the target is not itself an
    -- immutable reference ("cannot assign / modify through immutable reference": assignment to a reference writes through it)
    checkMutabilityBlocks c || c.ty == .imm
  | .callMutMethod =>
    -- checkCallExpr 3b: the mutability of the receiver expression, then whether it is itself an immutable reference
    checkMutabilityBlocks c || c.ty == .imm
  | .mutBorrow | .passMut =>
    -- checkBorrowExpr: reference of a reference; then the mutability of the place; then addressability
    (c.ty != .val) || checkMutabilityBlocks c || !c.borrowable

/-- SPECIFICATION: the place (or, for a method call, the receiver) is reached through an immutable binding — the root is a
    const / read-only variable, or the root, the place itself or any prefix of the chain is an immutable reference -/
def Chain.throughImm : Chain → Bool
  | .ident r => r.immRef
  | .sel t x | .index t x => t == .imm || x.throughImm
  | .paren x => x.throughImm

def mustReject (r : Root) (path : List Seg) : Bool :=
  r.constOrReadonly || (Chain.ofPath r path).throughImm

end FerretVerif.Mut
