/-
  Model/Mut.lean — mutability checking (C06): transcription of checkMutability / rootIdentifier /
  findImmutableRefInChain (ref.go), checkIncDecTarget, checkBorrowExpr / isBorrowableTarget and the receiver
  check of checkCallExpr (typechecker.go), on the abstract shape of a mutation:
  a ROOT binding kind, an access PATH from it, and a mutation FORM.  Core-only.
-/
namespace FerretVerif.Mut

inductive Root
  | letV | constV | forIndex | catchErr
  | paramVal | paramRef | paramMut
  | recvVal | recvRef | recvMut
  | localRef | localMut
  deriving DecidableEq, Repr, Inhabited

inductive Seg | fld | idx | paren
  deriving DecidableEq, Repr, Inhabited

inductive Form | assign | compound | incDec | mutBorrow | passMut | callMutMethod
  deriving DecidableEq, Repr, Inhabited

/-- SymbolConstant or IsReadonly -/
def Root.constOrReadonly : Root → Bool
  | .constV | .forIndex | .catchErr => true
  | _ => false

/-- the symbol's type is an immutable reference `&T` -/
def Root.immRef : Root → Bool
  | .paramRef | .recvRef | .localRef => true
  | _ => false

/-- the symbol's type is any reference -/
def Root.isRef : Root → Bool
  | .paramRef | .paramMut | .recvRef | .recvMut | .localRef | .localMut => true
  | _ => false

/-- the property's notion: the value seen through this binding must not change -/
def Root.immutable (r : Root) : Bool := r.constOrReadonly || r.immRef

/-- an access chain: the root identifier wrapped in selectors / index / parentheses (outermost last) -/
inductive Chain
  | ident (r : Root)
  | sel (x : Chain)
  | index (x : Chain)
  | paren (x : Chain)
  deriving Repr

def Chain.ofPath (r : Root) : List Seg → Chain
  | [] => .ident r
  | .fld :: p => .sel (Chain.ofPath r p)
  | .idx :: p => .index (Chain.ofPath r p)
  | .paren :: p => .paren (Chain.ofPath r p)

/-- rootIdentifier -/
def Chain.root : Chain → Root
  | .ident r => r
  | .sel x | .index x | .paren x => x.root

/-- findImmutableRefInChain: first immutable-reference identifier met walking down the chain -/
def Chain.immRefInChain : Chain → Bool
  | .ident r => r.immRef
  | .sel x | .index x | .paren x => x.immRefInChain

/-- checkMutability … reportMutabilityError returns true (an error, not the value-receiver warning) -/
def checkMutabilityBlocks (c : Chain) : Bool := c.root.constOrReadonly || c.immRefInChain

/-- isBorrowableTarget (for the fixed-array / field / identifier places generated here) -/
def Chain.borrowable : Chain → Bool
  | .ident r => !r.constOrReadonly
  | .sel x | .index x | .paren x => x.borrowable

/-- does the type checker reject this mutation? -/
def implRejects (r : Root) (path : List Seg) (f : Form) : Bool :=
  let c := Chain.ofPath r path
  match f with
  | .assign | .compound | .incDec | .callMutMethod => checkMutabilityBlocks c
  | .mutBorrow | .passMut =>
    -- checkBorrowExpr: reference of a reference; then the mutability of the place; then addressability
    (path.isEmpty && r.isRef) || checkMutabilityBlocks c || !c.borrowable

end FerretVerif.Mut
