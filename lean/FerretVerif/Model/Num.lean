/-
  Model/Num.lean — the 17 numeric types of Ferret, their value sets, and the
  closed-form decision procedure for "every value of S is exactly a value of T".

  Core-only (no Mathlib): linked into `fvdriver`.

  Value space.  Every value of every numeric type is an integer multiple of
  2^(-E) where E = 262378 = -(emin - p + 1) of binary256 (the finest grid any of
  the types uses).  A value is therefore represented by the integer `v` denoting
  the real number  v · 2^(-E).  There is no rounding anywhere in this file.
-/
namespace FerretVerif.Num

inductive NumTy
  | i8 | i16 | i32 | i64 | i128 | i256
  | u8 | u16 | u32 | u64 | u128 | u256
  | f32 | f64 | f128 | f256 | byte
  deriving DecidableEq, Repr, Inhabited

namespace NumTy

def all : List NumTy :=
  [i8, i16, i32, i64, i128, i256, u8, u16, u32, u64, u128, u256, f32, f64, f128, f256, byte]

def name : NumTy → String
  | i8 => "i8" | i16 => "i16" | i32 => "i32" | i64 => "i64" | i128 => "i128" | i256 => "i256"
  | u8 => "u8" | u16 => "u16" | u32 => "u32" | u64 => "u64" | u128 => "u128" | u256 => "u256"
  | f32 => "f32" | f64 => "f64" | f128 => "f128" | f256 => "f256" | byte => "byte"

def ofName? (s : String) : Option NumTy := all.find? (fun t => t.name == s)

def bits : NumTy → Nat
  | i8 | u8 | byte => 8
  | i16 | u16 => 16
  | i32 | u32 | f32 => 32
  | i64 | u64 | f64 => 64
  | i128 | u128 | f128 => 128
  | i256 | u256 | f256 => 256

def isSigned : NumTy → Bool
  | i8 | i16 | i32 | i64 | i128 | i256 => true
  | _ => false

def isFloat : NumTy → Bool
  | f32 | f64 | f128 | f256 => true
  | _ => false

/-- smallest value of an integer type -/
def lo (t : NumTy) : Int := if t.isSigned then -(2 ^ (t.bits - 1) : Nat) else 0
/-- largest value of an integer type -/
def hi (t : NumTy) : Int := if t.isSigned then (2 ^ (t.bits - 1) : Nat) - 1 else (2 ^ t.bits : Nat) - 1

/-- IEEE-754 binaryN precision (significand bits incl. the hidden one) -/
def prec : NumTy → Nat
  | f32 => 24 | f64 => 53 | f128 => 113 | f256 => 237 | _ => 0
/-- IEEE-754 binaryN maximal exponent -/
def emax : NumTy → Nat
  | f32 => 127 | f64 => 1023 | f128 => 16383 | f256 => 262143 | _ => 0

end NumTy

/-- grid exponent: all values are multiples of 2^(-E) -/
def E : Nat := 262378

/-- smallest / largest exponent (shifted by E) of the unit in the last place of a
    finite value of float type `t`:  emin - p + 1 + E  and  emax - p + 1 + E,
    with emin = 1 - emax. -/
def NumTy.kmin (t : NumTy) : Nat := E + 2 - t.emax - t.prec
def NumTy.kmax (t : NumTy) : Nat := E + t.emax + 1 - t.prec

/-- `Rep t v`: the real number v·2^(-E) is a value of type `t`. -/
def Rep (t : NumTy) (v : Int) : Prop :=
  match t.isFloat with
  | true  => ∃ (m : Int) (k : Nat), m.natAbs < 2 ^ t.prec ∧ t.kmin ≤ k ∧ k ≤ t.kmax ∧ v = m * (2 ^ k : Nat)
  | false => ∃ n : Int, t.lo ≤ n ∧ n ≤ t.hi ∧ v = n * (2 ^ E : Nat)

/-- closed form: is every value of `s` a value of `t`? -/
def losslessDec (s t : NumTy) : Bool :=
  match s.isFloat, t.isFloat with
  | false, false => decide (t.lo ≤ s.lo ∧ s.hi ≤ t.hi)
  | false, true  => decide (s.hi ≤ (2 ^ t.prec : Nat) ∧ -((2 ^ t.prec : Nat) : Int) ≤ s.lo)
  | true,  true  => decide (s.prec ≤ t.prec)
  | true,  false => false

/-- A value of `s` that `t` cannot hold, as an exact integer or as m·2^e text
    (used by the failing-input search). `none` when the conversion is lossless. -/
def lossWitness (s t : NumTy) : Option String :=
  if losslessDec s t then none else
  match s.isFloat, t.isFloat with
  | false, false =>
      if s.hi > t.hi then some (toString s.hi) else some (toString s.lo)
  | false, true =>
      if s.hi > (2 ^ t.prec : Nat) then some (toString ((2 ^ t.prec : Nat) + 1))
      else some (toString (-(((2 ^ t.prec : Nat) + 1 : Nat) : Int)))
  | true, true => some s!"1p{(s.kmin : Int) - E}"
  | true, false => some "0.5"

inductive Compat | incompatible | identical | implicit | explicit
  deriving DecidableEq, Repr, Inhabited

def Compat.ofName? : String → Option Compat
  | "incompatible" => some .incompatible | "identical" => some .identical
  | "implicit" => some .implicit | "explicit" => some .explicit | _ => none

/-- one row of the regenerated conversion table -/
structure Row where
  src : NumTy
  tgt : NumTy
  compat : Compat
  lossless : Bool     -- isLosslessNumericConversion(src, tgt)
  deriving DecidableEq, Repr

end FerretVerif.Num
