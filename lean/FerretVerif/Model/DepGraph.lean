/-
  Model/DepGraph.lean — import graph bookkeeping of internal/context_v2/context.go
  (AddDependency / findCycle / hasCyclePath / ComputeTopologicalOrder) and the scheduling skeleton of
  internal/pipeline/parse.go (processModule / parseModule) as a transition system.  Modules are `Nat`s.
  Core-only.
-/
namespace FerretVerif.DepGraph

/-- DepGraph: importer ↦ imported modules, in insertion order (a Go map of slices) -/
abbrev Graph := List (Nat × List Nat)

def succs (g : Graph) (a : Nat) : List Nat :=
  match g.find? (·.1 == a) with
  | some (_, ds) => ds
  | none => []

def nodes (g : Graph) : List Nat := (g.map (·.1) ++ g.flatMap (·.2)).eraseDups

/-- hasCyclePath: DFS from `start` looking for `target`, with the shared `visited` set
    (fuel bounds the recursion depth; `nodes.length + 1` always suffices, see the proofs) -/
def dfs (g : Graph) (target : Nat) : Nat → Nat → List Nat → Bool × List Nat
  | 0, _, visited => (false, visited)
  | fuel + 1, start, visited =>
    if start == target then (true, visited)
    else if visited.contains start then (false, visited)
    else
      let rec loop : List Nat → List Nat → Bool × List Nat
        | [], vis => (false, vis)
        | d :: ds, vis =>
          match dfs g target fuel d vis with
          | (true, vis') => (true, vis')
          | (false, vis') => loop ds vis'
      loop (succs g start) (start :: visited)

/-- findCycle(from, to) ≠ nil -/
def hasPath (g : Graph) (a b : Nat) : Bool := (dfs g b ((nodes g).length + 2) a []).1

def insertEdge (g : Graph) (a b : Nat) : Graph :=
  if g.any (·.1 == a) then g.map fun (n, ds) => if n == a then (n, ds ++ [b]) else (n, ds)
  else g ++ [(a, [b])]

/-- AddDependency(importer, imported): `none` = "circular import detected" (edge NOT inserted) -/
def addDep (g : Graph) (importer imported : Nat) : Option Graph :=
  if hasPath g imported importer then none
  else if (succs g importer).contains imported then some g
  else some (insertEdge g importer imported)

/-- a sequence of AddDependency calls: final graph and the per-call verdicts (true = accepted) -/
def addAll : Graph → List (Nat × Nat) → Graph × List Bool
  | g, [] => (g, [])
  | g, (a, b) :: es =>
    match addDep g a b with
    | none => let (g', vs) := addAll g es; (g', false :: vs)
    | some g1 => let (g', vs) := addAll g1 es; (g', true :: vs)

/-! ### ComputeTopologicalOrder (Kahn; ready sets sorted) -/

def insertSorted (x : Nat) : List Nat → List Nat
  | [] => [x]
  | y :: ys => if x ≤ y then x :: y :: ys else y :: insertSorted x ys

def sortNat (l : List Nat) : List Nat := l.foldr insertSorted []

def getDeg (deg : List (Nat × Nat)) (m : Nat) : Nat :=
  match deg.find? (·.1 == m) with
  | some (_, d) => d
  | none => 0

/-- one round: `current` is emitted; every importer loses one unit per occurrence of `current` among
    its deps; those reaching 0 form `next` (sorted) -/
def kahnStep (g : Graph) (deg : List (Nat × Nat)) (current : Nat) : List (Nat × Nat) × List Nat :=
  let deg' := deg.map fun (m, d) => (m, d - (succs g m).count current)
  let next := (deg'.filter fun (m, d) => d == 0 && getDeg deg m != 0 ).map (·.1)
  (deg', sortNat next)

def kahnLoop (g : Graph) : Nat → List Nat → List (Nat × Nat) → List Nat → List Nat
  | 0, _, _, sorted => sorted.reverse
  | _, [], _, sorted => sorted.reverse
  | fuel + 1, current :: queue, deg, sorted =>
    let (deg', next) := kahnStep g deg current
    kahnLoop g fuel (queue ++ next) deg' (current :: sorted)

/-- ComputeTopologicalOrder over the module set `mods` -/
def topo (g : Graph) (mods : List Nat) : List Nat :=
  let all := (mods ++ g.map (·.1)).eraseDups
  let deg := all.map fun m => (m, (succs g m).length)
  let queue := sortNat ((mods.eraseDups).filter fun m => (succs g m).length == 0)
  kahnLoop g (all.length + 1) queue deg []

/-! ### scheduling skeleton of parse.go -/

/-- a parse task: the module, its remaining AddDependency calls, its remaining processModule calls -/
structure Task where
  mod : Nat
  adds : List Nat
  spawns : List Nat
  deriving Repr, DecidableEq

structure Sched where
  graph : Graph
  seen : List Nat            -- sync.Map `seen`
  tasks : List Task          -- live goroutines (the WaitGroup counter is `tasks.length`)
  parsed : List Nat          -- modules whose parseModule has started, in start order
  errors : List (Nat × Nat)  -- rejected edges (circular import diagnostics)
  deriving Repr

/-- source project: module ↦ its top-level imports in source order -/
abbrev Project := List (Nat × List Nat)

def importsOf (p : Project) (m : Nat) : List Nat := succs p m

def initSched (p : Project) (entry : Nat) : Sched :=
  { graph := [], seen := [entry], tasks := [⟨entry, importsOf p entry, importsOf p entry⟩], parsed := [entry], errors := [] }

/-- task `i` performs its next atomic action (AddDependency under ctx.mu, or processModule's LoadOrStore) -/
def step (p : Project) (s : Sched) (i : Nat) : Option Sched :=
  match s.tasks[i]? with
  | none => none
  | some t =>
    match t.adds with
    | b :: rest =>
      let t' := { t with adds := rest }
      match addDep s.graph t.mod b with
      | none => some { s with tasks := s.tasks.set i t', errors := s.errors ++ [(t.mod, b)] }
      | some g' => some { s with graph := g', tasks := s.tasks.set i t' }
    | [] =>
      match t.spawns with
      | m :: rest =>
        let t' := { t with spawns := rest }
        if s.seen.contains m then some { s with tasks := s.tasks.set i t' }
        else some { s with seen := m :: s.seen, parsed := s.parsed ++ [m],
                           tasks := (s.tasks.set i t') ++ [⟨m, importsOf p m, importsOf p m⟩] }
      | [] => some { s with tasks := s.tasks.eraseIdx i }     -- goroutine ends: wg.Done()

/-- run a schedule: a list of task indices (indices that name no live task are skipped) -/
def runSched (p : Project) : Sched → List Nat → Sched
  | s, [] => s
  | s, i :: is =>
    match step p s i with
    | some s' => runSched p s' is
    | none => runSched p s is

/-- run to completion with the deterministic "always task 0" schedule (fuel-bounded) -/
def runFifo (p : Project) : Nat → Sched → Sched
  | 0, s => s
  | fuel + 1, s => match step p s 0 with
    | some s' => runFifo p fuel s'
    | none => s

end FerretVerif.DepGraph
