/-
  Model/Visibility.lean — visibility by capitalisation (C12): utils.IsExported (strings.IsCapitalized: the first BYTE is
  'A'..'Z'), the cross-module export test of resolveStaticAccess / inferScopeResolutionExprType and the private-field
  test of checkSelectorExpr (a lowercase field is reachable only when the selector's base is an identifier bound to a
  receiver).  Core-only.
-/
namespace FerretVerif.Visibility

/-- utils.IsExported on the bytes of a name -/
def isExported : List Nat → Bool
  | [] => false
  | c :: _ => 65 ≤ c && c ≤ 90

/-- `module::name` from module `user`, declared in module `owner` -/
def staticAccessAllowed (name : List Nat) (sameModule : Bool) : Bool := sameModule || isExported name

/-- the base of a selector expression `base.field` -/
inductive Base
  | ident (isReceiver : Bool)       -- a plain identifier; is it bound to a receiver symbol?
  | selector (b : Base)             -- x.f
  | index (b : Base)                -- x[i]
  | paren (b : Base)                -- (x)
  | call                            -- f(...)
  deriving Repr, DecidableEq

/-- checkSelectorExpr's test for a field named `field` -/
def fieldAccessAllowed (field : List Nat) : Base → Bool
  | .ident r => isExported field || r
  | _ => isExported field

end FerretVerif.Visibility
