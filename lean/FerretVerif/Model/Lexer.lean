/-
  Model/Lexer.lean — internal/frontend/lexer/tokenizer.go (Tokenize) and internal/source/positions.go
  (Position.Advance) over ASCII input (C13, C19).

  The source is a list of bytes (as `Nat`; the correspondence domain is 0..127, where a Go rune is one byte).
  `Tokenize` tries an ordered list of regular expressions at the current offset; the first one that matches
  at offset 0 wins.  The first seven patterns are modelled by the hand-written scanners below (their regex
  sources are compared with the expected strings on every run), the remaining ones are fixed operator strings
  taken, in order, from the regenerated table `Gen.LexTables.ops`; the keyword set is `Gen.LexTables.keywords`.
  Go's regexp is leftmost-first: alternatives are tried in order and repetition is greedy.  Core-only.
-/
namespace FerretVerif.Lexer

abbrev Byte := Nat

structure Pos where
  line : Nat
  col : Nat
  idx : Nat
  deriving DecidableEq, Repr, Inhabited

def Pos.start : Pos := ⟨1, 1, 0⟩

/-- Position.Advance over one matched text: `\n` starts a new line, a tab moves the column by 4 and the byte
    right after a tab (inside the same text) does not move it ("original behaviour" in positions.go). -/
def advanceGo (p : Pos) (prevTab : Bool) : List Byte → Pos
  | [] => p
  | c :: cs =>
    if c = 10 then advanceGo ⟨p.line + 1, 1, p.idx + 1⟩ false cs
    else if c = 9 then advanceGo ⟨p.line, p.col + 4, p.idx + 1⟩ true cs
    else advanceGo ⟨p.line, if prevTab then p.col else p.col + 1, p.idx + 1⟩ false cs

def advance (p : Pos) (s : List Byte) : Pos := advanceGo p false s

/-! ### character classes -/
def isSpace (c : Byte) : Bool := c = 9 || c = 10 || c = 12 || c = 13 || c = 32       -- Go `\s`
def isDigit (c : Byte) : Bool := 48 ≤ c && c ≤ 57
def isHex (c : Byte) : Bool := isDigit c || (97 ≤ c && c ≤ 102) || (65 ≤ c && c ≤ 70)
def isOct (c : Byte) : Bool := 48 ≤ c && c ≤ 55
def isBin (c : Byte) : Bool := c = 48 || c = 49
def isIdStart (c : Byte) : Bool := (97 ≤ c && c ≤ 122) || (65 ≤ c && c ≤ 90) || c = 95
def isIdCont (c : Byte) : Bool := isIdStart c || isDigit c

/-- length of the longest prefix whose elements satisfy `p` -/
def spanLen (p : Byte → Bool) : List Byte → Nat
  | [] => 0
  | c :: cs => if p c then spanLen p cs + 1 else 0

/-- `\s+` -/
def scanWs (s : List Byte) : Option Nat :=
  let n := spanLen isSpace s
  if n = 0 then none else some n

/-- `//[^\n\r]*` -/
def scanLineComment : List Byte → Option Nat
  | 47 :: 47 :: rest => some (2 + spanLen (fun c => !(c = 10 || c = 13)) rest)
  | _ => none

/-- index of the first occurrence of the two bytes `a b` -/
def findPair (a b : Byte) : List Byte → Option Nat
  | [] => none
  | [_] => none
  | x :: y :: rest => if x = a && y = b then some 0 else (findPair a b (y :: rest)).map (· + 1)

/-- `(?s)/\*.*?\*/` -/
def scanBlockComment : List Byte → Option Nat
  | 47 :: 42 :: rest => (findPair 42 47 rest).map (· + 4)
  | _ => none

def findByte (a : Byte) : List Byte → Option Nat
  | [] => none
  | x :: rest => if x = a then some 0 else (findByte a rest).map (· + 1)

/-- `"[^"]*"` -/
def scanString : List Byte → Option Nat
  | 34 :: rest => (findByte 34 rest).map (· + 2)
  | _ => none

def byteAlt1 : List Byte → Bool
  | 92 :: 120 :: h1 :: h2 :: 39 :: _ => isHex h1 && isHex h2
  | _ => false

def byteAlt2 : List Byte → Bool
  | 92 :: c :: 39 :: _ => !(c = 10)
  | _ => false

def byteAlt3 : List Byte → Bool
  | c :: 39 :: _ => decide (c ≤ 127)
  | _ => false

/-- `'(?:\\x[0-9a-fA-F]{2}|\\.|[\x00-\x7F])'` (alternatives in order, the closing quote is part of each try) -/
def scanByte : List Byte → Option Nat
  | 39 :: rest =>
    if byteAlt1 rest then some 6 else if byteAlt2 rest then some 4 else if byteAlt3 rest then some 3 else none
  | _ => none

/-- `D(?:D|_D)*` after the first digit has been seen: number of further bytes -/
def digitsTail (p : Byte → Bool) : List Byte → Nat
  | [] => 0
  | [c] => if p c then 1 else 0
  | c :: d :: rest =>
    if p c then digitsTail p (d :: rest) + 1
    else if c = 95 && p d then digitsTail p rest + 2
    else 0

/-- `D(?:D|_D)*` : length, 0 when the first byte is not a digit of the class -/
def digitsRun (p : Byte → Bool) : List Byte → Nat
  | [] => 0
  | c :: rest => if p c then 1 + digitsTail p rest else 0

/-- `0[xX]H(?:H|_H)*` and the like -/
def scanPrefixed (m1 m2 : Byte) (p : Byte → Bool) : List Byte → Option Nat
  | 48 :: m :: rest =>
    if m = m1 || m = m2 then
      let n := digitsRun p rest
      if n = 0 then none else some (2 + n)
    else none
  | _ => none

/-- `(?:\.Dec)?` : bytes consumed -/
def fracLen : List Byte → Nat
  | 46 :: r => let k := digitsRun isDigit r; if k = 0 then 0 else 1 + k
  | _ => 0

/-- `(?:[eE][+-]?Dec)?` : bytes consumed -/
def expLen : List Byte → Nat
  | c :: r =>
    if c = 101 || c = 69 then
      match r with
      | sg :: r' =>
        if sg = 43 || sg = 45 then
          let k := digitsRun isDigit r'; if k = 0 then 0 else 2 + k
        else
          let k := digitsRun isDigit r; if k = 0 then 0 else 1 + k
      | [] => 0
    else 0
  | [] => 0

/-- FloatNumber = Dec (?:\.Dec)? (?:[eE][+-]?Dec)? -/
def scanFloat (s : List Byte) : Option Nat :=
  let n := digitsRun isDigit s
  if n = 0 then none else
  let f := fracLen (s.drop n)
  let e := expLen ((s.drop n).drop f)
  some (n + f + e)

def scanUnsigned (s : List Byte) : Option Nat :=
  match scanPrefixed 120 88 isHex s with
  | some n => some n
  | none =>
    match scanPrefixed 111 79 isOct s with
    | some n => some n
    | none =>
      match scanPrefixed 98 66 isBin s with
      | some n => some n
      | none => scanFloat s

/-- NumberPattern = `-?(?:Hex|Oct|Bin|Float)` -/
def scanNumber : List Byte → Option Nat
  | 45 :: rest => (scanUnsigned rest).map (· + 1)
  | s => scanUnsigned s

/-- `[a-zA-Z_][a-zA-Z0-9_]*` -/
def scanIdent : List Byte → Option Nat
  | c :: rest => if isIdStart c then some (1 + spanLen isIdCont rest) else none
  | [] => none

def isPrefixOf : List Byte → List Byte → Bool
  | [], _ => true
  | _ :: _, [] => false
  | a :: as, b :: bs => a = b && isPrefixOf as bs

/-- the first operator pattern (in table order) whose literal is a prefix of the input; the handler then
    consumes — and names the token by — the token text paired with it (`defaultHandler(token)`) -/
def scanOp : List (List Byte × List Byte) → List Byte → Option (List Byte)
  | [], _ => none
  | (lit, tok) :: ops, s => if isPrefixOf lit s then some tok else scanOp ops s

/-! ### token values -/
inductive Kind
  | ident | keyword | number | string | byte | comment | op | eof
  deriving DecidableEq, Repr, Inhabited

structure Tok where
  kind : Kind
  text : List Byte       -- the token value the parser sees
  start : Pos
  stop : Pos
  deriving DecidableEq, Repr, Inhabited

def hexVal (c : Byte) : Nat :=
  if isDigit c then c - 48 else if 97 ≤ c && c ≤ 102 then c - 87 else c - 55

/-- processStringEscapes -/
def unescape : List Byte → List Byte
  | [] => []
  | [c] => [c]
  | 92 :: d :: rest =>
    if d = 110 then 10 :: unescape rest
    else if d = 114 then 13 :: unescape rest
    else if d = 116 then 9 :: unescape rest
    else if d = 48 then 0 :: unescape rest
    else if d = 92 then 92 :: unescape rest
    else if d = 34 then 34 :: unescape rest
    else if d = 120 then
      match rest with
      | h1 :: h2 :: rest' =>
        if isHex h1 && isHex h2 then (hexVal h1 * 16 + hexVal h2) :: unescape rest'
        else 92 :: 120 :: unescape (h1 :: h2 :: rest')
      | r => 92 :: 120 :: unescape r
    else 92 :: unescape (d :: rest)
  | c :: rest => c :: unescape rest
termination_by s => s.length

/-- normalizeCommentText -/
def commentText (raw : List Byte) : List Byte :=
  match raw with
  | 47 :: 47 :: rest => (match rest with | 32 :: r => r | r => r)
  | 47 :: 42 :: rest => rest.take (rest.length - 2)
  | r => r

def hexDigit (n : Nat) : Byte := if n < 10 then 48 + n else 87 + n

/-- parseByteEscape on the text between the quotes: (token value, is an error reported?) -/
def byteValue (lit : List Byte) : List Byte × Bool :=
  match lit with
  | [] => ([], true)
  | 92 :: d :: rest =>
    if d = 110 then ([10], false) else if d = 114 then ([13], false) else if d = 116 then ([9], false)
    else if d = 48 then ([0], false) else if d = 92 then ([92], false) else if d = 39 then ([39], false)
    else if d = 34 then ([34], false)
    else if d = 120 then
      match rest with
      | h1 :: h2 :: _ =>
        if isHex h1 && isHex h2 then
          let v := hexVal h1 * 16 + hexVal h2
          ([92, 120, hexDigit (v / 16), hexDigit (v % 16)], false)
        else (lit, true)
      | _ => (lit, true)
    else (lit, true)
  | [c] => if c > 127 then (lit, true) else ([c], false)
  | _ => (lit, true)

/-! ### one step of Tokenize -/
structure Step where
  n : Nat                 -- bytes consumed
  tok : Option (Kind × List Byte)
  err : Bool              -- a diagnostic is added
  deriving Repr, Inhabited

structure Tables where
  ops : List (List Byte × List Byte)     -- (literal the regex matches, token text)
  keywords : List (List Byte)

def step (T : Tables) (s : List Byte) : Step :=
  match scanWs s with
  | some n => ⟨n, none, false⟩
  | none =>
  match scanLineComment s with
  | some n => ⟨n, some (.comment, commentText (s.take n)), false⟩
  | none =>
  match scanBlockComment s with
  | some n => ⟨n, some (.comment, commentText (s.take n)), false⟩
  | none =>
  match scanString s with
  | some n => ⟨n, some (.string, unescape ((s.take (n - 1)).drop 1)), false⟩
  | none =>
  match scanByte s with
  | some n =>
    let (v, e) := byteValue ((s.take (n - 1)).drop 1)
    ⟨n, some (.byte, v), e⟩
  | none =>
  match scanNumber s with
  | some n => ⟨n, some (.number, s.take n), false⟩
  | none =>
  match scanIdent s with
  | some n =>
    let w := s.take n
    ⟨n, some (if T.keywords.contains w then .keyword else .ident, w), false⟩
  | none =>
  match scanOp T.ops s with
  | some op => ⟨op.length, some (.op, op), false⟩
  | none => ⟨1, none, true⟩       -- "unrecognized character": reported and skipped

structure Result where
  toks : List Tok
  errs : Nat
  deriving Repr, Inhabited

def eofText : List Byte := "end of file".toUTF8.toList.map (·.toNat)

/-- the Tokenize loop; `fuel` bounds the number of iterations (`lex` passes `s.length`, which always suffices) -/
def lexLoop (T : Tables) : Nat → Pos → List Byte → Result
  | _, p, [] => ⟨[⟨.eof, eofText, p, p⟩], 0⟩
  | 0, p, _ :: _ => ⟨[⟨.eof, eofText, p, p⟩], 0⟩
  | fuel + 1, p, s@(_ :: _) =>
    let st := step T s
    let p' := advance p (s.take st.n)
    let r := lexLoop T fuel p' (s.drop st.n)
    let toks := match st.tok with
      | some (k, v) => ⟨k, v, p, p'⟩ :: r.toks
      | none => r.toks
    ⟨toks, r.errs + (if st.err then 1 else 0)⟩

def lex (T : Tables) (s : List Byte) : Result := lexLoop T s.length Pos.start s

end FerretVerif.Lexer
