/-
  Model/RtMap.lean — transcription of runtime/core/map.c (chained hash table) and runtime/core/array.c
  (growable array), with the abstract specs they must refine.  Parametric in the key type and the hash
  function (the theorems hold for ANY hash), `fnv1a` is the concrete one used by the C code.  Core-only.
-/
namespace FerretVerif.RtMap

structure Entry (K V : Type) where
  hash : Nat
  key : K
  val : V
  deriving Repr

/-- ferret_map_t: buckets (each a chain, head first) and the entry count -/
structure Map (K V : Type) where
  buckets : List (List (Entry K V))
  size : Nat
  deriving Repr

variable {K V : Type} [DecidableEq K]

def initialBuckets : Nat := 16

/-- (size_t)(bucket_count * 0.75) -/
def threshold (bucketCount : Nat) : Nat := bucketCount * 3 / 4

/-- ferret_map_new -/
def new : Map K V := ⟨List.replicate initialBuckets [], 0⟩

/-- push an entry at the head of bucket `i` -/
def pushAt (bs : List (List (Entry K V))) (i : Nat) (e : Entry K V) : List (List (Entry K V)) :=
  bs.modify i (fun chain => e :: chain)

/-- ferret_map_resize: walk old buckets in index order, each chain from its head, re-hash every entry and
    push it at the head of its new bucket -/
def resize (hash : K → Nat) (m : Map K V) (newCount : Nat) : Map K V :=
  let fresh : List (List (Entry K V)) := List.replicate newCount []
  let nb := m.buckets.flatten.foldl (fun acc e =>
    let h := hash e.key
    pushAt acc (h % newCount) { e with hash := h }) fresh
  ⟨nb, m.size⟩

/-- first entry of a chain with this hash and key -/
def findChain (chain : List (Entry K V)) (h : Nat) (k : K) : Option (Entry K V) :=
  chain.find? (fun e => e.hash == h && decide (e.key = k))

/-- update the value of the first matching entry of a chain -/
def updateChain (chain : List (Entry K V)) (h : Nat) (k : K) (v : V) : List (Entry K V) :=
  match chain with
  | [] => []
  | e :: es => if e.hash == h && decide (e.key = k) then { e with val := v } :: es else e :: updateChain es h k v

/-- ferret_map_set -/
def set (hash : K → Nat) (m : Map K V) (k : K) (v : V) : Map K V :=
  let m := if m.size ≥ threshold m.buckets.length then resize hash m (m.buckets.length * 2) else m
  let h := hash k
  let b := h % m.buckets.length
  let chain := m.buckets.getD b []
  match findChain chain h k with
  | some _ => ⟨m.buckets.set b (updateChain chain h k v), m.size⟩
  | none => ⟨pushAt m.buckets b ⟨h, k, v⟩, m.size + 1⟩

/-- ferret_map_get -/
def get (hash : K → Nat) (m : Map K V) (k : K) : Option V :=
  let h := hash k
  (findChain (m.buckets.getD (h % m.buckets.length) []) h k).map (·.val)

/-- ferret_map_has -/
def has (hash : K → Nat) (m : Map K V) (k : K) : Bool := (get hash m k).isSome

/-- ferret_map_iter_begin / iter_next: entries in bucket order, each chain head first -/
def iterate (m : Map K V) : List (K × V) := m.buckets.flatten.map fun e => (e.key, e.val)

/-- ferret_map_from_pairs -/
def fromPairs (hash : K → Nat) (pairs : List (K × V)) : Map K V :=
  let m : Map K V := new
  let needed := pairs.length * 4 / 3 + 1
  let m := if needed > m.buckets.length then
      let rec grow : Nat → Nat → Nat
        | 0, nb => nb
        | fuel + 1, nb => if nb < needed then grow fuel (nb * 2) else nb
      resize hash m (grow 64 initialBuckets)
    else m
  pairs.foldl (fun m (k, v) => set hash m k v) m

/-! ### abstract specification: an association list with "last write wins" -/

abbrev Spec (K V : Type) := List (K × V)

def Spec.get (s : Spec K V) (k : K) : Option V := (s.find? (fun p => decide (p.1 = k))).map (·.2)
def Spec.set (s : Spec K V) (k : K) (v : V) : Spec K V :=
  if s.any (fun p => decide (p.1 = k)) then s.map (fun p => if p.1 = k then (k, v) else p) else s ++ [(k, v)]
def Spec.size (s : Spec K V) : Nat := s.length

/-- operations of a history -/
inductive Op (K V : Type)
  | set (k : K) (v : V)
  | get (k : K)
  | has (k : K)
  | size
  | iter
  deriving Repr

inductive Out (K V : Type)
  | unit
  | val (v : Option V)
  | bool (b : Bool)
  | nat (n : Nat)
  | entries (es : List (K × V))
  deriving Repr

def stepImpl (hash : K → Nat) (m : Map K V) : Op K V → Map K V × Out K V
  | .set k v => (set hash m k v, .unit)
  | .get k => (m, .val (get hash m k))
  | .has k => (m, .bool (has hash m k))
  | .size => (m, .nat m.size)
  | .iter => (m, .entries (iterate m))

def stepSpec (s : Spec K V) : Op K V → Spec K V × Out K V
  | .set k v => (s.set k v, .unit)
  | .get k => (s, .val (s.get k))
  | .has k => (s, .bool (s.get k).isSome)
  | .size => (s, .nat s.size)
  | .iter => (s, .entries s)

/-! ### concrete hash -/

/-- fnv1a_hash over bytes (32-bit) -/
def fnv1a (bytes : List Nat) : Nat :=
  bytes.foldl (fun h b => ((h ^^^ b) * 16777619) % 2 ^ 32) 2166136261

def leBytes (n : Nat) (v : Nat) : List Nat := (List.range n).map fun i => (v / 256 ^ i) % 256

/-! ### dynamic array (array.c) -/

structure Arr (V : Type) where
  data : List V
  capacity : Nat
  deriving Repr

def minCapacity : Nat := 4

/-- ferret_array_new -/
def Arr.new (initialCapacity : Nat) : Arr V := ⟨[], if initialCapacity < minCapacity then minCapacity else initialCapacity⟩

/-- ferret_array_append -/
def Arr.append (a : Arr V) (x : V) : Arr V :=
  let cap := if a.data.length ≥ a.capacity then
      (if a.capacity * 2 < minCapacity then minCapacity else a.capacity * 2) else a.capacity
  ⟨a.data ++ [x], cap⟩

/-- ferret_array_get: `none` = refused (NULL) -/
def Arr.get (a : Arr V) (i : Int) : Option V := if i < 0 ∨ i ≥ a.data.length then none else a.data[i.toNat]?

/-- ferret_array_set: (array, accepted?) -/
def Arr.set (a : Arr V) (i : Int) (x : V) : Arr V × Bool :=
  if i < 0 ∨ i ≥ a.data.length then (a, false) else (⟨a.data.set i.toNat x, a.capacity⟩, true)

def Arr.len (a : Arr V) : Nat := a.data.length

end FerretVerif.RtMap
