/-
  Model/Borrow.lean — the loan discipline of internal/hir/analysis/borrow.go on straight-line code (C07):
  pathsOverlap, the conflict rules of addBorrow / checkAccess, and liveness of a reference variable "until its
  last use" (computeLastUse / releaseExpiredRefs).  A program is a list of events; the checker accepts it iff no
  event conflicts with a loan that is still live.  Core-only.
-/
namespace FerretVerif.Borrow

/-- a path segment below a base variable: a named field or an index (all indices alias) -/
inductive Seg
  | fld (name : Nat)
  | idx
  deriving DecidableEq, Repr, Inhabited

/-- pathsOverlap -/
def overlap : List Seg → List Seg → Bool
  | [], _ => true
  | _, [] => true
  | a :: as, b :: bs =>
    if a = .idx || b = .idx then true
    else if a = b then overlap as bs
    else false

structure Place where
  base : Nat
  path : List Seg
  deriving DecidableEq, Repr, Inhabited

def Place.overlaps (p q : Place) : Bool := p.base = q.base && overlap p.path q.path

structure Loan where
  ref : Nat            -- the reference variable holding it
  place : Place
  isMut : Bool
  deriving DecidableEq, Repr, Inhabited

inductive Event
  | borrow (r : Nat) (p : Place) (isMut : Bool)     -- let r: &T = &p   /  let r: &'T = &'p
  | use (r : Nat)                                  -- any use of r
  | read (p : Place)
  | write (p : Place)
  | temp (p : Place) (isMut : Bool)                  -- f(&p) / f(&'p): a loan that ends with the statement
  deriving DecidableEq, Repr, Inhabited

/-- is reference `r` used by one of the events? -/
def usedLater (r : Nat) : List Event → Bool
  | [] => false
  | .use r' :: rest => r' = r || usedLater r rest
  | _ :: rest => usedLater r rest

/-- does taking a new loan conflict with a live one?  (addBorrow) -/
def borrowConflicts (live : List Loan) (p : Place) (isMut : Bool) : Bool :=
  live.any fun l => l.place.overlaps p && (isMut || l.isMut)

/-- checkAccess: a read conflicts with mutable loans, a write with every loan -/
def readConflicts (live : List Loan) (p : Place) : Bool := live.any fun l => l.place.overlaps p && l.isMut
def writeConflicts (live : List Loan) (p : Place) : Bool := live.any fun l => l.place.overlaps p

/-- releaseExpiredRefs: after a statement, loans of references that are not used any more end -/
def expire (live : List Loan) (rest : List Event) : List Loan := live.filter fun l => usedLater l.ref rest

/-- does the event conflict with a live loan? -/
def conflicts (live : List Loan) : Event → Bool
  | .borrow _ p m => borrowConflicts live p m
  | .use _ => false
  | .read p => readConflicts live p
  | .write p => writeConflicts live p
  | .temp p m => borrowConflicts live p m

/-- the loans after the event (only a `let r = &p` adds one that outlives its statement) -/
def extend (live : List Loan) : Event → List Loan
  | .borrow r p m => live ++ [⟨r, p, m⟩]
  | _ => live

/-- the checker: `none` = accepted, `some i` = event `i` conflicts -/
def check : Nat → List Loan → List Event → Option Nat
  | _, _, [] => none
  | i, live, e :: rest =>
    if conflicts live e then some i
    else check (i + 1) (expire (extend live e) rest) rest

def accepts (es : List Event) : Bool := (check 0 [] es).isNone

end FerretVerif.Borrow
