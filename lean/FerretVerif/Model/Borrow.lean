/-
  Model/Borrow.lean — the loan discipline of internal/hir/analysis/borrow.go on straight-line code (C07):
  pathsOverlap, the conflict rules of addBorrow / checkAccess, and liveness of a reference variable "until its
  last use" (computeLastUse / releaseExpiredRefs).  A program is a list of events; the checker accepts it iff no
  event conflicts with a loan that is still live.  Core-only.
-/
namespace FerretVerif.Borrow

/-- a path segment below a base variable: a named field or an index (all indices alias) -/
inductive Seg
  | fld (name : Nat)
  | idx
  deriving DecidableEq, Repr, Inhabited

/-- pathsOverlap -/
def overlap : List Seg → List Seg → Bool
  | [], _ => true
  | _, [] => true
  | a :: as, b :: bs =>
    if a = .idx || b = .idx then true
    else if a = b then overlap as bs
    else false

structure Place where
  base : Nat
  path : List Seg
  deriving DecidableEq, Repr, Inhabited

def Place.overlaps (p q : Place) : Bool := p.base = q.base && overlap p.path q.path

structure Loan where
  ref : Nat            -- the reference variable holding it
  place : Place
  isMut : Bool
  deriving DecidableEq, Repr, Inhabited

inductive Event
  | borrow (r : Nat) (p : Place) (isMut : Bool)     -- let r: &T = &p   /  let r: &'T = &'p
  | use (r : Nat)                                  -- any use of r
  | read (p : Place)
  | write (p : Place)
  | temp (p : Place) (isMut : Bool)                  -- f(&p) / f(&'p): a loan that ends with the statement
  deriving DecidableEq, Repr, Inhabited

/-- is reference `r` used by one of the events? -/
def usedLater (r : Nat) : List Event → Bool
  | [] => false
  | .use r' :: rest => r' = r || usedLater r rest
  | _ :: rest => usedLater r rest

/-- does taking a new loan conflict with a live one?  (addBorrow) -/
def borrowConflicts (live : List Loan) (p : Place) (isMut : Bool) : Bool :=
  live.any fun l => l.place.overlaps p && (isMut || l.isMut)

/-- checkAccess: a read conflicts with mutable loans, a write with every loan -/
def readConflicts (live : List Loan) (p : Place) : Bool := live.any fun l => l.place.overlaps p && l.isMut
def writeConflicts (live : List Loan) (p : Place) : Bool := live.any fun l => l.place.overlaps p

/-- releaseExpiredRefs: after a statement, loans of references that are not used any more end -/
def expire (live : List Loan) (rest : List Event) : List Loan := live.filter fun l => usedLater l.ref rest

/-- does the event conflict with a live loan? -/
def conflicts (live : List Loan) : Event → Bool
  | .borrow _ p m => borrowConflicts live p m
  | .use _ => false
  | .read p => readConflicts live p
  | .write p => writeConflicts live p
  | .temp p m => borrowConflicts live p m

/-- the loans after the event (only a `let r = &p` adds one that outlives its statement) -/
def extend (live : List Loan) : Event → List Loan
  | .borrow r p m => live ++ [⟨r, p, m⟩]
  | _ => live

/-- the checker: `none` = accepted, `some i` = event `i` conflicts -/
def check : Nat → List Loan → List Event → Option Nat
  | _, _, [] => none
  | i, live, e :: rest =>
    if conflicts live e then some i
    else check (i + 1) (expire (extend live e) rest) rest

def accepts (es : List Event) : Bool := (check 0 [] es).isNone

/-! ### return lifetime (borrow.go checkReturnLifetime)

The variable a returned reference is built from: a local value, a parameter / receiver passed by value (the callee's own copy),
a parameter / receiver of reference type, or a local reference variable initialised from another variable — by a borrow
`let q = &v…` when `v` holds a value, by a copy `let q = v` when `v` is itself a reference. -/
inductive RVar
  | localVal
  | paramVal
  | paramRef
  | refTo (v : RVar)
  deriving DecidableEq, Repr, Inhabited

inductive RetForm
  | borrow (v : RVar)      -- `return &v.path` / `return &'v.path`
  | ident (v : RVar)       -- `return v`  (v a reference variable)
  deriving DecidableEq, Repr, Inhabited

/-- SPECIFICATION: does the storage the variable denotes (a value variable: its own; a reference variable: its referent's)
    belong to the callee's frame? -/
def RVar.inCallee : RVar → Bool
  | .localVal | .paramVal => true
  | .paramRef => false
  | .refTo v => v.inCallee

def RetForm.dangling : RetForm → Bool
  | .borrow v | .ident v => v.inCallee

def RVar.isRefVar : RVar → Bool
  | .paramRef | .refTo _ => true
  | _ => false

/-- `b.locals`: symbols declared by a `let` in the body -/
def RVar.isLocalSym : RVar → Bool
  | .localVal | .refTo _ => true
  | _ => false

/-- `b.bindings[v].place.base`: checkBorrowInit records the borrowed value variable, bindRefFromIdent copies the binding of
    the copied reference; a reference initialised from a reference PARAMETER has no binding -/
def RVar.bindingBase : RVar → Option RVar
  | .refTo .localVal => some .localVal
  | .refTo .paramVal => some .paramVal
  | .refTo .paramRef => none
  | .refTo (.refTo w) => (RVar.refTo w).bindingBase
  | _ => none

/-- the symbol is what checkReturnLifetime refuses to hand out: a `let` of the body, or a by-value parameter / receiver -/
def RVar.refused (v : RVar) : Bool := v.isLocalSym || v == .paramVal

/-- checkReturnLifetime: the base symbol of the returned borrow — for a re-borrow `&q.f` through a reference variable, and
    for `return q`, the base of that variable's recorded binding (none recorded: nothing to refuse) -/
def retRejects : RetForm → Bool
  | .borrow v =>
    if v.isRefVar then (match v.bindingBase with | some b => b.refused | none => false)
    else v.refused
  | .ident v => match v.bindingBase with
    | some b => b.refused
    | none => false

/-- the check as it was before the repair: a re-borrow through a local reference variable blamed the variable itself -/
def retRejectsOld : RetForm → Bool
  | .borrow v => v.isLocalSym
  | .ident v => match v.bindingBase with
    | some b => b.isLocalSym
    | none => false

end FerretVerif.Borrow
