/-
  Model/Layout.lean — transcription of internal/mir/layout.go (SizeOf, AlignOf, StructLayout,
  alignTo, clampAlign) for an arbitrary pointer size `ps`, plus the offsets used by the consumers
  (optional flag, result tag).  Core-only.
-/
namespace FerretVerif.Layout

/-- semantic types as far as layout is concerned -/
inductive Ty
  | prim (size : Nat)            -- i8..i256, u8..u256, f32..f256, bool, byte (size in bytes); 0 = void/none
  | ptr                          -- str, &T, &'T, []T, map, empty interface
  | iface2                       -- interface with methods (two pointers)
  | arr (elem : Ty) (n : Nat)    -- [n]T
  | opt (inner : Ty)             -- T?
  | res (ok err : Ty)            -- E ! T
  | struct (fields : List Ty)
  deriving Repr, Inhabited

/-- alignTo -/
def alignTo (value alignment : Nat) : Nat :=
  if alignment ≤ 1 then value
  else if value % alignment = 0 then value
  else value + (alignment - value % alignment)

/-- clampAlign -/
def clampAlign (size maxAlign : Nat) : Nat :=
  if size = 0 then 1 else if size > maxAlign then maxAlign else size

mutual
/-- DataLayout.SizeOf -/
def sizeOf (ps : Nat) : Ty → Nat
  | .prim s => s
  | .ptr => ps
  | .iface2 => ps * 2
  | .arr e n => sizeOf ps e * n
  | .opt i => alignTo (sizeOf ps i + 1) (max (alignOf ps i) 1)
  | .res o e =>
    let ua := max (alignOf ps o) (alignOf ps e)
    let us := alignTo (max (sizeOf ps o) (sizeOf ps e)) ua
    alignTo (us + 1) (max ua 1)
  | .struct fs => alignTo (structEnd ps fs 0) (structAlign ps fs)
/-- DataLayout.AlignOf -/
def alignOf (ps : Nat) : Ty → Nat
  | .prim s => clampAlign s ps
  | .ptr => ps
  | .iface2 => ps
  | .arr e _ => alignOf ps e
  | .opt i => max (alignOf ps i) 1
  | .res o e => max (alignOf ps o) (alignOf ps e)
  | .struct fs => structAlign ps fs
/-- running offset of StructLayout's loop: offset after placing `fs` starting from `off` -/
def structEnd (ps : Nat) : List Ty → Nat → Nat
  | [], off => off
  | f :: fs, off => structEnd ps fs (alignTo off (alignOf ps f) + sizeOf ps f)
/-- StructLayout.Align: max(1, field alignments) -/
def structAlign (ps : Nat) : List Ty → Nat
  | [] => 1
  | f :: fs => max (alignOf ps f) (structAlign ps fs)
end

/-- field offsets produced by StructLayout's loop -/
def fieldOffsets (ps : Nat) : List Ty → Nat → List Nat
  | [], _ => []
  | f :: fs, off =>
    let o := alignTo off (alignOf ps f)
    o :: fieldOffsets ps fs (o + sizeOf ps f)

/-- offset of the is-some flag of `T?` as used by emitOptionalSome / optional.c / map.c -/
def optFlagOff (ps : Nat) (inner : Ty) : Nat := sizeOf ps inner

/-- resultTagOffset (emit.go): offset of the ok/err tag of `E ! T` -/
def resTagOff (ps : Nat) (ok err : Ty) : Nat :=
  let ua := max (max (alignOf ps ok) (alignOf ps err)) 1
  alignTo (max (sizeOf ps ok) (sizeOf ps err)) ua

end FerretVerif.Layout
