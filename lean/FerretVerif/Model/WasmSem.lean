/-
  Model/WasmSem.lean — the WebAssembly stack code the wasm back end emits for integer arithmetic, comparisons and
  casts (C02): instructions, their meaning on i32 / i64 bit patterns, a straight-line stack machine, and the symbolic
  stack evaluation `toSsa` that turns such code into the three-address form of `Model/QbeSem.lean`, so that both back
  ends are judged against the same specification (`QbeSem.rowSpec`).  Core-only.

  An i32 value is a bit pattern below 2^32 (class `w`), an i64 value one below 2^64 (class `l`).  The meaning of an
  opcode is given through `QbeSem.evalOp` on the class and opcode listed in `wasmOp` (i32.add is `w add`, i64.lt_u is
  `cultl`, i32.wrap_i64 is `w copy`, i64.extend_i32_s is `extsw`, …); shift counts are taken modulo the width in both.
  One deliberate under-approximation: `i32.rem_s`/`i64.rem_s` are given no value at MIN % -1 (WebAssembly defines 0
  there; the native `rem` traps) — the theorems make no claim at that point.
-/
import FerretVerif.Model.QbeSem
namespace FerretVerif.WasmSem
open FerretVerif.QbeSem

inductive WIns
  | get (i : Nat)                 -- local.get
  | set (i : Nat)                 -- local.set
  | const (c : Cls) (v : Nat)     -- i32.const / i64.const, the operand already as a bit pattern
  | op (name : String)            -- a numeric instruction, by its WebAssembly name
  | ret                           -- return
  deriving DecidableEq, Repr, Inhabited

/-- result class, opcode of `QbeSem.evalOp` with the same meaning on bit patterns, and arity -/
def wasmOp : String → Option (Cls × String × Nat)
  | "i32.add" => some (.w, "add", 2) | "i32.sub" => some (.w, "sub", 2) | "i32.mul" => some (.w, "mul", 2)
  | "i32.div_s" => some (.w, "div", 2) | "i32.div_u" => some (.w, "udiv", 2)
  | "i32.rem_s" => some (.w, "rem", 2) | "i32.rem_u" => some (.w, "urem", 2)
  | "i32.and" => some (.w, "and", 2) | "i32.shl" => some (.w, "shl", 2) | "i32.shr_s" => some (.w, "sar", 2)
  | "i64.add" => some (.l, "add", 2) | "i64.sub" => some (.l, "sub", 2) | "i64.mul" => some (.l, "mul", 2)
  | "i64.div_s" => some (.l, "div", 2) | "i64.div_u" => some (.l, "udiv", 2)
  | "i64.rem_s" => some (.l, "rem", 2) | "i64.rem_u" => some (.l, "urem", 2)
  | "i64.and" => some (.l, "and", 2) | "i64.shl" => some (.l, "shl", 2) | "i64.shr_s" => some (.l, "sar", 2)
  | "i32.eq" => some (.w, "ceqw", 2) | "i32.ne" => some (.w, "cnew", 2)
  | "i32.lt_s" => some (.w, "csltw", 2) | "i32.le_s" => some (.w, "cslew", 2)
  | "i32.gt_s" => some (.w, "csgtw", 2) | "i32.ge_s" => some (.w, "csgew", 2)
  | "i32.lt_u" => some (.w, "cultw", 2) | "i32.le_u" => some (.w, "culew", 2)
  | "i32.gt_u" => some (.w, "cugtw", 2) | "i32.ge_u" => some (.w, "cugew", 2)
  | "i64.eq" => some (.w, "ceql", 2) | "i64.ne" => some (.w, "cnel", 2)
  | "i64.lt_s" => some (.w, "csltl", 2) | "i64.le_s" => some (.w, "cslel", 2)
  | "i64.gt_s" => some (.w, "csgtl", 2) | "i64.ge_s" => some (.w, "csgel", 2)
  | "i64.lt_u" => some (.w, "cultl", 2) | "i64.le_u" => some (.w, "culel", 2)
  | "i64.gt_u" => some (.w, "cugtl", 2) | "i64.ge_u" => some (.w, "cugel", 2)
  | "i32.wrap_i64" => some (.w, "copy", 1)
  | "i64.extend_i32_s" => some (.l, "extsw", 1) | "i64.extend_i32_u" => some (.l, "extuw", 1)
  | _ => none

/-- the stack machine: `stack` has its top first; the value returned is the top of the stack at `return` -/
def wexec : List WIns → (stack locals : List Nat) → Option Nat
  | [], _, _ => none
  | .ret :: _, st, _ => st.head?
  | .get i :: rest, st, ls => do
    let v ← ls[i]?
    wexec rest (v :: st) ls
  | .set i :: rest, st, ls =>
    match st with
    | v :: st' => if i < ls.length then wexec rest st' (ls.set i v) else none
    | [] => none
  | .const c v :: rest, st, ls => wexec rest (pat c v :: st) ls
  | .op name :: rest, st, ls =>
    match wasmOp name, st with
    | some (c, q, 2), y :: x :: st' => do
      let r ← evalOp c q x y
      wexec rest (r :: st') ls
    | some (c, q, 1), x :: st' => do
      let r ← evalOp c q x 0
      wexec rest (r :: st') ls
    | _, _ => none

/-- runs a function body: the locals are the parameters followed by zero-initialised locals -/
def wrun (code : List WIns) (params : List Nat) (nlocals : Nat) : Option Nat :=
  wexec code [] (params ++ List.replicate (nlocals - params.length) 0)

/-- symbolic evaluation of the stack code: every numeric instruction becomes one three-address instruction whose result
    is the next temporary (numbered from `n`); returns the instructions and the operand that is returned -/
def toSsa : List WIns → (stack locals : List Arg) → (n : Nat) → Option (List Ins × Arg)
  | [], _, _, _ => none
  | .ret :: _, st, _, _ => st.head?.map fun a => ([], a)
  | .get i :: rest, st, ls, n => do
    let a ← ls[i]?
    toSsa rest (a :: st) ls n
  | .set i :: rest, st, ls, n =>
    match st with
    | a :: st' => if i < ls.length then toSsa rest st' (ls.set i a) n else none
    | [] => none
  | .const c v :: rest, st, ls, n => toSsa rest (.lit (pat c v) :: st) ls n
  | .op name :: rest, st, ls, n =>
    match wasmOp name, st with
    | some (c, q, 2), b :: a :: st' => do
      let (seq, r) ← toSsa rest (.tmp n :: st') ls (n + 1)
      pure (⟨c, q, a, b⟩ :: seq, r)
    | some (c, q, 1), a :: st' => do
      let (seq, r) ← toSsa rest (.tmp n :: st') ls (n + 1)
      pure (⟨c, q, a, .lit 0⟩ :: seq, r)
    | _, _ => none

/-- the symbolic locals at function entry -/
def entryLocals (nparams nlocals : Nat) : List Arg :=
  (List.range nparams).map .param ++ List.replicate (nlocals - nparams) (.lit 0)

/-- like `QbeSem.exec`, but returning all temporaries -/
def execT (params : List Nat) : List Nat → List Ins → Option (List Nat)
  | tmps, [] => some tmps
  | tmps, i :: rest => do
    let x ← argVal params tmps i.a
    let y ← argVal params tmps i.b
    let r ← evalOp i.cls i.op x y
    execT params (tmps ++ [r]) rest

/-- a row of the regenerated wasm selection table -/
structure WRow where
  kind : Kind
  op : String
  src : Ty
  dst : Ty
  nparams : Nat
  nlocals : Nat
  code : List WIns
  deriving DecidableEq, Repr, Inhabited

/-- the three-address form of a row: `none` if the code is not straight-line code of the modelled instructions.
    A body that returns a parameter untouched (a cast that needs no instruction) is given the explicit `copy` the
    native back end emits for it. -/
def WRow.ssa (r : WRow) : Option (List Ins) :=
  match toSsa r.code [] (entryLocals r.nparams r.nlocals) 0 with
  | some ([], .param 0) => if r.src.cls = r.dst.cls then some [⟨r.dst.cls, "copy", .param 0, .lit 0⟩] else none
  | some (seq, .tmp k) => if seq ≠ [] ∧ k + 1 = seq.length then some seq else none
  | _ => none

/-- what the row must compute (the specification does not depend on the instructions) -/
def WRow.spec (r : WRow) (args : List Int) : Option Nat := rowSpec ⟨r.kind, r.op, r.src, r.dst, []⟩ args

def WRow.toRow (r : WRow) : Option Row := r.ssa.map fun seq => ⟨r.kind, r.op, r.src, r.dst, seq⟩

/-- the row is of a shape proved correct: its three-address form is the sequence `QbeSem.expectedSeq` names -/
def wrowOk (r : WRow) : Bool :=
  match r.toRow with
  | some q => rowOk q && (r.nparams == (if r.kind == .bin || r.kind == .cmp then 2 else 1)) && decide (r.nparams ≤ r.nlocals)
  | none => false

end FerretVerif.WasmSem
