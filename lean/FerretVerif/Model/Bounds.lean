/-
  Model/Bounds.lean — index normalisation and bounds checks (C04, C08).

  Spec: an index `i` into a sequence of length `len` selects element `i` if `0 ≤ i < len`, element `len + i`
  if `-len ≤ i < 0`, and is out of bounds otherwise.
  Impl: (1) the run-time sequence emitted by builder.go `emitBoundsCheckedIndex` on i32 values, preceded by the
  range check and narrowing of `narrowIndexToI32`; (2) the compile-time check of constant indices
  (`constArrayIndex` / `checkArrayBounds`).  Core-only.
-/
namespace FerretVerif.Bounds

/-- specification -/
def normIndex (i : Int) (len : Nat) : Option Nat :=
  if 0 ≤ i ∧ i < len then some i.toNat
  else if -(len : Int) ≤ i ∧ i < 0 then some (i + len).toNat
  else none

/-- two's-complement wrap to a signed `bits`-wide value -/
def wrapS (bits : Nat) (v : Int) : Int :=
  let m : Int := (2 ^ bits : Nat)
  let r := v % m
  if r ≥ (2 ^ (bits - 1) : Nat) then r - m else r

/-- emitBoundsCheckedIndex on i32 operands (`len` is an i32 too):
      neg  := idx < 0;  adj := neg ? len + idx : idx   (32-bit add);   oob := adj < 0 || adj >= len -/
def checked32 (idx : Int) (len : Nat) : Option Nat :=
  let adj := if idx < 0 then wrapS 32 (len + idx) else idx
  if adj < 0 ∨ adj ≥ len then none else some adj.toNat

/-- the behaviour before the repair of F13: truncate the index to i32, then check -/
def implIndexTruncating (i : Int) (len : Nat) : Option Nat := checked32 (wrapS 32 i) len

/-- what the compiled code does with an index value `i` of a source integer type of at most 64 bits
    (builder.go narrowIndexToI32 + emitBoundsCheckedIndex): a value outside the i32 range panics, otherwise
    the value is narrowed (now lossless) and checked -/
def implIndex (i : Int) (len : Nat) : Option Nat :=
  if i > 2147483647 ∨ i < -2147483648 then none else checked32 (wrapS 32 i) len

/-- constArrayIndex / checkArrayBounds: a compile-time constant index is accepted iff it is in [-n, n) -/
def staticIndex (i : Int) (n : Nat) : Option Nat :=
  let j := if i < 0 then (n : Int) + i else i
  if j < 0 ∨ j ≥ n then none else some j.toNat

end FerretVerif.Bounds
