/-
  Model/WasmAlloc.lean — the heap of the wasm runtime (runtime/wasm/runtime.js: `bind`, `align`, `ferret_alloc`).

  Every composite value that does not live in a wasm local (struct literals behind references, dynamic arrays, strings,
  boxed optionals) is placed by `ferret_alloc`, a bump allocator over the module's linear memory.  State: the bump pointer
  and the size of the memory in bytes; `alloc` returns the block's address.  JS numbers are modelled by `Nat`: the real
  `align` uses 32-bit `&`, so the model is the code only while addresses stay below 2^31 (stated where it matters).
-/
namespace FerretVerif.WasmAlloc

def page : Nat := 65536

structure St where
  heap : Nat          -- `heapPtr`
  mem  : Nat          -- `memory.buffer.byteLength`
deriving Repr, DecidableEq

/-- `align(value, 8)` -/
def align8 (v : Nat) : Nat := (v + 7) / 8 * 8

/-- `bind`: the heap starts at the aligned end of the data segment -/
def bind (dataEnd pages : Nat) : St := ⟨align8 dataEnd, pages * page⟩

/-- `Math.ceil(x / 65536)` for a positive integer x -/
def ceilPages (x : Nat) : Nat := (x + (page - 1)) / page

/-- `ferret_alloc(size)`: new state and the address returned -/
def alloc (s : St) (n : Nat) : St × Nat :=
  let h := align8 (s.heap + n)
  let m := if h > s.mem then s.mem + ceilPages (h - s.mem) * page else s.mem
  (⟨h, m⟩, s.heap)

/-- a run of allocations: the blocks handed out, oldest first, as (address, size) -/
def run (s : St) : List Nat → St × List (Nat × Nat)
  | [] => (s, [])
  | n :: ns =>
    let (s', a) := alloc s n
    let (s'', bs) := run s' ns
    (s'', (a, n) :: bs)

/-- the invariant `ferret_alloc` maintains -/
def Inv (s : St) : Prop := s.heap ≤ s.mem ∧ s.heap % 8 = 0

end FerretVerif.WasmAlloc
