/-
  Model/LitCounter.lean — internal/utils/literals.go: process-global atomic counters naming function / struct /
  interface / enum literals (`__func_lit__N` …), drawn by the per-module parser goroutines (C14).
  A schedule is the order in which the goroutines perform their atomic increments.  Core-only.
-/
namespace FerretVerif.LitCounter

/-- one draw: which module's parser asks for the next id of one counter -/
abbrev Sched := List Nat

/-- ids handed out, in schedule order: the i-th draw gets i+1 (atomic.AddInt64(&c, 1)) -/
def assign : Nat → Sched → List (Nat × Nat)
  | _, [] => []
  | c, m :: rest => (m, c + 1) :: assign (c + 1) rest

/-- the ids module `m` received, in its own program order -/
def idsOf (m : Nat) (s : Sched) : List Nat := ((assign 0 s).filter (·.1 == m)).map (·.2)

end FerretVerif.LitCounter
