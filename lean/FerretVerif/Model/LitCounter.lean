/-
  Model/LitCounter.lean — internal/utils/literals.go: process-global atomic counters naming struct / interface / enum
  literals — and, before the repair of F39, function literals (`__func_lit__N`) — drawn by the per-module parser goroutines (C14);
  function literals are now numbered per file (`assignPerFile`).
  A schedule is the order in which the goroutines perform their atomic increments.  Core-only.
-/
namespace FerretVerif.LitCounter

/-- one draw: which module's parser asks for the next id of one counter -/
abbrev Sched := List Nat

/-- ids handed out, in schedule order: the i-th draw gets i+1 (atomic.AddInt64(&c, 1)) -/
def assign : Nat → Sched → List (Nat × Nat)
  | _, [] => []
  | c, m :: rest => (m, c + 1) :: assign (c + 1) rest

/-- the ids module `m` received, in its own program order -/
def idsOf (m : Nat) (s : Sched) : List Nat := ((assign 0 s).filter (·.1 == m)).map (·.2)

/-! ### function literals after the repair of F39: one counter per source file (parser.go `funcLitCount`) -/

/-- ids handed out when every module draws from its own counter: the draw gets 1 + the number of earlier draws of the SAME module -/
def assignPerFile : List (Nat × Nat) → Sched → List (Nat × Nat)
  | _, [] => []
  | seen, m :: rest =>
    let k := (seen.filter (·.1 == m)).length
    (m, k + 1) :: assignPerFile ((m, k + 1) :: seen) rest

def idsOfPerFile (m : Nat) (s : Sched) : List Nat := ((assignPerFile [] s).filter (·.1 == m)).map (·.2)

end FerretVerif.LitCounter
