/-
  Model/Literal.lean — integer literals (C10).

  Spec:  `isIntLit` is the integer part of the lexer's NumberPattern
           -?( 0[xX]H(H|_H)* | 0[oO]O(O|_O)* | 0[bB]B(B|_B)* | D(D|_D)* )
         `specVal` is the mathematical value  ±Σ dᵢ·baseⁱ  of such a literal.
  Impl:  transcription of internal/utils/numeric: cleanNumericString, StringToBigInt (with
         math/big's SetString digit rules), NewNumericValue, FitsInBitSize; and of
         strconv.ParseInt(s, 0, 64) as NewNumericValue used it before the fix (`parseIntBase0`).
  Core-only.
-/
namespace FerretVerif.Literal

-- character classes by code point (Nat comparisons keep the proofs in `omega`/`decide` territory)
def isDec (c : Char) : Bool := 48 ≤ c.toNat && c.toNat ≤ 57
def isOct (c : Char) : Bool := 48 ≤ c.toNat && c.toNat ≤ 55
def isBin (c : Char) : Bool := 48 ≤ c.toNat && c.toNat ≤ 49
def isHex (c : Char) : Bool := isDec c || (97 ≤ c.toNat && c.toNat ≤ 102) || (65 ≤ c.toNat && c.toNat ≤ 70)

/-- value of a digit character in bases up to 16 (36 in math/big, only ≤ 16 is reachable) -/
def digitVal (c : Char) : Nat :=
  if isDec c then c.toNat - 48
  else if 97 ≤ c.toNat && c.toNat ≤ 122 then c.toNat - 97 + 10
  else if 65 ≤ c.toNat && c.toNat ≤ 90 then c.toNat - 65 + 10
  else 99

/-- `D(D|_D)*` after its first digit: every '_' is followed by a digit -/
def groupTail (isDig : Char → Bool) : List Char → Bool
  | [] => true
  | '_' :: c :: rest => isDig c && groupTail isDig rest
  | c :: rest => isDig c && groupTail isDig rest

/-- `D(D|_D)*` -/
def group (isDig : Char → Bool) : List Char → Bool
  | c :: rest => c != '_' && isDig c && groupTail isDig rest
  | [] => false

/-- body of an integer literal (no sign): (base, digit part) -/
def splitBody : List Char → Nat × List Char
  | '0' :: 'x' :: r => (16, r) | '0' :: 'X' :: r => (16, r)
  | '0' :: 'o' :: r => (8, r)  | '0' :: 'O' :: r => (8, r)
  | '0' :: 'b' :: r => (2, r)  | '0' :: 'B' :: r => (2, r)
  | r => (10, r)

def isDigOf (base : Nat) : Char → Bool :=
  if base = 16 then isHex else if base = 8 then isOct else if base = 2 then isBin else isDec

def splitSign : List Char → Bool × List Char
  | '-' :: r => (true, r)
  | r => (false, r)

/-- the integer alternatives of NumberPattern -/
def isIntLit (s : List Char) : Bool :=
  let (_, body) := splitSign s
  let (base, ds) := splitBody body
  group (isDigOf base) ds

/-- Σ dᵢ·baseⁱ over the digits (most significant first), '_' skipped -/
def digitsVal (base : Nat) (ds : List Char) : Nat :=
  (ds.filter (· != '_')).foldl (fun acc c => acc * base + digitVal c) 0

/-- mathematical value of an integer literal -/
def specVal (s : List Char) : Int :=
  let (neg, body) := splitSign s
  let (base, ds) := splitBody body
  if neg then -(digitsVal base ds : Int) else digitsVal base ds

/-! ### implementation model -/

def clean (s : List Char) : List Char := s.filter (· != '_')

/-- math/big (*Int).SetString(s, base) for base ∈ {2,8,10,16}: optional sign, then ≥1 digits all < base -/
def setString (s : List Char) (base : Nat) : Option Int :=
  let (neg, ds) := match s with
    | '+' :: r => (false, r)
    | '-' :: r => (true, r)
    | r => (false, r)
  if ds.isEmpty then none
  else if ds.all (fun c => digitVal c < base) then
    let v := ds.foldl (fun acc c => acc * base + digitVal c) 0
    some (if neg then -(v : Int) else v)
  else none

/-- regex `^0[xX]H+$` etc. on an underscore-free string -/
def matchesPrefixed (p1 p2 : Char) (isDig : Char → Bool) : List Char → Bool
  | '0' :: c :: r => (c == p1 || c == p2) && !r.isEmpty && r.all isDig
  | _ => false

/-- numeric.StringToBigInt -/
def stringToBigInt (s : List Char) : Option Int :=
  let s := clean s
  if matchesPrefixed 'x' 'X' isHex s then setString (s.drop 2) 16
  else if matchesPrefixed 'o' 'O' isOct s then setString (s.drop 2) 8
  else if matchesPrefixed 'b' 'B' isBin s then setString (s.drop 2) 2
  else setString s 10

/-- numeric.NewNumericValue after the fix: sign handled here, magnitude by StringToBigInt
    (never strconv's base-0 rules) -/
def newNumericValue (s : List Char) : Option Int :=
  let s := clean s
  match s with
  | '-' :: r => (stringToBigInt r).map (fun v => -v)
  | r => stringToBigInt r

/-- strconv.ParseInt(s, 0, 64) on an underscore-free string: sign, base prefix with the rule that a
    bare leading 0 means octal, digits, int64 range -/
def parseIntBase0 (s : List Char) : Option Int :=
  let (neg, r) := match s with
    | '+' :: r => (false, r)
    | '-' :: r => (true, r)
    | r => (false, r)
  let (base, ds) := match r with
    | '0' :: 'x' :: d => (16, d) | '0' :: 'X' :: d => (16, d)
    | '0' :: 'o' :: d => (8, d)  | '0' :: 'O' :: d => (8, d)
    | '0' :: 'b' :: d => (2, d)  | '0' :: 'B' :: d => (2, d)
    | '0' :: c :: d => (8, c :: d)
    | d => (10, d)
  if ds.isEmpty then none
  else if ds.all (fun c => digitVal c < base) then
    let v := ds.foldl (fun acc c => acc * base + digitVal c) 0
    let iv : Int := if neg then -(v : Int) else v
    if -(2 ^ 63 : Int) ≤ iv ∧ iv ≤ 2 ^ 63 - 1 then some iv else none
  else none

/-- numeric.NewNumericValue as originally shipped: strconv fast path first -/
def newNumericValueOld (s : List Char) : Option Int :=
  let s := clean s
  match parseIntBase0 s with
  | some v => some v
  | none => stringToBigInt s

/-- FitsInBitSize (both the int64 and the big.Int variant compute this) -/
def fitsBits (v : Int) (bits : Nat) (signed : Bool) : Bool :=
  if signed then decide (-(2 ^ (bits - 1) : Int) ≤ v ∧ v ≤ 2 ^ (bits - 1) - 1)
  else decide (0 ≤ v ∧ v ≤ 2 ^ bits - 1)

/-- typechecker.fitsInType for an integer type -/
def fitsInType (s : List Char) (bits : Nat) (signed : Bool) : Bool :=
  match newNumericValue s with
  | some v => fitsBits v bits signed
  | none => false

end FerretVerif.Literal
