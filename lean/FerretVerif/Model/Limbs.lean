/-
  Model/Limbs.lean — transcription of runtime/core/bigint.c's limb algorithms.

  A multi-limb integer is a little-endian `List Nat`, each limb below the base
  `B` (2^64 natively, 2^32 in the 32-bit-limb configuration; the algebraic
  theorems hold for every base, which also allows refuting a defective variant
  at a scaled-down base by `decide`).  Shift/bit operations take the limb width
  `w` with B = 2^w.

  Core-only (linked into `fvdriver`).
-/
namespace FerretVerif.Limbs

/-- value of a little-endian limb list in base `B` -/
def val (B : Nat) : List Nat → Nat
  | [] => 0
  | x :: xs => x + B * val B xs

/-- all limbs below the base -/
def Wf (B : Nat) (l : List Nat) : Prop := ∀ x ∈ l, x < B

/-- limbs of `v mod B^n` -/
def ofNat (B : Nat) : Nat → Nat → List Nat
  | 0, _ => []
  | n + 1, v => (v % B) :: ofNat B n (v / B)

def zero (n : Nat) : List Nat := List.replicate n 0

def isZero (l : List Nat) : Bool := l.all (· == 0)

/-- ferret_is_negative_limbs: top bit of the top limb (B even) -/
def isNeg (B : Nat) (l : List Nat) : Bool := decide (B ≤ 2 * l.getLastD 0)

/-- ferret_cmp_u_limbs: compare from the most significant limb down -/
def cmpU : List Nat → List Nat → Ordering
  | a :: as, b :: bs =>
    match cmpU as bs with
    | .eq => compare a b
    | r => r
  | _, _ => .eq

/-- ferret_cmp_s_limbs -/
def cmpS (B : Nat) (a b : List Nat) : Ordering :=
  if isNeg B a != isNeg B b then (if isNeg B a then .lt else .gt) else cmpU a b

/-- ferret_add_limbs (carry in a wide accumulator) -/
def addc (B : Nat) : List Nat → List Nat → Nat → List Nat
  | a :: as, b :: bs, c =>
    let s := a + b + c
    (s % B) :: addc B as bs (s / B)
  | _, _, _ => []

def add (B : Nat) (a b : List Nat) : List Nat := addc B a b 0

/-- ferret_sub_limbs as in the tree after the borrow fix:
      bi = b[i] + borrow (wrapping);  borrow' = (bi < borrow) || (a[i] < bi);  out[i] = a[i] - bi (wrapping) -/
def subb (B : Nat) : List Nat → List Nat → Nat → List Nat
  | a :: as, b :: bs, br =>
    let bi := (b + br) % B
    let br' := if bi < br ∨ a < bi then 1 else 0
    ((a + B - bi) % B) :: subb B as bs br'
  | _, _, _ => []

def sub (B : Nat) (a b : List Nat) : List Nat := subb B a b 0

/-- ferret_sub_limbs as originally shipped (borrow' = (a[i] < bi) only): loses the borrow when
    b[i] + borrow wraps to 0.  Kept for the refutation witness `sub_old_borrow_witness`. -/
def subbOld (B : Nat) : List Nat → List Nat → Nat → List Nat
  | a :: as, b :: bs, br =>
    let bi := (b + br) % B
    let br' := if a < bi then 1 else 0
    ((a + B - bi) % B) :: subbOld B as bs br'
  | _, _, _ => []

/-- ferret_negate_limbs: ~v + 1 with a limb-sized carry -/
def negc (B : Nat) : List Nat → Nat → List Nat
  | v :: vs, c =>
    let inv := B - 1 - v
    let sum := (inv + c) % B
    sum :: negc B vs (if sum < inv then 1 else 0)
  | [], _ => []

def neg (B : Nat) (v : List Nat) : List Nat := negc B v 1

/-- ferret_abs_limbs: (magnitude, was-negative) -/
def abs (B : Nat) (v : List Nat) : List Nat × Bool :=
  if isNeg B v then (neg B v, true) else (v, false)

/-- inner loop of ferret_mul_limbs for one limb `a` of the multiplicand; `out` is the slice
    out[i..n), `bs` the multiplier; stops at the end of the slice (j < n - i) -/
def mulRow (B a : Nat) : List Nat → List Nat → Nat → List Nat
  | b :: bs, o :: os, c =>
    let s := a * b + o + c
    (s % B) :: mulRow B a bs os (s / B)
  | _, _, _ => []

/-- outer loop of ferret_mul_limbs: after row i the limb out[i] is final -/
def mulLoop (B : Nat) : List Nat → List Nat → List Nat → List Nat
  | [], _, out => out
  | a :: as, b, out =>
    match mulRow B a b out 0 with
    | [] => []
    | o :: os => o :: mulLoop B as b os

def mul (B : Nat) (a b : List Nat) : List Nat := mulLoop B a b (zero a.length)

/-- get limb i (0 beyond the end; never used out of range by the callers) -/
def limb (l : List Nat) (i : Nat) : Nat := l.getD i 0

/-- ferret_shift_left_limbs -/
def shl (w : Nat) (a : List Nat) (shift : Int) : List Nat :=
  let n := a.length
  if shift ≤ 0 then a
  else if shift ≥ (n * w : Nat) then zero n
  else
    let ws := shift.toNat / w
    let bs := shift.toNat % w
    (List.range n).map fun i =>
      if i < ws then 0
      else
        let src := i - ws
        let v := (limb a src * 2 ^ bs) % 2 ^ w
        if bs ≠ 0 ∧ src > 0 then v ||| (limb a (src - 1) / 2 ^ (w - bs)) else v

/-- ferret_shift_right_limbs -/
def shr (w : Nat) (a : List Nat) (shift : Int) : List Nat :=
  let n := a.length
  if shift ≤ 0 then a
  else if shift ≥ (n * w : Nat) then zero n
  else
    let ws := shift.toNat / w
    let bs := shift.toNat % w
    (List.range n).map fun i =>
      let src := i + ws
      if src ≥ n then 0
      else
        let v := limb a src / 2 ^ bs
        if bs ≠ 0 ∧ src + 1 < n then v ||| ((limb a (src + 1) * 2 ^ (w - bs)) % 2 ^ w) else v

/-- ferret_shift_right_signed_limbs -/
def sar (w : Nat) (a : List Nat) (shift : Int) : List Nat :=
  let n := a.length
  let out := shr w a shift
  if !isNeg (2 ^ w) a then out
  else if shift ≥ (n * w : Nat) then List.replicate n (2 ^ w - 1)
  else if shift ≤ 0 then out
  else
    let ws := shift.toNat / w
    let bs := shift.toNat % w
    (List.range n).map fun i =>
      if i ≥ n - ws then 2 ^ w - 1
      else if bs ≠ 0 ∧ i = n - 1 - ws then limb out i ||| (((2 ^ w - 1) * 2 ^ (w - bs)) % 2 ^ w)
      else limb out i

/-- ferret_get_bit_limbs -/
def getBit (w : Nat) (v : List Nat) (bit : Nat) : Nat := (limb v (bit / w) / 2 ^ (bit % w)) % 2

/-- ferret_set_bit_limbs -/
def setBit (w : Nat) (v : List Nat) (bit : Nat) : List Nat :=
  v.set (bit / w) (limb v (bit / w) ||| 2 ^ (bit % w))

/-- one-bit left shift with carry chain (inner loop of ferret_div_mod_u_limbs) -/
def shl1c (w : Nat) : List Nat → Nat → List Nat
  | r :: rs, c => ((r * 2) % 2 ^ w ||| c) :: shl1c w rs (r / 2 ^ (w - 1))
  | [], _ => []

/-- body of the bit loop of ferret_div_mod_u_limbs for bit index `bit` -/
def divStep (w : Nat) (numer denom : List Nat) (qr : List Nat × List Nat) (bit : Nat) : List Nat × List Nat :=
  let (q, r) := qr
  let r1 := shl1c w r 0
  let r2 := if getBit w numer bit = 1 then r1.set 0 (limb r1 0 ||| 1) else r1
  if cmpU r2 denom != .lt then (setBit w q bit, sub (2 ^ w) r2 denom) else (q, r2)

/-- ferret_div_mod_u_limbs: (ok, quot, rem); bits from the top down -/
def divModU (w : Nat) (numer denom : List Nat) : Bool × List Nat × List Nat :=
  let n := numer.length
  if isZero denom then (false, zero n, zero n)
  else
    let (q, r) := (List.range (n * w)).reverse.foldl (divStep w numer denom) (zero n, zero n)
    (true, q, r)

/-- ferret_mul_add_small: v := v*base + digit -/
def mulAddSmall (B base : Nat) : List Nat → Nat → List Nat
  | v :: vs, c =>
    let p := v * base + c
    (p % B) :: mulAddSmall B base vs (p / B)
  | [], _ => []

/-- ferret_div_small_limbs: little-endian list processed from the top; returns (quotient limbs, remainder) -/
def divSmall (B d : Nat) : List Nat → List Nat × Nat
  | [] => ([], 0)
  | v :: vs =>
    let (qs, rem) := divSmall B d vs
    let acc := rem * B + v
    ((acc / d) :: qs, acc % d)

/-- ferret_limbs_to_decimal: repeated division by 10; `fuel` bounds the loop (80-digit buffer in C) -/
def toDecimalDigits (B : Nat) : Nat → List Nat → List Nat → List Nat
  | 0, _, acc => acc
  | fuel + 1, work, acc =>
    if isZero work then acc
    else
      let (q, r) := divSmall B 10 work
      toDecimalDigits B fuel q (r :: acc)

def toDecimal (B : Nat) (v : List Nat) : String :=
  if isZero v then "0"
  else String.ofList ((toDecimalDigits B 80 v []).map fun d => Char.ofNat (48 + d))

/-- ferret_digit_value -/
def digitValue (c : Char) : Option Nat :=
  if '0' ≤ c ∧ c ≤ '9' then some (c.toNat - 48)
  else if 'a' ≤ c ∧ c ≤ 'f' then some (10 + (c.toNat - 97))
  else if 'A' ≤ c ∧ c ≤ 'F' then some (10 + (c.toNat - 65))
  else none

def isSpaceC (c : Char) : Bool := c == ' ' || c == '\t' || c == '\n' || c == '\x0b' || c == '\x0c' || c == '\r'

/-- ferret_parse_base: (base, rest) -/
def parseBase : List Char → Nat × List Char
  | '0' :: c :: rest =>
    if c == 'x' || c == 'X' then (16, rest)
    else if c == 'o' || c == 'O' then (8, rest)
    else if c == 'b' || c == 'B' then (2, rest)
    else (10, '0' :: c :: rest)
  | s => (10, s)

/-- digit loop of ferret_parse_uint: (limbs, any) -/
def parseDigits (B base : Nat) : List Char → List Nat → Bool → List Nat × Bool
  | [], v, any => (v, any)
  | c :: cs, v, any =>
    if c == '_' then parseDigits B base cs v any
    else match digitValue c with
      | none => (v, any)
      | some d => if d ≥ base then (v, any) else parseDigits B base cs (mulAddSmall B base v d) true

/-- ferret_parse_uint: (ok, limbs, neg) -/
def parseUint (B : Nat) (n : Nat) (allowSign : Bool) (str : List Char) : Bool × List Nat × Bool :=
  let s := str.dropWhile isSpaceC
  let (neg, s) := match s with
    | '+' :: r => (false, r)
    | '-' :: r => (true, r)
    | _ => (false, s)
  if neg && !allowSign then (false, zero n, false)
  else
    let (base, s) := parseBase s
    let (v, any) := parseDigits B base s (zero n) false
    (any, v, neg)

/-- ferret_{i,u}N_from_string -/
def fromString (B n : Nat) (signed : Bool) (str : List Char) : List Nat :=
  let (ok, v, neg) := parseUint B n signed str
  if !ok then zero n else if signed && neg then Limbs.neg B v else v

/-- ferret_iN_to_string / ferret_uN_to_string -/
def toStringS (B : Nat) (signed : Bool) (v : List Nat) : String :=
  if signed && isNeg B v then "-" ++ toDecimal B (neg B v) else toDecimal B v

/-- signed multiply wrapper (ferret_iN_mul) -/
def mulS (B : Nat) (a b : List Nat) : List Nat :=
  let (am, na) := abs B a
  let (bm, nb) := abs B b
  let m := mul B am bm
  if na != nb then neg B m else m

/-- ferret_iN_div: truncating; division by zero yields 0 -/
def divS (w : Nat) (a b : List Nat) : List Nat :=
  let B := 2 ^ w
  let (am, na) := abs B a
  let (bm, nb) := abs B b
  let (_, q, _) := divModU w am bm
  if na != nb then neg B q else q

/-- ferret_iN_mod: sign of the dividend; modulo zero yields 0 -/
def modS (w : Nat) (a b : List Nat) : List Nat :=
  let B := 2 ^ w
  let (am, na) := abs B a
  let (bm, _) := abs B b
  let (_, _, r) := divModU w am bm
  if na then neg B r else r

def divUw (w : Nat) (a b : List Nat) : List Nat := (divModU w a b).2.1
def modUw (w : Nat) (a b : List Nat) : List Nat := (divModU w a b).2.2

/-- ferret_shr1_limbs -/
def shr1 (w : Nat) : List Nat → List Nat
  | [] => []
  | [v] => [v / 2]
  | v :: v' :: vs => ((v / 2) ||| ((v' * 2 ^ (w - 1)) % 2 ^ w)) :: shr1 w (v' :: vs)

/-- binary exponentiation loop of ferret_*_pow (fuel = number of bits) -/
def powLoop (mulf : List Nat → List Nat → List Nat) (w : Nat) : Nat → List Nat → List Nat → List Nat → List Nat
  | 0, result, _, _ => result
  | fuel + 1, result, base, e =>
    if isZero e then result
    else
      let result := if limb e 0 % 2 = 1 then mulf result base else result
      powLoop mulf w fuel result (mulf base base) (shr1 w e)

def one (n : Nat) : List Nat := match n with | 0 => [] | n + 1 => 1 :: zero n

def powU (w : Nat) (base e : List Nat) : List Nat :=
  powLoop (mul (2 ^ w)) w (e.length * w) (one base.length) base e

def powS (w : Nat) (base e : List Nat) : List Nat :=
  if isNeg (2 ^ w) e then zero base.length
  else powLoop (mulS (2 ^ w)) w (e.length * w) (one base.length) base e

/-- ferret_limbs_from_u64 / from_i64 (value given as the 64-bit pattern) -/
def fromU64 (w n : Nat) (v : Nat) : List Nat :=
  if w = 64 then (match n with | 0 => [] | n + 1 => (v % 2 ^ 64) :: zero n)
  else ofNat (2 ^ w) n (v % 2 ^ 64)

def fromI64 (w n : Nat) (v : Nat) : List Nat :=
  let base := fromU64 w n v
  if v % 2 ^ 64 ≥ 2 ^ 63 then
    let filled := (64 + w - 1) / w
    (List.range n).map fun i => if i ≥ filled then 2 ^ w - 1 else limb base i
  else base

/-- ferret_limbs_to_u64 -/
def toU64 (w : Nat) (l : List Nat) : Nat :=
  let limit := min ((64 + w - 1) / w) l.length
  ((List.range limit).foldl (fun acc i => acc ||| ((limb l i * 2 ^ (i * w)) % 2 ^ 64)) 0)

def bitAnd (a b : List Nat) : List Nat := List.zipWith (· &&& ·) a b
def bitOr (a b : List Nat) : List Nat := List.zipWith (· ||| ·) a b
def bitXor (a b : List Nat) : List Nat := List.zipWith (· ^^^ ·) a b
def bitNot (B : Nat) (a : List Nat) : List Nat := a.map (B - 1 - ·)

end FerretVerif.Limbs
