-- Root of the `FerretVerif` library: models (core-only), regenerated tables, proofs and the property theorems.
import FerretVerif.Props.C01
import FerretVerif.Props.C02
import FerretVerif.Props.C04
import FerretVerif.Props.C05
import FerretVerif.Props.C06
import FerretVerif.Props.C08
import FerretVerif.Props.C09
import FerretVerif.Props.C10
import FerretVerif.Props.C11
import FerretVerif.Props.C13
import FerretVerif.Props.C14
import FerretVerif.Props.C15
import FerretVerif.Props.C16
import FerretVerif.Props.C17
import FerretVerif.Props.C18
import FerretVerif.Props.C19
import FerretVerif.Props.C20
