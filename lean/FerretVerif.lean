-- Root of the `FerretVerif` library: models (core-only), regenerated tables,
-- proofs and the property theorems.
import FerretVerif.Model.Num
import FerretVerif.Props.C11
