"""Shared whole-compiler machinery for C01/C02 (and others): catalogue classification against the committed
baseline, random Core Ferret programs against the Lean reference interpreter, shrinking of failing programs."""
import hashlib, json, os, re
from common import *
from corerun import *
import catalogue, coregen

BASELINE = os.path.join(VERIF, "catalogue_baseline.json")


def classify(m, r):
    """'sound' | 'rejected' | 'miscompiled' (+ detail)"""
    c = compare(m, r)
    if c is None:
        return "sound", ""
    if c.startswith("rejected") and r.compile_rc == 1:
        return "rejected", c[:200]
    return "miscompiled", c[:300]


def failure_class(m, r):
    c = compare(m, r)
    if c is None:
        return None
    if c.startswith("rejected"):
        t = strip_ansi(r.compile_out)
        mm = re.search(r"(Assertion [^\n]*|panic: [^\n]*|error(?:\[\w+\])?: [^\n]*|qbe: [^\n]*|wasm[^\n]*)", t)
        return "rej:" + (mm.group(1)[:50] if mm else "?")
    if c.startswith("output line"):
        return "wrong-output"
    if c.startswith("no artifact"):
        return "noartifact"
    return c[:30]


def run_catalogue(target):
    names = [p[0] for p in catalogue.PROBES]
    progs = [p[2] for p in catalogue.PROBES]
    ms = model_run(progs)
    jobs = [{"files": {"main.fer": m.get("text", "")}, "mode": "run", "target": target, "timeout": 30} for m in ms]
    res = run_many(jobs)
    out = {}
    for n, sx, m, r in zip(names, progs, ms, res):
        if "text" not in m or not (m["term"] == "exit" or m["term"].startswith("panic")):
            out[n] = ("model-error", str(m.get("error", m.get("term"))), sx, m, r)
            continue
        k, detail = classify(m, r)
        out[n] = (k, detail, sx, m, r)
    return out


def check_catalogue(rep, pid, target, stats):
    """compares the classification of every probe with the committed baseline"""
    base = json.load(open(BASELINE)) if os.path.exists(BASELINE) else {}
    cur = run_catalogue(target)
    counts = {"sound": 0, "rejected": 0, "miscompiled": 0, "model-error": 0, "newly_sound": []}
    for name, (k, detail, sx, m, r) in cur.items():
        counts[k] = counts.get(k, 0) + 1
        b = base.get(name, {}).get(target)
        if k == "model-error":
            rep.fail("catalogue-model:%s" % name, "reference interpreter cannot run catalogue probe %s: %s" % (name, detail),
                     {"kind": "broken-obligation", "correspondence": "catalogue probe vs Core/Eval", "probe": name}, no_input=True)
        elif b is None or b == "sound":
            if k != "sound":
                rep.fail("probe:%s:%s" % (name, target),
                         "construct form `%s` is %s on %s: %s" % (name, k, target, detail),
                         {"kind": "input", "probe": name, "files": {"main.fer": m["text"]}, "target": target,
                          "expected": {"lines": m["lines"], "term": m["term"]}, "observed": {"lines": r.lines[:50], "exit": r.run_rc, "compile": strip_ansi(r.compile_out)[-600:]},
                          "cmd": "ferret -o out main.fer && ./out"})
        else:
            if k == "sound":
                counts["newly_sound"].append(name)
            else:
                # a form that is broken in the baseline: reported through the known-findings file (key probe:<name>:<target>)
                rep.fail("probe:%s:%s" % (name, target), "construct form `%s` is %s on %s: %s" % (name, k, target, detail),
                         {"kind": "input", "probe": name, "files": {"main.fer": m["text"]}, "target": target})
    stats["catalogue"] = counts
    return cur


def random_programs(rep, pid, target, feats, n, seed0, stats, key_prefix="prog"):
    progs, gens = [], []
    for i in range(n):
        g = coregen.Gen(SplitMix64(seed0 + i), feats)
        progs.append(g.program())
        gens.append(g)
    ms = model_run(progs)
    jobs = [{"files": {"main.fer": m.get("text", "")}, "mode": "run", "target": target, "timeout": 30} for m in ms]
    res = run_many(jobs)
    dist, lines, fails = {}, 0, []
    for g in gens:
        for k, v in g.stats.items():
            dist[k] = dist.get(k, 0) + v
    for i, (sx, m, r) in enumerate(zip(progs, ms, res)):
        if "text" not in m or m["term"] != "exit":
            rep.fail("gen-model:%d" % (seed0 + i), "generated program %d not runnable by the reference interpreter: %s" % (seed0 + i, m.get("error", m.get("term"))),
                     {"kind": "broken-obligation", "correspondence": "coregen vs Core/Eval", "seed": seed0 + i}, no_input=True)
            continue
        lines += len(m["lines"])
        fc = failure_class(m, r)
        if fc:
            fails.append((i, fc))
    # shrink at most two failing programs (one per failure class) and report each failing program
    shrunk = {}
    for i, fc in fails:
        sx = progs[i]
        if fc not in shrunk and len(shrunk) < 2:
            try:
                from shrink import shrink
                shrunk[fc] = shrink(sx, failure_class, target=target, max_rounds=80)
            except Exception as e:      # shrinking is best effort
                shrunk[fc] = sx
        small = shrunk.get(fc, sx)
        sm = model_run([small])[0]
        rep.fail("%s:%s:%s" % (key_prefix, target, hashlib.sha1(sm.get("text", small).encode()).hexdigest()[:12]),
                 "generated program (seed %d) misbehaves on %s: %s" % (seed0 + i, target, compare(ms[i], res[i])[:200]),
                 {"kind": "input", "files": {"main.fer": sm.get("text", "")}, "original_files": {"main.fer": ms[i]["text"]}, "target": target,
                  "expected": {"lines": sm.get("lines"), "term": sm.get("term")}, "failure_class": fc, "seed": seed0 + i,
                  "cmd": "ferret -o out main.fer && ./out"})
    stats["random_" + target] = {"programs": n, "lines_compared": lines, "failing": len(fails), "generator_distribution": dist}
    return progs, ms, res
