"""Tiny DSL producing Core Ferret S-expressions (see lean/FerretVerif/Core/SExp.lean for the format)."""

INT_TYPES = ["i8", "i16", "i32", "i64", "u8", "u16", "u32", "u64", "i128", "u128", "i256", "u256"]


def bits(t): return int(t[1:])
def signed(t): return t[0] == "i"
def tmin(t): return -(1 << (bits(t) - 1)) if signed(t) else 0
def tmax(t): return (1 << (bits(t) - 1)) - 1 if signed(t) else (1 << bits(t)) - 1


def wrap(t, v):
    m = 1 << bits(t)
    v %= m
    return v - m if signed(t) and v >= m // 2 else v


def S(*xs): return "(" + " ".join(str(x) for x in xs) + ")"
def I(t, n): return S("i", t, n)
def B(b): return S("b", "true" if b else "false")
def Str(s): return S("s", s.encode().hex() or "-")
def V(x): return S("v", x)
def Bin(op, t, a, b): return S("bin", op, t, a, b)
def Neg(t, a): return S("neg", t, a)
def Not(a): return S("not", a)
def Cast(t1, t2, a): return S("cast", t1, t2, a)
def Call(f, *args): return S("call", f, *args)
def CallV(f, *args): return S("callv", f, *args)
def MCall(recv, ty, m, *args): return S("mcall", recv, ty, m, *args)
def Fld(e, f): return S("fld", e, f)
def Idx(e, i): return S("idx", e, i)
def SLit(name, **fields): return S("slit", name, *[S(k, v) for k, v in fields.items()])
def SLitL(name, fields): return S("slit", name, *[S(k, v) for k, v in fields])
def ALit(*es): return S("alit", *es)
def ELit(t, v): return S("elit", t, v)
def Lam(params, ret, *body): return S("lam", S(*[S(x, t) for x, t in params]), ret, *body)
def Catch(e, d): return S("catch", e, d)
def OrElse(e, d): return S("orelse", e, d)
def Some(e): return S("some", e)
def NoneE(): return S("none")
def Ref(e): return S("ref", e)
def MutRef(e): return S("mutref", e)
def Len(e): return S("len", e)
def ErrOf(e): return S("errof", e)

# types
def TS(n): return S("S", n)
def TE(n): return S("E", n)
def TA(n, t): return S("A", n, t)
def TD(t): return S("D", t)
def TO(t): return S("O", t)
def TR(e, t): return S("R", e, t)
def TRef(t): return S("Ref", t)
def TMut(t): return S("Mut", t)
def TFn(ps, r): return S("Fn", S(*ps), r)

# statements
def Let(x, t, e): return S("let", x, t, e)
def LetInfer(x, e): return S("letinfer", x, e)
def Const(x, t, e): return S("const", x, t, e)
def Set(p, e): return S("set", p, e)
def OpSet(op, t, p, e): return S("opset", op, t, p, e)
def Inc(t, p): return S("inc", t, p)
def Dec(t, p): return S("dec", t, p)
def If(c, thn, els=()): return S("if", c, S(*thn), S(*els))
def While(c, *body): return S("while", c, *body)
def For(i, t, lo, hi, body, incl=False): return S("for", i, t, lo, hi, "incl" if incl else "excl", *body)
def ForArr(i, v, e, *body): return S("forarr", i, v, e, *body)
def Match(e, cases, default=None):
    items = [S("case", p, *b) for p, b in cases]
    if default is not None:
        items.append(S("default", *default))
    return S("match", e, *items)
def Ret(e=None): return S("ret", e) if e is not None else S("ret")
def RetErr(e): return S("reterr", e)
def Break(): return S("break")
def Continue(): return S("continue")
def Print(e): return S("print", e)
def ExprS(e): return S("expr", e)
def Append(p, e): return S("append", p, e)
def Block(*b): return S("block", *b)
def CatchS(e, x, *body): return S("catchs", e, x, *body)

# declarations
def Struct(name, *fields): return S("struct", name, *[S(f, t) for f, t in fields])
def Enum(name, *variants): return S("enum", name, *variants)
def Fn(name, params, ret, *body): return S("fn", name, S(*[S(x, t) for x, t in params]), ret, *body)
def Method(recv_ty, kind, recv_name, name, params, ret, *body):
    return S("method", recv_ty, kind, recv_name, name, S(*[S(x, t) for x, t in params]), ret, *body)
def ConstD(name, t, e): return S("const", name, t, e)
def Prog(*decls): return S("prog", *decls)
def Main(*body): return Fn("main", [], "void", *body)


def opaque(t, name=None):
    """an identity function the compiler cannot constant-fold through"""
    name = name or "id_" + t
    return Fn(name, [("x", t)], t, Ret(V("x")))
