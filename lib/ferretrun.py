"""Running the real ferret compiler (built from /repo's working tree) on generated projects."""
import os, re, shutil, subprocess, itertools
from concurrent.futures import ThreadPoolExecutor
from common import *

_counter = itertools.count()
DIAG_RE = re.compile(r"^(error|warning|info|hint)(?:\[([A-Z]\d+)\])?: (.*)$")
LOC_RE = re.compile(r"^\s*--> (.*?):(\d+):(\d+)")


def parse_diags(text):
    """[(severity, code, message, file, line, col)] from the compiler's stderr."""
    out = []
    lines = strip_ansi(text).split("\n")
    for i, l in enumerate(lines):
        m = DIAG_RE.match(l.strip())
        if m:
            f = ln = col = None
            for j in range(i + 1, min(i + 4, len(lines))):
                m2 = LOC_RE.match(lines[j])
                if m2:
                    f, ln, col = m2.group(1), int(m2.group(2)), int(m2.group(3))
                    break
            out.append((m.group(1), m.group(2), m.group(3).strip(), f, ln, col))
    return out


class Result:
    __slots__ = ("compile_rc", "compile_out", "diags", "artifact", "run_rc", "stdout", "stderr", "timeout", "dir")

    def __init__(self):
        self.compile_rc = None; self.compile_out = ""; self.diags = []; self.artifact = False
        self.run_rc = None; self.stdout = ""; self.stderr = ""; self.timeout = False; self.dir = None

    @property
    def accepted(self):
        return self.compile_rc == 0

    @property
    def lines(self):
        return self.stdout.split("\n")[:-1] if self.stdout.endswith("\n") else (self.stdout.split("\n") if self.stdout else [])


def run_project(files, mode="run", entry="main.fer", target="native", keep=False, timeout=60, name=None, stdin_text=None):
    """files: {relative path: text}.  mode: 'check' (-t), 'build', 'run'.
    The project directory name is the project name used in import paths."""
    ferret, libs = build_ferret()
    base = os.path.join(scratch(), "proj", "w%d" % next(_counter))
    d = os.path.join(base, name or "app")
    os.makedirs(d, exist_ok=True)
    for rel, text in files.items():
        p = os.path.join(d, rel)
        os.makedirs(os.path.dirname(p), exist_ok=True)
        if isinstance(text, bytes):
            with open(p, "wb") as f:
                f.write(text)
        else:
            with open(p, "w") as f:
                f.write(text)
    r = Result()
    r.dir = d
    env = dict(os.environ)
    env.update(ferret_env(libs))
    outp = os.path.join(d, "out.wasm" if target == "wasm" else "out.bin")
    cmd = [ferret]
    if mode == "check":
        cmd += ["-t"]
    else:
        cmd += ["-o", outp]
        if target == "wasm":
            cmd += ["-target", "wasm"]
    cmd += [entry]
    try:
        p = subprocess.run(cmd, cwd=d, env=env, stdout=subprocess.PIPE, stderr=subprocess.PIPE, text=True, timeout=timeout, errors="replace")
        r.compile_rc = p.returncode
        r.compile_out = p.stdout + p.stderr
    except subprocess.TimeoutExpired:
        r.timeout = True
        r.compile_rc = -999
    r.diags = parse_diags(r.compile_out)
    r.artifact = os.path.exists(outp)
    if mode == "run" and r.compile_rc == 0 and r.artifact:
        so = os.path.join(d, "stdout.txt")
        try:
            if target == "wasm":
                runner = os.path.join(VERIF, "harness", "wasmrun.mjs")
                cmdr = ["node", runner, outp]
            else:
                cmdr = [outp]
            with open(so, "w") as fo:
                pr = subprocess.run(cmdr, cwd=d, stdout=fo, stderr=subprocess.PIPE, text=True, timeout=timeout,
                                    input=stdin_text, errors="replace")
            r.run_rc = pr.returncode
            r.stderr = pr.stderr
        except subprocess.TimeoutExpired:
            r.timeout = True
            r.run_rc = -999
        r.stdout = open(so, errors="replace").read()
    if not keep:
        shutil.rmtree(base, ignore_errors=True)
    return r


def run_many(jobs, workers=None):
    """jobs: list of kwargs dicts for run_project; returns results in order."""
    build_ferret()
    with ThreadPoolExecutor(max_workers=workers or NPROC) as ex:
        res = list(ex.map(lambda kw: run_project(**kw), jobs))
    # a job that timed out while the machine was saturated is run again on its own, with a longer limit, before anyone judges it
    for i, (kw, r) in enumerate(zip(jobs, res)):
        if r.timeout:
            kw2 = dict(kw); kw2["timeout"] = 3 * kw.get("timeout", 60)
            res[i] = run_project(**kw2)
    return res
