"""Meaning-preserving rewrites of Core Ferret programs (S-expression trees as produced by shrink.parse), for C09:
litToCall, bindFresh, letToConst, wrapIfTrue.  Each `sites_*` function lists the applicable sites of a program,
each `apply_*` returns the rewritten tree (the input is not modified)."""
import copy
from shrink import parse, show

ARITH = {"add", "sub", "mul", "div", "rem", "band", "bor", "bxor"}
CMP = {"eq", "ne", "lt", "le", "gt", "ge"}
SIMPLE_STMTS = {"let", "letinfer", "const", "set", "opset", "print", "expr", "ret", "append"}
PLACE_HEADS = {"set": 1, "opset": 3, "inc": 2, "dec": 2, "append": 1}


def get(t, path):
    for i in path:
        t = t[i]
    return t


def replace(t, path, new):
    t = copy.deepcopy(t)
    if not path:
        return new
    p = get(t, path[:-1])
    p[path[-1]] = new
    return t


def head(x):
    return x[0] if isinstance(x, list) and x and isinstance(x[0], str) else None


def walk(t, pre=()):
    """all (path, node) with node a list"""
    if isinstance(t, list):
        yield pre, t
        for i, x in enumerate(t):
            yield from walk(x, pre + (i,))


def decl_types(tree):
    """variable name -> declared type tree (lets, consts, params); names are unique in generated programs"""
    out = {}
    for p, n in walk(tree):
        h = head(n)
        if h in ("let", "const") and len(n) >= 4 and isinstance(n[1], str):
            out[n[1]] = n[2]
        if h == "fn" and len(n) > 3 and isinstance(n[2], list):
            for prm in n[2]:
                if isinstance(prm, list) and len(prm) == 2 and isinstance(prm[0], str): out[prm[0]] = prm[1]
    return out


def fn_names(tree):
    return {n[1] for p, n in walk(tree) if head(n) == "fn" and isinstance(n[1], str)}


# ---------------------------------------------------------------- litToCall
def sites_lit(tree):
    """integer literals that may become calls: not a pattern of a match case, not an index of a FIXED array (the documented
    rule: fixed-array indices must be compile-time constants), not the initialiser of a module-level constant"""
    types = decl_types(tree)
    out = []
    for p, n in walk(tree):
        if head(n) != "i" or len(n) != 3: continue
        if len(p) == 0: continue
        par = get(tree, p[:-1])
        hp = head(par)
        if hp == "case" and p[-1] == 1: continue
        if hp == "idx" and p[-1] == 2:
            base = par[1]
            if head(base) == "v" and head(types.get(base[1])) == "D": pass
            else: continue
        if len(p) == 2 and head(get(tree, p[:1])) == "const": continue        # module-level constant
        # inside a module-level constant expression at any depth
        if len(p) >= 1 and head(get(tree, p[:1])) == "const": continue
        out.append(p)
    return out


def apply_lit(tree, path, k):
    n = get(tree, path)
    name = "litfn%d" % k
    t = replace(tree, path, ["call", name])
    fn = ["fn", name, [], n[1], ["ret", ["i", n[1], n[2]]]]
    t = copy.deepcopy(t)
    t.insert(1, fn)           # after the `prog` head
    return t


# ---------------------------------------------------------------- bindFresh
def pure(e):
    """side-effect free: no calls except the identity helpers id_<t>"""
    for p, n in walk(e):
        h = head(n)
        if h in ("callv", "mcall", "lam", "catch", "append"): return False
        if h == "call" and not str(n[1]).startswith("id_"): return False
    return True


def expr_type(e):
    h = head(e)
    if h == "bin": return e[2] if e[1] in ARITH else ("bool" if e[1] in CMP or e[1] in ("land", "lor") else None)
    if h == "neg": return e[1]
    if h == "cast": return e[2]
    return None


def stmt_lists(tree):
    """(path of the list container, start index) for every statement list: fn bodies, blocks, loop bodies, branches"""
    out = []
    for p, n in walk(tree):
        h = head(n)
        if h == "fn": out.append((p, 4))
        elif h == "method": out.append((p, 7))
        elif h == "lam": out.append((p, 3))
        elif h == "while": out.append((p, 2))
        elif h == "for": out.append((p, 6))
        elif h == "forarr": out.append((p, 4))
        elif h == "block": out.append((p, 1))
        elif h in ("case",): out.append((p, 2))
        elif h == "default": out.append((p, 1))
        elif h == "catchs": out.append((p, 3))
        elif h == "if":
            out.append((p + (2,), 0)); out.append((p + (3,), 0))
    return out


def sites_bind(tree):
    """(list path, index of the statement, path of the subexpression inside the statement)"""
    out = []
    for lp, start in stmt_lists(tree):
        lst = get(tree, lp)
        for i in range(start, len(lst)):
            st = lst[i]
            if head(st) not in SIMPLE_STMTS: continue
            if not pure_stmt(st): continue
            place_arg = PLACE_HEADS.get(head(st))
            for p, n in walk(st):
                if not p: continue
                if place_arg is not None and p[0] == place_arg: continue     # inside the assigned place
                ty = expr_type(n)
                if ty is None or isinstance(ty, list): continue
                if ty == "bool": continue
                if not pure(n): continue
                out.append((lp, i, p))
    return out


def pure_stmt(st):
    for p, n in walk(st):
        h = head(n)
        if h in ("callv", "mcall", "lam", "catch"): return False
        if h == "call" and not str(n[1]).startswith("id_"): return False
    return True


def apply_bind(tree, site, k, immutable_kw="let"):
    lp, i, p = site
    t = copy.deepcopy(tree)
    lst = get(t, lp)
    st = lst[i]
    e = get(st, p)
    name = "tmpv%d" % k
    new_st = replace(st, p, ["v", name])
    lst[i] = new_st
    lst.insert(i, [immutable_kw, name, expr_type(e), e])
    return t


# ---------------------------------------------------------------- letToConst
def sites_const(tree):
    out = []
    for p, n in walk(tree):
        if head(n) != "let" or len(n) < 4 or len(p) < 2: continue
        x = n[1]
        # the enclosing top-level declaration
        top = get(tree, p[:1])
        if mutated(top, x): continue
        ty = n[2]
        if head(ty) in ("D", "Ref", "Mut", "O", "R", "Fn"): continue     # handles / references / optionals: keep `let`
        out.append(p)
    return out


def mutated(top, x):
    for p, n in walk(top):
        h = head(n)
        if h in PLACE_HEADS:
            place = n[PLACE_HEADS[h]]
            if root_var(place) == x: return True
        if h in ("mutref", "ref") and root_var(n[1]) == x: return True
        if h == "mcall" and root_var(n[1]) == x: return True
        if h == "lam" and mentions(n, x): return True          # captured by a closure: leave it alone
        if h == "forarr" and len(n) > 3 and root_var(n[3]) == x: return True
    return False


def root_var(e):
    while isinstance(e, list) and e:
        if e[0] == "v": return e[1]
        if e[0] in ("fld", "idx"): e = e[1]
        else: return None
    return None


def mentions(t, x):
    return any(head(n) == "v" and n[1] == x for _, n in walk(t))


def apply_const(tree, path):
    n = copy.deepcopy(get(tree, path))
    n[0] = "const"
    return replace(tree, path, n)


# ---------------------------------------------------------------- wrapIfTrue
def sites_wrap(tree):
    """(list path, i, j): statements i..j-1 of a list, containing no declaration at their top level (scoping) and, in a non-void
    function, no `return` at any depth (wrapping a function's final return makes its end reachable for the return analysis)"""
    out = []
    for lp, start in stmt_lists(tree):
        lst = get(tree, lp)
        top = get(tree, lp[:1]) if lp else tree
        nonvoid = head(top) in ("fn", "method") and (top[3] if head(top) == "fn" else top[6]) != "void"
        if any(head(get(tree, lp[:k])) == "lam" for k in range(1, len(lp) + 1)): nonvoid = True
        n = len(lst)
        for i in range(start, n):
            for j in range(i + 1, min(n, i + 4) + 1):
                run = lst[i:j]
                if any(head(s) in ("let", "letinfer", "const") for s in run): break
                if nonvoid and any(head(x) in ("ret", "reterr") for s in run for _, x in walk(s)): break
                if any(head(s) in ("break", "continue") for s in run): pass
                out.append((lp, i, j))
    return out


def apply_wrap(tree, site):
    lp, i, j = site
    t = copy.deepcopy(tree)
    lst = get(t, lp)
    run = lst[i:j]
    lst[i:j] = [["if", ["b", "true"], run, []]]
    return t
