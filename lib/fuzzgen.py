"""Input streams for the totality monitor (C13) and the trivia check (C19): seed programs taken from /repo's own
examples, token-level mutations, truncations, raw bytes, small multi-file projects with broken imports.
Every random choice comes from one SplitMix64 state."""
import os, re
from common import *

TOKEN_RE = re.compile(rb'\s+|//[^\n]*|/\*.*?\*/|"[^"\n]*"|\'(?:\\.|[^\'\\])\'|[A-Za-z_][A-Za-z0-9_]*|[0-9][0-9A-Za-z_.]*|::|:=|==|!=|<=|>=|=>|->|\+\+|--|&&|\|\||&\'|\.\.=|\.\.|\?\?|.', re.S)

FRAGMENTS = [b"{", b"}", b"(", b")", b"[", b"]", b";", b",", b"::", b":=", b"=>", b"->", b"&'", b"..", b"..=", b"??", b"?", b"!", b".",
             b"fn", b"let", b"const", b"type", b"struct", b"enum", b"interface", b"match", b"if", b"else", b"while", b"for", b"in", b"return",
             b"import", b"as", b"catch", b"break", b"continue", b"map", b"true", b"false", b"none", b"i32", b"str", b"\"", b"'", b"/*", b"*/", b"//",
             b"0x", b"0b", b"1e", b"1.", b"-", b"'\\x", b"'\\", b"\\", b"@", b"#", b"$", b"`", b"~", b"\x00", b"\xff", b"\xc3", b"\xe2\x82", b"\xf0\x9f\x98\x80",
             b"\t", b"\r\n", b"\n\n", b"_", b"0_", b"9999999999999999999999999999999999999999", b"1e9999", b"[1 2]", b"{.x=}", b"fn(", b"fn (", b"::<", b"<-"]


def seed_programs():
    """[(name, bytes)] — the repository's own example programs (read from the current tree)"""
    out = []
    for d in ("examples", "."):
        dd = os.path.join(REPO, d)
        if not os.path.isdir(dd):
            continue
        for f in sorted(os.listdir(dd)):
            p = os.path.join(dd, f)
            if f.endswith(".fer") and os.path.isfile(p) and os.path.getsize(p) < 20000:
                try:
                    out.append((os.path.join(d, f), open(p, "rb").read()))
                except OSError:
                    pass
    out.append(("builtin/min", b'import "std/io";\nfn main() {\n    let x: i32 = 1;\n    io::Println(x);\n}\n'))
    out.append(("builtin/types", b'import "std/io";\ntype P struct { .X: i32, .Y: i64 };\ntype C enum { Red, Green };\ntype S interface { area() -> i32 };\n'
                b'fn (p: &\'P) Bump() { p.X = p.X + 1; }\nfn f(a: i32, b: []i32) -> str ! i32 { if a > 0 { return "e"!; } return a; }\n'
                b'fn main() {\n    let p: P = { .X = 1, .Y = 2 } as P;\n    let m := {"a" => 1} as map[str]i32;\n    let o: i32? = none;\n    let r := f(1, [1, 2]) catch e { io::Println(e); return; };\n'
                b'    match r { 1 => { io::Println(o ?? 5); } _ => { } }\n    for i, v in [1, 2, 3] { io::Println(v); }\n    let g := fn(a: i32) -> i32 { return a + p.X; };\n    io::Println(g(1));\n}\n'))
    return out


def tokens_of(src):
    return TOKEN_RE.findall(src)


def mutate(rng, src):
    """one structural mutation of a program; returns (kind, bytes)"""
    k = rng.below(11)
    toks = tokens_of(src)
    if not toks:
        return "empty", src
    if k == 0:       # truncate at a byte
        n = rng.below(len(src) + 1)
        return "truncate-byte", src[:n]
    if k == 1:       # truncate at a token
        n = rng.below(len(toks) + 1)
        return "truncate-token", b"".join(toks[:n])
    if k == 2:       # delete a token
        i = rng.below(len(toks))
        return "delete-token", b"".join(toks[:i] + toks[i + 1:])
    if k == 3:       # duplicate a token
        i = rng.below(len(toks))
        return "dup-token", b"".join(toks[:i + 1] + toks[i:])
    if k == 4:       # swap two tokens
        i, j = rng.below(len(toks)), rng.below(len(toks))
        t = list(toks)
        t[i], t[j] = t[j], t[i]
        return "swap-tokens", b"".join(t)
    if k == 5:       # shuffle a window
        i = rng.below(len(toks))
        w = toks[i:i + 2 + rng.below(8)]
        for a in range(len(w) - 1, 0, -1):
            b = rng.below(a + 1)
            w[a], w[b] = w[b], w[a]
        return "shuffle-window", b"".join(toks[:i] + w + toks[i + len(w):])
    if k == 6:       # insert a fragment
        i = rng.below(len(toks) + 1)
        return "insert-fragment", b"".join(toks[:i] + [rng.choice(FRAGMENTS)] + toks[i:])
    if k == 7:       # replace a token by a fragment
        i = rng.below(len(toks))
        return "replace-token", b"".join(toks[:i] + [rng.choice(FRAGMENTS)] + toks[i + 1:])
    if k == 8:       # delete a balanced-looking region's closer / opener
        idx = [i for i, t in enumerate(toks) if t in (b"{", b"}", b"(", b")", b"[", b"]", b";", b",")]
        if idx:
            i = rng.choice(idx)
            return "drop-punct", b"".join(toks[:i] + toks[i + 1:])
        return "same", src
    if k == 9:       # flip a byte
        if not src:
            return "same", src
        i = rng.below(len(src))
        return "flip-byte", src[:i] + bytes([rng.below(256)]) + src[i + 1:]
    # several mutations
    s = src
    for _ in range(2 + rng.below(4)):
        _, s = mutate(rng, s)
    return "multi", s


def raw_bytes(rng):
    n = rng.below(200)
    mode = rng.below(4)
    if mode == 0:
        return "raw-bytes", bytes(rng.below(256) for _ in range(n))
    if mode == 1:
        return "raw-ascii", bytes(32 + rng.below(95) for _ in range(n))
    if mode == 2:
        return "raw-fragments", b" ".join(rng.choice(FRAGMENTS) for _ in range(rng.below(40)))
    return "raw-punct", bytes(rng.choice(b"{}()[];,.:=<>!&|+-*/%?'\"\\\n\t _09az") for _ in range(n))


IMPORT_CASES = [
    ("missing-module", {"main.fer": 'import "std/io";\nimport "app/nothere";\nfn main() { io::Println(1); }\n'}),
    ("missing-std", {"main.fer": 'import "std/nothere";\nfn main() { }\n'}),
    ("empty-import", {"main.fer": 'import "";\nfn main() { }\n'}),
    ("import-dir-escape", {"main.fer": 'import "../../etc/passwd";\nfn main() { }\n'}),
    ("import-abs", {"main.fer": 'import "/etc/passwd";\nfn main() { }\n'}),
    ("import-weird", {"main.fer": 'import "app/a b\\tc";\nimport "app//x";\nimport "app/x/";\nfn main() { }\n'}),
    ("import-not-string", {"main.fer": 'import 42;\nimport app;\nfn main() { }\n'}),
    ("import-after-code", {"main.fer": 'fn main() { }\nimport "std/io";\n'}),
    ("self-import", {"main.fer": 'import "app/main";\nfn main() { }\n'}),
    ("cycle-2", {"main.fer": 'import "app/a";\nfn main() { a::F(); }\n', "a.fer": 'import "app/b";\nfn F() { b::G(); }\n', "b.fer": 'import "app/a";\nfn G() { a::F(); }\n'}),
    ("malformed-module", {"main.fer": 'import "std/io";\nimport "app/bad";\nfn main() { io::Println(bad::X); }\n', "bad.fer": 'const X: i32 = ;\nfn ( {\n'}),
    ("binary-module", {"main.fer": 'import "app/bin";\nfn main() { }\n', "bin.fer": None}),
    ("empty-module", {"main.fer": 'import "app/e";\nfn main() { e::F(); }\n', "e.fer": ''}),
    ("empty-main", {"main.fer": ''}),
    ("no-main", {"main.fer": 'import "std/io";\nfn helper() { io::Println(1); }\n'}),
    ("main-with-args", {"main.fer": 'fn main(a: i32) -> i32 { return a; }\n'}),
    ("dup-import", {"main.fer": 'import "std/io";\nimport "std/io";\nimport "std/io" as io2;\nfn main() { io::Println(1); io2::Println(2); }\n'}),
    ("alias-clash", {"main.fer": 'import "std/io" as x;\nimport "std/math" as x;\nfn main() { }\n'}),
    ("private-use", {"main.fer": 'import "app/m";\nfn main() { m::hidden(); }\n', "m.fer": 'fn hidden() { }\n'}),
    ("use-missing-symbol", {"main.fer": 'import "app/m";\nfn main() { m::Nope(); m::Nope.x; }\n', "m.fer": 'fn Yes() { }\n'}),
    ("deep-missing", {"main.fer": 'import "app/a";\nfn main() { a::F(); }\n', "a.fer": 'import "app/b";\nfn F() { b::G(); }\n', "b.fer": 'import "app/zzz";\nfn G() { }\n'}),
    ("module-dir", {"main.fer": 'import "app/sub/x";\nfn main() { x::F(); }\n', "sub/x.fer": 'fn F() { }\n'}),
    # two modules whose import paths collapse to the same symbol prefix: everything passes until the linker
    ("link-collision", {"main.fer": 'import "std/io";\nimport "app/a_b";\nimport "app/a/b";\nfn main() { io::Println(a_b::F()); }\n', "a_b.fer": "fn F() -> i32 { return 1; }\n", "a/b.fer": "fn F() -> i32 { return 2; }\n"}),
    ("module-dir-missing", {"main.fer": 'import "app/sub";\nfn main() { }\n', "sub/x.fer": 'fn F() { }\n'}),
]


def import_case(rng, i):
    name, files = IMPORT_CASES[i % len(IMPORT_CASES)]
    out = {}
    for k, v in files.items():
        out[k] = bytes(rng.below(256) for _ in range(64)) if v is None else v.encode()
    return "import:" + name, out
